(* LimitsSim.v — C18, part 3: a generic simulation between two evaluations that differ only in the depth
   counter they carry (and, at the top, in whether the depth guards are attached).
     RelC e xA xB :  if xA is a result whose log passes the check `chk k` then xB = xA
                     (and the log is `okA`, and passing the check implies that e passes it)
   `chk` / `okA` are abstract: instance 1 (chk = "no limit_depth raise in the log") gives transparency of a guard
   that never fires; instance 2 (chk = "the RAII counter stays within the limits") gives transparency for inputs
   that need at most the configured nesting.  One lemma per helper, induction on the fuel at the top (LimitsDepth.v). *)
From Coq Require Import Lia.
From PegtlV Require Import Base Decode Grammar Engine LimitsSpec LimitsLog.

Section Sim.
Variable C : cfg.
Variable Fams : nat -> Prop.
Variable chk : nat -> list event -> bool.
Variable okA : list event -> Prop.
Hypothesis chk_nil : forall k, chk k [] = true.
Hypothesis chk_app : forall k a b, okA a -> chk k (a ++ b) = chk k a && chk k b.
Hypothesis chk_neutral : forall k e, neutral e -> chk k [e] = true.
Hypothesis okA_nil : okA [].
Hypothesis okA_app : forall a b, okA a -> okA b -> okA (a ++ b).
Hypothesis okA_neutral : forall e, neutral e -> okA [e].
Hypothesis Hact_change : forall fam r fam', Fams fam ->
  acts C fam r = AKMatch (MChangeAction fam') \/ acts C fam r = AKMatch (MChangeActionAndState fam') -> Fams fam'.

Variable k : nat.

Definition RelC (e0 : list event) (xA xB : result) : Prop :=
  match xA with
  | Res o c l => okA l /\ (chk k l = true -> chk k e0 = true /\ xB = xA)
  | _ => True
  end.
Definition Rel := RelC [].

Lemma okA_cons e l : neutral e -> okA l -> okA (e :: l).
Proof. intros He Hl. change (okA ([e] ++ l)). apply okA_app; [apply okA_neutral; exact He | exact Hl]. Qed.
Lemma okA_snoc e l : neutral e -> okA l -> okA (l ++ [e]).
Proof. intros He Hl. apply okA_app; [exact Hl | apply okA_neutral; exact He]. Qed.
Lemma okA_all l : Forall neutral l -> okA l.
Proof. induction 1; [apply okA_nil | apply okA_cons; assumption]. Qed.
Lemma chk_cons e l : neutral e -> chk k (e :: l) = chk k l.
Proof. intros He. change (chk k ([e] ++ l) = chk k l). rewrite chk_app by (apply okA_neutral; exact He). rewrite chk_neutral by exact He. reflexivity. Qed.
Lemma chk_snoc e l : neutral e -> okA l -> chk k (l ++ [e]) = chk k l.
Proof. intros He Hl. rewrite chk_app by exact Hl. rewrite chk_neutral by exact He. apply andb_true_r. Qed.
Lemma chk_all l : Forall neutral l -> chk k l = true.
Proof. induction 1; [apply chk_nil | rewrite chk_cons; assumption]. Qed.

Lemma RelC_refl e0 o c l : okA l -> (chk k l = true -> chk k e0 = true) -> RelC e0 (Res o c l) (Res o c l).
Proof. intros H1 H2. simpl. split; [exact H1 | intros H; split; [apply H2; exact H | reflexivity]]. Qed.
Lemma RelC_weaken e0 e1 xA xB : (chk k e0 = true -> chk k e1 = true) -> RelC e0 xA xB -> RelC e1 xA xB.
Proof. intros Hw. destruct xA as [o c l| |]; simpl; auto. intros [H1 H2]. split; [exact H1|]. intros H. destruct (H2 H) as [H3 H4]. auto. Qed.
Lemma RelC_Rel e0 xA xB : RelC e0 xA xB -> Rel xA xB.
Proof. apply RelC_weaken. intros _. apply chk_nil. Qed.
Lemma RelC_prepend e yA yB : okA e -> Rel yA yB -> RelC e (prepend e yA) (prepend e yB).
Proof.
  intros He. destruct yA as [o c l| |]; simpl; auto. intros [H1 H2]. split; [apply okA_app; assumption|].
  intros H. rewrite chk_app in H by exact He. apply andb_true_iff in H. destruct H as [Ha Hb]. split; [exact Ha|].
  destruct (H2 Hb) as [_ ->]. reflexivity.
Qed.
Lemma Rel_prepend e yA yB : okA e -> Rel yA yB -> Rel (prepend e yA) (prepend e yB).
Proof. intros He H. eapply RelC_Rel. apply RelC_prepend; eauto. Qed.

(* the work horse: a match on the sub-result whose Oof / Err branches are the identity *)
Lemma RelC_match e0 yA yB (KA KB : outcome -> cursor -> list event -> result) :
  okA e0 -> Rel yA yB ->
  (forall o c evs, okA evs -> RelC (e0 ++ evs) (KA o c evs) (KB o c evs)) ->
  RelC e0 (match yA with Res o c evs => KA o c evs | Oof => Oof | Err => Err end)
          (match yB with Res o c evs => KB o c evs | Oof => Oof | Err => Err end).
Proof.
  intros H0 Hy HK. destruct yA as [o c evs| |]; simpl; auto. destruct Hy as [Hok Himp].
  specialize (HK o c evs Hok). destruct (KA o c evs) as [o' c' l| |]; simpl in *; auto.
  destruct HK as [K1 K2]. split; [exact K1|]. intros H. destruct (K2 H) as [K3 K4].
  rewrite chk_app in K3 by exact H0. apply andb_true_iff in K3. destruct K3 as [Ka Kb].
  split; [exact Ka|]. destruct (Himp Kb) as [_ ->]. exact K4.
Qed.
Lemma Rel_match yA yB (KA KB : outcome -> cursor -> list event -> result) :
  Rel yA yB -> (forall o c evs, okA evs -> RelC evs (KA o c evs) (KB o c evs)) ->
  Rel (match yA with Res o c evs => KA o c evs | Oof => Oof | Err => Err end)
      (match yB with Res o c evs => KB o c evs | Oof => Oof | Err => Err end).
Proof. intros Hy HK. apply (RelC_match []); [apply okA_nil | exact Hy | exact HK]. Qed.

Lemma Rel_bind xA xB (kA kB : cursor -> result) : Rel xA xB -> (forall c, Rel (kA c) (kB c)) -> Rel (bind xA kA) (bind xB kB).
Proof.
  intros Hx Hk. destruct xA as [o c l| |]; simpl; auto. destruct Hx as [H1 H2].
  destruct o.
  - assert (R : RelC l (prepend l (kA c)) (prepend l (kB c))) by (apply RelC_prepend; [exact H1 | apply Hk]).
    destruct (prepend l (kA c)) as [o' c' l'| |]; simpl in *; auto. destruct R as [R1 R2]. split; [exact R1|].
    intros H. destruct (R2 H) as [R3 R4]. split; [apply chk_nil|]. destruct (H2 R3) as [_ ->]. simpl. exact R4.
  - split; [exact H1|]. intros H. destruct (H2 H) as [_ ->]. split; [apply chk_nil | reflexivity].
  - split; [exact H1|]. intros H. destruct (H2 H) as [_ ->]. split; [apply chk_nil | reflexivity].
Qed.

(* wrappers that keep the log *)
Lemma RelC_keep (F : result -> result) e0 xA xB :
  (forall o c l, exists o' c', F (Res o c l) = Res o' c' l) -> F Oof = Oof -> F Err = Err ->
  RelC e0 xA xB -> RelC e0 (F xA) (F xB).
Proof.
  intros HF Ho He. destruct xA as [o c l| |]; [|rewrite Ho; exact (fun _ => I)|rewrite He; exact (fun _ => I)].
  destruct (HF o c l) as [o' [c' E]]. rewrite E. simpl. intros [H1 H2]. split; [exact H1|].
  intros H. destruct (H2 H) as [H3 ->]. split; [exact H3 | exact E].
Qed.
Lemma RelC_guard m s e0 xA xB : RelC e0 xA xB -> RelC e0 (guard m s xA) (guard m s xB).
Proof. apply RelC_keep; try reflexivity. intros [| |e] c l; simpl; eauto. Qed.
Lemma RelC_look i s e0 xA xB : RelC e0 xA xB -> RelC e0 (look i s xA) (look i s xB).
Proof. apply RelC_keep; try reflexivity. intros [| |e] c l; simpl; eauto. Qed.
Lemma RelC_st_scope b r c0 xA xB : Rel xA xB -> Rel (st_scope b r c0 xA) (st_scope b r c0 xB).
Proof.
  destruct xA as [o c l| |]; simpl; auto. intros [H1 H2].
  assert (T : forall tl, Forall neutral tl -> okA (EStNew r (cpos c0) :: l ++ tl) /\
               (chk k (EStNew r (cpos c0) :: l ++ tl) = true -> chk k l = true)).
  { intros tl Ht. split; [apply okA_cons; [exact I | apply okA_app; [exact H1 | apply okA_all; exact Ht]]|].
    rewrite chk_cons by exact I. rewrite chk_app by exact H1. intros H. apply andb_true_iff in H. apply H. }
  destruct o.
  - destruct (T ((if b then [EStSuccess r (cpos c)] else []) ++ [EStDrop r])) as [T1 T2].
    { destruct b; simpl; repeat constructor. }
    split; [exact T1|]. intros H. split; [apply chk_nil|]. destruct (H2 (T2 H)) as [_ ->]. reflexivity.
  - destruct (T [EStDrop r]) as [T1 T2]; [repeat constructor|].
    split; [exact T1|]. intros H. split; [apply chk_nil|]. destruct (H2 (T2 H)) as [_ ->]. reflexivity.
  - destruct (T [EStDrop r]) as [T1 T2]; [repeat constructor|].
    split; [exact T1|]. intros H. split; [apply chk_nil|]. destruct (H2 (T2 H)) as [_ ->]. reflexivity.
Qed.

Ltac dres x := destruct x as [[| |?e] ?c ?evs| |].

Section HelperSim.
Variables evA evB : dyn -> rid -> cursor -> result.
Hypothesis Hev : forall d r c, Fams (dAct d) -> Rel (evA d r c) (evB (set_depth d k) r c).

Lemma seq_all_S d rs : Fams (dAct d) -> forall c, Rel (seq_all evA d rs c) (seq_all evB (set_depth d k) rs c).
Proof.
  intros Hd. induction rs as [|r rs IH]; intros c; simpl.
  - apply RelC_refl; [apply okA_nil | auto].
  - apply Rel_bind; [apply Hev; exact Hd | exact IH].
Qed.

Lemma sor_any_S d rs : Fams (dAct d) -> forall c, Rel (sor_any evA d rs c) (sor_any evB (set_depth d k) rs c).
Proof.
  intros Hd. induction rs as [|r rs IH]; intros c; [apply RelC_refl; [apply okA_nil | auto]|].
  destruct rs as [|r2 rs']; [apply Hev; exact Hd|].
  change (sor_any evA d (r :: r2 :: rs') c) with (match evA (req d) r c with Res Fail c' evs => prepend evs (sor_any evA d (r2 :: rs') c') | x => x end).
  change (sor_any evB (set_depth d k) (r :: r2 :: rs') c) with
    (match evB (set_depth (req d) k) r c with Res Fail c' evs => prepend evs (sor_any evB (set_depth d k) (r2 :: rs') c') | x => x end).
  apply Rel_match; [apply Hev; exact Hd|].
  intros o c1 evs1 Hok. destruct o; try (apply RelC_refl; auto). apply RelC_prepend; [exact Hok | apply IH].
Qed.

Ltac sokA := repeat first [ assumption | apply okA_nil | apply okA_app | (apply okA_cons; [exact I|]) | (apply okA_neutral; exact I) | (apply okA_all; assumption) ].
(* from  chk k L = true  derive  chk k l = true  for a piece l of L surrounded by neutral events *)
Ltac schk :=
  let H := fresh "Hc" in
  intros H; repeat first [ rewrite chk_cons in H by exact I | rewrite chk_app in H by sokA ];
  rewrite ?andb_true_iff in H; repeat first [ rewrite chk_cons by exact I | rewrite chk_app by sokA ]; rewrite ?andb_true_iff;
  intuition (try assumption; try (apply chk_all; assumption); try (apply chk_neutral; exact I); try apply chk_nil).
Ltac srefl := apply RelC_refl; [sokA | try schk].

Lemma RelC_same e0 t :
  match t with Res _ _ l => okA l /\ (chk k l = true -> chk k e0 = true) | _ => True end -> RelC e0 t t.
Proof. destruct t as [o c l| |]; simpl; auto. intros [H1 H2]. split; [exact H1 | intros H; split; [apply H2; exact H | reflexivity]]. Qed.

Lemma star_loop_S n d rs : Fams (dAct d) -> forall c, Rel (star_loop evA n d rs c) (star_loop evB n (set_depth d k) rs c).
Proof.
  intros Hd. induction n as [|n IH]; intros c; simpl; [exact I|].
  apply Rel_match; [apply (seq_all_S (req d) rs Hd)|].
  intros o c1 evs1 Hok. destruct o; try srefl. apply RelC_prepend; [exact Hok | apply IH].
Qed.

Lemma until1_S n d cn : Fams (dAct d) -> forall c, Rel (until1_loop C evA n d cn c) (until1_loop C evB n (set_depth d k) cn c).
Proof.
  intros Hd. induction n as [|n IH]; intros c; cbn [until1_loop]; [exact I|].
  apply Rel_match; [apply (Hev (req d)); exact Hd|].
  intros o c1 evs1 Hok. destruct o; try srefl.
  destruct (in_empty c1); [srefl|]. destruct (bump_scan (eol_ch (ceol C)) 1 c1) as [c2|]; [|exact I].
  apply RelC_prepend; [exact Hok | apply IH].
Qed.

Lemma until2_S n d cn r : Fams (dAct d) -> forall c, Rel (until2_loop evA n d cn r c) (until2_loop evB n (set_depth d k) cn r c).
Proof.
  intros Hd. induction n as [|n IH]; intros c; simpl; [exact I|].
  apply Rel_match; [apply (Hev (req d)); exact Hd|].
  intros o c1 evs1 Hok. destruct o; try srefl.
  apply (RelC_match evs1); [exact Hok | apply (Hev (opt_ d)); exact Hd|].
  intros o2 c2 evs2 Hok2. destruct o2; simpl; try srefl.
  apply RelC_prepend; [sokA | apply IH].
Qed.

Lemma rep_loop_S n d r : Fams (dAct d) -> forall c, Rel (rep_loop evA n d r c) (rep_loop evB n (set_depth d k) r c).
Proof.
  intros Hd. induction n as [|n IH]; intros c; simpl; [srefl|]. apply Rel_bind; [apply Hev; exact Hd | exact IH].
Qed.

Definition RelP (pA pB : result * bool) : Prop :=
  match fst pA with Res o c l => okA l /\ (chk k l = true -> pB = pA) | _ => True end.

Lemma repopt_loop_S n d r : Fams (dAct d) -> forall c, RelP (repopt_loop evA n d r c) (repopt_loop evB n (set_depth d k) r c).
Proof.
  intros Hd. induction n as [|n IH]; intros c; simpl; [split; [apply okA_nil | reflexivity]|].
  change (req (set_depth d k)) with (set_depth (req d) k).
  pose proof (Hev (req d) r c Hd) as H. destruct (evA (req d) r c) as [o c1 l| |]; [|exact I|exact I].
  destruct H as [H1 H2]. destruct o.
  - specialize (IH c1). unfold RelP in *. destruct (repopt_loop evA n d r c1) as [xA bA]. simpl in *.
    destruct xA as [o2 c2 l2| |]; simpl; auto. destruct IH as [I1 I2]. split; [sokA|].
    intros H. rewrite chk_app in H by exact H1. apply andb_true_iff in H. destruct H as [Ha Hb].
    destruct (H2 Ha) as [_ ->]. rewrite (I2 Hb). reflexivity.
  - unfold RelP. simpl. split; [exact H1|]. intros H. destruct (H2 H) as [_ ->]. reflexivity.
  - unfold RelP. simpl. split; [exact H1|]. intros H. destruct (H2 H) as [_ ->]. reflexivity.
Qed.

Lemma h_seq_S d rs c : Fams (dAct d) -> Rel (h_seq evA d rs c) (h_seq evB (set_depth d k) rs c).
Proof.
  intros Hd. unfold h_seq. destruct rs as [|r1 [|r2 rs]].
  - apply RelC_guard. apply (seq_all_S (opt_ d) [] Hd).
  - apply Hev; exact Hd.
  - apply RelC_guard. apply (seq_all_S (opt_ d) (r1 :: r2 :: rs) Hd).
Qed.

Lemma h_at_S i d r1 c : Fams (dAct d) -> Rel (h_at evA i d r1 c) (h_at evB i (set_depth d k) r1 c).
Proof. intros Hd. unfold h_at. apply RelC_look. apply (Hev (set_A (opt_ d) false)). exact Hd. Qed.

Lemma star_strict_S n d r1 rs : Fams (dAct d) -> forall c, Rel (star_strict_loop evA n d r1 rs c) (star_strict_loop evB n (set_depth d k) r1 rs c).
Proof.
  intros Hd. induction n as [|n IH]; intros c; simpl; [exact I|].
  apply Rel_match; [apply (Hev (req d)); exact Hd|].
  intros o c1 evs1 Hok. destruct o; try srefl.
  apply (RelC_match evs1); [exact Hok | apply (h_seq_S (opt_ d) rs c1 Hd)|].
  intros o2 c2 evs2 Hok2. destruct o2; simpl; try srefl.
  apply RelC_prepend; [sokA | apply IH].
Qed.

Lemma rematch_all_S d rs i2 : Fams (dAct d) -> Rel (rematch_all evA d rs i2) (rematch_all evB (set_depth d k) rs i2).
Proof.
  intros Hd. induction rs as [|r rs IH]; simpl; [srefl|].
  apply Rel_match; [apply Hev; exact Hd|].
  intros o c1 evs1 Hok. destruct o; try srefl. apply RelC_prepend; [exact Hok | exact IH].
Qed.

Lemma inline_result_same e0 x c1 c2 pre : okA pre -> (chk k pre = true -> chk k e0 = true) -> Forall neutral (snd x) ->
  RelC e0 (inline_result x c1 c2 pre) (inline_result x c1 c2 pre).
Proof.
  intros Hp Hc Hn. apply RelC_same. destruct x as [[[|]|t] evs]; simpl in *; (split; [sokA|]);
    intros H; rewrite chk_app in H by exact Hp; apply andb_true_iff in H; apply Hc, H.
Qed.

Lemma atom_S h c x : eval_atom (ceol C) h c = Some x -> Rel x x.
Proof.
  intros Ea. pose proof (atom_L C (fun _ l => l = []) (fun _ => eq_refl) 0%nat h c x Ea) as H.
  apply RelC_same. destruct x as [o c1 l| |]; simpl in *; auto. subst l. split; [apply okA_nil | auto].
Qed.

Lemma eval_head_S n self h subs d c :
  Fams (dAct d) -> (forall fam, h = HAction fam -> Fams fam) ->
  Rel (eval_head C evA n self h subs d c) (eval_head C evB n self h subs (set_depth d k) c).
Proof.
  intros Hd Hfam. unfold eval_head.
  destruct (eval_atom (ceol C) h c) as [x|] eqn:Ea; [eapply atom_S; exact Ea|].
  assert (F : Rel (Res Fail c []) (Res Fail c [])) by srefl.
  destruct h; try exact F; try (simpl in Ea; discriminate Ea).
  - apply h_seq_S; exact Hd.
  - apply sor_any_S; exact Hd.
  - apply star_loop_S; exact Hd.
  - destruct subs as [|r1 [|? ?]]; try exact F. unfold h_plus. apply Rel_bind; [apply Hev; exact Hd | intros; apply star_loop_S; exact Hd].
  - unfold h_partial. apply Rel_match; [apply (seq_all_S (req d) subs Hd)|]. intros o c1 evs1 Hok. destruct o; srefl.
  - destruct subs as [|r1 [|? ?]]; try exact F. apply h_at_S; exact Hd.
  - destruct subs as [|r1 [|? ?]]; try exact F. apply h_at_S; exact Hd.
  - destruct subs as [|r1 [|? ?]]; try exact F. apply RelC_guard, until1_S; exact Hd.
  - destruct subs as [|cn [|r1 [|? ?]]]; try exact F. apply RelC_guard, until2_S; exact Hd.
  - destruct subs as [|r1 [|? ?]]; try exact F. apply RelC_guard. apply (rep_loop_S n0 (opt_ d) r1 Hd).
  - destruct subs as [|r1 [|? ?]]; try exact F. unfold h_rep_min_max. apply RelC_guard.
    apply Rel_bind; [apply (rep_loop_S mn (opt_ d) r1 Hd)|]. intros c1.
    pose proof (repopt_loop_S (mx - mn) d r1 Hd c1) as H. unfold RelP in H.
    destruct (repopt_loop evA (mx - mn) d r1 c1) as [xA bA]. simpl in H.
    destruct xA as [o c2 l| |]; [|exact I|exact I]. destruct H as [H1 H2].
    destruct o; [destruct bA|..].
    + assert (R : RelC l (prepend l (h_at evA true (opt_ d) r1 c2)) (prepend l (h_at evB true (set_depth (opt_ d) k) r1 c2))).
      { apply RelC_prepend; [exact H1 | apply (h_at_S true (opt_ d) r1 c2 Hd)]. }
      destruct (prepend l (h_at evA true (opt_ d) r1 c2)) as [o' c' l'| |]; simpl in *; auto.
      destruct R as [R1 R2]. split; [exact R1|]. intros H. destruct (R2 H) as [R3 R4]. split; [apply chk_nil|].
      rewrite (H2 R3). exact R4.
    + simpl. split; [exact H1|]. intros H. split; [apply chk_nil|]. rewrite (H2 H). reflexivity.
    + simpl. split; [exact H1|]. intros H. split; [apply chk_nil|]. rewrite (H2 H). reflexivity.
    + simpl. split; [exact H1|]. intros H. split; [apply chk_nil|]. rewrite (H2 H). reflexivity.
  - destruct subs as [|r1 [|? ?]]; try exact F. unfold h_rep_opt.
    pose proof (repopt_loop_S mx d r1 Hd c) as H. unfold RelP in H.
    destruct (repopt_loop evA mx d r1 c) as [xA bA]. simpl in *. destruct xA as [o c2 l| |]; simpl; auto.
    destruct H as [H1 H2]. split; [exact H1|]. intros H. split; [apply chk_nil|]. rewrite (H2 H). reflexivity.
  - destruct subs as [|cn [|t [|e [|? ?]]]]; try exact F. unfold h_if_then_else. apply RelC_guard.
    apply Rel_match; [apply (Hev (req d)); exact Hd|].
    intros o c1 evs1 Hok. destruct o; try srefl; (apply RelC_prepend; [exact Hok | apply (Hev (opt_ d)); exact Hd]).
  - destruct subs as [|cn rest_]; try exact F. unfold h_if_must.
    assert (Hc : Rel (evA (if dflt then req d else d) cn c) (evB (if dflt then req (set_depth d k) else set_depth d k) cn c)).
    { destruct dflt; [apply (Hev (req d)) | apply Hev]; exact Hd. }
    apply Rel_match; [exact Hc|].
    intros o c1 evs1 Hok. destruct o; try srefl.
    destruct rest_ as [|m ?]; [srefl|].
    apply (RelC_match evs1); [exact Hok | apply Hev; exact Hd|].
    intros o2 c2 evs2 Hok2. destruct o2; simpl; srefl.
  - destruct subs as [|r1 [|? ?]]; try exact F. unfold h_must.
    apply Rel_match; [apply (Hev (opt_ d)); exact Hd|].
    intros o c1 evs1 Hok. destruct o; unfold raise_at; simpl; srefl.
  - destruct subs as [|t [|? ?]]; try exact F. unfold raise_at. simpl. srefl.
  - destruct subs as [|r1 rs]; try exact F. unfold h_strict. apply RelC_guard.
    apply Rel_match; [apply (Hev (req d)); exact Hd|].
    intros o c1 evs1 Hok. destruct o; try srefl. apply RelC_prepend; [exact Hok | apply (h_seq_S (opt_ d) rs c1 Hd)].
  - destruct subs as [|r1 rs]; try exact F. apply RelC_guard, star_strict_S; exact Hd.
  - destruct subs as [|hd rs]; try exact F. unfold h_rematch. destruct rs as [|r rs']; [apply Hev; exact Hd|].
    apply Rel_match; [apply (Hev (opt_ d)); exact Hd|].
    intros o c1 evs1 Hok. destruct o; try srefl.
    destruct (take _ (rest c)) as [span|]; [|exact I].
    apply (RelC_match evs1); [exact Hok | apply (rematch_all_S (opt_ d) (r :: rs') (mkcur span (cpos c)) Hd)|].
    intros o2 c2 evs2 Hok2. destruct o2; simpl; srefl.
  - destruct subs as [|r1 [|? ?]]; try exact F. unfold h_try_false.
    apply Rel_match; [apply (Hev (opt_ d)); exact Hd|].
    intros o c1 evs1 Hok. destruct o; simpl; srefl.
  - destruct subs as [|r1 [|? ?]]; try exact F. unfold h_try_nested.
    apply Rel_match; [apply (Hev (opt_ d)); exact Hd|].
    intros o c1 evs1 Hok. destruct o; simpl; try srefl. destruct (catches f e); simpl; srefl.
  - destruct subs as [|r1 [|? ?]]; try exact F. apply RelC_st_scope, Hev; exact Hd.
  - destruct subs as [|r1 [|? ?]]; try exact F. apply (Hev (set_act d fam)). simpl. apply Hfam. reflexivity.
  - destruct subs as [|r1 [|? ?]]; try exact F. apply (Hev (set_ctl d ctl)). exact Hd.
  - destruct subs as [|r1 [|? ?]]; try exact F. apply (Hev (set_A d true)). exact Hd.
  - destruct subs as [|r1 [|? ?]]; try exact F. apply (Hev (set_A d false)). exact Hd.
  - destruct subs; try exact F. unfold h_apply. simpl. destruct (dA d); [|srefl].
    apply inline_result_same; [apply okA_nil | auto | apply run_inline_neutral].
  - destruct subs; try exact F. unfold h_apply0. simpl. destruct (dA d); [|srefl].
    apply inline_result_same; [apply okA_nil | auto | apply run_inline0_neutral].
  - destruct subs as [|r1 [|? ?]]; try exact F. unfold h_if_apply. simpl.
    destruct (dA d && _); [|apply Hev; exact Hd].
    apply Rel_match; [apply (Hev (set_A (opt_ d) true)); exact Hd|].
    intros o c1 evs1 Hok. destruct o; try srefl.
    apply inline_result_same; [exact Hok | auto | apply run_inline_neutral].
Qed.

Lemma match_hpp_S ak (bodyA bodyB : dyn -> cursor -> result) d r c :
  (forall d c, Fams (dAct d) -> Rel (bodyA d c) (bodyB (set_depth d k) c)) -> Fams (dAct d) ->
  Rel (match_hpp C ak bodyA d r c) (match_hpp C ak bodyB (set_depth d k) r c).
Proof.
  intros Hb Hd. unfold match_hpp.
  change (use_guard (set_depth d k) ak) with (use_guard d ak).
  assert (Hc : Rel (bodyA (if use_guard d ak then opt_ d else d) c) (bodyB (if use_guard d ak then opt_ (set_depth d k) else set_depth d k) c)).
  { destruct (use_guard d ak); [apply (Hb (opt_ d)) | apply Hb]; exact Hd. }
  apply Rel_match; [exact Hc|].
  intros o c1 evs1 Hok. destruct o.
  - change (run_action C (set_depth d k) ak r (cpos c) (cpos c1)) with (run_action C d ak r (cpos c) (cpos c1)).
    pose proof (run_action_neutral C d ak r (cpos c) (cpos c1)) as Hn.
    destruct (run_action C d ak r (cpos c) (cpos c1)) as [[[|]|t] ea]; simpl in Hn |- *.
    + srefl.
    + unfold fail_hook. simpl. destruct (raise_on_failure C (dCtl d) r); srefl.
    + srefl.
  - unfold fail_hook. simpl. destruct (raise_on_failure C (dCtl d) r); srefl.
  - simpl. destruct (has_unwind C (dCtl d)); srefl.
Qed.

Lemma action_match_S (plainA plainB : dyn -> cursor -> result) enabled m d r c :
  (forall d c, Fams (dAct d) -> Rel (plainA d c) (plainB (set_depth d k) c)) -> Fams (dAct d) ->
  acts C (dAct d) r = AKMatch m -> (forall n, m <> MLimitDepth n) ->
  Rel (action_match evA plainA enabled m d r c) (action_match evB plainB enabled m (set_depth d k) r c).
Proof.
  intros Hp Hd Ha Hm. destruct m; simpl.
  - apply (Hev (set_act d fam)). simpl. eapply Hact_change; [exact Hd | left; exact Ha].
  - apply RelC_st_scope, Hp; exact Hd.
  - apply RelC_st_scope. apply (Hev (set_act d fam)). simpl. eapply Hact_change; [exact Hd | right; exact Ha].
  - apply (Hp (set_ctl d ctl)); exact Hd.
  - apply (Hp (set_A d true)); exact Hd.
  - apply (Hp (set_A d false)); exact Hd.
  - exfalso. eapply Hm. reflexivity.
  - apply Rel_match; [apply Hp; exact Hd|].
    intros o c1 evs1 Hok. destruct o; try srefl.
    destruct (in_empty c1 && negb (is_nil (skipn n (rest c)))); unfold raise_at; simpl; srefl.
  - apply Rel_match; [apply Hp; exact Hd|].
    intros o c1 evs1 Hok. destruct o; try srefl.
    destruct (n <? length (rest c) - length (rest c1))%nat; srefl.
Qed.

End HelperSim.
End Sim.
