(* Analyze.v — model of the grammar analysis (contrib/analyze.hpp + contrib/analyze_traits.hpp).
   Model file: definitions only (proofs live in AnalyzeFacts.v / AnalyzeSound*.v).

   analyze_traits< Name, Rule::rule_t > maps every rule to one of four abstract kinds plus a list
   of sub-rule NAMES.  Several traits mention types that are not rules of the grammar
   (plus< R > is analysed as seq< R, opt< Name > >: the type opt< Name > gets an entry of its
   own).  Entries are therefore keyed by an extended id:
       (n, 0)      the table node n itself
       (n, k+1)    the k-th synthetic type introduced by the trait of node n
   In C++ the key is the demangled type name, so two synthetic types with the same spelling
   (or a synthetic type that is also a rule of the grammar) share one entry; here they are
   separate entries with identical contents.  That changes how often a problem is counted
   (analyze.hpp itself says the number is not informative) but never whether one is found. *)
From PegtlV Require Import Base Decode Grammar.

Inductive akind := KAny | KOpt | KSeq | KSor.
Definition aid := (nat * nat)%type.
Record entry := mkent { ekind : akind; esubs : list aid }.

Definition aid_eqb (a b : aid) : bool := Nat.eqb (fst a) (fst b) && Nat.eqb (snd a) (snd b).
Definition rl (r : rid) : aid := (r, O).
Definition rls (rs : list rid) : list aid := map rl rs.

Definition e_any (l : list aid) := mkent KAny l.
Definition e_opt (l : list aid) := mkent KOpt l.
Definition e_seq (l : list aid) := mkent KSeq l.
Definition e_sor (l : list aid) := mkent KSor l.

(* analyze_traits< Name, typename seq< Rules... >::rule_t >:  seq<> is success *)
Definition t_seq (l : list aid) : entry := match l with [] => e_opt [] | _ => e_seq l end.
(* a rule without a trait (analyze<> does not compile), or an unresolvable chain: an entry that
   refers to itself is reported as a problem by work(), whatever surrounds it *)
Definition e_bad (self : rid) : entry := e_seq [rl self].

Definition is_nilb {A} (l : list A) : bool := match l with [] => true | _ => false end.

(* if_must< D, Cond, Rules... > has subs_t = < Cond, must< Rules... > > but its trait names
   Cond, Rules... : recover Rules... from the must< Rules... > node
   (must< R > is the class must;  must< R1, R2, ... > is seq< must< R1 >, must< R2 >, ... >;  must<> is success) *)
Definition unmust (G : grammar) (m : rid) : rid :=
  match nth_error G m with
  | Some nd => match nhead nd, nsubs nd with HMust, [r] => r | _, _ => m end
  | None => m
  end.
Definition must_rules (G : grammar) (rest_ : list rid) : list rid :=
  match rest_ with
  | [m] => match nth_error G m with
           | Some nd => match nhead nd, nsubs nd with
                        | HMust, [r] => [r]
                        | HSeq, ms => map (unmust G) ms
                        | HSuccess, _ => []
                        | _, _ => [m]
                        end
           | None => [m]
           end
  | l => l
  end.

(* traits that copy the trait of another rule under the own Name:
     if_apply< Rule, Actions... >  ->  analyze_traits< Name, typename Rule::rule_t >
     until< Cond >                 ->  analyze_traits< Name, typename Cond::rule_t >      *)
Fixpoint eff (G : grammar) (fuel : nat) (n : rid) : option (head * list rid) :=
  match fuel with
  | O => None
  | S f =>
    match nth_error G n with
    | None => Some (HFailure, [])
    | Some nd =>
      match nhead nd, nsubs nd with
      | HIfApply _, [r1] => eff G f r1
      | HUntil1, [c] => eff G f c
      | h, subs => Some (h, subs)
      end
    end
  end.

Section Traits.
Variable G : grammar.
Variable self : rid.
Definition sy (k : nat) : aid := (self, k).

(* the entry stored under the rule's own name *)
Definition main_entry (h : head) (subs : list rid) : entry :=
  match h with
  | HSuccess | HEof | HEolf | HBof | HBol | HEverything | HDiscard => e_opt []
  | HFailure | HEol | HOpaque => e_any []
  | HAny _ | HOne _ _ _ | HRange _ _ _ _ | HRanges _ _ => e_any []
  | HString cs | HIString cs => if is_nilb cs then e_opt [] else e_any []
  | HBytes n => match n with O => e_opt [] | _ => e_any [] end
  | HRequire _ => e_opt []
  | HApply _ | HApply0 _ => e_opt []
  | HSeq => t_seq (rls subs)
  | HSor => match subs with [] => e_any [] | _ => e_sor (rls subs) end
  (* star< Rules... >, star_partial< Rules... >:  opt< Rules..., Name >::rule_t  =  opt< seq< Rules..., Name > > *)
  | HStarPartial => match subs with [] => e_opt [rl self] | _ => e_opt [sy 1] end
  (* plus< Rules... >:  seq< Rules..., opt< Name > > *)
  | HPlus => e_seq (rls subs ++ [sy 1])
  | HPartial | HAt | HNotAt => e_opt (rls subs)
  (* until< Cond, Rules... >:  seq< star< Rules... >, Cond > *)
  | HUntil2 => match subs with
               | c :: _ => e_seq [sy 1; rl c]
               | [] => e_bad self
               end
  | HUntil1 | HIfApply _ => e_bad self                   (* resolved by eff; reached only on malformed tables *)
  | HRep n => match n with O => e_opt (rls subs) | _ => t_seq (rls subs) end
  | HRepMinMax mn _ => match mn with O => e_opt (rls subs) | _ => t_seq (rls subs) end
  | HRepOpt _ => e_opt (rls subs)
  (* if_then_else< C, T, E >:  sor< seq< C, T >, E > *)
  | HIfThenElse => match subs with
                   | [c; t; e] => e_sor [sy 1; rl e]
                   | _ => e_bad self
                   end
  (* if_must< true, C, Rules... >: opt< C, Rules... >;  if_must< false, C, Rules... >: seq< C, Rules... > *)
  | HIfMust dflt => match subs with
                    | c :: rest_ =>
                        let rs := must_rules G rest_ in
                        if dflt then (if is_nilb rs then e_opt [rl c] else e_opt [sy 1])
                        else e_seq (rl c :: rls rs)
                    | [] => e_bad self
                    end
  | HMust => t_seq (rls subs)
  | HRaise => e_any []
  | HStrict | HStarStrict => e_bad self                   (* no analyze_traits specialisation exists *)
  (* rematch< Head, Rules... >:  sor< Head, sor< seq< Rules, any >... > > *)
  | HRematch => match subs with
                | hd :: _ => e_sor [rl hd; sy 1]
                | [] => e_bad self
                end
  | HTryCatchFalse _ | HTryCatchNested _ | HState | HAction _ | HControl _ | HEnable | HDisable => t_seq (rls subs)
  end.

(* the entries of the synthetic types; k >= 1 *)
Definition syn_entry (h : head) (subs : list rid) (k : nat) : entry :=
  match h with
  | HStarPartial => match k with 1 => e_seq (rls subs ++ [rl self]) | _ => e_opt [] end     (* internal::seq< Rules..., Name > *)
  | HPlus => match k with 1 => e_opt [rl self] | _ => e_opt [] end                            (* opt< Name > *)
  | HUntil2 => match subs with
               | _ :: rs =>
                   match k with
                   | 1 => match rs with [] => e_opt [sy 1] | _ => e_opt [sy 2] end            (* star< Rules... > *)
                   | 2 => e_seq (rls rs ++ [sy 1])                                            (* internal::seq< Rules..., star< Rules... > > *)
                   | _ => e_opt []
                   end
               | [] => e_opt []
               end
  | HIfThenElse => match subs, k with
                   | [c; t; _], 1 => e_seq [rl c; rl t]                                       (* seq< C, T > *)
                   | _, _ => e_opt []
                   end
  | HIfMust true => match subs, k with
                    | c :: rest_, 1 => e_seq (rl c :: rls (must_rules G rest_))               (* internal::seq< C, Rules... > *)
                    | _, _ => e_opt []
                    end
  | HRematch => match subs with
                | _ :: rs =>
                    let n := length rs in
                    match k with
                    | O => e_opt []
                    | 1 => match rs with [] => e_any [] | _ => e_sor (map sy (seq 2 n)) end   (* sor< seq< Rules, any >... > *)
                    | S (S i) => match nth_error rs i with
                                 | Some r => e_seq [rl r; sy (n + 2)]                         (* seq< Rule_i, any > *)
                                 | None => if Nat.eqb i n then e_any [] else e_opt []         (* any *)
                                 end
                    end
                | [] => e_opt []
                end
  | _ => e_opt []
  end.

Definition nsyn (h : head) (subs : list rid) : nat :=
  match h with
  | HStarPartial | HPlus | HIfThenElse | HIfMust _ => 1
  | HUntil2 => 2
  | HRematch => length subs + 1
  | _ => 0
  end.
End Traits.

Definition eff_fuel (G : grammar) : nat := S (length G).

Definition aentry (G : grammar) (a : aid) : entry :=
  let '(n, k) := a in
  match eff G (eff_fuel G) n with
  | None => match k with O => e_bad n | _ => e_opt [] end
  | Some (h, subs) => match k with O => main_entry G n h subs | _ => syn_entry G n h subs k end
  end.

Definition node_aids (G : grammar) (n : rid) : list aid :=
  match eff G (eff_fuel G) n with
  | None => [rl n]
  | Some (h, subs) => map (fun k => (n, k)) (seq 0 (S (nsyn h subs)))
  end.
(* every entry that analyze_insert can create for any root of this table *)
Definition roots (G : grammar) : list aid := flat_map (node_aids G) (seq 0 (length G)).

(* ---------- analyze_cycles_impl::work / problems, with m_problems threaded ---------- *)
Section Work.
Variable ent : aid -> entry.

Section Folds.
Variable wk : aid -> bool -> nat -> bool * nat.          (* work( find( r ), accum ) *)

(* bool a = false; for( r : subs ) a = a || work( find( r ), accum || a ); *)
Fixpoint fold_seq (subs : list aid) (accum a : bool) (pr : nat) : bool * nat :=
  match subs with
  | [] => (a, pr)
  | r :: rs => if a then fold_seq rs accum a pr
               else let '(b, pr') := wk r (accum || a) pr in fold_seq rs accum (a || b) pr'
  end.

(* bool a = true; for( r : subs ) a = work( find( r ), accum ) && a; *)
Fixpoint fold_sor (subs : list aid) (accum a : bool) (pr : nat) : bool * nat :=
  match subs with
  | [] => (a, pr)
  | r :: rs => let '(b, pr') := wk r accum pr in fold_sor rs accum (b && a) pr'
  end.
End Folds.

Fixpoint work (fuel : nat) (stack : list aid) (n : aid) (accum : bool) (pr : nat) : bool * nat :=
  match fuel with
  | O => (accum, S pr)                                   (* out of fuel counts as a problem *)
  | S f =>
    if existsb (aid_eqb n) stack                         (* set_stack_guard fails: already on the stack *)
    then (accum, if accum then pr else S pr)
    else
      let e := ent n in
      let wk := work f (n :: stack) in
      match ekind e with
      | KAny => let '(_, pr') := fold_seq wk (esubs e) accum false pr in (true, pr')
      | KOpt => let '(_, pr') := fold_seq wk (esubs e) accum false pr in (false, pr')
      | KSeq => fold_seq wk (esubs e) accum false pr
      | KSor => fold_sor wk (esubs e) accum true pr
      end
  end.

(* for( auto& i : m_entries ) m_results[ i.first ] = work( i, false );  return m_problems; *)
Fixpoint problems_from (fuel : nat) (rs : list aid) (pr : nat) : nat :=
  match rs with
  | [] => pr
  | r :: rs' => problems_from fuel rs' (snd (work fuel [] r false pr))
  end.
End Work.

Definition work_fuel (G : grammar) : nat := S (S (length (roots G))).
Definition problems (G : grammar) : nat := problems_from (aentry G) (work_fuel G) (roots G) 0.
(* one root alone: ( consumes< Rule >(), problems found from this root ) *)
Definition analyze_root (G : grammar) (a : aid) : bool * nat := work (aentry G) (work_fuel G) [] a false 0.
