(* RaiseFacts.v — C05, propagation and conversion of exceptions in the engine model.
   (1) the try_catch family, statement by statement: which exceptions are converted, into what,
       and where the cursor is left;
   (2) the shape of the event log of every evaluation, for every table, configuration, mode, input
       and fuel:   result Exc e   ->  Thrown e log     result Ok / Fail  ->  Calm log
       where Thrown e log says: after a calm prefix, ONE event throws e (a raise, a raising failure
       hook, a throwing action), and from then on only unwinding happens (unwind hooks, invocation
       exits "by exception", state destructors) — unless a try_catch rule converts it.  In tables
       without try_catch rules the calm prefix contains no throwing event at all, i.e. the exception
       that reaches the caller of parse() is the FIRST one thrown in evaluation order, unchanged. *)
From Coq Require Import Lia.
From PegtlV Require Import Base Decode Grammar Engine.

Ltac dres x := destruct x as [[| |?e] ?c ?evs| |].

(* ====================================================================== (1) try_catch *)
Lemma catches_any e : catches FAny e = true.
Proof. reflexivity. Qed.
Lemma catches_parse e : catches FParse e = match e with EAct _ => false | _ => true end.
Proof. destruct e; reflexivity. Qed.
Lemma catches_std e : catches FStd e = match e with EAct t => N.eqb t 0 | _ => true end.
Proof. destruct e; reflexivity. Qed.
Lemma catches_type t e : catches (FType t) e = match e with EAct t' => N.eqb t' t | _ => false end.
Proof. destruct e; reflexivity. Qed.

Section TryCatch.
Variable ev : dyn -> rid -> cursor -> result.

Definition try_false_post (flt : cfilter) (d : dyn) (c : cursor) (x y : result) : Prop :=
  match x with
  | Res Ok c1 evs => y = Res Ok c1 evs
  | Res Fail c1 evs => y = Res Fail (if dM d then c else c1) evs
  | Res (Exc e) c1 evs => y = Res (if catches flt e then Fail else Exc e) (if dM d then c else c1) evs
  | Oof => y = Oof
  | Err => y = Err
  end.
Lemma h_try_false_spec flt d r1 c : try_false_post flt d c (ev (opt_ d) r1 c) (h_try_false ev flt d r1 c).
Proof. unfold h_try_false, try_false_post. dres (ev (opt_ d) r1 c); reflexivity. Qed.

Definition try_nested_post (flt : cfilter) (d : dyn) (r1 : rid) (c : cursor) (x y : result) : Prop :=
  match x with
  | Res Ok c1 evs => y = Res Ok c1 evs
  | Res Fail _ evs => y = Res Fail c evs
  | Res (Exc e) _ evs =>
      y = if catches flt e then Res (Exc (ENested r1 (cpos c) e)) c (evs ++ [ERaiseNested (dCtl d) r1 (cpos c)])
          else Res (Exc e) c evs
  | Oof => y = Oof
  | Err => y = Err
  end.
Lemma h_try_nested_spec flt d r1 c : try_nested_post flt d r1 c (ev (opt_ d) r1 c) (h_try_nested ev flt d r1 c).
Proof. unfold h_try_nested, try_nested_post. dres (ev (opt_ d) r1 c); reflexivity. Qed.
End TryCatch.

(* the match() body of a try_catch node, whatever callee ev it is given and whether or not the node is
   control-enabled (the public try_catch_* wrappers are; match.hpp then adds hooks / actions around it) *)
Lemma try_false_body C ev n self flt r1 d c :
  try_false_post flt d c (ev (opt_ d) r1 c) (eval_head C ev n self (HTryCatchFalse flt) [r1] d c).
Proof. exact (h_try_false_spec ev flt d r1 c). Qed.
Lemma try_nested_body C ev n self flt r1 d c :
  try_nested_post flt d r1 c (ev (opt_ d) r1 c) (eval_head C ev n self (HTryCatchNested flt) [r1] d c).
Proof. exact (h_try_nested_spec ev flt d r1 c). Qed.

(* a control-disabled node without a match-level action: eval is the traced body *)
Lemma eval_plain G C f d r c nd : nth_error G r = Some nd -> nenabled nd = false ->
  (forall m, acts C (dAct d) r <> AKMatch m) ->
  eval G C (S f) d r c = traced (dCtl d) r (dA d) (dM d) c (eval_head C (eval G C f) f r (nhead nd) (nsubs nd) d c).
Proof.
  intros Hn He Ha. simpl. rewrite Hn, He.
  destruct (acts C (dAct d) r) as [| | |m] eqn:E; try reflexivity. exfalso. exact (Ha m eq_refl).
Qed.

Lemma traced_res k r a m c x o c' evs : traced k r a m c x = Res o c' evs ->
  exists evs0, x = Res o c' evs0 /\ evs = EEnter k r a m (cpos c) :: evs0 ++ [EExit k r (okind o) (cpos c')].
Proof. destruct x as [o0 c0 e0| |]; simpl; intros H; inversion H; subst. eexists; split; reflexivity. Qed.

Theorem try_catch_false_eval G C f d r c flt r1 :
  nth_error G r = Some (mknode (HTryCatchFalse flt) [r1] false) -> (forall m, acts C (dAct d) r <> AKMatch m) ->
  forall o c' evs, eval G C (S f) d r c = Res o c' evs ->
  exists o1 c1 evs1, eval G C f (opt_ d) r1 c = Res o1 c1 evs1 /\
    evs = EEnter (dCtl d) r (dA d) (dM d) (cpos c) :: evs1 ++ [EExit (dCtl d) r (okind o) (cpos c')] /\
    match o1 with
    | Ok => o = Ok /\ c' = c1
    | Fail => o = Fail /\ c' = (if dM d then c else c1)
    | Exc e => o = (if catches flt e then Fail else Exc e) /\ c' = (if dM d then c else c1)
    end.
Proof.
  intros Hn Ha o c' evs H. rewrite (eval_plain G C f d r c _ Hn eq_refl Ha) in H.
  apply traced_res in H. destruct H as [evs0 [H ->]]. cbn [nhead nsubs eval_head eval_atom] in H.
  pose proof (h_try_false_spec (eval G C f) flt d r1 c) as K. rewrite H in K. unfold try_false_post in K.
  dres (eval G C f (opt_ d) r1 c); try discriminate K; inversion K; subst;
    eexists; eexists; eexists; (split; [reflexivity|]); (split; [reflexivity|]); split; reflexivity.
Qed.

Theorem try_catch_nested_eval G C f d r c flt r1 :
  nth_error G r = Some (mknode (HTryCatchNested flt) [r1] false) -> (forall m, acts C (dAct d) r <> AKMatch m) ->
  forall o c' evs, eval G C (S f) d r c = Res o c' evs ->
  exists o1 c1 evs1, eval G C f (opt_ d) r1 c = Res o1 c1 evs1 /\
    match o1 with
    | Ok => o = Ok /\ c' = c1 /\ evs = EEnter (dCtl d) r (dA d) (dM d) (cpos c) :: evs1 ++ [EExit (dCtl d) r (Some true) (cpos c1)]
    | Fail => o = Fail /\ c' = c /\ evs = EEnter (dCtl d) r (dA d) (dM d) (cpos c) :: evs1 ++ [EExit (dCtl d) r (Some false) (cpos c)]
    | Exc e =>
        c' = c /\
        if catches flt e
        then o = Exc (ENested r1 (cpos c) e) /\
             evs = EEnter (dCtl d) r (dA d) (dM d) (cpos c) :: (evs1 ++ [ERaiseNested (dCtl d) r1 (cpos c)]) ++ [EExit (dCtl d) r None (cpos c)]
        else o = Exc e /\ evs = EEnter (dCtl d) r (dA d) (dM d) (cpos c) :: evs1 ++ [EExit (dCtl d) r None (cpos c)]
    end.
Proof.
  intros Hn Ha o c' evs H. rewrite (eval_plain G C f d r c _ Hn eq_refl Ha) in H.
  apply traced_res in H. destruct H as [evs0 [H ->]]. cbn [nhead nsubs eval_head eval_atom] in H.
  pose proof (h_try_nested_spec (eval G C f) flt d r1 c) as K. rewrite H in K. unfold try_nested_post in K.
  dres (eval G C f (opt_ d) r1 c); try discriminate K.
  - inversion K; subst. eexists; eexists; eexists. split; [reflexivity|]. repeat split; reflexivity.
  - inversion K; subst. eexists; eexists; eexists. split; [reflexivity|]. repeat split; reflexivity.
  - exists (Exc e), c0, evs. split; [reflexivity|]. cbv beta iota.
    destruct (catches flt e) eqn:Ec; inversion K; subst; repeat split; reflexivity.
Qed.

(* ====================================================================== (2) log shape *)
Section Shape.
Variable C : cfg.
Variable allow_catch : bool.          (* false: the statement for tables without try_catch rules *)

(* the event is the throw site of exception e *)
Definition throws (x : event) (e : exn) : Prop :=
  match x with
  | ERaise _ w p => e = EParse w p
  | EHook HkFailure k r p => raise_on_failure C k r = true /\ e = EParse (WRule r) p
  | EApply fam r b en => exists t, abeh C fam r b en = AThrow t /\ e = EAct t
  | EApply0 fam r p => exists b t, abeh C fam r b p = AThrow t /\ e = EAct t
  | EInline a b en => exists t, ibeh C a b en = AThrow t /\ e = EAct t
  | EInline0 a => exists p t, ibeh C a p p = AThrow t /\ e = EAct t
  | _ => False
  end.
(* the event belongs to normal control flow and throws nothing *)
Definition quiet (x : event) : Prop :=
  match x with
  | ERaise _ _ _ | ERaiseNested _ _ _ => False
  | EHook HkUnwind _ _ _ => False
  | EHook HkFailure k r _ => raise_on_failure C k r = false
  | EHook _ _ _ _ => True
  | EApply fam r b en => exists y, abeh C fam r b en = ARet y
  | EApply0 fam r p => exists b y, abeh C fam r b p = ARet y
  | EInline a b en => exists y, ibeh C a b en = ARet y
  | EInline0 a => exists p y, ibeh C a p p = ARet y
  | EExit _ _ None _ => False
  | _ => True
  end.
(* what may follow a throw until it is caught or leaves parse() *)
Definition unwinding (x : event) : Prop :=
  match x with EHook HkUnwind _ _ _ | EExit _ _ None _ | EStDrop _ => True | _ => False end.

Inductive Calm : list event -> Prop :=
| Calm_nil : Calm []
| Calm_quiet x l : quiet x -> Calm l -> Calm (x :: l)
| Calm_caught e seg l : allow_catch = true -> Thrown e seg -> Calm l -> Calm (seg ++ l)      (* converted into a local failure *)
with Thrown : exn -> list event -> Prop :=
| Th_here x e post : throws x e -> Forall unwinding post -> Thrown e (x :: post)
| Th_silent p post : Forall unwinding post -> Thrown (ECheckBytes p) post   (* check_bytes throws without calling Control::raise *)
| Th_later e pre post : Calm pre -> Thrown e post -> Thrown e (pre ++ post)
| Th_nested e seg k r p post : allow_catch = true -> Thrown e seg -> Forall unwinding post ->
    Thrown (ENested r p e) (seg ++ ERaiseNested k r p :: post).

Lemma Calm_app a b : Calm a -> Calm b -> Calm (a ++ b).
Proof.
  intros Ha Hb. induction Ha as [|x l Hq Hl IH|e seg l Hc Ht Hl IH].
  - exact Hb.
  - simpl. apply Calm_quiet; assumption.
  - rewrite <- app_assoc. apply Calm_caught with (e := e); assumption.
Qed.
Lemma Calm_one x : quiet x -> Calm [x].
Proof. intros H. apply Calm_quiet; [exact H | apply Calm_nil]. Qed.
Lemma Calm_snoc l x : Calm l -> quiet x -> Calm (l ++ [x]).
Proof. intros H Hx. apply Calm_app; [exact H | apply Calm_one; exact Hx]. Qed.
Lemma Thrown_unw e a b : Thrown e a -> Forall unwinding b -> Thrown e (a ++ b).
Proof.
  intros Ha Hb. induction Ha as [x e post Hx Hp|p post Hp|e pre post Hpre Hpost IH|e seg k r p post Hc Hs Hp].
  - simpl. apply Th_here; [exact Hx | apply Forall_app; split; assumption].
  - apply Th_silent. apply Forall_app; split; assumption.
  - rewrite <- app_assoc. apply Th_later; [exact Hpre | exact IH].
  - rewrite <- app_assoc. simpl. apply Th_nested; [exact Hc | exact Hs | apply Forall_app; split; assumption].
Qed.
Lemma Thrown_cons x e l : quiet x -> Thrown e l -> Thrown e (x :: l).
Proof. intros Hx H. change (x :: l) with ([x] ++ l). apply Th_later; [apply Calm_one; exact Hx | exact H]. Qed.
Lemma Thrown_snoc_here l x e : Calm l -> throws x e -> Thrown e (l ++ [x]).
Proof. intros Hl Hx. apply Th_later; [exact Hl | apply Th_here; [exact Hx | constructor]]. Qed.
Lemma Calm_of_Thrown e l : allow_catch = true -> Thrown e l -> Calm l.
Proof. intros Hc H. rewrite <- (app_nil_r l). apply Calm_caught with (e := e); [exact Hc | exact H | apply Calm_nil]. Qed.

Definition Inv (x : result) : Prop :=
  match x with
  | Res (Exc e) _ evs => Thrown e evs
  | Res _ _ evs => Calm evs
  | _ => True
  end.

Lemma Inv_prepend evs x : Calm evs -> Inv x -> Inv (prepend evs x).
Proof.
  intros He. dres x; simpl; auto; intros H.
  - apply Calm_app; assumption.
  - apply Calm_app; assumption.
  - apply Th_later; assumption.
Qed.
Lemma Inv_calm o c evs : Inv (Res o c evs) -> (forall e, o <> Exc e) -> Calm evs.
Proof. destruct o; simpl; auto. intros _ H. exfalso. exact (H e eq_refl). Qed.

(* which heads are admitted *)
Definition head_ok (h : head) : Prop :=
  allow_catch = true \/ match h with HTryCatchFalse _ | HTryCatchNested _ => False | _ => True end.

Section HelperFacts.
Variable ev : dyn -> rid -> cursor -> result.
Hypothesis Hev : forall d r c, Inv (ev d r c).

Lemma guard_I m s x : Inv x -> Inv (guard m s x).
Proof. dres x; simpl; auto. Qed.
Lemma look_I i s x : Inv x -> Inv (look i s x).
Proof. dres x; simpl; auto; destruct i; auto. Qed.
Lemma bind_I x k : Inv x -> (forall c, Inv (k c)) -> Inv (bind x k).
Proof. intros Hx Hk. dres x; simpl in *; auto. apply Inv_prepend; auto. Qed.

Lemma seq_all_I d rs : forall c, Inv (seq_all ev d rs c).
Proof. induction rs as [|r rs IH]; intros c; simpl; [apply Calm_nil|]. apply bind_I; [apply Hev | exact IH]. Qed.
Lemma sor_any_I d rs : forall c, Inv (sor_any ev d rs c).
Proof.
  induction rs as [|r rs IH]; intros c; [apply Calm_nil|]. destruct rs as [|r2 rs']; [apply Hev|].
  change (sor_any ev d (r :: r2 :: rs') c) with (match ev (req d) r c with Res Fail c' evs => prepend evs (sor_any ev d (r2 :: rs') c') | x => x end).
  pose proof (Hev (req d) r c) as H. dres (ev (req d) r c); auto. apply Inv_prepend; [exact H | apply IH].
Qed.
Lemma star_loop_I n d rs : forall c, Inv (star_loop ev n d rs c).
Proof.
  induction n as [|n IH]; intros c; simpl; [exact I|].
  pose proof (seq_all_I (req d) rs c) as H. dres (seq_all ev (req d) rs c); auto. apply Inv_prepend; [exact H | apply IH].
Qed.
Lemma until1_I n d cn : forall c, Inv (until1_loop C ev n d cn c).
Proof.
  induction n as [|n IH]; intros c; cbn [until1_loop]; [exact I|].
  pose proof (Hev (req d) cn c) as H. dres (ev (req d) cn c); auto.
  destruct (in_empty c0); [exact H|]. destruct (bump_scan (eol_ch (ceol C)) 1 c0) as [c2|]; [|exact I]. apply Inv_prepend; [exact H | apply IH].
Qed.
Lemma until2_I n d cn r : forall c, Inv (until2_loop ev n d cn r c).
Proof.
  induction n as [|n IH]; intros c; simpl; [exact I|].
  pose proof (Hev (req d) cn c) as H. dres (ev (req d) cn c); auto.
  pose proof (Hev (opt_ d) r c0) as H2. dres (ev (opt_ d) r c0); simpl in *; auto.
  - apply Inv_prepend; [apply Calm_app; assumption | apply IH].
  - apply Calm_app; assumption.
  - apply Th_later; assumption.
Qed.
Lemma rep_loop_I k d r : forall c, Inv (rep_loop ev k d r c).
Proof. induction k as [|k IH]; intros c; simpl; [apply Calm_nil|]. apply bind_I; [apply Hev | exact IH]. Qed.
Lemma repopt_loop_I k d r : forall c, Inv (fst (repopt_loop ev k d r c)).
Proof.
  induction k as [|k IH]; intros c; simpl; [apply Calm_nil|].
  pose proof (Hev (req d) r c) as H. dres (ev (req d) r c); simpl in *; auto.
  specialize (IH c0). destruct (repopt_loop ev k d r c0) as [x b]. simpl in *. apply Inv_prepend; assumption.
Qed.
Lemma h_seq_I d rs c : Inv (h_seq ev d rs c).
Proof. unfold h_seq. destruct rs as [|r1 [|r2 rs]]; [apply Calm_nil | apply Hev | apply guard_I, seq_all_I]. Qed.
Lemma h_at_I i d r1 c : Inv (h_at ev i d r1 c).
Proof. apply look_I, Hev. Qed.
Lemma h_plus_I n d r1 c : Inv (h_plus ev n d r1 c).
Proof. unfold h_plus. apply bind_I; [apply Hev | intros; apply star_loop_I]. Qed.
Lemma h_partial_I d rs c : Inv (h_partial ev d rs c).
Proof. unfold h_partial. pose proof (seq_all_I (req d) rs c) as H. dres (seq_all ev (req d) rs c); auto. Qed.
Lemma h_rep_min_max_I mn mx d r1 c : Inv (h_rep_min_max ev mn mx d r1 c).
Proof.
  unfold h_rep_min_max. apply guard_I. apply bind_I; [apply rep_loop_I|]. intros c1.
  pose proof (repopt_loop_I (mx - mn) d r1 c1) as H. destruct (repopt_loop ev (mx - mn) d r1 c1) as [x b]. simpl in H.
  dres x; auto. destruct b; [|exact H]. apply Inv_prepend; [exact H | apply h_at_I].
Qed.
Lemma h_if_then_else_I d cn t e c : Inv (h_if_then_else ev d cn t e c).
Proof.
  unfold h_if_then_else. apply guard_I. pose proof (Hev (req d) cn c) as H. dres (ev (req d) cn c); auto; apply Inv_prepend; auto.
Qed.
Lemma h_if_must_I dflt d cn rest_ c : Inv (h_if_must ev dflt d cn rest_ c).
Proof.
  unfold h_if_must. pose proof (Hev (if dflt then req d else d) cn c) as H.
  dres (ev (if dflt then req d else d) cn c); auto.
  - destruct rest_ as [|m ?]; [exact H|]. pose proof (Hev d m c0) as H2. dres (ev d m c0); simpl in *; auto.
    + apply Calm_app; assumption.
    + apply Calm_app; assumption.
    + apply Th_later; assumption.
  - destruct dflt; exact H.
Qed.
Lemma raise_at_I d w c evs : Calm evs -> Inv (raise_at d w c evs).
Proof. intros H. unfold raise_at. simpl. apply Thrown_snoc_here; [exact H | reflexivity]. Qed.
Lemma h_must_I d r1 c : Inv (h_must ev d r1 c).
Proof.
  unfold h_must. pose proof (Hev (opt_ d) r1 c) as H. dres (ev (opt_ d) r1 c); auto. apply raise_at_I. exact H.
Qed.
Lemma h_strict_I d r1 rs c : Inv (h_strict ev d r1 rs c).
Proof.
  unfold h_strict. apply guard_I. pose proof (Hev (req d) r1 c) as H. dres (ev (req d) r1 c); auto.
  apply Inv_prepend; [exact H | apply h_seq_I].
Qed.
Lemma star_strict_I n d r1 rs : forall c, Inv (star_strict_loop ev n d r1 rs c).
Proof.
  induction n as [|n IH]; intros c; simpl; [exact I|].
  pose proof (Hev (req d) r1 c) as H. dres (ev (req d) r1 c); auto.
  pose proof (h_seq_I (opt_ d) rs c0) as H2. dres (h_seq ev (opt_ d) rs c0); simpl in *; auto.
  - apply Inv_prepend; [apply Calm_app; assumption | apply IH].
  - apply Calm_app; assumption.
  - apply Th_later; assumption.
Qed.
Lemma rematch_all_I d rs i2 : Inv (rematch_all ev d rs i2).
Proof.
  induction rs as [|r rs IH]; simpl; [apply Calm_nil|].
  pose proof (Hev d r i2) as H. dres (ev d r i2); auto. apply Inv_prepend; assumption.
Qed.
Lemma h_rematch_I d hd rs c : Inv (h_rematch ev d hd rs c).
Proof.
  unfold h_rematch. destruct rs as [|r rs']; [apply Hev|].
  pose proof (Hev (opt_ d) hd c) as H. dres (ev (opt_ d) hd c); auto.
  destruct (take (length (rest c) - length (rest c0)) (rest c)) as [span|]; [|exact I].
  pose proof (rematch_all_I (opt_ d) (r :: rs') (mkcur span (cpos c))) as H2.
  dres (rematch_all ev (opt_ d) (r :: rs') (mkcur span (cpos c))); simpl in *; auto.
  - apply Calm_app; assumption.
  - apply Calm_app; assumption.
  - apply Th_later; assumption.
Qed.
Lemma h_try_false_I f d r1 c : allow_catch = true -> Inv (h_try_false ev f d r1 c).
Proof.
  intros Hc. unfold h_try_false. pose proof (Hev (opt_ d) r1 c) as H. dres (ev (opt_ d) r1 c); auto.
  destruct (catches f e); simpl; [eapply Calm_of_Thrown; eauto | exact H].
Qed.
Lemma h_try_nested_I f d r1 c : allow_catch = true -> Inv (h_try_nested ev f d r1 c).
Proof.
  intros Hc. unfold h_try_nested. pose proof (Hev (opt_ d) r1 c) as H. dres (ev (opt_ d) r1 c); auto.
  destruct (catches f e); simpl; [|exact H]. apply Th_nested; [exact Hc | exact H | constructor].
Qed.
Lemma st_scope_I b r c0 x : Inv x -> Inv (st_scope b r c0 x).
Proof.
  dres x; simpl; auto; intros H.
  - apply Calm_quiet; [exact I|]. apply Calm_app; [exact H|]. destruct b; simpl; repeat (apply Calm_quiet; [exact I|]); apply Calm_nil.
  - apply Calm_quiet; [exact I|]. apply Calm_snoc; [exact H | exact I].
  - apply Thrown_cons; [exact I|]. apply Thrown_unw; [exact H|]. constructor; [exact I | constructor].
Qed.

(* inline actions: the events before the last are calm; the last one decides *)
Lemma run_inline_I acts_ b e :
  match run_inline C acts_ b e with
  | (ARet _, evs) => Calm evs
  | (AThrow t, evs) => Thrown (EAct t) evs
  end.
Proof.
  induction acts_ as [|a tl IH]; simpl; [apply Calm_nil|].
  destruct (ibeh C a b e) as [[|]|t] eqn:Ei.
  - destruct (run_inline C tl b e) as [[y|t] evs]; simpl in *.
    + apply Calm_quiet; [simpl; eexists; exact Ei | exact IH].
    + apply Thrown_cons; [simpl; eexists; exact Ei | exact IH].
  - apply Calm_one. simpl. eexists; exact Ei.
  - apply Th_here; [simpl; eexists; split; [exact Ei | reflexivity] | constructor].
Qed.
Lemma run_inline0_I acts_ p :
  match run_inline0 C acts_ p with
  | (ARet _, evs) => Calm evs
  | (AThrow t, evs) => Thrown (EAct t) evs
  end.
Proof.
  induction acts_ as [|a tl IH]; simpl; [apply Calm_nil|].
  destruct (ibeh C a p p) as [[|]|t] eqn:Ei.
  - destruct (run_inline0 C tl p) as [[y|t] evs]; simpl in *.
    + apply Calm_quiet; [simpl; eexists; eexists; exact Ei | exact IH].
    + apply Thrown_cons; [simpl; eexists; eexists; exact Ei | exact IH].
  - apply Calm_one. simpl. eexists; eexists; exact Ei.
  - apply Th_here; [simpl; eexists; eexists; split; [exact Ei | reflexivity] | constructor].
Qed.
Lemma inline_result_I x c1 c2 pre : Calm pre ->
  match x with (ARet _, evs) => Calm evs | (AThrow t, evs) => Thrown (EAct t) evs end ->
  Inv (inline_result x c1 c2 pre).
Proof.
  intros Hp Hx. destruct x as [[[|]|t] evs]; simpl in *.
  - apply Calm_app; assumption.
  - apply Calm_app; assumption.
  - apply Th_later; assumption.
Qed.
Lemma h_if_apply_I d acts_ r1 c : Inv (h_if_apply C ev d acts_ r1 c).
Proof.
  unfold h_if_apply. destruct (dA d && negb match acts_ with [] => true | _ => false end); [|apply Hev].
  pose proof (Hev (set_A (opt_ d) true) r1 c) as H. dres (ev (set_A (opt_ d) true) r1 c); auto.
  apply inline_result_I; [exact H | apply run_inline_I].
Qed.

Lemma eval_head_I n self h subs d c : head_ok h -> Inv (eval_head C ev n self h subs d c).
Proof.
  intros Hok. unfold eval_head.
  destruct (eval_atom (ceol C) h c) as [x|] eqn:Ea.
  { (* atoms emit no events and never throw *)
    assert (A : forall o c', (forall e, o <> Exc e) -> Inv (Res o c' [])).
    { intros o c' Ho. destruct o; simpl; try apply Calm_nil. exfalso. exact (Ho e eq_refl). }
    assert (B : forall o, Inv (ok_or_err o)) by (intros [c'|]; simpl; [apply Calm_nil | exact I]).
    assert (Bh : forall ch t n c0, Inv (bump_help ch t n c0)) by (intros; unfold bump_help; apply B).
    assert (P : forall ch pk t c0, Inv (peek_test_bump ch pk t c0)).
    { intros ch pk t c0. unfold peek_test_bump. destruct (do_peek pk c0) as [|v k|]; [apply Calm_nil | | exact I].
      destruct (t v); [apply Bh | apply Calm_nil]. }
    destruct h; simpl in Ea; try discriminate Ea; try (injection Ea as <-); try (apply Calm_nil); try apply B; try apply P.
    - destruct (in_empty c); apply Calm_nil.
    - destruct (eol_match (ceol C) c) as [[[[|] z] c']|]; simpl; try apply Calm_nil; exact I.
    - destruct (eol_match (ceol C) c) as [[[[|] z] c']|]; simpl; try apply Calm_nil; [destruct z; apply Calm_nil | exact I].
    - destruct (pbyte (cpos c) =? 0)%N; apply Calm_nil.
    - destruct (pcol (cpos c) =? 1)%N; apply Calm_nil.
    - destruct pk; injection Ea as <-;
        try (match goal with |- Inv (match ?x with PNone => _ | PSome _ _ => _ | POob => _ end) => destruct x as [|v k|] end; [apply Calm_nil | apply B | exact I]).
      destruct (in_empty c); [apply Calm_nil | apply B].
    - destruct (length cs <=? in_size c)%nat; [|apply Calm_nil]. destruct (take (length cs) (rest c)) as [bs|]; [|exact I].
      destruct (eqb_bytes cs bs); [apply Bh | apply Calm_nil].
    - destruct (length cs <=? in_size c)%nat; [|apply Calm_nil]. destruct (take (length cs) (rest c)) as [bs|]; [|exact I].
      destruct (ieqb_bytes cs bs); [apply Bh | apply Calm_nil].
    - destruct (n0 <=? in_size c)%nat; [apply B | apply Calm_nil].
    - destruct (n0 <=? in_size c)%nat; apply Calm_nil. }
  assert (F : Inv (Res Fail c [])) by apply Calm_nil.
  destruct h; try (simpl in Ea; discriminate Ea); try exact F.
  - apply h_seq_I.
  - apply sor_any_I.
  - apply star_loop_I.
  - destruct subs as [|r1 [|? ?]]; try exact F. apply h_plus_I.
  - apply h_partial_I.
  - destruct subs as [|r1 [|? ?]]; try exact F. apply h_at_I.
  - destruct subs as [|r1 [|? ?]]; try exact F. apply h_at_I.
  - destruct subs as [|r1 [|? ?]]; try exact F. apply guard_I, until1_I.
  - destruct subs as [|cn [|r1 [|? ?]]]; try exact F. apply guard_I, until2_I.
  - destruct subs as [|r1 [|? ?]]; try exact F. apply guard_I, rep_loop_I.
  - destruct subs as [|r1 [|? ?]]; try exact F. apply h_rep_min_max_I.
  - destruct subs as [|r1 [|? ?]]; try exact F. apply repopt_loop_I.
  - destruct subs as [|cn [|t [|e [|? ?]]]]; try exact F. apply h_if_then_else_I.
  - destruct subs as [|cn rest_]; try exact F. apply h_if_must_I.
  - destruct subs as [|r1 [|? ?]]; try exact F. apply h_must_I.
  - destruct subs as [|t [|? ?]]; try exact F. apply raise_at_I. apply Calm_nil.
  - destruct subs as [|r1 rs]; try exact F. apply h_strict_I.
  - destruct subs as [|r1 rs]; try exact F. apply guard_I, star_strict_I.
  - destruct subs as [|hd rs]; try exact F. apply h_rematch_I.
  - destruct subs as [|r1 [|? ?]]; try exact F. apply h_try_false_I. destruct Hok as [Hc|[]]; exact Hc.
  - destruct subs as [|r1 [|? ?]]; try exact F. apply h_try_nested_I. destruct Hok as [Hc|[]]; exact Hc.
  - destruct subs as [|r1 [|? ?]]; try exact F. apply st_scope_I, Hev.
  - destruct subs as [|r1 [|? ?]]; try exact F. apply Hev.
  - destruct subs as [|r1 [|? ?]]; try exact F. apply Hev.
  - destruct subs as [|r1 [|? ?]]; try exact F. apply Hev.
  - destruct subs as [|r1 [|? ?]]; try exact F. apply Hev.
  - destruct subs; try exact F. unfold h_apply. destruct (dA d); [|apply Calm_nil]. apply inline_result_I; [apply Calm_nil | apply run_inline_I].
  - destruct subs; try exact F. unfold h_apply0. destruct (dA d); [|apply Calm_nil]. apply inline_result_I; [apply Calm_nil | apply run_inline0_I].
  - destruct subs as [|r1 [|? ?]]; try exact F. apply h_if_apply_I.
Qed.

Lemma run_action_I d ak r b e :
  match run_action C d ak r b e with
  | (ARet _, evs) => Calm evs
  | (AThrow t, evs) => Thrown (EAct t) evs
  end.
Proof.
  unfold run_action. destruct (dA d); [|apply Calm_nil]. destruct ak as [|isb|isb|m]; try apply Calm_nil.
  - destruct (abeh C (dAct d) r b e) as [y|t] eqn:Ea.
    + apply Calm_one. simpl. eexists; exact Ea.
    + apply Th_here; [simpl; eexists; split; [exact Ea | reflexivity] | constructor].
  - destruct (abeh C (dAct d) r b e) as [y|t] eqn:Ea.
    + apply Calm_one. simpl. eexists; eexists; exact Ea.
    + apply Th_here; [simpl; eexists; eexists; split; [exact Ea | reflexivity] | constructor].
Qed.
Lemma fail_hook_I d r cb c1 evs : Calm evs -> Inv (fail_hook C d r cb c1 evs).
Proof.
  intros H. unfold fail_hook. destruct (raise_on_failure C (dCtl d) r) eqn:Er; simpl.
  - apply Thrown_snoc_here; [exact H | simpl; split; [exact Er | reflexivity]].
  - apply Calm_snoc; [exact H | simpl; exact Er].
Qed.
Lemma match_hpp_I ak body d r c : (forall d c, Inv (body d c)) -> Inv (match_hpp C ak body d r c).
Proof.
  intros Hb. unfold match_hpp. set (g := use_guard d ak).
  pose proof (Hb (if g then opt_ d else d) c) as H. dres (body (if g then opt_ d else d) c); auto.
  - pose proof (run_action_I d ak r (cpos c) (cpos c0)) as Ha.
    destruct (run_action C d ak r (cpos c) (cpos c0)) as [[[|]|t] ea]; simpl in *.
    + apply Calm_quiet; [exact I|]. apply Calm_app; [exact H|]. apply Calm_snoc; [exact Ha | exact I].
    + apply fail_hook_I. apply Calm_quiet; [exact I|]. apply Calm_app; assumption.
    + apply Thrown_cons; [exact I|]. apply Th_later; assumption.
  - apply fail_hook_I. apply Calm_quiet; [exact I | exact H].
  - simpl. apply Thrown_cons; [exact I|]. apply Thrown_unw; [exact H|].
    destruct (has_unwind C (dCtl d)); [constructor; [exact I | constructor] | constructor].
Qed.
Lemma action_match_I plain enabled m d r c : (forall d c, Inv (plain d c)) -> Inv (action_match ev plain enabled m d r c).
Proof.
  intros Hp. destruct m; simpl.
  - apply Hev.
  - apply st_scope_I, Hp.
  - apply st_scope_I, Hev.
  - apply Hp.
  - apply Hp.
  - apply Hp.
  - destruct enabled; [|apply Hp]. destruct (n <? S (dDepth d))%nat; [apply raise_at_I, Calm_nil | apply Hp].
  - pose proof (Hp d (mkcur (firstn n (rest c)) (cpos c))) as H.
    dres (plain d (mkcur (firstn n (rest c)) (cpos c))); auto.
    destruct (in_empty c0 && negb (is_nil (skipn n (rest c)))); [apply raise_at_I; exact H | exact H].
  - pose proof (Hp d c) as H. dres (plain d c); auto.
    destruct (n <? length (rest c) - length (rest c0))%nat; [|exact H]. simpl.
    rewrite <- (app_nil_r evs). apply Th_later; [exact H | apply Th_silent; constructor].
Qed.
Lemma traced_I k r a m c x : Inv x -> Inv (traced k r a m c x).
Proof.
  dres x; simpl; auto; intros H.
  - apply Calm_quiet; [exact I|]. apply Calm_snoc; [exact H | exact I].
  - apply Calm_quiet; [exact I|]. apply Calm_snoc; [exact H | exact I].
  - apply Thrown_cons; [exact I|]. apply Thrown_unw; [exact H | constructor; [exact I | constructor]].
Qed.
End HelperFacts.

Variable G : grammar.
Hypothesis HG : forall r nd, nth_error G r = Some nd -> head_ok (nhead nd).

Theorem eval_shape f : forall d r c, Inv (eval G C f d r c).
Proof.
  induction f as [|f IH]; intros d r c; simpl; [exact I|].
  destruct (nth_error G r) as [nd|] eqn:En; [|apply Calm_nil].
  apply traced_I.
  assert (Hbody : forall d' c', Inv (eval_head C (eval G C f) f r (nhead nd) (nsubs nd) d' c')).
  { intros d' c'. apply eval_head_I; [exact IH | eapply HG; eauto]. }
  assert (Hplain : forall ak d' c', Inv (if nenabled nd then match_hpp C ak (eval_head C (eval G C f) f r (nhead nd) (nsubs nd)) d' r c'
                                         else eval_head C (eval G C f) f r (nhead nd) (nsubs nd) d' c')).
  { intros ak d' c'. destruct (nenabled nd); [apply match_hpp_I; exact Hbody | apply Hbody]. }
  destruct (acts C (dAct d) r) as [| | |mk]; try apply Hplain.
  apply action_match_I; [exact IH | apply Hplain].
Qed.
End Shape.

(* ---------- the crisp form for tables without try_catch rules ---------- *)
Definition no_catch (G : grammar) : Prop :=
  forall r nd, nth_error G r = Some nd -> match nhead nd with HTryCatchFalse _ | HTryCatchNested _ => False | _ => True end.

Lemma Calm_false_quiet C l : Calm C false l -> Forall (quiet C) l.
Proof.
  intros H. induction H as [|x l Hq Hl IH|e seg l Hc Ht Hl IH]; [constructor | constructor; assumption | discriminate].
Qed.

Definition first_throw (C : cfg) (e : exn) (evs : list event) : Prop :=
  exists pre post, Forall (quiet C) pre /\ Forall unwinding post /\
    ((exists x, evs = pre ++ x :: post /\ throws C x e) \/ (exists p, e = ECheckBytes p /\ evs = pre ++ post)).

Lemma Thrown_false_first C e l : Thrown C false e l -> first_throw C e l.
Proof.
  intros H. induction H as [x e post Hx Hp|p post Hp|e pre post Hpre Hpost IH|e seg k r p post Hc Hs IH Hp].
  - exists [], post. split; [constructor|]. split; [exact Hp|]. left. exists x. split; [reflexivity | exact Hx].
  - exists [], post. split; [constructor|]. split; [exact Hp|]. right. exists p. split; reflexivity.
  - destruct IH as [pre2 [post2 [Q [U K]]]]. exists (pre ++ pre2), post2.
    split; [apply Forall_app; split; [apply Calm_false_quiet; exact Hpre | exact Q]|]. split; [exact U|].
    destruct K as [[x [-> Hx]]|[p [-> ->]]].
    + left. exists x. split; [rewrite app_assoc; reflexivity | exact Hx].
    + right. exists p. split; [reflexivity | rewrite app_assoc; reflexivity].
  - discriminate.
Qed.

Theorem first_exception G C f d r c o c' evs : no_catch G -> eval G C f d r c = Res o c' evs ->
  match o with
  | Exc e => first_throw C e evs
  | _ => Forall (quiet C) evs
  end.
Proof.
  intros HG H.
  assert (K : Inv C false (eval G C f d r c)).
  { apply eval_shape. intros r0 nd Hn. right. exact (HG r0 nd Hn). }
  rewrite H in K. destruct o; simpl in K; [apply Calm_false_quiet; exact K | apply Calm_false_quiet; exact K | apply Thrown_false_first; exact K].
Qed.

Theorem log_shape G C f d r c o c' evs : eval G C f d r c = Res o c' evs ->
  match o with
  | Exc e => Thrown C true e evs
  | _ => Calm C true evs
  end.
Proof.
  intros H. assert (K : Inv C true (eval G C f d r c)) by (apply eval_shape; intros; left; reflexivity).
  rewrite H in K. destruct o; exact K.
Qed.
