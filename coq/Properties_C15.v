(* Properties_C15.v — C15: integer rules and conversions are exact or report overflow.
   Theorems only; every proof is `exact <lemma of IntegerFacts.v>`.

   Model: Integer.v (contrib/integer.hpp statement by statement, machine integers as w-bit patterns
   with every wrap written as `mod pow2 w`).  Specification: IntegerSpec.v (documented numeral
   syntax as inductive predicates, arbitrary-precision value in Z, type ranges).
   Vocabulary: `bump_in_line k c = Some c'` = "c' is c moved exactly k bytes forward";
   MOk c' st = success with cursor c' and state st; MFail c st = local failure (cursor, state);
   MExc e p c st = parse_error e at position p, cursor c afterwards; MOob = a read or bump outside
   the input.  Width hypothesis (4 <= w) covers every integer type (8, 16, 32, 64 bit);
   bytes_ok = all input bytes are < 256. *)
From PegtlV Require Import Base Integer IntegerSpec IntegerFacts.
Local Open Scope N_scope.

(* ------------------------------------------------------------------ arithmetic core *)

(* the overflow test of accumulate_digit is exact and the accepted update is the unwrapped 10*r+c *)
Theorem acc_digit_exact : forall w Max r c,
  Max < pow2 w -> c <= 9 ->
  (forall r', accumulate_digit w Max r c = Some r' <-> (10 * r + c <= Max /\ r' = 10 * r + c)) /\
  (accumulate_digit w Max r c = None <-> Max < 10 * r + c).
Proof. exact IntegerFacts.acc_digit_exact. Qed.
Print Assumptions acc_digit_exact.

(* on the accepting path neither `result *= 10` nor `result += c` leaves the w-bit range *)
Theorem acc_digit_no_wrap : forall w Max r c r',
  Max < pow2 w -> c <= 9 ->
  accumulate_digit w Max r c = Some r' -> r * 10 + c < pow2 w /\ r' = r * 10 + c /\ r' <= Max.
Proof. exact IntegerFacts.acc_digit_no_wrap. Qed.
Print Assumptions acc_digit_no_wrap.

Theorem accumulate_digits_exact : forall w Max r ds,
  (4 <= w)%nat -> Max < pow2 w -> Forall isdigit ds -> r <= Max ->
  (forall v, accumulate_digits w Max r ds = (true, v) <->
             ((digits_value (Z.of_N r) ds <= Z.of_N Max)%Z /\ Z.of_N v = digits_value (Z.of_N r) ds)) /\
  (fst (accumulate_digits w Max r ds) = false <-> (Z.of_N Max < digits_value (Z.of_N r) ds)%Z).
Proof. exact IntegerFacts.accumulate_digits_exact. Qed.
Print Assumptions accumulate_digits_exact.

(* convert_unsigned< Unsigned, Maximum >: true with the exact value iff value <= Maximum *)
Theorem convert_unsigned_exact : forall w Max ds,
  (4 <= w)%nat -> Max < pow2 w -> Forall isdigit ds ->
  (forall v, convert_unsigned w Max ds = (true, v) <->
             ((unsigned_value ds <= Z.of_N Max)%Z /\ Z.of_N v = unsigned_value ds)) /\
  (fst (convert_unsigned w Max ds) = false <-> (Z.of_N Max < unsigned_value ds)%Z).
Proof. exact IntegerFacts.convert_unsigned_exact. Qed.
Print Assumptions convert_unsigned_exact.

(* two's complement step of convert_negative: exact for 0 .. 2^(w-1), the latter giving the minimum *)
Theorem neg_twos_complement : forall w t, (1 <= w)%nat -> t <= pow2 (w - 1) ->
  to_signed w ((lnot_w w t + 1) mod pow2 w) = (- Z.of_N t)%Z.
Proof. exact IntegerFacts.neg_twos_complement. Qed.
Print Assumptions neg_twos_complement.

(* convert_signed< Signed >: true iff the value is in [-2^(w-1), 2^(w-1)-1], and then the stored
   value is the mathematical value (including "-0", "+0" and the minimum) *)
Theorem convert_signed_exact : forall w inp, (4 <= w)%nat -> signed_numeral inp ->
  exists ok v, convert_signed w inp = Some (ok, v) /\
    (ok = true <-> signed_range w (signed_value inp)) /\ (ok = true -> v = signed_value inp).
Proof. exact IntegerFacts.convert_signed_exact. Qed.
Print Assumptions convert_signed_exact.

(* ------------------------------------------------------------------ specification sanity *)

(* the executable recognisers decide the documented syntax; the lexeme length is unique *)
Theorem lex_unsigned_iff : forall s k, lex_unsigned s = Some k <-> unsigned_lexeme s k.
Proof. exact IntegerFacts.lex_unsigned_iff. Qed.
Print Assumptions lex_unsigned_iff.

Theorem lex_signed_iff : forall s k, lex_signed s = Some k <-> signed_lexeme s k.
Proof. exact IntegerFacts.lex_signed_iff. Qed.
Print Assumptions lex_signed_iff.

(* ------------------------------------------------------------------ syntax_exact, rule by rule *)

Theorem syntax_exact_unsigned_rule : forall (St : Type) c (st : St), bytes_ok (rest c) ->
  (forall k, unsigned_lexeme (rest c) k ->
     exists c', bump_in_line k c = Some c' /\ unsigned_rule c st = MOk c' st) /\
  ((forall k, ~ unsigned_lexeme (rest c) k) -> unsigned_rule c st = MFail c st).
Proof. exact IntegerFacts.unsigned_rule_syntax_exact. Qed.
Print Assumptions syntax_exact_unsigned_rule.

(* the same as equivalences, with the excluded outcomes spelled out *)
Theorem syntax_exact_unsigned_rule_iff : forall (St : Type) c (st : St), bytes_ok (rest c) ->
  (forall c' st', unsigned_rule c st = MOk c' st' <->
       (st' = st /\ exists k, unsigned_lexeme (rest c) k /\ bump_in_line k c = Some c')) /\
  (forall c' st', unsigned_rule c st = MFail c' st' <->
       (st' = st /\ c' = c /\ forall k, ~ unsigned_lexeme (rest c) k)) /\
  unsigned_rule c st <> MOob /\
  (forall e p c' st', unsigned_rule c st <> MExc e p c' st').
Proof. exact IntegerFacts.unsigned_rule_iff. Qed.
Print Assumptions syntax_exact_unsigned_rule_iff.

Theorem syntax_exact_unsigned_rule_with_action : forall w c (st : N), (4 <= w)%nat -> bytes_ok (rest c) ->
  (* apply_mode::nothing: the plain syntax rule, state untouched *)
  ((forall k, unsigned_lexeme (rest c) k ->
      exists c', bump_in_line k c = Some c' /\ unsigned_rule_with_action false w c st = MOk c' st) /\
   ((forall k, ~ unsigned_lexeme (rest c) k) -> unsigned_rule_with_action false w c st = MFail c st)) /\
  (* apply_mode::action: exact value stored, or exception "integer overflow" *)
  ((forall k, unsigned_lexeme (rest c) k ->
      let v := unsigned_value (firstn k (rest c)) in
      (unsigned_range w v ->
         exists c' n, bump_in_line k c = Some c' /\ Z.of_N n = v /\ unsigned_rule_with_action true w c st = MOk c' n) /\
      (~ unsigned_range w v ->
         exists j c' st', (j < k)%nat /\ bump_in_line j c = Some c' /\
                          unsigned_rule_with_action true w c st = MExc OvfInteger (cpos c') c' st')) /\
   ((forall k, ~ unsigned_lexeme (rest c) k) -> unsigned_rule_with_action true w c st = MFail c 0)).
Proof. exact IntegerFacts.unsigned_rule_with_action_syntax_exact. Qed.
Print Assumptions syntax_exact_unsigned_rule_with_action.

Theorem syntax_exact_maximum_rule : forall (St : Type) w Max c (st : St),
  (4 <= w)%nat -> Max < pow2 w -> bytes_ok (rest c) ->
  (forall k, unsigned_lexeme (rest c) k ->
     let v := unsigned_value (firstn k (rest c)) in
     ((v <= Z.of_N Max)%Z -> exists c', bump_in_line k c = Some c' /\ maximum_rule w Max c st = MOk c' st) /\
     ((Z.of_N Max < v)%Z -> maximum_rule w Max c st = MFail c st)) /\
  ((forall k, ~ unsigned_lexeme (rest c) k) -> maximum_rule w Max c st = MFail c st).
Proof. exact IntegerFacts.maximum_rule_syntax_exact. Qed.
Print Assumptions syntax_exact_maximum_rule.

(* over-maximum numerals make the bounded rule fail locally with nothing consumed: no wrap, no throw *)
Theorem maximum_bounded_fails_locally : forall (St : Type) w Max c (st : St) k,
  (4 <= w)%nat -> Max < pow2 w -> bytes_ok (rest c) ->
  unsigned_lexeme (rest c) k -> (Z.of_N Max < unsigned_value (firstn k (rest c)))%Z ->
  maximum_rule w Max c st = MFail c st.
Proof. exact IntegerFacts.maximum_bounded_fails_locally. Qed.
Print Assumptions maximum_bounded_fails_locally.

Theorem syntax_exact_maximum_rule_with_action : forall (act : bool) w Max c (st : N),
  (4 <= w)%nat -> Max < pow2 w -> bytes_ok (rest c) ->
  (forall k, unsigned_lexeme (rest c) k ->
     let v := unsigned_value (firstn k (rest c)) in
     ((v <= Z.of_N Max)%Z ->
        exists c' n, bump_in_line k c = Some c' /\ Z.of_N n = v /\
                     maximum_rule_with_action act w Max c st = MOk c' (if act then n else st)) /\
     ((Z.of_N Max < v)%Z ->
        exists j c' st', (j < k)%nat /\ bump_in_line j c = Some c' /\
                         maximum_rule_with_action act w Max c st = MExc OvfInteger (cpos c') c' st')) /\
  ((forall k, ~ unsigned_lexeme (rest c) k) ->
     maximum_rule_with_action act w Max c st = MFail c (if act then 0 else st)).
Proof. exact IntegerFacts.maximum_rule_with_action_syntax_exact. Qed.
Print Assumptions syntax_exact_maximum_rule_with_action.

Theorem syntax_exact_signed_rule : forall (St : Type) c (st : St), bytes_ok (rest c) ->
  (forall k, signed_lexeme (rest c) k ->
     exists c', bump_in_line k c = Some c' /\ signed_rule c st = MOk c' st) /\
  ((forall k, ~ signed_lexeme (rest c) k) -> signed_rule c st = MFail c st).
Proof. exact IntegerFacts.signed_rule_syntax_exact. Qed.
Print Assumptions syntax_exact_signed_rule.

Theorem syntax_exact_signed_rule_with_action : forall w c (st : Z), (4 <= w)%nat -> bytes_ok (rest c) ->
  (* apply_mode::nothing *)
  ((forall k, signed_lexeme (rest c) k ->
      exists c', bump_in_line k c = Some c' /\ signed_rule_with_action false w c st = MOk c' st) /\
   ((forall k, ~ signed_lexeme (rest c) k) -> signed_rule_with_action false w c st = MFail c st)) /\
  (* apply_mode::action: exact value stored, or exception "signed integer overflow", input restored *)
  ((forall k, signed_lexeme (rest c) k ->
      let v := signed_value (firstn k (rest c)) in
      (signed_range w v ->
         exists c', bump_in_line k c = Some c' /\ signed_rule_with_action true w c st = MOk c' v) /\
      (~ signed_range w v ->
         exists st', signed_rule_with_action true w c st = MExc OvfSigned (cpos c) c st')) /\
   ((forall k, ~ signed_lexeme (rest c) k) -> signed_rule_with_action true w c st = MFail c st)).
Proof. exact IntegerFacts.signed_rule_with_action_syntax_exact. Qed.
Print Assumptions syntax_exact_signed_rule_with_action.

(* the plain rules with the shipped actions attached through the Action parameter *)
Theorem unsigned_rule_unsigned_action_exact : forall w Max c (st : N),
  (4 <= w)%nat -> Max < pow2 w -> bytes_ok (rest c) ->
  (forall k, unsigned_lexeme (rest c) k ->
     let v := unsigned_value (firstn k (rest c)) in
     ((v <= Z.of_N Max)%Z ->
        exists c' n, bump_in_line k c = Some c' /\ Z.of_N n = v /\ unsigned_rule_unsigned_action w Max c st = MOk c' n) /\
     ((Z.of_N Max < v)%Z ->
        exists st', unsigned_rule_unsigned_action w Max c st = MExc OvfUnsigned (cpos c) c st')) /\
  ((forall k, ~ unsigned_lexeme (rest c) k) -> unsigned_rule_unsigned_action w Max c st = MFail c st).
Proof. exact IntegerFacts.unsigned_rule_unsigned_action_exact. Qed.
Print Assumptions unsigned_rule_unsigned_action_exact.

Theorem maximum_rule_maximum_action_exact : forall w Max c (st : N),
  (4 <= w)%nat -> Max < pow2 w -> bytes_ok (rest c) ->
  (forall k, unsigned_lexeme (rest c) k ->
     let v := unsigned_value (firstn k (rest c)) in
     ((v <= Z.of_N Max)%Z ->
        exists c' n, bump_in_line k c = Some c' /\ Z.of_N n = v /\ maximum_rule_maximum_action w Max c st = MOk c' n) /\
     ((Z.of_N Max < v)%Z -> maximum_rule_maximum_action w Max c st = MFail c st)) /\
  ((forall k, ~ unsigned_lexeme (rest c) k) -> maximum_rule_maximum_action w Max c st = MFail c st).
Proof. exact IntegerFacts.maximum_rule_maximum_action_exact. Qed.
Print Assumptions maximum_rule_maximum_action_exact.

Theorem signed_rule_signed_action_exact : forall w c (st : Z), (4 <= w)%nat -> bytes_ok (rest c) ->
  (forall k, signed_lexeme (rest c) k ->
     let v := signed_value (firstn k (rest c)) in
     (signed_range w v ->
        exists c', bump_in_line k c = Some c' /\ signed_rule_signed_action w c st = MOk c' v) /\
     (~ signed_range w v ->
        exists st', signed_rule_signed_action w c st = MExc OvfSigned (cpos c) c st')) /\
  ((forall k, ~ signed_lexeme (rest c) k) -> signed_rule_signed_action w c st = MFail c st).
Proof. exact IntegerFacts.signed_action_exact. Qed.
Print Assumptions signed_rule_signed_action_exact.

(* the lexeme cases above are exhaustive (decidable), so the results are fully determined; in
   particular no rule ever reads or bumps outside the input *)
Theorem lexeme_decidable : forall s,
  ((exists k, unsigned_lexeme s k) \/ (forall k, ~ unsigned_lexeme s k)) /\
  ((exists k, signed_lexeme s k) \/ (forall k, ~ signed_lexeme s k)).
Proof. exact (fun s => conj (IntegerFacts.unsigned_lexeme_dec s) (IntegerFacts.signed_lexeme_dec s)). Qed.
Print Assumptions lexeme_decidable.

Theorem never_oob : forall w Max c (stn : N) (stz : Z) (act : bool),
  (4 <= w)%nat -> Max < pow2 w -> bytes_ok (rest c) ->
  unsigned_rule c stn <> MOob /\
  unsigned_rule_with_action act w c stn <> MOob /\
  maximum_rule w Max c stn <> MOob /\
  maximum_rule_with_action act w Max c stn <> MOob /\
  signed_rule c stz <> MOob /\
  signed_rule_with_action act w c stz <> MOob /\
  unsigned_rule_unsigned_action w Max c stn <> MOob /\
  maximum_rule_maximum_action w Max c stn <> MOob.
Proof. exact IntegerFacts.never_oob. Qed.
Print Assumptions never_oob.

(* ------------------------------------------------------------------ examples: hypotheses are satisfiable *)

(* "255" / "256" into uint8_t, Maximum 255 *)
Example ex_u8_255 : convert_unsigned 8 255 [50; 53; 53] = (true, 255) /\ 255 < pow2 8 /\ Forall isdigit [50; 53; 53].
Proof. split; [vm_compute; reflexivity|]. split; [vm_compute; reflexivity|]. apply IntegerFacts.forallb_sdigit. vm_compute. reflexivity. Qed.
Print Assumptions ex_u8_255.

Example ex_u8_256 : fst (convert_unsigned 8 255 [50; 53; 54]) = false /\ unsigned_value [50; 53; 54] = 256%Z.
Proof. split; vm_compute; reflexivity. Qed.
Print Assumptions ex_u8_256.

(* uri.hpp dec_octet = maximum_rule< std::uint8_t >: "255." matches 3 bytes, "256." fails locally at 0 *)
Example ex_dec_octet :
  maximum_rule 8 255 (cur0 [50; 53; 53; 46]) tt = MOk (mkcur [46] (mkpos 3 1 4)) tt /\
  maximum_rule 8 255 (cur0 [50; 53; 54; 46]) tt = MFail (cur0 [50; 53; 54; 46]) tt /\
  unsigned_lexeme [50; 53; 54; 46] 3 /\ bytes_ok [50; 53; 54; 46].
Proof.
  split; [vm_compute; reflexivity|]. split; [vm_compute; reflexivity|]. split.
  - apply IntegerFacts.lex_unsigned_iff. vm_compute. reflexivity.
  - repeat constructor.
Qed.
Print Assumptions ex_dec_octet.

(* leading zeros: "01" has no lexeme and unsigned_rule fails with nothing consumed; "0x" matches "0" *)
Example ex_leading_zero :
  (forall k, ~ unsigned_lexeme [48; 49] k) /\
  unsigned_rule (cur0 [48; 49]) tt = MFail (cur0 [48; 49]) tt /\
  unsigned_rule (cur0 [48; 120]) tt = MOk (mkcur [120] (mkpos 1 1 2)) tt.
Proof.
  split.
  - intros k H. apply IntegerFacts.lex_unsigned_iff in H. vm_compute in H. discriminate.
  - split; vm_compute; reflexivity.
Qed.
Print Assumptions ex_leading_zero.

(* signed: "-128", "-129", "128", "-0", "+0" into int8_t; the 64-bit minimum *)
Example ex_s8 :
  convert_signed 8 [45; 49; 50; 56] = Some (true, (-128)%Z) /\
  (exists v, convert_signed 8 [45; 49; 50; 57] = Some (false, v)) /\
  (exists v, convert_signed 8 [49; 50; 56] = Some (false, v)) /\
  convert_signed 8 [45; 48] = Some (true, 0%Z) /\
  convert_signed 8 [43; 48] = Some (true, 0%Z) /\
  signed_numeral [45; 49; 50; 56] /\ signed_value [45; 49; 50; 56] = (-128)%Z /\ signed_range 8 (-128).
Proof.
  split; [vm_compute; reflexivity|]. split; [eexists; vm_compute; reflexivity|].
  split; [eexists; vm_compute; reflexivity|]. split; [vm_compute; reflexivity|].
  split; [vm_compute; reflexivity|]. split.
  - apply SN_minus. apply IntegerFacts.numeral_b_iff. vm_compute. reflexivity.
  - split; [vm_compute; reflexivity|]. unfold signed_range. cbn. split; discriminate.
Qed.
Print Assumptions ex_s8.

Example ex_s64_min :
  convert_signed 64 [45; 57; 50; 50; 51; 51; 55; 50; 48; 51; 54; 56; 53; 52; 55; 55; 53; 56; 48; 56]
    = Some (true, (-9223372036854775808)%Z) /\
  (exists v, convert_signed 64 [45; 57; 50; 50; 51; 51; 55; 50; 48; 51; 54; 56; 53; 52; 55; 55; 53; 56; 48; 57]
    = Some (false, v)).
Proof. split; [vm_compute; reflexivity | eexists; vm_compute; reflexivity]. Qed.
Print Assumptions ex_s64_min.

(* signed rule: "-x" and "+01" fail with nothing consumed; "-12y" matches 3 bytes *)
Example ex_signed_rule :
  signed_rule (cur0 [45; 120]) tt = MFail (cur0 [45; 120]) tt /\
  signed_rule (cur0 [43; 48; 49]) tt = MFail (cur0 [43; 48; 49]) tt /\
  signed_rule (cur0 [45; 49; 50; 121]) tt = MOk (mkcur [121] (mkpos 3 1 4)) tt /\
  signed_lexeme [45; 49; 50; 121] 3.
Proof.
  split; [vm_compute; reflexivity|]. split; [vm_compute; reflexivity|]. split; [vm_compute; reflexivity|].
  apply IntegerFacts.lex_signed_iff. vm_compute. reflexivity.
Qed.
Print Assumptions ex_signed_rule.

(* the throwing variant on "256" into uint8_t: "integer overflow" positioned at the third digit *)
Example ex_throws :
  unsigned_rule_with_action true 8 (cur0 [50; 53; 54]) 7 =
    MExc OvfInteger (mkpos 2 1 3) (mkcur [54] (mkpos 2 1 3)) 25.
Proof. vm_compute. reflexivity. Qed.
Print Assumptions ex_throws.
