(* AnalyzeTerm.v — C11 stage B, part 2: termination.
   If every entry of the table is visited by the analysis without a problem, then for every bound L on the remaining
   input there is a fuel F such that Engine.eval with fuel >= F never answers Oof (out of fuel), for every rule,
   mode, configuration and cursor.  Outer induction: L; inner induction: height of the okw derivation. *)
From Coq Require Import Lia.
From PegtlV Require Import Base Decode Grammar Engine EngineFacts AtomFacts Mono Analyze AnalyzeFacts AnalyzeSound AnalyzeCons.

(* match-level actions that re-enter the same rule under another action family can recurse for ever on their own
   (Action A: change_action< B >, Action B: change_action< A >): excluded *)
Definition cfg_plain_actions (C : cfg) : Prop :=
  forall fam r fam', acts C fam r <> AKMatch (MChangeAction fam') /\ acts C fam r <> AKMatch (MChangeActionAndState fam').
(* general form: switching the action family strictly decreases a bounded rank *)
Definition switches (C : cfg) (fam : nat) (r : rid) (fam' : nat) : Prop :=
  acts C fam r = AKMatch (MChangeAction fam') \/ acts C fam r = AKMatch (MChangeActionAndState fam').
Definition cfg_actions_ranked (C : cfg) : Prop :=
  exists (K : nat) (rk : nat -> nat), (forall fam, rk fam <= K) /\ (forall fam r fam', switches C fam r fam' -> rk fam' < rk fam).
Lemma plain_ranked C : cfg_plain_actions C -> cfg_actions_ranked C.
Proof.
  intros H. exists 0, (fun _ => 0). split; [intros; lia|]. intros fam r fam' [E|E]; destruct (H fam r fam') as [K1 K2]; congruence.
Qed.

(* ---------- list decomposition helpers ---------- *)
Lemma map_eq_app_cons {A B} (f : A -> B) : forall l pre x post, map f l = pre ++ x :: post ->
  exists l1 y l2, l = l1 ++ y :: l2 /\ map f l1 = pre /\ f y = x /\ map f l2 = post.
Proof.
  induction l as [|a l IH]; intros pre x post H.
  - destruct pre; discriminate H.
  - destruct pre as [|p pre]; simpl in H; inversion H; subst.
    + exists [], a, l. auto.
    + destruct (IH pre x post H2) as [l1 [y [l2 [E [E1 [E2 E3]]]]]]. exists (a :: l1), y, l2. subst. auto.
Qed.
Lemma app_last_decomp {A} (l : list A) z : forall pre x post, l ++ [z] = pre ++ x :: post -> x <> z ->
  exists post', l = pre ++ x :: post'.
Proof.
  induction l as [|a l IH]; intros pre x post H Hx.
  - destruct pre as [|p pre]; simpl in H; inversion H; subst; [congruence|]. destruct pre; discriminate.
  - destruct pre as [|p pre]; simpl in H; inversion H; subst.
    + exists l. reflexivity.
    + destruct (IH pre x post H2 Hx) as [post' E]. exists post'. subst. reflexivity.
Qed.

(* ---------- results that are not Oof ---------- *)
Lemma prepend_noof evs x : x <> Oof -> prepend evs x <> Oof.
Proof. destruct x; simpl; congruence. Qed.
Lemma guard_noof m s x : x <> Oof -> guard m s x <> Oof.
Proof. dres x; simpl; congruence. Qed.
Lemma look_noof i s x : x <> Oof -> look i s x <> Oof.
Proof. dres x; simpl; congruence. Qed.
Lemma st_scope_noof b r c x : x <> Oof -> st_scope b r c x <> Oof.
Proof. dres x; simpl; congruence. Qed.
Lemma traced_noof k r a m c x : x <> Oof -> traced k r a m c x <> Oof.
Proof. destruct x; simpl; congruence. Qed.
Lemma ok_or_err_noof o : ok_or_err o <> Oof.
Proof. destruct o; discriminate. Qed.
Lemma bump_help_noof ch b n c : bump_help ch b n c <> Oof.
Proof. unfold bump_help. apply ok_or_err_noof. Qed.
Lemma ptb_noof ch pk t c : peek_test_bump ch pk t c <> Oof.
Proof. unfold peek_test_bump. destruct (do_peek pk c) as [|v n|]; try discriminate. destruct (t v); [apply bump_help_noof | discriminate]. Qed.
Lemma inline_result_noof x a b p : inline_result x a b p <> Oof.
Proof. destruct x as [[[|]|t] e]; discriminate. Qed.

Ltac fin_noof := repeat first
  [ discriminate
  | apply ok_or_err_noof | apply ptb_noof | apply bump_help_noof
  | match goal with
    | |- (if ?b then _ else _) <> Oof => destruct b
    | |- match ?t with Some _ => _ | None => _ end <> Oof => destruct t
    | |- match ?t with POob => _ | PNone => _ | PSome _ _ => _ end <> Oof => destruct t
    | |- context[match ?p with (_, _) => _ end] => destruct p
    end ].

Lemma atom_noof eol h c x : eval_atom eol h c = Some x -> x <> Oof.
Proof.
  destruct h; cbn [eval_atom]; intros H; try discriminate H; try (destruct pk); injection H as <-; fin_noof.
Qed.

Section EvTerm.
Variable C : cfg.
Variable ev : dyn -> rid -> cursor -> result.
Hypothesis Hgood : forall d r c, goodT (dM d) c (ev d r c).
Variable L : nat.
Hypothesis H0 : forall r d c, len c < L -> ev d r c <> Oof.

Definition T1 (r : rid) : Prop := forall d c, len c <= L -> ev d r c <> Oof.
Definition SeqS (rs : list rid) : Prop :=
  (forall r, In r rs -> T1 r) \/
  (exists pre r post, rs = pre ++ r :: post /\ (forall x, In x pre -> T1 x) /\ T1 r /\ Cn ev r).

Lemma seq_all_term0 d rs : forall c, len c < L -> seq_all ev d rs c <> Oof.
Proof.
  induction rs as [|r rs IH]; intros c Hc; simpl; [discriminate|]. unfold bind.
  destruct (ev d r c) as [[| |ex] c0 evs0| |] eqn:E; try discriminate.
  - apply prepend_noof. apply IH. apply (ev_le ev Hgood) in E. lia.
  - exfalso. eapply H0; eauto.
Qed.
Lemma seq_all_term_all d rs : (forall r, In r rs -> T1 r) -> forall c, len c <= L -> seq_all ev d rs c <> Oof.
Proof.
  induction rs as [|r rs IH]; intros Hall c Hc; simpl; [discriminate|]. unfold bind.
  destruct (ev d r c) as [[| |ex] c0 evs0| |] eqn:E; try discriminate.
  - apply prepend_noof. apply IH; [intros x Hx; apply Hall; right; exact Hx|]. apply (ev_le ev Hgood) in E. lia.
  - exfalso. eapply (Hall r); [left; reflexivity | exact Hc | exact E].
Qed.
Lemma seq_all_term d rs : SeqS rs -> forall c, len c <= L -> seq_all ev d rs c <> Oof.
Proof.
  intros [Hall|[pre [r [post [-> [Hpre [Hr Hc]]]]]]]; [apply seq_all_term_all; exact Hall|].
  induction pre as [|p pre IH]; intros c Hlen; simpl; unfold bind.
  - destruct (ev d r c) as [[| |ex] c0 evs0| |] eqn:E; try discriminate.
    + apply prepend_noof. apply seq_all_term0. apply Hc in E. lia.
    + exfalso. eapply Hr; eauto.
  - destruct (ev d p c) as [[| |ex] c0 evs0| |] eqn:E; try discriminate.
    + apply prepend_noof. apply IH; [intros x Hx; apply Hpre; right; exact Hx|]. apply (ev_le ev Hgood) in E. lia.
    + exfalso. eapply (Hpre p); [left; reflexivity | exact Hlen | exact E].
Qed.
Lemma seq_all_seqs_cons d rs c c' evs : (exists pre r post, rs = pre ++ r :: post /\ (forall x, In x pre -> T1 x) /\ T1 r /\ Cn ev r) ->
  seq_all ev d rs c = Res Ok c' evs -> len c' < len c.
Proof.
  intros [pre [r [post [-> [_ [_ Hc]]]]]]. apply (seq_all_cons ev Hgood). exists r. split; [apply in_or_app; right; left; reflexivity | exact Hc].
Qed.

Lemma h_seq_term d rs c : SeqS rs -> len c <= L -> h_seq ev d rs c <> Oof.
Proof.
  intros HS Hc. unfold h_seq. destruct rs as [|r1 [|r2 rs]].
  - apply guard_noof. discriminate.
  - pose proof (seq_all_term d [r1] HS c Hc) as K. simpl in K. unfold bind in K.
    destruct (ev d r1 c); try discriminate. congruence.
  - apply guard_noof. apply seq_all_term; assumption.
Qed.

Lemma sor_any_term d rs : (forall r, In r rs -> T1 r) -> forall c, len c <= L -> sor_any ev d rs c <> Oof.
Proof.
  induction rs as [|r rs IH]; intros Hall c Hc; [discriminate|].
  destruct rs as [|r2 rs']; [simpl; apply Hall; [left; reflexivity | exact Hc]|].
  change (sor_any ev d (r :: r2 :: rs') c) with
    (match ev (req d) r c with Res Fail c1 evs1 => prepend evs1 (sor_any ev d (r2 :: rs') c1) | x => x end).
  destruct (ev (req d) r c) as [[| |ex] c0 evs0| |] eqn:E1; try discriminate.
  - apply (ev_fail_req ev Hgood) in E1; [|reflexivity]. subst c0. apply prepend_noof.
    apply IH; [intros x Hx; apply Hall; right; exact Hx | exact Hc].
  - exfalso. eapply (Hall r); [left; reflexivity | exact Hc | exact E1].
Qed.

Lemma star_loop_term rs :
  (forall d c, len c <= L -> seq_all ev d rs c <> Oof) ->
  (forall d c c' e, seq_all ev d rs c = Res Ok c' e -> len c' < len c) ->
  forall n d c, len c < n -> len c <= L -> star_loop ev n d rs c <> Oof.
Proof.
  intros HT HC. induction n as [|n IH]; intros d c Hn Hc; [lia|]. simpl.
  destruct (seq_all ev (req d) rs c) as [[| |ex] c0 evs0| |] eqn:E; try discriminate.
  - apply prepend_noof. apply HC in E. apply IH; lia.
  - exfalso. eapply HT; eauto.
Qed.

Lemma h_plus_term n d r1 c : T1 r1 -> Cn ev r1 -> L < n -> len c <= L -> h_plus ev n d r1 c <> Oof.
Proof.
  intros Ht Hcn Hn Hc. unfold h_plus, bind.
  destruct (ev d r1 c) as [[| |ex] c0 evs0| |] eqn:E; try discriminate.
  - apply prepend_noof. apply (ev_le ev Hgood) in E. apply star_loop_term; try lia.
    + intros d0 c1 Hc1. apply seq_all_term; [|exact Hc1]. left. intros x [<-|[]]. exact Ht.
    + intros d0 c1 c2 e H. eapply (seq_all_cons ev Hgood); [|exact H]. exists r1. split; [left; reflexivity | exact Hcn].
  - exfalso. eapply Ht; eauto.
Qed.

Lemma rep_loop_term k d r : T1 r -> forall c, len c <= L -> rep_loop ev k d r c <> Oof.
Proof.
  intros Ht. induction k as [|k IH]; intros c Hc; simpl; [discriminate|]. unfold bind.
  destruct (ev d r c) as [[| |ex] c0 evs0| |] eqn:E; try discriminate.
  - apply prepend_noof. apply IH. apply (ev_le ev Hgood) in E. lia.
  - exfalso. eapply Ht; eauto.
Qed.
Lemma repopt_loop_term k d r : T1 r -> forall c, len c <= L -> fst (repopt_loop ev k d r c) <> Oof.
Proof.
  intros Ht. induction k as [|k IH]; intros c Hc; simpl; [discriminate|].
  destruct (ev (req d) r c) as [[| |ex] c0 evs0| |] eqn:E; try discriminate.
  - apply (ev_le ev Hgood) in E. specialize (IH c0 ltac:(lia)). destruct (repopt_loop ev k d r c0) as [x b]. simpl in *. apply prepend_noof. exact IH.
  - exfalso. eapply Ht; eauto.
Qed.

Lemma h_if_then_else_term d cnd t e c : T1 cnd -> (T1 t \/ Cn ev cnd) -> T1 e -> len c <= L -> h_if_then_else ev d cnd t e c <> Oof.
Proof.
  intros Hc Ht He Hlen. unfold h_if_then_else. apply guard_noof.
  destruct (ev (req d) cnd c) as [[| |ex] c0 evs0| |] eqn:E1; try discriminate.
  - apply prepend_noof. destruct Ht as [Ht|Hcn].
    + apply Ht. apply (ev_le ev Hgood) in E1. lia.
    + apply H0. apply Hcn in E1. lia.
  - apply prepend_noof. apply (ev_fail_req ev Hgood) in E1; [|reflexivity]. subst c0. apply He. exact Hlen.
  - exfalso. eapply Hc; eauto.
Qed.

Lemma until2_term n d cnd r : T1 cnd -> T1 r -> Cn ev r -> forall c, len c < n -> len c <= L -> until2_loop ev n d cnd r c <> Oof.
Proof.
  intros Hc Hr Hcn. induction n as [|n IH]; intros c Hn Hl; [lia|]. simpl.
  destruct (ev (req d) cnd c) as [[| |ex] c0 evs0| |] eqn:E1; try discriminate.
  - apply (ev_fail_req ev Hgood) in E1; [|reflexivity]. subst c0.
    destruct (ev (opt_ d) r c) as [[| |ex] c1 evs1| |] eqn:E2; try discriminate.
    + apply prepend_noof. apply Hcn in E2. apply IH; lia.
    + exfalso. eapply Hr; eauto.
  - exfalso. eapply Hc; eauto.
Qed.

Lemma until1_term n d cnd : T1 cnd -> forall c, len c < n -> len c <= L -> until1_loop C ev n d cnd c <> Oof.
Proof.
  intros Ht. induction n as [|n IH]; intros c Hn Hl; [lia|]. cbn [until1_loop].
  destruct (ev (req d) cnd c) as [[| |ex] c0 evs0| |] eqn:E1; try discriminate.
  - apply (ev_fail_req ev Hgood) in E1; [|reflexivity]. subst c0.
    destruct (in_empty c); [discriminate|].
    destruct (bump_scan (eol_ch (ceol C)) 1 c) as [c2|] eqn:Eb; [|discriminate].
    apply prepend_noof. apply bump_scan_len in Eb. apply IH; lia.
  - exfalso. eapply Ht; eauto.
Qed.

Lemma h_if_apply_term d acts_ r1 c : T1 r1 -> len c <= L -> h_if_apply C ev d acts_ r1 c <> Oof.
Proof.
  intros Ht Hc. unfold h_if_apply. destruct (dA d && negb match acts_ with [] => true | _ :: _ => false end); [|apply Ht; exact Hc].
  pose proof (Ht (set_A (opt_ d) true) c Hc) as K.
  destruct (ev (set_A (opt_ d) true) r1 c) as [[| |ex] c1 evs1| |]; try discriminate; try congruence. apply inline_result_noof.
Qed.

Lemma h_rep_min_max_term mn mx d r1 c : T1 r1 -> len c <= L -> h_rep_min_max ev mn mx d r1 c <> Oof.
Proof.
  intros Ht Hc. unfold h_rep_min_max. apply guard_noof. unfold bind.
  pose proof (rep_loop_term mn (opt_ d) r1 Ht c Hc) as K1.
  destruct (rep_loop ev mn (opt_ d) r1 c) as [[| |ex] c1 evs1| |] eqn:E1; try discriminate; try congruence.
  apply prepend_noof. apply (rep_loop_le ev Hgood) in E1; [|reflexivity].
  pose proof (repopt_loop_term (mx - mn) d r1 Ht c1 ltac:(lia)) as K2.
  pose proof (repopt_loop_ok PT PT_refl PT_trans ev Hgood (mx - mn) d r1 c1) as K3.
  destruct (repopt_loop ev (mx - mn) d r1 c1) as [x b]. simpl in K2, K3.
  destruct x as [[| |ex] c2 evs2| |]; try discriminate; try congruence.
  destruct b; [|discriminate]. apply prepend_noof. unfold h_at. apply look_noof. apply Ht. simpl in K3. apply adv_len in K3. lia.
Qed.

Lemma rematch_all_term d rs i2 : (forall r, In r rs -> T1 r) -> len i2 <= L -> rematch_all ev d rs i2 <> Oof.
Proof.
  induction rs as [|r rs IH]; intros Hall Hl; simpl; [discriminate|].
  pose proof (Hall r (or_introl eq_refl) d i2 Hl) as K.
  destruct (ev d r i2) as [[| |ex] c1 evs1| |]; try discriminate; try congruence.
  apply prepend_noof. apply IH; [intros x Hx; apply Hall; right; exact Hx | exact Hl].
Qed.
Lemma take_length n : forall l bs, take n l = Some bs -> length bs = n.
Proof.
  induction n as [|n IH]; intros l bs H; simpl in H; [inversion H; reflexivity|].
  destruct l as [|b tl]; [discriminate|]. destruct (take n tl) as [bs'|] eqn:E; [|discriminate]. simpl in H. inversion H; subst. simpl. f_equal. eapply IH; eauto.
Qed.
Lemma h_rematch_term d hd rs c : T1 hd -> (forall r, In r rs -> T1 r) -> len c <= L -> h_rematch ev d hd rs c <> Oof.
Proof.
  intros Hh Hall Hc. unfold h_rematch. destruct rs as [|r rs']; [apply Hh; exact Hc|].
  pose proof (Hh (opt_ d) c Hc) as K.
  destruct (ev (opt_ d) hd c) as [[| |ex] c1 evs1| |] eqn:E1; try discriminate; try congruence.
  destruct (take (length (rest c) - length (rest c1)) (rest c)) as [span|] eqn:Et; [|discriminate].
  assert (K2 : rematch_all ev (opt_ d) (r :: rs') (mkcur span (cpos c)) <> Oof).
  { apply rematch_all_term; [exact Hall|]. unfold len in *. simpl. apply take_length in Et. unfold byte in *. lia. }
  destruct (rematch_all ev (opt_ d) (r :: rs') (mkcur span (cpos c))) as [[| |ex] c2 evs2| |]; try discriminate; congruence.
Qed.
End EvTerm.

Lemma match_hpp_noof C ak body d r c : (forall d0, body d0 c <> Oof) -> match_hpp C ak body d r c <> Oof.
Proof.
  intros Hb. unfold match_hpp. specialize (Hb (if use_guard d ak then opt_ d else d)).
  destruct (body (if use_guard d ak then opt_ d else d) c) as [[| |ex] c1 evs1| |]; try discriminate; try congruence.
  - destruct (run_action C d ak r (cpos c) (cpos c1)) as [[[|]|t] ea]; try discriminate.
    unfold fail_hook. destruct (raise_on_failure C (dCtl d) r); discriminate.
  - unfold fail_hook. destruct (raise_on_failure C (dCtl d) r); discriminate.
Qed.

Lemma action_match_term ev plain enabled m d r c L :
  (forall d0 c0, len c0 <= L -> plain d0 c0 <> Oof) ->
  (forall fam, m = MChangeAction fam \/ m = MChangeActionAndState fam -> ev (set_act d fam) r c <> Oof) ->
  len c <= L -> action_match ev plain enabled m d r c <> Oof.
Proof.
  intros Hp Hm Hc. destruct m; simpl.
  - apply Hm. left. reflexivity.
  - apply st_scope_noof. apply Hp. exact Hc.
  - apply st_scope_noof. apply Hm. right. reflexivity.
  - apply Hp; exact Hc.
  - apply Hp; exact Hc.
  - apply Hp; exact Hc.
  - destruct enabled; [|apply Hp; exact Hc]. destruct (n <? S (dDepth d))%nat; [discriminate | apply Hp; exact Hc].
  - assert (K : plain d (mkcur (firstn n (rest c)) (cpos c)) <> Oof).
    { apply Hp. unfold len in *. simpl. pose proof (firstn_length n (rest c)) as Q. unfold byte in *. lia. }
    destruct (plain d (mkcur (firstn n (rest c)) (cpos c))) as [[| |ex] c1 evs1| |]; try discriminate; try congruence.
    destruct (in_empty c1 && negb (is_nil (skipn n (rest c)))); discriminate.
  - specialize (Hp d c Hc). destruct (plain d c) as [[| |ex] c1 evs1| |]; try discriminate; try congruence.
    destruct (n <? length (rest c) - length (rest c1))%nat; discriminate.
Qed.

Section Term.
Variable G : grammar.
Variable C : cfg.
Hypothesis Hwf : table_wf G.
Hypothesis Hcov : table_shape_ok G = true.
Notation ent := (aentry G).

Lemma okfh_single h stk t x a : okfh ent h stk t [x] a -> exists b, okh ent h stk x b.
Proof. intros H. inversion H; subst; eauto. Qed.

Lemma on_stack_false h stk x b : okh ent h stk x b -> In x stk -> False.
Proof. intros H Hin. apply okh_inv in H. destruct H as [h' [a [_ [N _]]]]. apply N. exact Hin. Qed.

Section Head.
Variable ev : dyn -> rid -> cursor -> result.
Hypothesis Hgood : forall d r c, goodT (dM d) c (ev d r c).
Variable L : nat.
Hypothesis H0 : forall r d c, len c < L -> ev d r c <> Oof.
Variable h : nat.
Hypothesis H1 : forall stk r b, okh ent h stk (rl r) b -> T1 ev L r.
Hypothesis HC : forall r, cons_ok G r -> Cn ev r.

Lemma t1_lower h2 stk r b : okh ent h2 stk (rl r) b -> h2 <= h -> T1 ev L r.
Proof. intros H Hle. eapply H1. eapply okh_mono; eauto. Qed.
Lemma cn_lower h2 stk r : okh ent h2 stk (rl r) true -> Cn ev r.
Proof. intros H. apply HC. exists h2, stk. exact H. Qed.

Lemma seqs_of h2 stk t rs a : h2 <= h -> t <> KSor -> okfh ent h2 stk t (rls rs) a -> SeqS ev L rs.
Proof.
  intros Hle Ht Hf. destruct (okfh_seq_struct ent h2 stk t Ht _ _ Hf) as [[_ Hall]|[_ [pre [x [post [E [Hpre Hx]]]]]]].
  - left. intros r Hr. eapply t1_lower; [apply Hall; unfold rls; apply in_map; exact Hr | exact Hle].
  - right. unfold rls in E. destruct (map_eq_app_cons rl rs pre x post E) as [l1 [y [l2 [-> [E1 [E2 E3]]]]]]. subst.
    exists l1, y, l2. split; [reflexivity|]. split; [|split].
    + intros x Hx'. eapply t1_lower; [apply Hpre; apply in_map; exact Hx' | exact Hle].
    + eapply t1_lower; eauto.
    + eapply cn_lower; eauto.
Qed.

(* stated for an arbitrary (head, subs) whose trait is stored under the name self *)
Lemma term_head n eself (self : rid) h0 subs0 stk a d c :
  head_direct h0 = true ->
  ent (rl self) = main_entry G self h0 subs0 ->
  (forall k, ent (self, S k) = syn_entry G self h0 subs0 (S k)) ->
  okfh ent h (rl self :: stk) (ekind (ent (rl self))) (esubs (ent (rl self))) a ->
  L < n -> len c <= L ->
  eval_head C ev n eself h0 subs0 d c <> Oof.
Proof.
  intros Hct Hmain Esyn Hf Hnl Hc.
  rewrite Hmain in Hf.
  assert (NS : KSeq <> KSor) by discriminate.
  assert (NO : KOpt <> KSor) by discriminate.
  unfold eval_head.
  destruct (eval_atom (ceol C) h0 c) as [x|] eqn:Ea; [eapply atom_noof; eauto|].
  destruct h0 eqn:Eh; cbn [eval_atom] in Ea; try discriminate Ea; try (destruct pk; discriminate Ea); try discriminate Hct; clear Ea.
  - (* seq *)
    apply (h_seq_term ev Hgood L H0); [|exact Hc].
    destruct subs0 as [|s0 ss] eqn:Es; [left; intros r []|].
    cbn [main_entry t_seq rls map e_seq ekind esubs] in Hf. eapply (seqs_of h _ KSeq (s0 :: ss)); [lia | exact NS | exact Hf].
  - (* sor *)
    destruct subs0 as [|s0 ss] eqn:Es; [discriminate|].
    cbn [main_entry rls map e_sor ekind esubs] in Hf.
    apply (sor_any_term ev Hgood L); [|exact Hc]. intros r Hr.
    destruct (okfh_sor_all ent h _ _ _ Hf (rl r)) as [b [Hb _]].
    { change (rl s0 :: map rl ss) with (map rl (s0 :: ss)). apply in_map. exact Hr. }
    eapply H1; eauto.
  - (* star_partial *)
    destruct subs0 as [|s0 ss] eqn:Es.
    { exfalso. cbn [main_entry e_opt ekind esubs] in Hf. eapply okfh_bad; exact Hf. }
    cbn [main_entry e_opt ekind esubs] in Hf.
    destruct (okfh_single _ _ _ _ _ Hf) as [b1 Hb1].
    apply okh_inv in Hb1. destruct Hb1 as [h2 [a2 [Eh2 [_ [Hf2 _]]]]].
    unfold sy in Hf2. rewrite (Esyn 0) in Hf2. cbn [syn_entry e_seq ekind esubs] in Hf2.
    assert (HS : exists pre r post, s0 :: ss = pre ++ r :: post /\ (forall x, In x pre -> T1 ev L x) /\ T1 ev L r /\ Cn ev r).
    { destruct (okfh_seq_struct ent h2 _ KSeq NS _ _ Hf2) as [[_ Hall]|[_ [pre [x [post [E [Hpre Hx]]]]]]].
      - exfalso. eapply (on_stack_false h2 _ (rl self)); [apply Hall; apply in_or_app; right; left; reflexivity | right; left; reflexivity].
      - assert (Hne : x <> rl self).
        { intros ->. eapply (on_stack_false h2 _ (rl self)); [exact Hx | right; left; reflexivity]. }
        destruct (app_last_decomp _ _ _ _ _ E Hne) as [post' E'].
        unfold rls in E'. destruct (map_eq_app_cons rl (s0 :: ss) pre x post' E') as [l1 [y [l2 [E0 [E1 [E2 E3]]]]]]. subst pre x post'.
        exists l1, y, l2. split; [exact E0|]. split; [|split].
        + intros x0 Hx0. eapply t1_lower; [apply Hpre; apply in_map; exact Hx0 | lia].
        + eapply t1_lower; [exact Hx | lia].
        + eapply cn_lower; exact Hx. }
    apply (star_loop_term ev L); try lia.
    + intros d0 c0 Hc0. apply (seq_all_term ev Hgood L H0); [right; exact HS | exact Hc0].
    + intros d0 c0 c1 e He. eapply (seq_all_seqs_cons ev Hgood L); eauto.
  - (* plus *)
    destruct subs0 as [|r1 [|r2 rs]] eqn:Es; try discriminate.
    cbn [main_entry rls map app e_seq ekind esubs] in Hf.
    assert (K : okh ent h (rl self :: stk) (rl r1) true).
    { inversion Hf as [| ? ? ? ? ? Ht Hr1 | ? ? ? ? ? ? Ht Hr1 Hrest | |]; subst; [exact Hr1|]. exfalso.
      destruct (okfh_single _ _ _ _ _ Hrest) as [b1 Hb1].
      apply okh_inv in Hb1. destruct Hb1 as [h2 [a2 [Eh2 [_ [Hf2 _]]]]].
      unfold sy in Hf2. rewrite (Esyn 0) in Hf2. cbn [syn_entry e_opt ekind esubs] in Hf2.
      destruct (okfh_single _ _ _ _ _ Hf2) as [b3 Hb3].
      eapply (on_stack_false h2 _ (rl self)); [exact Hb3 | right; left; reflexivity]. }
    apply (h_plus_term ev Hgood L H0); [eapply H1; exact K | eapply cn_lower; exact K | exact Hnl | exact Hc].
  - (* partial *)
    cbn [main_entry e_opt ekind esubs] in Hf. unfold h_partial.
    pose proof (seq_all_term ev Hgood L H0 (req d) subs0 (seqs_of h _ KOpt _ _ (le_n _) NO Hf) c Hc) as K.
    destruct (seq_all ev (req d) subs0 c) as [[| |ex] c1 evs1| |]; try discriminate; congruence.
  - (* at *)
    destruct subs0 as [|r1 [|r2 rs]] eqn:Es; try discriminate.
    cbn [main_entry rls map e_opt ekind esubs] in Hf. destruct (okfh_single _ _ _ _ _ Hf) as [b1 Hb1].
    unfold h_at. apply look_noof. eapply H1; eauto.
  - (* not_at *)
    destruct subs0 as [|r1 [|r2 rs]] eqn:Es; try discriminate.
    cbn [main_entry rls map e_opt ekind esubs] in Hf. destruct (okfh_single _ _ _ _ _ Hf) as [b1 Hb1].
    unfold h_at. apply look_noof. eapply H1; eauto.
  - (* until2 *)
    destruct subs0 as [|cnd [|r1 [|r2 rs]]] eqn:Es; try discriminate.
    cbn [main_entry e_seq ekind esubs] in Hf.
    assert (K : (exists b, okh ent h (rl self :: stk) (rl cnd) b) /\ okh ent h (rl self :: stk) (sy self 1) false).
    { inversion Hf as [| ? ? ? ? ? Ht Hr1 | ? ? ? ? ? ? Ht Hr1 Hrest | |]; subst.
      - exfalso. apply okh_kind_true in Hr1. apply Hr1. unfold sy. rewrite (Esyn 0). reflexivity.
      - split; [eapply okfh_single; exact Hrest | exact Hr1]. }
    destruct K as [[bc Hbc] Hs1].
    apply okh_inv in Hs1. destruct Hs1 as [h2 [a2 [Eh2 [_ [Hf2 _]]]]].
    unfold sy in Hf2. rewrite (Esyn 0) in Hf2. cbn [syn_entry e_opt ekind esubs] in Hf2.
    destruct (okfh_single _ _ _ _ _ Hf2) as [b2 Hb2].
    apply okh_inv in Hb2. destruct Hb2 as [h3 [a3 [Eh3 [_ [Hf3 _]]]]].
    unfold sy in Hf3. rewrite (Esyn 1) in Hf3. cbn [syn_entry rls map app e_seq ekind esubs] in Hf3.
    assert (Hle : h3 <= h) by lia. clear Eh2 Eh3.
    assert (K : okh ent h3 ((self, 2) :: (self, 1) :: rl self :: stk) (rl r1) true).
    { inversion Hf3 as [| ? ? ? ? ? Ht Hr1 | ? ? ? ? ? ? Ht Hr1 Hrest | |]; subst; [exact Hr1|]. exfalso.
      destruct (okfh_single _ _ _ _ _ Hrest) as [b4 Hb4].
      eapply (on_stack_false h3 _ (sy self 1)); [exact Hb4 | right; left; reflexivity]. }
    unfold h_until2. apply guard_noof.
    apply (until2_term ev Hgood L); try lia; [eapply H1; exact Hbc | eapply t1_lower; [exact K | exact Hle] | eapply cn_lower; exact K].
  - (* rep *)
    destruct subs0 as [|r1 [|r2 rs]] eqn:Es; try discriminate.
    assert (K : exists b1, okh ent h (rl self :: stk) (rl r1) b1).
    { destruct n0; cbn [main_entry t_seq rls map e_seq e_opt ekind esubs] in Hf; eapply okfh_single; exact Hf. }
    destruct K as [b1 Hb1]. unfold h_rep. apply guard_noof. apply (rep_loop_term ev Hgood L); [eapply H1; eauto | exact Hc].
  - (* rep_min_max *)
    destruct subs0 as [|r1 [|r2 rs]] eqn:Es; try discriminate.
    assert (K : exists b1, okh ent h (rl self :: stk) (rl r1) b1).
    { destruct mn; cbn [main_entry t_seq rls map e_seq e_opt ekind esubs] in Hf; eapply okfh_single; exact Hf. }
    destruct K as [b1 Hb1]. apply (h_rep_min_max_term ev Hgood L); [eapply H1; eauto | exact Hc].
  - (* rep_opt *)
    destruct subs0 as [|r1 [|r2 rs]] eqn:Es; try discriminate.
    cbn [main_entry rls map e_opt ekind esubs] in Hf. destruct (okfh_single _ _ _ _ _ Hf) as [b1 Hb1].
    unfold h_rep_opt. apply (repopt_loop_term ev Hgood L); [eapply H1; eauto | exact Hc].
  - (* if_then_else *)
    destruct subs0 as [|cnd [|t [|e [|? ?]]]] eqn:Es; try discriminate.
    cbn [main_entry e_sor ekind esubs] in Hf.
    destruct (okfh_sor_all ent h _ _ _ Hf (sy self 1)) as [b1 [Hb1 _]]; [left; reflexivity|].
    destruct (okfh_sor_all ent h _ _ _ Hf (rl e)) as [b2 [Hb2 _]]; [right; left; reflexivity|].
    apply okh_inv in Hb1. destruct Hb1 as [h2 [a2 [Eh2 [_ [Hf2 _]]]]].
    unfold sy in Hf2. rewrite (Esyn 0) in Hf2. cbn [syn_entry e_seq ekind esubs] in Hf2.
    assert (Hle : h2 <= h) by lia. clear Eh2.
    apply (h_if_then_else_term ev Hgood L H0); try exact Hc; [| | eapply H1; exact Hb2].
    + inversion Hf2 as [| ? ? ? ? ? Ht Hr1 | ? ? ? ? ? ? Ht Hr1 Hrest | |]; subst; eapply t1_lower; eauto.
    + inversion Hf2 as [| ? ? ? ? ? Ht Hr1 | ? ? ? ? ? ? Ht Hr1 Hrest | |]; subst.
      * right. eapply cn_lower; exact Hr1.
      * left. destruct (okfh_single _ _ _ _ _ Hrest) as [b3 Hb3]. eapply t1_lower; [exact Hb3 | exact Hle].
  - (* must *)
    destruct subs0 as [|r1 [|r2 rs]] eqn:Es; try discriminate.
    cbn [main_entry t_seq rls map e_seq ekind esubs] in Hf. destruct (okfh_single _ _ _ _ _ Hf) as [b1 Hb1].
    unfold h_must, raise_at. pose proof (H1 _ _ _ Hb1 (opt_ d) c Hc) as K.
    destruct (ev (opt_ d) r1 c) as [[| |ex] c1 evs1| |]; try discriminate; congruence.
  - (* raise *)
    destruct subs0 as [|r1 [|r2 rs]] eqn:Es; discriminate.
  - (* strict *) exfalso. cbn [main_entry e_bad e_seq ekind esubs] in Hf. eapply okfh_bad; exact Hf.
  - (* star_strict *) exfalso. cbn [main_entry e_bad e_seq ekind esubs] in Hf. eapply okfh_bad; exact Hf.
  - (* rematch *)
    destruct subs0 as [|hd rs] eqn:Es; [discriminate|].
    cbn [main_entry e_sor ekind esubs] in Hf.
    destruct (okfh_sor_all ent h _ _ _ Hf (rl hd)) as [b1 [Hb1 _]]; [left; reflexivity|].
    destruct (okfh_sor_all ent h _ _ _ Hf (sy self 1)) as [b2 [Hb2 _]]; [right; left; reflexivity|].
    apply (h_rematch_term ev L); [eapply H1; exact Hb1 | | exact Hc].
    intros r Hr.
    apply okh_inv in Hb2. destruct Hb2 as [h2 [a2 [Eh2 [_ [Hf2 _]]]]].
    unfold sy in Hf2. rewrite (Esyn 0) in Hf2.
    destruct (In_nth_error rs r Hr) as [i Hi].
    assert (Hil : i < length rs) by (apply nth_error_Some; congruence).
    destruct rs as [|r0 rs0] eqn:Ers; [destruct Hr|]. rewrite <- Ers in *.
    assert (Hf2' : okfh ent h2 ((self, 1) :: rl self :: stk) KSor (map (sy self) (seq 2 (length rs))) a2).
    { rewrite Ers in Hf2 |- *. exact Hf2. }
    destruct (okfh_sor_all ent h2 _ _ _ Hf2' (sy self (2 + i))) as [b3 [Hb3 _]].
    { apply in_map. apply in_seq. lia. }
    apply okh_inv in Hb3. destruct Hb3 as [h3 [a3 [Eh3 [_ [Hf3 _]]]]].
    unfold sy in Hf3. change (2 + i) with (S (S i)) in Hf3. rewrite (Esyn (S i)) in Hf3.
    cbn [syn_entry] in Hf3. rewrite Hi in Hf3. cbn [e_seq ekind esubs] in Hf3.
    assert (Hle : h3 <= h) by lia. clear Eh2 Eh3.
    assert (K : exists b4, okh ent h3 ((self, S (S i)) :: (self, 1) :: rl self :: stk) (rl r) b4).
    { inversion Hf3; subst; eauto. }
    destruct K as [b4 Hb4]. eapply t1_lower; [exact Hb4 | exact Hle].
  - (* try_catch_return_false *)
    destruct subs0 as [|r1 [|r2 rs]] eqn:Es; try discriminate.
    cbn [main_entry t_seq rls map e_seq ekind esubs] in Hf. destruct (okfh_single _ _ _ _ _ Hf) as [b1 Hb1].
    unfold h_try_false. pose proof (H1 _ _ _ Hb1 (opt_ d) c Hc) as K.
    destruct (ev (opt_ d) r1 c) as [[| |ex] c1 evs1| |]; try discriminate; congruence.
  - (* try_catch_raise_nested *)
    destruct subs0 as [|r1 [|r2 rs]] eqn:Es; try discriminate.
    cbn [main_entry t_seq rls map e_seq ekind esubs] in Hf. destruct (okfh_single _ _ _ _ _ Hf) as [b1 Hb1].
    unfold h_try_nested. pose proof (H1 _ _ _ Hb1 (opt_ d) c Hc) as K.
    destruct (ev (opt_ d) r1 c) as [[| |ex] c1 evs1| |]; try discriminate; try congruence.
    destruct (catches f ex); discriminate.
  - (* state *)
    destruct subs0 as [|r1 [|r2 rs]] eqn:Es; try discriminate.
    cbn [main_entry t_seq rls map e_seq ekind esubs] in Hf. destruct (okfh_single _ _ _ _ _ Hf) as [b1 Hb1].
    apply st_scope_noof. eapply H1; eauto.
  - (* action *)
    destruct subs0 as [|r1 [|r2 rs]] eqn:Es; try discriminate.
    cbn [main_entry t_seq rls map e_seq ekind esubs] in Hf. destruct (okfh_single _ _ _ _ _ Hf) as [b1 Hb1]. eapply H1; eauto.
  - (* control *)
    destruct subs0 as [|r1 [|r2 rs]] eqn:Es; try discriminate.
    cbn [main_entry t_seq rls map e_seq ekind esubs] in Hf. destruct (okfh_single _ _ _ _ _ Hf) as [b1 Hb1]. eapply H1; eauto.
  - (* enable *)
    destruct subs0 as [|r1 [|r2 rs]] eqn:Es; try discriminate.
    cbn [main_entry t_seq rls map e_seq ekind esubs] in Hf. destruct (okfh_single _ _ _ _ _ Hf) as [b1 Hb1]. eapply H1; eauto.
  - (* disable *)
    destruct subs0 as [|r1 [|r2 rs]] eqn:Es; try discriminate.
    cbn [main_entry t_seq rls map e_seq ekind esubs] in Hf. destruct (okfh_single _ _ _ _ _ Hf) as [b1 Hb1]. eapply H1; eauto.
  - (* apply *)
    destruct subs0; try discriminate. unfold h_apply. destruct (dA d); [apply inline_result_noof | discriminate].
  - (* apply0 *)
    destruct subs0; try discriminate. unfold h_apply0. destruct (dA d); [apply inline_result_noof | discriminate].
Qed.
End Head.
End Term.

Section Main.
Variable G : grammar.
Variable C : cfg.
Hypothesis Hwf : table_wf G.
Hypothesis Hcov : table_shape_ok G = true.
Variable K : nat.
Variable rk : nat -> nat.
Hypothesis Hrk_le : forall fam, rk fam <= K.
Hypothesis Hrk_dec : forall fam r fam', switches C fam r fam' -> rk fam' < rk fam.
Notation ent := (aentry G).
Definition W : nat := K + 2.          (* fuel spent by one node: the match.hpp level plus at most K changes of the action family *)

Definition Prev (L F0 : nat) : Prop := forall r f d c, F0 <= f -> len c < L -> eval G C f d r c <> Oof.
Definition AtLevel (L F : nat) (r : rid) : Prop := forall f d c, F <= f -> len c <= L -> eval G C f d r c <> Oof.

(* node level: match.hpp and the match-level actions around a body that terminates *)
Lemma node_wrap L F r nd : nth_error G r = Some nd ->
  (forall f1, F <= f1 -> forall d0 c0, len c0 <= L -> eval_head C (eval G C f1) f1 r (nhead nd) (nsubs nd) d0 c0 <> Oof) ->
  AtLevel L (F + W) r.
Proof.
  intros En Hbody.
  assert (A : forall n f d c, rk (dAct d) <= n -> F + n + 1 <= f -> len c <= L -> eval G C f d r c <> Oof).
  { induction n as [|n IHn]; intros f d c Hn Hf Hc; (destruct f as [|f1]; [lia|]); simpl; rewrite En; apply traced_noof.
    all: assert (Hplain : forall ak d0 c0, len c0 <= L ->
            (if nenabled nd then match_hpp C ak (eval_head C (eval G C f1) f1 r (nhead nd) (nsubs nd)) d0 r c0
             else eval_head C (eval G C f1) f1 r (nhead nd) (nsubs nd) d0 c0) <> Oof)
          by (intros ak d0 c0 Hc0; destruct (nenabled nd); [apply match_hpp_noof; intros d1|]; apply Hbody; try lia; exact Hc0).
    all: destruct (acts C (dAct d) r) as [| | |m] eqn:Ea; try (apply Hplain; exact Hc).
    all: apply action_match_term with (L := L); [intros d0 c0 Hc0; apply (Hplain AKNone); exact Hc0 | | exact Hc].
    - intros fam Hm. exfalso. assert (Hs : switches C (dAct d) r fam) by (unfold switches; rewrite Ea; destruct Hm as [->| ->]; auto).
      apply Hrk_dec in Hs. lia.
    - intros fam Hm. assert (Hs : switches C (dAct d) r fam) by (unfold switches; rewrite Ea; destruct Hm as [->| ->]; auto).
      apply Hrk_dec in Hs. apply IHn; [simpl; lia | lia | exact Hc]. }
  intros f d c Hf Hc. apply (A K f d c (Hrk_le _)); [unfold W in Hf; lia | exact Hc].
Qed.

(* ---------- the must< Rules... > helper nodes under if_must ---------- *)
Definition SeqA (L Fh : nat) (rs : list rid) : Prop :=
  (forall r, In r rs -> AtLevel L Fh r) \/
  (exists pre r post, rs = pre ++ r :: post /\ (forall x, In x pre -> AtLevel L Fh x) /\ AtLevel L Fh r /\ cons_ok G r).

Lemma atlevel_mono L F F' r : F <= F' -> AtLevel L F r -> AtLevel L F' r.
Proof. intros Hle H f d c Hf Hc. apply H; [lia | exact Hc]. Qed.

Lemma seqa_of L Fh h : (forall stk r b, okh ent h stk (rl r) b -> AtLevel L Fh r) ->
  forall h2 stk t rs a, h2 <= h -> t <> KSor -> okfh ent h2 stk t (rls rs) a -> SeqA L Fh rs.
Proof.
  intros IH h2 stk t rs a Hle Ht Hf.
  destruct (okfh_seq_struct ent h2 stk t Ht _ _ Hf) as [[_ Hall]|[_ [pre [x [post [E [Hpre Hx]]]]]]].
  - left. intros r Hr. eapply IH. eapply okh_mono; [apply Hall; unfold rls; apply in_map; exact Hr | exact Hle].
  - right. unfold rls in E. destruct (map_eq_app_cons rl rs pre x post E) as [l1 [y [l2 [-> [E1 [E2 E3]]]]]]. subst.
    exists l1, y, l2. split; [reflexivity|]. split; [|split].
    + intros x Hx'. eapply IH. eapply okh_mono; [apply Hpre; apply in_map; exact Hx' | exact Hle].
    + eapply IH. eapply okh_mono; eauto.
    + exists h2, stk. exact Hx.
Qed.

Lemma seqa_head L Fh x rs : SeqA L Fh (x :: rs) -> AtLevel L Fh x.
Proof.
  intros [Hall|[pre [r [post [E [Hpre [Hr _]]]]]]]; [apply Hall; left; reflexivity|].
  destruct pre as [|p pre]; simpl in E; inversion E; subst; [exact Hr | apply Hpre; left; reflexivity].
Qed.
Lemma seqa_tail L Fh x rs : SeqA L Fh (x :: rs) -> cons_ok G x \/ SeqA L Fh rs.
Proof.
  intros [Hall|[pre [r [post [E [Hpre [Hr Hc]]]]]]]; [right; left; intros r Hr; apply Hall; right; exact Hr|].
  destruct pre as [|p pre]; simpl in E; inversion E; subst; [left; exact Hc|].
  right. right. exists pre, r, post. split; [reflexivity|]. split; [intros y Hy; apply Hpre; right; exact Hy | split; assumption].
Qed.

Lemma plain_must_term L Fh m : plain_must G m = true -> AtLevel L Fh (unmust G m) -> AtLevel L (Fh + W) m.
Proof.
  intros Hm Hr.
  destruct (plain_must_inv G m Hm) as [nd [r [En [Hen [Eh [Es Eu]]]]]]. rewrite Eu in Hr.
  apply (node_wrap L Fh m nd En).
  intros f1 Hf1 d0 c0 Hc0. rewrite Eh, Es. unfold eval_head. cbn [eval_atom]. unfold h_must, raise_at.
  pose proof (Hr f1 (opt_ d0) c0 Hf1 Hc0) as Q.
  destruct (eval G C f1 (opt_ d0) r c0) as [[| |ex] c1 evs1| |]; try discriminate; congruence.
Qed.

Lemma helper_term L F0 Fh m : Prev L F0 -> F0 <= Fh -> must_helper_ok G m = true ->
  SeqA L Fh (must_rules G [m]) -> AtLevel L (Fh + W + W) m.
Proof.
  intros HP HF Hm HS.
  unfold must_helper_ok in Hm. unfold must_rules in HS.
  destruct (nth_error G m) as [nd|] eqn:En; [|discriminate].
  apply andb_true_iff in Hm. destruct Hm as [Hen Hsh].
  apply (node_wrap L (Fh + W) m nd En).
  intros f1 Hf1 d0 c0 Hc0.
  assert (Hgood : forall d r c, goodT (dM d) c (eval G C f1 d r c)) by (intros; apply eval_goodT; exact Hwf).
  assert (H0 : forall r d1 c1, len c1 < L -> eval G C f1 d1 r c1 <> Oof) by (intros; apply HP; [lia | assumption]).
  unfold eval_head.
  destruct (nhead nd) eqn:Eh; try discriminate Hsh; cbn [eval_atom].
  - (* success *) discriminate.
  - (* seq *) rewrite forallb_forall in Hsh.
    apply (h_seq_term (eval G C f1) Hgood L H0); [|exact Hc0].
    destruct HS as [Hall|[pre [r [post [E [Hpre [Hr Hcn]]]]]]].
    + left. intros mi Hmi d1 c1 Hc1.
      apply (plain_must_term L Fh mi (Hsh mi Hmi)); [apply Hall; apply in_map; exact Hmi | lia | exact Hc1].
    + right. destruct (map_eq_app_cons (unmust G) (nsubs nd) pre r post E) as [l1 [y [l2 [Ey [E1 [E2 E3]]]]]]. subst pre r post.
      exists l1, y, l2. split; [exact Ey|].
      assert (Hin : forall x, In x l1 \/ x = y -> In x (nsubs nd)).
      { intros x [Hx|Hx]; [|subst x]; rewrite Ey; apply in_or_app; [left; exact Hx | right; left; reflexivity]. }
      split; [|split].
      * intros x Hx d1 c1 Hc1. apply (plain_must_term L Fh x (Hsh x (Hin x (or_introl Hx)))); [apply Hpre; apply in_map; exact Hx | lia | exact Hc1].
      * intros d1 c1 Hc1. apply (plain_must_term L Fh y (Hsh y (Hin y (or_intror eq_refl)))); [exact Hr | lia | exact Hc1].
      * apply (plain_must_cn G C f1 y (Hsh y (Hin y (or_intror eq_refl)))); [|apply le_n].
        intros f' _. apply (cons_sound G C Hwf Hcov). exact Hcn.
  - (* must *) destruct (nsubs nd) as [|r0 [|? ?]] eqn:Es; try discriminate Hsh.
    unfold h_must, raise_at. pose proof (seqa_head L Fh r0 [] HS f1 (opt_ d0) c0 ltac:(lia) Hc0) as Q.
    destruct (eval G C f1 (opt_ d0) r0 c0) as [[| |ex] c1 evs1| |]; try discriminate; congruence.
Qed.

(* tgt lies on the eff chain of self, whose trait was visited without a problem at height h *)
Lemma chain_term L F0 h Fh : Prev L F0 -> F0 <= Fh ->
  (forall stk r b, okh ent h stk (rl r) b -> AtLevel L Fh r) ->
  forall k tgt (self : rid) h0 subs0 stk a,
  eff G k tgt = Some (h0, subs0) ->
  ent (rl self) = main_entry G self h0 subs0 ->
  (forall j, ent (self, S j) = syn_entry G self h0 subs0 (S j)) ->
  okfh ent h (rl self :: stk) (ekind (ent (rl self))) (esubs (ent (rl self))) a ->
  AtLevel L (Fh + L + 2 + (k + 2) * W) tgt.
Proof.
  intros HP HF IH. induction k as [|k IHk]; intros tgt self h0 subs0 stk a Heff Hmain Hsyn Hfold; [discriminate Heff|].
  destruct (nth_error G tgt) as [nd|] eqn:En; [|intros f d c Hf Hc; destruct f as [|f1]; [lia | simpl; rewrite En; discriminate]].
  apply (atlevel_mono L (Fh + L + 2 + (k + 2) * W + W)); [lia|].
  apply (node_wrap L (Fh + L + 2 + (k + 2) * W) tgt nd En).
  intros f1 Hf1 d0 c0 Hc0.
  assert (Hgood : forall d r c, goodT (dM d) c (eval G C f1 d r c)) by (intros; apply eval_goodT; exact Hwf).
  cbn [eff] in Heff. rewrite En in Heff.
  pose proof (shape_node G tgt nd Hcov En) as Hcv. unfold node_shape_ok in Hcv.
  assert (Hdirect : head_direct (nhead nd) = true -> eval_head C (eval G C f1) f1 tgt (nhead nd) (nsubs nd) d0 c0 <> Oof).
  { intros Hd. assert (E : Some (nhead nd, nsubs nd) = Some (h0, subs0)) by (destruct (nhead nd); try discriminate Hd; exact Heff).
    inversion E; subst h0 subs0.
    refine (term_head G C (eval G C f1) Hgood L _ h _ _ f1 tgt self (nhead nd) (nsubs nd) stk a d0 c0 Hd Hmain Hsyn Hfold _ Hc0); try lia.
    - intros r0 d1 c1 Hl. apply HP; lia.
    - intros stk0 r0 b0 Hk d1 c1 Hl. eapply IH; eauto. lia.
    - intros r0 Hk. apply (cons_sound G C Hwf Hcov). exact Hk. }
  destruct (nhead nd) eqn:Eh; try (apply Hdirect; reflexivity).
  - (* until< Cond > *)
    unfold eval_head. cbn [eval_atom].
    destruct (nsubs nd) as [|cnd [|? ?]] eqn:Es; try discriminate.
    unfold h_until1. apply guard_noof.
    apply (until1_term C (eval G C f1) Hgood L); try lia.
    intros d1 c1 Hc1. eapply (IHk cnd self h0 subs0 stk a); eauto.
  - (* if_must *)
    destruct (nsubs nd) as [|cnd [|m [|? ?]]] eqn:Es; try discriminate Hcv.
    inversion Heff; subst h0 subs0. clear Heff.
    assert (NS : KSeq <> KSor) by discriminate. assert (NO : KOpt <> KSor) by discriminate.
    assert (HS : SeqA L Fh (cnd :: must_rules G [m])).
    { rewrite Hmain in Hfold. destruct dflt.
      - cbn [main_entry] in Hfold. destruct (must_rules G [m]) as [|r0 rs0] eqn:Er; cbn [is_nilb e_opt ekind esubs] in Hfold.
        + eapply (seqa_of L Fh h IH h _ KOpt [cnd]); [apply le_n | exact NO | exact Hfold].
        + destruct (okfh_single G _ _ _ _ _ Hfold) as [b1 Hb1].
          apply okh_inv in Hb1. destruct Hb1 as [h2 [a2 [Eh2 [_ [Hf2 _]]]]].
          unfold sy in Hf2. rewrite (Hsyn 0) in Hf2. cbn [syn_entry e_seq ekind esubs] in Hf2. rewrite Er in Hf2.
          eapply (seqa_of L Fh h IH h2 _ KSeq (cnd :: r0 :: rs0)); [lia | exact NS | exact Hf2].
      - cbn [main_entry e_seq ekind esubs] in Hfold.
        eapply (seqa_of L Fh h IH h _ KSeq (cnd :: must_rules G [m])); [apply le_n | exact NS | exact Hfold]. }
    unfold eval_head. cbn [eval_atom]. unfold h_if_must.
    pose proof (seqa_head L Fh _ _ HS f1 (if dflt then req d0 else d0) c0 ltac:(lia) Hc0) as K1.
    destruct (eval G C f1 (if dflt then req d0 else d0) cnd c0) as [[| |ex] c2 evs2| |] eqn:E1; try discriminate; try congruence.
    assert (K2 : eval G C f1 d0 m c2 <> Oof).
    { pose proof (ev_le (eval G C f1) Hgood _ _ _ _ _ E1) as L1.
      destruct (seqa_tail L Fh _ _ HS) as [Hcn|HS2].
      - apply HP; [lia|]. apply (cons_sound G C Hwf Hcov f1 cnd Hcn) in E1. lia.
      - apply (helper_term L F0 Fh m HP HF Hcv HS2); [unfold W in *; lia | lia]. }
    destruct (eval G C f1 d0 m c2) as [[| |ex] c3 evs3| |]; try discriminate; congruence.
  - (* if_apply *)
    unfold eval_head. cbn [eval_atom].
    destruct (nsubs nd) as [|r1 [|? ?]] eqn:Es; try discriminate.
    apply (h_if_apply_term C (eval G C f1) L); [|exact Hc0].
    intros d1 c1 Hc1. eapply (IHk r1 self h0 subs0 stk a); eauto.
Qed.

Lemma node_term L F0 h Fh : Prev L F0 -> F0 <= Fh ->
  (forall stk r b, okh ent h stk (rl r) b -> AtLevel L Fh r) ->
  forall stk r b, okh ent (S h) stk (rl r) b -> AtLevel L (Fh + L + 2 + (eff_fuel G + 2) * W) r.
Proof.
  intros HP HF IH stk r b Hok.
  apply okh_inv in Hok. destruct Hok as [h' [a [Eh [Hnin [Hfold _]]]]]. injection Eh as <-.
  destruct (eff G (eff_fuel G) r) as [[h0 subs0]|] eqn:E.
  - eapply (chain_term L F0 h Fh HP HF IH (eff_fuel G) r r h0 subs0 stk a E); [eapply ent_main_eff; eauto | intros j; eapply ent_syn_eff; eauto | exact Hfold].
  - exfalso. rewrite (ent_bad_eff G r E) in Hfold. cbn [e_bad e_seq ekind esubs] in Hfold. eapply okfh_bad; exact Hfold.
Qed.

Lemma inner L F0 : Prev L F0 -> forall h, exists Fh, F0 <= Fh /\ forall stk r b, okh ent h stk (rl r) b -> AtLevel L Fh r.
Proof.
  intros HP. induction h as [|h [Fh [HF IH]]].
  - exists F0. split; [lia|]. intros stk r b Hok. apply okh_inv in Hok. destruct Hok as [h' [a [E _]]]. discriminate.
  - exists (Fh + L + 2 + (eff_fuel G + 2) * W). split; [lia|]. eapply node_term; eauto.
Qed.

Hypothesis Hall : forall r, r < length G -> exists b, okw ent [] (rl r) b.

Lemma heights : forall n, n <= length G -> exists H, forall r, r < n -> exists b, okh ent H [] (rl r) b.
Proof.
  induction n as [|n IH]; intros Hn.
  - exists 0. intros r Hr. lia.
  - destruct (IH ltac:(lia)) as [H1 K1]. destruct (Hall n ltac:(lia)) as [b Hb]. apply okw_okh in Hb. destruct Hb as [H2 Hb].
    exists (max H1 H2). intros r Hr. destruct (Nat.eq_dec r n) as [->|Hne].
    + exists b. eapply okh_mono; [exact Hb | lia].
    + destruct (K1 r ltac:(lia)) as [b' Hb']. exists b'. eapply okh_mono; [exact Hb' | lia].
Qed.

Lemma level L F0 : Prev L F0 -> exists F, forall r, AtLevel L F r.
Proof.
  intros HP. destruct (heights (length G) (le_n _)) as [H HK].
  destruct (inner L F0 HP H) as [Fh [HF IH]].
  exists (S Fh). intros r f d c Hf Hc.
  destruct (Nat.lt_ge_cases r (length G)) as [Hr|Hr].
  - destruct (HK r Hr) as [b Hb]. eapply IH; eauto. lia.
  - destruct f as [|f1]; [lia|]. simpl. apply nth_error_None in Hr. rewrite Hr. discriminate.
Qed.

Theorem terminates_upto : forall L, exists F, forall r, AtLevel L F r.
Proof.
  induction L as [|L [F0 IH]].
  - apply (level 0 0). intros r f d c _ Hc. lia.
  - apply (level (S L) F0). intros r f d c Hf Hc. apply IH; [exact Hf | lia].
Qed.
End Main.

(* roots G contains the entry of every node *)
Lemma rl_in_roots G r : r < length G -> In (rl r) (roots G).
Proof.
  intros Hr. unfold roots. apply in_flat_map. exists r. split; [apply in_seq; lia|].
  unfold node_aids. destruct (eff G (eff_fuel G) r) as [[h0 subs0]|]; [|left; reflexivity].
  apply in_map_iff. exists 0. split; [reflexivity | apply in_seq; lia].
Qed.

Theorem sound_ranked G C : table_wf G -> table_shape_ok G = true -> cfg_actions_ranked C ->
  problems G = 0 -> forall d r c, exists f, eval G C f d r c <> Oof.
Proof.
  intros Hwf Hcov [K [rk [Hle Hdec]]] Hp d r c.
  assert (Hall : forall r, r < length G -> exists b, okw (aentry G) [] (rl r) b).
  { intros r0 Hr. apply problems_zero; [exact Hp | apply rl_in_roots; exact Hr]. }
  destruct (terminates_upto G C Hwf Hcov K rk Hle Hdec Hall (len c)) as [F Q].
  exists F. apply Q; lia.
Qed.

Corollary sound_plain G C : table_wf G -> table_shape_ok G = true -> cfg_plain_actions C ->
  problems G = 0 -> forall d r c, exists f, eval G C f d r c <> Oof.
Proof. intros Hwf Hcov Hcfg. apply sound_ranked; [exact Hwf | exact Hcov | apply plain_ranked; exact Hcfg]. Qed.

(* ---------- the hypothesis on the configuration is necessary ---------- *)
Definition loop_cfg : cfg :=
  mkcfg EolLf (fun _ _ => AKMatch (MChangeAction 0)) (fun _ _ _ _ => ARet true) (fun _ _ _ => ARet true) (fun _ => false) (fun _ _ => false).
Definition unit_table : grammar := [mknode HSuccess [] true].
Lemma loop_cfg_oof : forall f d c, eval unit_table loop_cfg f d 0 c = Oof.
Proof. induction f as [|f IH]; intros d c; [reflexivity|]. simpl. rewrite IH. reflexivity. Qed.
Lemma unit_table_wf : table_wf unit_table.
Proof. intros r nd H. destruct r as [|[|r]]; simpl in H; inversion H; subst; exact I. Qed.
Theorem change_action_cycle_refutes :
  exists G C, table_wf G /\ table_shape_ok G = true /\ problems G = 0 /\
              exists d r c, forall f, eval G C f d r c = Oof.
Proof.
  exists unit_table, loop_cfg. split; [exact unit_table_wf|]. split; [reflexivity|]. split; [vm_compute; reflexivity|].
  exists (mkdyn true true 0 0 0), 0, (mkcur [] pos0). intros f. apply loop_cfg_oof.
Qed.

(* ---------- the hypotheses are satisfiable by a recursive grammar with loops ---------- *)
(* 0: E = sor< seq< '(' , E , ')' >, plus< 'a' >, star< 'b' , opt< E > > >   (recursion behind a consuming prefix) *)
Definition ex_table : grammar :=
  [ mknode HSor [1; 5; 6; 14] true;
    mknode HSeq [2; 0; 3] true;
    mknode (HOne true PkChar [40%Z]) [] true;
    mknode (HOne true PkChar [41%Z]) [] true;
    mknode (HOne true PkChar [97%Z]) [] true;
    mknode HPlus [4] true;
    mknode HStarPartial [7] false;
    mknode HSeq [8; 9] true;
    mknode (HOne true PkChar [98%Z]) [] true;
    mknode HPartial [0] false;
    (* 10: if_must< 'a', 'b' >   11: internal::must< 'b' >   12: until< ')' >   13: if_apply< plus< 'a' >, A >
       14: star< seq< 10, 12, 13, opt< E > > > *)
    mknode (HIfMust false) [4; 11] true;
    mknode HMust [8] false;
    mknode HUntil1 [3] true;
    mknode (HIfApply [0]) [5] true;
    mknode HStarPartial [15] false;
    mknode HSeq [10; 12; 13; 9] true ].
Definition plain_cfg : cfg :=
  mkcfg EolLf (fun _ _ => AKNone) (fun _ _ _ _ => ARet true) (fun _ _ _ => ARet true) (fun _ => false) (fun _ _ => false).
Lemma ex_table_wf : table_wf ex_table.
Proof.
  intros r nd H. do 16 (destruct r as [|r]; [simpl in H; inversion H; subst; exact I|]). destruct r; discriminate H.
Qed.
Lemma plain_cfg_ok : cfg_plain_actions plain_cfg.
Proof. intros fam r fam'. split; discriminate. Qed.
Lemma ex_table_hyps : table_wf ex_table /\ table_shape_ok ex_table = true /\ cfg_actions_ranked plain_cfg /\ problems ex_table = 0.
Proof. split; [exact ex_table_wf|]. split; [reflexivity|]. split; [apply plain_ranked; exact plain_cfg_ok|]. vm_compute. reflexivity. Qed.
(* and the left-recursive variant is reported *)
Definition ex_table_bad : grammar :=
  [ mknode HSor [1; 2] true; mknode HSeq [3; 0] true; mknode (HOne true PkChar [97%Z]) [] true; mknode HPartial [2] false ].
Lemma ex_table_bad_problems : problems ex_table_bad <> 0.
Proof. vm_compute. discriminate. Qed.

(* ---------- the hypothesis table_wf is necessary: a zero-width decoder is an "any" atom that consumes nothing ---------- *)
Definition zw_table : grammar := [mknode HStarPartial [1] false; mknode (HAny (PkUint 0 BE)) [] false].
Lemma zw_star_oof : forall f n d c, star_loop (eval zw_table plain_cfg f) n d [1] c = Oof.
Proof.
  intros f. induction n as [|n IH]; intros d c; [reflexivity|].
  destruct f as [|f]; [reflexivity|].
  cbn [star_loop seq_all bind]. cbn. rewrite IH. reflexivity.
Qed.
Theorem zero_width_refutes :
  exists G C, table_shape_ok G = true /\ cfg_plain_actions C /\ problems G = 0 /\
              exists d r c, forall f, eval G C f d r c = Oof.
Proof.
  exists zw_table, plain_cfg. split; [reflexivity|]. split; [exact plain_cfg_ok|]. split; [vm_compute; reflexivity|].
  exists (mkdyn true true 0 0 0), 0, (mkcur [] pos0). intros f. destruct f as [|f]; [reflexivity|].
  cbn [eval nth_error zw_table nenabled nhead nsubs]. cbn [acts plain_cfg]. unfold eval_head. cbn [eval_atom].
  rewrite zw_star_oof. reflexivity.
Qed.
