(* AnalyzeTerm.v — C11 stage B, part 2: termination.
   If every entry of the table is visited by the analysis without a problem, then for every bound L on the remaining
   input there is a fuel F such that Engine.eval with fuel >= F never answers Oof (out of fuel), for every rule,
   mode, configuration and cursor.  Outer induction: L; inner induction: height of the okw derivation. *)
From Coq Require Import Lia.
From PegtlV Require Import Base Decode Grammar Engine EngineFacts AtomFacts Mono Analyze AnalyzeFacts AnalyzeSound AnalyzeCons.

(* heads covered by the termination proof so far *)
Definition head_covered_term (h : head) : bool :=
  match h with
  | HIfApply _ | HUntil1 | HIfMust _ => false            (* trait copies / names foreign rules: not covered by cons_sound either *)
  | _ => true
  end.
Definition heads_covered_term (G : grammar) : bool := forallb (fun nd => head_covered_term (nhead nd)) G.

Lemma covered_term_covered G : heads_covered_term G = true -> heads_covered G = true.
Proof.
  unfold heads_covered_term, heads_covered. rewrite !forallb_forall. intros H nd Hnd. specialize (H nd Hnd).
  destruct (nhead nd); try discriminate H; reflexivity.
Qed.

(* match-level actions that re-enter the same rule under another action family can recurse for ever on their own
   (Action A: change_action< B >, Action B: change_action< A >): excluded *)
Definition cfg_plain_actions (C : cfg) : Prop :=
  forall fam r fam', acts C fam r <> AKMatch (MChangeAction fam') /\ acts C fam r <> AKMatch (MChangeActionAndState fam').

(* ---------- list decomposition helpers ---------- *)
Lemma map_eq_app_cons {A B} (f : A -> B) : forall l pre x post, map f l = pre ++ x :: post ->
  exists l1 y l2, l = l1 ++ y :: l2 /\ map f l1 = pre /\ f y = x /\ map f l2 = post.
Proof.
  induction l as [|a l IH]; intros pre x post H.
  - destruct pre; discriminate H.
  - destruct pre as [|p pre]; simpl in H; inversion H; subst.
    + exists [], a, l. auto.
    + destruct (IH pre x post H2) as [l1 [y [l2 [E [E1 [E2 E3]]]]]]. exists (a :: l1), y, l2. subst. auto.
Qed.
Lemma app_last_decomp {A} (l : list A) z : forall pre x post, l ++ [z] = pre ++ x :: post -> x <> z ->
  exists post', l = pre ++ x :: post'.
Proof.
  induction l as [|a l IH]; intros pre x post H Hx.
  - destruct pre as [|p pre]; simpl in H; inversion H; subst; [congruence|]. destruct pre; discriminate.
  - destruct pre as [|p pre]; simpl in H; inversion H; subst.
    + exists l. reflexivity.
    + destruct (IH pre x post H2 Hx) as [post' E]. exists post'. subst. reflexivity.
Qed.

(* ---------- results that are not Oof ---------- *)
Lemma prepend_noof evs x : x <> Oof -> prepend evs x <> Oof.
Proof. destruct x; simpl; congruence. Qed.
Lemma guard_noof m s x : x <> Oof -> guard m s x <> Oof.
Proof. dres x; simpl; congruence. Qed.
Lemma look_noof i s x : x <> Oof -> look i s x <> Oof.
Proof. dres x; simpl; congruence. Qed.
Lemma st_scope_noof b r c x : x <> Oof -> st_scope b r c x <> Oof.
Proof. dres x; simpl; congruence. Qed.
Lemma traced_noof k r a m c x : x <> Oof -> traced k r a m c x <> Oof.
Proof. destruct x; simpl; congruence. Qed.
Lemma ok_or_err_noof o : ok_or_err o <> Oof.
Proof. destruct o; discriminate. Qed.
Lemma bump_help_noof ch b n c : bump_help ch b n c <> Oof.
Proof. unfold bump_help. apply ok_or_err_noof. Qed.
Lemma ptb_noof ch pk t c : peek_test_bump ch pk t c <> Oof.
Proof. unfold peek_test_bump. destruct (do_peek pk c) as [|v n|]; try discriminate. destruct (t v); [apply bump_help_noof | discriminate]. Qed.
Lemma inline_result_noof x a b p : inline_result x a b p <> Oof.
Proof. destruct x as [[[|]|t] e]; discriminate. Qed.

Ltac fin_noof := repeat first
  [ discriminate
  | apply ok_or_err_noof | apply ptb_noof | apply bump_help_noof
  | match goal with
    | |- (if ?b then _ else _) <> Oof => destruct b
    | |- match ?t with Some _ => _ | None => _ end <> Oof => destruct t
    | |- match ?t with POob => _ | PNone => _ | PSome _ _ => _ end <> Oof => destruct t
    | |- context[match ?p with (_, _) => _ end] => destruct p
    end ].

Lemma atom_noof eol h c x : eval_atom eol h c = Some x -> x <> Oof.
Proof.
  destruct h; cbn [eval_atom]; intros H; try discriminate H; try (destruct pk); injection H as <-; fin_noof.
Qed.

Section EvTerm.
Variable C : cfg.
Variable ev : dyn -> rid -> cursor -> result.
Hypothesis Hgood : forall d r c, goodT (dM d) c (ev d r c).
Variable L : nat.
Hypothesis H0 : forall r d c, len c < L -> ev d r c <> Oof.

Definition T1 (r : rid) : Prop := forall d c, len c <= L -> ev d r c <> Oof.
Definition SeqS (rs : list rid) : Prop :=
  (forall r, In r rs -> T1 r) \/
  (exists pre r post, rs = pre ++ r :: post /\ (forall x, In x pre -> T1 x) /\ T1 r /\ Cn ev r).

Lemma seq_all_term0 d rs : forall c, len c < L -> seq_all ev d rs c <> Oof.
Proof.
  induction rs as [|r rs IH]; intros c Hc; simpl; [discriminate|]. unfold bind.
  destruct (ev d r c) as [[| |ex] c0 evs0| |] eqn:E; try discriminate.
  - apply prepend_noof. apply IH. apply (ev_le ev Hgood) in E. lia.
  - exfalso. eapply H0; eauto.
Qed.
Lemma seq_all_term_all d rs : (forall r, In r rs -> T1 r) -> forall c, len c <= L -> seq_all ev d rs c <> Oof.
Proof.
  induction rs as [|r rs IH]; intros Hall c Hc; simpl; [discriminate|]. unfold bind.
  destruct (ev d r c) as [[| |ex] c0 evs0| |] eqn:E; try discriminate.
  - apply prepend_noof. apply IH; [intros x Hx; apply Hall; right; exact Hx|]. apply (ev_le ev Hgood) in E. lia.
  - exfalso. eapply (Hall r); [left; reflexivity | exact Hc | exact E].
Qed.
Lemma seq_all_term d rs : SeqS rs -> forall c, len c <= L -> seq_all ev d rs c <> Oof.
Proof.
  intros [Hall|[pre [r [post [-> [Hpre [Hr Hc]]]]]]]; [apply seq_all_term_all; exact Hall|].
  induction pre as [|p pre IH]; intros c Hlen; simpl; unfold bind.
  - destruct (ev d r c) as [[| |ex] c0 evs0| |] eqn:E; try discriminate.
    + apply prepend_noof. apply seq_all_term0. apply Hc in E. lia.
    + exfalso. eapply Hr; eauto.
  - destruct (ev d p c) as [[| |ex] c0 evs0| |] eqn:E; try discriminate.
    + apply prepend_noof. apply IH; [intros x Hx; apply Hpre; right; exact Hx|]. apply (ev_le ev Hgood) in E. lia.
    + exfalso. eapply (Hpre p); [left; reflexivity | exact Hlen | exact E].
Qed.
Lemma seq_all_seqs_cons d rs c c' evs : (exists pre r post, rs = pre ++ r :: post /\ (forall x, In x pre -> T1 x) /\ T1 r /\ Cn ev r) ->
  seq_all ev d rs c = Res Ok c' evs -> len c' < len c.
Proof.
  intros [pre [r [post [-> [_ [_ Hc]]]]]]. apply (seq_all_cons ev Hgood). exists r. split; [apply in_or_app; right; left; reflexivity | exact Hc].
Qed.

Lemma h_seq_term d rs c : SeqS rs -> len c <= L -> h_seq ev d rs c <> Oof.
Proof.
  intros HS Hc. unfold h_seq. destruct rs as [|r1 [|r2 rs]].
  - apply guard_noof. discriminate.
  - pose proof (seq_all_term d [r1] HS c Hc) as K. simpl in K. unfold bind in K.
    destruct (ev d r1 c); try discriminate. congruence.
  - apply guard_noof. apply seq_all_term; assumption.
Qed.

Lemma sor_any_term d rs : (forall r, In r rs -> T1 r) -> forall c, len c <= L -> sor_any ev d rs c <> Oof.
Proof.
  induction rs as [|r rs IH]; intros Hall c Hc; [discriminate|].
  destruct rs as [|r2 rs']; [simpl; apply Hall; [left; reflexivity | exact Hc]|].
  change (sor_any ev d (r :: r2 :: rs') c) with
    (match ev (req d) r c with Res Fail c1 evs1 => prepend evs1 (sor_any ev d (r2 :: rs') c1) | x => x end).
  destruct (ev (req d) r c) as [[| |ex] c0 evs0| |] eqn:E1; try discriminate.
  - apply (ev_fail_req ev Hgood) in E1; [|reflexivity]. subst c0. apply prepend_noof.
    apply IH; [intros x Hx; apply Hall; right; exact Hx | exact Hc].
  - exfalso. eapply (Hall r); [left; reflexivity | exact Hc | exact E1].
Qed.

Lemma star_loop_term rs :
  (forall d c, len c <= L -> seq_all ev d rs c <> Oof) ->
  (forall d c c' e, seq_all ev d rs c = Res Ok c' e -> len c' < len c) ->
  forall n d c, len c < n -> len c <= L -> star_loop ev n d rs c <> Oof.
Proof.
  intros HT HC. induction n as [|n IH]; intros d c Hn Hc; [lia|]. simpl.
  destruct (seq_all ev (req d) rs c) as [[| |ex] c0 evs0| |] eqn:E; try discriminate.
  - apply prepend_noof. apply HC in E. apply IH; lia.
  - exfalso. eapply HT; eauto.
Qed.

Lemma h_plus_term n d r1 c : T1 r1 -> Cn ev r1 -> L < n -> len c <= L -> h_plus ev n d r1 c <> Oof.
Proof.
  intros Ht Hcn Hn Hc. unfold h_plus, bind.
  destruct (ev d r1 c) as [[| |ex] c0 evs0| |] eqn:E; try discriminate.
  - apply prepend_noof. apply (ev_le ev Hgood) in E. apply star_loop_term; try lia.
    + intros d0 c1 Hc1. apply seq_all_term; [|exact Hc1]. left. intros x [<-|[]]. exact Ht.
    + intros d0 c1 c2 e H. eapply (seq_all_cons ev Hgood); [|exact H]. exists r1. split; [left; reflexivity | exact Hcn].
  - exfalso. eapply Ht; eauto.
Qed.

Lemma rep_loop_term k d r : T1 r -> forall c, len c <= L -> rep_loop ev k d r c <> Oof.
Proof.
  intros Ht. induction k as [|k IH]; intros c Hc; simpl; [discriminate|]. unfold bind.
  destruct (ev d r c) as [[| |ex] c0 evs0| |] eqn:E; try discriminate.
  - apply prepend_noof. apply IH. apply (ev_le ev Hgood) in E. lia.
  - exfalso. eapply Ht; eauto.
Qed.
Lemma repopt_loop_term k d r : T1 r -> forall c, len c <= L -> fst (repopt_loop ev k d r c) <> Oof.
Proof.
  intros Ht. induction k as [|k IH]; intros c Hc; simpl; [discriminate|].
  destruct (ev (req d) r c) as [[| |ex] c0 evs0| |] eqn:E; try discriminate.
  - apply (ev_le ev Hgood) in E. specialize (IH c0 ltac:(lia)). destruct (repopt_loop ev k d r c0) as [x b]. simpl in *. apply prepend_noof. exact IH.
  - exfalso. eapply Ht; eauto.
Qed.

Lemma h_if_then_else_term d cnd t e c : T1 cnd -> (T1 t \/ Cn ev cnd) -> T1 e -> len c <= L -> h_if_then_else ev d cnd t e c <> Oof.
Proof.
  intros Hc Ht He Hlen. unfold h_if_then_else. apply guard_noof.
  destruct (ev (req d) cnd c) as [[| |ex] c0 evs0| |] eqn:E1; try discriminate.
  - apply prepend_noof. destruct Ht as [Ht|Hcn].
    + apply Ht. apply (ev_le ev Hgood) in E1. lia.
    + apply H0. apply Hcn in E1. lia.
  - apply prepend_noof. apply (ev_fail_req ev Hgood) in E1; [|reflexivity]. subst c0. apply He. exact Hlen.
  - exfalso. eapply Hc; eauto.
Qed.

Lemma until2_term n d cnd r : T1 cnd -> T1 r -> Cn ev r -> forall c, len c < n -> len c <= L -> until2_loop ev n d cnd r c <> Oof.
Proof.
  intros Hc Hr Hcn. induction n as [|n IH]; intros c Hn Hl; [lia|]. simpl.
  destruct (ev (req d) cnd c) as [[| |ex] c0 evs0| |] eqn:E1; try discriminate.
  - apply (ev_fail_req ev Hgood) in E1; [|reflexivity]. subst c0.
    destruct (ev (opt_ d) r c) as [[| |ex] c1 evs1| |] eqn:E2; try discriminate.
    + apply prepend_noof. apply Hcn in E2. apply IH; lia.
    + exfalso. eapply Hr; eauto.
  - exfalso. eapply Hc; eauto.
Qed.

Lemma h_rep_min_max_term mn mx d r1 c : T1 r1 -> len c <= L -> h_rep_min_max ev mn mx d r1 c <> Oof.
Proof.
  intros Ht Hc. unfold h_rep_min_max. apply guard_noof. unfold bind.
  pose proof (rep_loop_term mn (opt_ d) r1 Ht c Hc) as K1.
  destruct (rep_loop ev mn (opt_ d) r1 c) as [[| |ex] c1 evs1| |] eqn:E1; try discriminate; try congruence.
  apply prepend_noof. apply (rep_loop_le ev Hgood) in E1; [|reflexivity].
  pose proof (repopt_loop_term (mx - mn) d r1 Ht c1 ltac:(lia)) as K2.
  pose proof (repopt_loop_ok PT PT_refl PT_trans ev Hgood (mx - mn) d r1 c1) as K3.
  destruct (repopt_loop ev (mx - mn) d r1 c1) as [x b]. simpl in K2, K3.
  destruct x as [[| |ex] c2 evs2| |]; try discriminate; try congruence.
  destruct b; [|discriminate]. apply prepend_noof. unfold h_at. apply look_noof. apply Ht. simpl in K3. apply adv_len in K3. lia.
Qed.

Lemma rematch_all_term d rs i2 : (forall r, In r rs -> T1 r) -> len i2 <= L -> rematch_all ev d rs i2 <> Oof.
Proof.
  induction rs as [|r rs IH]; intros Hall Hl; simpl; [discriminate|].
  pose proof (Hall r (or_introl eq_refl) d i2 Hl) as K.
  destruct (ev d r i2) as [[| |ex] c1 evs1| |]; try discriminate; try congruence.
  apply prepend_noof. apply IH; [intros x Hx; apply Hall; right; exact Hx | exact Hl].
Qed.
Lemma take_length n : forall l bs, take n l = Some bs -> length bs = n.
Proof.
  induction n as [|n IH]; intros l bs H; simpl in H; [inversion H; reflexivity|].
  destruct l as [|b tl]; [discriminate|]. destruct (take n tl) as [bs'|] eqn:E; [|discriminate]. simpl in H. inversion H; subst. simpl. f_equal. eapply IH; eauto.
Qed.
Lemma h_rematch_term d hd rs c : T1 hd -> (forall r, In r rs -> T1 r) -> len c <= L -> h_rematch ev d hd rs c <> Oof.
Proof.
  intros Hh Hall Hc. unfold h_rematch. destruct rs as [|r rs']; [apply Hh; exact Hc|].
  pose proof (Hh (opt_ d) c Hc) as K.
  destruct (ev (opt_ d) hd c) as [[| |ex] c1 evs1| |] eqn:E1; try discriminate; try congruence.
  destruct (take (length (rest c) - length (rest c1)) (rest c)) as [span|] eqn:Et; [|discriminate].
  assert (K2 : rematch_all ev (opt_ d) (r :: rs') (mkcur span (cpos c)) <> Oof).
  { apply rematch_all_term; [exact Hall|]. unfold len in *. simpl. apply take_length in Et. unfold byte in *. lia. }
  destruct (rematch_all ev (opt_ d) (r :: rs') (mkcur span (cpos c))) as [[| |ex] c2 evs2| |]; try discriminate; congruence.
Qed.
End EvTerm.

Lemma match_hpp_noof C ak body d r c : (forall d0, body d0 c <> Oof) -> match_hpp C ak body d r c <> Oof.
Proof.
  intros Hb. unfold match_hpp. specialize (Hb (if use_guard d ak then opt_ d else d)).
  destruct (body (if use_guard d ak then opt_ d else d) c) as [[| |ex] c1 evs1| |]; try discriminate; try congruence.
  - destruct (run_action C d ak r (cpos c) (cpos c1)) as [[[|]|t] ea]; try discriminate.
    unfold fail_hook. destruct (raise_on_failure C (dCtl d) r); discriminate.
  - unfold fail_hook. destruct (raise_on_failure C (dCtl d) r); discriminate.
Qed.

Lemma action_match_term ev plain enabled m d r c L :
  (forall d0 c0, len c0 <= L -> plain d0 c0 <> Oof) ->
  (forall fam, m <> MChangeAction fam /\ m <> MChangeActionAndState fam) ->
  len c <= L -> action_match ev plain enabled m d r c <> Oof.
Proof.
  intros Hp Hm Hc. destruct m; simpl.
  - exfalso. destruct (Hm fam) as [K _]. apply K. reflexivity.
  - apply st_scope_noof. apply Hp. exact Hc.
  - exfalso. destruct (Hm fam) as [_ K]. apply K. reflexivity.
  - apply Hp; exact Hc.
  - apply Hp; exact Hc.
  - apply Hp; exact Hc.
  - destruct enabled; [|apply Hp; exact Hc]. destruct (n <? S (dDepth d))%nat; [discriminate | apply Hp; exact Hc].
  - assert (K : plain d (mkcur (firstn n (rest c)) (cpos c)) <> Oof).
    { apply Hp. unfold len in *. simpl. pose proof (firstn_length n (rest c)) as Q. unfold byte in *. lia. }
    destruct (plain d (mkcur (firstn n (rest c)) (cpos c))) as [[| |ex] c1 evs1| |]; try discriminate; try congruence.
    destruct (in_empty c1 && negb (is_nil (skipn n (rest c)))); discriminate.
  - specialize (Hp d c Hc). destruct (plain d c) as [[| |ex] c1 evs1| |]; try discriminate; try congruence.
    destruct (n <? length (rest c) - length (rest c1))%nat; discriminate.
Qed.

Section Term.
Variable G : grammar.
Variable C : cfg.
Hypothesis Hwf : table_wf G.
Hypothesis HcovT : heads_covered_term G = true.
Hypothesis Hcfg : cfg_plain_actions C.
Notation ent := (aentry G).

Lemma Hcov : heads_covered G = true.
Proof. apply covered_term_covered. exact HcovT. Qed.
Lemma covered_term_node r nd : nth_error G r = Some nd -> head_covered_term (nhead nd) = true.
Proof.
  intros H. unfold heads_covered_term in HcovT. rewrite forallb_forall in HcovT. apply HcovT. eapply nth_error_In; eauto.
Qed.

Lemma okfh_single h stk t x a : okfh ent h stk t [x] a -> exists b, okh ent h stk x b.
Proof. intros H. inversion H; subst; eauto. Qed.

Lemma on_stack_false h stk x b : okh ent h stk x b -> In x stk -> False.
Proof. intros H Hin. apply okh_inv in H. destruct H as [h' [a [_ [N _]]]]. apply N. exact Hin. Qed.

Section Head.
Variable ev : dyn -> rid -> cursor -> result.
Hypothesis Hgood : forall d r c, goodT (dM d) c (ev d r c).
Variable L : nat.
Hypothesis H0 : forall r d c, len c < L -> ev d r c <> Oof.
Variable h : nat.
Hypothesis H1 : forall stk r b, okh ent h stk (rl r) b -> T1 ev L r.
Hypothesis HC : forall r, cons_ok G r -> Cn ev r.

Lemma t1_lower h2 stk r b : okh ent h2 stk (rl r) b -> h2 <= h -> T1 ev L r.
Proof. intros H Hle. eapply H1. eapply okh_mono; eauto. Qed.
Lemma cn_lower h2 stk r : okh ent h2 stk (rl r) true -> Cn ev r.
Proof. intros H. apply HC. exists h2, stk. exact H. Qed.

Lemma seqs_of h2 stk t rs a : h2 <= h -> t <> KSor -> okfh ent h2 stk t (rls rs) a -> SeqS ev L rs.
Proof.
  intros Hle Ht Hf. destruct (okfh_seq_struct ent h2 stk t Ht _ _ Hf) as [[_ Hall]|[_ [pre [x [post [E [Hpre Hx]]]]]]].
  - left. intros r Hr. eapply t1_lower; [apply Hall; unfold rls; apply in_map; exact Hr | exact Hle].
  - right. unfold rls in E. destruct (map_eq_app_cons rl rs pre x post E) as [l1 [y [l2 [-> [E1 [E2 E3]]]]]]. subst.
    exists l1, y, l2. split; [reflexivity|]. split; [|split].
    + intros x Hx'. eapply t1_lower; [apply Hpre; apply in_map; exact Hx' | exact Hle].
    + eapply t1_lower; eauto.
    + eapply cn_lower; eauto.
Qed.

Lemma term_head n self nd stk a d c :
  nth_error G self = Some nd ->
  okfh ent h (rl self :: stk) (ekind (ent (rl self))) (esubs (ent (rl self))) a ->
  L < n -> len c <= L ->
  eval_head C ev n self (nhead nd) (nsubs nd) d c <> Oof.
Proof.
  intros Hn Hf Hnl Hc.
  pose proof (ent_syn G Hcov self nd) as Esyn.
  rewrite (ent_main G Hcov self nd Hn) in Hf.
  pose proof (covered_term_node self nd Hn) as Hct.
  assert (NS : KSeq <> KSor) by discriminate.
  assert (NO : KOpt <> KSor) by discriminate.
  unfold eval_head.
  destruct (eval_atom (ceol C) (nhead nd) c) as [x|] eqn:Ea; [eapply atom_noof; eauto|].
  destruct (nhead nd) eqn:Eh; cbn [eval_atom] in Ea; try discriminate Ea; try (destruct pk; discriminate Ea); try discriminate Hct; clear Ea.
  - (* seq *)
    apply (h_seq_term ev Hgood L H0); [|exact Hc].
    destruct (nsubs nd) as [|s0 ss] eqn:Es; [left; intros r []|].
    cbn [main_entry t_seq rls map e_seq ekind esubs] in Hf. eapply (seqs_of h _ KSeq (s0 :: ss)); [lia | exact NS | exact Hf].
  - (* sor *)
    destruct (nsubs nd) as [|s0 ss] eqn:Es; [discriminate|].
    cbn [main_entry rls map e_sor ekind esubs] in Hf.
    apply (sor_any_term ev Hgood L); [|exact Hc]. intros r Hr.
    destruct (okfh_sor_all ent h _ _ _ Hf (rl r)) as [b [Hb _]].
    { change (rl s0 :: map rl ss) with (map rl (s0 :: ss)). apply in_map. exact Hr. }
    eapply H1; eauto.
  - (* star_partial *)
    destruct (nsubs nd) as [|s0 ss] eqn:Es.
    { exfalso. cbn [main_entry e_opt ekind esubs] in Hf. eapply okfh_bad; exact Hf. }
    cbn [main_entry e_opt ekind esubs] in Hf.
    destruct (okfh_single _ _ _ _ _ Hf) as [b1 Hb1].
    apply okh_inv in Hb1. destruct Hb1 as [h2 [a2 [Eh2 [_ [Hf2 _]]]]].
    unfold sy in Hf2. rewrite (Esyn 0 Hn) in Hf2. cbn [syn_entry e_seq ekind esubs] in Hf2.
    assert (HS : exists pre r post, s0 :: ss = pre ++ r :: post /\ (forall x, In x pre -> T1 ev L x) /\ T1 ev L r /\ Cn ev r).
    { destruct (okfh_seq_struct ent h2 _ KSeq NS _ _ Hf2) as [[_ Hall]|[_ [pre [x [post [E [Hpre Hx]]]]]]].
      - exfalso. eapply (on_stack_false h2 _ (rl self)); [apply Hall; apply in_or_app; right; left; reflexivity | right; left; reflexivity].
      - assert (Hne : x <> rl self).
        { intros ->. eapply (on_stack_false h2 _ (rl self)); [exact Hx | right; left; reflexivity]. }
        destruct (app_last_decomp _ _ _ _ _ E Hne) as [post' E'].
        unfold rls in E'. destruct (map_eq_app_cons rl (s0 :: ss) pre x post' E') as [l1 [y [l2 [E0 [E1 [E2 E3]]]]]]. subst pre x post'.
        exists l1, y, l2. split; [exact E0|]. split; [|split].
        + intros x0 Hx0. eapply t1_lower; [apply Hpre; apply in_map; exact Hx0 | lia].
        + eapply t1_lower; [exact Hx | lia].
        + eapply cn_lower; exact Hx. }
    apply (star_loop_term ev L); try lia.
    + intros d0 c0 Hc0. apply (seq_all_term ev Hgood L H0); [right; exact HS | exact Hc0].
    + intros d0 c0 c1 e He. eapply (seq_all_seqs_cons ev Hgood L); eauto.
  - (* plus *)
    destruct (nsubs nd) as [|r1 [|r2 rs]] eqn:Es; try discriminate.
    cbn [main_entry rls map app e_seq ekind esubs] in Hf.
    assert (K : okh ent h (rl self :: stk) (rl r1) true).
    { inversion Hf as [| ? ? ? ? ? Ht Hr1 | ? ? ? ? ? ? Ht Hr1 Hrest | |]; subst; [exact Hr1|]. exfalso.
      destruct (okfh_single _ _ _ _ _ Hrest) as [b1 Hb1].
      apply okh_inv in Hb1. destruct Hb1 as [h2 [a2 [Eh2 [_ [Hf2 _]]]]].
      unfold sy in Hf2. rewrite (Esyn 0 Hn) in Hf2. cbn [syn_entry e_opt ekind esubs] in Hf2.
      destruct (okfh_single _ _ _ _ _ Hf2) as [b3 Hb3].
      eapply (on_stack_false h2 _ (rl self)); [exact Hb3 | right; left; reflexivity]. }
    apply (h_plus_term ev Hgood L H0); [eapply H1; exact K | eapply cn_lower; exact K | exact Hnl | exact Hc].
  - (* partial *)
    cbn [main_entry e_opt ekind esubs] in Hf. unfold h_partial.
    pose proof (seq_all_term ev Hgood L H0 (req d) (nsubs nd) (seqs_of h _ KOpt _ _ (le_n _) NO Hf) c Hc) as K.
    destruct (seq_all ev (req d) (nsubs nd) c) as [[| |ex] c1 evs1| |]; try discriminate; congruence.
  - (* at *)
    destruct (nsubs nd) as [|r1 [|r2 rs]] eqn:Es; try discriminate.
    cbn [main_entry rls map e_opt ekind esubs] in Hf. destruct (okfh_single _ _ _ _ _ Hf) as [b1 Hb1].
    unfold h_at. apply look_noof. eapply H1; eauto.
  - (* not_at *)
    destruct (nsubs nd) as [|r1 [|r2 rs]] eqn:Es; try discriminate.
    cbn [main_entry rls map e_opt ekind esubs] in Hf. destruct (okfh_single _ _ _ _ _ Hf) as [b1 Hb1].
    unfold h_at. apply look_noof. eapply H1; eauto.
  - (* until2 *)
    destruct (nsubs nd) as [|cnd [|r1 [|r2 rs]]] eqn:Es; try discriminate.
    cbn [main_entry e_seq ekind esubs] in Hf.
    assert (K : (exists b, okh ent h (rl self :: stk) (rl cnd) b) /\ okh ent h (rl self :: stk) (sy self 1) false).
    { inversion Hf as [| ? ? ? ? ? Ht Hr1 | ? ? ? ? ? ? Ht Hr1 Hrest | |]; subst.
      - exfalso. apply okh_kind_true in Hr1. apply Hr1. unfold sy. rewrite (Esyn 0 Hn). reflexivity.
      - split; [eapply okfh_single; exact Hrest | exact Hr1]. }
    destruct K as [[bc Hbc] Hs1].
    apply okh_inv in Hs1. destruct Hs1 as [h2 [a2 [Eh2 [_ [Hf2 _]]]]].
    unfold sy in Hf2. rewrite (Esyn 0 Hn) in Hf2. cbn [syn_entry e_opt ekind esubs] in Hf2.
    destruct (okfh_single _ _ _ _ _ Hf2) as [b2 Hb2].
    apply okh_inv in Hb2. destruct Hb2 as [h3 [a3 [Eh3 [_ [Hf3 _]]]]].
    unfold sy in Hf3. rewrite (Esyn 1 Hn) in Hf3. cbn [syn_entry rls map app e_seq ekind esubs] in Hf3.
    assert (Hle : h3 <= h) by lia. clear Eh2 Eh3.
    assert (K : okh ent h3 ((self, 2) :: (self, 1) :: rl self :: stk) (rl r1) true).
    { inversion Hf3 as [| ? ? ? ? ? Ht Hr1 | ? ? ? ? ? ? Ht Hr1 Hrest | |]; subst; [exact Hr1|]. exfalso.
      destruct (okfh_single _ _ _ _ _ Hrest) as [b4 Hb4].
      eapply (on_stack_false h3 _ (sy self 1)); [exact Hb4 | right; left; reflexivity]. }
    unfold h_until2. apply guard_noof.
    apply (until2_term ev Hgood L); try lia; [eapply H1; exact Hbc | eapply t1_lower; [exact K | exact Hle] | eapply cn_lower; exact K].
  - (* rep *)
    destruct (nsubs nd) as [|r1 [|r2 rs]] eqn:Es; try discriminate.
    assert (K : exists b1, okh ent h (rl self :: stk) (rl r1) b1).
    { destruct n0; cbn [main_entry t_seq rls map e_seq e_opt ekind esubs] in Hf; eapply okfh_single; exact Hf. }
    destruct K as [b1 Hb1]. unfold h_rep. apply guard_noof. apply (rep_loop_term ev Hgood L); [eapply H1; eauto | exact Hc].
  - (* rep_min_max *)
    destruct (nsubs nd) as [|r1 [|r2 rs]] eqn:Es; try discriminate.
    assert (K : exists b1, okh ent h (rl self :: stk) (rl r1) b1).
    { destruct mn; cbn [main_entry t_seq rls map e_seq e_opt ekind esubs] in Hf; eapply okfh_single; exact Hf. }
    destruct K as [b1 Hb1]. apply (h_rep_min_max_term ev Hgood L); [eapply H1; eauto | exact Hc].
  - (* rep_opt *)
    destruct (nsubs nd) as [|r1 [|r2 rs]] eqn:Es; try discriminate.
    cbn [main_entry rls map e_opt ekind esubs] in Hf. destruct (okfh_single _ _ _ _ _ Hf) as [b1 Hb1].
    unfold h_rep_opt. apply (repopt_loop_term ev Hgood L); [eapply H1; eauto | exact Hc].
  - (* if_then_else *)
    destruct (nsubs nd) as [|cnd [|t [|e [|? ?]]]] eqn:Es; try discriminate.
    cbn [main_entry e_sor ekind esubs] in Hf.
    destruct (okfh_sor_all ent h _ _ _ Hf (sy self 1)) as [b1 [Hb1 _]]; [left; reflexivity|].
    destruct (okfh_sor_all ent h _ _ _ Hf (rl e)) as [b2 [Hb2 _]]; [right; left; reflexivity|].
    apply okh_inv in Hb1. destruct Hb1 as [h2 [a2 [Eh2 [_ [Hf2 _]]]]].
    unfold sy in Hf2. rewrite (Esyn 0 Hn) in Hf2. cbn [syn_entry e_seq ekind esubs] in Hf2.
    assert (Hle : h2 <= h) by lia. clear Eh2.
    apply (h_if_then_else_term ev Hgood L H0); try exact Hc; [| | eapply H1; exact Hb2].
    + inversion Hf2 as [| ? ? ? ? ? Ht Hr1 | ? ? ? ? ? ? Ht Hr1 Hrest | |]; subst; eapply t1_lower; eauto.
    + inversion Hf2 as [| ? ? ? ? ? Ht Hr1 | ? ? ? ? ? ? Ht Hr1 Hrest | |]; subst.
      * right. eapply cn_lower; exact Hr1.
      * left. destruct (okfh_single _ _ _ _ _ Hrest) as [b3 Hb3]. eapply t1_lower; [exact Hb3 | exact Hle].
  - (* must *)
    destruct (nsubs nd) as [|r1 [|r2 rs]] eqn:Es; try discriminate.
    cbn [main_entry t_seq rls map e_seq ekind esubs] in Hf. destruct (okfh_single _ _ _ _ _ Hf) as [b1 Hb1].
    unfold h_must, raise_at. pose proof (H1 _ _ _ Hb1 (opt_ d) c Hc) as K.
    destruct (ev (opt_ d) r1 c) as [[| |ex] c1 evs1| |]; try discriminate; congruence.
  - (* raise *)
    destruct (nsubs nd) as [|r1 [|r2 rs]] eqn:Es; discriminate.
  - (* strict *) exfalso. cbn [main_entry e_bad e_seq ekind esubs] in Hf. eapply okfh_bad; exact Hf.
  - (* star_strict *) exfalso. cbn [main_entry e_bad e_seq ekind esubs] in Hf. eapply okfh_bad; exact Hf.
  - (* rematch *)
    destruct (nsubs nd) as [|hd rs] eqn:Es; [discriminate|].
    cbn [main_entry e_sor ekind esubs] in Hf.
    destruct (okfh_sor_all ent h _ _ _ Hf (rl hd)) as [b1 [Hb1 _]]; [left; reflexivity|].
    destruct (okfh_sor_all ent h _ _ _ Hf (sy self 1)) as [b2 [Hb2 _]]; [right; left; reflexivity|].
    apply (h_rematch_term ev L); [eapply H1; exact Hb1 | | exact Hc].
    intros r Hr.
    apply okh_inv in Hb2. destruct Hb2 as [h2 [a2 [Eh2 [_ [Hf2 _]]]]].
    unfold sy in Hf2. rewrite (Esyn 0 Hn) in Hf2.
    destruct (In_nth_error rs r Hr) as [i Hi].
    assert (Hil : i < length rs) by (apply nth_error_Some; congruence).
    destruct rs as [|r0 rs0] eqn:Ers; [destruct Hr|]. rewrite <- Ers in *.
    assert (Hf2' : okfh ent h2 ((self, 1) :: rl self :: stk) KSor (map (sy self) (seq 2 (length rs))) a2).
    { rewrite Ers in Hf2 |- *. exact Hf2. }
    destruct (okfh_sor_all ent h2 _ _ _ Hf2' (sy self (2 + i))) as [b3 [Hb3 _]].
    { apply in_map. apply in_seq. lia. }
    apply okh_inv in Hb3. destruct Hb3 as [h3 [a3 [Eh3 [_ [Hf3 _]]]]].
    unfold sy in Hf3. change (2 + i) with (S (S i)) in Hf3. rewrite (Esyn (S i) Hn) in Hf3.
    cbn [syn_entry] in Hf3. rewrite Hi in Hf3. cbn [e_seq ekind esubs] in Hf3.
    assert (Hle : h3 <= h) by lia. clear Eh2 Eh3.
    assert (K : exists b4, okh ent h3 ((self, S (S i)) :: (self, 1) :: rl self :: stk) (rl r) b4).
    { inversion Hf3; subst; eauto. }
    destruct K as [b4 Hb4]. eapply t1_lower; [exact Hb4 | exact Hle].
  - (* try_catch_return_false *)
    destruct (nsubs nd) as [|r1 [|r2 rs]] eqn:Es; try discriminate.
    cbn [main_entry t_seq rls map e_seq ekind esubs] in Hf. destruct (okfh_single _ _ _ _ _ Hf) as [b1 Hb1].
    unfold h_try_false. pose proof (H1 _ _ _ Hb1 (opt_ d) c Hc) as K.
    destruct (ev (opt_ d) r1 c) as [[| |ex] c1 evs1| |]; try discriminate; congruence.
  - (* try_catch_raise_nested *)
    destruct (nsubs nd) as [|r1 [|r2 rs]] eqn:Es; try discriminate.
    cbn [main_entry t_seq rls map e_seq ekind esubs] in Hf. destruct (okfh_single _ _ _ _ _ Hf) as [b1 Hb1].
    unfold h_try_nested. pose proof (H1 _ _ _ Hb1 (opt_ d) c Hc) as K.
    destruct (ev (opt_ d) r1 c) as [[| |ex] c1 evs1| |]; try discriminate; try congruence.
    destruct (catches f ex); discriminate.
  - (* state *)
    destruct (nsubs nd) as [|r1 [|r2 rs]] eqn:Es; try discriminate.
    cbn [main_entry t_seq rls map e_seq ekind esubs] in Hf. destruct (okfh_single _ _ _ _ _ Hf) as [b1 Hb1].
    apply st_scope_noof. eapply H1; eauto.
  - (* action *)
    destruct (nsubs nd) as [|r1 [|r2 rs]] eqn:Es; try discriminate.
    cbn [main_entry t_seq rls map e_seq ekind esubs] in Hf. destruct (okfh_single _ _ _ _ _ Hf) as [b1 Hb1]. eapply H1; eauto.
  - (* control *)
    destruct (nsubs nd) as [|r1 [|r2 rs]] eqn:Es; try discriminate.
    cbn [main_entry t_seq rls map e_seq ekind esubs] in Hf. destruct (okfh_single _ _ _ _ _ Hf) as [b1 Hb1]. eapply H1; eauto.
  - (* enable *)
    destruct (nsubs nd) as [|r1 [|r2 rs]] eqn:Es; try discriminate.
    cbn [main_entry t_seq rls map e_seq ekind esubs] in Hf. destruct (okfh_single _ _ _ _ _ Hf) as [b1 Hb1]. eapply H1; eauto.
  - (* disable *)
    destruct (nsubs nd) as [|r1 [|r2 rs]] eqn:Es; try discriminate.
    cbn [main_entry t_seq rls map e_seq ekind esubs] in Hf. destruct (okfh_single _ _ _ _ _ Hf) as [b1 Hb1]. eapply H1; eauto.
  - (* apply *)
    destruct (nsubs nd); try discriminate. unfold h_apply. destruct (dA d); [apply inline_result_noof | discriminate].
  - (* apply0 *)
    destruct (nsubs nd); try discriminate. unfold h_apply0. destruct (dA d); [apply inline_result_noof | discriminate].
Qed.
End Head.
End Term.

Section Main.
Variable G : grammar.
Variable C : cfg.
Hypothesis Hwf : table_wf G.
Hypothesis HcovT : heads_covered_term G = true.
Hypothesis Hcfg : cfg_plain_actions C.
Notation ent := (aentry G).

Definition Prev (L F0 : nat) : Prop := forall r f d c, F0 <= f -> len c < L -> eval G C f d r c <> Oof.
Definition AtLevel (L F : nat) (r : rid) : Prop := forall f d c, F <= f -> len c <= L -> eval G C f d r c <> Oof.

Lemma node_term L F0 h Fh : Prev L F0 -> F0 <= Fh ->
  (forall stk r b, okh ent h stk (rl r) b -> AtLevel L Fh r) ->
  forall stk r b, okh ent (S h) stk (rl r) b -> AtLevel L (S (Fh + L + 1)) r.
Proof.
  intros HP HF IH stk r b Hok f d c Hf Hc. destruct f as [|f1]; [lia|]. simpl.
  destruct (nth_error G r) as [nd|] eqn:En; [|discriminate]. apply traced_noof.
  apply okh_inv in Hok. destruct Hok as [h' [a [Eh [Hnin [Hfold _]]]]]. injection Eh as <-.
  assert (Hgood : forall d r c, goodT (dM d) c (eval G C f1 d r c)) by (intros; apply eval_goodT; exact Hwf).
  assert (Hbody : forall d0 c0, len c0 <= L -> eval_head C (eval G C f1) f1 r (nhead nd) (nsubs nd) d0 c0 <> Oof).
  { intros d0 c0 Hc0.
    eapply (term_head G C HcovT (eval G C f1) Hgood L) with (h := h) (stk := stk) (a := a); eauto; try lia.
    - intros r0 d1 c1 Hl. apply HP; lia.
    - intros stk0 r0 b0 Hk d1 c1 Hl. eapply IH; eauto. lia.
    - intros r0 Hk. apply (cons_sound G C Hwf (Hcov G HcovT)). exact Hk. }
  assert (Hplain : forall ak d0 c0, len c0 <= L ->
            (if nenabled nd then match_hpp C ak (eval_head C (eval G C f1) f1 r (nhead nd) (nsubs nd)) d0 r c0
             else eval_head C (eval G C f1) f1 r (nhead nd) (nsubs nd) d0 c0) <> Oof).
  { intros ak d0 c0 Hc0. destruct (nenabled nd); [apply match_hpp_noof; intros d1|]; apply Hbody; exact Hc0. }
  destruct (acts C (dAct d) r) as [| | |m] eqn:Ea; try (apply Hplain; exact Hc).
  apply action_match_term with (L := L); [| | exact Hc].
  - intros d0 c0 Hc0. apply (Hplain AKNone); exact Hc0.
  - intros fam. destruct (Hcfg (dAct d) r fam) as [K1 K2]. rewrite Ea in K1, K2. split; congruence.
Qed.

Lemma inner L F0 : Prev L F0 -> forall h, exists Fh, F0 <= Fh /\ forall stk r b, okh ent h stk (rl r) b -> AtLevel L Fh r.
Proof.
  intros HP. induction h as [|h [Fh [HF IH]]].
  - exists F0. split; [lia|]. intros stk r b Hok. apply okh_inv in Hok. destruct Hok as [h' [a [E _]]]. discriminate.
  - exists (S (Fh + L + 1)). split; [lia|]. eapply node_term; eauto.
Qed.

Hypothesis Hall : forall r, r < length G -> exists b, okw ent [] (rl r) b.

Lemma heights : forall n, n <= length G -> exists H, forall r, r < n -> exists b, okh ent H [] (rl r) b.
Proof.
  induction n as [|n IH]; intros Hn.
  - exists 0. intros r Hr. lia.
  - destruct (IH ltac:(lia)) as [H1 K1]. destruct (Hall n ltac:(lia)) as [b Hb]. apply okw_okh in Hb. destruct Hb as [H2 Hb].
    exists (max H1 H2). intros r Hr. destruct (Nat.eq_dec r n) as [->|Hne].
    + exists b. eapply okh_mono; [exact Hb | lia].
    + destruct (K1 r ltac:(lia)) as [b' Hb']. exists b'. eapply okh_mono; [exact Hb' | lia].
Qed.

Lemma level L F0 : Prev L F0 -> exists F, forall r, AtLevel L F r.
Proof.
  intros HP. destruct (heights (length G) (le_n _)) as [H K].
  destruct (inner L F0 HP H) as [Fh [HF IH]].
  exists (S Fh). intros r f d c Hf Hc.
  destruct (Nat.lt_ge_cases r (length G)) as [Hr|Hr].
  - destruct (K r Hr) as [b Hb]. eapply IH; eauto. lia.
  - destruct f as [|f1]; [lia|]. simpl. apply nth_error_None in Hr. rewrite Hr. discriminate.
Qed.

Theorem terminates_upto : forall L, exists F, forall r, AtLevel L F r.
Proof.
  induction L as [|L [F0 IH]].
  - apply (level 0 0). intros r f d c _ Hc. lia.
  - apply (level (S L) F0). intros r f d c Hf Hc. apply IH; [exact Hf | lia].
Qed.
End Main.

(* roots G contains the entry of every node *)
Lemma rl_in_roots G r : heads_covered G = true -> r < length G -> In (rl r) (roots G).
Proof.
  intros Hc Hr. unfold roots. apply in_flat_map. exists r. split; [apply in_seq; lia|].
  destruct (nth_error G r) as [nd|] eqn:En; [|apply nth_error_None in En; lia].
  unfold node_aids. rewrite (eff_node G Hc r nd En). apply in_map_iff. exists 0. split; [reflexivity | apply in_seq; lia].
Qed.

Theorem sound_partial G C : table_wf G -> heads_covered_term G = true -> cfg_plain_actions C ->
  problems G = 0 -> forall d r c, exists f, eval G C f d r c <> Oof.
Proof.
  intros Hwf Hcov Hcfg Hp d r c.
  assert (Hall : forall r, r < length G -> exists b, okw (aentry G) [] (rl r) b).
  { intros r0 Hr. apply problems_zero; [exact Hp | apply rl_in_roots; [apply covered_term_covered; exact Hcov | exact Hr]]. }
  destruct (terminates_upto G C Hwf Hcov Hcfg Hall (len c)) as [F K].
  exists F. apply K; lia.
Qed.

(* ---------- the hypothesis on the configuration is necessary ---------- *)
Definition loop_cfg : cfg :=
  mkcfg EolLf (fun _ _ => AKMatch (MChangeAction 0)) (fun _ _ _ _ => ARet true) (fun _ _ _ => ARet true) (fun _ => false) (fun _ _ => false).
Definition unit_table : grammar := [mknode HSuccess [] true].
Lemma loop_cfg_oof : forall f d c, eval unit_table loop_cfg f d 0 c = Oof.
Proof. induction f as [|f IH]; intros d c; [reflexivity|]. simpl. rewrite IH. reflexivity. Qed.
Lemma unit_table_wf : table_wf unit_table.
Proof. intros r nd H. destruct r as [|[|r]]; simpl in H; inversion H; subst; exact I. Qed.
Theorem change_action_cycle_refutes :
  exists G C, table_wf G /\ heads_covered_term G = true /\ problems G = 0 /\
              exists d r c, forall f, eval G C f d r c = Oof.
Proof.
  exists unit_table, loop_cfg. split; [exact unit_table_wf|]. split; [reflexivity|]. split; [vm_compute; reflexivity|].
  exists (mkdyn true true 0 0 0), 0, (mkcur [] pos0). intros f. apply loop_cfg_oof.
Qed.

(* ---------- the hypotheses are satisfiable by a recursive grammar with loops ---------- *)
(* 0: E = sor< seq< '(' , E , ')' >, plus< 'a' >, star< 'b' , opt< E > > >   (recursion behind a consuming prefix) *)
Definition ex_table : grammar :=
  [ mknode HSor [1; 5; 6] true;
    mknode HSeq [2; 0; 3] true;
    mknode (HOne true PkChar [40%Z]) [] true;
    mknode (HOne true PkChar [41%Z]) [] true;
    mknode (HOne true PkChar [97%Z]) [] true;
    mknode HPlus [4] true;
    mknode HStarPartial [7] false;
    mknode HSeq [8; 9] true;
    mknode (HOne true PkChar [98%Z]) [] true;
    mknode HPartial [0] false ].
Definition plain_cfg : cfg :=
  mkcfg EolLf (fun _ _ => AKNone) (fun _ _ _ _ => ARet true) (fun _ _ _ => ARet true) (fun _ => false) (fun _ _ => false).
Lemma ex_table_wf : table_wf ex_table.
Proof.
  intros r nd H. do 10 (destruct r as [|r]; [simpl in H; inversion H; subst; exact I|]). destruct r; discriminate H.
Qed.
Lemma plain_cfg_ok : cfg_plain_actions plain_cfg.
Proof. intros fam r fam'. split; discriminate. Qed.
Lemma ex_table_hyps : table_wf ex_table /\ heads_covered_term ex_table = true /\ cfg_plain_actions plain_cfg /\ problems ex_table = 0.
Proof. split; [exact ex_table_wf|]. split; [reflexivity|]. split; [exact plain_cfg_ok|]. vm_compute. reflexivity. Qed.
(* and the left-recursive variant is reported *)
Definition ex_table_bad : grammar :=
  [ mknode HSor [1; 2] true; mknode HSeq [3; 0] true; mknode (HOne true PkChar [97%Z]) [] true; mknode HPartial [2] false ].
Lemma ex_table_bad_problems : problems ex_table_bad <> 0.
Proof. vm_compute. discriminate. Qed.
