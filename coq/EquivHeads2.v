(* EquivHeads2.v — C09, second part of the behaviour-level lemmas: rule packs of any length and the
   repetition family.  Sub-rule packs are lists of closures; `cseq_all` / `ch_seq` are seq_all / h_seq
   written directly over a list of closures, and `seq_all_lcl` / `h_seq_lcl` say that the engine helpers
   run on the local callee `lcl` compute exactly these (so every c_node over a pack unfolds to closures). *)
From Coq Require Import Lia Bool.
From PegtlV Require Import Base Decode Grammar Engine Mono Equiv EquivFacts EquivHeads.

(* ---------- small facts ---------- *)
Lemma bind_ext x k1 k2 : (forall c, k1 c = k2 c) -> bind x k1 = bind x k2.
Proof. intros H. dres x; simpl; try reflexivity. rewrite H. reflexivity. Qed.
Lemma guard_false sv x : guard false sv x = x.
Proof. dres x; reflexivity. Qed.
Definition ret (c : cursor) : result := Res Ok c [].
Lemma sim_refl_any bf bx x : sim bf bx x x.
Proof. destruct x as [o c e| |]; [right; apply oeq_refl; discriminate | left; reflexivity | right; exact I]. Qed.
Lemma sim_bind_ret_r bf bx x y : sim bf bx x (bind y ret) <-> sim bf bx x y.
Proof. dres y; simpl; try tauto; try apply sim_evs_r. Qed.
Lemma sim_bind_ret_l bf bx x y : sim bf bx (bind x ret) y <-> sim bf bx x y.
Proof. dres x; simpl; try tauto; try apply sim_evs_l. Qed.
Lemma sim_guard_ff bf bx x y sv sv' : sim bf bx (guard false sv x) (guard false sv' y) <-> sim bf bx x y.
Proof. rewrite !guard_false. tauto. Qed.

Lemma cS_fail_req f g d1 d2 c c' evs : cS f g -> f (req d1) c = Res Fail c' evs -> exists evs', g (req d2) c = Res Fail c' evs'.
Proof.
  intros H E. destruct (H (req d1) (req d2) c) as [K|K]; rewrite E in K; [discriminate|].
  dres (g (req d2) c); simpl in K; try contradiction. subst. eauto.
Qed.
(* rewrite the call  g (req ?d) c  in the goal, knowing that the related f failed at c in required mode *)
Ltac cs_fail_q H g c E := match goal with |- context [g (req ?d2) c] =>
  let ev := fresh "ev" in let K := fresh "K" in destruct (cS_fail_req _ _ _ d2 _ _ _ H E) as [ev K]; rewrite K; clear K end.

(* ---------- packs of closures ---------- *)
Fixpoint cseq_all (d : dyn) (fs : list closure) (c : cursor) : result :=
  match fs with
  | [] => Res Ok c []
  | f :: fs' => bind (f d c) (cseq_all d fs')
  end.
Definition ch_seq (d : dyn) (fs : list closure) (c : cursor) : result :=
  match fs with
  | [f] => f d c
  | _ => guard (dM d) c (cseq_all (opt_ d) fs c)
  end.

Lemma lcl_app_r pre f fs d c : lcl (pre ++ f :: fs) d (length pre) c = f d c.
Proof. unfold lcl. rewrite nth_error_app2 by lia. rewrite Nat.sub_diag. reflexivity. Qed.

Lemma seq_all_lcl fs : forall pre d c, seq_all (lcl (pre ++ fs)) d (seq (length pre) (length fs)) c = cseq_all d fs c.
Proof.
  induction fs as [|f fs IH]; intros pre d c; [reflexivity|].
  cbn [length seq seq_all cseq_all]. rewrite lcl_app_r. apply bind_ext. intros c1.
  replace (pre ++ f :: fs) with ((pre ++ [f]) ++ fs) by (rewrite <- app_assoc; reflexivity).
  replace (S (length pre)) with (length (pre ++ [f])) by (rewrite app_length; simpl; lia).
  apply IH.
Qed.
Lemma h_seq_lcl fs pre d c : h_seq (lcl (pre ++ fs)) d (seq (length pre) (length fs)) c = ch_seq d fs c.
Proof.
  unfold h_seq, ch_seq. destruct fs as [|f [|f2 fs]].
  - reflexivity.
  - cbn [length seq]. apply lcl_app_r.
  - rewrite <- (seq_all_lcl (f :: f2 :: fs) pre). reflexivity.
Qed.
Lemma seq_all_lcl0 fs d c : seq_all (lcl fs) d (seq 0 (length fs)) c = cseq_all d fs c.
Proof. apply (seq_all_lcl fs [] d c). Qed.
Lemma h_seq_lcl0 fs d c : h_seq (lcl fs) d (seq 0 (length fs)) c = ch_seq d fs c.
Proof. apply (h_seq_lcl fs [] d c). Qed.
Lemma seq_all_lcl1 f fs d c : seq_all (lcl (f :: fs)) d (seq 1 (length fs)) c = cseq_all d fs c.
Proof. apply (seq_all_lcl fs [f] d c). Qed.
Lemma h_seq_lcl1 f fs d c : h_seq (lcl (f :: fs)) d (seq 1 (length fs)) c = ch_seq d fs c.
Proof. apply (h_seq_lcl fs [f] d c). Qed.

Lemma cseq_all_sim fs gs : Forall2 cS fs gs -> forall d1 d2 c, Sim false (dM d1) (dM d2) (cseq_all d1 fs c) (cseq_all d2 gs c).
Proof.
  induction 1 as [|f g fs gs Hfg F IH]; intros d1 d2 c; simpl.
  - right. simpl. reflexivity.
  - apply bind_sim; [apply Hfg | intros c1; apply IH].
Qed.
Lemma cseq_all_sim_req fs gs d1 d2 c : Forall2 cS fs gs -> sim true false (cseq_all (req d1) fs c) (cseq_all (req d2) gs c).
Proof. intros F. exact (cseq_all_sim fs gs F (req d1) (req d2) c). Qed.
Lemma cseq_all_sim_opt fs gs d1 d2 c : Forall2 cS fs gs -> sim false false (cseq_all (opt_ d1) fs c) (cseq_all (opt_ d2) gs c).
Proof. intros F. exact (cseq_all_sim fs gs F (opt_ d1) (opt_ d2) c). Qed.
Lemma ch_seq_sim fs gs : Forall2 cS fs gs -> forall d1 d2 c, Sim false (dM d1) (dM d2) (ch_seq d1 fs c) (ch_seq d2 gs c).
Proof.
  intros F d1 d2 c. unfold ch_seq. destruct F as [|f g fs gs Hfg F]; [right; simpl; reflexivity|].
  destruct F as [|f2 g2 fs gs Hfg2 F]; [apply Hfg|].
  apply sim_guard. apply (cseq_all_sim (f :: f2 :: fs) (g :: g2 :: gs)). constructor; [exact Hfg|]. constructor; assumption.
Qed.
(* in optional mode the guard of h_seq is the identity: h_seq is seq_all up to the event log *)
Lemma ch_seq_opt bf bx d fs c : sim bf bx (ch_seq (opt_ d) fs c) (cseq_all (opt_ d) fs c) /\ sim bf bx (cseq_all (opt_ d) fs c) (ch_seq (opt_ d) fs c).
Proof.
  unfold ch_seq. destruct fs as [|f [|f2 fs]]; cbn [dM opt_]; rewrite ?guard_false.
  - split; right; simpl; reflexivity.
  - cbn [cseq_all]. fold (bind (f (opt_ d) c) ret). split; [apply sim_bind_ret_r | apply sim_bind_ret_l];
      (destruct (f (opt_ d) c) as [o c' e| |]; [right; apply oeq_refl; discriminate | left; reflexivity | right; exact I]).
  - split; (destruct (cseq_all (opt_ (opt_ d)) (f :: f2 :: fs) c) as [o c' e| |] eqn:E;
      [right; change (opt_ (opt_ d)) with (opt_ d) in E; rewrite E; apply oeq_refl; discriminate
      | left; change (opt_ (opt_ d)) with (opt_ d) in E; try rewrite E; reflexivity
      | right; change (opt_ (opt_ d)) with (opt_ d) in E; rewrite E; exact I]).
Qed.

(* ---------- congruence of c_node for cross-related packs ---------- *)
Lemma Forall2_len {A B} (P : A -> B -> Prop) l1 l2 : Forall2 P l1 l2 -> length l1 = length l2.
Proof. induction 1; simpl; congruence. Qed.
Lemma Forall2_seq_diag (P : nat -> nat -> Prop) n : forall a, (forall i, a <= i < a + n -> P i i) -> Forall2 P (seq a n) (seq a n).
Proof. induction n as [|n IH]; intros a H; simpl; constructor; [apply H; lia | apply IH; intros i Hi; apply H; lia]. Qed.
Lemma Forall2_nth {A B} (P : A -> B -> Prop) l1 l2 : Forall2 P l1 l2 ->
  forall i, i < length l1 -> exists a b, nth_error l1 i = Some a /\ nth_error l2 i = Some b /\ P a b.
Proof.
  induction 1 as [|a b l1 l2 Hab F IH]; intros i Hi; simpl in Hi; [lia|].
  destruct i as [|i]; [exists a, b; simpl; auto|]. simpl. apply IH. lia.
Qed.
Lemma c_node_cong (C : cfg) n1 n2 h fs gs : n1 <= n2 -> head_plain h -> names_sub h = false ->
  (forall dflt, h = HIfMust dflt -> forall i, In i (tl (seq 0 (length fs))) -> nofail (lcl fs) i) ->
  Forall2 cS fs gs -> cS (c_node C n1 h fs) (c_node C n2 h gs).
Proof.
  intros Hn Hp Hnm Hnf F d1 d2 c. unfold c_node.
  assert (L : length fs = length gs) by (eapply Forall2_len; eauto). rewrite <- L.
  apply (eval_head_sim C (lcl fs) (lcl gs) (fun i j => i = j /\ exists f g, nth_error fs i = Some f /\ nth_error gs i = Some g /\ cS f g) false).
  - intros i j [<- [f [g [Hf [Hg Hfg]]]]] e1 e2 c0. unfold lcl. rewrite Hf, Hg. apply Hfg.
  - exact Hn.
  - exact Hp.
  - apply Forall2_seq_diag. intros i Hi. split; [reflexivity|]. apply (Forall2_nth _ _ _ F). lia.
  - rewrite Hnm. discriminate.
  - exact Hnf.
Qed.

(* the callee-level congruences of EquivFacts, instantiated on one closure each side *)
Section One.
Variable C : cfg.
Variables f g : closure.
Hypothesis Hfg : cS f g.
Let R1 (i j : rid) : Prop := i = 0 /\ j = 0.
Lemma lcl1_HR : forall r1 r2, R1 r1 r2 -> forall d1 d2 c, Sim false (dM d1) (dM d2) (lcl [f] d1 r1 c) (lcl [g] d2 r2 c).
Proof. intros r1 r2 [-> ->] d1 d2 c. apply Hfg. Qed.
Lemma rep_loop_1 k d1 d2 c : Sim false (dM d1) (dM d2) (rep_loop (lcl [f]) k d1 0 c) (rep_loop (lcl [g]) k d2 0 c).
Proof. apply (rep_loop_sim (lcl [f]) (lcl [g]) R1 false lcl1_HR); split; reflexivity. Qed.
Lemma repopt_loop_1 k d1 d2 c :
  fst (repopt_loop (lcl [f]) k d1 0 c) = Oof \/
  (oeq true false (fst (repopt_loop (lcl [f]) k d1 0 c)) (fst (repopt_loop (lcl [g]) k d2 0 c)) /\
   snd (repopt_loop (lcl [f]) k d1 0 c) = snd (repopt_loop (lcl [g]) k d2 0 c)).
Proof. apply (repopt_loop_sim (lcl [f]) (lcl [g]) R1 false lcl1_HR); split; reflexivity. Qed.
Lemma star_loop_1 n1 n2 d1 d2 c : n1 <= n2 -> sim true false (star_loop (lcl [f]) n1 d1 [0] c) (star_loop (lcl [g]) n2 d2 [0] c).
Proof. intros Hn. apply (star_loop_sim (lcl [f]) (lcl [g]) R1 false lcl1_HR); [constructor; [split; reflexivity | constructor] | exact Hn]. Qed.
End One.

(* ================= rep< N, R >  ==  seq< R, ..., R >  (N copies, all N) ================= *)
Section RepSeq.
Variable C : cfg.
Variables f g : closure.
Hypothesis Hfg : cS f g.

Lemma cseq_all_repeat (h : closure) d : forall k c, cseq_all d (repeat h k) c = rep_loop (lcl [h]) k d 0 c.
Proof. induction k as [|k IH]; intros c; [reflexivity|]. cbn [repeat cseq_all rep_loop lcl nth_error]. apply bind_ext. exact IH. Qed.

Lemma c_rep_unfold (h : closure) k d c : c_rep C k h d c = guard (dM d) c (rep_loop (lcl [h]) k (opt_ d) 0 c).
Proof. reflexivity. Qed.
Lemma c_seq_unfold fs d c : c_seq C fs d c = ch_seq d fs c.
Proof. unfold c_seq, c_node, eval_head. cbn [eval_atom]. apply h_seq_lcl0. Qed.

Lemma rep_seq_A (Hrg : crest g) k d1 d2 c : Sim false (dM d1) (dM d2) (c_rep C k f d1 c) (c_seq C (repeat g k) d2 c).
Proof.
  rewrite c_rep_unfold, c_seq_unfold. unfold ch_seq.
  destruct k as [|[|k]].
  - cbn [repeat]. apply sim_guard. right. simpl. reflexivity.
  - cbn [repeat rep_loop lcl nth_error]. fold (bind (f (opt_ d1) c) ret). unfold Sim.
    destruct (f (opt_ d1) c) as [[| |x] c' evs| |] eqn:E.
    + cs_ok Hfg g c E. fin.
    + destruct (cS_fail _ _ _ d2 _ _ _ Hfg E) as [cc [ev K]]. rewrite K. right. simpl.
      destruct (dM d1); [|exact I]. destruct (dM d2) eqn:M2; [|exact I]. simpl. symmetry. exact (Hrg d2 c cc ev M2 K).
    + cs_exc Hfg g c E. fin.
    + left. reflexivity.
    + cs_err Hfg g c E. fin.
  - cbn [repeat]. apply sim_guard. change (g :: g :: repeat g k) with (repeat g (S (S k))). rewrite cseq_all_repeat.
    apply (rep_loop_1 f g Hfg (S (S k)) (opt_ d1) (opt_ d2)).
Qed.

Lemma rep_seq_B (Hrf : crest f) k d1 d2 c : Sim false (dM d1) (dM d2) (c_seq C (repeat f k) d1 c) (c_rep C k g d2 c).
Proof.
  rewrite c_rep_unfold, c_seq_unfold. unfold ch_seq.
  destruct k as [|[|k]].
  - cbn [repeat]. apply sim_guard. right. simpl. reflexivity.
  - cbn [repeat rep_loop lcl nth_error]. fold (bind (g (opt_ d2) c) ret). unfold Sim.
    destruct (f d1 c) as [[| |x] c' evs| |] eqn:E.
    + cs_ok Hfg g c E. fin.
    + cs_fail Hfg g c E. right. simpl. destruct (dM d1) eqn:M1; [|exact I]. destruct (dM d2); [|exact I]. simpl.
      exact (Hrf d1 c c' evs M1 E).
    + cs_exc Hfg g c E. fin.
    + left. reflexivity.
    + cs_err Hfg g c E. fin.
  - cbn [repeat]. apply sim_guard. change (f :: f :: repeat f k) with (repeat f (S (S k))). rewrite cseq_all_repeat.
    apply (rep_loop_1 f g Hfg (S (S k)) (opt_ d1) (opt_ d2)).
Qed.
End RepSeq.

(* ================= rep_min_max< Min, Max, R >  ==  seq< rep< Min, R >, rep_opt< Max - Min, R >, not_at< R > > ================= *)
Section RepMinMax.
Variable C : cfg.
Variables f g : closure.
Hypothesis Hfg : cS f g.

(* when the loop of rep_opt stops early, the rule has just failed (and restored the cursor) where the loop stopped *)
Lemma repopt_stop (e : callee) d r : (forall c c' evs, e (req d) r c = Res Fail c' evs -> c' = c) ->
  forall k c c2 evs, repopt_loop e k d r c = (Res Ok c2 evs, false) -> exists cc ev', e (req d) r c2 = Res Fail cc ev'.
Proof.
  intros Hr. induction k as [|k IH]; intros c c2 evs H; simpl in H; [inversion H|].
  destruct (e (req d) r c) as [[| |x] c' ev1| |] eqn:E; try (inversion H; fail).
  - destruct (repopt_loop e k d r c') as [y b] eqn:E2. inversion H; subst b.
    destruct y as [[| |x] c3 ev3| |]; simpl in H1; inversion H1; subst. eapply IH; eauto.
  - inversion H; subst. pose proof (Hr c c2 evs E). subst c2. eauto.
Qed.

Definition rmm_doc (mn mx : nat) (h : closure) : closure := c_seq C [c_rep C mn h; c_rep_opt C (mx - mn) h; c_not C h].

Lemma rmm_doc_unfold mn mx h d c :
  rmm_doc mn mx h d c =
  guard (dM d) c
    (bind (guard false c (rep_loop (lcl [h]) mn (opt_ d) 0 c)) (fun c1 =>
     bind (fst (repopt_loop (lcl [h]) (mx - mn) (opt_ d) 0 c1)) (fun c2 =>
     bind (look true c2 (h (set_A (opt_ d) false) c2)) ret))).
Proof. reflexivity. Qed.
Lemma c_rmm_unfold mn mx h d c :
  c_rep_min_max C mn mx h d c =
  guard (dM d) c
    (bind (rep_loop (lcl [h]) mn (opt_ d) 0 c) (fun c1 =>
       match repopt_loop (lcl [h]) (mx - mn) d 0 c1 with
       | (Res Ok c2 evs, true) => prepend evs (look true c2 (h (set_A (opt_ d) false) c2))
       | (x, _) => x
       end)).
Proof. reflexivity. Qed.

Lemma look_cS inv c d1 d2 : sim true true (look inv c (f d1 c)) (look inv c (g d2 c)).
Proof. eapply sim_look. apply (Hfg d1 d2 c). Qed.

Lemma rep_min_max_A (Hrf : crest f) mn mx d1 d2 c :
  Sim false (dM d1) (dM d2) (c_rep_min_max C mn mx f d1 c) (rmm_doc mn mx g d2 c).
Proof.
  rewrite c_rmm_unfold, rmm_doc_unfold. apply sim_guard. rewrite guard_false. unfold Sim. rewrite flagf_ff, flagx_ff.
  apply bind_sim; [apply (rep_loop_1 f g Hfg mn (opt_ d1) (opt_ d2))|]. intros c1.
  pose proof (repopt_stop (lcl [f]) d1 0 (fun c0 c' evs E => Hrf (req d1) c0 c' evs eq_refl E) (mx - mn) c1) as ST.
  destruct (repopt_loop_1 f g Hfg (mx - mn) d1 (opt_ d2) c1) as [K|[K1 K2]].
  - destruct (repopt_loop (lcl [f]) (mx - mn) d1 0 c1) as [x1 b1]. simpl in K. subst x1. destruct b1; left; reflexivity.
  - destruct (repopt_loop (lcl [f]) (mx - mn) d1 0 c1) as [x1 b1]. destruct (repopt_loop (lcl [g]) (mx - mn) (opt_ d2) 0 c1) as [x2 b2].
    simpl in K1, K2. subst b2. simpl fst.
    dres x1; dres x2; simpl in K1; try contradiction.
    + subst c2. destruct b1.
      * simpl. rewrite sim_prepend_l, sim_prepend_r, sim_bind_ret_r. apply sim_tt_any. apply look_cS.
      * destruct (ST c0 evs eq_refl) as [cc [ev' E]]. cbn [lcl nth_error] in E.
        simpl. rewrite sim_prepend_r, sim_bind_ret_r. cs_fail Hfg g c0 E. right. simpl. reflexivity.
    + right. simpl. exact I.
    + right. simpl. destruct K1 as [E _]. split; [exact E | exact I].
    + right. exact I.
Qed.

Lemma rep_min_max_B (Hff : cS f f) (Hrf : crest f) mn mx d1 d2 c :
  Sim false (dM d1) (dM d2) (rmm_doc mn mx f d1 c) (c_rep_min_max C mn mx g d2 c).
Proof.
  rewrite c_rmm_unfold, rmm_doc_unfold. apply sim_guard. rewrite guard_false. unfold Sim. rewrite flagf_ff, flagx_ff.
  apply bind_sim; [apply (rep_loop_1 f g Hfg mn (opt_ d1) (opt_ d2))|]. intros c1.
  pose proof (repopt_stop (lcl [f]) (opt_ d1) 0 (fun c0 c' evs E => Hrf (req (opt_ d1)) c0 c' evs eq_refl E) (mx - mn) c1) as ST.
  destruct (repopt_loop_1 f g Hfg (mx - mn) (opt_ d1) d2 c1) as [K|[K1 K2]].
  - rewrite K. left. reflexivity.
  - destruct (repopt_loop (lcl [f]) (mx - mn) (opt_ d1) 0 c1) as [x1 b1]. destruct (repopt_loop (lcl [g]) (mx - mn) d2 0 c1) as [x2 b2].
    simpl in K1, K2. subst b2. simpl fst.
    dres x1; dres x2; simpl in K1; try contradiction.
    + subst c2. destruct b1.
      * simpl. rewrite sim_prepend_l, sim_prepend_r, sim_bind_ret_l. apply sim_tt_any. apply look_cS.
      * destruct (ST c0 evs eq_refl) as [cc [ev' E]]. cbn [lcl nth_error] in E.
        simpl. rewrite sim_prepend_l, sim_bind_ret_l. cs_fail Hff f c0 E. right. simpl. reflexivity.
    + right. simpl. exact I.
    + right. simpl. destruct K1 as [E _]. split; [exact E | exact I].
    + right. exact I.
Qed.
End RepMinMax.

(* ================= plus< R >  ==  seq< R, star< R > >  ==  rep_min< 1, R > = seq< rep< 1, R >, star< R > > ================= *)
Section Plus.
Variable C : cfg.
Variables f g : closure.
Hypothesis Hfg : cS f g.

Definition c_plus (n : nat) (h : closure) : closure := c_node C n HPlus [h].
Lemma c_plus_unfold n h d c : c_plus n h d c = bind (h d c) (star_loop (lcl [h]) n d [0]).
Proof. reflexivity. Qed.
Lemma c_star_unfold n h d c : c_star C n h d c = star_loop (lcl [h]) n d [0] c.
Proof. reflexivity. Qed.
Lemma seq2_unfold (a b : closure) d c : c_seq C [a; b] d c = guard (dM d) c (bind (a (opt_ d) c) (fun c1 => bind (b (opt_ d) c1) ret)).
Proof. reflexivity. Qed.

Lemma star_loop_nofail (e : callee) d rs : forall n c c' evs, star_loop e n d rs c <> Res Fail c' evs.
Proof.
  induction n as [|n IH]; intros c c' evs; simpl; [discriminate|].
  destruct (seq_all e (req d) rs c) as [[| |x] c1 e1| |]; try discriminate.
  specialize (IH c1). destruct (star_loop e n d rs c1) as [[| |x] c2 e2| |]; simpl; try discriminate.
  intros H. eapply IH. reflexivity.
Qed.

Lemma plus_A (Hrf : crest f) n1 n2 d1 d2 c : n1 <= n2 ->
  Sim false (dM d1) (dM d2) (c_plus n1 f d1 c) (c_seq C [g; c_star C n2 g] d2 c).
Proof.
  intros Hn. rewrite c_plus_unfold, seq2_unfold. unfold Sim.
  destruct (f d1 c) as [[| |x] c' evs| |] eqn:E.
  - cs_ok Hfg g c E. simpl. rewrite sim_prepend_l. 
    destruct (star_loop_1 f g Hfg n1 n2 d1 (opt_ d2) c' Hn) as [K|K]; [left; exact K|].
    rewrite c_star_unfold. right. pose proof (star_loop_nofail (lcl [f]) d1 [0] n1 c') as NF.
    dres (star_loop (lcl [f]) n1 d1 [0] c'); dres (star_loop (lcl [g]) n2 (opt_ d2) [0] c'); simpl in K; try contradiction; simpl; auto.
    exfalso. eapply NF. reflexivity.
  - cs_fail Hfg g c E. right. simpl. destruct (dM d1) eqn:M1; [|exact I]. destruct (dM d2); [|exact I]. simpl.
    exact (Hrf d1 c c' evs M1 E).
  - cs_exc Hfg g c E. fin.
  - left. reflexivity.
  - cs_err Hfg g c E. fin.
Qed.

Lemma plus_B (Hrg : crest g) n1 n2 d1 d2 c : n1 <= n2 ->
  Sim false (dM d1) (dM d2) (c_seq C [f; c_star C n1 f] d1 c) (c_plus n2 g d2 c).
Proof.
  intros Hn. rewrite c_plus_unfold, seq2_unfold. unfold Sim.
  destruct (f (opt_ d1) c) as [[| |x] c' evs| |] eqn:E.
  - cs_ok Hfg g c E. simpl. rewrite sim_prepend_r.
    destruct (star_loop_1 f g Hfg n1 n2 (opt_ d1) d2 c' Hn) as [K|K]; [left; rewrite c_star_unfold, K; reflexivity|].
    rewrite c_star_unfold. right. pose proof (star_loop_nofail (lcl [f]) (opt_ d1) [0] n1 c') as NF.
    dres (star_loop (lcl [f]) n1 (opt_ d1) [0] c'); dres (star_loop (lcl [g]) n2 d2 [0] c'); simpl in K; try contradiction; simpl; auto.
    exfalso. eapply NF. reflexivity.
  - destruct (cS_fail _ _ _ d2 _ _ _ Hfg E) as [cc [ev K]]. rewrite K. right. simpl.
    destruct (dM d1); [|exact I]. destruct (dM d2) eqn:M2; [|exact I]. simpl. symmetry. exact (Hrg d2 c cc ev M2 K).
  - cs_exc Hfg g c E. fin.
  - left. reflexivity.
  - cs_err Hfg g c E. fin.
Qed.
End Plus.

(* ================= opt< R >  ==  sor< R, success > ================= *)
Section Opt.
Variable C : cfg.
Variables f g : closure.
Hypothesis Hfg : cS f g.

Lemma c_opt_unfold2 (h : closure) d c : c_opt C h d c = match bind (h (req d) c) ret with Res Fail c' evs => Res Ok c' evs | x => x end.
Proof. reflexivity. Qed.
Lemma sor2_unfold (a b : closure) d c : c_sor C [a; b] d c = match a (req d) c with Res Fail c' evs => prepend evs (b d c') | x => x end.
Proof. reflexivity. Qed.

Lemma opt_sor_A d1 d2 c : Sim false (dM d1) (dM d2) (c_opt C f d1 c) (c_sor C [g; c_success C] d2 c).
Proof.
  rewrite c_opt_unfold2, sor2_unfold. unfold Sim.
  pose proof (Hfg (req d1) (req d2) c) as K. unfold Sim in K. simpl in K.
  split_sim K (f (req d1) c) (g (req d2) c); right; simpl; auto.
Qed.
Lemma opt_sor_B d1 d2 c : Sim false (dM d1) (dM d2) (c_sor C [f; c_success C] d1 c) (c_opt C g d2 c).
Proof.
  rewrite c_opt_unfold2, sor2_unfold. unfold Sim.
  pose proof (Hfg (req d1) (req d2) c) as K. unfold Sim in K. simpl in K.
  split_sim K (f (req d1) c) (g (req d2) c); right; simpl; auto.
Qed.
End Opt.

(* ================= partial< R1, Rs... >  ==  opt< seq< R1, partial< Rs... > > >  (the prose, clause by clause) ================= *)
Section Partial.
Variable C : cfg.
Definition c_partial (fs : list closure) : closure := c_node C 0 HPartial fs.
Lemma c_partial_unfold fs d c : c_partial fs d c = match cseq_all (req d) fs c with Res Fail c' evs => Res Ok c' evs | x => x end.
Proof. unfold c_partial, c_node, eval_head. cbn [eval_atom]. unfold h_partial. rewrite seq_all_lcl0. reflexivity. Qed.

Variables f1 g1 : closure.
Variables fs gs : list closure.
Hypothesis H1 : cS f1 g1.
Hypothesis Hs : Forall2 cS fs gs.

Lemma partial_A (Hr1 : crest f1) d1 d2 c :
  Sim false (dM d1) (dM d2) (c_partial (f1 :: fs) d1 c) (c_opt C (c_seq C [g1; c_partial gs]) d2 c).
Proof.
  rewrite c_partial_unfold, c_opt_unfold2, seq2_unfold. cbn [cseq_all dM req opt_]. unfold Sim.
  destruct (f1 (req d1) c) as [[| |x] c' evs| |] eqn:E.
  - cs_ok H1 g1 c E. simpl. rewrite c_partial_unfold.
    pose proof (cseq_all_sim_req fs gs d1 d2 c' Hs) as K. cbn [dM req opt_] in *.
    change (req (opt_ (req d2))) with (req d2).
    split_sim K (cseq_all (req d1) fs c') (cseq_all (req d2) gs c'); right; simpl; auto.
  - pose proof (Hr1 (req d1) c c' evs eq_refl E) as ->. cs_fail H1 g1 c E. fin.
  - cs_exc H1 g1 c E. fin.
  - left. reflexivity.
  - cs_err H1 g1 c E. fin.
Qed.

Lemma partial_B (Hr1 : crest g1) d1 d2 c :
  Sim false (dM d1) (dM d2) (c_opt C (c_seq C [f1; c_partial fs]) d1 c) (c_partial (g1 :: gs) d2 c).
Proof.
  rewrite c_partial_unfold, c_opt_unfold2, seq2_unfold. cbn [cseq_all dM req opt_]. unfold Sim.
  destruct (f1 (opt_ (req d1)) c) as [[| |x] c' evs| |] eqn:E.
  - cs_ok H1 g1 c E. simpl. rewrite c_partial_unfold.
    pose proof (cseq_all_sim_req fs gs d1 d2 c' Hs) as K. cbn [dM req opt_] in *.
    change (req (opt_ (req d1))) with (req d1).
    split_sim K (cseq_all (req d1) fs c') (cseq_all (req d2) gs c'); right; simpl; auto.
  - cs_fail_r H1 Hr1 g1 c E. fin.
  - cs_exc H1 g1 c E. fin.
  - left. reflexivity.
  - cs_err H1 g1 c E. fin.
Qed.
End Partial.

(* ================= until< R >  ==  until< R, any > ================= *)
Section Until1.
Variable C : cfg.
Definition c_any : closure := c_node C 0 (HAny PkChar) [].
Lemma c_any_unfold d c : c_any d c = if in_empty c then Res Fail c [] else ok_or_err (bump_scan (eol_ch (ceol C)) 1 c).
Proof. reflexivity. Qed.
Definition c_until1 (n : nat) (f : closure) : closure := c_node C n HUntil1 [f].
Definition c_until2 (n : nat) (f s : closure) : closure := c_node C n HUntil2 [f; s].

Variables f g : closure.
Hypothesis Hfg : cS f g.

Lemma until1_loop_A d1 d2 : forall n1 n2, n1 <= n2 -> forall c,
  sim false false (until1_loop C (lcl [f]) n1 d1 0 c) (until2_loop (lcl [g; c_any]) n2 d2 0 1 c).
Proof.
  induction n1 as [|n1 IH]; intros n2 Hn c; [left; reflexivity|].
  destruct n2 as [|n2]; [lia|].
  cbn [until1_loop until2_loop lcl nth_error].
  pose proof (Hfg (req d1) (req d2) c) as K. unfold Sim in K. simpl in K.
  split_sim K (f (req d1) c) (g (req d2) c).
  - right. simpl. exact K.
  - subst c1. rewrite c_any_unfold. destruct (in_empty c0); [right; simpl; exact I|].
    destruct (bump_scan (eol_ch (ceol C)) 1 c0) as [c2|]; simpl; [|right; exact I].
    rewrite sim_prepend_l, sim_prepend_r. apply IH. lia.
  - right. simpl. destruct K as [K _]. split; [exact K | exact I].
  - right. exact I.
Qed.
Lemma until1_loop_B d1 d2 : forall n1 n2, n1 <= n2 -> forall c,
  sim false false (until2_loop (lcl [f; c_any]) n1 d1 0 1 c) (until1_loop C (lcl [g]) n2 d2 0 c).
Proof.
  induction n1 as [|n1 IH]; intros n2 Hn c; [left; reflexivity|].
  destruct n2 as [|n2]; [lia|].
  cbn [until1_loop until2_loop lcl nth_error].
  pose proof (Hfg (req d1) (req d2) c) as K. unfold Sim in K. simpl in K.
  split_sim K (f (req d1) c) (g (req d2) c).
  - right. simpl. exact K.
  - subst c1. rewrite c_any_unfold. destruct (in_empty c0); [right; simpl; exact I|].
    destruct (bump_scan (eol_ch (ceol C)) 1 c0) as [c2|]; simpl; [|right; exact I].
    rewrite sim_prepend_l, sim_prepend_r. apply IH. lia.
  - right. simpl. destruct K as [K _]. split; [exact K | exact I].
  - right. exact I.
Qed.

Lemma until1_A n1 n2 d1 d2 c : n1 <= n2 -> Sim false (dM d1) (dM d2) (c_until1 n1 f d1 c) (c_until2 n2 g c_any d2 c).
Proof.
  intros Hn. unfold c_until1, c_until2, c_node, eval_head. cbn [eval_atom length seq]. unfold h_until1, h_until2.
  apply sim_guard. unfold Sim. rewrite flagf_ff, flagx_ff. apply until1_loop_A. exact Hn.
Qed.
Lemma until1_B n1 n2 d1 d2 c : n1 <= n2 -> Sim false (dM d1) (dM d2) (c_until2 n1 f c_any d1 c) (c_until1 n2 g d2 c).
Proof.
  intros Hn. unfold c_until1, c_until2, c_node, eval_head. cbn [eval_atom length seq]. unfold h_until1, h_until2.
  apply sim_guard. unfold Sim. rewrite flagf_ff, flagx_ff. apply until1_loop_B. exact Hn.
Qed.
End Until1.

(* ================= strict< R1, Rs... >  ==  sor< not_at< R1 >, seq< R1, Rs... > >   (any number of rules) ================= *)
Arguments ch_seq : simpl never.
Arguments cseq_all : simpl never.
Lemma ch_seq_1 (g : closure) d c : ch_seq d [g] c = g d c.
Proof. reflexivity. Qed.
Lemma ch_seq_0 d c : ch_seq d [] c = guard (dM d) c (Res Ok c []).
Proof. reflexivity. Qed.
Lemma cseq_all_cons (g : closure) gs d c : cseq_all d (g :: gs) c = bind (g d c) (cseq_all d gs).
Proof. reflexivity. Qed.
Lemma cseq_all_nil d c : cseq_all d [] c = Res Ok c [].
Proof. reflexivity. Qed.

Section StrictN.
Variable C : cfg.
Lemma c_strict_unfold f1 fs d c :
  c_strict C (f1 :: fs) d c =
  guard (dM d) c (match f1 (req d) c with
                  | Res Ok c' evs => prepend evs (ch_seq (opt_ d) fs c')
                  | Res Fail c' evs => Res Ok c' evs
                  | x => x end).
Proof.
  unfold c_strict, c_node, eval_head. cbn [eval_atom length seq]. unfold h_strict.
  change (lcl (f1 :: fs) (req d) 0 c) with (f1 (req d) c).
  destruct (f1 (req d) c) as [[| |x] c' evs| |]; try reflexivity. rewrite h_seq_lcl1. reflexivity.
Qed.
Lemma c_not_unfold (h : closure) d c : c_not C h d c = look true c (h (set_A (opt_ d) false) c).
Proof. reflexivity. Qed.
Lemma ch_seq_cons g g2 gs d c : ch_seq d (g :: g2 :: gs) c = guard (dM d) c (bind (g (opt_ d) c) (cseq_all (opt_ d) (g2 :: gs))).
Proof. reflexivity. Qed.

Variables f1 g1 : closure.
Hypothesis H1 : cS f1 g1.

Lemma strict_A (Hr1 : crest f1) fs gs (Hs : Forall2 cS fs gs) d1 d2 c :
  Sim false (dM d1) (dM d2) (c_strict C (f1 :: fs) d1 c) (c_sor C [c_not C g1; c_seq C (g1 :: gs)] d2 c).
Proof.
  rewrite c_strict_unfold, sor2_unfold, c_not_unfold. unfold Sim.
  destruct (f1 (req d1) c) as [[| |x] c' evs| |] eqn:E.
  - cs_ok H1 g1 c E. simpl. rewrite c_seq_unfold.
    destruct Hs as [|f2 g2 fs' gs' H2 Hs'].
    + rewrite ch_seq_1, ch_seq_0. cs_ok H1 g1 c E. fin.
    + rewrite ch_seq_cons. cs_ok H1 g1 c E. simpl.
      destruct (ch_seq_opt false false d1 (f2 :: fs') c') as [K1 _].
      pose proof (cseq_all_sim_opt (f2 :: fs') (g2 :: gs') d1 d2 c' (Forall2_cons _ _ H2 Hs')) as K2.
      pose proof (sim_trans _ _ _ _ _ K1 K2) as K. clear K1 K2.
      destruct K as [K|K]; [rewrite K; left; reflexivity|].
      dres (ch_seq (opt_ d1) (f2 :: fs') c'); dres (cseq_all (opt_ d2) (g2 :: gs') c'); simpl in K; try contradiction; try (apply proj1 in K); fin.
  - pose proof (Hr1 (req d1) c c' evs eq_refl E) as ->. cs_fail H1 g1 c E. fin.
  - cs_exc H1 g1 c E. fin.
  - left. reflexivity.
  - cs_err H1 g1 c E. fin.
Qed.

Lemma strict_B (H11 : cS f1 f1) (Hrg : crest g1) fs gs (Hs : Forall2 cS fs gs) d1 d2 c :
  Sim false (dM d1) (dM d2) (c_sor C [c_not C f1; c_seq C (f1 :: fs)] d1 c) (c_strict C (g1 :: gs) d2 c).
Proof.
  rewrite c_strict_unfold, sor2_unfold, c_not_unfold. unfold Sim.
  match goal with |- context [look true c (f1 ?d c)] => destruct (f1 d c) as [[| |x] c' evs| |] eqn:E end.
  - simpl. rewrite c_seq_unfold. cs_ok H1 g1 c E.
    destruct Hs as [|f2 g2 fs' gs' H2 Hs'].
    + rewrite ch_seq_1, ch_seq_0. cs_ok H11 f1 c E. fin.
    + rewrite ch_seq_cons. cs_ok H11 f1 c E. simpl.
      destruct (ch_seq_opt false false d2 (g2 :: gs') c') as [_ K1].
      pose proof (cseq_all_sim_opt (f2 :: fs') (g2 :: gs') d1 d2 c' (Forall2_cons _ _ H2 Hs')) as K2.
      pose proof (sim_trans _ _ _ _ _ K2 K1) as K. clear K1 K2.
      destruct K as [K|K]; [rewrite K; left; reflexivity|].
      dres (cseq_all (opt_ d1) (f2 :: fs') c'); dres (ch_seq (opt_ d2) (g2 :: gs') c'); simpl in K; try contradiction; try (apply proj1 in K); fin.
  - simpl. cs_fail_r H1 Hrg g1 c E. fin.
  - simpl. cs_exc H1 g1 c E. fin.
  - left. reflexivity.
  - simpl. cs_err H1 g1 c E. fin.
Qed.
End StrictN.

(* ================= seq< A, S1, S2... >  ==  seq< A, seq< S1, S2... > >  (used for until< R, S... > with several S) ================= *)
Section SeqFlat.
Variable C : cfg.
Lemma seq_cons_unfold (a f2 : closure) fs d c : c_seq C (a :: f2 :: fs) d c = guard (dM d) c (bind (a (opt_ d) c) (cseq_all (opt_ d) (f2 :: fs))).
Proof. rewrite c_seq_unfold. reflexivity. Qed.

Lemma seq_flat_A a a' f2 g2 fs gs : cS a a' -> Forall2 cS (f2 :: fs) (g2 :: gs) ->
  cS (c_seq C (a :: f2 :: fs)) (c_seq C [a'; c_seq C (g2 :: gs)]).
Proof.
  intros Ha F d1 d2 c. rewrite (seq_cons_unfold a f2 fs), (seq2_unfold C a' (c_seq C (g2 :: gs))). apply sim_guard. unfold Sim. rewrite flagf_ff, flagx_ff.
  apply bind_sim; [apply (Ha (opt_ d1) (opt_ d2) c)|]. intros c1. rewrite sim_bind_ret_r, c_seq_unfold.
  eapply sim_trans; [apply (cseq_all_sim_opt _ _ d1 d2 c1 F)|]. apply (ch_seq_opt false false d2 (g2 :: gs) c1).
Qed.
Lemma seq_flat_B a a' f2 g2 fs gs : cS a a' -> Forall2 cS (f2 :: fs) (g2 :: gs) ->
  cS (c_seq C [a; c_seq C (f2 :: fs)]) (c_seq C (a' :: g2 :: gs)).
Proof.
  intros Ha F d1 d2 c. rewrite (seq_cons_unfold a' g2 gs), (seq2_unfold C a (c_seq C (f2 :: fs))). apply sim_guard. unfold Sim. rewrite flagf_ff, flagx_ff.
  apply bind_sim; [apply (Ha (opt_ d1) (opt_ d2) c)|]. intros c1. rewrite sim_bind_ret_l, c_seq_unfold.
  eapply sim_trans; [apply (ch_seq_opt false false d1 (f2 :: fs) c1)|]. apply (cseq_all_sim_opt _ _ d1 d2 c1 F).
Qed.
End SeqFlat.

(* ================= star_strict< R1, Rs... >  ==  seq< star< seq< R1, Rs... > >, not_at< R1 > >
   (the prose "like star< R... >, but a partial match of R... lets star_strict fail locally") ================= *)
Section StarStrict.
Variable C : cfg.
Fixpoint css_loop (n : nat) (d : dyn) (f1 : closure) (fs : list closure) (c : cursor) : result :=
  match n with
  | O => Oof
  | S n' => match f1 (req d) c with
            | Res Ok c' evs => match ch_seq (opt_ d) fs c' with
                               | Res Ok c'' evs2 => prepend (evs ++ evs2) (css_loop n' d f1 fs c'')
                               | x => prepend evs x end
            | Res Fail c' evs => Res Ok c' evs
            | x => x end
  end.
Lemma ssl_lcl f1 fs d : forall n c, star_strict_loop (lcl (f1 :: fs)) n d 0 (seq 1 (length fs)) c = css_loop n d f1 fs c.
Proof.
  induction n as [|n IH]; intros c; [reflexivity|]. cbn [star_strict_loop css_loop].
  change (lcl (f1 :: fs) (req d) 0 c) with (f1 (req d) c).
  destruct (f1 (req d) c) as [[| |x] c' evs| |]; try reflexivity. rewrite h_seq_lcl1.
  destruct (ch_seq (opt_ d) fs c') as [[| |x] c2 evs2| |]; try reflexivity. rewrite IH. reflexivity.
Qed.
Definition c_star_strict (n : nat) (fs : list closure) : closure := c_node C n HStarStrict fs.
Lemma c_star_strict_unfold n f1 fs d c : c_star_strict n (f1 :: fs) d c = guard (dM d) c (css_loop n d f1 fs c).
Proof. unfold c_star_strict, c_node, eval_head. cbn [eval_atom length seq]. unfold h_star_strict. rewrite ssl_lcl. reflexivity. Qed.
Definition ss_doc (n : nat) (g1 : closure) (gs : list closure) : closure := c_seq C [c_star C n (c_seq C (g1 :: gs)); c_not C g1].

Lemma star_step (h : closure) n d c :
  star_loop (lcl [h]) (S n) d [0] c =
  match bind (h (req d) c) ret with
  | Res Ok c' evs => prepend evs (star_loop (lcl [h]) n d [0] c')
  | Res Fail c' evs => Res Ok c' evs
  | x => x end.
Proof. reflexivity. Qed.

Variables f1 g1 : closure.
Hypothesis H1 : cS f1 g1.

Lemma css_loop_A (Hr1 : crest f1) fs gs (Hs : Forall2 cS fs gs) d1 dS dN : forall n1 n2, n1 <= n2 -> forall c,
  sim false false (css_loop n1 d1 f1 fs c)
                  (bind (star_loop (lcl [c_seq C (g1 :: gs)]) n2 dS [0] c) (fun c1 => bind (look true c1 (g1 dN c1)) ret)).
Proof.
  destruct Hs as [|f2 g2 fs' gs' H2 Hs'].
  - induction n1 as [|n1 IH]; intros n2 Hn c; [left; reflexivity|]. destruct n2 as [|n2]; [lia|].
    rewrite star_step, c_seq_unfold, ch_seq_1. cbn [css_loop].
    destruct (f1 (req d1) c) as [[| |x] c' evs| |] eqn:E.
    + rewrite ch_seq_0. cs_ok H1 g1 c E. simpl. rewrite sim_prepend_l, sim_bind_prepend_r. apply IH. lia.
    + pose proof (Hr1 (req d1) c c' evs eq_refl E) as ->. cs_fail_q H1 g1 c E. simpl. cs_fail H1 g1 c E. fin.
    + cs_exc H1 g1 c E. fin.
    + left. reflexivity.
    + cs_err H1 g1 c E. fin.
  - induction n1 as [|n1 IH]; intros n2 Hn c; [left; reflexivity|]. destruct n2 as [|n2]; [lia|].
    rewrite star_step, c_seq_unfold, ch_seq_cons. cbn [css_loop]. cbn [dM req opt_ guard].
    destruct (f1 (req d1) c) as [[| |x] c' evs| |] eqn:E.
    + cs_ok H1 g1 c E. cbn [bind prepend].
      destruct (ch_seq_opt false false d1 (f2 :: fs') c') as [K1 _].
      pose proof (cseq_all_sim_opt (f2 :: fs') (g2 :: gs') d1 (req dS) c' (Forall2_cons _ _ H2 Hs')) as K2.
      pose proof (sim_trans _ _ _ _ _ K1 K2) as K. clear K1 K2. change (opt_ (req dS)) with (opt_ dS) in *.
      destruct K as [K|K]; [rewrite K; left; reflexivity|].
      dres (ch_seq (opt_ d1) (f2 :: fs') c'); dres (cseq_all (opt_ dS) (g2 :: gs') c'); simpl in K; try contradiction; try (apply proj1 in K); subst.
      * simpl. rewrite sim_prepend_l, !sim_bind_prepend_r. apply IH. lia.
      * simpl. cs_ok H1 g1 c E. fin.
      * fin.
      * fin.
    + pose proof (Hr1 (req d1) c c' evs eq_refl E) as ->. cs_fail H1 g1 c E. simpl. cs_fail H1 g1 c E. fin.
    + cs_exc H1 g1 c E. fin.
    + left. reflexivity.
    + cs_err H1 g1 c E. fin.
Qed.

Lemma star_strict_A (Hr1 : crest f1) fs gs (Hs : Forall2 cS fs gs) n1 n2 d1 d2 c : n1 <= n2 ->
  Sim false (dM d1) (dM d2) (c_star_strict n1 (f1 :: fs) d1 c) (ss_doc n2 g1 gs d2 c).
Proof.
  intros Hn. unfold ss_doc. rewrite c_star_strict_unfold, seq2_unfold. apply sim_guard. unfold Sim. rewrite flagf_ff, flagx_ff.
  rewrite c_star_unfold. apply css_loop_A; assumption.
Qed.

Lemma css_loop_B (H11 : cS f1 f1) (Hrf : crest f1) (Hrg : crest g1) fs gs (Hs : Forall2 cS fs gs) d2 dS dN : forall n1 n2, n1 <= n2 -> forall c,
  sim false false (bind (star_loop (lcl [c_seq C (f1 :: fs)]) n1 dS [0] c) (fun c1 => bind (look true c1 (f1 dN c1)) ret))
                  (css_loop n2 d2 g1 gs c).
Proof.
  destruct Hs as [|f2 g2 fs' gs' H2 Hs'].
  - induction n1 as [|n1 IH]; intros n2 Hn c; [left; reflexivity|]. destruct n2 as [|n2]; [lia|].
    rewrite star_step, c_seq_unfold, ch_seq_1. cbn [css_loop].
    destruct (f1 (req dS) c) as [[| |x] c' evs| |] eqn:E.
    + cs_ok H1 g1 c E. rewrite ch_seq_0. simpl. rewrite sim_prepend_r, sim_bind_prepend_l. apply IH. lia.
    + pose proof (Hrf (req dS) c c' evs eq_refl E) as ->. simpl. cs_fail H11 f1 c E. simpl. cs_fail_r H1 Hrg g1 c E. fin.
    + simpl. cs_exc H1 g1 c E. fin.
    + left. reflexivity.
    + simpl. cs_err H1 g1 c E. fin.
  - induction n1 as [|n1 IH]; intros n2 Hn c; [left; reflexivity|]. destruct n2 as [|n2]; [lia|].
    rewrite star_step, c_seq_unfold, ch_seq_cons. cbn [css_loop]. cbn [dM req opt_ guard].
    destruct (f1 (opt_ (req dS)) c) as [[| |x] c' evs| |] eqn:E.
    + cs_ok H1 g1 c E. cbn [bind prepend].
      destruct (ch_seq_opt false false d2 (g2 :: gs') c') as [_ K1].
      pose proof (cseq_all_sim_opt (f2 :: fs') (g2 :: gs') (req dS) d2 c' (Forall2_cons _ _ H2 Hs')) as K2.
      pose proof (sim_trans _ _ _ _ _ K2 K1) as K. clear K1 K2.
      destruct K as [K|K]; [rewrite K; left; reflexivity|].
      dres (cseq_all (opt_ (req dS)) (f2 :: fs') c'); dres (ch_seq (opt_ d2) (g2 :: gs') c'); simpl in K; try contradiction; try (apply proj1 in K); subst.
      * simpl. rewrite sim_prepend_r, !sim_bind_prepend_l. apply IH. lia.
      * simpl. cs_ok H11 f1 c E. fin.
      * fin.
      * fin.
    + simpl. cs_fail H11 f1 c E. simpl. cs_fail_r H1 Hrg g1 c E. fin.
    + simpl. cs_exc H1 g1 c E. fin.
    + left. reflexivity.
    + simpl. cs_err H1 g1 c E. fin.
Qed.

Lemma star_strict_B (H11 : cS f1 f1) (Hrf : crest f1) (Hrg : crest g1) fs gs (Hs : Forall2 cS fs gs) n1 n2 d1 d2 c : n1 <= n2 ->
  Sim false (dM d1) (dM d2) (ss_doc n1 f1 fs d1 c) (c_star_strict n2 (g1 :: gs) d2 c).
Proof.
  intros Hn. unfold ss_doc. rewrite c_star_strict_unfold, seq2_unfold. apply sim_guard. unfold Sim. rewrite flagf_ff, flagx_ff.
  rewrite c_star_unfold. apply css_loop_B; assumption.
Qed.
End StarStrict.

(* ================= list_tail< R, S > = seq< R, star_partial< S, R > >  ==  seq< list< R, S >, opt< S > >,
   list< R, S > = seq< R, star< S, R > > ================= *)
Section ListTail.
Variable C : cfg.
Definition c_star_partial (n : nat) (fs : list closure) : closure := c_node C n HStarPartial fs.
Definition lt_impl (n : nat) (fr fs : closure) : closure := c_seq C [fr; c_star_partial n [fs; fr]].
Definition lt_doc (n : nat) (gr gs : closure) : closure := c_seq C [c_seq C [gr; c_star C n (c_seq C [gs; gr])]; c_opt C gs].

Lemma sp2_step (fs fr : closure) n d c :
  star_loop (lcl [fs; fr]) (S n) d [0; 1] c =
  match bind (fs (req d) c) (fun c1 => bind (fr (req d) c1) ret) with
  | Res Ok c' evs => prepend evs (star_loop (lcl [fs; fr]) n d [0; 1] c')
  | Res Fail c' evs => Res Ok c' evs
  | x => x end.
Proof. reflexivity. Qed.
Lemma sim_bind_bind_ret_r bf bx x y k : sim bf bx x (bind (bind y ret) k) <-> sim bf bx x (bind y k).
Proof. dres y; simpl; try tauto. rewrite !sim_prepend_r. tauto. Qed.
Lemma sim_bind_bind_ret_l bf bx x y k : sim bf bx (bind (bind x ret) k) y <-> sim bf bx (bind x k) y.
Proof. dres x; simpl; try tauto. rewrite !sim_prepend_l. tauto. Qed.

Variables fr fs gr gs : closure.
Hypothesis Hr : cS fr gr.
Hypothesis Hs : cS fs gs.

Lemma lt_loop_A (Hcr : crest fr) (Hcs : crest fs) d1 dS dO : forall n1 n2, n1 <= n2 -> forall c,
  sim false false (star_loop (lcl [fs; fr]) n1 d1 [0; 1] c)
                  (bind (star_loop (lcl [c_seq C [gs; gr]]) n2 dS [0] c) (fun c2 => bind (c_opt C gs dO c2) ret)).
Proof.
  induction n1 as [|n1 IH]; intros n2 Hn c; [left; reflexivity|]. destruct n2 as [|n2]; [lia|].
  rewrite sp2_step, star_step, seq2_unfold. cbn [dM req opt_ guard].
  destruct (fs (req d1) c) as [[| |x] c1 evs| |] eqn:E.
  - cs_ok Hs gs c E. cbn [bind prepend].
    destruct (fr (req d1) c1) as [[| |x] c2 evs2| |] eqn:E2.
    + cs_ok Hr gr c1 E2. simpl. rewrite sim_prepend_l, !sim_bind_prepend_r. apply IH. lia.
    + pose proof (Hcr (req d1) c1 c2 evs2 eq_refl E2) as ->. cs_fail Hr gr c1 E2. simpl.
      rewrite c_opt_unfold2. cs_ok Hs gs c E. fin.
    + cs_exc Hr gr c1 E2. fin.
    + left. reflexivity.
    + cs_err Hr gr c1 E2. fin.
  - pose proof (Hcs (req d1) c c1 evs eq_refl E) as ->. cs_fail Hs gs c E. simpl.
    rewrite c_opt_unfold2. cs_fail_q Hs gs c E. fin.
  - cs_exc Hs gs c E. fin.
  - left. reflexivity.
  - cs_err Hs gs c E. fin.
Qed.

Lemma list_tail_A (Hcr : crest fr) (Hcs : crest fs) n1 n2 d1 d2 c : n1 <= n2 ->
  Sim false (dM d1) (dM d2) (lt_impl n1 fr fs d1 c) (lt_doc n2 gr gs d2 c).
Proof.
  intros Hn. unfold lt_impl, lt_doc. rewrite !seq2_unfold. apply sim_guard. unfold Sim. rewrite flagf_ff, flagx_ff.
  cbn [dM opt_]. rewrite guard_false.
  destruct (fr (opt_ d1) c) as [[| |x] c1 evs| |] eqn:E.
  - change (opt_ (opt_ d2)) with (opt_ d2). cs_ok Hr gr c E. simpl.
    rewrite sim_prepend_l, sim_bind_prepend_r, sim_bind_ret_l, sim_bind_bind_ret_r.
    rewrite c_star_unfold. change (c_star_partial n1 [fs; fr] (opt_ d1) c1) with (star_loop (lcl [fs; fr]) n1 (opt_ d1) [0; 1] c1).
    apply lt_loop_A; assumption.
  - change (opt_ (opt_ d2)) with (opt_ d2). cs_fail Hr gr c E. fin.
  - change (opt_ (opt_ d2)) with (opt_ d2). cs_exc Hr gr c E. fin.
  - left. reflexivity.
  - change (opt_ (opt_ d2)) with (opt_ d2). cs_err Hr gr c E. fin.
Qed.

Lemma lt_loop_B (Hss : cS fs fs) (Hcg : crest gr) d2 dS dO : forall n1 n2, n1 <= n2 -> forall c,
  sim false false (bind (star_loop (lcl [c_seq C [fs; fr]]) n1 dS [0] c) (fun c2 => bind (c_opt C fs dO c2) ret))
                  (star_loop (lcl [gs; gr]) n2 d2 [0; 1] c).
Proof.
  induction n1 as [|n1 IH]; intros n2 Hn c; [left; reflexivity|]. destruct n2 as [|n2]; [lia|].
  rewrite sp2_step, star_step, seq2_unfold. cbn [dM req opt_ guard].
  destruct (fs (opt_ (req dS)) c) as [[| |x] c1 evs| |] eqn:E.
  - cs_ok Hs gs c E. cbn [bind prepend].
    destruct (fr (opt_ (req dS)) c1) as [[| |x] c2 evs2| |] eqn:E2.
    + cs_ok Hr gr c1 E2. simpl. rewrite sim_prepend_r, !sim_bind_prepend_l. apply IH. lia.
    + cs_fail_r Hr Hcg gr c1 E2. simpl. rewrite c_opt_unfold2. cs_ok Hss fs c E. fin.
    + cs_exc Hr gr c1 E2. fin.
    + left. reflexivity.
    + cs_err Hr gr c1 E2. fin.
  - simpl. rewrite c_opt_unfold2.
    destruct (cS_fail _ _ _ (req dO) _ _ _ Hss E) as [cc [ev2 E3]]. rewrite E3. cs_fail_q Hs gs c E3. fin.
  - cs_exc Hs gs c E. fin.
  - left. reflexivity.
  - cs_err Hs gs c E. fin.
Qed.

Lemma list_tail_B (Hss : cS fs fs) (Hcg : crest gr) n1 n2 d1 d2 c : n1 <= n2 ->
  Sim false (dM d1) (dM d2) (lt_doc n1 fr fs d1 c) (lt_impl n2 gr gs d2 c).
Proof.
  intros Hn. unfold lt_impl, lt_doc. rewrite !seq2_unfold. apply sim_guard. unfold Sim. rewrite flagf_ff, flagx_ff.
  cbn [dM opt_]. rewrite guard_false. change (opt_ (opt_ d1)) with (opt_ d1).
  destruct (fr (opt_ d1) c) as [[| |x] c1 evs| |] eqn:E.
  - cs_ok Hr gr c E. simpl.
    rewrite sim_prepend_r, sim_bind_prepend_l, sim_bind_ret_r, sim_bind_bind_ret_l.
    rewrite c_star_unfold. change (c_star_partial n2 [gs; gr] (opt_ d2) c1) with (star_loop (lcl [gs; gr]) n2 (opt_ d2) [0; 1] c1).
    apply lt_loop_B; assumption.
  - cs_fail Hr gr c E. fin.
  - cs_exc Hr gr c E. fin.
  - left. reflexivity.
  - cs_err Hr gr c E. fin.
Qed.
End ListTail.
