(* ExtractC11.v — extraction of the C11 model: the analysis (Analyze.v) and the engine it is
   proved sound for (Engine.eval).  ExtrOcamlBasic only; numbers stay positive/N/Z/nat inductives. *)
From PegtlV Require Import Base Decode Grammar Engine Analyze AnalyzeSound.
From Coq Require Import Extraction ExtrOcamlBasic.
Extraction Language OCaml.
Extraction "c11_model.ml" problems analyze_root aentry roots table_shape_ok eval N.add N.mul.
