(* Properties_C08.v — C08: control hooks form a balanced, truthful protocol.  Theorems only.
   The protocol is the executable checker Hooks.run (a stack machine over the event log, which
   interleaves the hooks with the independent trace of every Control< Rule >::match invocation and
   its result).  Accepting a log with the stack restored means: every attempt sees start exactly
   once, then exactly one closing hook for the same rule and control, properly nested; the closing
   hook agrees with what the invocation returned (success <-> true, failure <-> false, unwind <->
   exception); apply/apply0 occur after the body and before the closing hook of their rule; raise
   only while a must<> / raise<> node (or a limit action) is the innermost attempt.
   Quantifiers: every table, configuration, mode, input, fuel; every outcome incl. exceptions thrown
   by must rules or by actions at any depth; controls with and without unwind(). *)
From PegtlV Require Import Base Decode Grammar Engine Hooks HookFacts HookCount.

Definition post_ok (C : cfg) (post_raise : rid -> bool) : Prop :=
  forall fam r n, acts C fam r = AKMatch (MLimitBytes n) \/ acts C fam r = AKMatch (MCheckBytes n) -> post_raise r = true.

(* general protocol: never a closing hook for the wrong rule, never start twice, never an action or a
   raise out of place, never a closing hook contradicting the result — for EVERY configuration
   (controls without unwind(), throwing actions, raising failure hooks included) *)
Theorem C08_protocol :
  forall G C post f d r c o c' evs, post_ok C post ->
    eval G C f d r c = Res o c' evs ->
    forall st, run false (raise_ok_of G C) post st evs = Some st.
Proof.
  intros G C post f d r c o c' evs Hp H.
  pose proof (eval_B false G C post Hp ltac:(discriminate) ltac:(discriminate) ltac:(discriminate) f d r c) as K.
  rewrite H in K. exact K.
Qed.
Print Assumptions C08_protocol.

(* strict protocol: with unwind() in every control family, no throwing Action<Rule>::apply/apply0 and
   no raising failure hook, EVERY attempt is closed by exactly one hook, truthfully — including
   attempts left by an exception (closed by unwind) *)
Theorem C08_strict :
  forall G C post f d r c o c' evs, post_ok C post ->
    (forall k, has_unwind C k = true) ->
    (forall fam r b e t, abeh C fam r b e <> AThrow t) ->
    (forall k r, raise_on_failure C k r = false) ->
    eval G C f d r c = Res o c' evs ->
    forall st, run true (raise_ok_of G C) post st evs = Some st.
Proof.
  intros G C post f d r c o c' evs Hp Hu Ht Hr H.
  pose proof (eval_B true G C post Hp (fun _ => Hu) (fun _ => Ht) (fun _ => Hr) f d r c) as K.
  rewrite H in K. exact K.
Qed.
Print Assumptions C08_strict.

(* the counters of the coverage facility: start = success + failure + unwind per rule and control *)
Theorem C08_coverage :
  forall G C post f d r c o c' evs, post_ok C post ->
    (forall k, has_unwind C k = true) ->
    (forall fam r b e t, abeh C fam r b e <> AThrow t) ->
    (forall k r, raise_on_failure C k r = false) ->
    eval G C f d r c = Res o c' evs ->
    forall k0 r0, count_hook HkStart k0 r0 evs =
                  count_hook HkSuccess k0 r0 evs + count_hook HkFailure k0 r0 evs + count_hook HkUnwind k0 r0 evs.
Proof.
  intros G C post f d r c o c' evs Hp Hu Ht Hr H k0 r0.
  apply (coverage_counters (raise_ok_of G C) post k0 r0 evs []).
  eapply C08_strict; eauto.
Qed.
Print Assumptions C08_coverage.

(* RECORDED FINDING (known_findings.json): a rule whose OWN action throws gets start but neither
   success, failure nor unwind — the unwind guard in match.hpp only spans Rule::match.
   seq< alpha-like one<'a'>, one<'1'> > with a throwing apply on one<'1'>, input "a1". *)
Definition fx_G : grammar :=
  [ mknode HSeq [1; 2]%nat true; mknode (HOne true PkChar [97%Z]) [] true; mknode (HOne true PkChar [49%Z]) [] true ].
Definition fx_C : cfg :=
  mkcfg EolLfCrlf (fun _ r => if Nat.eqb r 2 then AKApply false else AKNone)
        (fun _ _ _ _ => AThrow 1) (fun _ _ _ => ARet true) (fun _ => true) (fun _ _ => false).
Theorem C08_refuted_own_action_throws :
  exists evs c', eval fx_G fx_C 10 (mkdyn true false 0 0 0) 0%nat (mkcur [97; 49]%N pos0) = Res (Exc (EAct 1)) c' evs /\
    run true (raise_ok_of fx_G fx_C) (fun _ => false) [] evs = None /\
    count_hook HkStart 0 2 evs = 1%nat /\
    (count_hook HkSuccess 0 2 evs + count_hook HkFailure 0 2 evs + count_hook HkUnwind 0 2 evs = 0)%nat.
Proof. eexists. eexists. split; [vm_compute; reflexivity|]. vm_compute. auto. Qed.
Print Assumptions C08_refuted_own_action_throws.

(* non-vacuity of the strict theorem: same grammar, the exception comes from must<> instead, input "ab":
   hypotheses hold and all three open attempts are closed by unwind *)
Definition ex_G : grammar :=
  [ mknode HSeq [1; 2]%nat true; mknode (HOne true PkChar [97%Z]) [] true; mknode HMust [3]%nat true; mknode (HOne true PkChar [49%Z]) [] true ].
Definition ex_C : cfg := mkcfg EolLfCrlf (fun _ _ => AKApply false) (fun _ _ _ _ => ARet true) (fun _ _ _ => ARet true) (fun _ => true) (fun _ _ => false).
Example C08_example_strict :
  exists evs c' p, eval ex_G ex_C 10 (mkdyn true true 0 0 0) 0%nat (mkcur [97; 98]%N pos0) = Res (Exc (EParse (WRule 3) p)) c' evs /\
    run true (raise_ok_of ex_G ex_C) (fun _ => false) [] evs = Some [] /\ count_hook HkUnwind 0 0 evs = 1%nat /\ count_hook HkUnwind 0 2 evs = 1%nat.
Proof. eexists. eexists. eexists. split; [vm_compute; reflexivity|]. vm_compute. auto. Qed.
Print Assumptions C08_example_strict.
