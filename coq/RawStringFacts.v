(* RawStringFacts.v — proofs relating the model of raw_string.hpp (RawString.v) to the
   declarative long-bracket specification (RawStringSpec.v).  Property C16.

   Structure:
     1. list / cursor helpers
     2. eol_match (Engine.v) against eol_len (spec)
     3. raw_string_open against open_level
     4. at_raw_string_close against is_prefix (close_bracket ...)
     5. raw_string_until against find_first
     6. raw_string: normal form of the model, then exactness against long_bracket
     7. positions
     8. the variant with a Contents rule *)
From PegtlV Require Import Base Engine RawString RawStringSpec.
From Coq Require Import Lia.
Local Open Scope N_scope.

(* An input fits the address space: its size is a std::size_t.  (Needed because the model
   computes marker_size - 1 and marker_size - 2 modulo 2^64, as the C++ does.) *)
Definition fits (s : list byte) : Prop := N.of_nat (length s) < two64.

(* ------------------------------------------------------------------ 1. helpers *)
Lemma nth_error_app_len : forall (pre : list byte) b l, nth_error (pre ++ b :: l) (length pre) = Some b.
Proof. intros pre b l. induction pre as [|x pre IH]; cbn [length app nth_error]; [reflexivity | exact IH]. Qed.

Lemma drop_app_len : forall (pre l : list byte), drop (length pre) (pre ++ l) = Some l.
Proof. intros pre l. induction pre as [|x pre IH]; cbn [length app drop]; [reflexivity | exact IH]. Qed.

Lemma drop_skipn : forall n (l : list byte), (n <= length l)%nat -> drop n l = Some (skipn n l).
Proof.
  induction n as [|n IH]; intros l Hn; cbn [drop skipn]; [reflexivity|].
  destruct l as [|x l]; cbn [length] in Hn; [lia|]. apply IH. lia.
Qed.

Lemma skipn_cons_nth : forall i (l : list byte) b q,
  skipn i l = b :: q -> nth_error l i = Some b /\ skipn (S i) l = q.
Proof.
  induction i as [|i IH]; intros l b q H.
  - cbn [skipn] in H. subst l. split; reflexivity.
  - destruct l as [|x l]; [cbn [skipn] in H; discriminate H|].
    cbn [skipn] in H. apply IH in H. destruct H as [H1 H2]. split; [exact H1 | exact H2].
Qed.

Lemma skipn_lt_cons : forall i (l : list byte), (i < length l)%nat -> exists b q, skipn i l = b :: q.
Proof.
  induction i as [|i IH]; intros l Hi.
  - destruct l as [|x l]; cbn [length] in Hi; [lia|]. exists x, l. reflexivity.
  - destruct l as [|x l]; cbn [length] in Hi; [lia|]. cbn [skipn]. apply IH. lia.
Qed.

Lemma skipn_skipn_add : forall a b (l : list byte), skipn a (skipn b l) = skipn (b + a) l.
Proof.
  intros a. induction b as [|b IH]; intros l; [reflexivity|].
  destruct l as [|x l]; cbn [skipn Nat.add]; [destruct a; reflexivity | apply IH].
Qed.

Lemma is_prefix_length : forall p l, is_prefix p l = true -> (length p <= length l)%nat.
Proof.
  intros p l H. apply is_prefix_iff in H. destruct H as [tl H]. subst l. rewrite app_length. lia.
Qed.

Lemma is_prefix_app_split : forall a b l,
  is_prefix (a ++ b) l = is_prefix a l && is_prefix b (skipn (length a) l).
Proof.
  induction a as [|x a IH]; intros b l.
  - reflexivity.
  - destruct l as [|y l]; cbn [app is_prefix length skipn].
    + reflexivity.
    + rewrite IH. rewrite andb_assoc. reflexivity.
Qed.

(* the scanning bump as a total function (identity when it would leave the input) *)
Definition scan_to (ch : N) (j : nat) (cur : cursor) : cursor :=
  match bump_scan ch j cur with Some c' => c' | None => cur end.

Lemma bump_scan_some : forall ch j cur, (j <= length (rest cur))%nat ->
  exists c', bump_scan ch j cur = Some c' /\ rest c' = skipn j (rest cur) /\
             pbyte (cpos c') = pbyte (cpos cur) + N.of_nat j.
Proof.
  intros ch. induction j as [|j IH]; intros cur Hj.
  - exists cur. cbn [bump_scan skipn N.of_nat]. repeat split. lia.
  - cbn [bump_scan]. destruct (rest cur) as [|b tl] eqn:Hr; cbn [length] in Hj; [lia|].
    destruct (IH (mkcur tl (bump1_pos ch (cpos cur) b))) as [c' [H1 [H2 H3]]]; [cbn [rest]; lia|].
    exists c'. split; [exact H1|]. split; [exact H2|]. rewrite H3. cbn [cpos rest].
    unfold bump1_pos. destruct (b =? ch); cbn [pbyte]; lia.
Qed.

Lemma bump_scan_S : forall ch j cur b tl, rest cur = b :: tl ->
  bump_scan ch (S j) cur = bump_scan ch j (mkcur tl (bump1_pos ch (cpos cur) b)).
Proof. intros ch j cur b tl H. cbn [bump_scan]. rewrite H. reflexivity. Qed.

Lemma scan_to_S : forall ch j cur b tl, rest cur = b :: tl ->
  scan_to ch (S j) cur = scan_to ch j (mkcur tl (bump1_pos ch (cpos cur) b)) \/ (length tl < j)%nat.
Proof.
  intros ch j cur b tl H. unfold scan_to. rewrite (bump_scan_S ch j cur b tl H).
  destruct (Nat.le_gt_cases j (length tl)) as [Hle|Hgt]; [|right; exact Hgt].
  left. destruct (bump_scan_some ch j (mkcur tl (bump1_pos ch (cpos cur) b))) as [c' [H1 _]]; [exact Hle|].
  rewrite H1. reflexivity.
Qed.

Lemma scan_to_spec : forall ch j cur, (j <= length (rest cur))%nat ->
  bump_scan ch j cur = Some (scan_to ch j cur) /\ rest (scan_to ch j cur) = skipn j (rest cur) /\
  pbyte (cpos (scan_to ch j cur)) = pbyte (cpos cur) + N.of_nat j.
Proof.
  intros ch j cur Hj. destruct (bump_scan_some ch j cur Hj) as [c' [H1 [H2 H3]]].
  unfold scan_to. rewrite H1. repeat split; assumption.
Qed.

Lemma bump_scan_add : forall ch a b cur,
  bump_scan ch (a + b) cur = match bump_scan ch a cur with Some c' => bump_scan ch b c' | None => None end.
Proof.
  intros ch. induction a as [|a IH]; intros b cur.
  - reflexivity.
  - cbn [Nat.add bump_scan]. destruct (rest cur) as [|x tl]; [reflexivity|]. apply IH.
Qed.

(* bump_in_this_line as a total function *)
Definition in_line (n : nat) (cur : cursor) : cursor :=
  mkcur (skipn n (rest cur))
        (mkpos (pbyte (cpos cur) + N.of_nat n) (pline (cpos cur)) (pcol (cpos cur) + N.of_nat n)).

Lemma bump_in_line_spec : forall n cur, (n <= length (rest cur))%nat ->
  bump_in_line n cur = Some (in_line n cur).
Proof. intros n cur Hn. unfold bump_in_line, in_line. rewrite (drop_skipn n (rest cur) Hn). reflexivity. Qed.

(* ------------------------------------------------------------------ 2. eol_match *)
(* the cursor after `(void)eol::match( in )`, stated with the specification's eol_len *)
Definition after_eol (e : eolp) (c1 : cursor) : cursor :=
  match eol_len e (rest c1) with
  | O => c1
  | k => mkcur (skipn k (rest c1)) (mkpos (pbyte (cpos c1) + N.of_nat k) (pline (cpos c1) + 1) 1)
  end.

Lemma eol_match_spec : forall e c1, exists d z, eol_match e c1 = Some (d, z, after_eol e c1).
Proof.
  intros e [r p]. unfold eol_match, after_eol, in_size, peek_at, bump_next_line. cbn [rest cpos].
  destruct r as [|a [|b t]].
  - cbn. eexists; eexists; reflexivity.
  - cbn [length Nat.eqb nth_error eol_len Nat.ltb Nat.leb].
    destruct e; destruct (a =? 10); destruct (a =? 13); cbn [andb drop option_map skipn N.of_nat Pos.of_succ_nat];
      eexists; eexists; reflexivity.
  - cbn [length Nat.eqb nth_error eol_len Nat.ltb Nat.leb].
    destruct e; destruct (a =? 10); destruct (a =? 13); destruct (b =? 10);
      cbn [andb drop option_map skipn N.of_nat Pos.of_succ_nat Pos.succ];
      eexists; eexists; reflexivity.
Qed.

Lemma after_eol_rest : forall e c1, rest (after_eol e c1) = skipn (eol_len e (rest c1)) (rest c1).
Proof. intros e c1. unfold after_eol. destruct (eol_len e (rest c1)); reflexivity. Qed.

Lemma after_eol_byte : forall e c1,
  pbyte (cpos (after_eol e c1)) = pbyte (cpos c1) + N.of_nat (eol_len e (rest c1)).
Proof.
  intros e c1. unfold after_eol. destruct (eol_len e (rest c1)) eqn:E.
  - cbn [N.of_nat]. lia.
  - reflexivity.
Qed.

(* ------------------------------------------------------------------ 3. raw_string_open *)
Section Open.
Variables (o m : byte) (e : eolp).
Hypothesis Hom : o <> m.

(* the cursor after the opening bracket of marker_size ms and the optional line ending *)
Definition after_open (ms : nat) (cur : cursor) : cursor := after_eol e (in_line ms cur).

Lemma open_loop_spec : forall l pre fuel cur,
  rest cur = pre ++ l -> (length l < fuel)%nat ->
  open_loop o m e fuel (length pre) cur =
    match skipn (count_markers m l) l with
    | b2 :: _ => if b2 =? o then OOk (length pre + count_markers m l + 1) (after_open (length pre + count_markers m l + 1) cur)
                 else OFail
    | [] => OFail
    end.
Proof.
  induction l as [|b l IH]; intros pre fuel cur Hr Hf.
  - destruct fuel as [|f]; [cbn [length] in Hf; lia|].
    cbn [open_loop count_markers skipn]. unfold in_size. rewrite Hr, app_nil_r, Nat.ltb_irrefl. reflexivity.
  - destruct fuel as [|f]; [lia|]. cbn [length] in Hf.
    cbn [open_loop]. unfold in_size, peek_at. rewrite Hr.
    assert (Hlt : (length pre <? length (pre ++ b :: l))%nat = true).
    { apply Nat.ltb_lt. rewrite app_length. cbn [length]. lia. }
    rewrite Hlt, nth_error_app_len.
    cbn [count_markers].
    destruct (b =? o) eqn:Ebo.
    + apply N.eqb_eq in Ebo. subst b.
      assert (Emo : (o =? m) = false) by (apply N.eqb_neq; exact Hom).
      rewrite Emo. cbn [skipn]. rewrite N.eqb_refl.
      replace (length pre + 0 + 1)%nat with (S (length pre)) by lia.
      assert (Hb : bump_in_line (S (length pre)) cur = Some (in_line (S (length pre)) cur)).
      { apply bump_in_line_spec. rewrite Hr, app_length. cbn [length]. lia. }
      rewrite Hb. destruct (eol_match_spec e (in_line (S (length pre)) cur)) as [d [z Hz]].
      rewrite Hz. reflexivity.
    + destruct (b =? m) eqn:Ebm.
      * cbn [skipn].
        assert (Hr' : rest cur = (pre ++ [b]) ++ l) by (rewrite <- app_assoc; exact Hr).
        specialize (IH (pre ++ [b]) f cur Hr' ltac:(lia)).
        rewrite app_length in IH. cbn [length] in IH.
        replace (length pre + 1)%nat with (S (length pre)) in IH by lia.
        rewrite IH.
        replace (S (length pre) + count_markers m l + 1)%nat with (length pre + S (count_markers m l) + 1)%nat by lia.
        reflexivity.
      * cbn [skipn]. rewrite Ebo. reflexivity.
Qed.

Lemma raw_string_open_spec : forall cur,
  raw_string_open o m e cur =
    match open_level o m (rest cur) with
    | Some (n, _) => OOk (n + 2) (after_open (n + 2) cur)
    | None => OFail
    end.
Proof.
  intros cur. unfold raw_string_open, open_level, in_empty, peek_at.
  destruct (rest cur) as [|b t] eqn:Hr; [reflexivity|].
  cbn [nth_error]. destruct (b =? o) eqn:Ebo; cbn [negb]; [|reflexivity].
  assert (Hr' : rest cur = [b] ++ t) by exact Hr.
  pose proof (open_loop_spec t [b] (in_size cur) cur Hr') as H.
  cbn [length] in H. rewrite H; [|unfold in_size; rewrite Hr; cbn [length]; lia].
  destruct (skipn (count_markers m t) t) as [|b2 aft]; [reflexivity|].
  destruct (b2 =? o); [|reflexivity].
  replace (1 + count_markers m t + 1)%nat with (count_markers m t + 2)%nat by lia. reflexivity.
Qed.

Lemma after_open_rest : forall n after cur,
  rest cur = open_bracket o m n ++ after ->
  rest (after_open (n + 2) cur) = skipn (eol_len e after) after /\
  pbyte (cpos (after_open (n + 2) cur)) = pbyte (cpos cur) + N.of_nat (n + 2 + eol_len e after).
Proof.
  intros n after cur Hr. unfold after_open.
  assert (Hin : rest (in_line (n + 2) cur) = after).
  { unfold in_line. cbn [rest]. rewrite Hr. rewrite <- (open_bracket_length o m n). apply skipn_length_app. }
  rewrite after_eol_rest, after_eol_byte, Hin. split; [reflexivity|].
  unfold in_line. cbn [cpos pbyte]. lia.
Qed.
End Open.

(* ------------------------------------------------------------------ 4. at_raw_string_close *)
Section Close.
Variables (m c : byte).

Lemma two64_pos : 2 <= two64.
Proof. unfold two64. lia. Qed.

Lemma sz_sub_small : forall a b, b <= a -> a < two64 -> sz_sub a b = a - b.
Proof.
  intros a b Hba Ha. unfold sz_sub.
  replace (a + two64 - b) with ((a - b) + 1 * two64) by lia.
  rewrite N.mod_add by (unfold two64; lia).
  apply N.mod_small. lia.
Qed.

Lemma peekN_nat : forall cur i, peekN cur (N.of_nat i) = nth_error (rest cur) i.
Proof.
  intros cur i. unfold peekN, peek_at, in_size. rewrite Nnat.Nat2N.id.
  destruct (N.of_nat i <? N.of_nat (length (rest cur))) eqn:E; [reflexivity|].
  apply N.ltb_ge in E. symmetry. apply nth_error_None. lia.
Qed.

(* the marker loop: positions i+1 .. n hold Marker *)
Lemma close_loop_spec : forall d i n fuel cur,
  (i + d = n)%nat -> (d < fuel)%nat -> (n + 1 < length (rest cur))%nat ->
  close_loop m fuel (N.of_nat i) (N.of_nat n) cur =
    if is_prefix (repeat m d) (skipn (S i) (rest cur)) then CYes else CNo.
Proof.
  induction d as [|d IH]; intros i n fuel cur Hid Hf Hlen.
  - destruct fuel as [|f]; [lia|]. cbn [close_loop repeat is_prefix].
    assert (E : (N.of_nat i <? N.of_nat n) = false) by (apply N.ltb_ge; lia).
    rewrite E. reflexivity.
  - destruct fuel as [|f]; [lia|]. cbn [close_loop].
    assert (E : (N.of_nat i <? N.of_nat n) = true) by (apply N.ltb_lt; lia).
    rewrite E.
    replace (N.of_nat i + 1) with (N.of_nat (S i)) by lia.
    rewrite peekN_nat.
    destruct (skipn_lt_cons (S i) (rest cur)) as [b [q Hq]]; [lia|].
    destruct (skipn_cons_nth _ _ _ _ Hq) as [Hnth Hq'].
    rewrite Hnth, Hq. cbn [repeat is_prefix].
    rewrite (N.eqb_sym m b).
    destruct (b =? m) eqn:Eb; cbn [negb andb]; [|reflexivity].
    rewrite (IH (S i) n f cur); [|lia|lia|exact Hlen].
    rewrite Hq'. reflexivity.
Qed.

Lemma at_close_spec : forall n cur, fits (rest cur) ->
  at_raw_string_close m c (n + 2) cur =
    if is_prefix (close_bracket c m n) (rest cur) then CYes else CNo.
Proof.
  intros n cur Hfit. unfold at_raw_string_close, in_size.
  destruct (length (rest cur) <? n + 2)%nat eqn:Hsz.
  - apply Nat.ltb_lt in Hsz.
    destruct (is_prefix (close_bracket c m n) (rest cur)) eqn:Hp; [|reflexivity].
    apply is_prefix_length in Hp. rewrite close_bracket_length in Hp. lia.
  - apply Nat.ltb_ge in Hsz. unfold fits in Hfit.
    change 0 with (N.of_nat 0). rewrite peekN_nat.
    destruct (rest cur) as [|b0 r1] eqn:Hr; [cbn [length] in Hsz; lia|].
    cbn [nth_error length] in *.
    unfold close_bracket. cbn [is_prefix]. rewrite (N.eqb_sym c b0).
    destruct (b0 =? c) eqn:E0; cbn [negb andb]; [|reflexivity].
    rewrite sz_sub_small by lia.
    replace (N.of_nat (n + 2) - 1) with (N.of_nat (S n)) by lia.
    rewrite peekN_nat. rewrite Hr. cbn [nth_error].
    rewrite is_prefix_app_split, repeat_length.
    destruct (skipn_lt_cons n r1) as [b1 [q Hq]]; [lia|].
    destruct (skipn_cons_nth _ _ _ _ Hq) as [Hnth _].
    rewrite Hnth, Hq. cbn [is_prefix]. rewrite (N.eqb_sym c b1), andb_true_r.
    destruct (b1 =? c) eqn:E1; cbn [negb]; [|rewrite andb_false_r; reflexivity].
    rewrite andb_true_r.
    rewrite sz_sub_small by lia.
    replace (N.of_nat (n + 2) - 2) with (N.of_nat n) by lia.
    change (N.of_nat 0) with (N.of_nat 0%nat).
    rewrite (close_loop_spec n 0 n); [|lia|cbn [length]; lia|rewrite Hr; cbn [length]; lia].
    rewrite Hr. cbn [skipn]. reflexivity.
Qed.
End Close.

(* ------------------------------------------------------------------ 5. raw_string_until (no Contents) *)
Section Until.
Variables (m c : byte) (e : eolp).

Lemma fits_tail : forall b (tl : list byte), fits (b :: tl) -> fits tl.
Proof. intros b tl H. unfold fits in *. cbn [length] in H. lia. Qed.

Lemma fits_skipn : forall k (l : list byte), fits l -> fits (skipn k l).
Proof. intros k l H. unfold fits in *. rewrite skipn_length. lia. Qed.

Lemma until_loop_spec : forall n l cur fuel,
  rest cur = l -> fits l -> (length l < fuel)%nat ->
  until_loop m c e fuel (n + 2) cur =
    match find_first (close_bracket c m n) l with
    | Some j => UOk (scan_to (eol_ch e) j cur)
    | None => UFail (scan_to (eol_ch e) (length l) cur)
    end.
Proof.
  intros n. induction l as [|b tl IH]; intros cur fuel Hr Hfit Hf.
  - destruct fuel as [|f]; [cbn [length] in Hf; lia|].
    cbn [until_loop find_first]. rewrite at_close_spec by (rewrite Hr; exact Hfit). rewrite Hr.
    destruct (is_prefix (close_bracket c m n) []); [reflexivity|].
    unfold in_empty. rewrite Hr. reflexivity.
  - destruct fuel as [|f]; [lia|]. cbn [length] in Hf.
    cbn [until_loop find_first]. rewrite at_close_spec by (rewrite Hr; exact Hfit). rewrite Hr.
    destruct (is_prefix (close_bracket c m n) (b :: tl)) eqn:Hp; [reflexivity|].
    unfold in_empty. rewrite Hr.
    rewrite (bump_scan_S (eol_ch e) 0 cur b tl Hr). cbn [bump_scan].
    set (c' := mkcur tl (bump1_pos (eol_ch e) (cpos cur) b)).
    rewrite (IH c' f eq_refl (fits_tail _ _ Hfit) ltac:(lia)).
    destruct (find_first (close_bracket c m n) tl) as [j|] eqn:Hff; cbn [option_map].
    + apply find_first_some in Hff. destruct Hff as [Hj _].
      destruct (scan_to_S (eol_ch e) j cur b tl Hr) as [H|H]; [|lia]. rewrite H. reflexivity.
    + destruct (scan_to_S (eol_ch e) (length tl) cur b tl Hr) as [H|H]; [|lia]. cbn [length]. rewrite H. reflexivity.
Qed.

Lemma raw_string_until_spec : forall n required cur,
  fits (rest cur) ->
  raw_string_until m c e required (n + 2) cur =
    match find_first (close_bracket c m n) (rest cur) with
    | Some j => UOk (scan_to (eol_ch e) j cur)
    | None => UFail (if required then cur else scan_to (eol_ch e) (length (rest cur)) cur)
    end.
Proof.
  intros n required cur Hfit. unfold raw_string_until.
  rewrite (until_loop_spec n (rest cur) cur (S (in_size cur)) eq_refl Hfit) by (unfold in_size; lia).
  destruct (find_first (close_bracket c m n) (rest cur)); reflexivity.
Qed.
End Until.

(* ------------------------------------------------------------------ 6. raw_string *)
Section Whole.
Variables (o m c : byte) (e : eolp).
Hypothesis Hom : o <> m.

(* Normal form of the model: what raw_string computes, in terms of the specification's
   building blocks applied in the model's order (line ending first, then search). *)
Lemma raw_string_nf : forall has_apply required cur,
  fits (rest cur) ->
  raw_string o m c e has_apply required cur =
    match open_level o m (rest cur) with
    | None => RsFail cur
    | Some (n, _) =>
      let c1 := after_open e (n + 2) cur in
      match find_first (close_bracket c m n) (rest c1) with
      | Some j => RsOk (in_line (n + 2) (scan_to (eol_ch e) j c1)) c1 (scan_to (eol_ch e) j c1)
      | None => RsFail (if required then cur
                        else if has_apply then c1
                        else scan_to (eol_ch e) (length (rest c1)) c1)
      end
    end.
Proof.
  intros has_apply required cur Hfit. unfold raw_string, raw_string_gen.
  rewrite (raw_string_open_spec o m e Hom).
  destruct (open_level o m (rest cur)) as [[n after]|] eqn:Hop; [|reflexivity].
  apply (open_level_iff o m _ _ _ Hom) in Hop.
  destruct (after_open_rest o m e Hom n after cur Hop) as [Hrest1 _].
  set (c1 := after_open e (n + 2) cur) in *.
  assert (Hfit1 : fits (rest c1)).
  { rewrite Hrest1. apply fits_skipn. unfold fits in *. rewrite Hop, app_length in Hfit. lia. }
  unfold content_match. rewrite (raw_string_until_spec m c e n _ c1 Hfit1).
  cbv zeta.
  destruct (find_first (close_bracket c m n) (rest c1)) as [j|] eqn:Hff.
  - cbn [rs_guard].
    apply find_first_some in Hff. destruct Hff as [Hj [Hp _]].
    destruct (scan_to_spec (eol_ch e) j c1 Hj) as [_ [Hr2 _]].
    rewrite bump_in_line_spec; [reflexivity|].
    rewrite Hr2. apply is_prefix_length in Hp. rewrite close_bracket_length in Hp. exact Hp.
  - destruct has_apply; destruct required; reflexivity.
Qed.

(* ---- relating "line ending first, then search" to "search, then strip" ---- *)
Definition close_not_eol (cc : byte) : Prop :=
  match e with
  | EolLf => cc <> 10
  | EolCr => cc <> 13
  | _ => cc <> 10 /\ cc <> 13
  end.

Lemma find_first_skip : forall p k l,
  (k <= length l)%nat ->
  (forall j', (j' < k)%nat -> is_prefix p (skipn j' l) = false) ->
  find_first p l = option_map (Nat.add k) (find_first p (skipn k l)).
Proof.
  intros p. induction k as [|k IH]; intros l Hk Hno.
  - cbn [skipn]. destruct (find_first p l); reflexivity.
  - destruct l as [|b tl]; [cbn [length] in Hk; lia|].
    cbn [find_first skipn]. pose proof (Hno O ltac:(lia)) as H0. cbn [skipn] in H0. rewrite H0.
    rewrite (IH tl); [|cbn [length] in Hk; lia|].
    + destruct (find_first p (skipn k tl)); reflexivity.
    + intros j' Hj'. apply (Hno (S j')). lia.
Qed.

Lemma eol_bytes_no_close : forall n l j',
  close_not_eol c -> (j' < eol_len e l)%nat -> is_prefix (close_bracket c m n) (skipn j' l) = false.
Proof.
  intros n l j' Hc Hj'. unfold close_not_eol in Hc. unfold close_bracket.
  destruct l as [|a [|b t]]; cbn [eol_len] in Hj'; [lia | |].
  - destruct e; destruct (a =? 10) eqn:E10; destruct (a =? 13) eqn:E13; cbn [andb] in Hj';
      try lia; eqb_cases;
      (destruct j' as [|j']; [|lia]); cbn [skipn is_prefix];
      (destruct (c =? _) eqn:Ec; [eqb_cases; exfalso; tauto | reflexivity]).
  - destruct e; destruct (a =? 10) eqn:E10; destruct (a =? 13) eqn:E13; destruct (b =? 10) eqn:Eb; cbn [andb] in Hj';
      try lia; eqb_cases;
      (destruct j' as [|[|j']]; [| |lia]); cbn [skipn is_prefix]; try lia;
      (destruct (c =? _) eqn:Ec; [eqb_cases; exfalso; tauto | reflexivity]).
Qed.

Lemma eol_len_firstn : forall l j, (eol_len e l <= j)%nat -> eol_len e (firstn j l) = eol_len e l.
Proof.
  intros l j Hj.
  destruct l as [|a [|b t]]; [destruct j; reflexivity | |].
  - destruct j as [|j]; cbn [firstn]; [|destruct j; reflexivity].
    cbn [eol_len] in *. destruct e; destruct (a =? 10); destruct (a =? 13); cbn [andb] in *; try reflexivity; lia.
  - destruct j as [|[|j]]; cbn [firstn]; [| |reflexivity].
    + cbn [eol_len] in *. destruct e; destruct (a =? 10); destruct (a =? 13); destruct (b =? 10); cbn [andb] in *; try reflexivity; lia.
    + cbn [eol_len] in *. destruct e; destruct (a =? 10); destruct (a =? 13); destruct (b =? 10); cbn [andb] in *; try reflexivity; lia.
Qed.

(* ---- exactness ---- *)
(* What the model returns, as data: result, final cursor, content begin / end cursors. *)
Definition consumed_is (cur fin : cursor) (total : nat) : Prop :=
  rest fin = skipn total (rest cur) /\ pbyte (cpos fin) = pbyte (cpos cur) + N.of_nat total.

Theorem raw_string_exact : forall has_apply cur,
  fits (rest cur) -> close_not_eol c ->
  match long_bracket o m c e (rest cur) with
  | Some (cb, ce, total) =>
      exists fin cbc cec,
        raw_string o m c e has_apply true cur = RsOk fin cbc cec /\
        consumed_is cur fin total /\ consumed_is cur cbc cb /\ consumed_is cur cec ce /\
        (cb <= ce)%nat /\ (ce <= total)%nat /\ (total <= length (rest cur))%nat
  | None => raw_string o m c e has_apply true cur = RsFail cur
  end.
Proof.
  intros has_apply cur Hfit Hc.
  rewrite (raw_string_nf has_apply true cur Hfit). unfold long_bracket.
  destruct (open_level o m (rest cur)) as [[n after]|] eqn:Hop; [|reflexivity].
  apply (open_level_iff o m _ _ _ Hom) in Hop.
  destruct (after_open_rest o m e Hom n after cur Hop) as [Hrest1 Hbyte1].
  cbv zeta. set (c1 := after_open e (n + 2) cur) in *.
  set (k := eol_len e after) in *.
  assert (Hk : (k <= length after)%nat) by apply eol_len_le.
  rewrite (find_first_skip (close_bracket c m n) k after Hk)
    by (intros j' Hj'; apply eol_bytes_no_close; assumption).
  rewrite Hrest1.
  destruct (find_first (close_bracket c m n) (skipn k after)) as [j|] eqn:Hff; cbn [option_map]; [|reflexivity].
  apply find_first_some in Hff. destruct Hff as [Hj [Hp _]].
  rewrite skipn_length in Hj.
  rewrite (eol_len_firstn after (k + j)) by (fold k; lia). fold k.
  assert (Hj1 : (j <= length (rest c1))%nat) by (rewrite Hrest1, skipn_length; lia).
  destruct (scan_to_spec (eol_ch e) j c1 Hj1) as [_ [Hr2 Hb2]].
  set (c2 := scan_to (eol_ch e) j c1) in *.
  apply is_prefix_length in Hp. rewrite close_bracket_length, skipn_length, skipn_length in Hp.
  assert (Hlen : length (rest cur) = (n + 2 + length after)%nat).
  { rewrite Hop, app_length, open_bracket_length. reflexivity. }
  assert (Hsk : forall x, skipn (n + 2 + x) (rest cur) = skipn x after).
  { intros x. rewrite Hop. rewrite <- (open_bracket_length o m n).
    rewrite skipn_app, skipn_all2 by lia.
    replace (length (open_bracket o m n) + x - length (open_bracket o m n))%nat with x by lia. reflexivity. }
  exists (in_line (n + 2) c2), c1, c2.
  split; [reflexivity|].
  unfold consumed_is.
  split; [|split; [|split]].
  - unfold in_line. cbn [rest cpos pbyte]. rewrite Hr2, Hrest1, Hb2, Hbyte1. fold k.
    split; [|lia].
    replace (n + 2 + (k + j) + n + 2)%nat with (n + 2 + (k + j + (n + 2)))%nat by lia.
    rewrite Hsk. rewrite !skipn_skipn_add. f_equal; lia.
  - rewrite Hrest1, Hbyte1. fold k. split; [|reflexivity]. rewrite Hsk. reflexivity.
  - rewrite Hr2, Hrest1, Hb2, Hbyte1. fold k. split; [|lia].
    rewrite Hsk. rewrite skipn_skipn_add. f_equal; lia.
  - lia.
Qed.
End Whole.

(* ------------------------------------------------------------------ 6b. consequences of exactness *)
Section Consequences.
Variables (o m c : byte) (e : eolp).
Hypothesis Hom : o <> m.

Lemma consumed_is_inj : forall cur fin t1 t2, consumed_is cur fin t1 -> consumed_is cur fin t2 -> t1 = t2.
Proof. intros cur fin t1 t2 [_ H1] [_ H2]. lia. Qed.

(* Ok consuming `total` bytes iff the specification yields a literal of `total` bytes *)
Theorem raw_string_ok_iff : forall has_apply cur total,
  fits (rest cur) -> close_not_eol e c ->
  ((exists fin cbc cec, raw_string o m c e has_apply true cur = RsOk fin cbc cec /\ consumed_is cur fin total)
   <-> exists cb ce, long_bracket o m c e (rest cur) = Some (cb, ce, total)).
Proof.
  intros has_apply cur total Hfit Hc.
  pose proof (raw_string_exact o m c e Hom has_apply cur Hfit Hc) as H.
  destruct (long_bracket o m c e (rest cur)) as [[[cb ce] total']|]; split.
  - intros [fin [cbc [cec [Hrs Hcons]]]].
    destruct H as [fin' [cbc' [cec' [Hrs' [Hcons' _]]]]].
    rewrite Hrs in Hrs'. injection Hrs' as -> -> ->.
    rewrite (consumed_is_inj _ _ _ _ Hcons Hcons'). exists cb, ce. reflexivity.
  - intros [cb' [ce' Heq]]. injection Heq as -> -> ->.
    destruct H as [fin [cbc [cec [Hrs [Hcons _]]]]]. exists fin, cbc, cec. split; assumption.
  - intros [fin [cbc [cec [Hrs _]]]]. rewrite Hrs in H. discriminate H.
  - intros [cb [ce Heq]]. discriminate Heq.
Qed.

(* Fail iff the specification has no literal; and then the cursor is unchanged *)
Theorem raw_string_fail_iff : forall has_apply cur,
  fits (rest cur) -> close_not_eol e c ->
  (raw_string o m c e has_apply true cur = RsFail cur <-> long_bracket o m c e (rest cur) = None).
Proof.
  intros has_apply cur Hfit Hc.
  pose proof (raw_string_exact o m c e Hom has_apply cur Hfit Hc) as H.
  destruct (long_bracket o m c e (rest cur)) as [[[cb ce] total']|]; split.
  - intro Hf. destruct H as [fin [cbc [cec [Hrs _]]]]. rewrite Hf in Hrs. discriminate Hrs.
  - intro Hn. discriminate Hn.
  - reflexivity.
  - intros _. exact H.
Qed.

(* the model never reads or bumps outside the input, and its loops never run out of fuel *)
Theorem raw_string_never_oob : forall has_apply required cur,
  fits (rest cur) ->
  raw_string o m c e has_apply required cur <> RsOob /\ raw_string o m c e has_apply required cur <> RsOof.
Proof.
  intros has_apply required cur Hfit. rewrite (raw_string_nf o m c e Hom has_apply required cur Hfit).
  destruct (open_level o m (rest cur)) as [[n after]|]; [|split; discriminate].
  cbv zeta. destruct (find_first _ _); split; discriminate.
Qed.

(* the content action fires only inside a successful match: in the model a result carries the
   content span exactly when it is RsOk — stated as: content span ordered inside the consumed text *)
(* brackets of other levels inside the text are ignored *)
Theorem other_levels_ignored : forall has_apply cur n T tail,
  fits (rest cur) -> close_not_eol e c ->
  rest cur = open_bracket o m n ++ T ++ close_bracket c m n ++ tail ->
  (forall j, (j < length T)%nat -> ~ prefix_of (close_bracket c m n) (skipn j (T ++ close_bracket c m n ++ tail))) ->
  exists fin cbc cec,
    raw_string o m c e has_apply true cur = RsOk fin cbc cec /\
    consumed_is cur fin (n + 2 + length T + n + 2) /\
    consumed_is cur cbc (n + 2 + eol_len e T) /\
    consumed_is cur cec (n + 2 + length T).
Proof.
  intros has_apply cur n T tail Hfit Hc Hr Hno.
  assert (HLB : LongBracket o m c e (rest cur) (n + 2 + eol_len e T) (n + 2 + length T) (n + 2 + length T + n + 2)).
  { pose proof (eol_len_le e T) as Hk.
    exists n, (firstn (eol_len e T) T), (skipn (eol_len e T) T), tail.
    rewrite firstn_skipn. split; [exact Hr|]. split; [apply eol_len_spec; reflexivity|].
    split; [exact Hno|]. rewrite firstn_length, skipn_length. lia. }
  apply (long_bracket_iff o m c e _ _ _ _ Hom) in HLB.
  pose proof (raw_string_exact o m c e Hom has_apply cur Hfit Hc) as H. rewrite HLB in H.
  destruct H as [fin [cbc [cec [Hrs [H1 [H2 [H3 _]]]]]]].
  exists fin, cbc, cec. repeat split; try assumption; apply H1 || apply H2 || apply H3.
Qed.

End Consequences.

(* a closing bracket of another level is not a closing bracket of level n *)
Lemma other_level_close : forall (m c : byte) n n' tl, c <> m -> n <> n' ->
  is_prefix (close_bracket c m n) (close_bracket c m n' ++ tl) = false.
Proof.
  intros m c n n' tl Hcm Hnn. unfold close_bracket. cbn [app is_prefix]. rewrite N.eqb_refl. cbn [andb].
  rewrite <- app_assoc. cbn [app].
  revert n' Hnn. induction n as [|n IH]; intros n' Hnn.
  - destruct n' as [|n']; [contradiction|]. cbn [repeat app is_prefix].
    assert (E : (c =? m) = false) by (apply N.eqb_neq; exact Hcm). rewrite E. reflexivity.
  - destruct n' as [|n']; cbn [repeat app is_prefix].
    + assert (E : (m =? c) = false) by (apply N.eqb_neq; congruence). rewrite E. reflexivity.
    + rewrite N.eqb_refl. cbn [andb]. apply IH. lia.
Qed.

(* local failure never leaves input consumed in rewind_mode::required — for every variant
   (any Contents rule, any fuel): the guard of raw_string::match restores the cursor *)
Theorem raw_string_gen_fail_unconsumed : forall o m e until has_apply cur c',
  raw_string_gen o m e until has_apply true cur = RsFail c' -> c' = cur.
Proof.
  intros o m e until has_apply cur c'. unfold raw_string_gen.
  destruct (raw_string_open o m e cur) as [ms c1| | |]; try discriminate.
  - destruct (content_match until has_apply false ms c1) as [c2|c2| |]; try discriminate.
    + destruct (bump_in_line ms c2); discriminate.
    + intro H. injection H as H. symmetry. exact H.
  - intro H. injection H as H. symmetry. exact H.
Qed.

(* ------------------------------------------------------------------ 7. positions *)
Section Positions.
Variables (o m c : byte) (e : eolp).
Hypothesis Hom : o <> m.

Lemma bump_scan_no_eol : forall ch pre l cur,
  rest cur = pre ++ l -> Forall (fun b => b <> ch) pre ->
  bump_scan ch (length pre) cur = Some (in_line (length pre) cur).
Proof.
  intros ch. induction pre as [|b pre IH]; intros l cur Hr Hall.
  - cbn [length bump_scan]. unfold in_line. cbn [skipn N.of_nat]. rewrite !N.add_0_r.
    destruct cur as [r [pb pl pc]]. reflexivity.
  - cbn [length]. rewrite (bump_scan_S ch (length pre) cur b (pre ++ l) Hr).
    inversion Hall as [|b' pre' Hb Hpre]; subst.
    rewrite (IH l (mkcur (pre ++ l) (bump1_pos ch (cpos cur) b)) eq_refl Hpre).
    unfold in_line, bump1_pos. assert (E : (b =? ch) = false) by (apply N.eqb_neq; exact Hb). rewrite E.
    cbn [rest cpos pbyte pline pcol]. rewrite Hr. cbn [skipn app].
    f_equal. f_equal. f_equal; lia.
Qed.

Lemma bracket_no_eol : forall (ch x y : byte) n, x <> ch -> y <> ch -> Forall (fun b => b <> ch) (x :: repeat y n ++ [x]).
Proof.
  intros ch x y n Hx Hy. constructor; [exact Hx|]. apply Forall_app. split.
  - apply Forall_forall. intros b Hb. apply repeat_spec in Hb. subst b. exact Hy.
  - constructor; [exact Hx | constructor].
Qed.

Lemma eol_scan : forall c0, e <> EolCrCrlf ->
  bump_scan (eol_ch e) (eol_len e (rest c0)) c0 = Some (after_eol e c0).
Proof.
  intros [r [pb pl pc]] He. unfold after_eol. cbn [rest cpos].
  destruct r as [|a [|b t]].
  - reflexivity.
  - cbn [eol_len].
    destruct e; try contradiction; destruct (a =? 10) eqn:E10; destruct (a =? 13) eqn:E13; cbn [andb]; try reflexivity;
      eqb_cases; try lia; cbn [bump_scan rest cpos eol_ch]; unfold bump1_pos; cbn [N.eqb Pos.eqb pbyte pline pcol skipn N.of_nat Pos.of_succ_nat];
      reflexivity.
  - cbn [eol_len].
    destruct e; try contradiction; destruct (a =? 10) eqn:E10; destruct (a =? 13) eqn:E13; destruct (b =? 10) eqn:Eb; cbn [andb]; try reflexivity;
      eqb_cases; try lia; cbn [bump_scan rest cpos eol_ch]; unfold bump1_pos; cbn [N.eqb Pos.eqb pbyte pline pcol skipn N.of_nat Pos.of_succ_nat Pos.succ];
      try reflexivity; (f_equal; f_equal; f_equal; lia).
Qed.

(* With brackets and markers that are not the policy's eol character, and for every policy but
   cr_crlf, the final position and both ends of the content span are exactly what the scanning
   bump of internal/bump.hpp computes over the consumed prefix. *)
Theorem raw_string_positions : forall has_apply required cur fin cbc cec,
  fits (rest cur) ->
  o <> eol_ch e -> m <> eol_ch e -> c <> eol_ch e -> e <> EolCrCrlf ->
  raw_string o m c e has_apply required cur = RsOk fin cbc cec ->
  bump_scan (eol_ch e) (N.to_nat (pbyte (cpos fin) - pbyte (cpos cur))) cur = Some fin /\
  bump_scan (eol_ch e) (N.to_nat (pbyte (cpos cbc) - pbyte (cpos cur))) cur = Some cbc /\
  bump_scan (eol_ch e) (N.to_nat (pbyte (cpos cec) - pbyte (cpos cur))) cur = Some cec.
Proof.
  intros has_apply required cur fin cbc cec Hfit Ho Hm Hc He.
  rewrite (raw_string_nf o m c e Hom has_apply required cur Hfit).
  destruct (open_level o m (rest cur)) as [[n after]|] eqn:Hop; [|discriminate].
  apply (open_level_iff o m _ _ _ Hom) in Hop.
  destruct (after_open_rest o m e Hom n after cur Hop) as [Hrest1 Hbyte1].
  cbv zeta. set (c1 := after_open e (n + 2) cur) in *.
  destruct (find_first (close_bracket c m n) (rest c1)) as [j|] eqn:Hff; [|discriminate].
  intro H. injection H as Hfin Hcbc Hcec.
  apply find_first_some in Hff. destruct Hff as [Hj [Hp _]].
  destruct (scan_to_spec (eol_ch e) j c1 Hj) as [Hs2 [Hr2 Hb2]].
  set (c2 := scan_to (eol_ch e) j c1) in *.
  (* A: the opening bracket *)
  assert (HA : bump_scan (eol_ch e) (n + 2) cur = Some (in_line (n + 2) cur)).
  { rewrite <- (open_bracket_length o m n).
    apply (bump_scan_no_eol (eol_ch e) (open_bracket o m n) after cur Hop).
    apply bracket_no_eol; assumption. }
  (* B: the optional line ending *)
  assert (Hin : rest (in_line (n + 2) cur) = after).
  { unfold in_line. cbn [rest]. rewrite Hop. rewrite <- (open_bracket_length o m n). apply skipn_length_app. }
  assert (HB : bump_scan (eol_ch e) (eol_len e after) (in_line (n + 2) cur) = Some c1).
  { rewrite <- Hin. apply eol_scan. exact He. }
  (* D: the closing bracket *)
  apply is_prefix_iff in Hp. destruct Hp as [tl Htl]. rewrite <- Hr2 in Htl.
  assert (HD : bump_scan (eol_ch e) (n + 2) c2 = Some (in_line (n + 2) c2)).
  { rewrite <- (close_bracket_length c m n).
    apply (bump_scan_no_eol (eol_ch e) (close_bracket c m n) tl c2 Htl).
    apply bracket_no_eol; assumption. }
  assert (Hcb : bump_scan (eol_ch e) (n + 2 + eol_len e after) cur = Some c1).
  { rewrite bump_scan_add, HA. exact HB. }
  assert (Hce : bump_scan (eol_ch e) (n + 2 + eol_len e after + j) cur = Some c2).
  { rewrite bump_scan_add, Hcb. exact Hs2. }
  assert (Hf : bump_scan (eol_ch e) (n + 2 + eol_len e after + j + (n + 2)) cur = Some (in_line (n + 2) c2)).
  { rewrite bump_scan_add, Hce. exact HD. }
  subst fin cbc cec. unfold in_line at 1. cbn [cpos pbyte]. rewrite Hb2, Hbyte1.
  split; [|split].
  - replace (N.to_nat _) with (n + 2 + eol_len e after + j + (n + 2))%nat by lia. exact Hf.
  - replace (N.to_nat _) with (n + 2 + eol_len e after)%nat by lia. exact Hcb.
  - replace (N.to_nat _) with (n + 2 + eol_len e after + j)%nat by lia. exact Hce.
Qed.
End Positions.

(* ------------------------------------------------------------------ 8. the variant with a Contents rule *)
Section Rule.
Variables (o m c : byte) (e : eolp).
Variable content_rule : cursor -> option cursor.
Hypothesis Hom : o <> m.

(* Declarative reading of "the content is matched step by step by the content rule until the
   close is seen": from cursor `cur`, either a closing bracket of level n is here (stop, Ok), or
   the content rule fails here (Fail), or it matches and we continue from where it stopped. *)
Inductive Steps (n : nat) : cursor -> ures -> Prop :=
| St_close : forall cur,
    is_prefix (close_bracket c m n) (rest cur) = true -> Steps n cur (UOk cur)
| St_fail : forall cur,
    is_prefix (close_bracket c m n) (rest cur) = false -> content_rule cur = None -> Steps n cur (UFail cur)
| St_step : forall cur c' r,
    is_prefix (close_bracket c m n) (rest cur) = false -> content_rule cur = Some c' ->
    Steps n c' r -> Steps n cur r.

Lemma Steps_functional : forall n cur r1 r2, Steps n cur r1 -> Steps n cur r2 -> r1 = r2.
Proof.
  intros n cur r1 r2 H1. revert r2. induction H1 as [cur Hp | cur Hp Hc | cur c' r Hp Hc Hs IH]; intros r2 H2.
  - inversion H2; subst; [reflexivity | congruence | congruence].
  - inversion H2; subst; [congruence | reflexivity | congruence].
  - inversion H2 as [cur2 Hp2 | cur2 Hp2 Hc2 | cur2 c2 r2' Hp2 Hc2 Hs2]; subst; [congruence | congruence |].
    rewrite Hc in Hc2. injection Hc2 as <-. apply IH. exact Hs2.
Qed.

Lemma Steps_result : forall n cur r, Steps n cur r ->
  (exists c2, r = UOk c2 /\ is_prefix (close_bracket c m n) (rest c2) = true) \/ (exists c2, r = UFail c2).
Proof.
  intros n cur r H. induction H as [cur Hp | cur Hp Hc | cur c' r Hp Hc Hs IH].
  - left. exists cur. split; [reflexivity | exact Hp].
  - right. exists cur. reflexivity.
  - exact IH.
Qed.

(* the content rule makes progress (true of every rule that cannot succeed without consuming;
   without it the C++ loop itself does not terminate) *)
Definition advances : Prop :=
  forall cur c', content_rule cur = Some c' -> (length (rest c') < length (rest cur))%nat.

Lemma until_rule_loop_steps : forall n fuel cur,
  advances -> fits (rest cur) -> (length (rest cur) < fuel)%nat ->
  Steps n cur (until_rule_loop m c content_rule fuel (n + 2) cur).
Proof.
  intros n fuel. induction fuel as [|f IH]; intros cur Hadv Hfit Hf; [lia|].
  cbn [until_rule_loop]. rewrite at_close_spec by exact Hfit.
  destruct (is_prefix (close_bracket c m n) (rest cur)) eqn:Hp.
  - apply St_close. exact Hp.
  - destruct (content_rule cur) as [c'|] eqn:Hc.
    + pose proof (Hadv cur c' Hc) as Hlt.
      apply (St_step n cur c' _ Hp Hc). apply IH; [exact Hadv | unfold fits in *; lia | lia].
    + apply St_fail; assumption.
Qed.

(* normal form of raw_string with a Contents rule, for rewind_mode::required *)
Theorem raw_string_rule_nf : forall fuel has_apply cur,
  advances -> fits (rest cur) -> (length (rest cur) < fuel)%nat ->
  match open_level o m (rest cur) with
  | None => raw_string_rule o m c e content_rule fuel has_apply true cur = RsFail cur
  | Some (n, _) =>
    let c1 := after_open e (n + 2) cur in
    exists r, Steps n c1 r /\
      match r with
      | UOk c2 => raw_string_rule o m c e content_rule fuel has_apply true cur = RsOk (in_line (n + 2) c2) c1 c2
      | _ => raw_string_rule o m c e content_rule fuel has_apply true cur = RsFail cur
      end
  end.
Proof.
  intros fuel has_apply cur Hadv Hfit Hf. unfold raw_string_rule, raw_string_gen.
  rewrite (raw_string_open_spec o m e Hom).
  destruct (open_level o m (rest cur)) as [[n after]|] eqn:Hop; [|reflexivity].
  apply (open_level_iff o m _ _ _ Hom) in Hop.
  destruct (after_open_rest o m e Hom n after cur Hop) as [Hrest1 _].
  cbv zeta. set (c1 := after_open e (n + 2) cur) in *.
  assert (Hlen1 : (length (rest c1) <= length (rest cur))%nat).
  { rewrite Hrest1, skipn_length, Hop, app_length. lia. }
  assert (Hfit1 : fits (rest c1)) by (unfold fits in *; lia).
  pose proof (until_rule_loop_steps n fuel c1 Hadv Hfit1 ltac:(lia)) as HS.
  exists (until_rule_loop m c content_rule fuel (n + 2) c1). split; [exact HS|].
  unfold content_match, raw_string_until_rule.
  destruct (Steps_result _ _ _ HS) as [[c2 [Hr Hp]] | [c2 Hr]]; rewrite Hr.
  - destruct has_apply; cbn [rs_guard].
    + rewrite bump_in_line_spec; [reflexivity|].
      apply is_prefix_length in Hp. rewrite close_bracket_length in Hp. exact Hp.
    + rewrite bump_in_line_spec; [reflexivity|].
      apply is_prefix_length in Hp. rewrite close_bracket_length in Hp. exact Hp.
  - destruct has_apply; reflexivity.
Qed.

(* consequences: when the variant succeeds a closing bracket of level n sits at the end of the
   content, the content starts right after the opening bracket and the optional line ending, and
   the rule consumes through that closing bracket *)
Theorem raw_string_rule_ok : forall fuel has_apply cur fin cbc cec,
  advances -> fits (rest cur) -> (length (rest cur) < fuel)%nat ->
  raw_string_rule o m c e content_rule fuel has_apply true cur = RsOk fin cbc cec ->
  exists n after,
    rest cur = open_bracket o m n ++ after /\
    consumed_is cur cbc (n + 2 + eol_len e after) /\
    Steps n cbc (UOk cec) /\
    prefix_of (close_bracket c m n) (rest cec) /\
    fin = in_line (n + 2) cec.
Proof.
  intros fuel has_apply cur fin cbc cec Hadv Hfit Hf Hrs.
  pose proof (raw_string_rule_nf fuel has_apply cur Hadv Hfit Hf) as H.
  destruct (open_level o m (rest cur)) as [[n after]|] eqn:Hop; [|rewrite Hrs in H; discriminate H].
  apply (open_level_iff o m _ _ _ Hom) in Hop.
  destruct (after_open_rest o m e Hom n after cur Hop) as [Hrest1 Hbyte1].
  cbv zeta in H. destruct H as [r [HS Hr]].
  destruct r as [c2|c2| |]; rewrite Hrs in Hr; try discriminate Hr.
  injection Hr as -> -> ->.
  exists n, after. split; [exact Hop|]. split; [split; [rewrite Hrest1; symmetry|exact Hbyte1]|].
  - rewrite Hop. rewrite <- (open_bracket_length o m n).
    rewrite skipn_app, skipn_all2 by lia.
    replace (length (open_bracket o m n) + eol_len e after - length (open_bracket o m n))%nat with (eol_len e after) by lia.
    reflexivity.
  - split; [exact HS|]. split; [|reflexivity].
    destruct (Steps_result _ _ _ HS) as [[c2' [Hr' Hp]] | [c2' Hr']]; [|discriminate Hr'].
    injection Hr' as <-. apply is_prefix_iff. exact Hp.
Qed.
End Rule.

(* Contents = any behaves exactly like no Contents *)
Section RuleAny.
Variables (o m c : byte) (e : eolp).
Hypothesis Hom : o <> m.

Lemma until_rule_any : forall fuel ms cur,
  until_rule_loop m c (cr_any e) fuel ms cur = until_loop m c e fuel ms cur.
Proof.
  induction fuel as [|f IH]; intros ms cur; [reflexivity|].
  cbn [until_rule_loop until_loop].
  destruct (at_raw_string_close m c ms cur); try reflexivity.
  unfold cr_any. destruct (in_empty cur) eqn:Hem; [reflexivity|].
  unfold in_empty in Hem. destruct (rest cur) as [|b tl] eqn:Hr; [discriminate Hem|].
  rewrite (bump_scan_S (eol_ch e) 0 cur b tl Hr). cbn [bump_scan]. apply IH.
Qed.

Theorem raw_string_rule_any : forall fuel has_apply required cur,
  fits (rest cur) -> (length (rest cur) < fuel)%nat ->
  raw_string_rule o m c e (cr_any e) fuel has_apply required cur = raw_string o m c e has_apply required cur.
Proof.
  intros fuel has_apply required cur Hfit Hf. unfold raw_string_rule, raw_string, raw_string_gen.
  rewrite (raw_string_open_spec o m e Hom).
  destruct (open_level o m (rest cur)) as [[n after]|] eqn:Hop; [|reflexivity].
  apply (open_level_iff o m _ _ _ Hom) in Hop.
  destruct (after_open_rest o m e Hom n after cur Hop) as [Hrest1 _].
  set (c1 := after_open e (n + 2) cur) in *.
  assert (Hlen1 : (length (rest c1) <= length (rest cur))%nat).
  { rewrite Hrest1, skipn_length, Hop, app_length. lia. }
  assert (Hfit1 : fits (rest c1)) by (unfold fits in *; lia).
  assert (Heq : forall rq, raw_string_until_rule m c (cr_any e) fuel rq (n + 2) c1 = raw_string_until m c e rq (n + 2) c1).
  { intro rq. unfold raw_string_until_rule, raw_string_until. rewrite until_rule_any.
    rewrite (until_loop_spec m c e n (rest c1) c1 fuel eq_refl Hfit1) by lia.
    rewrite (until_loop_spec m c e n (rest c1) c1 (S (in_size c1)) eq_refl Hfit1) by (unfold in_size; lia).
    reflexivity. }
  unfold content_match. rewrite Heq. reflexivity.
Qed.
End RuleAny.

(* the three content rules of the harness make progress *)
Lemma cr_any_advances : forall e, advances (cr_any e).
Proof.
  intros e cur c' H. unfold cr_any in H. destruct (in_empty cur) eqn:Hem; [discriminate H|].
  unfold in_empty in Hem. destruct (rest cur) as [|b tl] eqn:Hr; [discriminate Hem|].
  destruct (bump_scan_some (eol_ch e) 1 cur) as [c'' [H1 [H2 _]]]; [rewrite Hr; cbn [length]; lia|].
  rewrite H1 in H. injection H as <-. rewrite H2, Hr. cbn [skipn length]. lia.
Qed.

Lemma cr_not_one_advances : forall e x, advances (cr_not_one e x).
Proof.
  intros e x cur c' H. unfold cr_not_one in H. destruct (in_empty cur) eqn:Hem; [discriminate H|].
  unfold in_empty in Hem. destruct (rest cur) as [|b tl] eqn:Hr; [discriminate Hem|].
  unfold peek_at in H. rewrite Hr in H. cbn [nth_error] in H. destruct (b =? x); [discriminate H|].
  destruct (bump_scan_some (eol_ch e) 1 cur) as [c'' [H1 [H2 _]]]; [rewrite Hr; cbn [length]; lia|].
  rewrite H1 in H. injection H as <-. rewrite H2, Hr. cbn [skipn length]. lia.
Qed.

Lemma cr_bytes_advances : forall e k, (0 < k)%nat -> advances (cr_bytes e k).
Proof.
  intros e k Hk cur c' H. unfold cr_bytes, in_size in H.
  destruct (k <=? length (rest cur))%nat eqn:Hle; [|discriminate H]. apply Nat.leb_le in Hle.
  destruct (bump_scan_some (eol_ch e) k cur Hle) as [c'' [H1 [H2 _]]].
  rewrite H1 in H. injection H as <-. rewrite H2, skipn_length. lia.
Qed.

Lemma content_rules_advance : forall e,
  advances (cr_any e) /\ advances (cr_not_one e 120) /\ advances (cr_bytes e 2).
Proof.
  intro e. split; [apply cr_any_advances | split; [apply cr_not_one_advances | apply cr_bytes_advances; repeat constructor]].
Qed.

(* ------------------------------------------------------------------ 9. witnesses and examples *)
(* bytes: '[' 91, '=' 61, ']' 93, 'a' 97, 'b' 98, 'x' 120, LF 10, CR 13 *)

(* The side condition close_not_eol cannot be dropped: with Close = LF under eol::lf the text
   "[[\n\n" is, read literally, an empty level-0 literal (open "[[", close "\n\n"), but the code
   first swallows the first LF as "the line ending after the opening bracket" and then finds no
   closing bracket. *)
Lemma close_eol_witness :
  exists (o m c : byte) (e : eolp) (s : list byte),
    o <> m /\ fits s /\
    long_bracket o m c e s = Some (2, 2, 4)%nat /\
    raw_string o m c e true true (start s) = RsFail (start s).
Proof.
  exists 91, 61, 10, EolLf, [91; 91; 10; 10].
  split; [intro H; discriminate H|]. split; [reflexivity|]. split; vm_compute; reflexivity.
Qed.

(* eol::cr_crlf: the line ending "\r\n" after the opening bracket is skipped by
   bump_to_next_line( 2 ) (line+1, column 1) whereas the scanning bump with ch = '\r' counts the
   '\n' as a column: the final position is not the bump_scan position.  (Same root cause as the
   eager/lazy disagreement of eol::cr_crlf recorded for C06.) *)
Lemma positions_cr_crlf_witness :
  exists (s : list byte) (fin cbc cec : cursor),
    fits s /\
    raw_string 91 61 93 EolCrCrlf true true (start s) = RsOk fin cbc cec /\
    cpos fin = mkpos 6 2 3 /\
    bump_scan (eol_ch EolCrCrlf) 6 (start s) = Some (mkcur [] (mkpos 6 2 4)).
Proof.
  exists [91; 91; 13; 10; 93; 93].
  eexists; eexists; eexists. split; [reflexivity|]. split; [vm_compute; reflexivity|]. split; vm_compute; reflexivity.
Qed.

(* at_raw_string_close relies on marker_size >= 2 (which raw_string_open guarantees): called
   with marker_size = 1 the bound marker_size - 2 wraps to 2^64 - 1 and the marker loop runs
   off the input. *)
Lemma at_close_marker_size_1_oob :
  at_raw_string_close 61 93 1 (start [93; 61; 61]) = COob.
Proof. vm_compute. reflexivity. Qed.

Definition ex1 : list byte := [91; 61; 61; 91; 97; 93; 93; 98; 93; 61; 61; 93; 120].   (* [==[a]]b]==]x *)
Definition ex2 : list byte := [91; 91; 10; 10; 120; 93; 93].                            (* [[\n\nx]] *)
Definition ex3 : list byte := [91; 91; 93; 93].                                          (* [[]] *)
Definition ex4 : list byte := [91; 61; 61; 91; 97; 98; 93; 61; 93].                      (* [==[ab]=] : no matching close *)
Definition ex5 : list byte := [91; 91; 13; 10; 120; 93; 93].                             (* [[\r\nx]] *)

Lemma example_levels :
  long_bracket 91 61 93 EolLf ex1 = Some (4, 8, 12)%nat /\
  (exists fin cbc cec, raw_string 91 61 93 EolLf true true (start ex1) = RsOk fin cbc cec /\
     cpos fin = mkpos 12 1 13 /\ cpos cbc = mkpos 4 1 5 /\ cpos cec = mkpos 8 1 9 /\ rest fin = [120]).
Proof. split; [vm_compute; reflexivity|]. eexists; eexists; eexists. repeat split; vm_compute; reflexivity. Qed.

Lemma example_newline_stripped_once :
  long_bracket 91 61 93 EolLf ex2 = Some (3, 5, 7)%nat /\
  (exists fin cbc cec, raw_string 91 61 93 EolLf true true (start ex2) = RsOk fin cbc cec /\
     cpos fin = mkpos 7 3 4 /\ cpos cbc = mkpos 3 2 1 /\ cpos cec = mkpos 5 3 2 /\ rest cbc = [10; 120; 93; 93]).
Proof. split; [vm_compute; reflexivity|]. eexists; eexists; eexists. repeat split; vm_compute; reflexivity. Qed.

Lemma example_level0_empty :
  long_bracket 91 61 93 EolLf ex3 = Some (2, 2, 4)%nat /\
  (exists fin cbc cec, raw_string 91 61 93 EolLf true true (start ex3) = RsOk fin cbc cec /\ cpos fin = mkpos 4 1 5).
Proof. split; [vm_compute; reflexivity|]. eexists; eexists; eexists. repeat split; vm_compute; reflexivity. Qed.

Lemma example_unterminated :
  long_bracket 91 61 93 EolLf ex4 = None /\
  raw_string 91 61 93 EolLf true true (start ex4) = RsFail (start ex4) /\
  (exists c', raw_string 91 61 93 EolLf false false (start ex4) = RsFail c' /\ cpos c' = mkpos 9 1 10).
Proof. split; [vm_compute; reflexivity|]. split; [vm_compute; reflexivity|]. eexists. split; vm_compute; reflexivity. Qed.

Lemma example_crlf_policies :
  long_bracket 91 61 93 EolLf ex5 = Some (2, 5, 7)%nat /\
  long_bracket 91 61 93 EolCr ex5 = Some (3, 5, 7)%nat /\
  long_bracket 91 61 93 EolCrlf ex5 = Some (4, 5, 7)%nat /\
  long_bracket 91 61 93 EolLfCrlf ex5 = Some (4, 5, 7)%nat /\
  long_bracket 91 61 93 EolCrCrlf ex5 = Some (4, 5, 7)%nat.
Proof. repeat split; vm_compute; reflexivity. Qed.

(* the hypotheses of the theorems are satisfiable by the Lua alphabet and every policy *)
Lemma example_hypotheses : forall e,
  (91 : byte) <> 61 /\ close_not_eol e 93 /\ fits ex1 /\
  (91 : byte) <> eol_ch e /\ (61 : byte) <> eol_ch e /\ (93 : byte) <> eol_ch e.
Proof.
  intros e. split; [intro H; discriminate H|]. split.
  - destruct e; cbn [close_not_eol]; try split; intro H; discriminate H.
  - split; [reflexivity|]. destruct e; cbn [eol_ch]; repeat split; intro H; discriminate H.
Qed.

(* Contents = bytes<2>: the close is only seen at step boundaries *)
Lemma example_bytes2 :
  (exists fin cbc cec, raw_string_rule 91 61 93 EolLf (cr_bytes EolLf 2) 20 true true (start [91; 91; 120; 120; 93; 93]) = RsOk fin cbc cec /\
     cpos fin = mkpos 6 1 7) /\
  raw_string_rule 91 61 93 EolLf (cr_bytes EolLf 2) 20 true true (start [91; 91; 120; 93; 93]) = RsFail (start [91; 91; 120; 93; 93]) /\
  (exists fin cbc cec, raw_string_rule 91 61 93 EolLf (cr_bytes EolLf 2) 20 true true (start [91; 91; 120; 93; 93; 93]) = RsOk fin cbc cec /\
     cpos cec = mkpos 4 1 5 /\ cpos fin = mkpos 6 1 7).
Proof.
  split; [eexists; eexists; eexists; split; vm_compute; reflexivity|].
  split; [vm_compute; reflexivity|].
  eexists; eexists; eexists. repeat split; vm_compute; reflexivity.
Qed.
