(* ParseTree.v — executable model of contrib/parse_tree.hpp (C12): node selection, the compile-time
   is_leaf< 8, ... > classification over subs_t, the three make_control::state_handler variants as a
   stack machine folding over the hook events of a run, the built-in transformers, and
   parse_tree::parse on top of the engine model.  Written from the C++ text.  Definitions only. *)
From PegtlV Require Import Base Decode Grammar Engine.
Local Open Scope N_scope.

(* Selector< Rule >: std::false_type, or std::true_type with (possibly) a transform() *)
Inductive transform := TStore | TRemove | TFoldOne | TDiscardEmpty.
Definition selector := rid -> option transform.

(* basic_node: type (None = default-constructed: the root, or the scratch node of an unselected
   rule), m_begin, m_end (None = default inputerator: no content), children in vector order *)
Inductive tree := Node (r : option rid) (b : pos) (e : option pos) (ch : list tree).
Definition t_rule (t : tree) := match t with Node r _ _ _ => r end.
Definition t_begin (t : tree) := match t with Node _ b _ _ => b end.
Definition t_end (t : tree) := match t with Node _ _ e _ => e end.
Definition t_children (t : tree) := match t with Node _ _ _ ch => ch end.
Definition null_pos : pos := mkpos 0 0 0.
Definition blank : tree := Node None null_pos None [].            (* std::make_unique< Node >() *)

(* the hook events that reach the control, with the input position they carry *)
Definition hev := (hook * rid * pos)%type.
Fixpoint hooks_of (evs : list event) : list hev :=
  match evs with
  | [] => []
  | EHook h _ r p :: tl => (h, r, p) :: hooks_of tl
  | _ :: tl => hooks_of tl
  end.

Definition set_end (t : tree) (p : pos) : tree := match t with Node r b _ ch => Node r b (Some p) ch end.   (* Node::success *)
Definition remove_content (t : tree) : tree := match t with Node r b _ ch => Node r b None ch end.           (* m_end = inputerator() *)
Definition add_children (par : tree) (ns : list tree) : tree :=                                              (* children.emplace_back, in order *)
  match par with Node r b e ch => Node r b e (ch ++ ns) end.

(* Selector< Rule >::transform( n ): the unique_ptr afterwards, as a list of length <= 1 *)
Definition xform (t : transform) (n : tree) : list tree :=
  match t with
  | TStore => [n]
  | TRemove => [remove_content n]
  | TFoldOne => match t_children n with [c] => [c] | _ => [remove_content n] end      (* children.size() == 1 ? children.front() *)
  | TDiscardEmpty => match t_children n with [] => [] | _ => [remove_content n] end   (* children.empty() ? reset() *)
  end.

(* ---------- compile-time classification ---------- *)
Inductive hkind :=
| KSel (t : transform)      (* state_handler< Rule, true, B > *)
| KLeaf                     (* state_handler< Rule, false, true >: no bookkeeping at all *)
| KPass.                    (* state_handler< Rule, false, false >: enable = true, scratch node *)

Section Classify.
Variable G : grammar.
Variable sel : selector.

Definition subs_of (r : rid) : list rid := match nth_error G r with Some nd => nsubs nd | None => [] end.
Definition enabled_of (r : rid) : bool := match nth_error G r with Some nd => nenabled nd | None => false end.
(* is_selected_node< Rule, Selector > = enable_control< Rule > && Selector< Rule >::value *)
Definition selected (r : rid) : option transform := if enabled_of r then sel r else None.
Definition is_selected (r : rid) : bool := match selected r with Some _ => true | None => false end.

(* is_leaf< 0, type_list< Rules... > > = ( sizeof...( Rules ) == 0 )
   is_leaf< L, type_list< Rules... > > = ( is_unselected_branch< L - 1, Rules > && ... )
   is_unselected_branch< L, Rule >    = !is_selected_node< Rule > && is_leaf< L, Rule::subs_t > *)
Fixpoint is_leaf (level : nat) (subs : list rid) : bool :=
  match level with
  | O => match subs with [] => true | _ => false end
  | S l => forallb (fun r => negb (is_selected r) && is_leaf l (subs_of r)) subs
  end.

(* make_control::type< Rule > = state_handler< Rule, is_selected_node< Rule >, is_leaf< 8, Rule::subs_t > > *)
Definition kind_at (level : nat) (r : rid) : hkind :=
  match selected r with
  | Some t => KSel t
  | None => if is_leaf level (subs_of r) then KLeaf else KPass
  end.
Definition leaf_level : nat := 8.
Definition kind (r : rid) : hkind := kind_at leaf_level r.

(* the control parse_tree::parse hands to the engine: Control< Rule >::enable as inherited, except
   that the unselected non-leaf handler declares  static constexpr bool enable = true  *)
Definition pt_enabled (k : rid -> hkind) (r : rid) (nd : node) : bool :=
  match k r with KPass => true | _ => nenabled nd end.
Fixpoint pt_table_from (k : rid -> hkind) (i : nat) (g : grammar) : grammar :=
  match g with
  | [] => []
  | nd :: tl => mknode (nhead nd) (nsubs nd) (pt_enabled k i nd) :: pt_table_from k (S i) tl
  end.
Definition pt_table : grammar := pt_table_from kind 0 G.

(* every bookkeeping handler defines unwind() whatever the user's control offers (and forwards to
   Control< Rule >::unwind only if that exists); start/success/failure are forwarded to Control< Rule >
   by both bookkeeping handlers, so a raising failure hook (must_if) behaves as in the plain parse *)
Definition pt_cfg (C : cfg) : cfg :=
  mkcfg (ceol C) (acts C) (abeh C) (ibeh C) (fun _ => true) (raise_on_failure C).
End Classify.

(* ---------- the node stack (internal::state< Node >::stack, head = back()) ---------- *)
Section Builder.
Variable kind_ : rid -> hkind.

Definition bstep (st : list tree) (ev : hev) : option (list tree) :=
  let '(h, r, p) := ev in
  match kind_ r with
  | KLeaf => Some st
  | KPass =>
      match h with
      | HkStart => Some (blank :: st)                                            (* state.emplace_back() *)
      | HkSuccess =>
          match st with
          | n :: par :: tl => Some (add_children par (t_children n) :: tl)       (* pop; move every child to back() *)
          | _ => None                                                            (* back() on an empty stack *)
          end
      | _ => match st with _ :: tl => Some tl | [] => None end                   (* failure / unwind: pop_back() *)
      end
  | KSel t =>
      match h with
      | HkStart => Some (Node (Some r) p None [] :: st)                          (* emplace_back(); back()->start< Rule >( in ) *)
      | HkSuccess =>
          match st with
          | n :: par :: tl => Some (add_children par (xform t (set_end n p)) :: tl)   (* pop; success; transform; if( n ) back()->emplace_back( n ) *)
          | _ => None
          end
      | _ => match st with _ :: tl => Some tl | [] => None end
      end
  end.

Fixpoint build (st : list tree) (evs : list hev) : option (list tree) :=
  match evs with
  | [] => Some st
  | e :: tl => match bstep st e with Some st' => build st' tl | None => None end
  end.
End Builder.

(* ---------- parse_tree::parse< Rule, Node, Selector, Action, Control >( in ) ---------- *)
Inductive pt_result :=
| PtTree (t : tree)              (* std::move( state.back() ) with stack.size() == 1 *)
| PtNull                         (* nullptr: parse returned false *)
| PtExc (e : exn)                (* exception left parse() *)
| PtStale (st : list tree)       (* parse returned true but assert( state.stack.size() == 1 ) fails; head = what NDEBUG returns *)
| PtStuck                        (* back()/pop_back() on an empty stack *)
| PtOof | PtErr.

Definition pt_finish (kind_ : rid -> hkind) (x : result) : pt_result :=
  match x with
  | Res Ok _ evs =>
      match build kind_ [blank] (hooks_of evs) with
      | Some [t] => PtTree t
      | Some st => PtStale st
      | None => PtStuck
      end
  | Res Fail _ _ => PtNull
  | Res (Exc e) _ _ => PtExc e
  | Oof => PtOof
  | Err => PtErr
  end.

Definition pt_parse (G : grammar) (sel : selector) (C : cfg) (f : nat) (d : dyn) (r : rid) (c : cursor) : pt_result :=
  pt_finish (kind G sel) (eval (pt_table G sel) (pt_cfg C) f d r c).
