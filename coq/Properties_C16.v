(* Properties_C16.v — C16: raw_string implements Lua long-bracket literals.
   Theorems only; proofs are in RawStringSpec.v (specification-internal) and RawStringFacts.v.

   Reading guide
     model          RawString.raw_string o m c e has_apply required cur          (no Contents)
                    RawString.raw_string_rule o m c e content_rule fuel ...      (Contents rule)
                    results  RsOk final content_begin content_end | RsFail cursor | RsOob | RsOof
     specification  RawStringSpec.LongBracket o m c e s cb ce total   (declarative predicate)
                    RawStringSpec.long_bracket o m c e s = Some (cb, ce, total) | None
     consumed_is cur c' k   :=  c' is cur advanced by exactly k bytes (remaining input and byte offset)

   Side conditions (all documented where they are used)
     o <> m             Open <> Marker.  raw_string<X,X,C> does not compile (duplicate case label in
                        raw_string_open's switch), and "level" would be ambiguous.
     close_not_eol e c  Close is not a byte of a line ending of the eol policy e.  Necessary:
                        C16_close_eol_refuted.  Nothing is required of Close vs Open (Close = Open
                        is fine) nor of Close vs Marker.
     fits s             the input's size is a std::size_t (< 2^64); the model computes
                        marker_size - 1 and marker_size - 2 modulo 2^64 as the C++ does.
     positions only     Open, Marker, Close are not the policy's eol character, and the policy is
                        not cr_crlf (C16_positions_cr_crlf_refuted). *)
From PegtlV Require Import Base Engine RawString RawStringSpec RawStringFacts.
Local Open Scope N_scope.

(* ---- the specification: predicate and reference function agree; it is functional ---- *)
Theorem C16_spec_equiv : forall o m c e s cb ce total, o <> m ->
  (LongBracket o m c e s cb ce total <-> long_bracket o m c e s = Some (cb, ce, total)).
Proof. exact long_bracket_iff. Qed.
Print Assumptions C16_spec_equiv.

Theorem C16_spec_functional : forall o m c e s cb ce total cb' ce' total', o <> m ->
  LongBracket o m c e s cb ce total -> LongBracket o m c e s cb' ce' total' ->
  cb = cb' /\ ce = ce' /\ total = total'.
Proof. exact LongBracket_unique. Qed.
Print Assumptions C16_spec_functional.

(* ---- exactness, rewind_mode::required, with or without an action on `content` ----
   If the specification finds a literal (cb, ce, total) the rule succeeds, consumes exactly
   `total` bytes, and the cursors before / after the nested `content` rule (the action's input)
   are at bytes cb and ce; otherwise it fails with the cursor unchanged. *)
Theorem C16_exact : forall o m c e, o <> m -> forall has_apply cur,
  fits (rest cur) -> close_not_eol e c ->
  match long_bracket o m c e (rest cur) with
  | Some (cb, ce, total) =>
      exists fin cbc cec,
        raw_string o m c e has_apply true cur = RsOk fin cbc cec /\
        consumed_is cur fin total /\ consumed_is cur cbc cb /\ consumed_is cur cec ce /\
        (cb <= ce)%nat /\ (ce <= total)%nat /\ (total <= length (rest cur))%nat
  | None => raw_string o m c e has_apply true cur = RsFail cur
  end.
Proof. exact raw_string_exact. Qed.
Print Assumptions C16_exact.

Theorem C16_exact_iff : forall o m c e, o <> m -> forall has_apply cur total,
  fits (rest cur) -> close_not_eol e c ->
  ((exists fin cbc cec, raw_string o m c e has_apply true cur = RsOk fin cbc cec /\ consumed_is cur fin total)
   <-> exists cb ce, long_bracket o m c e (rest cur) = Some (cb, ce, total)).
Proof. exact raw_string_ok_iff. Qed.
Print Assumptions C16_exact_iff.

Theorem C16_fail_iff : forall o m c e, o <> m -> forall has_apply cur,
  fits (rest cur) -> close_not_eol e c ->
  (raw_string o m c e has_apply true cur = RsFail cur <-> long_bracket o m c e (rest cur) = None).
Proof. exact raw_string_fail_iff. Qed.
Print Assumptions C16_fail_iff.

(* ---- a local failure leaves nothing consumed (every variant, every Contents rule, any fuel,
        no side condition at all) ---- *)
Theorem C16_fail_unconsumed : forall o m e until has_apply cur c',
  raw_string_gen o m e until has_apply true cur = RsFail c' -> c' = cur.
Proof. exact raw_string_gen_fail_unconsumed. Qed.
Print Assumptions C16_fail_unconsumed.

(* ---- never out of bounds, never out of fuel (both rewind modes) ---- *)
Theorem C16_never_oob : forall o m c e, o <> m -> forall has_apply required cur,
  fits (rest cur) ->
  raw_string o m c e has_apply required cur <> RsOob /\ raw_string o m c e has_apply required cur <> RsOof.
Proof. exact raw_string_never_oob. Qed.
Print Assumptions C16_never_oob.

(* ---- brackets of other levels inside the text are ignored: whatever T contains, as long as
        no closing bracket of level n starts inside it ---- *)
Theorem C16_other_levels_ignored : forall o m c e, o <> m -> forall has_apply cur n T tail,
  fits (rest cur) -> close_not_eol e c ->
  rest cur = open_bracket o m n ++ T ++ close_bracket c m n ++ tail ->
  (forall j, (j < length T)%nat -> ~ prefix_of (close_bracket c m n) (skipn j (T ++ close_bracket c m n ++ tail))) ->
  exists fin cbc cec,
    raw_string o m c e has_apply true cur = RsOk fin cbc cec /\
    consumed_is cur fin (n + 2 + length T + n + 2) /\
    consumed_is cur cbc (n + 2 + eol_len e T) /\
    consumed_is cur cec (n + 2 + length T).
Proof. exact other_levels_ignored. Qed.
Print Assumptions C16_other_levels_ignored.

Theorem C16_other_level_close_is_no_close : forall m c n n' tl, c <> m -> n <> n' ->
  is_prefix (close_bracket c m n) (close_bracket c m n' ++ tl) = false.
Proof. exact other_level_close. Qed.
Print Assumptions C16_other_level_close_is_no_close.

(* ---- positions ---- *)
Theorem C16_positions : forall o m c e, o <> m -> forall has_apply required cur fin cbc cec,
  fits (rest cur) ->
  o <> eol_ch e -> m <> eol_ch e -> c <> eol_ch e -> e <> EolCrCrlf ->
  raw_string o m c e has_apply required cur = RsOk fin cbc cec ->
  bump_scan (eol_ch e) (N.to_nat (pbyte (cpos fin) - pbyte (cpos cur))) cur = Some fin /\
  bump_scan (eol_ch e) (N.to_nat (pbyte (cpos cbc) - pbyte (cpos cur))) cur = Some cbc /\
  bump_scan (eol_ch e) (N.to_nat (pbyte (cpos cec) - pbyte (cpos cur))) cur = Some cec.
Proof. exact raw_string_positions. Qed.
Print Assumptions C16_positions.

Theorem C16_positions_cr_crlf_refuted :
  exists (s : list byte) (fin cbc cec : cursor),
    fits s /\
    raw_string 91 61 93 EolCrCrlf true true (start s) = RsOk fin cbc cec /\
    cpos fin = mkpos 6 2 3 /\
    bump_scan (eol_ch EolCrCrlf) 6 (start s) = Some (mkcur [] (mkpos 6 2 4)).
Proof. exact positions_cr_crlf_witness. Qed.
Print Assumptions C16_positions_cr_crlf_refuted.

(* ---- the side condition on Close is necessary ---- *)
Theorem C16_close_eol_refuted :
  exists (o m c : byte) (e : eolp) (s : list byte),
    o <> m /\ fits s /\
    long_bracket o m c e s = Some (2, 2, 4)%nat /\
    raw_string o m c e true true (start s) = RsFail (start s).
Proof. exact close_eol_witness. Qed.
Print Assumptions C16_close_eol_refuted.

(* ---- the variant with a Contents rule: the content is matched step by step (Steps) by the
        content rule until a closing bracket of the opening level is seen ---- *)
Theorem C16_rule_steps : forall o m c e content_rule, o <> m -> forall fuel has_apply cur,
  advances content_rule -> fits (rest cur) -> (length (rest cur) < fuel)%nat ->
  match open_level o m (rest cur) with
  | None => raw_string_rule o m c e content_rule fuel has_apply true cur = RsFail cur
  | Some (n, _) =>
    let c1 := after_open e (n + 2) cur in
    exists r, Steps m c content_rule n c1 r /\
      match r with
      | UOk c2 => raw_string_rule o m c e content_rule fuel has_apply true cur = RsOk (in_line (n + 2) c2) c1 c2
      | _ => raw_string_rule o m c e content_rule fuel has_apply true cur = RsFail cur
      end
  end.
Proof. exact raw_string_rule_nf. Qed.
Print Assumptions C16_rule_steps.

Theorem C16_rule_steps_functional : forall m c content_rule n cur r1 r2,
  Steps m c content_rule n cur r1 -> Steps m c content_rule n cur r2 -> r1 = r2.
Proof. exact Steps_functional. Qed.
Print Assumptions C16_rule_steps_functional.

Theorem C16_rule_ok : forall o m c e content_rule, o <> m -> forall fuel has_apply cur fin cbc cec,
  advances content_rule -> fits (rest cur) -> (length (rest cur) < fuel)%nat ->
  raw_string_rule o m c e content_rule fuel has_apply true cur = RsOk fin cbc cec ->
  exists n after,
    rest cur = open_bracket o m n ++ after /\
    consumed_is cur cbc (n + 2 + eol_len e after) /\
    Steps m c content_rule n cbc (UOk cec) /\
    prefix_of (close_bracket c m n) (rest cec) /\
    fin = in_line (n + 2) cec.
Proof. exact raw_string_rule_ok. Qed.
Print Assumptions C16_rule_ok.

Theorem C16_rule_any : forall o m c e, o <> m -> forall fuel has_apply required cur,
  fits (rest cur) -> (length (rest cur) < fuel)%nat ->
  raw_string_rule o m c e (cr_any e) fuel has_apply required cur = raw_string o m c e has_apply required cur.
Proof. exact raw_string_rule_any. Qed.
Print Assumptions C16_rule_any.

(* ---- at_raw_string_close in isolation: exact for every marker_size >= 2 ---- *)
Theorem C16_at_close_exact : forall m c n cur, fits (rest cur) ->
  at_raw_string_close m c (n + 2) cur = if is_prefix (close_bracket c m n) (rest cur) then CYes else CNo.
Proof. exact at_close_spec. Qed.
Print Assumptions C16_at_close_exact.

(* ---- examples: hypotheses satisfiable, concrete literals ---- *)
Example C16_ex_hypotheses : forall e,
  (91 : byte) <> 61 /\ close_not_eol e 93 /\ fits ex1 /\
  (91 : byte) <> eol_ch e /\ (61 : byte) <> eol_ch e /\ (93 : byte) <> eol_ch e.
Proof. exact example_hypotheses. Qed.
Print Assumptions C16_ex_hypotheses.

(* "[==[a]]b]==]x": content "a]]b", 12 bytes consumed, 'x' left *)
Example C16_ex_levels :
  long_bracket 91 61 93 EolLf ex1 = Some (4, 8, 12)%nat /\
  (exists fin cbc cec, raw_string 91 61 93 EolLf true true (start ex1) = RsOk fin cbc cec /\
     cpos fin = mkpos 12 1 13 /\ cpos cbc = mkpos 4 1 5 /\ cpos cec = mkpos 8 1 9 /\ rest fin = [120]).
Proof. exact example_levels. Qed.
Print Assumptions C16_ex_levels.

(* "[[\n\nx]]": exactly one leading newline is stripped, content = "\nx" *)
Example C16_ex_newline_stripped_once :
  long_bracket 91 61 93 EolLf ex2 = Some (3, 5, 7)%nat /\
  (exists fin cbc cec, raw_string 91 61 93 EolLf true true (start ex2) = RsOk fin cbc cec /\
     cpos fin = mkpos 7 3 4 /\ cpos cbc = mkpos 3 2 1 /\ cpos cec = mkpos 5 3 2 /\ rest cbc = [10; 120; 93; 93]).
Proof. exact example_newline_stripped_once. Qed.
Print Assumptions C16_ex_newline_stripped_once.

Example C16_ex_level0_empty :
  long_bracket 91 61 93 EolLf ex3 = Some (2, 2, 4)%nat /\
  (exists fin cbc cec, raw_string 91 61 93 EolLf true true (start ex3) = RsOk fin cbc cec /\ cpos fin = mkpos 4 1 5).
Proof. exact example_level0_empty. Qed.
Print Assumptions C16_ex_level0_empty.

(* "[==[ab]=]": no matching close; required: cursor unchanged; optional without action: at the end *)
Example C16_ex_unterminated :
  long_bracket 91 61 93 EolLf ex4 = None /\
  raw_string 91 61 93 EolLf true true (start ex4) = RsFail (start ex4) /\
  (exists c', raw_string 91 61 93 EolLf false false (start ex4) = RsFail c' /\ cpos c' = mkpos 9 1 10).
Proof. exact example_unterminated. Qed.
Print Assumptions C16_ex_unterminated.

(* "[[\r\nx]]" under the five policies: what counts as the stripped line ending *)
Example C16_ex_crlf_policies :
  long_bracket 91 61 93 EolLf ex5 = Some (2, 5, 7)%nat /\
  long_bracket 91 61 93 EolCr ex5 = Some (3, 5, 7)%nat /\
  long_bracket 91 61 93 EolCrlf ex5 = Some (4, 5, 7)%nat /\
  long_bracket 91 61 93 EolLfCrlf ex5 = Some (4, 5, 7)%nat /\
  long_bracket 91 61 93 EolCrCrlf ex5 = Some (4, 5, 7)%nat.
Proof. exact example_crlf_policies. Qed.
Print Assumptions C16_ex_crlf_policies.

(* Contents = bytes<2>: "[[xx]]" matches, "[[x]]" does not, "[[x]]]" closes at the second "]]" *)
Example C16_ex_bytes2 :
  (exists fin cbc cec, raw_string_rule 91 61 93 EolLf (cr_bytes EolLf 2) 20 true true (start [91; 91; 120; 120; 93; 93]) = RsOk fin cbc cec /\
     cpos fin = mkpos 6 1 7) /\
  raw_string_rule 91 61 93 EolLf (cr_bytes EolLf 2) 20 true true (start [91; 91; 120; 93; 93]) = RsFail (start [91; 91; 120; 93; 93]) /\
  (exists fin cbc cec, raw_string_rule 91 61 93 EolLf (cr_bytes EolLf 2) 20 true true (start [91; 91; 120; 93; 93; 93]) = RsOk fin cbc cec /\
     cpos cec = mkpos 4 1 5 /\ cpos fin = mkpos 6 1 7).
Proof. exact example_bytes2. Qed.
Print Assumptions C16_ex_bytes2.

Example C16_ex_content_rules_advance : forall e,
  advances (cr_any e) /\ advances (cr_not_one e 120) /\ advances (cr_bytes e 2).
Proof. exact content_rules_advance. Qed.
Print Assumptions C16_ex_content_rules_advance.

(* latent precondition of at_raw_string_close (never violated by raw_string, which always
   passes marker_size >= 2): with marker_size = 1 the bound marker_size - 2 wraps around *)
Example C16_ex_at_close_needs_marker_size_2 :
  at_raw_string_close 61 93 1 (start [93; 61; 61]) = COob.
Proof. exact at_close_marker_size_1_oob. Qed.
Print Assumptions C16_ex_at_close_needs_marker_size_2.
