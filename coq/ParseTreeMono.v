(* ParseTreeMono.v — C12_spans on top of the engine: the position monotonicity of the call forest
   (ParseTreeSpec.cmono: every contributing attempt lies inside its parent's span and starts at or after
   the end of the previous contributing sibling) is DERIVED from the engine, for every table without
   at<> and without rematch<Head, Rules...> (not_at<> is harmless: when it succeeds everything inside it
   failed), every configuration without throwing Action<Rule>::apply, every mode, input, fuel and outcome.
   Rewinding after a failed sibling is allowed: the invariant speaks about the attempts that contribute
   to the derivation (successful, all ancestors successful, a selected rule at or below them); a failed
   attempt contributes nothing, and a rule that is not control-enabled under parse_tree's control is a
   leaf of the is_leaf< 8 > classification, below which nothing is selected.
   Proof: induction over evaluation, one lemma per helper in a Section over the abstract callee `ev`. *)
From Coq Require Import Lia.
From PegtlV Require Import Base Decode Grammar Engine EngineFacts AtomFacts RaiseFacts RaisePos.
From PegtlV Require Import Hooks HookFacts ParseTree ParseTreeSpec ParseTreeFacts ParseTreeEngine ParseTreeSpans.
Require PegtlV.ActionFacts.
Local Open Scope N_scope.

Definition pb (c : cursor) : N := pbyte (cpos c).

Ltac dres x := destruct x as [[| |?e] ?c ?evs| |].

Lemma prepend_app a b x : prepend (a ++ b) x = prepend a (prepend b x).
Proof. destruct x; simpl; try reflexivity. rewrite app_assoc. reflexivity. Qed.

(* ================================================================ forests: chains of contributing attempts *)
Section Chains.
Variable selp : rid -> option transform.
Notation contributes := (contributes selp).
Notation deriv := (deriv selp).

Definition dead (t : ctree) : Prop := deriv t = [].
Lemma dead_contrib t : dead t -> contributes t = false.
Proof. unfold dead, ParseTreeSpec.contributes. intros ->. reflexivity. Qed.
Lemma dead_nonsuccess r b h e ts : h <> HkSuccess -> dead (CT r b h e ts).
Proof. unfold dead. destruct h; simpl; congruence. Qed.
Lemma dead_wrap r b h e ts : selp r = None -> Forall dead ts -> dead (CT r b h e ts).
Proof. intros Hs Hd. unfold dead. destruct h; simpl; try reflexivity. rewrite Hs. apply flat_map_nil. exact Hd. Qed.

(* the end of the last contributing attempt (lo if none) *)
Fixpoint clast (lo : N) (ts : list ctree) : N :=
  match ts with [] => lo | k :: tl => clast (if contributes k then pbyte (c_end k) else lo) tl end.
(* every contributing attempt is position-monotone inside and starts at or after the end of the previous one *)
Fixpoint chainM (lo : N) (ts : list ctree) : Prop :=
  match ts with
  | [] => True
  | k :: tl => (contributes k = true -> cmono selp lo (pbyte (c_end k)) k) /\
               chainM (if contributes k then pbyte (c_end k) else lo) tl
  end.
(* ts is a monotone forest inside [a, e] *)
Definition Sp (a e : N) (ts : list ctree) : Prop := chainM a ts /\ clast a ts <= e.

Lemma cmono_weaken t lo hi lo' hi' : cmono selp lo hi t -> lo' <= lo -> hi <= hi' -> cmono selp lo' hi' t.
Proof. destruct t as [r b h e kids]. cbn [cmono]. intros [H1 [H2 [H3 H4]]] Hl Hh. repeat split; try lia. exact H4. Qed.

Lemma clast_mono ts : forall a a', a' <= a -> clast a' ts <= clast a ts.
Proof.
  induction ts as [|k ts IH]; intros a a' H; simpl; [exact H|].
  destruct (contributes k); apply IH; [lia | exact H].
Qed.
Lemma chainM_ge ts : forall a, chainM a ts -> a <= clast a ts.
Proof.
  induction ts as [|k ts IH]; intros a H; simpl in *; [lia|]. destruct H as [H1 H2].
  destruct (contributes k) eqn:E.
  - specialize (H1 eq_refl). specialize (IH _ H2). destruct k as [r b h e kids]. cbn [cmono c_end] in *. lia.
  - apply IH. exact H2.
Qed.
Lemma chainM_lower ts : forall a a', a' <= a -> chainM a ts -> chainM a' ts.
Proof.
  induction ts as [|k ts IH]; intros a a' Hle H; simpl in *; [exact I|]. destruct H as [H1 H2]. split.
  - intros Hc. eapply cmono_weaken; [apply H1; exact Hc | exact Hle | lia].
  - destruct (contributes k); [exact H2 | eapply IH; eauto].
Qed.
Lemma chainM_app ts1 : forall a ts2, chainM a (ts1 ++ ts2) <-> chainM a ts1 /\ chainM (clast a ts1) ts2.
Proof. induction ts1 as [|k ts1 IH]; intros a ts2; simpl; [tauto|]. rewrite IH. tauto. Qed.
Lemma clast_app ts1 : forall a ts2, clast a (ts1 ++ ts2) = clast (clast a ts1) ts2.
Proof. induction ts1 as [|k ts1 IH]; intros a ts2; simpl; [reflexivity|]. apply IH. Qed.
Lemma dead_chain ts : Forall dead ts -> forall a, chainM a ts /\ clast a ts = a.
Proof.
  induction 1 as [|k ts Hk _ IH]; intros a; simpl; [auto|]. rewrite (dead_contrib _ Hk).
  split; [split; [discriminate | apply IH] | apply IH].
Qed.

Lemma Sp_le a e ts : Sp a e ts -> a <= e.
Proof. intros [H1 H2]. pose proof (chainM_ge _ _ H1). lia. Qed.
Lemma Sp_nil a e : a <= e -> Sp a e [].
Proof. intros H. split; [exact I | exact H]. Qed.
Lemma Sp_dead a e ts : Forall dead ts -> a <= e -> Sp a e ts.
Proof. intros Hd H. destruct (dead_chain ts Hd a) as [H1 H2]. split; [exact H1 | rewrite H2; exact H]. Qed.
Lemma Sp_app a b e t1 t2 : Sp a b t1 -> Sp b e t2 -> Sp a e (t1 ++ t2).
Proof.
  intros [A1 A2] [B1 B2]. split.
  - apply chainM_app. split; [exact A1 | eapply chainM_lower; [exact A2 | exact B1]].
  - rewrite clast_app. pose proof (clast_mono t2 _ _ A2). lia.
Qed.
Lemma Sp_weaken a e a' e' ts : Sp a e ts -> a' <= a -> e <= e' -> Sp a' e' ts.
Proof.
  intros [H1 H2] Ha He. split; [eapply chainM_lower; eauto|]. pose proof (clast_mono ts _ _ Ha). lia.
Qed.

(* the chain in the form of ParseTreeSpec.cmono / cmono_forest *)
Lemma to_cchain ts : forall a hi, chainM a ts -> clast a ts <= hi ->
  cchain contributes (fun lo' k => cmono selp lo' hi k) a ts.
Proof.
  induction ts as [|k ts IH]; intros a hi H Hl; simpl in *; [exact I|]. destruct H as [H1 H2].
  destruct (contributes k) eqn:E.
  - split; [|apply IH; assumption]. intros _. pose proof (chainM_ge _ _ H2).
    eapply cmono_weaken; [apply H1; reflexivity | lia | lia].
  - split; [discriminate | apply IH; assumption].
Qed.
Lemma Sp_cmono_forest a e ts : Sp a e ts -> cmono_forest selp a e ts.
Proof. intros [H1 H2]. apply to_cchain; assumption. Qed.

Lemma Sp_wrap r b h e ts : Sp (pbyte b) (pbyte e) ts -> Sp (pbyte b) (pbyte e) [CT r b h e ts].
Proof.
  intros H. pose proof (Sp_le _ _ _ H) as Hle. destruct H as [H1 H2]. split; simpl.
  - split; [|exact I]. intros _. repeat split; try lia. apply to_cchain; assumption.
  - destruct (contributes (CT r b h e ts)); simpl; lia.
Qed.

(* ================================================================ logs that are flattenings of forests *)
Definition Fst (evs : list event) (ts : list ctree) : Prop :=
  hooks_of evs = flatten_forest ts /\ forallb wf_ct ts = true.
Lemma Fst_silent evs : hooks_of evs = [] -> Fst evs [].
Proof. intros H. split; [rewrite H; reflexivity | reflexivity]. Qed.
Lemma Fst_app a b ta tb : Fst a ta -> Fst b tb -> Fst (a ++ b) (ta ++ tb).
Proof.
  intros [H1 H2] [H3 H4]. split; [rewrite hooks_of_app, H1, H3, flatten_forest_app; reflexivity|].
  rewrite forallb_app, H2, H4. reflexivity.
Qed.
Lemma Fst_r a b ta : Fst a ta -> hooks_of b = [] -> Fst (a ++ b) ta.
Proof. intros H Hb. rewrite <- (app_nil_r ta). apply Fst_app; [exact H | apply Fst_silent; exact Hb]. Qed.
Lemma Fst_l a b tb : hooks_of a = [] -> Fst b tb -> Fst (a ++ b) tb.
Proof. intros Ha H. change tb with ([] ++ tb). apply Fst_app; [apply Fst_silent; exact Ha | exact H]. Qed.
Lemma Fst_wrap k r p q h evs mid ts : closing h = true -> hooks_of mid = [] -> Fst evs ts ->
  Fst (EHook HkStart k r p :: evs ++ mid ++ [EHook h k r q]) [CT r p h q ts].
Proof.
  intros Hc Hm [He Hw]. split.
  - cbn [hooks_of]. rewrite !hooks_of_app, Hm, He. unfold flatten_forest. cbn [flat_map flatten hooks_of app]. rewrite app_nil_r. reflexivity.
  - cbn [forallb wf_ct]. rewrite Hc, Hw. reflexivity.
Qed.

(* ================================================================ the invariant *)
(* LB: result of a rule body; LS: of a bare sequence (a failing element leaves the cursor where it is);
   LM: of match.hpp / Action<Rule>::match; LE: of a complete Control<Rule>::match invocation.
   qt: "the rule being evaluated is quiet" (neither it nor anything below it is selected). *)
Inductive level := LB | LS | LM | LE.
Definition Inv (lv : level) (qt : Prop) (c : cursor) (x : result) : Prop :=
  match x with
  | Res o c' evs => exists ts, Fst evs ts /\ (qt -> Forall dead ts) /\
      match o with
      | Ok => Sp (pb c) (pb c') ts
      | Fail => match lv with
                | LB => True
                | LS => Sp (pb c) (pb c') ts
                | LM => Forall dead ts
                | LE => Forall dead ts /\ pb c <= pb c' end
      | Exc _ => match lv with
                 | LM => Forall dead ts \/ Sp (pb c) (pb c') ts
                 | LE => Sp (pb c) (pb c') ts
                 | _ => True end
      end
  | _ => True
  end.

Lemma Inv_weak lv qt c x : Inv LE qt c x -> Inv lv qt c x.
Proof.
  dres x; simpl; auto; intros [ts [F [Q H]]]; exists ts; (split; [exact F|]); (split; [exact Q|]); destruct lv; auto.
  - destruct H as [H1 H2]. apply Sp_dead; assumption.
  - destruct H; assumption.
Qed.
Lemma Inv_S_B qt c x : Inv LS qt c x -> Inv LB qt c x.
Proof. dres x; simpl; auto; intros [ts [F [Q H]]]; exists ts; auto. Qed.
Lemma Inv_qt lv (qt qt' : Prop) c x : (qt' -> qt) -> Inv lv qt c x -> Inv lv qt' c x.
Proof. intros Hq. dres x; simpl; auto; intros [ts [F [Q H]]]; exists ts; auto. Qed.

Lemma Inv_ok_nil lv qt c evs : hooks_of evs = [] -> Inv lv qt c (Res Ok c evs).
Proof. intros H. exists []. split; [apply Fst_silent; exact H|]. split; [constructor | apply Sp_nil; lia]. Qed.
Lemma Inv_fail_nil lv qt c evs : hooks_of evs = [] -> Inv lv qt c (Res Fail c evs).
Proof.
  intros H. exists []. split; [apply Fst_silent; exact H|]. split; [constructor|].
  destruct lv; auto; try (apply Sp_nil; lia). split; [constructor | lia].
Qed.
Lemma Inv_exc_nil lv qt c e evs : hooks_of evs = [] -> Inv lv qt c (Res (Exc e) c evs).
Proof.
  intros H. exists []. split; [apply Fst_silent; exact H|]. split; [constructor|].
  destruct lv; auto; try (apply Sp_nil; lia).
Qed.

(* the callee's Ok or Fail result, then the continuation from where it left the cursor *)
Lemma Inv_cont lv qt c o c1 evs y : lv = LB \/ lv = LS -> (forall e, o <> Exc e) ->
  Inv LS qt c (Res o c1 evs) -> Inv lv qt c1 y -> Inv lv qt c (prepend evs y).
Proof.
  intros Hlv Ho [ts1 [F1 [Q1 S1]]] Hy.
  assert (S1' : Sp (pb c) (pb c1) ts1) by (destruct o; [exact S1 | exact S1 | exfalso; eapply Ho; reflexivity]).
  dres y; simpl in *; auto; destruct Hy as [ts2 [F2 [Q2 S2]]]; exists (ts1 ++ ts2);
    (split; [apply Fst_app; assumption|]); (split; [intros q; apply Forall_app; auto|]).
  - eapply Sp_app; eassumption.
  - destruct Hlv; subst lv; auto. eapply Sp_app; eassumption.
  - destruct Hlv; subst lv; auto.
Qed.
(* a failed callee whose failure the body turns into success (or keeps), cursor unchanged *)
Lemma Inv_fail_ok lv qt c c1 evs evs' : hooks_of evs' = [] -> Inv LS qt c (Res Fail c1 evs) -> Inv lv qt c (Res Ok c1 (evs ++ evs')).
Proof. intros Hn [ts [F [Q S]]]. exists ts. split; [apply Fst_r; assumption|]. auto. Qed.
Lemma Inv_fail_ok0 lv qt c c1 evs : Inv LS qt c (Res Fail c1 evs) -> Inv lv qt c (Res Ok c1 evs).
Proof. intros [ts [F [Q S]]]. exists ts. auto. Qed.
(* body-level results other than Ok only have to account for their events *)
Lemma Inv_nonok lv qt c c' o c1 c2 evs evs' o' : Inv lv qt c (Res o c1 evs) -> hooks_of evs' = [] -> o' <> Ok ->
  Inv LB qt c' (Res o' c2 (evs ++ evs')).
Proof.
  intros [ts [F [Q _]]] Hn Ho. exists ts. split; [apply Fst_r; assumption|]. split; [exact Q|].
  destruct o'; try congruence; exact I.
Qed.
Lemma Inv_nonok0 lv qt c c' o c1 c2 evs o' : Inv lv qt c (Res o c1 evs) -> o' <> Ok -> Inv LB qt c' (Res o' c2 evs).
Proof.
  intros [ts [F [Q _]]] Ho. exists ts. split; [exact F|]. split; [exact Q|]. destruct o'; try congruence; exact I.
Qed.

Lemma Inv_guard lv qt m s c x : lv = LB \/ lv = LS -> Inv lv qt c x -> Inv LB qt c (guard m s x).
Proof.
  intros Hlv. dres x; simpl; auto; intros [ts [F [Q H]]]; exists ts; auto.
Qed.
Lemma Inv_st_scope lv qt b r c0 c x : Inv lv qt c x -> Inv lv qt c (st_scope b r c0 x).
Proof.
  dres x; simpl; auto; intros [ts [F [Q H]]]; exists ts; (split; [|split; [exact Q | exact H]]).
  - change (EStNew r (cpos c0) :: evs ++ (if b then [EStSuccess r (cpos c1)] else []) ++ [EStDrop r])
      with ([EStNew r (cpos c0)] ++ evs ++ (if b then [EStSuccess r (cpos c1)] else []) ++ [EStDrop r]).
    apply Fst_l; [reflexivity|]. apply Fst_r; [exact F | destruct b; reflexivity].
  - change (EStNew r (cpos c0) :: evs ++ [EStDrop r]) with ([EStNew r (cpos c0)] ++ evs ++ [EStDrop r]).
    apply Fst_l; [reflexivity|]. apply Fst_r; [exact F | reflexivity].
  - change (EStNew r (cpos c0) :: evs ++ [EStDrop r]) with ([EStNew r (cpos c0)] ++ evs ++ [EStDrop r]).
    apply Fst_l; [reflexivity|]. apply Fst_r; [exact F | reflexivity].
Qed.
Lemma Inv_traced lv qt k r a m c x : Inv lv qt c x -> Inv lv qt c (traced k r a m c x).
Proof.
  destruct x as [o c' evs| |]; simpl; auto. intros [ts [F [Q H]]]. exists ts. split; [|split; [exact Q | exact H]].
  change (EEnter k r a m (cpos c) :: evs ++ [EExit k r (okind o) (cpos c')]) with ([EEnter k r a m (cpos c)] ++ evs ++ [EExit k r (okind o) (cpos c')]).
  apply Fst_l; [reflexivity|]. apply Fst_r; [exact F | reflexivity].
Qed.

End Chains.
Arguments Inv : simpl never.

(* ================================================================ one lemma per helper *)
Section Engine.
Variable selp : rid -> option transform.
Variable C : cfg.
Hypothesis Hunwind : forall k, has_unwind C k = true.
Hypothesis Hnothrow : forall fam r b e t, abeh C fam r b e <> AThrow t.
Notation Inv := (Inv selp).
Notation dead := (dead selp).
Notation Sp := (Sp selp).

(* heads whose sub-rules are all matched left to right on the input itself: everything except the
   and-predicate at< R > and rematch< Head, Rules... > with at least one Rule *)
Definition span_head (h : head) (subs : list rid) : bool :=
  match h with
  | HAt => false
  | HRematch => match subs with _ :: _ :: _ => false | _ => true end
  | _ => true
  end.

Section HelperFacts.
Variable qt : Prop.
Variable A : rid -> Prop.
Variable ev : dyn -> rid -> cursor -> result.
Hypothesis Hev : forall d r c, A r -> Inv LE qt c (ev d r c).

Lemma LBS_B : LB = LB \/ LB = LS. Proof. left; reflexivity. Qed.
Lemma LBS_S : LS = LB \/ LS = LS. Proof. right; reflexivity. Qed.
Hint Resolve LBS_B LBS_S : core.

Lemma nexc_ok : forall e, Ok <> Exc e. Proof. discriminate. Qed.
Lemma nexc_fail : forall e, Fail <> Exc e. Proof. discriminate. Qed.
Hint Resolve nexc_ok nexc_fail : core.

Lemma seq_all_I d rs : Forall A rs -> forall c, Inv LS qt c (seq_all ev d rs c).
Proof.
  induction 1 as [|r rs Hr _ IH]; intros c; simpl; [apply Inv_ok_nil; reflexivity|]. unfold bind.
  pose proof (Hev d r c Hr) as H. dres (ev d r c); try exact I; try (apply Inv_weak; exact H).
  eapply Inv_cont; [auto | apply nexc_ok | apply Inv_weak; exact H | apply IH].
Qed.

Lemma sor_any_I d rs : Forall A rs -> forall c, Inv LB qt c (sor_any ev d rs c).
Proof.
  induction 1 as [|r rs Hr Hrs IH]; intros c; [apply Inv_fail_nil; reflexivity|].
  destruct rs as [|r2 rs']; [apply Inv_weak, Hev; exact Hr|].
  change (sor_any ev d (r :: r2 :: rs') c) with (match ev (req d) r c with Res Fail c' evs => prepend evs (sor_any ev d (r2 :: rs') c') | x => x end).
  pose proof (Hev (req d) r c Hr) as H. dres (ev (req d) r c); try exact I; try (apply Inv_weak; exact H).
  eapply Inv_cont; [auto | apply nexc_fail | apply Inv_weak; exact H | apply IH].
Qed.

Lemma star_loop_I n d rs : Forall A rs -> forall c, Inv LB qt c (star_loop ev n d rs c).
Proof.
  intros Hrs. induction n as [|n IH]; intros c; simpl; [exact I|].
  pose proof (seq_all_I (req d) rs Hrs c) as H. dres (seq_all ev (req d) rs c); try exact I.
  - eapply Inv_cont; [auto | apply nexc_ok | exact H | apply IH].
  - apply Inv_fail_ok0; exact H.
  - apply Inv_S_B; exact H.
Qed.

Lemma Inv_bump lv c c2 evs : bump_scan (eol_ch (ceol C)) 1 c = Some c2 ->
  Inv LE qt evs (Res Fail c lv) -> Inv LS qt evs (Res Fail c2 lv).
Proof.
  intros Hb [ts [F [Q [Hd Hp]]]]. exists ts. split; [exact F|]. split; [exact Q|].
  apply Sp_dead; [exact Hd|]. apply RaisePos.bump_scan_PB in Hb. destruct Hb as [pre [_ Hb]]. unfold RaisePos.PB in Hb. unfold pb in *. lia.
Qed.

Lemma until1_I n d cn : A cn -> forall c, Inv LB qt c (until1_loop C ev n d cn c).
Proof.
  intros Hc. induction n as [|n IH]; intros c; cbn [until1_loop]; [exact I|].
  pose proof (Hev (req d) cn c Hc) as H. dres (ev (req d) cn c); try exact I; try (apply Inv_weak; exact H).
  destruct (in_empty c0); [apply Inv_weak; exact H|].
  destruct (bump_scan (eol_ch (ceol C)) 1 c0) as [c2|] eqn:Eb; [|exact I].
  eapply Inv_cont; [auto | apply nexc_fail | eapply Inv_bump; eassumption | apply IH].
Qed.

Lemma until2_I n d cn r : A cn -> A r -> forall c, Inv LB qt c (until2_loop ev n d cn r c).
Proof.
  intros Hc Hr. induction n as [|n IH]; intros c; simpl; [exact I|].
  pose proof (Hev (req d) cn c Hc) as H. dres (ev (req d) cn c); try exact I; try (apply Inv_weak; exact H).
  pose proof (Hev (opt_ d) r c0 Hr) as H2. dres (ev (opt_ d) r c0); try exact I.
  - rewrite prepend_app.
    eapply Inv_cont; [auto | apply nexc_fail | apply Inv_weak; exact H|].
    eapply Inv_cont; [auto | apply nexc_ok | apply Inv_weak; exact H2 | apply IH].
  - eapply (Inv_cont _ LB qt c Fail c0 evs (Res Fail c1 evs0)); [auto | apply nexc_fail | apply Inv_weak; exact H | apply Inv_weak; exact H2].
  - eapply (Inv_cont _ LB qt c Fail c0 evs (Res (Exc e) c1 evs0)); [auto | apply nexc_fail | apply Inv_weak; exact H | apply Inv_weak; exact H2].
Qed.

Lemma rep_loop_I k d r : A r -> forall c, Inv LS qt c (rep_loop ev k d r c).
Proof.
  intros Hr. induction k as [|k IH]; intros c; simpl; [apply Inv_ok_nil; reflexivity|]. unfold bind.
  pose proof (Hev d r c Hr) as H. dres (ev d r c); try exact I; try (apply Inv_weak; exact H).
  eapply Inv_cont; [auto | apply nexc_ok | apply Inv_weak; exact H | apply IH].
Qed.

Lemma repopt_loop_I k d r : A r -> forall c, Inv LB qt c (fst (repopt_loop ev k d r c)).
Proof.
  intros Hr. induction k as [|k IH]; intros c; simpl; [apply Inv_ok_nil; reflexivity|].
  pose proof (Hev (req d) r c Hr) as H. dres (ev (req d) r c); simpl; try exact I; try (apply Inv_weak; exact H).
  - specialize (IH c0). destruct (repopt_loop ev k d r c0) as [x b]. simpl in *.
    eapply Inv_cont; [auto | apply nexc_ok | apply Inv_weak; exact H | exact IH].
  - apply Inv_fail_ok0. apply Inv_weak; exact H.
Qed.

(* not_at< R >: when it succeeds, R failed and contributes nothing; the cursor is where it was *)
Lemma not_at_I d r1 c : A r1 -> Inv LB qt c (h_at ev true d r1 c).
Proof.
  intros H1. unfold h_at, look. pose proof (Hev (set_A (opt_ d) false) r1 c H1) as H.
  dres (ev (set_A (opt_ d) false) r1 c); try exact I.
  - eapply Inv_nonok0; [exact H | discriminate].
  - destruct H as [ts [F [Q [Hd _]]]]. exists ts. split; [exact F|]. split; [exact Q|]. apply Sp_dead; [exact Hd | lia].
  - eapply Inv_nonok0; [exact H | discriminate].
Qed.

Lemma h_seq_I d rs c : Forall A rs -> Inv LB qt c (h_seq ev d rs c).
Proof.
  intros Hrs. unfold h_seq. destruct rs as [|r1 [|r2 rs]].
  - apply (Inv_guard selp LS); [auto | apply seq_all_I; exact Hrs].
  - inversion Hrs; subst. apply Inv_weak, Hev; assumption.
  - apply (Inv_guard selp LS); [auto | apply seq_all_I; exact Hrs].
Qed.

Lemma star_strict_I n d r1 rs : A r1 -> Forall A rs -> forall c, Inv LB qt c (star_strict_loop ev n d r1 rs c).
Proof.
  intros H1 Hrs. induction n as [|n IH]; intros c; simpl; [exact I|].
  pose proof (Hev (req d) r1 c H1) as H. dres (ev (req d) r1 c); try exact I; try (apply Inv_weak; exact H).
  - pose proof (h_seq_I (opt_ d) rs c0 Hrs) as H2. dres (h_seq ev (opt_ d) rs c0); try exact I.
    + rewrite prepend_app.
      eapply Inv_cont; [auto | apply nexc_ok | apply Inv_weak; exact H|].
      eapply Inv_cont; [auto | apply nexc_ok | | apply IH].
      destruct H2 as [ts [F [Q S]]]. exists ts. auto.
    + eapply (Inv_cont _ LB qt c Ok c0 evs (Res Fail c1 evs0)); [auto | apply nexc_ok | apply Inv_weak; exact H | exact H2].
    + eapply (Inv_cont _ LB qt c Ok c0 evs (Res (Exc e) c1 evs0)); [auto | apply nexc_ok | apply Inv_weak; exact H | exact H2].
  - apply Inv_fail_ok0. apply Inv_weak; exact H.
Qed.

Lemma run_inline_silent acts_ b e : hooks_of (snd (run_inline C acts_ b e)) = [].
Proof.
  induction acts_ as [|a tl IH]; simpl; [reflexivity|].
  destruct (ibeh C a b e) as [[|]|t]; simpl; try reflexivity.
  destruct (run_inline C tl b e) as [x evs]. simpl in *. exact IH.
Qed.
Lemma run_inline0_silent acts_ p : hooks_of (snd (run_inline0 C acts_ p)) = [].
Proof.
  induction acts_ as [|a tl IH]; simpl; [reflexivity|].
  destruct (ibeh C a p p) as [[|]|t]; simpl; try reflexivity.
  destruct (run_inline0 C tl p) as [x evs]. simpl in *. exact IH.
Qed.
Lemma inline_result_I x c c1 c2 pre : hooks_of (snd x) = [] -> Inv LE qt c (Res Ok c1 pre) ->
  Inv LB qt c (inline_result x c1 c2 pre).
Proof.
  intros Hn H. destruct x as [[[|]|t] evs]; simpl in *.
  - destruct H as [ts [F [Q S]]]. exists ts. split; [apply Fst_r; assumption|]. auto.
  - eapply Inv_nonok; [exact H | exact Hn | discriminate].
  - eapply Inv_nonok; [exact H | exact Hn | discriminate].
Qed.

Lemma atom_I h c x : head_wf h -> eval_atom (ceol C) h c = Some x -> Inv LB qt c x.
Proof.
  intros Hw Ha. pose proof (ActionFacts.eval_atom_noev C h c x Ha) as Hn.
  pose proof (RaisePos.atom_PB (ceol C) h c x false Hw Ha) as Hg.
  dres x; simpl in Hn, Hg; try exact I; subst evs.
  - exists []. split; [apply Fst_silent; reflexivity|]. split; [constructor|]. apply Sp_nil.
    destruct Hg as [pre [_ Hp]]. unfold RaisePos.PB in Hp. unfold pb. lia.
  - exists []. split; [apply Fst_silent; reflexivity|]. split; [constructor | exact I].
  - exists []. split; [apply Fst_silent; reflexivity|]. split; [constructor | exact I].
Qed.

Lemma eval_head_I n self h subs d c : head_wf h -> span_head h subs = true -> (forall r, In r subs -> A r) ->
  Inv LB qt c (eval_head C ev n self h subs d c).
Proof.
  intros Hw Hsp HA. assert (HF : Forall A subs) by (apply Forall_forall; exact HA).
  unfold eval_head.
  destruct (eval_atom (ceol C) h c) as [x|] eqn:Ea; [eapply atom_I; eauto|].
  assert (F : Inv LB qt c (Res Fail c [])) by (apply Inv_fail_nil; reflexivity).
  destruct h; try exact F; try (simpl in Ea; discriminate Ea).
  - apply h_seq_I; exact HF.
  - apply sor_any_I; exact HF.
  - apply star_loop_I; exact HF.
  - (* plus *) destruct subs as [|r1 [|? ?]]; try exact F. unfold h_plus, bind.
    pose proof (Hev d r1 c (HA r1 (or_introl eq_refl))) as H. dres (ev d r1 c); try exact I; try (apply Inv_weak; exact H).
    eapply Inv_cont; [auto | apply nexc_ok | apply Inv_weak; exact H | apply star_loop_I; exact HF].
  - (* partial *) unfold h_partial. pose proof (seq_all_I (req d) subs HF c) as H. dres (seq_all ev (req d) subs c); try exact I.
    + apply Inv_S_B; exact H.
    + apply Inv_fail_ok0; exact H.
    + apply Inv_S_B; exact H.
  - (* at *) discriminate Hsp.
  - (* not_at *) destruct subs as [|r1 [|? ?]]; try exact F. apply not_at_I, HA; simpl; auto.
  - destruct subs as [|r1 [|? ?]]; try exact F. apply (Inv_guard selp LB); [auto|]. apply until1_I, HA; simpl; auto.
  - destruct subs as [|cn [|r1 [|? ?]]]; try exact F. apply (Inv_guard selp LB); [auto|]. apply until2_I; apply HA; simpl; auto.
  - destruct subs as [|r1 [|? ?]]; try exact F. apply (Inv_guard selp LS); [auto|]. apply rep_loop_I, HA; simpl; auto.
  - (* rep_min_max *) destruct subs as [|r1 [|? ?]]; try exact F. assert (A1 : A r1) by (apply HA; simpl; auto).
    unfold h_rep_min_max. apply (Inv_guard selp LB); [auto|]. unfold bind.
    pose proof (rep_loop_I mn (opt_ d) r1 A1 c) as H. dres (rep_loop ev mn (opt_ d) r1 c); try exact I; try (apply Inv_S_B; exact H).
    eapply Inv_cont; [auto | apply nexc_ok | exact H|].
    pose proof (repopt_loop_I (mx - mn) d r1 A1 c0) as H2. destruct (repopt_loop ev (mx - mn) d r1 c0) as [x b]. simpl in H2.
    dres x; try exact I; try exact H2. destruct b; [|exact H2].
    eapply Inv_cont; [auto | apply nexc_ok | | apply not_at_I; exact A1].
    destruct H2 as [ts [F2 [Q2 S2]]]. exists ts. auto.
  - destruct subs as [|r1 [|? ?]]; try exact F. apply repopt_loop_I, HA; simpl; auto.
  - (* if_then_else *) destruct subs as [|cn [|t [|e [|? ?]]]]; try exact F. unfold h_if_then_else. apply (Inv_guard selp LB); [auto|].
    pose proof (Hev (req d) cn c (HA cn (or_introl eq_refl))) as H. dres (ev (req d) cn c); try exact I; try (apply Inv_weak; exact H).
    + eapply Inv_cont; [auto | apply nexc_ok | apply Inv_weak; exact H | apply Inv_weak, Hev, HA; simpl; auto].
    + eapply Inv_cont; [auto | apply nexc_fail | apply Inv_weak; exact H | apply Inv_weak, Hev, HA; simpl; auto].
  - (* if_must *) destruct subs as [|cn rest_]; try exact F. unfold h_if_must.
    pose proof (Hev (if dflt then req d else d) cn c (HA cn (or_introl eq_refl))) as H.
    dres (ev (if dflt then req d else d) cn c); try exact I; try (apply Inv_weak; exact H).
    + destruct rest_ as [|m ?]; [apply Inv_weak; exact H|].
      pose proof (Hev d m c0 (HA m (or_intror (or_introl eq_refl)))) as H2. dres (ev d m c0); try exact I.
      * eapply (Inv_cont _ LB qt c Ok c0 evs (Res Ok c1 evs0)); [auto | apply nexc_ok | apply Inv_weak; exact H | apply Inv_weak; exact H2].
      * eapply (Inv_cont _ LB qt c Ok c0 evs (Res Ok c1 evs0)); [auto | apply nexc_ok | apply Inv_weak; exact H|].
        apply Inv_fail_ok0. apply Inv_weak; exact H2.
      * eapply (Inv_cont _ LB qt c Ok c0 evs (Res (Exc e) c1 evs0)); [auto | apply nexc_ok | apply Inv_weak; exact H | apply Inv_weak; exact H2].
    + destruct dflt; [apply Inv_fail_ok0 | ]; apply Inv_weak; exact H.
  - (* must *) destruct subs as [|r1 [|? ?]]; try exact F. unfold h_must, raise_at.
    pose proof (Hev (opt_ d) r1 c (HA r1 (or_introl eq_refl))) as H. dres (ev (opt_ d) r1 c); try exact I; try (apply Inv_weak; exact H).
    eapply Inv_nonok; [exact H | reflexivity | discriminate].
  - (* raise *) destruct subs as [|t [|? ?]]; exact F.
  - (* strict *) destruct subs as [|r1 rs]; try exact F. unfold h_strict. apply (Inv_guard selp LB); [auto|].
    pose proof (Hev (req d) r1 c (HA r1 (or_introl eq_refl))) as H. dres (ev (req d) r1 c); try exact I; try (apply Inv_weak; exact H).
    + eapply Inv_cont; [auto | apply nexc_ok | apply Inv_weak; exact H | apply h_seq_I]. inversion HF; assumption.
    + apply Inv_fail_ok0. apply Inv_weak; exact H.
  - destruct subs as [|r1 rs]; try exact F. inversion HF; subst. apply (Inv_guard selp LB); [auto|]. apply star_strict_I; assumption.
  - (* rematch< Head > *) destruct subs as [|hd rs]; try exact F. destruct rs as [|? ?]; [|discriminate Hsp].
    unfold h_rematch. apply Inv_weak, Hev, HA; simpl; auto.
  - (* try_catch_return_false *) destruct subs as [|r1 [|? ?]]; try exact F. unfold h_try_false.
    pose proof (Hev (opt_ d) r1 c (HA r1 (or_introl eq_refl))) as H. dres (ev (opt_ d) r1 c); try exact I.
    + apply Inv_weak; exact H.
    + eapply Inv_nonok0; [exact H | discriminate].
    + eapply Inv_nonok0; [exact H | destruct (catches f e); discriminate].
  - (* try_catch_raise_nested *) destruct subs as [|r1 [|? ?]]; try exact F. unfold h_try_nested.
    pose proof (Hev (opt_ d) r1 c (HA r1 (or_introl eq_refl))) as H. dres (ev (opt_ d) r1 c); try exact I.
    + apply Inv_weak; exact H.
    + eapply Inv_nonok0; [exact H | discriminate].
    + destruct (catches f e); [eapply Inv_nonok; [exact H | reflexivity | discriminate] | eapply Inv_nonok0; [exact H | discriminate]].
  - destruct subs as [|r1 [|? ?]]; try exact F. apply Inv_st_scope, Inv_weak, Hev, HA; simpl; auto.
  - destruct subs as [|r1 [|? ?]]; try exact F. apply Inv_weak, Hev, HA; simpl; auto.
  - destruct subs as [|r1 [|? ?]]; try exact F. apply Inv_weak, Hev, HA; simpl; auto.
  - destruct subs as [|r1 [|? ?]]; try exact F. apply Inv_weak, Hev, HA; simpl; auto.
  - destruct subs as [|r1 [|? ?]]; try exact F. apply Inv_weak, Hev, HA; simpl; auto.
  - destruct subs; try exact F. unfold h_apply. destruct (dA d); [|apply Inv_ok_nil; reflexivity].
    apply inline_result_I; [apply run_inline_silent | apply Inv_ok_nil; reflexivity].
  - destruct subs; try exact F. unfold h_apply0. destruct (dA d); [|apply Inv_ok_nil; reflexivity].
    apply inline_result_I; [apply run_inline0_silent | apply Inv_ok_nil; reflexivity].
  - destruct subs as [|r1 [|? ?]]; try exact F. unfold h_if_apply.
    destruct (dA d && _); [|apply Inv_weak, Hev, HA; simpl; auto].
    pose proof (Hev (set_A (opt_ d) true) r1 c (HA r1 (or_introl eq_refl))) as H. dres (ev (set_A (opt_ d) true) r1 c); try exact I.
    + apply inline_result_I; [apply run_inline_silent | exact H].
    + eapply Inv_nonok0; [exact H | discriminate].
    + eapply Inv_nonok0; [exact H | discriminate].
Qed.
End HelperFacts.

(* ---------- match.hpp, Action< Rule >::match ---------- *)
Lemma run_action_silent d ak r b e : hooks_of (snd (run_action C d ak r b e)) = [].
Proof. unfold run_action. destruct (dA d); [|reflexivity]. destruct ak; reflexivity. Qed.

Lemma Inv_wrap_dead qt c o c2 k r p q h evs mid ts : closing h = true -> h <> HkSuccess -> hooks_of mid = [] ->
  Fst evs ts -> o <> Ok -> Inv LM qt c (Res o c2 (EHook HkStart k r p :: evs ++ mid ++ [EHook h k r q])).
Proof.
  intros Hc Hh Hm F Ho. exists [CT r p h q ts]. split; [apply Fst_wrap; assumption|].
  assert (D : Forall dead [CT r p h q ts]) by (constructor; [apply dead_nonsuccess; exact Hh | constructor]).
  split; [intros _; exact D|]. destruct o; [congruence | exact D | left; exact D].
Qed.

Lemma match_hpp_M (qt : Prop) ak body d r c : (qt -> selp r = None) ->
  (forall d c, Inv LB qt c (body d c)) -> Inv LM qt c (match_hpp C ak body d r c).
Proof.
  intros Hq Hb. unfold match_hpp. set (g := use_guard d ak).
  pose proof (Hb (if g then opt_ d else d) c) as H.
  destruct (body (if g then opt_ d else d) c) as [[| |e] c1 evs| |]; try exact I; destruct H as [ts [F [Q S]]].
  - pose proof (run_action_silent d ak r (cpos c) (cpos c1)) as Hs.
    destruct (run_action C d ak r (cpos c) (cpos c1)) as [[[|]|t] ea] eqn:Er; simpl in Hs.
    + exists [CT r (cpos c) HkSuccess (cpos c1) ts]. split; [apply Fst_wrap; [reflexivity | exact Hs | exact F]|].
      split; [intros q; constructor; [apply dead_wrap; [apply Hq; exact q | apply Q; exact q] | constructor]|].
      apply Sp_wrap. exact S.
    + unfold fail_hook. rewrite <- app_comm_cons, <- app_assoc.
      destruct (raise_on_failure C (dCtl d) r); apply (Inv_wrap_dead qt c _ _ _ _ _ _ _ _ _ ts); try assumption; try reflexivity; discriminate.
    + exfalso. unfold run_action in Er. destruct (dA d); [|inversion Er].
      destruct ak as [|isb|isb|mk]; try (inversion Er; fail);
      destruct (abeh C (dAct d) r (cpos c) (cpos c1)) as [x|t'] eqn:Eab; inversion Er; subst; eapply Hnothrow; eauto.
  - unfold fail_hook. rewrite <- app_comm_cons.
    destruct (raise_on_failure C (dCtl d) r);
      apply (Inv_wrap_dead qt c _ _ (dCtl d) r (cpos c) (cpos c1) HkFailure evs [] ts); try assumption; try reflexivity; discriminate.
  - rewrite Hunwind.
    apply (Inv_wrap_dead qt c _ _ (dCtl d) r (cpos c) (cpos c1) HkUnwind evs [] ts); try assumption; try reflexivity; discriminate.
Qed.

Lemma Inv_quiet_LM (qt : Prop) c x : qt -> Inv LB qt c x -> Inv LM qt c x.
Proof.
  intros q. dres x; try exact (fun H => H); intros [ts [F [Q S]]]; exists ts; (split; [exact F|]); (split; [exact Q|]).
  - apply Q; exact q.
  - left. apply Q; exact q.
Qed.

Lemma action_match_M qt ev plain enabled m d r c :
  (forall d c, Inv LE qt c (ev d r c)) -> (forall d c, Inv LM qt c (plain d c)) ->
  Inv LM qt c (action_match ev plain enabled m d r c).
Proof.
  intros He Hp. destruct m; cbn [action_match].
  - apply Inv_weak, He.
  - apply Inv_st_scope, Hp.
  - apply Inv_st_scope, Inv_weak, He.
  - apply Hp. - apply Hp. - apply Hp.
  - destruct enabled; [|apply Hp]. destruct (n <? S (dDepth d))%nat; [|apply Hp]. unfold raise_at. apply Inv_exc_nil. reflexivity.
  - pose proof (Hp d (mkcur (firstn n (rest c)) (cpos c))) as H.
    destruct (plain d (mkcur (firstn n (rest c)) (cpos c))) as [[| |e] c1 evs| |]; try exact I; try exact H.
    destruct (in_empty c1 && negb (is_nil (skipn n (rest c)))); [|exact H].
    unfold raise_at. destruct H as [ts [F [Q S]]]. exists ts. split; [apply Fst_r; [exact F | reflexivity]|]. split; [exact Q|]. right. exact S.
  - pose proof (Hp d c) as H. destruct (plain d c) as [[| |e] c1 evs| |]; try exact I; try exact H.
    destruct (n <? length (rest c) - length (rest c1))%nat; [|exact H].
    destruct H as [ts [F [Q S]]]. exists ts. split; [exact F|]. split; [exact Q|]. right. exact S.
Qed.

Lemma good_pb m c o c' evs : good RaisePos.PB m c (Res o c' evs) -> pb c <= pb c'.
Proof.
  assert (K : adv RaisePos.PB c c' -> pb c <= pb c') by (intros [pre [_ Hp]]; unfold RaisePos.PB in Hp; unfold pb; lia).
  destruct o; simpl; auto. destruct m; [intros ->; lia | exact K].
Qed.
Lemma Inv_LM_LE qt m c x : good RaisePos.PB m c x -> Inv LM qt c x -> Inv LE qt c x.
Proof.
  dres x; try (intros _ H; exact H); intros Hg [ts [F [Q S]]]; apply good_pb in Hg; exists ts; (split; [exact F|]); (split; [exact Q|]).
  - split; assumption.
  - destruct S as [S|S]; [apply Sp_dead; assumption | exact S].
Qed.

(* ---------- the induction over evaluation ---------- *)
Section Table.
Variable G : grammar.
Variable quiet : rid -> Prop.
Hypothesis HG : table_wf G.
Hypothesis Hspan : forall r nd, nth_error G r = Some nd -> span_head (nhead nd) (nsubs nd) = true.
Hypothesis Hq_sub : forall r nd s, nth_error G r = Some nd -> quiet r -> In s (nsubs nd) -> quiet s.
Hypothesis Hq_sel : forall r, quiet r -> selp r = None.
Hypothesis Hq_dis : forall r nd, nth_error G r = Some nd -> nenabled nd = false -> quiet r.

Theorem eval_I f : forall d r c, Inv LE (quiet r) c (eval G C f d r c).
Proof.
  induction f as [|f IH]; intros d r c; [exact I|].
  apply (Inv_LM_LE _ (dM d)); [apply RaisePos.eval_good_PB; exact HG|].
  simpl. destruct (nth_error G r) as [nd|] eqn:En; [|apply Inv_fail_nil; reflexivity].
  apply Inv_traced.
  assert (Hbody : forall d' c', Inv LB (quiet r) c' (eval_head C (eval G C f) f r (nhead nd) (nsubs nd) d' c')).
  { intros d' c'. apply (eval_head_I (quiet r) (fun s => In s (nsubs nd))); [| eapply HG; eauto | eapply Hspan; eauto | auto].
    intros d2 s c2 Hi. eapply Inv_qt; [|apply IH]. intros q. eapply Hq_sub; eauto. }
  assert (Hplain : forall ak d' c', Inv LM (quiet r) c'
            (if nenabled nd then match_hpp C ak (eval_head C (eval G C f) f r (nhead nd) (nsubs nd)) d' r c'
             else eval_head C (eval G C f) f r (nhead nd) (nsubs nd) d' c')).
  { intros ak d' c'. destruct (nenabled nd) eqn:Een.
    - apply match_hpp_M; [apply Hq_sel | exact Hbody].
    - apply Inv_quiet_LM; [eapply Hq_dis; eauto | apply Hbody]. }
  destruct (acts C (dAct d) r) as [| | |mk] eqn:Ea; try apply Hplain.
  apply action_match_M; [intros; apply IH | apply Hplain].
Qed.

Theorem engine_mono f d r c o c' evs : eval G C f d r c = Res o c' evs ->
  exists ts, call_forest (hooks_of evs) = Some ts /\ cmono_forest selp (pb c) (pb c') ts.
Proof.
  intros H. pose proof (eval_I f d r c) as K. rewrite H in K. destruct K as [ts [[He Hw] [_ S]]].
  exists ts. split; [rewrite He; apply call_forest_flatten; exact Hw|].
  apply Sp_cmono_forest. destruct o; [exact S | | exact S]. destruct S as [Hd Hp]. apply Sp_dead; assumption.
Qed.
End Table.
End Engine.

(* ================================================================ parse_tree's own table and control *)
Definition span_table (G : grammar) : bool := forallb (fun nd => span_head (nhead nd) (nsubs nd)) G.

Section PT.
Variable G : grammar.
Variable sel : selector.
Variable C : cfg.
Hypothesis HG : table_wf G.
Hypothesis Hspan : span_table G = true.
Hypothesis Hnothrow : forall fam r b e t, abeh C fam r b e <> AThrow t.

Definition quiet (r : rid) : Prop :=
  is_selected G sel r = false /\ forall r', reach G r r' -> is_selected G sel r' = false.

Lemma nth_pt_table r nd : nth_error (pt_table G sel) r = Some nd ->
  exists nd0, nth_error G r = Some nd0 /\ nhead nd = nhead nd0 /\ nsubs nd = nsubs nd0 /\ nenabled nd = pt_enabled (kind G sel) r nd0.
Proof.
  unfold pt_table. rewrite nth_pt_table_from. destruct (nth_error G r) as [nd0|]; simpl; [|discriminate].
  intros H. inversion H; subst. exists nd0. repeat split.
Qed.

Lemma pt_table_wf : table_wf (pt_table G sel).
Proof. intros r nd Hn. destruct (nth_pt_table r nd Hn) as [nd0 [H0 [Hh _]]]. rewrite Hh. eapply HG; eauto. Qed.

Lemma pt_table_span r nd : nth_error (pt_table G sel) r = Some nd -> span_head (nhead nd) (nsubs nd) = true.
Proof.
  intros Hn. destruct (nth_pt_table r nd Hn) as [nd0 [H0 [Hh [Hs _]]]]. rewrite Hh, Hs.
  unfold span_table in Hspan. rewrite forallb_forall in Hspan. apply Hspan. eapply nth_error_In; eauto.
Qed.

Lemma quiet_sub r nd s : nth_error (pt_table G sel) r = Some nd -> quiet r -> In s (nsubs nd) -> quiet s.
Proof.
  intros Hn [_ Hq] Hi. destruct (nth_pt_table r nd Hn) as [nd0 [H0 [_ [Hs _]]]].
  assert (Hin : In s (subs_of G r)) by (unfold subs_of; rewrite H0, <- Hs; exact Hi).
  split; [apply Hq, reach_one; exact Hin|]. intros r' Hr. apply Hq. eapply reach_step; eauto.
Qed.
Lemma quiet_sel r : quiet r -> selected G sel r = None.
Proof. intros [H _]. unfold is_selected in H. destruct (selected G sel r); [discriminate | reflexivity]. Qed.
Lemma quiet_dis r nd : nth_error (pt_table G sel) r = Some nd -> nenabled nd = false -> quiet r.
Proof.
  intros Hn He. destruct (nth_pt_table r nd Hn) as [nd0 [H0 [_ [_ Hen]]]]. rewrite He in Hen.
  unfold pt_enabled, kind, kind_at in Hen.
  destruct (selected G sel r) as [t|] eqn:Es.
  - exfalso. unfold selected, enabled_of in Es. rewrite H0 in Es. rewrite <- Hen in Es. discriminate Es.
  - destruct (is_leaf G sel leaf_level (subs_of G r)) eqn:El; [|discriminate Hen].
    split; [unfold is_selected; rewrite Es; reflexivity|].
    intros r' Hr. inversion Hr as [a b0 Hi|a m b0 Hi Hm]; subst.
    + exact (proj1 (is_leaf_closed G sel _ _ El r' Hi)).
    + exact (proj2 (is_leaf_closed G sel _ _ El m Hi) r' Hm).
Qed.

(* C12_engine_cmono *)
Theorem pt_engine_cmono f d r c o c' evs : eval (pt_table G sel) (pt_cfg C) f d r c = Res o c' evs ->
  exists ts, call_forest (hooks_of evs) = Some ts /\ cmono_forest (selected G sel) (pb c) (pb c') ts.
Proof.
  apply (engine_mono (selected G sel) (pt_cfg C) (fun _ => eq_refl) Hnothrow (pt_table G sel) quiet
           pt_table_wf pt_table_span quiet_sub quiet_sel quiet_dis).
Qed.

(* C12_spans_engine *)
Theorem pt_spans_engine f d r c c' evs : eval (pt_table G sel) (pt_cfg C) f d r c = Res Ok c' evs ->
  exists ch, pt_parse G sel C f d r c = PtTree (Node None null_pos None ch) /\
    forest_ok (pb c) (pb c') ch /\ tree_ok 0 (pb c') (Node None null_pos None ch).
Proof.
  intros H. destruct (pt_parse_exact G sel C Hnothrow f d r c Ok c' evs H) as [ts [Hts [_ [_ Hp]]]].
  destruct (pt_engine_cmono f d r c Ok c' evs H) as [ts' [Hts' Hm]]. rewrite Hts in Hts'. inversion Hts'; subst ts'.
  exists (deriv_forest (selected G sel) ts). split; [exact Hp|].
  assert (Hall : Forall (ParseTreeSpans.tree_goal (selected G sel)) ts) by (clear; induction ts; constructor; [apply deriv_ok | assumption]).
  assert (Hle : pb c <= pb c').
  { pose proof (RaisePos.eval_good_PB (pt_table G sel) (pt_cfg C) f d r c pt_table_wf) as Hg. rewrite H in Hg. eapply good_pb; exact Hg. }
  split.
  - apply (forest_from (selected G sel) ts Hall (pb c) (pb c) (pb c')); [lia | exact Hle | exact Hm].
  - cbn [tree_ok null_pos pbyte]. repeat split; try lia.
    apply (forest_from (selected G sel) ts Hall 0 (pb c) (pb c')); [lia | exact Hle | exact Hm].
Qed.
End PT.
