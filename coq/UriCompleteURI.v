(* UriCompleteURI.v — C20: completeness (hence exactness) of uri::URI on the generated table, by the computed certificate of
   UriCert2.v (soundness of the certificate: UriComplete2.cert2_sound); one file per production so that the three
   certificates are evaluated in parallel. *)
From PegtlV Require Import Base Grammar Engine ExactSound Regex Rfc3986 UriModel UriProof UriSoundURI UriCert2 UriComplete2.

Lemma complete_URI : forall s, bytes_ok s -> matches (rfc TURI) s -> uri_accepts TURI s.
Proof. apply complete_of_cert2. vm_cast_no_check (eq_refl true). Qed.

Lemma exact_URI : forall s, bytes_ok s -> (uri_accepts TURI s <-> matches (rfc TURI) s).
Proof. intros s Hs. split; [apply sound_URI; exact Hs | apply complete_URI; exact Hs]. Qed.
