(* EngineFacts.v — the cursor invariant of the engine, proved once for every head, every table,
   every configuration and every fuel, generically in a position relation P:
     good m c x :  Ok / Exc  -> the result cursor is a suffix position of c (never backwards, never beyond)
                   Fail      -> if m = required the WHOLE cursor record (rest, byte, line, column) is c
                   Err       -> impossible (no access outside [current, end))
   P := True gives C02/C03; P := "position = track of the consumed bytes" gives C06 (PosFacts.v). *)
From Coq Require Import Lia.
From PegtlV Require Import Base Decode Grammar Engine.
Local Open Scope N_scope.

(* ---------- small list facts ---------- *)
Lemma drop_app n : forall l tl, drop n l = Some tl -> exists pre, l = pre ++ tl /\ length pre = n.
Proof.
  induction n as [|n IH]; intros l tl H; simpl in H.
  - inversion H; subst. exists []. split; reflexivity.
  - destruct l as [|b l]; [discriminate|]. apply IH in H. destruct H as [pre [H1 H2]].
    exists (b :: pre). simpl. split; [f_equal; exact H1 | f_equal; exact H2].
Qed.
Lemma drop_some n : forall l, (n <= length l)%nat -> exists tl, drop n l = Some tl.
Proof.
  induction n as [|n IH]; intros l H; simpl; [eexists; reflexivity|].
  destruct l as [|b l]; simpl in H; [lia|]. apply IH. lia.
Qed.
Lemma take_some n : forall l, (n <= length l)%nat -> exists bs, take n l = Some bs.
Proof.
  induction n as [|n IH]; intros l H; simpl; [eexists; reflexivity|].
  destruct l as [|b l]; simpl in H; [lia|]. destruct (IH l) as [bs Hb]; [lia|]. rewrite Hb. eexists; reflexivity.
Qed.
Lemma cursor_eta c : mkcur (rest c) (cpos c) = c.
Proof. destruct c; reflexivity. Qed.

Section Inv.
Variable P : pos -> list byte -> pos -> Prop.
Hypothesis P_refl : forall p, P p [] p.
Hypothesis P_trans : forall p a q b r, P p a q -> P q b r -> P p (a ++ b) r.

Definition adv (c c' : cursor) : Prop := exists pre, rest c = pre ++ rest c' /\ P (cpos c) pre (cpos c').
Definition good (m : bool) (c : cursor) (x : result) : Prop :=
  match x with
  | Res Ok c' _ => adv c c'
  | Res Fail c' _ => if m then c' = c else adv c c'
  | Res (Exc _) c' _ => adv c c'
  | Oof => True
  | Err => False
  end.

Lemma adv_refl c : adv c c.
Proof. exists []. split; [reflexivity | apply P_refl]. Qed.
Lemma adv_trans a b c : adv a b -> adv b c -> adv a c.
Proof.
  intros [p1 [H1 Q1]] [p2 [H2 Q2]]. exists (p1 ++ p2). split.
  - rewrite H1, H2, app_assoc. reflexivity.
  - eapply P_trans; eauto.
Qed.
Lemma good_fail_same m c evs : good m c (Res Fail c evs).
Proof. simpl. destruct m; [reflexivity | apply adv_refl]. Qed.
Lemma good_ok_same m c evs : good m c (Res Ok c evs).
Proof. simpl. apply adv_refl. Qed.
Lemma good_weaken m c x : good true c x -> good m c x.
Proof. destruct m; [auto|]. destruct x as [[| |e] c' evs| |]; simpl; auto. intros ->. apply adv_refl. Qed.
Lemma good_prepend m c evs x : good m c x -> good m c (prepend evs x).
Proof. destruct x as [[| |e] c' e2| |]; simpl; auto. Qed.
Lemma good_append m c evs x : good m c x -> good m c (append x evs).
Proof. destruct x as [[| |e] c' e2| |]; simpl; auto. Qed.
Lemma good_traced m c k r a mm c0 x : good m c x -> good m c (traced k r a mm c0 x).
Proof. destruct x as [[| |e] c' e2| |]; simpl; auto. Qed.

(* a result that is "good" from a later cursor is good (in optional mode) from an earlier one *)
Lemma good_adv_l c c1 x : adv c c1 -> good false c1 x -> good false c x.
Proof.
  intros A. destruct x as [[| |e] c' e2| |]; simpl; auto; intros H; eapply adv_trans; eauto.
Qed.
Lemma good_false_of m c x : good m c x -> good false c x.
Proof. destruct m; [apply good_weaken with (m := false)|]; auto. Qed.

(* ---------- hypotheses on atoms and on scanning bumps (discharged per instance of P) ---------- *)
Variable C : cfg.
Variable okh : head -> Prop.
Hypothesis H_scan : forall n c c', bump_scan (eol_ch (ceol C)) n c = Some c' -> adv c c'.
Hypothesis H_atom : forall h c x m, okh h -> eval_atom (ceol C) h c = Some x -> good m c x.

Lemma bump_scan_some ch n : forall c, (n <= in_size c)%nat -> exists c', bump_scan ch n c = Some c'.
Proof.
  induction n as [|n IH]; intros c H; simpl; [eexists; reflexivity|].
  unfold in_size in H. destruct (rest c) as [|b tl] eqn:E; simpl in H; [lia|].
  apply IH. unfold in_size. simpl. lia.
Qed.

Section HelperFacts.
Variable ev : dyn -> rid -> cursor -> result.
Hypothesis Hev : forall d r c, good (dM d) c (ev d r c).

Ltac dres x := destruct x as [[| |?e] ?c ?evs| |].

Lemma guard_good m c x : good false c x -> good m c (guard m c x).
Proof.
  dres x; simpl; auto; destruct m; auto; intros _; apply adv_refl.
Qed.

Lemma bind_good c x k : good false c x -> (forall c1, adv c c1 -> good false c1 (k c1)) -> good false c (bind x k).
Proof.
  intros Hx Hk. dres x; simpl in *; auto.
  apply good_prepend. eapply good_adv_l; [exact Hx | apply Hk; exact Hx].
Qed.

Lemma seq_all_good d rs : forall c, good false c (seq_all ev d rs c).
Proof.
  induction rs as [|r rs IH]; intros c; simpl; [apply adv_refl|].
  apply bind_good; [eapply good_false_of; apply Hev | intros c1 _; apply IH].
Qed.

Lemma good_same_l m c x : good m c x -> forall c0, c = c0 -> good m c0 x.
Proof. intros H c0 <-. exact H. Qed.

Lemma sor_any_good d rs : forall c, good (dM d) c (sor_any ev d rs c).
Proof.
  induction rs as [|r rs IH]; intros c; [apply good_fail_same|].
  destruct rs as [|r2 rs']; [simpl; apply Hev|].
  change (sor_any ev d (r :: r2 :: rs') c) with
    (match ev (req d) r c with Res Fail c' evs => prepend evs (sor_any ev d (r2 :: rs') c') | x => x end).
  pose proof (Hev (req d) r c) as H.
  dres (ev (req d) r c); simpl in H.
  - exact H.
  - subst c0. apply good_prepend. apply IH.
  - exact H.
  - exact I.
  - contradiction.
Qed.

(* loops never fail locally; they may raise *)
Definition okexc (c : cursor) (x : result) : Prop :=
  match x with Res Ok c' _ => adv c c' | Res Fail _ _ => False | Res (Exc _) c' _ => adv c c' | Oof => True | Err => False end.
Lemma okexc_good m c x : okexc c x -> good m c x.
Proof. dres x; simpl; auto. contradiction. Qed.
Lemma okexc_prepend c evs x : okexc c x -> okexc c (prepend evs x).
Proof. dres x; simpl; auto. Qed.
Lemma okexc_adv_l c c1 x : adv c c1 -> okexc c1 x -> okexc c x.
Proof. intros A. dres x; simpl; auto; intros H; eapply adv_trans; eauto. Qed.

Lemma star_loop_ok n d rs : forall c, okexc c (star_loop ev n d rs c).
Proof.
  induction n as [|n IH]; intros c; simpl; [exact I|].
  pose proof (seq_all_good (req d) rs c) as H.
  dres (seq_all ev (req d) rs c); simpl in *; auto.
  apply okexc_prepend. eapply okexc_adv_l; [exact H | apply IH].
Qed.

Lemma until1_good n d cnd : forall c, good false c (until1_loop C ev n d cnd c).
Proof.
  induction n as [|n IH]; intros c; cbn [until1_loop]; [exact I|].
  pose proof (Hev (req d) cnd c) as H. dres (ev (req d) cnd c); cbn [good req dM] in H |- *; auto.
  subst c0. destruct (in_empty c) eqn:Ee; [apply adv_refl|].
  destruct (bump_scan_some (eol_ch (ceol C)) 1 c) as [c2 Hc2].
  { unfold in_empty in Ee. unfold in_size. destruct (rest c); [discriminate | simpl; lia]. }
  rewrite Hc2. apply good_prepend. eapply good_adv_l; [eapply H_scan; exact Hc2 | apply IH].
Qed.

Lemma until2_good n d cnd r : forall c, good false c (until2_loop ev n d cnd r c).
Proof.
  induction n as [|n IH]; intros c; simpl; [exact I|].
  pose proof (Hev (req d) cnd c) as H. dres (ev (req d) cnd c); simpl in *; auto.
  subst c0. pose proof (Hev (opt_ d) r c) as H2. dres (ev (opt_ d) r c); simpl in *; auto.
  apply good_prepend. eapply good_adv_l; [exact H2 | apply IH].
Qed.

Lemma rep_loop_good k d r : dM d = false -> forall c, good false c (rep_loop ev k d r c).
Proof.
  intros Hd. induction k as [|k IH]; intros c; simpl; [apply adv_refl|].
  apply bind_good; [pose proof (Hev d r c) as H; rewrite Hd in H; exact H | intros c1 _; apply IH].
Qed.

Lemma repopt_loop_ok k d r : forall c, okexc c (fst (repopt_loop ev k d r c)).
Proof.
  induction k as [|k IH]; intros c; simpl; [apply adv_refl|].
  pose proof (Hev (req d) r c) as H. dres (ev (req d) r c); simpl in *; auto.
  - specialize (IH c0). destruct (repopt_loop ev k d r c0) as [x b]. simpl in *.
    apply okexc_prepend. eapply okexc_adv_l; eauto.
  - subst c0. apply adv_refl.
Qed.

Lemma look_good inv m c x : x <> Err -> good m c (look inv c x).
Proof.
  intros Hx. dres x; simpl; auto; try (destruct inv; simpl; try apply adv_refl; destruct m; try reflexivity; apply adv_refl).
  all: try apply adv_refl. all: try congruence.
Qed.
Lemma good_not_err m c x : good m c x -> x <> Err.
Proof. intros H ->. exact H. Qed.

Lemma h_at_good inv d r1 c m : good m c (h_at ev inv d r1 c).
Proof. unfold h_at. apply look_good. eapply good_not_err. apply Hev. Qed.

Lemma h_seq_good d rs c : good (dM d) c (h_seq ev d rs c).
Proof.
  unfold h_seq. destruct rs as [|r1 [|r2 rs]].
  - apply guard_good. apply adv_refl.
  - apply Hev.
  - apply guard_good. apply seq_all_good.
Qed.

Lemma h_plus_good n d r1 c : good (dM d) c (h_plus ev n d r1 c).
Proof.
  unfold h_plus, bind. pose proof (Hev d r1 c) as H. dres (ev d r1 c); simpl in H; try exact H.
  apply good_prepend, okexc_good. eapply okexc_adv_l; [exact H | apply star_loop_ok].
Qed.

Lemma h_partial_good d rs c m : good m c (h_partial ev d rs c).
Proof.
  unfold h_partial. pose proof (seq_all_good (req d) rs c) as H.
  dres (seq_all ev (req d) rs c); simpl in *; auto.
Qed.

Lemma h_rep_min_max_good mn mx d r1 c : good (dM d) c (h_rep_min_max ev mn mx d r1 c).
Proof.
  unfold h_rep_min_max. apply guard_good. apply bind_good; [apply rep_loop_good; reflexivity|].
  intros c1 _. pose proof (repopt_loop_ok (mx - mn) d r1 c1) as H2.
  destruct (repopt_loop ev (mx - mn) d r1 c1) as [x b]. simpl in H2.
  dres x; simpl in *; auto; try contradiction.
  destruct b; [|exact H2]. apply good_prepend. eapply good_adv_l; [exact H2 | apply h_at_good].
Qed.

Lemma h_if_then_else_good d cnd t e c : good (dM d) c (h_if_then_else ev d cnd t e c).
Proof.
  unfold h_if_then_else. apply guard_good.
  pose proof (Hev (req d) cnd c) as H. dres (ev (req d) cnd c); simpl in *; auto.
  - apply good_prepend. eapply good_adv_l; [exact H | apply (Hev (opt_ d))].
  - subst c0. apply good_prepend. apply (Hev (opt_ d)).
Qed.

Lemma h_if_must_good dflt d cnd rest_ c : good (dM d) c (h_if_must ev dflt d cnd rest_ c).
Proof.
  unfold h_if_must.
  pose proof (Hev (if dflt then req d else d) cnd c) as H.
  dres (ev (if dflt then req d else d) cnd c); simpl in *; auto.
  - destruct rest_ as [|m ?]; [exact H|].
    pose proof (Hev d m c0) as H2. dres (ev d m c0); simpl in *; auto.
    + eapply adv_trans; eauto.
    + destruct (dM d); [subst; exact H | eapply adv_trans; eauto].
    + eapply adv_trans; eauto.
  - destruct dflt; simpl in *.
    + subst c0. apply adv_refl.
    + exact H.
Qed.

Lemma h_must_good d r1 c m : good m c (h_must ev d r1 c).
Proof.
  unfold h_must, raise_at. pose proof (Hev (opt_ d) r1 c) as H. dres (ev (opt_ d) r1 c); simpl in *; auto.
Qed.

Lemma h_strict_good d r1 rs c : good (dM d) c (h_strict ev d r1 rs c).
Proof.
  unfold h_strict. apply guard_good.
  pose proof (Hev (req d) r1 c) as H. dres (ev (req d) r1 c); simpl in *; auto.
  - apply good_prepend. eapply good_adv_l; [exact H | apply (h_seq_good (opt_ d))].
  - subst c0. apply adv_refl.
Qed.

Lemma star_strict_good n d r1 rs : forall c, good false c (star_strict_loop ev n d r1 rs c).
Proof.
  induction n as [|n IH]; intros c; simpl; [exact I|].
  pose proof (Hev (req d) r1 c) as H. dres (ev (req d) r1 c); simpl in *; auto.
  - pose proof (h_seq_good (opt_ d) rs c0) as H2. simpl in H2.
    dres (h_seq ev (opt_ d) rs c0); simpl in *; auto; try (eapply adv_trans; eauto).
    apply good_prepend. eapply good_adv_l; [eapply adv_trans; eauto | apply IH].
  - subst c0. apply adv_refl.
Qed.

Lemma rematch_all_noerr d rs i2 : (forall d r c, ev d r c <> Err) -> rematch_all ev d rs i2 <> Err.
Proof.
  intros Hn. induction rs as [|r rs IH]; simpl; [discriminate|].
  pose proof (Hn d r i2) as H. dres (ev d r i2); try discriminate; try congruence.
  destruct (rematch_all ev d rs i2); simpl; try discriminate. congruence.
Qed.

Lemma adv_length c c' : adv c c' -> (length (rest c') <= length (rest c))%nat.
Proof. intros [pre [H _]]. rewrite H, app_length. lia. Qed.

Lemma h_rematch_good d hd rs c : good (dM d) c (h_rematch ev d hd rs c).
Proof.
  unfold h_rematch. destruct rs as [|r rs']; [apply Hev|].
  pose proof (Hev (opt_ d) hd c) as H. dres (ev (opt_ d) hd c); simpl in H; auto.
  - destruct (take_some (length (rest c) - length (rest c0)) (rest c)) as [span Hs]; [lia|]. rewrite Hs.
    pose proof (rematch_all_noerr (opt_ d) (r :: rs') (mkcur span (cpos c)) (fun d r c => good_not_err _ _ _ (Hev d r c))) as Hn.
    dres (rematch_all ev (opt_ d) (r :: rs') (mkcur span (cpos c))); simpl; auto; try apply good_fail_same; try apply adv_refl.
    congruence.
  - apply good_fail_same.
  - simpl. apply adv_refl.
Qed.

Lemma h_try_false_good f d r1 c : good (dM d) c (h_try_false ev f d r1 c).
Proof.
  unfold h_try_false. pose proof (Hev (opt_ d) r1 c) as H. dres (ev (opt_ d) r1 c); simpl in *; auto.
  - destruct (dM d); [reflexivity | exact H].
  - destruct (catches f e); simpl; destruct (dM d); try reflexivity; try apply adv_refl; exact H.
Qed.

Lemma h_try_nested_good f d r1 c m : good m c (h_try_nested ev f d r1 c).
Proof.
  unfold h_try_nested. pose proof (Hev (opt_ d) r1 c) as H. dres (ev (opt_ d) r1 c); simpl in *; auto.
  - destruct m; [reflexivity | apply adv_refl].
  - destruct (catches f e); simpl; apply adv_refl.
Qed.

Lemma st_scope_good b r c0 m c x : good m c x -> good m c (st_scope b r c0 x).
Proof. dres x; simpl; auto. Qed.

Lemma inline_result_good x c_ok c pre m : adv c c_ok -> good m c (inline_result x c_ok c pre).
Proof.
  intros A. destruct x as [[[|]|t] evs]; simpl; auto.
  - destruct m; [reflexivity | apply adv_refl].
  - apply adv_refl.
Qed.

Lemma h_if_apply_good d acts_ r1 c : good (dM d) c (h_if_apply C ev d acts_ r1 c).
Proof.
  unfold h_if_apply. destruct (dA d && negb match acts_ with [] => true | _ => false end); [|apply Hev].
  pose proof (Hev (set_A (opt_ d) true) r1 c) as H. dres (ev (set_A (opt_ d) true) r1 c); simpl in H; auto.
  - apply inline_result_good. exact H.
  - apply good_fail_same.
  - simpl. apply adv_refl.
Qed.

Lemma eval_head_good n self h subs d c : okh h -> good (dM d) c (eval_head C ev n self h subs d c).
Proof.
  intros Hok. unfold eval_head.
  destruct (eval_atom (ceol C) h c) as [x|] eqn:Ea; [eapply H_atom; eauto|].
  destruct h; try (simpl in Ea; discriminate); try apply good_fail_same.
  - apply h_seq_good.
  - apply sor_any_good.
  - apply okexc_good, star_loop_ok.
  - destruct subs as [|r1 [|? ?]]; try apply good_fail_same. apply h_plus_good.
  - apply h_partial_good.
  - destruct subs as [|r1 [|? ?]]; try apply good_fail_same. apply h_at_good.
  - destruct subs as [|r1 [|? ?]]; try apply good_fail_same. apply h_at_good.
  - destruct subs as [|r1 [|? ?]]; try apply good_fail_same. apply guard_good, until1_good.
  - destruct subs as [|cn [|r1 [|? ?]]]; try apply good_fail_same. apply guard_good, until2_good.
  - destruct subs as [|r1 [|? ?]]; try apply good_fail_same. apply guard_good, rep_loop_good. reflexivity.
  - destruct subs as [|r1 [|? ?]]; try apply good_fail_same. apply h_rep_min_max_good.
  - destruct subs as [|r1 [|? ?]]; try apply good_fail_same. apply okexc_good, repopt_loop_ok.
  - destruct subs as [|cn [|t [|e [|? ?]]]]; try apply good_fail_same. apply h_if_then_else_good.
  - destruct subs as [|cn rest_]; try apply good_fail_same. apply h_if_must_good.
  - destruct subs as [|r1 [|? ?]]; try apply good_fail_same. apply h_must_good.
  - destruct subs as [|t [|? ?]]; try apply good_fail_same. simpl. apply adv_refl.
  - destruct subs as [|r1 rs]; try apply good_fail_same. apply h_strict_good.
  - destruct subs as [|r1 rs]; try apply good_fail_same. apply guard_good, star_strict_good.
  - destruct subs as [|hd rs]; try apply good_fail_same. apply h_rematch_good.
  - destruct subs as [|r1 [|? ?]]; try apply good_fail_same. apply h_try_false_good.
  - destruct subs as [|r1 [|? ?]]; try apply good_fail_same. apply h_try_nested_good.
  - destruct subs as [|r1 [|? ?]]; try apply good_fail_same. apply st_scope_good, Hev.
  - destruct subs as [|r1 [|? ?]]; try apply good_fail_same. apply (Hev (set_act d fam)).
  - destruct subs as [|r1 [|? ?]]; try apply good_fail_same. apply (Hev (set_ctl d ctl)).
  - destruct subs as [|r1 [|? ?]]; try apply good_fail_same. apply (Hev (set_A d true)).
  - destruct subs as [|r1 [|? ?]]; try apply good_fail_same. apply (Hev (set_A d false)).
  - destruct subs; try apply good_fail_same. unfold h_apply. destruct (dA d); [apply inline_result_good, adv_refl | apply adv_refl].
  - destruct subs; try apply good_fail_same. unfold h_apply0. destruct (dA d); [apply inline_result_good, adv_refl | apply adv_refl].
  - destruct subs as [|r1 [|? ?]]; try apply good_fail_same. apply h_if_apply_good.
Qed.

Lemma match_hpp_good ak body d r c :
  (forall d c, good (dM d) c (body d c)) -> good (dM d) c (match_hpp C ak body d r c).
Proof.
  intros Hb. unfold match_hpp. set (g := use_guard d ak).
  pose proof (Hb (if g then opt_ d else d) c) as H.
  dres (body (if g then opt_ d else d) c); simpl in H; auto.
  - (* Ok, then the action *)
    destruct (run_action C d ak r (cpos c) (cpos c0)) as [[[|]|t] ea] eqn:Er; simpl.
    + exact H.
    + (* veto: only bool actions can return false, and those take the guard *)
      assert (Hg : g = true).
      { unfold run_action in Er. unfold g, use_guard. destruct (dA d); [|inversion Er].
        destruct ak as [|isb|isb|mk]; try (inversion Er; fail).
        - reflexivity.
        - destruct (abeh C (dAct d) r (cpos c) (cpos c0)) as [x|t]; [|inversion Er].
          destruct isb; [reflexivity|]. inversion Er as [[Hx He]]. rewrite orb_true_r in Hx. discriminate. }
      rewrite Hg. unfold fail_hook. destruct (raise_on_failure C (dCtl d) r); simpl; [apply adv_refl | destruct (dM d); [reflexivity | apply adv_refl]].
    + destruct g; [apply adv_refl | exact H].
  - (* Fail *) unfold fail_hook. destruct (raise_on_failure C (dCtl d) r); simpl.
    + destruct g; [apply adv_refl|]. destruct (dM d); [subst; apply adv_refl | exact H].
    + destruct g; [destruct (dM d); [reflexivity | apply adv_refl] | exact H].
  - (* Exc *) destruct g; [apply adv_refl | exact H].
Qed.

Lemma firstn_skipn_adv n c c1 :
  adv (mkcur (firstn n (rest c)) (cpos c)) c1 -> adv c (mkcur (rest c1 ++ skipn n (rest c)) (cpos c1)).
Proof.
  intros [pre [H Q]]. simpl in *. exists pre. simpl. split; [|exact Q].
  rewrite app_assoc, <- H. symmetry. apply firstn_skipn.
Qed.

Lemma action_match_good plain enabled m d r c :
  (forall d c, good (dM d) c (plain d c)) -> good (dM d) c (action_match ev plain enabled m d r c).
Proof.
  intros Hp. destruct m; simpl.
  - apply (Hev (set_act d fam)).
  - apply st_scope_good, Hp.
  - apply st_scope_good. apply (Hev (set_act d fam)).
  - apply (Hp (set_ctl d ctl)).
  - apply (Hp (set_A d true)).
  - apply (Hp (set_A d false)).
  - destruct enabled; [|apply Hp]. destruct (n <? S (dDepth d))%nat; [simpl; apply adv_refl | apply (Hp (set_depth d (S (dDepth d))))].
  - pose proof (Hp d (mkcur (firstn n (rest c)) (cpos c))) as H.
    dres (plain d (mkcur (firstn n (rest c)) (cpos c))); simpl in H; auto.
    + destruct (in_empty c0 && negb (is_nil (skipn n (rest c)))); simpl; apply firstn_skipn_adv; exact H.
    + simpl. destruct (dM d).
      * subst c0. simpl. rewrite firstn_skipn. apply cursor_eta.
      * apply firstn_skipn_adv; exact H.
    + simpl. apply firstn_skipn_adv; exact H.
  - pose proof (Hp d c) as H. dres (plain d c); simpl in H; auto.
    destruct (n <? length (rest c) - length (rest c0))%nat; simpl; exact H.
Qed.

End HelperFacts.

Variable G : grammar.
Hypothesis HG : forall r nd, nth_error G r = Some nd -> okh (nhead nd).

Theorem eval_good f : forall d r c, good (dM d) c (eval G C f d r c).
Proof.
  induction f as [|f IH]; intros d r c; simpl; [exact I|].
  destruct (nth_error G r) as [nd|] eqn:En; [|apply good_fail_same].
  apply good_traced.
  assert (Hplain : forall ak d' c', good (dM d') c'
            (if nenabled nd then match_hpp C ak (eval_head C (eval G C f) f r (nhead nd) (nsubs nd)) d' r c'
             else eval_head C (eval G C f) f r (nhead nd) (nsubs nd) d' c')).
  { intros ak d' c'. destruct (nenabled nd).
    - apply match_hpp_good. intros d2 c2. apply eval_head_good; [exact IH | eapply HG; eauto].
    - apply eval_head_good; [exact IH | eapply HG; eauto]. }
  destruct (acts C (dAct d) r) as [| | |mk]; try apply Hplain.
  apply action_match_good; [exact IH | apply Hplain].
Qed.

End Inv.
