(* Base.v — bytes, positions, cursors, eol policies, the bump functions of internal/bump.hpp
   and the input-API primitives every modelled match() body is written against.
   Model file: definitions only (proofs live in *Facts.v). *)
From Coq Require Export List NArith ZArith Bool.
Export ListNotations.
Local Open Scope N_scope.

Definition rid := nat.
Definition byte := N.                     (* always < 256 in well-formed inputs *)

(* C `char` is signed 8-bit on the modelled platform (x86-64 SysV). *)
Definition schar (b : byte) : Z := if b <? 128 then Z.of_N b else (Z.of_N b - 256)%Z.

(* ---------- positions (position.hpp / inputerator.hpp) ---------- *)
Record pos := mkpos { pbyte : N; pline : N; pcol : N }.
Definition pos0 : pos := mkpos 0 1 1.

(* ---------- end-of-line policies (internal/*_eol.hpp) ---------- *)
Inductive eolp := EolLf | EolCr | EolCrlf | EolLfCrlf | EolCrCrlf.
Definition eol_ch (e : eolp) : N := match e with EolCr | EolCrCrlf => 13 | _ => 10 end.

(* ---------- cursor: remaining bytes up to the logical end + eager position ---------- *)
Record cursor := mkcur { rest : list byte; cpos : pos }.

(* internal::bump(iter, count, ch): scan every skipped byte *)
Definition bump1_pos (ch : N) (p : pos) (b : byte) : pos :=
  if b =? ch then mkpos (pbyte p + 1) (pline p + 1) 1
  else mkpos (pbyte p + 1) (pline p) (pcol p + 1).

Fixpoint bump_scan (ch : N) (n : nat) (c : cursor) : option cursor :=
  match n with
  | O => Some c
  | S n' => match rest c with
            | [] => None                                   (* bump past the end: out of bounds *)
            | b :: tl => bump_scan ch n' (mkcur tl (bump1_pos ch (cpos c) b))
            end
  end.

Fixpoint drop (n : nat) (l : list byte) : option (list byte) :=
  match n with
  | O => Some l
  | S n' => match l with [] => None | _ :: tl => drop n' tl end
  end.

(* internal::bump_in_this_line(iter, count) *)
Definition bump_in_line (n : nat) (c : cursor) : option cursor :=
  match drop n (rest c) with
  | None => None
  | Some tl => Some (mkcur tl (mkpos (pbyte (cpos c) + N.of_nat n) (pline (cpos c)) (pcol (cpos c) + N.of_nat n)))
  end.

(* internal::bump_to_next_line(iter, count) *)
Definition bump_next_line (n : nat) (c : cursor) : option cursor :=
  match drop n (rest c) with
  | None => None
  | Some tl => Some (mkcur tl (mkpos (pbyte (cpos c) + N.of_nat n) (pline (cpos c) + 1) 1))
  end.

(* memory_input API as seen by rules *)
Definition in_empty (c : cursor) : bool := match rest c with [] => true | _ => false end.
Definition in_size (c : cursor) : nat := length (rest c).          (* size(amount) = end - current *)
Definition peek_at (c : cursor) (i : nat) : option byte := nth_error (rest c) i.   (* None = out of bounds *)

Fixpoint take (n : nat) (l : list byte) : option (list byte) :=   (* raw read of n bytes through current() *)
  match n with
  | O => Some []
  | S n' => match l with [] => None | b :: tl => option_map (cons b) (take n' tl) end
  end.
