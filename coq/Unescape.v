(* Unescape.v — executable model of include/tao/pegtl/contrib/unescape.hpp (property C17).
   Statement-by-statement transcription: `unsigned` is 32 bit, `char` is 8 bit, a std::string is a
   list of bytes (N < 256), a matched action input [begin,end) is a list of bytes, a `const char*`
   into it is the remaining suffix.  Model file: definitions only (proofs in UnescapeFacts.v). *)
From PegtlV Require Import Base.
Local Open Scope N_scope.

(* ---------- fixed-width arithmetic ---------- *)
Definition wrap (w : N) (x : N) : N := x mod 2 ^ w.      (* value kept by a w-bit integer *)
Definition u32 (x : N) : N := wrap 32 x.                  (* unsigned *)
Definition to_char (x : N) : N := wrap 8 x.               (* static_cast< char >( unsigned ), as a byte *)

(* ---------- bool utf8_append_utf32( std::string& string, const unsigned utf32 ) ----------
   returns (string afterwards, return value) *)
Definition utf8_append_utf32 (str : list N) (utf32 : N) : list N * bool :=
  if utf32 <=? 0x7f then
    (str ++ [to_char (N.land utf32 0xff)], true)
  else if utf32 <=? 0x7ff then
    (str ++ [to_char (N.lor (N.shiftr (N.land utf32 0x7c0) 6) 0xc0);
             to_char (N.lor (N.land utf32 0x03f) 0x80)], true)
  else if utf32 <=? 0xffff then
    if (0xd800 <=? utf32) && (utf32 <=? 0xdfff) then
      (str, false)                                          (* nope, this is a UTF-16 surrogate *)
    else
      (str ++ [to_char (N.lor (N.shiftr (N.land utf32 0xf000) 12) 0xe0);
               to_char (N.lor (N.shiftr (N.land utf32 0x0fc0) 6) 0x80);
               to_char (N.lor (N.land utf32 0x003f) 0x80)], true)
  else if utf32 <=? 0x10ffff then
    (str ++ [to_char (N.lor (N.shiftr (N.land utf32 0x1c0000) 18) 0xf0);
             to_char (N.lor (N.shiftr (N.land utf32 0x03f000) 12) 0x80);
             to_char (N.lor (N.shiftr (N.land utf32 0x000fc0) 6) 0x80);
             to_char (N.lor (N.land utf32 0x00003f) 0x80)], true)
  else
    (str, false).

(* ---------- I unhex_char< I >( const char c ) ----------
   None = the `default: std::terminate()` branch.  The returned values 0..15 are representable in
   every integer type, so the conversion I( ... ) does not change them. *)
Definition unhex_char (c : N) : option N :=
  if (48 <=? c) && (c <=? 57) then Some (c - 48)             (* '0'..'9' : c - '0'      *)
  else if (97 <=? c) && (c <=? 102) then Some (c - 97 + 10)  (* 'a'..'f' : c - 'a' + 10 *)
  else if (65 <=? c) && (c <=? 70) then Some (c - 65 + 10)   (* 'A'..'F' : c - 'A' + 10 *)
  else None.

(* ---------- I unhex_string< I >( const char* begin, const char* end ), I of w bits ----------
   r <<= 4 and r += ... wrap to w bits (for signed I the result is reported as its w-bit pattern). *)
Fixpoint unhex_loop (w : N) (r : N) (l : list N) : option N :=
  match l with
  | [] => Some r
  | c :: tl =>
    let r1 := wrap w (N.shiftl r 4) in
    match unhex_char c with
    | None => None
    | Some d => unhex_loop w (wrap w (r1 + d)) tl
    end
  end.
Definition unhex_string (w : N) (l : list N) : option N := unhex_loop w 0 l.

(* ---------- outcome of an action call ---------- *)
Inductive ures :=
| UOk (s : list N)        (* returned normally (true for bool apply); s = the string state afterwards *)
| UThrow (s : list N)     (* threw parse_error( "invalid escaped unicode code point", in ); s = string state at the throw *)
| UTerminate              (* std::terminate() was reached *)
| UUndef.                 (* an assert() fails / bytes outside the matched range would be read *)

(* append_all::apply *)
Definition append_all (inb s : list N) : ures := UOk (s ++ inb).

(* ---------- unescape_c< T, Rs... > with T = one< Qs... > ---------- *)
Fixpoint apply_two (c : N) (qs rs : list N) : option N :=
  match qs, rs with
  | q :: qs', r :: rs' => if q =? c then Some r else apply_two c qs' rs'
  | _, _ => None                       (* loop ran off the list: std::terminate() *)
  end.
Definition unescape_c (qs rs : list N) (inb s : list N) : ures :=
  match inb with
  | [c] => match apply_two c qs rs with
           | Some r => UOk (s ++ [r])
           | None => UTerminate
           end
  | _ => UUndef                        (* assert( in.size() == 1 ) *)
  end.

(* ---------- unescape_u ---------- *)
Definition unescape_u (inb s : list N) : ures :=
  match inb with
  | [] => UUndef                       (* assert( !in.empty() ) *)
  | _ :: digits =>
    match unhex_string 32 digits with
    | None => UTerminate
    | Some v =>
      let '(s', ok) := utf8_append_utf32 s v in
      if ok then UOk s' else UThrow s'
    end
  end.

(* ---------- unescape_x ---------- *)
Definition unescape_x (inb s : list N) : ures :=
  match inb with
  | [] => UUndef                       (* assert( !in.empty() ) *)
  | _ :: digits =>
    match unhex_string 8 digits with   (* unhex_string< char > *)
    | None => UTerminate
    | Some v => UOk (s ++ [v])
    end
  end.

(* ---------- unescape_j ----------
   the pointer `b` is modelled by the bytes from b to in.end(); [] also stands for b >= in.end(). *)
Inductive jstep := JPair (d : N) | JSingle | JTerm | JUndef.

(* the `if( high surrogate && b + 6 < in.end() ) { d = ...; if( low surrogate ) ...` decision *)
Definition j_lookahead (c : N) (b : list N) : jstep :=
  if (0xd800 <=? c) && (c <=? 0xdbff) && (6 <? length b)%nat then
    match take 4 (skipn 6 b) with
    | None => JUndef
    | Some g2 =>
      match unhex_string 32 g2 with
      | None => JTerm
      | Some d => if (0xdc00 <=? d) && (d <=? 0xdfff) then JPair d else JSingle
      end
    end
  else JSingle.

(* ( ( ( c & 0x03ff ) << 10 ) | ( d & 0x03ff ) ) + 0x10000 in unsigned arithmetic *)
Definition j_combine (c d : N) : N :=
  u32 (N.lor (u32 (N.shiftl (N.land c 0x03ff) 10)) (N.land d 0x03ff) + 0x10000).

Fixpoint unescape_j_loop (fuel : nat) (b s : list N) : ures :=
  match b with
  | [] => UOk s                                          (* !( b < in.end() ) : return true *)
  | _ :: _ =>
    match fuel with
    | O => UUndef                                        (* not reachable with fuel >= length b *)
    | S f =>
      match take 4 b with
      | None => UUndef
      | Some g =>
        match unhex_string 32 g with
        | None => UTerminate
        | Some c =>
          match j_lookahead c b with
          | JUndef => UUndef
          | JTerm => UTerminate
          | JPair d =>
            let '(s', _) := utf8_append_utf32 s (j_combine c d) in      (* (void)utf8_append_utf32 *)
            unescape_j_loop f (skipn 12 b) s'                            (* b += 6; continue (b += 6) *)
          | JSingle =>
            let '(s', ok) := utf8_append_utf32 s c in
            if ok then unescape_j_loop f (skipn 6 b) s' else UThrow s'
          end
        end
      end
    end
  end.

Definition unescape_j (inb s : list N) : ures :=
  if (Nat.modulo (length inb + 1) 6 =? 0)%nat then       (* assert( ( ( in.size() + 1 ) % 6 ) == 0 ) *)
    match inb with
    | [] => UUndef
    | _ :: b => unescape_j_loop (length inb) b s         (* b = in.begin() + 1 *)
    end
  else UUndef.

(* ---------- the instantiations shipped with the library (character codes) ----------
   json_qs = the pack of json::escaped_char = one< ... > in contrib/json.hpp,
   json_rs = the replacement pack of unescape_c< json::escaped_char, ... > in src/example/pegtl/json_unescape.hpp;
   cex_qs / cex_rs = the packs of escaped_c and of its unescape_c action in src/example/pegtl/unescape.cpp.
   The correspondence check compares these four lists with the packs the compiler reports. *)
Definition json_qs : list N := [34; 92; 47; 98; 102; 110; 114; 116].
Definition json_rs : list N := [34; 92; 47; 8; 12; 10; 13; 9].
Definition cex_qs : list N := [39; 34; 63; 92; 97; 98; 102; 110; 114; 116; 118].
Definition cex_rs : list N := [39; 34; 63; 92; 7; 8; 12; 10; 13; 9; 11].
