(* Spec.v — the PEG formalism (Ford 2004) for the classical operators, independent of the engine:
   surface expressions, the big-step relation Peg, its determinism, and an executable version
   peg_fn (fuel) proved sound and complete w.r.t. Peg.  peg_fn is the ORACLE of C01/C09: it is
   applied to the generator's surface term, which never passes through the library. *)
From Coq Require Import Lia.
From PegtlV Require Import Base.
Local Open Scope N_scope.

Inductive sexp :=
| SAny | SOne (cs : list byte) | SNotOne (cs : list byte) | SRange (lo hi : byte) | SString (cs : list byte)
| SEof | SSuccess | SFailure
| SSeq (a b : sexp) | SSor (a b : sexp)                 (* n-ary seq / sor read as right-nested binary *)
| SStar (e : sexp) | SPlus (e : sexp) | SOpt (e : sexp) | SAt (e : sexp) | SNotAt (e : sexp)
| SRef (k : nat).                                        (* named rule number k *)
Definition sgrammar := list sexp.

Definition mem (b : byte) (cs : list byte) : bool := existsb (N.eqb b) cs.
Fixpoint strip (cs s : list byte) : option (list byte) :=    (* s = cs ++ rest ? *)
  match cs, s with
  | [], _ => Some s
  | c :: cs', b :: s' => if c =? b then strip cs' s' else None
  | _ :: _, [] => None
  end.

(* one byte against an atomic class *)
Definition atom1 (test : byte -> bool) (s : list byte) : option (list byte) :=
  match s with b :: s' => if test b then Some s' else None | [] => None end.

(* Peg g e s r :  r = Some s'  — e matches the prefix of s leaving s' ;  r = None — e fails on s *)
Inductive Peg (g : sgrammar) : sexp -> list byte -> option (list byte) -> Prop :=
| P_any s : Peg g SAny s (atom1 (fun _ => true) s)
| P_one cs s : Peg g (SOne cs) s (atom1 (fun b => mem b cs) s)
| P_not_one cs s : Peg g (SNotOne cs) s (atom1 (fun b => negb (mem b cs)) s)
| P_range lo hi s : Peg g (SRange lo hi) s (atom1 (fun b => (lo <=? b) && (b <=? hi)) s)
| P_string cs s : Peg g (SString cs) s (strip cs s)
| P_eof s : Peg g SEof s (match s with [] => Some [] | _ => None end)
| P_success s : Peg g SSuccess s (Some s)
| P_failure s : Peg g SFailure s None
| P_seq_ok a b s s1 r : Peg g a s (Some s1) -> Peg g b s1 r -> Peg g (SSeq a b) s r
| P_seq_fail a b s : Peg g a s None -> Peg g (SSeq a b) s None
| P_sor_ok a b s s1 : Peg g a s (Some s1) -> Peg g (SSor a b) s (Some s1)             (* first successful alternative *)
| P_sor_next a b s r : Peg g a s None -> Peg g b s r -> Peg g (SSor a b) s r
| P_star_end e s : Peg g e s None -> Peg g (SStar e) s (Some s)
| P_star_step e s s1 r : Peg g e s (Some s1) -> Peg g (SStar e) s1 r -> Peg g (SStar e) s r   (* greedy *)
| P_plus_fail e s : Peg g e s None -> Peg g (SPlus e) s None
| P_plus_step e s s1 r : Peg g e s (Some s1) -> Peg g (SStar e) s1 r -> Peg g (SPlus e) s r
| P_opt_ok e s s1 : Peg g e s (Some s1) -> Peg g (SOpt e) s (Some s1)
| P_opt_none e s : Peg g e s None -> Peg g (SOpt e) s (Some s)
| P_at_ok e s s1 : Peg g e s (Some s1) -> Peg g (SAt e) s (Some s)                    (* predicates consume nothing *)
| P_at_fail e s : Peg g e s None -> Peg g (SAt e) s None
| P_not_at_ok e s s1 : Peg g e s (Some s1) -> Peg g (SNotAt e) s None
| P_not_at_fail e s : Peg g e s None -> Peg g (SNotAt e) s (Some s)
| P_ref k e s r : nth_error g k = Some e -> Peg g e s r -> Peg g (SRef k) s r.

(* executable version; None = out of fuel *)
Fixpoint peg_fn (n : nat) (g : sgrammar) (e : sexp) (s : list byte) : option (option (list byte)) :=
  match n with
  | O => None
  | S n' =>
    let go := peg_fn n' g in
    match e with
    | SAny => Some (atom1 (fun _ => true) s)
    | SOne cs => Some (atom1 (fun b => mem b cs) s)
    | SNotOne cs => Some (atom1 (fun b => negb (mem b cs)) s)
    | SRange lo hi => Some (atom1 (fun b => (lo <=? b) && (b <=? hi)) s)
    | SString cs => Some (strip cs s)
    | SEof => Some (match s with [] => Some [] | _ => None end)
    | SSuccess => Some (Some s)
    | SFailure => Some None
    | SSeq a b => match go a s with Some (Some s1) => go b s1 | x => x end
    | SSor a b => match go a s with Some None => go b s | x => x end
    | SStar e1 => match go e1 s with Some (Some s1) => go (SStar e1) s1 | Some None => Some (Some s) | None => None end
    | SPlus e1 => match go e1 s with Some (Some s1) => go (SStar e1) s1 | x => x end
    | SOpt e1 => match go e1 s with Some None => Some (Some s) | x => x end
    | SAt e1 => match go e1 s with Some (Some _) => Some (Some s) | x => x end
    | SNotAt e1 => match go e1 s with Some (Some _) => Some None | Some None => Some (Some s) | None => None end
    | SRef k => match nth_error g k with Some e1 => go e1 s | None => None end
    end
  end.

Theorem Peg_deterministic g e s r1 : Peg g e s r1 -> forall r2, Peg g e s r2 -> r1 = r2.
Proof.
  induction 1; intros r2 H2; inversion H2; subst; try reflexivity;
  repeat match goal with
  | IH : forall r, Peg g ?e ?s r -> Some ?x = r, H : Peg g ?e ?s (Some ?y) |- _ => apply IH in H; inversion H; subst; clear H
  | IH : forall r, Peg g ?e ?s r -> Some ?x = r, H : Peg g ?e ?s None |- _ => apply IH in H; discriminate
  | IH : forall r, Peg g ?e ?s r -> None = r, H : Peg g ?e ?s (Some ?y) |- _ => apply IH in H; discriminate
  end; try reflexivity; try (match goal with IH : forall r, Peg g ?e ?s r -> _ = r |- _ => apply IH; assumption end).
  - (* ref *) match goal with H1 : nth_error g k = Some _, H2 : nth_error g k = Some _ |- _ => rewrite H1 in H2; inversion H2; subst end.
    apply IHPeg. assumption.
Qed.

Theorem peg_fn_sound n : forall g e s r, peg_fn n g e s = Some r -> Peg g e s r.
Proof.
  induction n as [|n IH]; intros g e s r H; [discriminate|].
  destruct e; simpl in H.
  all: try (inversion H; subst; constructor; fail).
  - destruct (peg_fn n g e1 s) as [[s1|]|] eqn:E1; try discriminate.
    + eapply P_seq_ok; eauto.
    + inversion H; subst. apply P_seq_fail; eauto.
  - destruct (peg_fn n g e1 s) as [[s1|]|] eqn:E1; try discriminate.
    + inversion H; subst. eapply P_sor_ok; eauto.
    + eapply P_sor_next; eauto.
  - destruct (peg_fn n g e s) as [[s1|]|] eqn:E1; try discriminate.
    + eapply P_star_step; eauto.
    + inversion H; subst. apply P_star_end; eauto.
  - destruct (peg_fn n g e s) as [[s1|]|] eqn:E1; try discriminate.
    + eapply P_plus_step; eauto.
    + inversion H; subst. apply P_plus_fail; eauto.
  - destruct (peg_fn n g e s) as [[s1|]|] eqn:E1; try discriminate; inversion H; subst.
    + eapply P_opt_ok; eauto.
    + apply P_opt_none; eauto.
  - destruct (peg_fn n g e s) as [[s1|]|] eqn:E1; try discriminate; inversion H; subst.
    + eapply P_at_ok; eauto.
    + apply P_at_fail; eauto.
  - destruct (peg_fn n g e s) as [[s1|]|] eqn:E1; try discriminate; inversion H; subst.
    + eapply P_not_at_ok; eauto.
    + apply P_not_at_fail; eauto.
  - destruct (nth_error g k) as [e1|] eqn:Ek; [|discriminate]. eapply P_ref; eauto.
Qed.

Lemma peg_fn_mono n : forall m g e s r, peg_fn n g e s = Some r -> (n <= m)%nat -> peg_fn m g e s = Some r.
Proof.
  induction n as [|n IH]; intros m g e s r H L; [discriminate|].
  destruct m as [|m]; [lia|]. assert (L' : (n <= m)%nat) by lia.
  destruct e; simpl in *; try exact H.
  - destruct (peg_fn n g e1 s) as [[s1|]|] eqn:E1; try discriminate; rewrite (IH m _ _ _ _ E1 L'); eauto.
  - destruct (peg_fn n g e1 s) as [[s1|]|] eqn:E1; try discriminate; rewrite (IH m _ _ _ _ E1 L'); eauto.
  - destruct (peg_fn n g e s) as [[s1|]|] eqn:E1; try discriminate; rewrite (IH m _ _ _ _ E1 L'); eauto.
  - destruct (peg_fn n g e s) as [[s1|]|] eqn:E1; try discriminate; rewrite (IH m _ _ _ _ E1 L'); eauto.
  - destruct (peg_fn n g e s) as [[s1|]|] eqn:E1; try discriminate; rewrite (IH m _ _ _ _ E1 L'); eauto.
  - destruct (peg_fn n g e s) as [[s1|]|] eqn:E1; try discriminate; rewrite (IH m _ _ _ _ E1 L'); eauto.
  - destruct (peg_fn n g e s) as [[s1|]|] eqn:E1; try discriminate; rewrite (IH m _ _ _ _ E1 L'); eauto.
  - destruct (nth_error g k); [eauto | discriminate].
Qed.

Theorem peg_fn_complete g e s r : Peg g e s r -> exists n, peg_fn n g e s = Some r.
Proof.
  induction 1;
  repeat match goal with H : exists n, _ |- _ => destruct H as [?n ?Hn] end;
  try (exists 1%nat; reflexivity);
  try (match goal with
       | Ha : peg_fn ?n1 ?g ?a ?s = Some (Some ?s1), Hb : peg_fn ?n2 ?g ?b ?s1 = Some ?r |- _ =>
           exists (S (Nat.max n1 n2)); simpl;
           rewrite (peg_fn_mono _ (Nat.max n1 n2) _ _ _ _ Ha) by lia; apply (peg_fn_mono _ _ _ _ _ _ Hb); lia
       | Ha : peg_fn ?n1 ?g ?a ?s = Some None, Hb : peg_fn ?n2 ?g ?b ?s = Some ?r |- _ =>
           exists (S (Nat.max n1 n2)); simpl;
           rewrite (peg_fn_mono _ (Nat.max n1 n2) _ _ _ _ Ha) by lia; apply (peg_fn_mono _ _ _ _ _ _ Hb); lia
       end);
  try (match goal with Ha : peg_fn ?n1 ?g ?a ?s = Some _ |- _ => exists (S n1); simpl; rewrite Ha; reflexivity end).
  - exists (S n). simpl. rewrite H. exact Hn.
Qed.

(* on success the result is a suffix of the input *)
Lemma strip_app cs : forall s s', strip cs s = Some s' -> s = cs ++ s'.
Proof.
  induction cs as [|c cs IH]; intros s s' H; simpl in H; [inversion H; reflexivity|].
  destruct s as [|b s]; [discriminate|]. destruct (c =? b) eqn:E; [|discriminate].
  apply N.eqb_eq in E. subst. simpl. f_equal. apply IH. exact H.
Qed.
Lemma atom1_app t s s' : atom1 t s = Some s' -> exists b, s = b :: s'.
Proof. destruct s as [|b s]; simpl; [discriminate|]. destruct (t b); [|discriminate]. intros H; inversion H; subst. eexists; reflexivity. Qed.
Theorem Peg_suffix g e s r : Peg g e s r -> forall s', r = Some s' -> exists pre, s = pre ++ s'.
Proof.
  induction 1; intros s' Hr; try discriminate;
  try (apply atom1_app in Hr; destruct Hr as [b ->]; exists [b]; reflexivity).
  - apply strip_app in Hr. exists cs. exact Hr.
  - destruct s; inversion Hr; subst. exists []. reflexivity.
  - inversion Hr; subst. exists []. reflexivity.
  - destruct (IHPeg1 s1 eq_refl) as [p1 ->]. destruct (IHPeg2 s' Hr) as [p2 ->]. exists (p1 ++ p2). rewrite app_assoc. reflexivity.
  - eauto.
  - eauto.
  - inversion Hr; subst. exists []. reflexivity.
  - destruct (IHPeg1 s1 eq_refl) as [p1 ->]. destruct (IHPeg2 s' Hr) as [p2 ->]. exists (p1 ++ p2). rewrite app_assoc. reflexivity.
  - destruct (IHPeg1 s1 eq_refl) as [p1 ->]. destruct (IHPeg2 s' Hr) as [p2 ->]. exists (p1 ++ p2). rewrite app_assoc. reflexivity.
  - eauto.
  - inversion Hr; subst. exists []. reflexivity.
  - inversion Hr; subst. exists []. reflexivity.
  - inversion Hr; subst. exists []. reflexivity.
  - eauto.
Qed.
