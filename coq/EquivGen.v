(* EquivGen.v — C09: expansion theorems whose expansion side is matched MODULO uniform equivalence of the sub-rules
   (the reference writes seq< R... > where the implementation has the internal seq, rep< 0, R > is `success`, ...):
   what the compiler-dumped schemas need. *)
From Coq Require Import Lia Bool.
From PegtlV Require Import Base Decode Grammar Engine EngineFacts AtomFacts Mono Equiv EquivFacts EquivEval EquivHeads EquivTable EquivHeads2 EquivTable2 EquivTableU EquivCong.

Section Gen.
Variable G : grammar.
Variable C : cfg.
Hypothesis HC : noact_cfg C.
Hypothesis HG : plain_table G.
Hypothesis HW : table_wf G.

Notation ecl := (ecl G C).
Notation node := (node G).
Notation urefines := (urefines G C).
Notation uequiv := (uequiv G C).
Notation node_l := (node_l G C HC HG).
Notation node_r := (node_r G C HC HG).
Notation ecl_cS := (ecl_cS G C HC HG).
Notation ecl_crest := (ecl_crest G C HW).
Ltac oof_case := intros ? ? ?; left; reflexivity.

Lemma leq_uequiv q q' : leq G C q q' -> uequiv q q'.
Proof. intros [L1 L2]. split; exists 0; intros k; rewrite Nat.add_0_r; [apply L1 | apply L2]; apply le_n. Qed.

Lemma c_seq1 (f g : closure) : cS f g -> cS (c_seq C [f]) g.
Proof. intros H d1 d2 c. rewrite c_seq_unfold, ch_seq_1. apply H. Qed.
Lemma c_seq1' (f g : closure) : cS f g -> cS f (c_seq C [g]).
Proof. intros H d1 d2 c. rewrite c_seq_unfold, ch_seq_1. apply H. Qed.

(* seq< R > is R *)
Lemma seq1_uequiv s x : node s HSeq [x] -> uequiv s x.
Proof.
  intros N. split.
  - exists 0. intros [|k]; [oof_case|]. rewrite Nat.add_0_r.
    apply cS_trans with (g := c_seq C [ecl k x]).
    { apply (node_l k 0 s HSeq [x]); [exact N | reflexivity | | left; reflexivity]. constructor; [apply ecl_cS; lia | constructor]. }
    apply c_seq1. apply ecl_cS. lia.
  - exists 1. intros k. replace (k + 1) with (S k) by lia.
    apply cS_trans with (g := c_seq C [ecl k x]); [apply c_seq1'; apply ecl_cS; lia|].
    apply (node_r k 0 s HSeq [x]); [exact N | reflexivity | | left; reflexivity | discriminate]. constructor; [apply ecl_cS; lia | constructor].
Qed.

Lemma map_repeat' {A B} (f : A -> B) a n : map f (repeat a n) = repeat (f a) n.
Proof. induction n; simpl; congruence. Qed.
Lemma F2_repeat_l {A} (P : A -> A -> Prop) a l : Forall (P a) l -> Forall2 P (repeat a (length l)) l.
Proof. induction 1; simpl; constructor; auto. Qed.
Lemma F2_repeat_r {A} (P : A -> A -> Prop) a l : Forall (fun x => P x a) l -> Forall2 P l (repeat a (length l)).
Proof. induction 1; simpl; constructor; auto. Qed.

(* rep< N, R >  ==  seq< S1, ..., SN >  whenever every Si is equivalent to R *)
Theorem rep_seq_gen r1 r2 r ss :
  node r1 (HRep (length ss)) [r] -> node r2 HSeq ss -> Forall (uequiv r) ss -> uequiv r1 r2.
Proof.
  intros N1 N2 F.
  assert (Fa : Forall2 urefines (repeat r (length ss)) ss) by (apply F2_repeat_l; eapply Forall_impl; [|exact F]; intros a [H _]; exact H).
  assert (Fb : Forall2 urefines ss (repeat r (length ss))) by (apply F2_repeat_r; eapply Forall_impl; [|exact F]; intros a [_ H]; exact H).
  destruct (F2_common G C HC HG _ _ Fa) as [K1 F1]. destruct (F2_common G C HC HG _ _ Fb) as [K2 F2].
  split.
  - exists K1. intros [|k]; [oof_case|].
    apply cS_trans with (g := c_rep C (length ss) (ecl k r)).
    { apply (node_l k 0 r1 (HRep (length ss)) [r]); [exact N1 | reflexivity | | left; reflexivity]. constructor; [apply ecl_cS; lia | constructor]. }
    apply cS_trans with (g := c_seq C (repeat (ecl k r) (length ss))).
    { intros d1 d2 c. apply rep_seq_A; [apply ecl_cS; lia | apply ecl_crest]. }
    apply cS_trans with (g := c_seq C (map (ecl (k + K1)) ss)).
    { apply (c_node_cong C 0 0 HSeq); [apply le_n | exact I | reflexivity | discriminate|].
      specialize (F1 k). rewrite map_repeat' in F1. exact F1. }
    replace (S k + K1) with (S (k + K1)) by lia.
    apply (node_r (k + K1) 0 r2 HSeq ss); [exact N2 | reflexivity | apply (F2_map_r G C HC HG); lia | left; reflexivity | discriminate].
  - exists K2. intros [|k]; [oof_case|].
    apply cS_trans with (g := c_seq C (map (ecl k) ss)).
    { apply (node_l k 0 r2 HSeq ss); [exact N2 | reflexivity | apply (F2_map_l G C HC HG); lia | left; reflexivity]. }
    apply cS_trans with (g := c_seq C (repeat (ecl (k + K2) r) (length ss))).
    { apply (c_node_cong C 0 0 HSeq); [apply le_n | exact I | reflexivity | discriminate|].
      specialize (F2 k). rewrite map_repeat' in F2. exact F2. }
    apply cS_trans with (g := c_rep C (length ss) (ecl (k + K2) r)).
    { intros d1 d2 c. apply rep_seq_B; [apply ecl_cS; lia | apply ecl_crest]. }
    replace (S k + K2) with (S (k + K2)) by lia.
    apply (node_r (k + K2) 0 r1 (HRep (length ss)) [r]); [exact N1 | reflexivity | | left; reflexivity | discriminate].
    constructor; [apply ecl_cS; lia | constructor].
Qed.

(* opt< R >  ==  sor< X, success >  whenever X is equivalent to R *)
Theorem opt_sor_gen r1 r2 x su r :
  node r1 HPartial [r] -> node r2 HSor [x; su] -> node su HSuccess [] -> uequiv r x -> uequiv r1 r2.
Proof.
  intros N1 N2 Nsu [[K1 H1] [K2 H2]]. split.
  - exists (S K1). intros [|k]; [oof_case|].
    apply cS_trans with (g := c_opt C (ecl k r)).
    { apply (node_l k 0 r1 HPartial [r]); [exact N1 | reflexivity | | left; reflexivity]. constructor; [apply ecl_cS; lia | constructor]. }
    apply cS_trans with (g := c_sor C [ecl k r; c_success C]).
    { intros d1 d2 c. apply opt_sor_A. apply ecl_cS; lia. }
    replace (S k + S K1) with (S (S (k + K1))) by lia.
    apply (node_r (S (k + K1)) 0 r2 HSor [x; su]); [exact N2 | reflexivity | | left; reflexivity | discriminate].
    constructor; [|constructor; [|constructor]].
    + eapply cS_trans; [apply H1|]. apply ecl_cS. lia.
    + apply (node_r (k + K1) 0 su HSuccess [] []); [exact Nsu | reflexivity | constructor | left; reflexivity | discriminate].
  - exists K2. intros [|[|k]]; [oof_case| |].
    { apply cS_trans with (g := c_sor C [ecl 0 x; ecl 0 su]).
      { apply (node_l 0 0 r2 HSor [x; su]); [exact N2 | reflexivity | | left; reflexivity]. repeat (constructor; [apply ecl_cS; lia|]). constructor. }
      intros d1 d2 c. left. reflexivity. }
    apply cS_trans with (g := c_sor C [ecl (S k) x; c_success C]).
    { apply (node_l (S k) 0 r2 HSor [x; su]); [exact N2 | reflexivity | | left; reflexivity].
      constructor; [apply ecl_cS; lia|]. constructor; [|constructor].
      apply (node_l k 0 su HSuccess [] []); [exact Nsu | reflexivity | constructor | left; reflexivity]. }
    apply cS_trans with (g := c_sor C [ecl (S k + K2) r; c_success C]).
    { apply (c_node_cong C 0 0 HSor); [apply le_n | exact I | reflexivity | discriminate|].
      constructor; [apply H2|]. constructor; [|constructor]. intros d1 d2 c. right. simpl. destruct (flagf false (dM d1) (dM d2)); reflexivity. }
    apply cS_trans with (g := c_opt C (ecl (S k + K2) r)).
    { intros d1 d2 c. apply opt_sor_B. apply ecl_cS; lia. }
    replace (S (S k) + K2) with (S (S k + K2)) by lia.
    apply (node_r (S k + K2) 0 r1 HPartial [r]); [exact N1 | reflexivity | | left; reflexivity | discriminate].
    constructor; [apply ecl_cS; lia | constructor].
Qed.

(* rep< 0, R > and rep_opt< 0, R > are `success` in the implementation *)
Definition rep_like (a : rid) (n : nat) (r : rid) : Prop := node a (HRep n) [r] \/ (n = 0 /\ node a HSuccess []).
Definition repopt_like (b : rid) (n : nat) (r : rid) : Prop := node b (HRepOpt n) [r] \/ (n = 0 /\ node b HSuccess []).

Lemma rep_like_r k a n r : rep_like a n r -> cS (c_rep C n (ecl k r)) (ecl (S k) a).
Proof.
  intros [N|[-> N]].
  - apply (node_r k 0 a (HRep n) [r]); [exact N | reflexivity | | left; reflexivity | discriminate]. constructor; [apply ecl_cS; lia | constructor].
  - apply cS_trans with (g := c_success C); [intros d1 d2 c; right; simpl; reflexivity|].
    apply (node_r k 0 a HSuccess [] []); [exact N | reflexivity | constructor | left; reflexivity | discriminate].
Qed.
Lemma rep_like_l k a n r : rep_like a n r -> cS (ecl (S k) a) (c_rep C n (ecl k r)).
Proof.
  intros [N|[-> N]].
  - apply (node_l k 0 a (HRep n) [r]); [exact N | reflexivity | | left; reflexivity]. constructor; [apply ecl_cS; lia | constructor].
  - apply cS_trans with (g := c_success C); [|intros d1 d2 c; right; simpl; reflexivity].
    apply (node_l k 0 a HSuccess [] []); [exact N | reflexivity | constructor | left; reflexivity].
Qed.
Lemma repopt_like_r k b n r : repopt_like b n r -> cS (c_rep_opt C n (ecl k r)) (ecl (S k) b).
Proof.
  intros [N|[-> N]].
  - apply (node_r k 0 b (HRepOpt n) [r]); [exact N | reflexivity | | left; reflexivity | discriminate]. constructor; [apply ecl_cS; lia | constructor].
  - apply cS_trans with (g := c_success C); [intros d1 d2 c; right; simpl; reflexivity|].
    apply (node_r k 0 b HSuccess [] []); [exact N | reflexivity | constructor | left; reflexivity | discriminate].
Qed.
Lemma repopt_like_l k b n r : repopt_like b n r -> cS (ecl (S k) b) (c_rep_opt C n (ecl k r)).
Proof.
  intros [N|[-> N]].
  - apply (node_l k 0 b (HRepOpt n) [r]); [exact N | reflexivity | | left; reflexivity]. constructor; [apply ecl_cS; lia | constructor].
  - apply cS_trans with (g := c_success C); [|intros d1 d2 c; right; simpl; reflexivity].
    apply (node_l k 0 b HSuccess [] []); [exact N | reflexivity | constructor | left; reflexivity].
Qed.

Theorem rep_min_max_gen mn mx r1 r2 a b na r :
  node r1 (HRepMinMax mn mx) [r] ->
  node r2 HSeq [a; b; na] -> rep_like a mn r -> repopt_like b (mx - mn) r -> node na HNotAt [r] ->
  uequiv r1 r2.
Proof.
  intros N1 N2 Na Nb Nna. split.
  - exists 1. intros [|k]; [oof_case|].
    apply cS_trans with (g := c_rep_min_max C mn mx (ecl k r)).
    { apply (node_l k 0 r1 (HRepMinMax mn mx) [r]); [exact N1 | reflexivity | | left; reflexivity]. constructor; [apply ecl_cS; lia | constructor]. }
    apply cS_trans with (g := rmm_doc C mn mx (ecl k r)).
    { intros d1 d2 c. apply rep_min_max_A; [apply ecl_cS; lia | apply ecl_crest]. }
    replace (S k + 1) with (S (S k)) by lia. unfold rmm_doc.
    apply (node_r (S k) 0 r2 HSeq [a; b; na]); [exact N2 | reflexivity | | left; reflexivity | discriminate].
    constructor; [|constructor; [|constructor; [|constructor]]].
    + apply rep_like_r; exact Na.
    + apply repopt_like_r; exact Nb.
    + apply (node_r k 0 na HNotAt [r]); [exact Nna | reflexivity | | left; reflexivity | discriminate]. constructor; [apply ecl_cS; lia | constructor].
  - exists 0. intros [|[|k]]; [oof_case| |]; rewrite Nat.add_0_r.
    { apply cS_trans with (g := c_seq C [ecl 0 a; ecl 0 b; ecl 0 na]).
      { apply (node_l 0 0 r2 HSeq [a; b; na]); [exact N2 | reflexivity | | left; reflexivity]. repeat (constructor; [apply ecl_cS; lia|]). constructor. }
      intros d1 d2 c. left. reflexivity. }
    apply cS_trans with (g := rmm_doc C mn mx (ecl k r)).
    { unfold rmm_doc. apply (node_l (S k) 0 r2 HSeq [a; b; na]); [exact N2 | reflexivity | | left; reflexivity].
      constructor; [|constructor; [|constructor; [|constructor]]].
      + apply rep_like_l; exact Na.
      + apply repopt_like_l; exact Nb.
      + apply (node_l k 0 na HNotAt [r]); [exact Nna | reflexivity | | left; reflexivity]. constructor; [apply ecl_cS; lia | constructor]. }
    apply cS_trans with (g := c_rep_min_max C mn mx (ecl k r)).
    { intros d1 d2 c. apply rep_min_max_B; [apply ecl_cS; lia | apply ecl_cS; lia | apply ecl_crest]. }
    apply (node_r (S k) 0 r1 (HRepMinMax mn mx) [r]); [exact N1 | reflexivity | | left; reflexivity | discriminate].
    constructor; [apply ecl_cS; lia | constructor].
Qed.

(* if_must< R, S... >  ==  seq< R', must< S... > >  whenever R' is equivalent to R *)
Theorem if_must_seq_gen r1 r2 cnd cnd' m m' :
  node r1 (HIfMust false) [cnd; m] -> node r2 HSeq [cnd'; m'] -> uequiv cnd cnd' -> leq G C m m' -> uequiv r1 r2.
Proof.
  intros N1 N2 [[K1 H1] [K2 H2]] [Lm Lm'].
  assert (NF : forall k, cnofail (ecl k m)) by (intros k; eapply (must_sub_nofail G C HC HG); eauto).
  assert (NF' : forall k, cnofail (ecl k m')) by (intros k; eapply cnofail_cS; [apply (Lm' k k); lia | apply NF]).
  split.
  - exists K1. intros [|k]; [oof_case|].
    apply cS_trans with (g := c_if_must C false (ecl k cnd) (ecl k m)).
    { apply (node_l k 0 r1 (HIfMust false) [cnd; m]); [exact N1 | reflexivity | | left; reflexivity]. repeat (constructor; [apply ecl_cS; lia|]). constructor. }
    apply cS_trans with (g := c_seq C [ecl k cnd; ecl k m']).
    { intros d1 d2 c. apply if_must_seq_A; [apply ecl_cS; lia | apply Lm; lia | apply NF | apply ecl_crest]. }
    apply cS_trans with (g := c_seq C [ecl (k + K1) cnd'; ecl (k + K1) m']).
    { apply (c_node_cong C 0 0 HSeq); [apply le_n | exact I | reflexivity | discriminate|].
      constructor; [apply H1|]. constructor; [apply ecl_cS; lia | constructor]. }
    replace (S k + K1) with (S (k + K1)) by lia.
    apply (node_r (k + K1) 0 r2 HSeq [cnd'; m']); [exact N2 | reflexivity | | left; reflexivity | discriminate].
    repeat (constructor; [apply ecl_cS; lia|]). constructor.
  - exists K2. intros [|k]; [oof_case|].
    apply cS_trans with (g := c_seq C [ecl k cnd'; ecl k m']).
    { apply (node_l k 0 r2 HSeq [cnd'; m']); [exact N2 | reflexivity | | left; reflexivity]. repeat (constructor; [apply ecl_cS; lia|]). constructor. }
    apply cS_trans with (g := c_seq C [ecl (k + K2) cnd; ecl (k + K2) m']).
    { apply (c_node_cong C 0 0 HSeq); [apply le_n | exact I | reflexivity | discriminate|].
      constructor; [apply H2|]. constructor; [apply ecl_cS; lia | constructor]. }
    apply cS_trans with (g := c_if_must C false (ecl (k + K2) cnd) (ecl (k + K2) m)).
    { intros d1 d2 c. apply if_must_seq_B; [apply ecl_cS; lia | apply Lm'; lia | apply NF' | apply ecl_crest]. }
    replace (S k + K2) with (S (k + K2)) by lia.
    apply (node_r (k + K2) 0 r1 (HIfMust false) [cnd; m]); [exact N1 | reflexivity | | left; reflexivity |].
    + repeat (constructor; [apply ecl_cS; lia|]). constructor.
    + intros dflt _. apply lcl2_nofail. apply NF.
Qed.

(* list_must< R, S, P... >: seq< R, star< S', must< R > > >  ==  seq< R, star< if_must< S, R > > >  whenever S' is equivalent to S *)
Theorem list_must_gen r1 st1 sq r2 st2 im r s s' m :
  node r1 HSeq [r; st1] -> node st1 HStarPartial [sq] -> node sq HSeq [s'; m] ->
  node r2 HSeq [r; st2] -> node st2 HStarPartial [im] -> node im (HIfMust false) [s; m] -> uequiv s s' ->
  uequiv r1 r2.
Proof.
  intros N1 Nst1 Nsq N2 Nst2 Nim Hs.
  assert (A : uequiv sq im).
  { apply (uequiv_sym G C). apply (if_must_seq_gen im sq s s' m m Nim Nsq Hs). apply (leq_refl G C HC HG). }
  assert (B : uequiv st1 st2).
  { apply (uequiv_cong G C HC HG st1 st2 HStarPartial [sq] [im] Nst1 Nst2 eq_refl). constructor; [exact A | constructor]. }
  apply (uequiv_cong G C HC HG r1 r2 HSeq [r; st1] [r; st2] N1 N2 eq_refl).
  constructor; [apply (uequiv_refl G C HC HG)|]. constructor; [exact B | constructor].
Qed.

End Gen.
