(* RaiseSpec2.v — C05, the INDEPENDENT specification extended: RaiseSpec.RPeg (PEG with a global-failure
   outcome; must<R> = sor<R, raise<R>>; a raise aborts every enclosing operator; first raise in evaluation
   order) plus the further operators PEGTL documents through must / the classical ones:
     until< C >            loop: C matches -> done; C fails -> fail at end of input, else skip one byte
     until< C, R >         = seq< star< not_at< C >, R >, C >
     rep< k, R >           = seq< R, ..., R >
     rep_opt< k, R >       = rep< k, opt< R > >   (greedy, at most k)
     rep_min_max< a, b, R >= seq< rep< a, R >, rep_opt< b - a, R >, not_at< R > >
     if_then_else< C, T, E > = sor< seq< C, T >, seq< not_at< C >, E > >
     if_must< C > / opt_must< C > without further rules
   (star_must and list_must are aliases: star< if_must< ... > >, seq< R, star< S, must< R > > >.)
   The table is used purely as SYNTAX; no reference to Engine.v.  Same constructors as RPeg for the old heads,
   so RPeg embeds (RPeg_XPeg), and on tables of the old fragment the two coincide (XPeg_RPeg). *)
From PegtlV Require Import Base Decode Grammar Spec Denote RaiseSpec.
Local Open Scope N_scope.

(* heads that only switch the action family / control / apply mode or open a state scope: transparent for the verdict *)
Definition wrap_head (h : head) : bool :=
  match h with HAction _ | HControl _ | HEnable | HDisable | HState => true | _ => false end.
(* try_catch_[any_|std_]return_false catches parse errors; try_catch_type_return_false< E, ... > (a named foreign type) does not *)
Definition catches_parse (f : cfilter) : bool := match f with FType _ => false | _ => true end.

Section X.
Variable G : grammar.

Inductive XPeg : rid -> list byte -> sres -> Prop :=
| XP_atom r nd a s x : nth_error G r = Some nd -> nsubs nd = [] -> atom_den (nhead nd) a ->
    Peg [] a s x -> XPeg r s (lift x)
| XP_seq r nd s x : nth_error G r = Some nd -> nhead nd = HSeq -> nsubs nd <> [] ->
    XSeq (nsubs nd) s x -> XPeg r s x
| XP_sor r nd s x : nth_error G r = Some nd -> nhead nd = HSor -> nsubs nd <> [] ->
    XSor (nsubs nd) s x -> XPeg r s x
| XP_star r nd r1 s x : nth_error G r = Some nd -> nhead nd = HStarPartial -> nsubs nd = [r1] ->
    XStar r1 s x -> XPeg r s x
| XP_plus_fail r nd r1 s : nth_error G r = Some nd -> nhead nd = HPlus -> nsubs nd = [r1] ->
    XPeg r1 s RFail -> XPeg r s RFail
| XP_plus_raise r nd r1 s w s0 : nth_error G r = Some nd -> nhead nd = HPlus -> nsubs nd = [r1] ->
    XPeg r1 s (RRaise w s0) -> XPeg r s (RRaise w s0)
| XP_plus_step r nd r1 s s1 x : nth_error G r = Some nd -> nhead nd = HPlus -> nsubs nd = [r1] ->
    XPeg r1 s (ROk s1) -> XStar r1 s1 x -> XPeg r s x
| XP_opt_ok r nd r1 s s1 : nth_error G r = Some nd -> nhead nd = HPartial -> nsubs nd = [r1] ->
    XPeg r1 s (ROk s1) -> XPeg r s (ROk s1)
| XP_opt_none r nd r1 s : nth_error G r = Some nd -> nhead nd = HPartial -> nsubs nd = [r1] ->
    XPeg r1 s RFail -> XPeg r s (ROk s)
| XP_opt_raise r nd r1 s w s0 : nth_error G r = Some nd -> nhead nd = HPartial -> nsubs nd = [r1] ->
    XPeg r1 s (RRaise w s0) -> XPeg r s (RRaise w s0)
| XP_at_ok r nd r1 s s1 : nth_error G r = Some nd -> nhead nd = HAt -> nsubs nd = [r1] ->
    XPeg r1 s (ROk s1) -> XPeg r s (ROk s)
| XP_at_fail r nd r1 s : nth_error G r = Some nd -> nhead nd = HAt -> nsubs nd = [r1] ->
    XPeg r1 s RFail -> XPeg r s RFail
| XP_at_raise r nd r1 s w s0 : nth_error G r = Some nd -> nhead nd = HAt -> nsubs nd = [r1] ->
    XPeg r1 s (RRaise w s0) -> XPeg r s (RRaise w s0)
| XP_not_at_ok r nd r1 s s1 : nth_error G r = Some nd -> nhead nd = HNotAt -> nsubs nd = [r1] ->
    XPeg r1 s (ROk s1) -> XPeg r s RFail
| XP_not_at_fail r nd r1 s : nth_error G r = Some nd -> nhead nd = HNotAt -> nsubs nd = [r1] ->
    XPeg r1 s RFail -> XPeg r s (ROk s)
| XP_not_at_raise r nd r1 s w s0 : nth_error G r = Some nd -> nhead nd = HNotAt -> nsubs nd = [r1] ->
    XPeg r1 s (RRaise w s0) -> XPeg r s (RRaise w s0)
| XP_must_ok r nd r1 s s1 : nth_error G r = Some nd -> nhead nd = HMust -> nsubs nd = [r1] ->
    XPeg r1 s (ROk s1) -> XPeg r s (ROk s1)
| XP_must_fail r nd r1 s : nth_error G r = Some nd -> nhead nd = HMust -> nsubs nd = [r1] ->
    XPeg r1 s RFail -> XPeg r s (RRaise r1 s)
| XP_must_raise r nd r1 s w s0 : nth_error G r = Some nd -> nhead nd = HMust -> nsubs nd = [r1] ->
    XPeg r1 s (RRaise w s0) -> XPeg r s (RRaise w s0)
| XP_raise r nd t s : nth_error G r = Some nd -> nhead nd = HRaise -> nsubs nd = [t] ->
    XPeg r s (RRaise t s)
| XP_ifmust_cfail r nd dflt cnd m s : nth_error G r = Some nd -> nhead nd = HIfMust dflt -> nsubs nd = [cnd; m] ->
    XPeg cnd s RFail -> XPeg r s (if dflt then ROk s else RFail)
| XP_ifmust_craise r nd dflt cnd m s w s0 : nth_error G r = Some nd -> nhead nd = HIfMust dflt -> nsubs nd = [cnd; m] ->
    XPeg cnd s (RRaise w s0) -> XPeg r s (RRaise w s0)
| XP_ifmust_ok r nd dflt cnd m s s1 s2 : nth_error G r = Some nd -> nhead nd = HIfMust dflt -> nsubs nd = [cnd; m] ->
    XPeg cnd s (ROk s1) -> XPeg m s1 (ROk s2) -> XPeg r s (ROk s2)
| XP_ifmust_raise r nd dflt cnd m s s1 w s0 : nth_error G r = Some nd -> nhead nd = HIfMust dflt -> nsubs nd = [cnd; m] ->
    XPeg cnd s (ROk s1) -> XPeg m s1 (RRaise w s0) -> XPeg r s (RRaise w s0)
(* ---- new heads ---- *)
(* if_must< C > / opt_must< C >: no rules after the condition *)
| XP_ifmust1_ok r nd dflt cnd s s1 : nth_error G r = Some nd -> nhead nd = HIfMust dflt -> nsubs nd = [cnd] ->
    XPeg cnd s (ROk s1) -> XPeg r s (ROk s1)
| XP_ifmust1_fail r nd dflt cnd s : nth_error G r = Some nd -> nhead nd = HIfMust dflt -> nsubs nd = [cnd] ->
    XPeg cnd s RFail -> XPeg r s (if dflt then ROk s else RFail)
| XP_ifmust1_raise r nd dflt cnd s w s0 : nth_error G r = Some nd -> nhead nd = HIfMust dflt -> nsubs nd = [cnd] ->
    XPeg cnd s (RRaise w s0) -> XPeg r s (RRaise w s0)
| XP_until1 r nd cnd s x : nth_error G r = Some nd -> nhead nd = HUntil1 -> nsubs nd = [cnd] ->
    XUntil1 cnd s x -> XPeg r s x
| XP_until2 r nd cnd r1 s x : nth_error G r = Some nd -> nhead nd = HUntil2 -> nsubs nd = [cnd; r1] ->
    XUntil2 cnd r1 s x -> XPeg r s x
| XP_rep r nd k r1 s x : nth_error G r = Some nd -> nhead nd = HRep k -> nsubs nd = [r1] ->
    XRep k r1 s x -> XPeg r s x
| XP_rep_opt r nd k r1 s x : nth_error G r = Some nd -> nhead nd = HRepOpt k -> nsubs nd = [r1] ->
    XRepOpt k r1 s x -> XPeg r s x
(* rep_min_max< mn, mx, R > = seq< rep< mn, R >, rep_opt< mx - mn, R >, not_at< R > > *)
| XP_rmm_fail r nd mn mx r1 s : nth_error G r = Some nd -> nhead nd = HRepMinMax mn mx -> nsubs nd = [r1] ->
    XRep mn r1 s RFail -> XPeg r s RFail
| XP_rmm_raise r nd mn mx r1 s w s0 : nth_error G r = Some nd -> nhead nd = HRepMinMax mn mx -> nsubs nd = [r1] ->
    XRep mn r1 s (RRaise w s0) -> XPeg r s (RRaise w s0)
| XP_rmm_opt_raise r nd mn mx r1 s s1 w s0 : nth_error G r = Some nd -> nhead nd = HRepMinMax mn mx -> nsubs nd = [r1] ->
    XRep mn r1 s (ROk s1) -> XRepOpt (mx - mn) r1 s1 (RRaise w s0) -> XPeg r s (RRaise w s0)
| XP_rmm_ok r nd mn mx r1 s s1 s2 : nth_error G r = Some nd -> nhead nd = HRepMinMax mn mx -> nsubs nd = [r1] ->
    XRep mn r1 s (ROk s1) -> XRepOpt (mx - mn) r1 s1 (ROk s2) -> XPeg r1 s2 RFail -> XPeg r s (ROk s2)
| XP_rmm_more r nd mn mx r1 s s1 s2 s3 : nth_error G r = Some nd -> nhead nd = HRepMinMax mn mx -> nsubs nd = [r1] ->
    XRep mn r1 s (ROk s1) -> XRepOpt (mx - mn) r1 s1 (ROk s2) -> XPeg r1 s2 (ROk s3) -> XPeg r s RFail
| XP_rmm_more_raise r nd mn mx r1 s s1 s2 w s0 : nth_error G r = Some nd -> nhead nd = HRepMinMax mn mx -> nsubs nd = [r1] ->
    XRep mn r1 s (ROk s1) -> XRepOpt (mx - mn) r1 s1 (ROk s2) -> XPeg r1 s2 (RRaise w s0) -> XPeg r s (RRaise w s0)
(* if_then_else< C, T, E > *)
| XP_ite_then r nd cnd t e s s1 x : nth_error G r = Some nd -> nhead nd = HIfThenElse -> nsubs nd = [cnd; t; e] ->
    XPeg cnd s (ROk s1) -> XPeg t s1 x -> XPeg r s x
| XP_ite_else r nd cnd t e s x : nth_error G r = Some nd -> nhead nd = HIfThenElse -> nsubs nd = [cnd; t; e] ->
    XPeg cnd s RFail -> XPeg e s x -> XPeg r s x
| XP_ite_raise r nd cnd t e s w s0 : nth_error G r = Some nd -> nhead nd = HIfThenElse -> nsubs nd = [cnd; t; e] ->
    XPeg cnd s (RRaise w s0) -> XPeg r s (RRaise w s0)
(* action< A, R > / control< K, R > / enable< R > / disable< R > / state< S, R >: the verdict of R *)
| XP_wrap r nd r1 s x : nth_error G r = Some nd -> wrap_head (nhead nd) = true -> nsubs nd = [r1] ->
    XPeg r1 s x -> XPeg r s x
(* try_catch_return_false< R >: a global failure raised inside R becomes a local failure *)
| XP_try_ok r nd flt r1 s s1 : nth_error G r = Some nd -> nhead nd = HTryCatchFalse flt -> nsubs nd = [r1] ->
    XPeg r1 s (ROk s1) -> XPeg r s (ROk s1)
| XP_try_fail r nd flt r1 s : nth_error G r = Some nd -> nhead nd = HTryCatchFalse flt -> nsubs nd = [r1] ->
    XPeg r1 s RFail -> XPeg r s RFail
| XP_try_raise r nd flt r1 s w s0 : nth_error G r = Some nd -> nhead nd = HTryCatchFalse flt -> nsubs nd = [r1] ->
    XPeg r1 s (RRaise w s0) -> XPeg r s (if catches_parse flt then RFail else RRaise w s0)
with XSeq : list rid -> list byte -> sres -> Prop :=
| XS_nil s : XSeq [] s (ROk s)
| XS_fail r rs s : XPeg r s RFail -> XSeq (r :: rs) s RFail
| XS_raise r rs s w s0 : XPeg r s (RRaise w s0) -> XSeq (r :: rs) s (RRaise w s0)
| XS_ok r rs s s1 x : XPeg r s (ROk s1) -> XSeq rs s1 x -> XSeq (r :: rs) s x
with XSor : list rid -> list byte -> sres -> Prop :=
| XO_nil s : XSor [] s RFail
| XO_ok r rs s s1 : XPeg r s (ROk s1) -> XSor (r :: rs) s (ROk s1)
| XO_raise r rs s w s0 : XPeg r s (RRaise w s0) -> XSor (r :: rs) s (RRaise w s0)
| XO_next r rs s x : XPeg r s RFail -> XSor rs s x -> XSor (r :: rs) s x
with XStar : rid -> list byte -> sres -> Prop :=
| XT_end r1 s : XPeg r1 s RFail -> XStar r1 s (ROk s)
| XT_raise r1 s w s0 : XPeg r1 s (RRaise w s0) -> XStar r1 s (RRaise w s0)
| XT_step r1 s s1 x : XPeg r1 s (ROk s1) -> XStar r1 s1 x -> XStar r1 s x
(* until< C >: consume bytes one at a time until C matches *)
with XUntil1 : rid -> list byte -> sres -> Prop :=
| XU1_ok cnd s s1 : XPeg cnd s (ROk s1) -> XUntil1 cnd s (ROk s1)
| XU1_raise cnd s w s0 : XPeg cnd s (RRaise w s0) -> XUntil1 cnd s (RRaise w s0)
| XU1_eof cnd : XPeg cnd [] RFail -> XUntil1 cnd [] RFail
| XU1_skip cnd b s x : XPeg cnd (b :: s) RFail -> XUntil1 cnd s x -> XUntil1 cnd (b :: s) x
(* until< C, R > *)
with XUntil2 : rid -> rid -> list byte -> sres -> Prop :=
| XU2_ok cnd r1 s s1 : XPeg cnd s (ROk s1) -> XUntil2 cnd r1 s (ROk s1)
| XU2_raise cnd r1 s w s0 : XPeg cnd s (RRaise w s0) -> XUntil2 cnd r1 s (RRaise w s0)
| XU2_fail cnd r1 s : XPeg cnd s RFail -> XPeg r1 s RFail -> XUntil2 cnd r1 s RFail
| XU2_rraise cnd r1 s w s0 : XPeg cnd s RFail -> XPeg r1 s (RRaise w s0) -> XUntil2 cnd r1 s (RRaise w s0)
| XU2_step cnd r1 s s1 x : XPeg cnd s RFail -> XPeg r1 s (ROk s1) -> XUntil2 cnd r1 s1 x -> XUntil2 cnd r1 s x
(* rep< k, R > *)
with XRep : nat -> rid -> list byte -> sres -> Prop :=
| XR_zero r1 s : XRep O r1 s (ROk s)
| XR_fail k r1 s : XPeg r1 s RFail -> XRep (S k) r1 s RFail
| XR_raise k r1 s w s0 : XPeg r1 s (RRaise w s0) -> XRep (S k) r1 s (RRaise w s0)
| XR_step k r1 s s1 x : XPeg r1 s (ROk s1) -> XRep k r1 s1 x -> XRep (S k) r1 s x
(* rep_opt< k, R > *)
with XRepOpt : nat -> rid -> list byte -> sres -> Prop :=
| XQ_zero r1 s : XRepOpt O r1 s (ROk s)
| XQ_stop k r1 s : XPeg r1 s RFail -> XRepOpt (S k) r1 s (ROk s)
| XQ_raise k r1 s w s0 : XPeg r1 s (RRaise w s0) -> XRepOpt (S k) r1 s (RRaise w s0)
| XQ_step k r1 s s1 x : XPeg r1 s (ROk s1) -> XRepOpt k r1 s1 x -> XRepOpt (S k) r1 s x.

Scheme XPeg_mind := Minimality for XPeg Sort Prop
  with XSeq_mind := Minimality for XSeq Sort Prop
  with XSor_mind := Minimality for XSor Sort Prop
  with XStar_mind := Minimality for XStar Sort Prop
  with XUntil1_mind := Minimality for XUntil1 Sort Prop
  with XUntil2_mind := Minimality for XUntil2 Sort Prop
  with XRep_mind := Minimality for XRep Sort Prop
  with XRepOpt_mind := Minimality for XRepOpt Sort Prop.
Combined Scheme XPeg_mutind from XPeg_mind, XSeq_mind, XSor_mind, XStar_mind, XUntil1_mind, XUntil2_mind, XRep_mind, XRepOpt_mind.

End X.

(* ---------- the old relation embeds ---------- *)
Lemma RPeg_XPeg_all G :
  (forall r s x, RPeg G r s x -> XPeg G r s x) /\
  (forall rs s x, RSeq G rs s x -> XSeq G rs s x) /\
  (forall rs s x, RSor G rs s x -> XSor G rs s x) /\
  (forall r1 s x, RStar G r1 s x -> XStar G r1 s x).
Proof.
  apply RPeg_mutind; intros.
  - eapply XP_atom; eauto.
  - eapply XP_seq; eauto.
  - eapply XP_sor; eauto.
  - eapply XP_star; eauto.
  - eapply XP_plus_fail; eauto.
  - eapply XP_plus_raise; eauto.
  - eapply XP_plus_step; eauto.
  - eapply XP_opt_ok; eauto.
  - eapply XP_opt_none; eauto.
  - eapply XP_opt_raise; eauto.
  - eapply XP_at_ok; eauto.
  - eapply XP_at_fail; eauto.
  - eapply XP_at_raise; eauto.
  - eapply XP_not_at_ok; eauto.
  - eapply XP_not_at_fail; eauto.
  - eapply XP_not_at_raise; eauto.
  - eapply XP_must_ok; eauto.
  - eapply XP_must_fail; eauto.
  - eapply XP_must_raise; eauto.
  - eapply XP_raise; eauto.
  - eapply XP_ifmust_cfail; eauto.
  - eapply XP_ifmust_craise; eauto.
  - eapply XP_ifmust_ok; eauto.
  - eapply XP_ifmust_raise; eauto.
  - apply XS_nil.
  - apply XS_fail; auto.
  - apply XS_raise; auto.
  - eapply XS_ok; eauto.
  - apply XO_nil.
  - eapply XO_ok; eauto.
  - apply XO_raise; auto.
  - apply XO_next; auto.
  - apply XT_end; auto.
  - apply XT_raise; auto.
  - eapply XT_step; eauto.
Qed.
Theorem RPeg_XPeg G r s x : RPeg G r s x -> XPeg G r s x.
Proof. exact (proj1 (RPeg_XPeg_all G) r s x). Qed.

(* ... and on tables without the new heads nothing is added *)
Definition old_head (h : head) : Prop :=
  match h with
  | HUntil1 | HUntil2 | HRep _ | HRepOpt _ | HRepMinMax _ _ | HIfThenElse
  | HAction _ | HControl _ | HEnable | HDisable | HState | HTryCatchFalse _ => False
  | _ => True
  end.
Definition old_table (G : grammar) : Prop :=
  forall r nd, nth_error G r = Some nd -> old_head (nhead nd) /\ (forall dflt, nhead nd = HIfMust dflt -> length (nsubs nd) = 2%nat).

Lemma XPeg_RPeg_all G : old_table G ->
  (forall r s x, XPeg G r s x -> RPeg G r s x) /\
  (forall rs s x, XSeq G rs s x -> RSeq G rs s x) /\
  (forall rs s x, XSor G rs s x -> RSor G rs s x) /\
  (forall r1 s x, XStar G r1 s x -> RStar G r1 s x) /\
  (forall cnd s x, XUntil1 G cnd s x -> True) /\
  (forall cnd r1 s x, XUntil2 G cnd r1 s x -> True) /\
  (forall k r1 s x, XRep G k r1 s x -> True) /\
  (forall k r1 s x, XRepOpt G k r1 s x -> True).
Proof.
  intros Ho.
  assert (No : forall r nd h, nth_error G r = Some nd -> nhead nd = h -> old_head h).
  { intros r nd h Hn <-. exact (proj1 (Ho r nd Hn)). }
  assert (N1 : forall r nd dflt c, nth_error G r = Some nd -> nhead nd = HIfMust dflt -> nsubs nd = [c] -> False).
  { intros r nd dflt c Hn Hh Hs. pose proof (proj2 (Ho r nd Hn) dflt Hh) as L. rewrite Hs in L. discriminate L. }
  apply XPeg_mutind; intros; try exact I;
  try (exfalso; eapply N1; eauto; fail);
  try (match goal with Hn : nth_error G ?r = Some ?nd, Hh : nhead ?nd = ?h |- _ =>
         let K := fresh in pose proof (No r nd h Hn Hh) as K; simpl in K; contradiction end);
  try (match goal with Hn : nth_error G ?r = Some ?nd, Hw : wrap_head (nhead ?nd) = true |- _ =>
         let K := fresh in pose proof (proj1 (Ho r nd Hn)) as K; destruct (nhead nd); simpl in K, Hw; try contradiction; discriminate Hw end).
  - eapply RP_atom; eauto.
  - eapply RP_seq; eauto.
  - eapply RP_sor; eauto.
  - eapply RP_star; eauto.
  - eapply RP_plus_fail; eauto.
  - eapply RP_plus_raise; eauto.
  - eapply RP_plus_step; eauto.
  - eapply RP_opt_ok; eauto.
  - eapply RP_opt_none; eauto.
  - eapply RP_opt_raise; eauto.
  - eapply RP_at_ok; eauto.
  - eapply RP_at_fail; eauto.
  - eapply RP_at_raise; eauto.
  - eapply RP_not_at_ok; eauto.
  - eapply RP_not_at_fail; eauto.
  - eapply RP_not_at_raise; eauto.
  - eapply RP_must_ok; eauto.
  - eapply RP_must_fail; eauto.
  - eapply RP_must_raise; eauto.
  - eapply RP_raise; eauto.
  - eapply RP_ifmust_cfail; eauto.
  - eapply RP_ifmust_craise; eauto.
  - eapply RP_ifmust_ok; eauto.
  - eapply RP_ifmust_raise; eauto.
  - apply RS_nil.
  - apply RS_fail; auto.
  - apply RS_raise; auto.
  - eapply RS_ok; eauto.
  - apply RO_nil.
  - eapply RO_ok; eauto.
  - apply RO_raise; auto.
  - apply RO_next; auto.
  - apply RT_end; auto.
  - apply RT_raise; auto.
  - eapply RT_step; eauto.
Qed.
Theorem XPeg_RPeg G r s x : old_table G -> XPeg G r s x -> RPeg G r s x.
Proof. intros Ho. exact (proj1 (XPeg_RPeg_all G Ho) r s x). Qed.

(* ---------- determinism ---------- *)
Ltac xuse_ih G :=
  repeat match goal with
  | IH : forall y, XPeg G ?r ?s y -> ?x = y, H : XPeg G ?r ?s ?z |- _ =>
      let E := fresh "E" in pose proof (IH _ H) as E; clear H; fin_eq E
  | IH : forall y, XSeq G ?r ?s y -> ?x = y, H : XSeq G ?r ?s ?z |- _ =>
      let E := fresh "E" in pose proof (IH _ H) as E; clear H; fin_eq E
  | IH : forall y, XSor G ?r ?s y -> ?x = y, H : XSor G ?r ?s ?z |- _ =>
      let E := fresh "E" in pose proof (IH _ H) as E; clear H; fin_eq E
  | IH : forall y, XStar G ?r ?s y -> ?x = y, H : XStar G ?r ?s ?z |- _ =>
      let E := fresh "E" in pose proof (IH _ H) as E; clear H; fin_eq E
  | IH : forall y, XUntil1 G ?r ?s y -> ?x = y, H : XUntil1 G ?r ?s ?z |- _ =>
      let E := fresh "E" in pose proof (IH _ H) as E; clear H; fin_eq E
  | IH : forall y, XUntil2 G ?r ?q ?s y -> ?x = y, H : XUntil2 G ?r ?q ?s ?z |- _ =>
      let E := fresh "E" in pose proof (IH _ H) as E; clear H; fin_eq E
  | IH : forall y, XRep G ?k ?r ?s y -> ?x = y, H : XRep G ?k ?r ?s ?z |- _ =>
      let E := fresh "E" in pose proof (IH _ H) as E; clear H; fin_eq E
  | IH : forall y, XRepOpt G ?k ?r ?s y -> ?x = y, H : XRepOpt G ?k ?r ?s ?z |- _ =>
      let E := fresh "E" in pose proof (IH _ H) as E; clear H; fin_eq E
  end.

Lemma XPeg_det_all G :
  (forall r s x, XPeg G r s x -> forall y, XPeg G r s y -> x = y) /\
  (forall rs s x, XSeq G rs s x -> forall y, XSeq G rs s y -> x = y) /\
  (forall rs s x, XSor G rs s x -> forall y, XSor G rs s y -> x = y) /\
  (forall r1 s x, XStar G r1 s x -> forall y, XStar G r1 s y -> x = y) /\
  (forall cnd s x, XUntil1 G cnd s x -> forall y, XUntil1 G cnd s y -> x = y) /\
  (forall cnd r1 s x, XUntil2 G cnd r1 s x -> forall y, XUntil2 G cnd r1 s y -> x = y) /\
  (forall k r1 s x, XRep G k r1 s x -> forall y, XRep G k r1 s y -> x = y) /\
  (forall k r1 s x, XRepOpt G k r1 s x -> forall y, XRepOpt G k r1 s y -> x = y).
Proof.
  apply XPeg_mutind; intros;
  match goal with H : _ |- _ = ?y => match type of H with context [y] => inversion H; subst end end;
  same_node; try congruence;
  try (match goal with H1 : wrap_head (nhead ?nd) = true, H2 : nhead ?nd = _ |- _ => rewrite H2 in H1; discriminate H1 end);
  same_subs; try congruence; xuse_ih G; try reflexivity; try congruence.
  - (* atom / atom *)
    match goal with A1 : atom_den _ ?a, A2 : atom_den _ ?b |- _ => pose proof (atom_den_inj _ _ _ A1 A2); subst end.
    match goal with P1 : Peg [] ?a ?s ?x, P2 : Peg [] ?a ?s ?y |- _ => rewrite (Peg_deterministic _ _ _ _ P1 _ P2) end.
    reflexivity.
Qed.

Theorem XPeg_det G r s x y : XPeg G r s x -> XPeg G r s y -> x = y.
Proof. intros H1 H2. exact (proj1 (XPeg_det_all G) r s x H1 y H2). Qed.

(* ---------- suffix property ---------- *)
Lemma XPeg_suf_all G :
  (forall r s x, XPeg G r s x -> sres_suf s x) /\
  (forall rs s x, XSeq G rs s x -> sres_suf s x) /\
  (forall rs s x, XSor G rs s x -> sres_suf s x) /\
  (forall r1 s x, XStar G r1 s x -> sres_suf s x) /\
  (forall cnd s x, XUntil1 G cnd s x -> sres_suf s x) /\
  (forall cnd r1 s x, XUntil2 G cnd r1 s x -> sres_suf s x) /\
  (forall k r1 s x, XRep G k r1 s x -> sres_suf s x) /\
  (forall k r1 s x, XRepOpt G k r1 s x -> sres_suf s x).
Proof.
  assert (Cons : forall b s x, sres_suf s x -> sres_suf (b :: s) x).
  { intros b s x. apply sres_suf_trans. exists [b]. reflexivity. }
  apply XPeg_mutind; intros; cbn [sres_suf] in *; auto using suf_refl;
  try (destruct dflt; cbn [sres_suf]; auto using suf_refl; fail);
  try (destruct (catches_parse flt); cbn [sres_suf]; auto; fail);
  try (repeat first [ assumption | apply suf_refl
                    | match goal with
                      | H : suf ?a ?b |- suf ?a _ => apply (suf_trans _ _ _ H); clear H
                      | H : suf ?a ?b |- sres_suf ?a _ => apply (sres_suf_trans _ _ _ H); clear H
                      end ]; fail).
  - destruct x as [s'|]; cbn [lift sres_suf]; [|exact I].
    match goal with P : Peg _ _ _ _ |- _ => exact (Peg_suffix _ _ _ _ P s' eq_refl) end.
Qed.

Theorem XPeg_suffix G r s s' : XPeg G r s (ROk s') -> exists pre, s = pre ++ s'.
Proof. intros H. exact (proj1 (XPeg_suf_all G) r s _ H). Qed.
Theorem XPeg_raise_suffix G r s w s0 : XPeg G r s (RRaise w s0) -> exists pre, s = pre ++ s0.
Proof. intros H. exact (proj1 (XPeg_suf_all G) r s _ H). Qed.
