(* EquivTableU.v — C09: the expansion theorems of EquivTable.v (until< R, S >, if_then_else, if_must, opt_must) restated
   as UNIFORM equivalences (fixed fuel overhead, EquivTable2.uequiv), so that the congruence of EquivCong.v applies to them
   too.  The proofs are those of EquivTable.v, with the overhead made explicit. *)
From Coq Require Import Lia Bool.
From PegtlV Require Import Base Decode Grammar Engine EngineFacts AtomFacts Mono Equiv EquivFacts EquivEval EquivHeads EquivTable EquivHeads2 EquivTable2.

Section TableU.
Variable G : grammar.
Variable C : cfg.
Hypothesis HC : noact_cfg C.
Hypothesis HG : plain_table G.
Hypothesis HW : table_wf G.

Notation ecl := (ecl G C).
Notation node := (node G).
Notation uequiv := (uequiv G C).
Notation leq := (leq G C).
Notation node_l := (node_l G C HC HG).
Notation node_r := (node_r G C HC HG).
Notation ecl_cS := (ecl_cS G C HC HG).
Notation ecl_crest := (ecl_crest G C HW).
Notation must_sub_nofail := (must_sub_nofail G C HC HG).

Ltac leafs := repeat (first [ apply Forall2_nil | apply Forall2_cons; [apply ecl_cS; lia|] ]).
Ltac oof_case := intros ? ? ?; left; reflexivity.

Theorem until2_utable r1 r2 cnd s st sq na :
  node r1 HUntil2 [cnd; s] ->
  node r2 HSeq [st; cnd] -> node st HStarPartial [sq] -> node sq HSeq [na; s] -> node na HNotAt [cnd] ->
  uequiv r1 r2.
Proof.
  intros N1 N2 Nst Nsq Nna. split.
  - exists 4. intros [|k]; [intros d1 d2 c; left; reflexivity|].
    apply cS_trans with (g := u2_impl C k (ecl k cnd) (ecl k s)).
    { apply (node_l k k r1 HUntil2 [cnd; s] [ecl k cnd; ecl k s] N1 eq_refl); [|right; lia].
      constructor; [apply ecl_cS; lia|]. constructor; [apply ecl_cS; lia | constructor]. }
    apply cS_trans with (g := u2_doc C k (ecl k cnd) (ecl k s)).
    { intros d1 d2 c. apply (until2_A C (ecl k cnd) (ecl k s) (ecl k cnd) (ecl k s)); try (apply ecl_cS; lia); [apply ecl_crest | apply le_n]. }
    replace (S k + 4) with (S (k + 4)) by lia. unfold u2_doc.
    apply (node_r (k + 4) 0 r2 HSeq [st; cnd]); [exact N2 | reflexivity | | left; reflexivity | discriminate].
    constructor; [|constructor; [apply ecl_cS; lia | constructor]].
    replace (k + 4) with (S (k + 3)) by lia. unfold u2_st.
    apply (node_r (k + 3) k st HStarPartial [sq]); [exact Nst | reflexivity | | right; lia | discriminate].
    constructor; [|constructor].
    replace (k + 3) with (S (k + 2)) by lia. unfold u2_sq.
    apply (node_r (k + 2) 0 sq HSeq [na; s]); [exact Nsq | reflexivity | | left; reflexivity | discriminate].
    constructor; [|constructor; [apply ecl_cS; lia | constructor]].
    replace (k + 2) with (S (k + 1)) by lia. unfold u2_na.
    apply (node_r (k + 1) 0 na HNotAt [cnd]); [exact Nna | reflexivity | | left; reflexivity | discriminate].
    constructor; [apply ecl_cS; lia | constructor].
  - exists 1. intros K.
    assert (L : forall j q, j <= K -> cS (ecl j q) (ecl K q)) by (intros; apply ecl_cS; assumption).
    apply cS_trans with (g := u2_doc C K (ecl K cnd) (ecl K s)).
    + destruct K as [|k1]; [intros d1 d2 c; left; reflexivity|]. unfold u2_doc.
      apply (node_l k1 0 r2 HSeq [st; cnd]); [exact N2 | reflexivity | | left; reflexivity].
      constructor; [|constructor; [apply L; lia | constructor]].
      destruct k1 as [|k2]; [intros d1 d2 c; left; reflexivity|]. unfold u2_st.
      apply (node_l k2 (S (S k2)) st HStarPartial [sq]); [exact Nst | reflexivity | | right; lia].
      constructor; [|constructor].
      destruct k2 as [|k3]; [intros d1 d2 c; left; reflexivity|]. unfold u2_sq.
      apply (node_l k3 0 sq HSeq [na; s]); [exact Nsq | reflexivity | | left; reflexivity].
      constructor; [|constructor; [apply L; lia | constructor]].
      destruct k3 as [|k4]; [intros d1 d2 c; left; reflexivity|]. unfold u2_na.
      apply (node_l k4 0 na HNotAt [cnd]); [exact Nna | reflexivity | | left; reflexivity].
      constructor; [apply L; lia | constructor].
    + apply cS_trans with (g := u2_impl C K (ecl K cnd) (ecl K s)).
      { intros d1 d2 c. apply (until2_B C (ecl K cnd) (ecl K s) (ecl K cnd) (ecl K s)); try (apply ecl_cS; lia); [apply ecl_crest | apply le_n]. }
      replace (K + 1) with (S K) by lia. unfold u2_impl.
      apply (node_r K K r1 HUntil2 [cnd; s]); [exact N1 | reflexivity | | right; lia | discriminate].
      constructor; [apply ecl_cS; lia|]. constructor; [apply ecl_cS; lia | constructor].
Qed.

Theorem if_then_else_utable r1 r2 cnd t e s1 s2 na :
  node r1 HIfThenElse [cnd; t; e] ->
  node r2 HSor [s1; s2] -> node s1 HSeq [cnd; t] -> node s2 HSeq [na; e] -> node na HNotAt [cnd] ->
  uequiv r1 r2.
Proof.
  intros N1 N2 Ns1 Ns2 Nna. split.
  - exists 2. intros [|k]; [oof_case|].
    apply cS_trans with (g := c_ite C (ecl k cnd) (ecl k t) (ecl k e)).
    { apply (node_l k 0 r1 HIfThenElse [cnd; t; e]); [exact N1 | reflexivity | leafs | left; reflexivity]. }
    apply cS_trans with (g := c_sor C [c_seq C [ecl k cnd; ecl k t]; c_seq C [c_not C (ecl k cnd); ecl k e]]).
    { intros d1 d2 c. apply if_then_else_A; try (apply ecl_cS; lia). apply ecl_crest. }
    replace (S k + 2) with (S (k + 2)) by lia.
    apply (node_r (k + 2) 0 r2 HSor [s1; s2]); [exact N2 | reflexivity | | left; reflexivity | discriminate].
    replace (k + 2) with (S (k + 1)) by lia.
    constructor; [|constructor; [|constructor]].
    + apply (node_r (k + 1) 0 s1 HSeq [cnd; t]); [exact Ns1 | reflexivity | leafs | left; reflexivity | discriminate].
    + apply (node_r (k + 1) 0 s2 HSeq [na; e]); [exact Ns2 | reflexivity | | left; reflexivity | discriminate].
      constructor; [|leafs]. replace (k + 1) with (S k) by lia.
      apply (node_r k 0 na HNotAt [cnd]); [exact Nna | reflexivity | leafs | left; reflexivity | discriminate].
  - exists 1. intros K.
    assert (L : forall j q, j <= K -> cS (ecl j q) (ecl K q)) by (intros; apply ecl_cS; assumption).
    apply cS_trans with (g := c_sor C [c_seq C [ecl K cnd; ecl K t]; c_seq C [c_not C (ecl K cnd); ecl K e]]).
    + destruct K as [|k1]; [oof_case|].
      apply (node_l k1 0 r2 HSor [s1; s2]); [exact N2 | reflexivity | | left; reflexivity].
      destruct k1 as [|k2]; [repeat (constructor; [oof_case|]); constructor|].
      constructor; [|constructor; [|constructor]].
      * apply (node_l k2 0 s1 HSeq [cnd; t]); [exact Ns1 | reflexivity | | left; reflexivity].
        repeat (constructor; [apply L; lia|]). constructor.
      * apply (node_l k2 0 s2 HSeq [na; e]); [exact Ns2 | reflexivity | | left; reflexivity].
        constructor; [|constructor; [apply L; lia | constructor]].
        destruct k2 as [|k3]; [oof_case|].
        apply (node_l k3 0 na HNotAt [cnd]); [exact Nna | reflexivity | | left; reflexivity].
        constructor; [apply L; lia | constructor].
    + apply cS_trans with (g := c_ite C (ecl K cnd) (ecl K t) (ecl K e)).
      { intros d1 d2 c. apply if_then_else_B; try (apply ecl_cS; lia). apply ecl_crest. }
      replace (K + 1) with (S K) by lia.
      apply (node_r K 0 r1 HIfThenElse [cnd; t; e]); [exact N1 | reflexivity | leafs | left; reflexivity | discriminate].
Qed.

Theorem if_must_seq_utable r1 r2 cnd m m' :
  node r1 (HIfMust false) [cnd; m] -> node r2 HSeq [cnd; m'] -> leq m m' -> uequiv r1 r2.
Proof.
  intros N1 N2 [Lm Lm'].
  assert (NF : forall k, cnofail (ecl k m)) by (intros k; eapply must_sub_nofail; eauto).
  assert (NF' : forall k, cnofail (ecl k m')) by (intros k; eapply cnofail_cS; [apply (Lm' k k); lia | apply NF]).
  split.
  - exists 0. intros [|k]; [oof_case|]. rewrite Nat.add_0_r.
    apply cS_trans with (g := c_if_must C false (ecl k cnd) (ecl k m)).
    { apply (node_l k 0 r1 (HIfMust false) [cnd; m]); [exact N1 | reflexivity | leafs | left; reflexivity]. }
    apply cS_trans with (g := c_seq C [ecl k cnd; ecl k m']).
    { intros d1 d2 c. apply if_must_seq_A; [apply ecl_cS; lia | apply Lm; lia | apply NF | apply ecl_crest]. }
    apply (node_r k 0 r2 HSeq [cnd; m']); [exact N2 | reflexivity | leafs | left; reflexivity | discriminate].
  - exists 0. intros [|k]; [oof_case|]. rewrite Nat.add_0_r.
    apply cS_trans with (g := c_seq C [ecl k cnd; ecl k m']).
    { apply (node_l k 0 r2 HSeq [cnd; m']); [exact N2 | reflexivity | leafs | left; reflexivity]. }
    apply cS_trans with (g := c_if_must C false (ecl k cnd) (ecl k m)).
    { intros d1 d2 c. apply if_must_seq_B; [apply ecl_cS; lia | apply Lm'; lia | apply NF' | apply ecl_crest]. }
    apply (node_r k 0 r1 (HIfMust false) [cnd; m]); [exact N1 | reflexivity | leafs | left; reflexivity |].
    intros dflt _. apply lcl2_nofail. apply NF.
Qed.

Theorem if_must_ite_utable dflt r1 r2 cnd m m' x :
  node r1 (HIfMust dflt) [cnd; m] -> node r2 HIfThenElse [cnd; m'; x] -> node x (if dflt then HSuccess else HFailure) [] ->
  leq m m' -> uequiv r1 r2.
Proof.
  intros N1 N2 Nf [Lm Lm'].
  assert (NF : forall k, cnofail (ecl k m)) by (intros k; eapply must_sub_nofail; eauto).
  assert (NF' : forall k, cnofail (ecl k m')) by (intros k; eapply cnofail_cS; [apply (Lm' k k); lia | apply NF]).
  set (hx := if dflt then HSuccess else HFailure) in *.
  assert (Hlx : loop_head hx = false) by (unfold hx; destruct dflt; reflexivity).
  assert (Hnx : names_sub hx = false) by (unfold hx; destruct dflt; reflexivity).
  assert (Hix : forall d0, hx = HIfMust d0 -> False) by (unfold hx; destruct dflt; discriminate).
  assert (F : forall k, cS (c_node C 0 hx []) (ecl (S k) x)).
  { intros k. apply (node_r k 0 x hx [] []); [exact Nf | exact Hnx | constructor | left; exact Hlx |]. intros d0 Hd. destruct (Hix d0 Hd). }
  assert (F' : forall k, cS (ecl (S k) x) (c_node C 0 hx [])).
  { intros k. apply (node_l k 0 x hx [] []); [exact Nf | exact Hnx | constructor | left; exact Hlx]. }
  split.
  - exists 1. intros [|k]; [oof_case|].
    apply cS_trans with (g := c_if_must C dflt (ecl k cnd) (ecl k m)).
    { apply (node_l k 0 r1 (HIfMust dflt) [cnd; m]); [exact N1 | reflexivity | leafs | left; reflexivity]. }
    apply cS_trans with (g := c_ite C (ecl k cnd) (ecl k m') (c_node C 0 hx [])).
    { intros d1 d2 c. unfold hx. destruct dflt.
      - apply opt_must_ite_A; [apply ecl_cS; lia | apply Lm; lia | apply NF | apply ecl_crest | apply ecl_crest].
      - apply if_must_ite_A; [apply ecl_cS; lia | apply Lm; lia | apply NF | apply ecl_crest]. }
    replace (S k + 1) with (S (S k)) by lia.
    apply (node_r (S k) 0 r2 HIfThenElse [cnd; m'; x]); [exact N2 | reflexivity | | left; reflexivity | discriminate].
    constructor; [apply ecl_cS; lia|]. constructor; [apply ecl_cS; lia|]. constructor; [apply F | constructor].
  - exists 0. intros [|[|k]]; [oof_case| |]; rewrite Nat.add_0_r.
    { apply cS_trans with (g := c_ite C (ecl 0 cnd) (ecl 0 m') (ecl 0 x)).
      { apply (node_l 0 0 r2 HIfThenElse [cnd; m'; x]); [exact N2 | reflexivity | leafs | left; reflexivity]. }
      intros d1 d2 c. left. reflexivity. }
    apply cS_trans with (g := c_ite C (ecl (S k) cnd) (ecl (S k) m') (c_node C 0 hx [])).
    { apply (node_l (S k) 0 r2 HIfThenElse [cnd; m'; x]); [exact N2 | reflexivity | | left; reflexivity].
      constructor; [apply ecl_cS; lia|]. constructor; [apply ecl_cS; lia|]. constructor; [apply F' | constructor]. }
    apply cS_trans with (g := c_if_must C dflt (ecl (S k) cnd) (ecl (S k) m)).
    { intros d1 d2 c. unfold hx. destruct dflt.
      - apply opt_must_ite_B; [apply ecl_cS; lia | apply Lm'; lia | apply NF' | apply ecl_crest | apply ecl_crest].
      - apply if_must_ite_B; [apply ecl_cS; lia | apply Lm'; lia | apply NF' | apply ecl_crest]. }
    apply (node_r (S k) 0 r1 (HIfMust dflt) [cnd; m]); [exact N1 | reflexivity | leafs | left; reflexivity |].
    intros d0 _. apply lcl2_nofail. apply NF.
Qed.

Theorem opt_must_opt_utable r1 r2 im cnd m m' :
  node r1 (HIfMust true) [cnd; m] -> node r2 HPartial [im] -> node im (HIfMust false) [cnd; m'] -> leq m m' -> uequiv r1 r2.
Proof.
  intros N1 N2 Ni [Lm Lm'].
  assert (NF : forall k, cnofail (ecl k m)) by (intros k; eapply must_sub_nofail; eauto).
  assert (NF' : forall k, cnofail (ecl k m')) by (intros k; eapply must_sub_nofail; eauto).
  split.
  - exists 1. intros [|k]; [oof_case|].
    apply cS_trans with (g := c_if_must C true (ecl k cnd) (ecl k m)).
    { apply (node_l k 0 r1 (HIfMust true) [cnd; m]); [exact N1 | reflexivity | leafs | left; reflexivity]. }
    apply cS_trans with (g := c_opt C (c_if_must C false (ecl k cnd) (ecl k m'))).
    { intros d1 d2 c. apply opt_must_opt_A; [apply ecl_cS; lia | apply Lm; lia | apply NF | apply ecl_crest | apply ecl_crest]. }
    replace (S k + 1) with (S (S k)) by lia.
    apply (node_r (S k) 0 r2 HPartial [im]); [exact N2 | reflexivity | | left; reflexivity | discriminate].
    constructor; [|constructor].
    apply (node_r k 0 im (HIfMust false) [cnd; m']); [exact Ni | reflexivity | leafs | left; reflexivity |].
    intros dflt _. apply lcl2_nofail. apply NF'.
  - exists 0. intros [|[|k]]; [oof_case| |]; rewrite Nat.add_0_r.
    { apply cS_trans with (g := c_opt C (ecl 0 im)).
      { apply (node_l 0 0 r2 HPartial [im]); [exact N2 | reflexivity | leafs | left; reflexivity]. }
      intros d1 d2 c. left. reflexivity. }
    apply cS_trans with (g := c_opt C (c_if_must C false (ecl (S k) cnd) (ecl (S k) m'))).
    { apply (node_l (S k) 0 r2 HPartial [im]); [exact N2 | reflexivity | | left; reflexivity].
      constructor; [|constructor].
      apply (node_l k 0 im (HIfMust false) [cnd; m']); [exact Ni | reflexivity | leafs | left; reflexivity]. }
    apply cS_trans with (g := c_if_must C true (ecl (S k) cnd) (ecl (S k) m)).
    { intros d1 d2 c. apply opt_must_opt_B; [apply ecl_cS; lia | apply Lm'; lia | apply NF' | apply ecl_crest | apply ecl_crest]. }
    apply (node_r (S k) 0 r1 (HIfMust true) [cnd; m]); [exact N1 | reflexivity | leafs | left; reflexivity |].
    intros dflt _. apply lcl2_nofail. apply NF.
Qed.

End TableU.
