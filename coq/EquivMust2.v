(* EquivMust2.v — C09: must< R1, ..., Rn > (rule_t seq< must< R1 >, ..., must< Rn > >) against the documented expansion
   seq< sor< R1, raise< R1 > >, ..., sor< Rn, raise< Rn > > >, up to error positions (pos_rel): same success and cursor, neither
   side fails locally, an exception is either the same on both sides or a parse_error for the same rule (at possibly
   different positions: see EquivMust.must_rel for the exact relation of the two positions in the single-rule case). *)
From Coq Require Import Lia Bool.
From PegtlV Require Import Base Decode Grammar Engine EngineFacts AtomFacts Mono Equiv EquivFacts EquivEval EquivHeads EquivTable EquivMust.

Definition pos_rel (x y : result) : Prop :=
  match x, y with
  | Res Ok c1 _, Res Ok c2 _ => c1 = c2
  | Res (Exc e1) _ _, Res (Exc e2) _ _ => e1 = e2 \/ exists r p1 p2, e1 = EParse (WRule r) p1 /\ e2 = EParse (WRule r) p2
  | Err, Err => True
  | _, _ => False
  end.
Lemma must_rel_pos r c x y : must_rel r c x y -> pos_rel x y.
Proof.
  dres x; dres y; simpl; auto. intros [H|[p [H1 [H2 _]]]]; [left; exact H | right; exists r, p, (cpos c); auto].
Qed.
Lemma pos_rel_guard m1 m2 s1 s2 x y : pos_rel x y -> pos_rel (guard m1 s1 x) (guard m2 s2 y).
Proof. dres x; dres y; simpl; auto. Qed.
Lemma pos_rel_prepend e1 e2 x y : pos_rel x y -> pos_rel (prepend e1 x) (prepend e2 y).
Proof. dres x; dres y; simpl; auto. Qed.
Lemma pos_rel_sim_l x x' y : oeq true true x' x -> pos_rel x y -> pos_rel x' y.
Proof.
  dres x'; dres x; simpl; try contradiction; dres y; simpl; try contradiction; auto; try congruence.
  intros [-> _] H. exact H.
Qed.
Lemma pos_rel_sim_r x y y' : oeq true true y y' -> pos_rel x y -> pos_rel x y'.
Proof.
  dres y; dres y'; simpl; try contradiction; dres x; simpl; try contradiction; auto; try congruence.
  intros [<- _] H. exact H.
Qed.

Section MustPack.
Variable G : grammar.
Variable C : cfg.
Hypothesis HC : noact_cfg C.
Hypothesis HG : plain_table G.
Hypothesis HW : table_wf G.
Notation E := (eval G C).

(* m = must< R >, s = sor< R, raise< R > > over the same R *)
Definition must_pair (m s : rid) : Prop := exists q z, node G m HMust [q] /\ node G s HSor [q; z] /\ node G z HRaise [q].

Lemma stable F F' d r c : F <= F' -> E F d r c <> Oof -> E F' d r c = E F d r c.
Proof. intros L H. destruct (eval_mono G C F F' L d r c) as [K|K]; [contradiction | symmetry; exact K]. Qed.

Lemma pair_fwd m s : must_pair m s -> forall k d1 d2 c, E k d1 m c = Oof \/ exists F, forall F', F <= F' -> pos_rel (E k d1 m c) (E F' d2 s c).
Proof.
  intros [q [z [Nm [Ns Nz]]]] k d1 d2 c.
  destruct (must_expansion_fwd G C HC HG HW m s z q Nm Ns Nz k d1 d2 c) as [K|[f' K]]; [left; exact K|]. right.
  exists f'. intros F' L. apply must_rel_pos in K.
  rewrite (stable f' F' d2 s c L); [exact K|]. intros Ho. rewrite Ho in K. dres (E k d1 m c); simpl in K; contradiction.
Qed.
Lemma pair_bwd m s : must_pair m s -> forall k d1 d2 c, E k d2 s c = Oof \/ exists F, forall F', F <= F' -> pos_rel (E F' d1 m c) (E k d2 s c).
Proof.
  intros [q [z [Nm [Ns Nz]]]] k d1 d2 c.
  destruct (must_expansion_bwd G C HC HG HW m s z q Nm Ns Nz k d1 d2 c) as [K|[f' K]]; [left; exact K|]. right.
  exists f'. intros F' L. apply must_rel_pos in K.
  rewrite (stable f' F' d1 m c L); [exact K|]. intros Ho. rewrite Ho in K. simpl in K. exact K.
Qed.

Lemma seq_fwd ms ss : Forall2 must_pair ms ss -> forall k d1 d2 c,
  seq_all (E k) d1 ms c = Oof \/ exists F, forall F', F <= F' -> pos_rel (seq_all (E k) d1 ms c) (seq_all (E F') d2 ss c).
Proof.
  induction 1 as [|m s ms ss P F2 IH]; intros k d1 d2 c; simpl.
  - right. exists 0. intros. simpl. reflexivity.
  - destruct (pair_fwd m s P k d1 d2 c) as [K|[F K]]; [rewrite K; left; reflexivity|].
    destruct (E k d1 m c) as [[| |x] c1 e1| |] eqn:Ex.
    + destruct (IH k d1 d2 c1) as [K2|[Fb K2]]; [simpl; rewrite K2; left; reflexivity|]. right.
      exists (Nat.max F Fb). intros F' L. specialize (K F' ltac:(lia)). specialize (K2 F' ltac:(lia)).
      dres (E F' d2 s c); simpl in K; try contradiction. subst. simpl. apply pos_rel_prepend. exact K2.
    + right. exists F. intros F' L. specialize (K F' L). dres (E F' d2 s c); simpl in K; contradiction.
    + right. exists F. intros F' L. specialize (K F' L). dres (E F' d2 s c); simpl in K; try contradiction. simpl. exact K.
    + left. reflexivity.
    + right. exists F. intros F' L. specialize (K F' L). dres (E F' d2 s c); simpl in K; try contradiction. exact I.
Qed.
Lemma seq_bwd ms ss : Forall2 must_pair ms ss -> forall k d1 d2 c,
  seq_all (E k) d2 ss c = Oof \/ exists F, forall F', F <= F' -> pos_rel (seq_all (E F') d1 ms c) (seq_all (E k) d2 ss c).
Proof.
  induction 1 as [|m s ms ss P F2 IH]; intros k d1 d2 c; simpl.
  - right. exists 0. intros. simpl. reflexivity.
  - destruct (pair_bwd m s P k d1 d2 c) as [K|[F K]]; [rewrite K; left; reflexivity|].
    destruct (E k d2 s c) as [[| |x] c1 e1| |] eqn:Ex.
    + destruct (IH k d1 d2 c1) as [K2|[Fb K2]]; [simpl; rewrite K2; left; reflexivity|]. right.
      exists (Nat.max F Fb). intros F' L. specialize (K F' ltac:(lia)). specialize (K2 F' ltac:(lia)).
      dres (E F' d1 m c); simpl in K; try contradiction. subst. simpl. apply pos_rel_prepend. exact K2.
    + right. exists F. intros F' L. specialize (K F' L). dres (E F' d1 m c); simpl in K; contradiction.
    + right. exists F. intros F' L. specialize (K F' L). dres (E F' d1 m c); simpl in K; try contradiction. simpl. exact K.
    + left. reflexivity.
    + right. exists F. intros F' L. specialize (K F' L). dres (E F' d1 m c); simpl in K; try contradiction. exact I.
Qed.

Lemma hseq_fwd ms ss : Forall2 must_pair ms ss -> forall k d1 d2 c,
  h_seq (E k) d1 ms c = Oof \/ exists F, forall F', F <= F' -> pos_rel (h_seq (E k) d1 ms c) (h_seq (E F') d2 ss c).
Proof.
  intros F2 k d1 d2 c. unfold h_seq. destruct F2 as [|m s ms ss P F2].
  - right. exists 0. intros. simpl. reflexivity.
  - destruct F2 as [|m2 s2 ms ss P2 F2]; [apply (pair_fwd m s P)|].
    destruct (seq_fwd (m :: m2 :: ms) (s :: s2 :: ss) (Forall2_cons _ _ P (Forall2_cons _ _ P2 F2)) k (opt_ d1) (opt_ d2) c) as [K|[F K]].
    + rewrite K. left. reflexivity.
    + right. exists F. intros F' L. apply pos_rel_guard. apply K. exact L.
Qed.
Lemma hseq_bwd ms ss : Forall2 must_pair ms ss -> forall k d1 d2 c,
  h_seq (E k) d2 ss c = Oof \/ exists F, forall F', F <= F' -> pos_rel (h_seq (E F') d1 ms c) (h_seq (E k) d2 ss c).
Proof.
  intros F2 k d1 d2 c. unfold h_seq. destruct F2 as [|m s ms ss P F2].
  - right. exists 0. intros. simpl. reflexivity.
  - destruct F2 as [|m2 s2 ms ss P2 F2]; [apply (pair_bwd m s P)|].
    destruct (seq_bwd (m :: m2 :: ms) (s :: s2 :: ss) (Forall2_cons _ _ P (Forall2_cons _ _ P2 F2)) k (opt_ d1) (opt_ d2) c) as [K|[F K]].
    + rewrite K. left. reflexivity.
    + right. exists F. intros F' L. apply pos_rel_guard. apply K. exact L.
Qed.

Lemma node_seq_l k d r rs c : node G r HSeq rs -> E (S k) d r c = Oof \/ oeq true true (E (S k) d r c) (h_seq (E k) d rs c).
Proof.
  intros [nd [Hn [Hh Hs]]]. pose proof (eval_node_l G C HC true true k d r c nd Hn) as K. rewrite Hh, Hs in K. exact K.
Qed.
Lemma node_seq_r k d r rs c : node G r HSeq rs -> h_seq (E k) d rs c = Oof \/ oeq true true (h_seq (E k) d rs c) (E (S k) d r c).
Proof.
  intros [nd [Hn [Hh Hs]]]. pose proof (eval_node_r G C HC true true k d r c nd Hn) as K. rewrite Hh, Hs in K. exact K.
Qed.

(* must< R1, ..., Rn >, n >= 2 (and the n = 1 seq shape) *)
Theorem must_pack_fwd r1 r2 ms ss :
  node G r1 HSeq ms -> node G r2 HSeq ss -> Forall2 must_pair ms ss ->
  forall f d1 d2 c, E f d1 r1 c = Oof \/ exists f', pos_rel (E f d1 r1 c) (E f' d2 r2 c).
Proof.
  intros N1 N2 F2 f d1 d2 c. destruct f as [|k]; [left; reflexivity|].
  destruct (node_seq_l k d1 r1 ms c N1) as [K|K]; [left; exact K|]. right.
  destruct (hseq_fwd ms ss F2 k d1 d2 c) as [Ho|[F KF]]; [rewrite Ho in K; dres (E (S k) d1 r1 c); contradiction|].
  exists (S F). specialize (KF F (le_n F)).
  destruct (node_seq_r F d2 r2 ss c N2) as [Ho|K3].
  - rewrite Ho in KF. dres (h_seq (E k) d1 ms c); simpl in KF; contradiction.
  - eapply pos_rel_sim_l; [exact K|]. eapply pos_rel_sim_r; [exact K3 | exact KF].
Qed.
Theorem must_pack_bwd r1 r2 ms ss :
  node G r1 HSeq ms -> node G r2 HSeq ss -> Forall2 must_pair ms ss ->
  forall f d1 d2 c, E f d2 r2 c = Oof \/ exists f', pos_rel (E f' d1 r1 c) (E f d2 r2 c).
Proof.
  intros N1 N2 F2 f d1 d2 c. destruct f as [|k]; [left; reflexivity|].
  destruct (node_seq_l k d2 r2 ss c N2) as [K|K]; [left; exact K|]. right.
  destruct (hseq_bwd ms ss F2 k d1 d2 c) as [Ho|[F KF]]; [rewrite Ho in K; dres (E (S k) d2 r2 c); contradiction|].
  exists (S F). specialize (KF F (le_n F)).
  destruct (node_seq_r F d1 r1 ms c N1) as [Ho|K3].
  - rewrite Ho in KF. simpl in KF. contradiction.
  - eapply pos_rel_sim_r; [apply oeq_sym; exact K|]. eapply pos_rel_sim_l; [apply oeq_sym; exact K3 | exact KF].
Qed.

(* must< R > (rule_t internal::must< R >) against the reference's seq< sor< R, raise< R > > > *)
Theorem must1_seq_fwd r1 r2 s : must_pair r1 s -> node G r2 HSeq [s] ->
  forall f d1 d2 c, E f d1 r1 c = Oof \/ exists f', pos_rel (E f d1 r1 c) (E f' d2 r2 c).
Proof.
  intros P N2 f d1 d2 c. destruct (pair_fwd r1 s P f d1 d2 c) as [K|[F K]]; [left; exact K|]. right.
  exists (S F). specialize (K F (le_n F)).
  destruct (node_seq_r F d2 r2 [s] c N2) as [Ho|K3]; unfold h_seq in *.
  - rewrite Ho in K. dres (E f d1 r1 c); simpl in K; contradiction.
  - eapply pos_rel_sim_r; [exact K3 | exact K].
Qed.
Theorem must1_seq_bwd r1 r2 s : must_pair r1 s -> node G r2 HSeq [s] ->
  forall f d1 d2 c, E f d2 r2 c = Oof \/ exists f', pos_rel (E f' d1 r1 c) (E f d2 r2 c).
Proof.
  intros P N2 f d1 d2 c. destruct f as [|k]; [left; reflexivity|].
  destruct (node_seq_l k d2 r2 [s] c N2) as [K|K]; [left; exact K|]. right. unfold h_seq in K.
  destruct (pair_bwd r1 s P k d1 d2 c) as [Ho|[F KF]]; [rewrite Ho in K; dres (E (S k) d2 r2 c); contradiction|].
  exists F. specialize (KF F (le_n F)). eapply pos_rel_sim_r; [apply oeq_sym; exact K | exact KF].
Qed.
End MustPack.
