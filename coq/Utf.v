(* Utf.v — independent SPECIFICATION side of property C10 (shared with C17).
   Nothing here is derived from the PEGTL sources: the definitions are transcriptions of
     - RFC 3629 section 3 (bit distribution per code-point range = reference encoder) and
       section 4 (the ABNF table of byte ranges per lead byte),
     - the Unicode standard, D91/D92 (UTF-16 surrogate pairs, UTF-32 = the scalar value),
     - big/little-endian unsigned integers as plain positional arithmetic over N,
     - the byte sets documented for the ASCII / ABNF character classes.
   Spec file: definitions only (proofs live in DecodeFacts.v). *)
From Coq Require Import Ascii String.
From Coq Require Import List NArith ZArith Bool.
Import ListNotations.
Local Close Scope string_scope.
Local Open Scope N_scope.

(* ---------- bytes and Unicode scalar values ---------- *)
Definition is_byte (b : N) : Prop := b < 256.

(* Unicode scalar value: any code point except the surrogates D800..DFFF, at most 10FFFF *)
Definition scalar (cp : N) : Prop := cp <= 0xD7FF \/ (0xE000 <= cp /\ cp <= 0x10FFFF).
Definition scalarb (cp : N) : bool := (cp <=? 0xD7FF) || ((0xE000 <=? cp) && (cp <=? 0x10FFFF)).

(* ---------- UTF-8 ---------- *)
(* RFC 3629 section 3: the reference encoder ("shortest form" by construction: the range
   of the code point selects the length). *)
Definition encode_utf8 (cp : N) : list N :=
  if cp <? 0x80 then [cp]
  else if cp <? 0x800 then [0xC0 + cp / 64; 0x80 + cp mod 64]
  else if cp <? 0x10000 then [0xE0 + cp / 4096; 0x80 + (cp / 64) mod 64; 0x80 + cp mod 64]
  else [0xF0 + cp / 262144; 0x80 + (cp / 4096) mod 64; 0x80 + (cp / 64) mod 64; 0x80 + cp mod 64].

(* RFC 3629 section 4:
     UTF8-1    = %x00-7F
     UTF8-2    = %xC2-DF UTF8-tail
     UTF8-3    = %xE0 %xA0-BF UTF8-tail / %xE1-EC 2( UTF8-tail ) /
                 %xED %x80-9F UTF8-tail / %xEE-EF 2( UTF8-tail )
     UTF8-4    = %xF0 %x90-BF 2( UTF8-tail ) / %xF1-F3 3( UTF8-tail ) /
                 %xF4 %x80-8F 2( UTF8-tail )
     UTF8-tail = %x80-BF
   one constructor per alternative; the index is the character number obtained by
   concatenating the payload bits (section 3). *)
Definition utf8_tail (b : N) : Prop := 0x80 <= b /\ b <= 0xBF.
Definition val2 (b0 b1 : N) : N := (b0 - 0xC0) * 64 + (b1 - 0x80).
Definition val3 (b0 b1 b2 : N) : N := (b0 - 0xE0) * 4096 + (b1 - 0x80) * 64 + (b2 - 0x80).
Definition val4 (b0 b1 b2 b3 : N) : N :=
  (b0 - 0xF0) * 262144 + (b1 - 0x80) * 4096 + (b2 - 0x80) * 64 + (b3 - 0x80).

Inductive utf8_enc : N -> list N -> Prop :=
| U8_1 b0 : b0 <= 0x7F -> utf8_enc b0 [b0]
| U8_2 b0 b1 : 0xC2 <= b0 <= 0xDF -> utf8_tail b1 -> utf8_enc (val2 b0 b1) [b0; b1]
| U8_3a b1 b2 : 0xA0 <= b1 <= 0xBF -> utf8_tail b2 -> utf8_enc (val3 0xE0 b1 b2) [0xE0; b1; b2]
| U8_3b b0 b1 b2 : 0xE1 <= b0 <= 0xEC -> utf8_tail b1 -> utf8_tail b2 -> utf8_enc (val3 b0 b1 b2) [b0; b1; b2]
| U8_3c b1 b2 : 0x80 <= b1 <= 0x9F -> utf8_tail b2 -> utf8_enc (val3 0xED b1 b2) [0xED; b1; b2]
| U8_3d b0 b1 b2 : 0xEE <= b0 <= 0xEF -> utf8_tail b1 -> utf8_tail b2 -> utf8_enc (val3 b0 b1 b2) [b0; b1; b2]
| U8_4a b1 b2 b3 : 0x90 <= b1 <= 0xBF -> utf8_tail b2 -> utf8_tail b3 -> utf8_enc (val4 0xF0 b1 b2 b3) [0xF0; b1; b2; b3]
| U8_4b b0 b1 b2 b3 : 0xF1 <= b0 <= 0xF3 -> utf8_tail b1 -> utf8_tail b2 -> utf8_tail b3 -> utf8_enc (val4 b0 b1 b2 b3) [b0; b1; b2; b3]
| U8_4c b1 b2 b3 : 0x80 <= b1 <= 0x8F -> utf8_tail b2 -> utf8_tail b3 -> utf8_enc (val4 0xF4 b1 b2 b3) [0xF4; b1; b2; b3].

(* "the first n bytes of bs are a well-formed UTF-8 encoding of cp" *)
Definition wf_utf8_prefix (bs : list N) (cp : N) (n : nat) : Prop :=
  exists u tl, bs = u ++ tl /\ length u = n /\ utf8_enc cp u.

(* ---------- 16/32-bit code units as byte sequences ---------- *)
Inductive order := BigEndian | LittleEndian.

Definition u16_bytes (o : order) (u : N) : list N :=
  match o with BigEndian => [u / 256; u mod 256] | LittleEndian => [u mod 256; u / 256] end.
Definition u32_bytes (o : order) (u : N) : list N :=
  match o with
  | BigEndian => [u / 16777216; (u / 65536) mod 256; (u / 256) mod 256; u mod 256]
  | LittleEndian => [u mod 256; (u / 256) mod 256; (u / 65536) mod 256; u / 16777216]
  end.

(* ---------- UTF-16 ---------- *)
Definition encode_utf16 (cp : N) : list N :=           (* list of 16-bit code units *)
  if cp <? 0x10000 then [cp]
  else [0xD800 + (cp - 0x10000) / 1024; 0xDC00 + (cp - 0x10000) mod 1024].

Inductive utf16_enc : N -> list N -> Prop :=
| U16_bmp u : u <= 0xD7FF \/ 0xE000 <= u <= 0xFFFF -> utf16_enc u [u]
| U16_pair h l : 0xD800 <= h <= 0xDBFF -> 0xDC00 <= l <= 0xDFFF ->
    utf16_enc (0x10000 + (h - 0xD800) * 1024 + (l - 0xDC00)) [h; l].

Definition wf_utf16_prefix (o : order) (bs : list N) (cp : N) (n : nat) : Prop :=
  exists us tl, bs = flat_map (u16_bytes o) us ++ tl /\ length (flat_map (u16_bytes o) us) = n /\ utf16_enc cp us.

(* ---------- UTF-32 ---------- *)
Definition wf_utf32_prefix (o : order) (bs : list N) (cp : N) (n : nat) : Prop :=
  exists tl, bs = u32_bytes o cp ++ tl /\ n = 4%nat /\ scalar cp.

(* ---------- unsigned integers of any width: positional arithmetic ---------- *)
Definition be_value (l : list N) : N := fold_left (fun a b => a * 256 + b) l 0.
Fixpoint le_value (l : list N) : N := match l with [] => 0 | b :: tl => b + 256 * le_value tl end.
Definition ord_value (o : order) (l : list N) : N :=
  match o with BigEndian => be_value l | LittleEndian => le_value l end.

(* ---------- documented byte sets of the ASCII / ABNF classes ---------- *)
Definition bytes_of_string (s : String.string) : list N :=
  map Ascii.N_of_ascii (String.list_ascii_of_string s).
Fixpoint nrange (lo : N) (n : nat) : list N := match n with O => [] | S n' => lo :: nrange (lo + 1) n' end.
Definition memb (b : N) (l : list N) : bool := existsb (N.eqb b) l.

Definition set_lower := bytes_of_string "abcdefghijklmnopqrstuvwxyz"%string.
Definition set_upper := bytes_of_string "ABCDEFGHIJKLMNOPQRSTUVWXYZ"%string.
Definition set_digit := bytes_of_string "0123456789"%string.
Definition set_alpha := set_lower ++ set_upper.
Definition set_alnum := set_alpha ++ set_digit.
Definition set_blank : list N := [32; 9].                         (* space, horizontal tab *)
Definition set_space : list N := [32; 10; 13; 9; 11; 12].         (* ' ' \n \r \t \v \f *)
Definition set_odigit := bytes_of_string "01234567"%string.
Definition set_xdigit := bytes_of_string "0123456789abcdefABCDEF"%string.
Definition set_print := nrange 32 95.                             (* 32..126 *)
Definition set_seven := nrange 0 128.                             (* 0..127 *)
Definition set_nul : list N := [0].
Definition set_ident_first := set_alpha ++ bytes_of_string "_"%string.
Definition set_ident_other := set_alnum ++ bytes_of_string "_"%string.
Definition set_any := nrange 0 256.
(* RFC 5234 appendix B.1 *)
Definition set_BIT := bytes_of_string "01"%string.
Definition set_CHAR := nrange 1 127.                              (* %x01-7F *)
Definition set_CR : list N := [13].
Definition set_CTL := nrange 0 32 ++ [127].                       (* %x00-1F / %x7F *)
Definition set_DQUOTE : list N := [34].
Definition set_HTAB : list N := [9].
Definition set_LF : list N := [10].
Definition set_SP : list N := [32].
Definition set_VCHAR := nrange 33 94.                             (* %x21-7E *)
Definition set_WSP : list N := [32; 9].

(* ---------- ASCII case folding (istring) ---------- *)
Definition is_upper (b : N) : Prop := 65 <= b <= 90.      (* 'A'..'Z' *)
Definition is_lower (b : N) : Prop := 97 <= b <= 122.     (* 'a'..'z' *)
(* b is c, or c is an ASCII letter and b is the same letter in the other case *)
Definition fold_eq (c b : N) : Prop :=
  b = c \/ (is_upper c /\ b = c + 32) \/ (is_lower c /\ b + 32 = c).
