(* RawString.v — executable model of include/tao/pegtl/contrib/raw_string.hpp (property C16),
   written statement by statement from the C++ text as it is after fix f6652b9
   (raw_string::match holds a rewind guard around the whole match).

     internal::raw_string_open< Open, Marker >::match( in, marker_size )
     internal::at_raw_string_close< Marker, Close >::match( in, marker_size )
     internal::raw_string_until< Cond >::match( in, marker_size )              (no Contents)
     internal::raw_string_until< Cond, Rule >::match( in, marker_size, st... ) (with Contents)
     raw_string< Open, Marker, Close, Contents... >::content  through match.hpp
     raw_string< Open, Marker, Close, Contents... >::match( in, st... )

   Conventions: a cursor is (remaining bytes, eager position); every peek/bump outside
   [current, end) gives an explicit *Oob result; loops take fuel and give *Oof when it runs out
   (RawStringFacts.v shows neither is reachable).  size_t arithmetic that can wrap in the C++
   (marker_size - 1, marker_size - 2) is computed modulo 2^64.
   Model file: definitions only. *)
From PegtlV Require Import Base Engine.
Local Open Scope N_scope.

(* ---------- size_t ---------- *)
Definition two64 : N := 18446744073709551616.
Definition sz_sub (a b : N) : N := (a + two64 - b) mod two64.      (* a - b on std::size_t, a b < 2^64 *)

(* in.peek_char( i ) with a std::size_t offset; None = read outside [current, end) *)
Definition peekN (cur : cursor) (i : N) : option byte :=
  if i <? N.of_nat (in_size cur) then peek_at cur (N.to_nat i) else None.

(* ---------- results ---------- *)
Inductive ores := OOk (marker_size : nat) (cur : cursor) | OFail | OOob | OOof.
Inductive cres := CYes | CNo | COob | COof.
Inductive ures := UOk (cur : cursor) | UFail (cur : cursor) | UOob | UOof.
(* RsOk final cb ce: success; cb / ce = the cursor before / after the nested `content` rule,
   i.e. exactly the (begin inputerator, current) pair match.hpp hands to Action< content >::apply *)
Inductive rsres := RsOk (final cb ce : cursor) | RsFail (cur : cursor) | RsOob | RsOof.

(* rewind_guard< M >: restores the saved cursor on failure iff M = required *)
Definition rs_guard (required : bool) (saved : cursor) (x : ures) : ures :=
  match x with
  | UFail c' => UFail (if required then saved else c')
  | y => y
  end.

Section RawString.
Variables (o m c : byte).        (* template arguments Open, Marker, Close *)
Variable e : eolp.               (* ParseInput::eol_t *)

(* ---------- raw_string_open< Open, Marker >::match ----------
     if( in.empty() || ( in.peek_char( 0 ) != Open ) ) return false;
     for( std::size_t i = 1; i < in.size( i + 1 ); ++i ) {
        switch( const auto c = in.peek_char( i ) ) {
           case Open:   marker_size = i + 1; in.bump_in_this_line( marker_size ); (void)eol::match( in ); return true;
           case Marker: break;
           default:     return false;
        } }
     return false;                                                                         *)
Fixpoint open_loop (fuel : nat) (i : nat) (cur : cursor) : ores :=
  match fuel with
  | O => OOof
  | S f =>
    if (i <? in_size cur)%nat then
      match peek_at cur i with
      | None => OOob
      | Some b =>
        if b =? o then
          let marker_size := S i in
          match bump_in_line marker_size cur with
          | None => OOob
          | Some c1 =>
            match eol_match e c1 with          (* (void)eol::match( in ): result ignored, cursor kept *)
            | None => OOob
            | Some (_, _, c2) => OOk marker_size c2
            end
          end
        else if b =? m then open_loop f (S i) cur
        else OFail
      end
    else OFail
  end.

Definition raw_string_open (cur : cursor) : ores :=
  if in_empty cur then OFail else
  match peek_at cur 0 with
  | None => OOob
  | Some b => if negb (b =? o) then OFail else open_loop (in_size cur) 1 cur
  end.

(* ---------- at_raw_string_close< Marker, Close >::match ----------
     if( in.size( marker_size ) < marker_size ) return false;
     if( in.peek_char( 0 ) != Close ) return false;
     if( in.peek_char( marker_size - 1 ) != Close ) return false;
     for( std::size_t i = 0; i < ( marker_size - 2 ); ++i )
        if( in.peek_char( i + 1 ) != Marker ) return false;
     return true;                                                                          *)
Fixpoint close_loop (fuel : nat) (i bound : N) (cur : cursor) : cres :=
  match fuel with
  | O => COof
  | S f =>
    if i <? bound then
      match peekN cur (i + 1) with
      | None => COob
      | Some b => if negb (b =? m) then CNo else close_loop f (i + 1) bound cur
      end
    else CYes
  end.

Definition at_raw_string_close (marker_size : nat) (cur : cursor) : cres :=
  let ms := N.of_nat marker_size in
  if (in_size cur <? marker_size)%nat then CNo else
  match peekN cur 0 with
  | None => COob
  | Some b0 =>
    if negb (b0 =? c) then CNo else
    match peekN cur (sz_sub ms 1) with
    | None => COob
    | Some b1 =>
      if negb (b1 =? c) then CNo else
      close_loop (S (in_size cur)) 0 (sz_sub ms 2) cur
    end
  end.

(* ---------- raw_string_until< Cond >::match   (no Contents) ----------
     auto m = in.template auto_rewind< M >();
     while( !Control< Cond >::template match< A, rewind_mode::required, ... >( in, marker_size ) ) {
        if( in.empty() ) return false;
        in.bump();                      // memory_input::bump( 1 ): scans the byte for Eol::ch
     }
     return m( true );                                                                     *)
Fixpoint until_loop (fuel : nat) (marker_size : nat) (cur : cursor) : ures :=
  match fuel with
  | O => UOof
  | S f =>
    match at_raw_string_close marker_size cur with
    | COob => UOob
    | COof => UOof
    | CYes => UOk cur
    | CNo =>
      if in_empty cur then UFail cur else
      match bump_scan (eol_ch e) 1 cur with
      | None => UOob
      | Some c' => until_loop f marker_size c'
      end
    end
  end.

Definition raw_string_until (required : bool) (marker_size : nat) (cur : cursor) : ures :=
  rs_guard required cur (until_loop (S (in_size cur)) marker_size cur).

(* ---------- raw_string_until< Cond, Rule >::match   (Contents... = seq< Contents... >) ----------
     auto m = in.template auto_rewind< M >();
     while( !Control< Cond >::template match< A, rewind_mode::required, ... >( in, marker_size ) ) {
        if( !Control< Rule >::template match< A, m_t::next_rewind_mode, ... >( in, st... ) ) return false;
     }
     return m( true );
   The content rule is a parameter: Some c' = matched, cursor moved to c'; None = failed (the
   cursor of a failed content rule is taken to be where it started, which is the case for every
   rule that fails atomically; it is only observable in rewind_mode::optional without an action
   on `content`).  Nothing forces the rule to consume, so the loop needs genuine fuel. *)
Section WithContents.
Variable content_rule : cursor -> option cursor.

Fixpoint until_rule_loop (fuel : nat) (marker_size : nat) (cur : cursor) : ures :=
  match fuel with
  | O => UOof
  | S f =>
    match at_raw_string_close marker_size cur with
    | COob => UOob
    | COof => UOof
    | CYes => UOk cur
    | CNo =>
      match content_rule cur with
      | None => UFail cur
      | Some c' => until_rule_loop f marker_size c'
      end
    end
  end.

Definition raw_string_until_rule (fuel : nat) (required : bool) (marker_size : nat) (cur : cursor) : ures :=
  rs_guard required cur (until_rule_loop fuel marker_size cur).
End WithContents.

(* ---------- raw_string<...>::content, reached through Control< content >::match = match.hpp ----------
   match.hpp:  use_guard = has_apply || has_apply0_bool;
               auto m = in.auto_rewind< use_guard ? required : optional >();
               result = match_control_unwind< Rule, A, use_guard ? optional : M >( in, st... );
               if( result ) apply( m.inputerator(), in, st... );     // span = [ saved, current )
               (void)m( result );
   has_apply = an Action< content >::apply exists and apply_mode is action. *)
Section Gen.
Variable until : bool -> nat -> cursor -> ures.     (* the raw_string_until variant in use *)

Definition content_match (has_apply required : bool) (marker_size : nat) (cur : cursor) : ures :=
  rs_guard has_apply cur (until (if has_apply then false else required) marker_size cur).

(* ---------- raw_string< Open, Marker, Close, Contents... >::match ----------
     auto m = in.template auto_rewind< M >();       using m_t = decltype( m );
     std::size_t marker_size;
     if( Control< raw_string_open >::match< A, m_t::next_rewind_mode >( in, marker_size ) ) {
        if( Control< content >::match< A, m_t::next_rewind_mode >( in, marker_size, st... ) ) {
           in.bump_in_this_line( marker_size );
           return m( true );
        } }
     return false;
   m_t::next_rewind_mode is optional for both guard specialisations. *)
Definition raw_string_gen (has_apply required : bool) (cur : cursor) : rsres :=
  match raw_string_open cur with
  | OOob => RsOob
  | OOof => RsOof
  | OFail => RsFail cur                         (* raw_string_open returns false before any bump *)
  | OOk marker_size c1 =>
    match content_match has_apply false marker_size c1 with
    | UOob => RsOob
    | UOof => RsOof
    | UFail c2 => RsFail (if required then cur else c2)
    | UOk c2 =>
      match bump_in_line marker_size c2 with
      | None => RsOob
      | Some c3 => RsOk c3 c1 c2
      end
    end
  end.
End Gen.

Definition raw_string (has_apply required : bool) (cur : cursor) : rsres :=
  raw_string_gen raw_string_until has_apply required cur.

Definition raw_string_rule (content_rule : cursor -> option cursor) (fuel : nat)
           (has_apply required : bool) (cur : cursor) : rsres :=
  raw_string_gen (raw_string_until_rule content_rule fuel) has_apply required cur.

End RawString.

(* ---------- content rules used by the correspondence harness ----------
   any            : if( !in.empty() ) { in.bump(); return true; } return false;
   not_one< X >   : peek_char; test_one( c ) = ( c != X ); test_any( eol::ch ) holds for X not an
                    eol character, hence bump_help = in.bump( 1 )
   bytes< N >     : if( in.size( N ) >= N ) { in.bump( N ); return true; } return false;
   All three fail without moving the cursor. *)
Definition cr_any (e : eolp) (cur : cursor) : option cursor :=
  if in_empty cur then None else bump_scan (eol_ch e) 1 cur.
Definition cr_not_one (e : eolp) (x : byte) (cur : cursor) : option cursor :=
  if in_empty cur then None else
  match peek_at cur 0 with
  | None => None
  | Some b => if b =? x then None else bump_scan (eol_ch e) 1 cur
  end.
Definition cr_bytes (e : eolp) (n : nat) (cur : cursor) : option cursor :=
  if (n <=? in_size cur)%nat then bump_scan (eol_ch e) n cur else None.

(* parse< raw_string<...> >( memory_input( bytes ) ): start at byte 0, line 1, column 1 *)
Definition start (s : list byte) : cursor := mkcur s pos0.
