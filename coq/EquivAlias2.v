(* EquivAlias2.v — C09: ALL (rule, reference clause) pairs of the alias schemas of this run (gen/AliasC09Claims_gen.c09_pairs,
   dumped by the compiler from the current headers) that the extended verified checker EquivBisim2.table_equiv2 accepts are
   equivalent in every table extending the schema.  c09_decided2 is computed from the run's tables (filter): nothing is assumed
   about which pairs are accepted, so the statement survives any change of the library. *)
From Coq Require Import Lia Bool.
From PegtlV Require Import Base Decode Grammar Engine EngineFacts AtomFacts Equiv EquivFacts EquivEval EquivHeads EquivTable EquivBisim EquivBisim2.
From PegtlV.gen Require Import AliasC09_gen AliasC09Claims_gen.

Definition decided2 (G0 : grammar) (pairs : list (rid * rid)) : list (rid * rid) :=
  filter (fun p => table_equiv2 G0 12 (fst p) (snd p)) pairs.

Lemma decided2_sound G0 pairs :
  forall G C, noact_cfg C -> plain_table G -> table_wf G -> extends G0 G ->
  forall p, In p (decided2 G0 pairs) -> obs_equiv G C (fst p) (snd p).
Proof.
  intros G C HC HG HW HE p Hp. unfold decided2 in Hp. apply filter_In in Hp. destruct Hp as [_ H].
  exact (table_equiv2_sound G0 G C HC HG HW HE 12 (fst p) (snd p) H).
Qed.

Definition c09_decided2 : list (rid * rid) := decided2 aliasC09_table c09_pairs.

Theorem alias_schemas_equiv2 :
  forall G C, noact_cfg C -> plain_table G -> table_wf G -> extends aliasC09_table G ->
  forall p, In p c09_decided2 -> obs_equiv G C (fst p) (snd p).
Proof. exact (decided2_sound aliasC09_table c09_pairs). Qed.
