(* Properties_C06.v — C06: reported positions are a function of the consumed prefix only.
   Theorems only; proofs live in PosFacts.v (track, bump lemmas), PosFacts2.v (spec of track, atoms), PosLog.v (event
   log), PosTop.v (property-level statements, witnesses). *)
From PegtlV Require Import Base Decode Grammar Engine EngineFacts AtomFacts PosFacts PosFacts2 PosLog PosTop.
Local Open Scope N_scope.

(* `track` is the property's arithmetic statement: byte = initial byte + |prefix|, line = initial line + number of eol
   characters in the prefix, column = 1 + number of bytes after the last of them (initial column + |prefix| if none) *)
Theorem C06_track_spec ch : forall l p,
  pbyte (track ch p l) = pbyte p + N.of_nat (length l) /\
  pline (track ch p l) = pline p + N.of_nat (count_ch ch l) /\
  pcol (track ch p l) = match after_last ch l with
                        | Some s => 1 + N.of_nat (length s)
                        | None => pcol p + N.of_nat (length l)
                        end.
Proof. exact (track_spec ch). Qed.
Print Assumptions C06_track_spec.

(* after_last is "the bytes after the last eol character" *)
Theorem C06_after_last_spec ch l :
  (forall s, after_last ch l = Some s <-> exists a, l = a ++ ch :: s /\ ~ In ch s) /\
  (after_last ch l = None <-> ~ In ch l).
Proof. split; [intros s; apply after_last_some | apply after_last_none]. Qed.
Print Assumptions C06_after_last_spec.

(* For every table whose heads are in head_ok (every byte-oriented and UTF-8 rule; every policy except cr_crlf for
   eol / eolf; uint8::mask_* rules unless they can match the eol byte while test_any( eol ) is false), every
   configuration, modes, fuel and start cursor: the final cursor (success, local failure, global failure) and EVERY
   position carried by the event log (hooks, action inputs begin / end, inline actions, raise / raise_nested, state
   construction / success, entry / exit of every Control<Rule>::match) and by the exception (parse_error positions,
   nested ones included) is track of a prefix of the bytes remaining at the start — whatever was consumed, rewound
   and re-consumed in between. *)
Theorem C06_invariant G C f d r c o c' evs :
  table_ok (ceol C) G -> eval G C f d r c = Res o c' evs ->
  (exists pre, rest c = pre ++ rest c' /\ cpos c' = track (eol_ch (ceol C)) (cpos c) pre) /\
  Forall (ev_ok (eol_ch (ceol C)) c) evs /\ out_ok (eol_ch (ceol C)) c o.
Proof. exact (eval_positions G C f d r c o c' evs). Qed.
Print Assumptions C06_invariant.

(* the same under the hypothesis of PosFacts.head_tracked (head_ok refines it) *)
Theorem C06_invariant_tracked G C f d r c o c' evs :
  table_tracked (ceol C) G -> eval G C f d r c = Res o c' evs ->
  (exists pre, rest c = pre ++ rest c' /\ cpos c' = track (eol_ch (ceol C)) (cpos c) pre) /\
  Forall (ev_ok (eol_ch (ceol C)) c) evs /\ out_ok (eol_ch (ceol C)) c o.
Proof. intros H. apply eval_positions. apply table_tracked_ok. exact H. Qed.
Print Assumptions C06_invariant_tracked.

(* what "reach" means arithmetically: byte, line, column of every observable position *)
Theorem C06_reach_spec ch c p : reach ch c p ->
  exists pre tl, rest c = pre ++ tl /\
    pbyte p = pbyte (cpos c) + N.of_nat (length pre) /\
    pline p = pline (cpos c) + N.of_nat (count_ch ch pre) /\
    pcol p = match after_last ch pre with Some s => 1 + N.of_nat (length s) | None => pcol (cpos c) + N.of_nat (length pre) end.
Proof. exact (reach_spec ch c p). Qed.
Print Assumptions C06_reach_spec.

(* lazy tracking computes track: position( it ) = bump from m_begin over it - begin *)
Theorem C06_lazy_is_track ch p0 pre tl : lazy_position ch p0 (pre ++ tl) (length pre) = Some (track ch p0 pre).
Proof. exact (lazy_position_track ch p0 pre tl). Qed.
Print Assumptions C06_lazy_is_track.

(* eager = lazy at the final cursor and at every event / error of a run over a whole input *)
Theorem C06_lazy_eq_eager G C f d r input p0 o c' evs :
  table_ok (ceol C) G -> run G C f d r input p0 = Res o c' evs ->
  lazy_position (eol_ch (ceol C)) p0 input (length input - length (rest c')) = Some (cpos c') /\
  Forall (ev_pos (lazy_at (eol_ch (ceol C)) p0 input)) evs /\
  out_pos (lazy_at (eol_ch (ceol C)) p0 input) o.
Proof. exact (lazy_eq_eager G C f d r input p0 o c' evs). Qed.
Print Assumptions C06_lazy_eq_eager.

(* the atoms: every head in head_ok keeps the cursor invariant with the position relation PTr *)
Theorem C06_atoms e h c x m : head_ok e h = true -> eval_atom e h c = Some x -> good (PTr (eol_ch e)) m c x.
Proof. exact (eval_atom_goodP e h c x m). Qed.
Print Assumptions C06_atoms.

(* ---------- deviations of the code that exists (each reproduced on the real library by the check) ---------- *)
(* (a) eol::cr_crlf: eol on "\r\n" -> eager 2:2:1, consumed prefix / lazy 2:2:2 *)
Theorem C06_refuted_cr_crlf :
  exists c' evs, run G_eol (cfg0 EolCrCrlf) 5%nat dyn0 0%nat [13; 10] pos0 = Res Ok c' evs /\
                 cpos c' = mkpos 2 2 1 /\ track (eol_ch EolCrCrlf) pos0 [13; 10] = mkpos 2 2 2 /\
                 lazy_position (eol_ch EolCrCrlf) pos0 [13; 10] 2%nat = Some (mkpos 2 2 2).
Proof. exact refuted_cr_crlf. Qed.
Print Assumptions C06_refuted_cr_crlf.

(* (b) uint8::mask_one< 0xF0, 0x00 > on "\n": eager 1:1:2, consumed prefix 1:2:1; head_ok excludes exactly this *)
Theorem C06_refuted_mask_uint8 :
  exists c' evs, run G_mask (cfg0 EolLf) 5%nat dyn0 0%nat [10] pos0 = Res Ok c' evs /\
                 cpos c' = mkpos 1 1 2 /\ track (eol_ch EolLf) pos0 [10] = mkpos 1 2 1 /\
                 head_ok EolLf (HOne true (PkMaskUint8 240) [0%Z]) = false.
Proof. exact refuted_mask_uint8. Qed.
Print Assumptions C06_refuted_mask_uint8.

(* the mask condition of head_ok is exact for uint8::mask_one / mask_not_one: whenever it fails, the one-byte input
   consisting of the eol character is matched and bumped in this line (1 : +0 : +1) while track gives (1 : +1 : 1) *)
Theorem C06_mask_exact e found m cs p :
  test_one_set found cs (Z.of_N (eol_ch e)) = false ->
  test_one_set found cs (Z.of_N (N.land (eol_ch e) m)) = true ->
  eval_atom e (HOne found (PkMaskUint8 m) cs) (mkcur [eol_ch e] p)
    = Some (Res Ok (mkcur [] (mkpos (pbyte p + 1) (pline p) (pcol p + 1))) []) /\
  track (eol_ch e) p [eol_ch e] = mkpos (pbyte p + 1) (pline p + 1) 1.
Proof. exact (mask_exact e found m cs p). Qed.
Print Assumptions C06_mask_exact.

(* (d) the input's own byte(): eager = lazy = initial byte + consumed (defect repaired by /repo e0cf8e4: recorded as fixed) *)
Theorem C06_byte_lazy_eq_eager ch input p0 c' :
  adv (PTr ch) (mkcur input p0) c' -> eager_byte c' = lazy_byte p0 input c'.
Proof. exact (byte_lazy_eq_eager ch input p0 c'). Qed.
Print Assumptions C06_byte_lazy_eq_eager.

(* (e) rematch under lazy tracking: positions inside the rematched span are absolute (defect repaired by /repo 1d941ee) *)
Theorem C06_lazy_rematch_absolute ch p0 pre span post k :
  (k <= length span)%nat ->
  rematch_inner_lazy_position ch p0 pre span k = lazy_position ch p0 (pre ++ span ++ post) (length pre + k).
Proof. exact (lazy_rematch_absolute ch p0 pre span post k). Qed.
Print Assumptions C06_lazy_rematch_absolute.

(* ---------- the hypotheses are satisfiable by a non-trivial table / input ---------- *)
Example C06_example_table_ok : table_ok (ceol C_ex) G_ex.
Proof. apply table_okb_ok. vm_compute. reflexivity. Qed.
Print Assumptions C06_example_table_ok.

Example C06_example_run :
  exists c' evs, run G_ex C_ex 60%nat dyn0 0%nat in_ex (mkpos 7 3 5) = Res Ok c' evs /\
                 rest c' = [] /\ cpos c' = mkpos 17 7 2 /\ length evs = 247%nat /\
                 track (eol_ch (ceol C_ex)) (mkpos 7 3 5) in_ex = mkpos 17 7 2.
Proof. eexists. eexists. vm_compute. repeat split. Qed.
Print Assumptions C06_example_run.

Example C06_example_track : track 10 (mkpos 7 3 5) [97; 13; 10; 98; 99] = mkpos 12 4 3 /\ track 13 (mkpos 7 3 5) [97; 13; 10; 98; 99] = mkpos 12 4 4
                            /\ track 10 (mkpos 7 3 5) [97; 98] = mkpos 9 3 7.
Proof. vm_compute. repeat split. Qed.
Print Assumptions C06_example_track.
