(* AnalyzeFacts.v — C11 stage A: what a problem-free run of analyze_cycles_impl::work establishes.
   okw stack n b : the visit of entry n with this on-stack set meets no on-stack entry, explores every
   sub-entry that is reachable without provable progress, and answers b (= provably consumes). *)
From Coq Require Import Lia.
From PegtlV Require Import Base Decode Grammar Analyze.

Section Facts.
Variable ent : aid -> entry.

Inductive okw : list aid -> aid -> bool -> Prop :=
| okw_node stack n a : ~ In n stack ->
    okfold (n :: stack) (ekind (ent n)) (esubs (ent n)) a ->
    okw stack n (match ekind (ent n) with KAny => true | KOpt => false | _ => a end)
with okfold : list aid -> akind -> list aid -> bool -> Prop :=
| okf_seq_nil stack t : t <> KSor -> okfold stack t [] false
| okf_seq_cons_t stack t r rs : t <> KSor -> okw stack r true -> okfold stack t (r :: rs) true
| okf_seq_cons_f stack t r rs a : t <> KSor -> okw stack r false -> okfold stack t rs a -> okfold stack t (r :: rs) a
| okf_sor_nil stack : okfold stack KSor [] true
| okf_sor_cons stack r rs b a : okw stack r b -> okfold stack KSor rs a -> okfold stack KSor (r :: rs) (b && a).

Scheme okw_ind2 := Induction for okw Sort Prop
with okfold_ind2 := Induction for okfold Sort Prop.

Lemma aid_eqb_eq a b : aid_eqb a b = true <-> a = b.
Proof.
  destruct a as [a1 a2], b as [b1 b2]. unfold aid_eqb. simpl. rewrite andb_true_iff, !Nat.eqb_eq.
  split; [intros [-> ->]; reflexivity | intros H; inversion H; auto].
Qed.

Lemma existsb_In n stack : existsb (aid_eqb n) stack = false -> ~ In n stack.
Proof.
  intros H Hin. assert (E : existsb (aid_eqb n) stack = true); [|congruence].
  apply existsb_exists. exists n. split; [exact Hin | apply aid_eqb_eq; reflexivity].
Qed.

(* accum is false at every call that problems() makes, and work() passes accum || a with a = false *)
Definition wk_spec (stack : list aid) (wk : aid -> bool -> nat -> bool * nat) : Prop :=
  forall r pr b pr', wk r false pr = (b, pr') -> pr <= pr' /\ (pr' = pr -> okw stack r b).

Lemma fold_seq_ok stack wk t : t <> KSor -> wk_spec stack wk ->
  forall subs a pr a' pr', fold_seq wk subs false a pr = (a', pr') ->
    pr <= pr' /\ (pr' = pr -> (a = true -> a' = true) /\ (a = false -> okfold stack t subs a')).
Proof.
  intros Ht Hwk. induction subs as [|r rs IH]; intros a pr a' pr' H; simpl in H.
  - inversion H; subst. split; [lia|]. intros _. split; [auto|]. intros ->. constructor; exact Ht.
  - destruct a.
    + apply IH in H. destruct H as [Hle H]. split; [exact Hle|]. intros E. split.
      * intros _. apply (proj1 (H E)). reflexivity.
      * discriminate.
    + simpl in H. destruct (wk r false pr) as [b pr1] eqn:E1.
      apply Hwk in E1. destruct E1 as [Hle1 Hok1].
      apply IH in H. destruct H as [Hle2 H2]. split; [lia|]. intros E.
      assert (pr1 = pr) by lia. subst pr1. assert (E2 : pr' = pr) by lia.
      specialize (Hok1 eq_refl). specialize (H2 E2). split; [discriminate|]. intros _.
      destruct b; simpl in *.
      * rewrite (proj1 H2 eq_refl). apply okf_seq_cons_t; assumption.
      * apply okf_seq_cons_f; [assumption|assumption|]. apply (proj2 H2). reflexivity.
Qed.

Lemma fold_sor_ok stack wk : wk_spec stack wk ->
  forall subs a pr a' pr', fold_sor wk subs false a pr = (a', pr') ->
    pr <= pr' /\ (pr' = pr -> exists a0, okfold stack KSor subs a0 /\ a' = a0 && a).
Proof.
  intros Hwk. induction subs as [|r rs IH]; intros a pr a' pr' H; simpl in H.
  - inversion H; subst. split; [lia|]. intros _. exists true. split; [constructor|]. reflexivity.
  - destruct (wk r false pr) as [b pr1] eqn:E1.
    apply Hwk in E1. destruct E1 as [Hle1 Hok1].
    apply IH in H. destruct H as [Hle2 H2]. split; [lia|]. intros E.
    assert (pr1 = pr) by lia. subst pr1. assert (E2 : pr' = pr) by lia.
    destruct (H2 E2) as [a0 [Hf Ea]]. exists (b && a0). split.
    + apply okf_sor_cons; [apply Hok1; reflexivity | exact Hf].
    + rewrite Ea. destruct a, b, a0; reflexivity.
Qed.

Theorem work_ok fuel : forall stack, wk_spec stack (work ent fuel stack).
Proof.
  induction fuel as [|f IH]; intros stack r pr b pr' H; simpl in H.
  - inversion H; subst. split; lia.
  - destruct (existsb (aid_eqb r) stack) eqn:Ex.
    + inversion H; subst. split; lia.
    + apply existsb_In in Ex.
      specialize (IH (r :: stack)).
      destruct (ekind (ent r)) eqn:Et.
      * destruct (fold_seq (work ent f (r :: stack)) (esubs (ent r)) false false pr) as [a pr1] eqn:E.
        inversion H; subst.
        apply (fold_seq_ok (r :: stack) _ KAny ltac:(discriminate) IH) in E. destruct E as [Hle Hk].
        split; [exact Hle|]. intros Eq. destruct (Hk Eq) as [_ Hf].
        pose proof (okw_node stack r a Ex) as K. rewrite Et in K. apply K. apply Hf. reflexivity.
      * destruct (fold_seq (work ent f (r :: stack)) (esubs (ent r)) false false pr) as [a pr1] eqn:E.
        inversion H; subst.
        apply (fold_seq_ok (r :: stack) _ KOpt ltac:(discriminate) IH) in E. destruct E as [Hle Hk].
        split; [exact Hle|]. intros Eq. destruct (Hk Eq) as [_ Hf].
        pose proof (okw_node stack r a Ex) as K. rewrite Et in K. apply K. apply Hf. reflexivity.
      * apply (fold_seq_ok (r :: stack) _ KSeq ltac:(discriminate) IH) in H. destruct H as [Hle Hk].
        split; [exact Hle|]. intros Eq. destruct (Hk Eq) as [_ Hf].
        pose proof (okw_node stack r b Ex) as K. rewrite Et in K. apply K. apply Hf. reflexivity.
      * apply (fold_sor_ok (r :: stack) _ IH) in H. destruct H as [Hle Hk].
        split; [exact Hle|]. intros Eq. destruct (Hk Eq) as [a0 [Hf Ea]]. rewrite andb_true_r in Ea. subst b.
        pose proof (okw_node stack r a0 Ex) as K. rewrite Et in K. apply K. exact Hf.
Qed.

Lemma work_le fuel stack r pr b pr' : work ent fuel stack r false pr = (b, pr') -> pr <= pr'.
Proof. intros H. exact (proj1 (work_ok fuel stack r pr b pr' H)). Qed.

(* the stack only restricts: a problem-free visit stays problem-free under a smaller stack *)
Lemma okw_weaken : forall stack n b, okw stack n b ->
  forall stack', (forall x, In x stack' -> In x stack) -> okw stack' n b.
Proof.
  apply (okw_ind2
    (fun stack n b _ => forall stack', (forall x, In x stack' -> In x stack) -> okw stack' n b)
    (fun stack t subs a _ => forall stack', (forall x, In x stack' -> In x stack) -> okfold stack' t subs a)).
  - intros stack n a Hn Hf IH stack' Hs. apply okw_node; auto.
    apply IH. intros x [->|Hx]; [left; reflexivity | right; auto].
  - intros; constructor; auto.
  - intros stack t r rs Ht Hr IHr stack' Hs. apply okf_seq_cons_t; auto.
  - intros stack t r rs a Ht Hr IHr Hf IHf stack' Hs. apply okf_seq_cons_f; auto.
  - intros; constructor.
  - intros stack r rs b a Hr IHr Hf IHf stack' Hs. apply okf_sor_cons; auto.
Qed.

(* problems() == 0: every root was visited without a problem *)
Lemma problems_from_ge fuel : forall rs pr, pr <= problems_from ent fuel rs pr.
Proof.
  induction rs as [|r rs IH]; intros pr; simpl; [lia|].
  destruct (work ent fuel [] r false pr) as [b pr1] eqn:E. simpl.
  apply work_le in E. specialize (IH pr1). lia.
Qed.

Theorem problems_zero_okw fuel : forall rs pr, problems_from ent fuel rs pr = pr ->
  forall r, In r rs -> exists b, okw [] r b.
Proof.
  induction rs as [|r0 rs IH]; intros pr H r Hin; [destruct Hin|].
  simpl in H. destruct (work ent fuel [] r0 false pr) as [b pr1] eqn:E. simpl in H.
  pose proof (work_ok fuel [] r0 pr b pr1 E) as [Hle Hok].
  pose proof (problems_from_ge fuel rs pr1) as Hge.
  assert (pr1 = pr) by lia. subst pr1.
  destruct Hin as [<-|Hin]; [exists b; apply Hok; reflexivity | eapply IH; eauto].
Qed.

End Facts.

(* Stage A for a table: problems G = 0 gives okw [] for every entry of every node *)
Theorem problems_zero (G : grammar) : problems G = 0 -> forall a, In a (roots G) -> exists b, okw (aentry G) [] a b.
Proof. intros H a Ha. eapply (problems_zero_okw (aentry G) (work_fuel G) (roots G) 0); eauto. Qed.
