(* RaisePos.v — C05, positions carried by exceptions.
   Generic in a position relation P (as EngineFacts.eval_good): every position stored in an exception
   that an evaluation started at cursor c produces (parse_error of must / raise / limit_* / check_bytes /
   raising failure hook; every level of a nested exception) is the position of a cursor REACHABLE
   from c:   exists pre suf, rest c = pre ++ suf  /\  P (cpos c) pre p.
   P := PB   (byte = start byte + |consumed prefix|)  for every well-formed table;
   P := PTr  (position = track over the consumed prefix: byte, line, column mutually consistent)
             for tables whose atoms keep eager tracking in step (hypothesis on the atoms only).
   Plus the local statement for must< R >: the position is where R's failing attempt (optional
   rewind) left the cursor, between the must's start and the end of the input. *)
From Coq Require Import Lia.
From PegtlV Require Import Base Decode Grammar Engine EngineFacts AtomFacts PosFacts RaiseFacts.
Local Open Scope N_scope.

Fixpoint exn_pos (e : exn) : list pos :=
  match e with
  | EParse _ p => [p]
  | ECheckBytes p => [p]
  | EAct _ => []
  | ENested _ p i => p :: exn_pos i
  end.

Section EP.
Variable P : pos -> list byte -> pos -> Prop.
Hypothesis P_refl : forall p, P p [] p.
Hypothesis P_trans : forall p a q b r, P p a q -> P q b r -> P p (a ++ b) r.
Notation adv := (adv P).
Notation good := (good P).

Definition reach (c : cursor) (p : pos) : Prop := exists pre suf, rest c = pre ++ suf /\ P (cpos c) pre p.
Lemma reach_here c : reach c (cpos c).
Proof. exists [], (rest c). split; [reflexivity | apply P_refl]. Qed.
Lemma reach_adv c c1 : adv c c1 -> reach c (cpos c1).
Proof. intros [pre [H Q]]. exists pre, (rest c1). split; assumption. Qed.
Lemma reach_trans c c1 p : adv c c1 -> reach c1 p -> reach c p.
Proof.
  intros [pre [H Q]] [pre1 [suf [H1 Q1]]]. exists (pre ++ pre1), suf. split.
  - rewrite H, H1, app_assoc. reflexivity.
  - eapply P_trans; eauto.
Qed.

Definition epos (c : cursor) (x : result) : Prop :=
  match x with Res (Exc e) _ _ => Forall (reach c) (exn_pos e) | _ => True end.
Lemma epos_adv_l c c1 x : adv c c1 -> epos c1 x -> epos c x.
Proof.
  intros A. dres x; simpl; auto. intros H. eapply Forall_impl; [|exact H]. intros p Hp. eapply reach_trans; eauto.
Qed.
Lemma epos_prepend c evs x : epos c x -> epos c (prepend evs x).
Proof. dres x; simpl; auto. Qed.
Lemma epos_guard m s c x : epos c x -> epos c (guard m s x).
Proof. dres x; simpl; auto. Qed.
Lemma epos_look i s c x : epos c x -> epos c (look i s x).
Proof. dres x; simpl; auto; destruct i; simpl; auto. Qed.
Lemma epos_same c x : epos c x -> forall c0, c = c0 -> epos c0 x.
Proof. intros H c0 <-. exact H. Qed.

Variable C : cfg.
Variable okh : head -> Prop.
Hypothesis H_scan : forall n c c', bump_scan (eol_ch (ceol C)) n c = Some c' -> adv c c'.
Hypothesis H_atom : forall h c x m, okh h -> eval_atom (ceol C) h c = Some x -> good m c x.

Section HelperFacts.
Variable ev : dyn -> rid -> cursor -> result.
Hypothesis Hgood : forall d r c, good (dM d) c (ev d r c).
Hypothesis Hepos : forall d r c, epos c (ev d r c).

Ltac evat d r c G E := pose proof (Hgood d r c) as G; pose proof (Hepos d r c) as E; dres (ev d r c).

Lemma seq_all_E d rs : forall c, epos c (seq_all ev d rs c).
Proof.
  induction rs as [|r rs IH]; intros c; simpl; [exact I|]. unfold bind.
  evat d r c G E; simpl in *; auto.
  apply epos_prepend. eapply epos_adv_l; [exact G | apply IH].
Qed.
Lemma sor_any_E d rs : forall c, epos c (sor_any ev d rs c).
Proof.
  induction rs as [|r rs IH]; intros c; [exact I|]. destruct rs as [|r2 rs']; [apply Hepos|].
  change (sor_any ev d (r :: r2 :: rs') c) with (match ev (req d) r c with Res Fail c' evs => prepend evs (sor_any ev d (r2 :: rs') c') | x => x end).
  evat (req d) r c G E; simpl in G; auto. subst c0. apply epos_prepend. apply IH.
Qed.
Lemma star_loop_E n d rs : forall c, epos c (star_loop ev n d rs c).
Proof.
  induction n as [|n IH]; intros c; simpl; [exact I|].
  pose proof (seq_all_good P P_refl P_trans ev Hgood (req d) rs c) as G. pose proof (seq_all_E (req d) rs c) as E.
  dres (seq_all ev (req d) rs c); simpl in *; auto.
  apply epos_prepend. eapply epos_adv_l; [exact G | apply IH].
Qed.
Lemma until1_E n d cn : forall c, epos c (until1_loop C ev n d cn c).
Proof.
  induction n as [|n IH]; intros c; cbn [until1_loop]; [exact I|].
  evat (req d) cn c G E; cbn [EngineFacts.good req dM] in G; auto.
  subst c0. destruct (in_empty c); [exact I|]. destruct (bump_scan (eol_ch (ceol C)) 1 c) as [c2|] eqn:Eb; [|exact I].
  apply epos_prepend. eapply epos_adv_l; [eapply H_scan; exact Eb | apply IH].
Qed.
Lemma until2_E n d cn r : forall c, epos c (until2_loop ev n d cn r c).
Proof.
  induction n as [|n IH]; intros c; simpl; [exact I|].
  evat (req d) cn c G E; simpl in G; auto. subst c0.
  evat (opt_ d) r c G2 E2; simpl in *; auto.
  apply epos_prepend. eapply epos_adv_l; [exact G2 | apply IH].
Qed.
Lemma rep_loop_E k d r : dM d = false -> forall c, epos c (rep_loop ev k d r c).
Proof.
  intros Hd. induction k as [|k IH]; intros c; simpl; [exact I|]. unfold bind.
  evat d r c G E; simpl in *; auto. apply epos_prepend. eapply epos_adv_l; [exact G | apply IH].
Qed.
Lemma repopt_loop_E k d r : forall c, epos c (fst (repopt_loop ev k d r c)).
Proof.
  induction k as [|k IH]; intros c; simpl; [exact I|].
  evat (req d) r c G E; simpl in *; auto.
  specialize (IH c0). destruct (repopt_loop ev k d r c0) as [x b]. simpl in *.
  apply epos_prepend. eapply epos_adv_l; [exact G | exact IH].
Qed.
Lemma h_at_E i d r1 c : epos c (h_at ev i d r1 c).
Proof. unfold h_at. apply epos_look, Hepos. Qed.
Lemma h_seq_E d rs c : epos c (h_seq ev d rs c).
Proof. unfold h_seq. destruct rs as [|r1 [|r2 rs]]; [exact I | apply Hepos | apply epos_guard, seq_all_E]. Qed.
Lemma h_plus_E n d r1 c : epos c (h_plus ev n d r1 c).
Proof.
  unfold h_plus, bind. evat d r1 c G E; simpl in *; auto.
  apply epos_prepend. eapply epos_adv_l; [exact G | apply star_loop_E].
Qed.
Lemma h_partial_E d rs c : epos c (h_partial ev d rs c).
Proof. unfold h_partial. pose proof (seq_all_E (req d) rs c) as E. dres (seq_all ev (req d) rs c); simpl in *; auto. Qed.
Lemma h_rep_min_max_E mn mx d r1 c : epos c (h_rep_min_max ev mn mx d r1 c).
Proof.
  unfold h_rep_min_max. apply epos_guard. unfold bind.
  pose proof (rep_loop_good P P_refl P_trans ev Hgood mn (opt_ d) r1 eq_refl c) as G.
  pose proof (rep_loop_E mn (opt_ d) r1 eq_refl c) as E.
  dres (rep_loop ev mn (opt_ d) r1 c); simpl in *; auto.
  apply epos_prepend. eapply epos_adv_l; [exact G|].
  pose proof (repopt_loop_ok P P_refl P_trans ev Hgood (mx - mn) d r1 c0) as G2.
  pose proof (repopt_loop_E (mx - mn) d r1 c0) as E2.
  destruct (repopt_loop ev (mx - mn) d r1 c0) as [x b]. simpl in *.
  dres x; simpl in *; auto. destruct b; [|exact I].
  apply epos_prepend. eapply epos_adv_l; [exact G2 | apply h_at_E].
Qed.
Lemma h_if_then_else_E d cn t e c : epos c (h_if_then_else ev d cn t e c).
Proof.
  unfold h_if_then_else. apply epos_guard. evat (req d) cn c G E; simpl in *; auto.
  - apply epos_prepend. eapply epos_adv_l; [exact G | apply Hepos].
  - subst c0. apply epos_prepend. apply Hepos.
Qed.
Lemma h_if_must_E dflt d cn rest_ c : epos c (h_if_must ev dflt d cn rest_ c).
Proof.
  unfold h_if_must. evat (if dflt then req d else d) cn c G E.
  - destruct rest_ as [|m ?]; [exact I|].
    pose proof (Hepos d m c0) as E2. dres (ev d m c0); simpl in *; auto.
    eapply (epos_adv_l c c0 (Res (Exc e) c1 evs0)); [exact G | exact E2].
  - destruct dflt; exact I.
  - exact E.
  - exact I.
  - exact I.
Qed.
Lemma raise_at_E d w c0 c evs : adv c0 c -> epos c0 (raise_at d w c evs).
Proof. intros A. unfold raise_at. simpl. constructor; [apply reach_adv; exact A | constructor]. Qed.
Lemma h_must_E d r1 c : epos c (h_must ev d r1 c).
Proof. unfold h_must. evat (opt_ d) r1 c G E; simpl in *; auto. constructor; [apply reach_adv; exact G | constructor]. Qed.
Lemma h_strict_E d r1 rs c : epos c (h_strict ev d r1 rs c).
Proof.
  unfold h_strict. apply epos_guard. evat (req d) r1 c G E; simpl in *; auto.
  apply epos_prepend. eapply epos_adv_l; [exact G | apply h_seq_E].
Qed.
Lemma star_strict_E n d r1 rs : forall c, epos c (star_strict_loop ev n d r1 rs c).
Proof.
  induction n as [|n IH]; intros c; simpl; [exact I|].
  evat (req d) r1 c G E; simpl in *; auto.
  pose proof (h_seq_good P P_refl P_trans ev Hgood (opt_ d) rs c0) as G2. pose proof (h_seq_E (opt_ d) rs c0) as E2.
  dres (h_seq ev (opt_ d) rs c0); simpl in *; auto.
  - apply epos_prepend. eapply epos_adv_l; [eapply adv_trans; eauto | apply IH].
  - eapply (epos_adv_l c c0 (Res (Exc e) c1 evs0)); [exact G | exact E2].
Qed.
Lemma rematch_all_E d rs i2 : epos i2 (rematch_all ev d rs i2).
Proof.
  induction rs as [|r rs IH]; simpl; [exact I|].
  pose proof (Hepos d r i2) as E. dres (ev d r i2); simpl in *; auto. apply epos_prepend. exact IH.
Qed.
Lemma take_app n : forall l bs, take n l = Some bs -> exists tl, l = bs ++ tl.
Proof.
  induction n as [|n IH]; intros l bs H; simpl in H.
  - inversion H; subst. exists l. reflexivity.
  - destruct l as [|b l]; [discriminate|]. destruct (take n l) as [bs'|] eqn:E; [|discriminate]. simpl in H. inversion H; subst.
    destruct (IH l bs' E) as [tl ->]. exists tl. reflexivity.
Qed.
Lemma epos_sub c span x : (exists tl, rest c = span ++ tl) -> epos (mkcur span (cpos c)) x -> epos c x.
Proof.
  intros [tl Ht]. dres x; simpl; auto. intros H. eapply Forall_impl; [|exact H].
  intros p [pre [suf [H1 Q]]]. simpl in *. exists pre, (suf ++ tl). split; [rewrite Ht, H1, app_assoc; reflexivity | exact Q].
Qed.
Lemma h_rematch_E d hd rs c : epos c (h_rematch ev d hd rs c).
Proof.
  unfold h_rematch. destruct rs as [|r rs']; [apply Hepos|]. cbv beta iota.
  pose proof (Hgood (opt_ d) hd c) as G. pose proof (Hepos (opt_ d) hd c) as E.
  destruct (ev (opt_ d) hd c) as [[| |e] c0 evs| |]; cbn [EngineFacts.good epos] in *; try exact I; try exact E.
  destruct (take (length (rest c) - length (rest c0)) (rest c)) as [span|] eqn:Et; [|exact I].
  pose proof (rematch_all_E (opt_ d) (r :: rs') (mkcur span (cpos c))) as E2.
  assert (E3 : epos c (rematch_all ev (opt_ d) (r :: rs') (mkcur span (cpos c)))) by (eapply epos_sub; [eapply take_app; exact Et | exact E2]).
  clear E2. set (y := rematch_all ev (opt_ d) (r :: rs') (mkcur span (cpos c))) in *. clearbody y.
  destruct y as [[| |e] c1 evs1| |]; cbn [epos] in *; try exact I. exact E3.
Qed.
Lemma h_try_false_E f d r1 c : epos c (h_try_false ev f d r1 c).
Proof.
  unfold h_try_false. evat (opt_ d) r1 c G E; simpl in *; auto. destruct (catches f e); simpl; auto.
Qed.
Lemma h_try_nested_E f d r1 c : epos c (h_try_nested ev f d r1 c).
Proof.
  unfold h_try_nested. evat (opt_ d) r1 c G E; simpl in *; auto. destruct (catches f e); simpl; auto.
  constructor; [apply reach_here | exact E].
Qed.
Lemma st_scope_E b r c0 c x : epos c x -> epos c (st_scope b r c0 x).
Proof. dres x; simpl; auto. Qed.
Lemma inline_result_E x c1 c2 pre c : epos c (inline_result x c1 c2 pre).
Proof. destruct x as [[[|]|t] evs]; simpl; auto. Qed.
Lemma h_if_apply_E d acts_ r1 c : epos c (h_if_apply C ev d acts_ r1 c).
Proof.
  unfold h_if_apply. destruct (dA d && negb match acts_ with [] => true | _ => false end); [|apply Hepos].
  pose proof (Hepos (set_A (opt_ d) true) r1 c) as E. dres (ev (set_A (opt_ d) true) r1 c); simpl in *; auto.
  apply inline_result_E.
Qed.

Lemma atom_E h c x : eval_atom (ceol C) h c = Some x -> epos c x.
Proof.
  assert (B : forall o, epos c (ok_or_err o)) by (intros [c'|]; exact I).
  assert (Bh : forall ch t n c0, epos c (bump_help ch t n c0)) by (intros; unfold bump_help; apply B).
  assert (Pk : forall ch pk t c0, epos c (peek_test_bump ch pk t c0)).
  { intros ch pk t c0. unfold peek_test_bump. destruct (do_peek pk c0) as [|v k|]; try exact I. destruct (t v); [apply Bh | exact I]. }
  destruct h; simpl; intros Ea; try discriminate Ea; try (injection Ea as <-); try exact I; try apply B; try apply Pk.
  - destruct (in_empty c); exact I.
  - destruct (eol_match (ceol C) c) as [[[[|] z] c']|]; exact I.
  - destruct (eol_match (ceol C) c) as [[[[|] z] c']|]; try exact I. destruct z; exact I.
  - destruct (pbyte (cpos c) =? 0); exact I.
  - destruct (pcol (cpos c) =? 1); exact I.
  - destruct pk; injection Ea as <-;
      try (match goal with |- epos _ (match ?x with PNone => _ | PSome _ _ => _ | POob => _ end) => destruct x as [|v k|] end; [exact I | apply B | exact I]).
    destruct (in_empty c); [exact I | apply B].
  - destruct (length cs <=? in_size c)%nat; [|exact I]. destruct (take (length cs) (rest c)) as [bs|]; [|exact I].
    destruct (eqb_bytes cs bs); [apply Bh | exact I].
  - destruct (length cs <=? in_size c)%nat; [|exact I]. destruct (take (length cs) (rest c)) as [bs|]; [|exact I].
    destruct (ieqb_bytes cs bs); [apply Bh | exact I].
  - destruct (n <=? in_size c)%nat; [apply B | exact I].
  - destruct (n <=? in_size c)%nat; exact I.
Qed.

Lemma eval_head_E n self h subs d c : epos c (eval_head C ev n self h subs d c).
Proof.
  unfold eval_head. destruct (eval_atom (ceol C) h c) as [x|] eqn:Ea; [eapply atom_E; eauto|].
  destruct h; try (simpl in Ea; discriminate Ea); try exact I.
  - apply h_seq_E.
  - apply sor_any_E.
  - apply star_loop_E.
  - destruct subs as [|r1 [|? ?]]; try exact I. apply h_plus_E.
  - apply h_partial_E.
  - destruct subs as [|r1 [|? ?]]; try exact I. apply h_at_E.
  - destruct subs as [|r1 [|? ?]]; try exact I. apply h_at_E.
  - destruct subs as [|r1 [|? ?]]; try exact I. apply epos_guard, until1_E.
  - destruct subs as [|cn [|r1 [|? ?]]]; try exact I. apply epos_guard, until2_E.
  - destruct subs as [|r1 [|? ?]]; try exact I. apply epos_guard, rep_loop_E. reflexivity.
  - destruct subs as [|r1 [|? ?]]; try exact I. apply h_rep_min_max_E.
  - destruct subs as [|r1 [|? ?]]; try exact I. apply repopt_loop_E.
  - destruct subs as [|cn [|t [|e [|? ?]]]]; try exact I. apply h_if_then_else_E.
  - destruct subs as [|cn rest_]; try exact I. apply h_if_must_E.
  - destruct subs as [|r1 [|? ?]]; try exact I. apply h_must_E.
  - destruct subs as [|t [|? ?]]; try exact I. apply raise_at_E. apply adv_refl. exact P_refl.
  - destruct subs as [|r1 rs]; try exact I. apply h_strict_E.
  - destruct subs as [|r1 rs]; try exact I. apply epos_guard, star_strict_E.
  - destruct subs as [|hd rs]; try exact I. apply h_rematch_E.
  - destruct subs as [|r1 [|? ?]]; try exact I. apply h_try_false_E.
  - destruct subs as [|r1 [|? ?]]; try exact I. apply h_try_nested_E.
  - destruct subs as [|r1 [|? ?]]; try exact I. apply st_scope_E, Hepos.
  - destruct subs as [|r1 [|? ?]]; try exact I. apply Hepos.
  - destruct subs as [|r1 [|? ?]]; try exact I. apply Hepos.
  - destruct subs as [|r1 [|? ?]]; try exact I. apply Hepos.
  - destruct subs as [|r1 [|? ?]]; try exact I. apply Hepos.
  - destruct subs; try exact I. unfold h_apply. destruct (dA d); [apply inline_result_E | exact I].
  - destruct subs; try exact I. unfold h_apply0. destruct (dA d); [apply inline_result_E | exact I].
  - destruct subs as [|r1 [|? ?]]; try exact I. apply h_if_apply_E.
Qed.

Lemma fail_hook_E d r cb c1 evs c : adv c c1 -> epos c (fail_hook C d r cb c1 evs).
Proof.
  intros A. unfold fail_hook. destruct (raise_on_failure C (dCtl d) r); simpl; [|exact I].
  constructor; [apply reach_adv; exact A | constructor].
Qed.
Lemma match_hpp_E ak body d r c :
  (forall d c, good (dM d) c (body d c)) -> (forall d c, epos c (body d c)) -> epos c (match_hpp C ak body d r c).
Proof.
  intros Hb He. unfold match_hpp. set (g := use_guard d ak).
  pose proof (Hb (if g then opt_ d else d) c) as G. pose proof (He (if g then opt_ d else d) c) as E.
  dres (body (if g then opt_ d else d) c); simpl in *; auto.
  - destruct (run_action C d ak r (cpos c) (cpos c0)) as [[[|]|t] ea]; simpl; auto.
    apply fail_hook_E. exact G.
  - apply fail_hook_E. destruct (dM (if g then opt_ d else d)); [subst c0; apply adv_refl; exact P_refl | exact G].
Qed.
Lemma epos_window n c x : epos (mkcur (firstn n (rest c)) (cpos c)) x -> epos c x.
Proof. apply epos_sub. exists (skipn n (rest c)). symmetry. apply firstn_skipn. Qed.
Lemma action_match_E plain enabled m d r c :
  (forall d c, good (dM d) c (plain d c)) -> (forall d c, epos c (plain d c)) -> epos c (action_match ev plain enabled m d r c).
Proof.
  intros Hp He. destruct m; simpl.
  - apply Hepos.
  - apply st_scope_E, He.
  - apply st_scope_E, Hepos.
  - apply He.
  - apply He.
  - apply He.
  - destruct enabled; [|apply He]. destruct (n <? S (dDepth d))%nat; [apply raise_at_E; apply adv_refl; exact P_refl | apply He].
  - pose proof (Hp d (mkcur (firstn n (rest c)) (cpos c))) as G. pose proof (He d (mkcur (firstn n (rest c)) (cpos c))) as E.
    apply epos_window in E.
    dres (plain d (mkcur (firstn n (rest c)) (cpos c))); simpl in *; auto.
    destruct (in_empty c0 && negb (is_nil (skipn n (rest c)))); [|exact I].
    unfold raise_at. simpl. constructor; [|constructor].
    change (cpos c0) with (cpos (mkcur (rest c0 ++ skipn n (rest c)) (cpos c0))). apply reach_adv. apply firstn_skipn_adv. exact G.
  - pose proof (Hp d c) as G. pose proof (He d c) as E. dres (plain d c); simpl in *; auto.
    destruct (n <? length (rest c) - length (rest c0))%nat; simpl; [|exact I].
    constructor; [apply reach_adv; exact G | constructor].
Qed.
Lemma traced_E k r a m c0 c x : epos c x -> epos c (traced k r a m c0 x).
Proof. dres x; simpl; auto. Qed.
End HelperFacts.

Variable G : grammar.
Hypothesis HG : forall r nd, nth_error G r = Some nd -> okh (nhead nd).

Theorem eval_epos f : forall d r c, epos c (eval G C f d r c).
Proof.
  induction f as [|f IH]; intros d r c; simpl; [exact I|].
  destruct (nth_error G r) as [nd|] eqn:En; [|exact I].
  apply traced_E.
  pose proof (eval_good P P_refl P_trans C okh H_scan H_atom G HG f) as IHg.
  assert (Hb1 : forall d' c', good (dM d') c' (eval_head C (eval G C f) f r (nhead nd) (nsubs nd) d' c')).
  { intros d' c'. apply (eval_head_good P P_refl P_trans C okh H_scan H_atom (eval G C f) IHg). eapply HG; eauto. }
  assert (Hb2 : forall d' c', epos c' (eval_head C (eval G C f) f r (nhead nd) (nsubs nd) d' c')).
  { intros d' c'. apply eval_head_E; assumption. }
  assert (Hp1 : forall ak d' c', good (dM d') c' (if nenabled nd then match_hpp C ak (eval_head C (eval G C f) f r (nhead nd) (nsubs nd)) d' r c'
                                                else eval_head C (eval G C f) f r (nhead nd) (nsubs nd) d' c')).
  { intros ak d' c'. destruct (nenabled nd); [apply (match_hpp_good P P_refl); exact Hb1 | apply Hb1]. }
  assert (Hp2 : forall ak d' c', epos c' (if nenabled nd then match_hpp C ak (eval_head C (eval G C f) f r (nhead nd) (nsubs nd)) d' r c'
                                          else eval_head C (eval G C f) f r (nhead nd) (nsubs nd) d' c')).
  { intros ak d' c'. destruct (nenabled nd); [apply match_hpp_E; assumption | apply Hb2]. }
  destruct (acts C (dAct d) r) as [| | |mk]; try apply Hp2.
  apply action_match_E; first [exact IHg | exact IH | apply Hp1 | apply Hp2].
Qed.
End EP.

(* ====================================================================== instance 1: byte offsets, every well-formed table *)
Definition PB (p : pos) (pre : list byte) (q : pos) : Prop := pbyte q = pbyte p + N.of_nat (length pre).
Lemma PB_refl p : PB p [] p.
Proof. unfold PB. simpl. lia. Qed.
Lemma PB_trans p a q b r : PB p a q -> PB q b r -> PB p (a ++ b) r.
Proof. unfold PB. rewrite app_length. lia. Qed.

(* T c = byte offset + remaining bytes: conserved by every bump, hence by every atom *)
Definition T (c : cursor) : N := pbyte (cpos c) + N.of_nat (length (rest c)).
Lemma bump_scan_T ch n : forall c c', bump_scan ch n c = Some c' -> T c' = T c.
Proof.
  induction n as [|n IH]; intros c c' H; simpl in H; [inversion H; reflexivity|].
  destruct (rest c) as [|b tl] eqn:E; [discriminate|]. apply IH in H. rewrite H. unfold T. simpl. rewrite E.
  unfold bump1_pos. destruct (b =? ch); simpl; lia.
Qed.
Lemma drop_length n : forall l tl, drop n l = Some tl -> length l = (n + length tl)%nat.
Proof.
  induction n as [|n IH]; intros l tl H; simpl in H; [inversion H; reflexivity|].
  destruct l as [|b l]; [discriminate|]. apply IH in H. simpl. lia.
Qed.
Lemma bump_in_line_T n c c' : bump_in_line n c = Some c' -> T c' = T c.
Proof.
  unfold bump_in_line. destruct (drop n (rest c)) as [tl|] eqn:E; [|discriminate]. intros H; inversion H; subst.
  apply drop_length in E. unfold T. simpl. rewrite E. lia.
Qed.
Lemma bump_next_line_T n c c' : bump_next_line n c = Some c' -> T c' = T c.
Proof.
  unfold bump_next_line. destruct (drop n (rest c)) as [tl|] eqn:E; [|discriminate]. intros H; inversion H; subst.
  apply drop_length in E. unfold T. simpl. rewrite E. lia.
Qed.
Definition keepsT (c : cursor) (x : result) : Prop := match x with Res _ c' _ => T c' = T c | _ => True end.
Lemma eol_match_T e c b z c' : eol_match e c = Some (b, z, c') -> T c' = T c.
Proof.
  unfold eol_match.
  assert (Y : forall n, option_map (fun c' : cursor => (true, false, c')) (bump_next_line n c) = Some (b, z, c') -> T c' = T c).
  { intros n H. destruct (bump_next_line n c) as [c2|] eqn:E; [|discriminate]. simpl in H. inversion H; subst. eapply bump_next_line_T; eauto. }
  assert (No : Some (false, Nat.eqb (in_size c) 0, c) = Some (b, z, c') -> T c' = T c) by (intros H; inversion H; reflexivity).
  destruct (Nat.eqb (in_size c) 0); [exact No|]. destruct (peek_at c 0) as [a|]; [|discriminate].
  destruct e.
  - destruct (a =? 10); [apply Y | exact No].
  - destruct (a =? 13); [apply Y | exact No].
  - destruct (1 <? in_size c)%nat; [|exact No]. destruct (a =? 13); [|exact No]. destruct (peek_at c 1) as [b1|]; [|discriminate].
    destruct (b1 =? 10); [apply Y | exact No].
  - destruct (a =? 10); [apply Y|]. destruct ((a =? 13) && (1 <? in_size c)%nat); [|exact No]. destruct (peek_at c 1) as [b1|]; [|discriminate].
    destruct (b1 =? 10); [apply Y | exact No].
  - destruct (a =? 13); [|exact No]. destruct (1 <? in_size c)%nat; [|apply Y]. destruct (peek_at c 1) as [b1|]; [|discriminate].
    destruct (b1 =? 10); apply Y.
Qed.
Lemma atom_T eol h c x : eval_atom eol h c = Some x -> keepsT c x.
Proof.
  assert (B : forall o, (forall c', o = Some c' -> T c' = T c) -> keepsT c (ok_or_err o)) by (intros [c'|] H; simpl; auto).
  assert (Bs : forall n, keepsT c (ok_or_err (bump_scan (eol_ch eol) n c))) by (intros n; apply B; intros c' H; eapply bump_scan_T; eauto).
  assert (Bh : forall t n, keepsT c (bump_help (eol_ch eol) t n c)).
  { intros t n. unfold bump_help. apply B. intros c' H. destruct t; [eapply bump_scan_T; eauto | eapply bump_in_line_T; eauto]. }
  assert (Pk : forall pk t, keepsT c (peek_test_bump (eol_ch eol) pk t c)).
  { intros pk t. unfold peek_test_bump. destruct (do_peek pk c) as [|v k|]; try exact I; [reflexivity|]. destruct (t v); [apply Bh | reflexivity]. }
  destruct h; simpl; intros Ea; try discriminate Ea; try (injection Ea as <-); try reflexivity; try apply Bs; try apply Pk.
  - destruct (eol_match eol c) as [[[[|] z] c']|] eqn:E; simpl; try reflexivity; try exact I. eapply eol_match_T; eauto.
  - destruct (eol_match eol c) as [[[[|] z] c']|] eqn:E; simpl; try reflexivity; try exact I. eapply eol_match_T; eauto.
  - destruct pk; injection Ea as <-;
      try (match goal with |- keepsT _ (match ?x with PNone => _ | PSome _ _ => _ | POob => _ end) => destruct x as [|v k|] end; [reflexivity | apply Bs | exact I]).
    destruct (in_empty c); [reflexivity | exact (Bs 1%nat)].
  - destruct (length cs <=? in_size c)%nat; [|reflexivity]. destruct (take (length cs) (rest c)) as [bs|]; [|exact I].
    destruct (eqb_bytes cs bs); [apply Bh | reflexivity].
  - destruct (length cs <=? in_size c)%nat; [|reflexivity]. destruct (take (length cs) (rest c)) as [bs|]; [|exact I].
    destruct (ieqb_bytes cs bs); [apply Bh | reflexivity].
  - destruct (n <=? in_size c)%nat; [apply Bs | reflexivity].
Qed.

Lemma adv_PT_PB c c' : adv PT c c' -> T c' = T c -> adv PB c c'.
Proof.
  intros [pre [H _]] Ht. exists pre. split; [exact H|]. unfold PB, T in *. rewrite H, app_length in Ht. lia.
Qed.
Lemma bump_scan_PB ch n c c' : bump_scan ch n c = Some c' -> adv PB c c'.
Proof. intros H. apply adv_PT_PB; [eapply bump_scan_adv; eauto | eapply bump_scan_T; eauto]. Qed.
Lemma atom_PB eol h c x m : head_wf h -> eval_atom eol h c = Some x -> good PB m c x.
Proof.
  intros Hw Ha. pose proof (eval_atom_good eol h c x m Hw Ha) as Gd. pose proof (atom_T eol h c x Ha) as Kt.
  unfold goodT in Gd. dres x; simpl in *; auto.
  - apply adv_PT_PB; assumption.
  - destruct m; [exact Gd | apply adv_PT_PB; assumption].
  - apply adv_PT_PB; assumption.
Qed.

Theorem eval_good_PB G C f d r c : table_wf G -> good PB (dM d) c (eval G C f d r c).
Proof.
  intros HG. apply (eval_good PB PB_refl PB_trans C head_wf).
  - intros n c0 c' H. eapply bump_scan_PB; eauto.
  - intros h c0 x m Hw H. eapply atom_PB; eauto.
  - exact HG.
Qed.

(* every position in an exception lies inside the part of the input the evaluation started on *)
Theorem exn_byte_range G C f d r c e c' evs : table_wf G -> eval G C f d r c = Res (Exc e) c' evs ->
  Forall (fun p => pbyte (cpos c) <= pbyte p <= pbyte (cpos c) + N.of_nat (length (rest c))) (exn_pos e).
Proof.
  intros HG H.
  pose proof (eval_epos PB PB_refl PB_trans C head_wf
                (fun n c0 c1 H0 => bump_scan_PB _ n c0 c1 H0) (fun h c0 x m Hw H0 => atom_PB _ h c0 x m Hw H0) G HG f d r c) as K.
  rewrite H in K. simpl in K. eapply Forall_impl; [|exact K].
  intros p [pre [suf [H1 H2]]]. unfold PB in H2. rewrite H1, app_length. lia.
Qed.

(* ====================================================================== instance 2: full positions (byte, line, column) *)
(* hypothesis on the ATOMS of the table only: their eager position bumps agree with tracking *)
Definition atoms_tracked (C : cfg) (G : grammar) : Prop :=
  forall r nd c x m, nth_error G r = Some nd -> eval_atom (ceol C) (nhead nd) c = Some x -> good (PTr (eol_ch (ceol C))) m c x.

Theorem exn_tracked G C f d r c e c' evs : atoms_tracked C G -> eval G C f d r c = Res (Exc e) c' evs ->
  Forall (fun p => exists pre suf, rest c = pre ++ suf /\ p = track (eol_ch (ceol C)) (cpos c) pre) (exn_pos e).
Proof.
  intros HA H. set (ch := eol_ch (ceol C)).
  set (okh := fun h : head => forall c0 x m, eval_atom (ceol C) h c0 = Some x -> good (PTr ch) m c0 x).
  assert (HG : forall r0 nd, nth_error G r0 = Some nd -> okh (nhead nd)).
  { intros r0 nd Hn c0 x m Ha. eapply HA; eauto. }
  pose proof (eval_epos (PTr ch) (PTr_refl ch) (PTr_trans ch) C okh
                (fun n c0 c1 H0 => bump_scan_track ch n c0 c1 H0) (fun h c0 x m Ho H0 => Ho c0 x m H0) G HG f d r c) as K.
  rewrite H in K. exact K.
Qed.

(* ====================================================================== must< R >, locally *)
(* the raise of must< R > happens exactly when R fails; its position is the cursor R's attempt
   (called with rewind_mode::optional) left behind, which is reachable from the must's start *)
Theorem must_position G C f d r c r1 :
  nth_error G r = Some (mknode HMust [r1] false) -> (forall m, acts C (dAct d) r <> AKMatch m) -> table_wf G ->
  forall o c' evs, eval G C (S f) d r c = Res o c' evs ->
  exists o1 c1 evs1, eval G C f (opt_ d) r1 c = Res o1 c1 evs1 /\
    match o1 with
    | Ok => o = Ok /\ c' = c1
    | Fail => o = Exc (EParse (WRule r1) (cpos c1)) /\ c' = c1 /\
              (exists pre, rest c = pre ++ rest c1 /\ pbyte (cpos c1) = pbyte (cpos c) + N.of_nat (length pre)) /\
              In (ERaise (dCtl d) (WRule r1) (cpos c1)) evs
    | Exc e => o = Exc e /\ c' = c1
    end.
Proof.
  intros Hn Ha HG o c' evs H. rewrite (eval_plain G C f d r c _ Hn eq_refl Ha) in H.
  apply traced_res in H. destruct H as [evs0 [H ->]]. cbn [nhead nsubs eval_head eval_atom h_must] in H. unfold h_must in H.
  pose proof (eval_good_PB G C f (opt_ d) r1 c HG) as Gd.
  dres (eval G C f (opt_ d) r1 c); try discriminate H.
  - inversion H; subst. eexists; eexists; eexists. split; [reflexivity|]. split; reflexivity.
  - unfold raise_at in H. inversion H; subst. eexists; eexists; eexists. split; [reflexivity|]. cbv beta iota.
    split; [reflexivity|]. split; [reflexivity|]. split.
    + simpl in Gd. destruct Gd as [pre [G1 G2]]. exists pre. split; [exact G1 | exact G2].
    + right. apply in_or_app. left. apply in_or_app. right. left. reflexivity.
  - inversion H; subst. eexists; eexists; eexists. split; [reflexivity|]. split; reflexivity.
Qed.

(* ====================================================================== atoms_tracked discharged for the char-level atoms *)
(* one / not_one / range / not_range / ranges over char, any, string, bytes, eof, bof, bol, success, failure,
   everything, require, discard: their eager bumps agree with tracking under every eol policy.
   (eol / eolf, istring and the multi-byte decoders are the remaining per-atom obligations of C06.) *)
Definition char_head (h : head) : Prop :=
  match h with
  | HOne _ pk _ | HRange _ pk _ _ | HRanges pk _ | HAny pk => pk = PkChar
  | HEol | HEolf | HIString _ => False
  | _ => True
  end.

Lemma eol_ch_small e : eol_ch e = 10 \/ eol_ch e = 13.
Proof. destruct e; simpl; auto. Qed.
Lemma schar_eol e : schar (eol_ch e) = Z.of_N (eol_ch e).
Proof. destruct (eol_ch_small e) as [-> | ->]; reflexivity. Qed.

Section CharAtoms.
Variable eol : eolp.
Notation ch := (eol_ch eol).
Notation goodR := (good (PTr ch)).

Lemma ok_or_err_track m c o : (exists c', o = Some c' /\ adv (PTr ch) c c') -> goodR m c (ok_or_err o).
Proof. intros [c' [-> A]]. simpl. exact A. Qed.
Lemma scan_track m c n : (n <= in_size c)%nat -> goodR m c (ok_or_err (bump_scan ch n c)).
Proof.
  intros H. apply ok_or_err_track. destruct (bump_scan_some ch n c H) as [c' Hc]. exists c'. split; [exact Hc | eapply bump_scan_track; eauto].
Qed.
Lemma app_same_length {A} (a1 b1 a2 b2 : list A) : a1 ++ b1 = a2 ++ b2 -> length a1 = length a2 -> a1 = a2.
Proof.
  revert a2. induction a1 as [|x a1 IH]; intros [|y a2] H L; simpl in *; try discriminate; [reflexivity|].
  inversion H; subst. f_equal. apply IH; [assumption | lia].
Qed.
Lemma help_track m c t n : (n <= in_size c)%nat ->
  (t = false -> forall pre tl, rest c = pre ++ tl -> length pre = n -> Forall (fun b => b <> ch) pre) ->
  goodR m c (bump_help ch t n c).
Proof.
  intros H Hn. unfold bump_help. destruct t; [apply scan_track; exact H|].
  apply ok_or_err_track. destruct (bump_in_line_some n c H) as [c' Hc]. exists c'. split; [exact Hc|].
  eapply bump_in_line_track; [exact Hc | apply Hn; reflexivity].
Qed.
Lemma ptb_char_track m c test : goodR m c (peek_test_bump ch PkChar test c).
Proof.
  unfold peek_test_bump, do_peek, peek_char, rd, peek_at, in_empty.
  destruct (rest c) as [|b tl] eqn:E; [apply good_fail_same; apply PTr_refl|]. simpl.
  destruct (test (schar b)) eqn:Et; [|apply good_fail_same; apply PTr_refl].
  apply help_track; [unfold in_size; rewrite E; simpl; lia|].
  intros Hf pre tl' Hp Hl. rewrite E in Hp.
  destruct pre as [|b' [|? ?]]; simpl in Hl; try discriminate. simpl in Hp. inversion Hp; subst.
  constructor; [|constructor]. intros ->. unfold ch_as_data in Hf. rewrite schar_eol in Et. rewrite Et in Hf. discriminate.
Qed.
Lemma eqb_bytes_eq a : forall b, eqb_bytes a b = true -> a = b.
Proof.
  induction a as [|x a IH]; intros [|y b] H; simpl in H; try discriminate; [reflexivity|].
  apply andb_true_iff in H. destruct H as [H1 H2]. apply N.eqb_eq in H1. f_equal; auto.
Qed.
Lemma take_length n : forall l bs, take n l = Some bs -> length bs = n.
Proof.
  induction n as [|n IH]; intros l bs H; simpl in H; [inversion H; reflexivity|].
  destruct l as [|b l]; [discriminate|]. destruct (take n l) as [bs'|] eqn:E; [|discriminate]. simpl in H. inversion H; subst.
  simpl. f_equal. eapply IH; eauto.
Qed.
Lemma existsb_false_Forall cs : existsb (N.eqb ch) cs = false -> Forall (fun b => b <> ch) cs.
Proof.
  induction cs as [|x cs IH]; simpl; intros H; [constructor|]. apply orb_false_iff in H. destruct H as [H1 H2].
  constructor; [|apply IH; exact H2]. intros ->. rewrite N.eqb_refl in H1. discriminate.
Qed.

Lemma char_atom_tracked h c x m : char_head h -> eval_atom eol h c = Some x -> goodR m c x.
Proof.
  intros Hc. pose proof (PTr_refl ch) as R.
  destruct h; simpl in Hc; try contradiction; simpl; intros H; try discriminate H; try (injection H as <-);
  try (apply good_fail_same; exact R); try (apply good_ok_same; exact R).
  - destruct (in_empty c); [apply good_ok_same | apply good_fail_same]; exact R.
  - destruct (pbyte (cpos c) =? 0); [apply good_ok_same | apply good_fail_same]; exact R.
  - destruct (pcol (cpos c) =? 1); [apply good_ok_same | apply good_fail_same]; exact R.
  - apply scan_track. apply le_n.
  - subst pk. injection H as <-. destruct (in_empty c) eqn:E; [apply good_fail_same; exact R|]. apply in_empty_size in E.
    exact (scan_track m c 1 E).
  - subst pk. apply ptb_char_track.
  - subst pk. apply ptb_char_track.
  - subst pk. apply ptb_char_track.
  - destruct (length cs <=? in_size c)%nat eqn:E; [|apply good_fail_same; exact R]. apply Nat.leb_le in E.
    destruct (take (length cs) (rest c)) as [bs|] eqn:Et.
    + destruct (eqb_bytes cs bs) eqn:Eb; [|apply good_fail_same; exact R]. apply eqb_bytes_eq in Eb. subst bs.
      apply help_track; [exact E|]. intros Hf pre tl Hp Hl.
      destruct (take_app _ _ _ Et) as [tl2 Ht2]. rewrite Ht2 in Hp.
      assert (pre = cs) by (eapply app_same_length; [symmetry; exact Hp | exact Hl]). subst pre.
      apply existsb_false_Forall. exact Hf.
    + destruct (take_some (length cs) (rest c) E) as [bs Hbs]. unfold byte in *. rewrite Hbs in Et. discriminate.
  - destruct (n <=? in_size c)%nat eqn:E; [|apply good_fail_same; exact R]. apply Nat.leb_le in E. apply scan_track. exact E.
  - destruct (n <=? in_size c)%nat; [apply good_ok_same | apply good_fail_same]; exact R.
Qed.
End CharAtoms.

Definition char_table (G : grammar) : Prop := forall r nd, nth_error G r = Some nd -> char_head (nhead nd).
Theorem char_atoms_tracked C G : char_table G -> atoms_tracked C G.
Proof. intros HG r nd c x m Hn Ha. eapply char_atom_tracked; [eapply HG; eauto | exact Ha]. Qed.

Theorem exn_tracked_char G C f d r c e c' evs : char_table G -> eval G C f d r c = Res (Exc e) c' evs ->
  Forall (fun p => exists pre suf, rest c = pre ++ suf /\ p = track (eol_ch (ceol C)) (cpos c) pre) (exn_pos e).
Proof. intros HG. apply exn_tracked. apply char_atoms_tracked. exact HG. Qed.
