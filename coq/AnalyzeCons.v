(* AnalyzeCons.v — C11 stage B, part 1 (continued): cons_sound.
   A rule that the analysis visits without a problem and answers "consumes" for strictly shortens the input whenever
   it succeeds in Engine.eval — for every fuel, configuration, mode and cursor. *)
From Coq Require Import Lia.
From PegtlV Require Import Base Decode Grammar Engine EngineFacts AtomFacts Mono Analyze AnalyzeFacts AnalyzeSound.

Lemma rl_inj a b : rl a = rl b -> a = b.
Proof. unfold rl. intros H. inversion H. reflexivity. Qed.
Lemma in_rls r rs : In (rl r) (rls rs) -> In r rs.
Proof. unfold rls. intros H. apply in_map_iff in H. destruct H as [x [E Hx]]. apply rl_inj in E. subst. exact Hx. Qed.
Lemma in_rls_ex x rs : In x (rls rs) -> exists r, x = rl r /\ In r rs.
Proof. unfold rls. intros H. apply in_map_iff in H. destruct H as [r [E Hr]]. exists r. auto. Qed.

Section Inversions.
Variable ent : aid -> entry.

Lemma okh_inv h stk n b : okh ent h stk n b ->
  exists h' a, h = S h' /\ ~ In n stk /\ okfh ent h' (n :: stk) (ekind (ent n)) (esubs (ent n)) a /\
               b = match ekind (ent n) with KAny => true | KOpt => false | _ => a end.
Proof. intros H. destruct H. eauto 10. Qed.

Lemma okh_kind_true h stk x : okh ent h stk x true -> ekind (ent x) <> KOpt.
Proof. intros H. apply okh_inv in H. destruct H as [h' [a [_ [_ [_ E]]]]]. intros K. rewrite K in E. discriminate. Qed.

Lemma okfh_true_elem h stk t subs : t <> KSor -> okfh ent h stk t subs true -> exists x, In x subs /\ okh ent h stk x true.
Proof.
  intros Ht H. destruct (okfh_seq_struct ent h stk t Ht subs true H) as [[E _]|[_ [pre [r [post [E [_ Hr]]]]]]]; [discriminate|].
  exists r. split; [rewrite E; apply in_or_app; right; left; reflexivity | exact Hr].
Qed.

Lemma okfh_bad h stk x t a : okfh ent h (x :: stk) t [x] a -> False.
Proof.
  intros H. assert (K : exists b, okh ent h (x :: stk) x b).
  { inversion H; subst; eauto. }
  destruct K as [b K]. apply okh_inv in K. destruct K as [h' [a' [_ [N _]]]]. apply N. left. reflexivity.
Qed.
End Inversions.

Section EvFacts2.
Variable C : cfg.
Variable ev : dyn -> rid -> cursor -> result.
Hypothesis Hgood : forall d r c, goodT (dM d) c (ev d r c).

Lemma until1_cons n d cnd : Cn ev cnd -> forall c c' evs, until1_loop C ev n d cnd c = Res Ok c' evs -> len c' < len c.
Proof.
  intros Hc. induction n as [|n IH]; intros c c' evs H; [discriminate|]. cbn [until1_loop] in H.
  destruct (ev (req d) cnd c) as [[| |ex] c0 evs0| |] eqn:E1; try discriminate.
  - inversion H; subst. eapply Hc; eauto.
  - apply (ev_fail_req ev Hgood) in E1; [|reflexivity]. subst c0.
    destruct (in_empty c); [discriminate|].
    destruct (bump_scan (eol_ch (ceol C)) 1 c) as [c2|] eqn:Eb; [|discriminate].
    apply prepend_inv in H. destruct H as [e' H]. apply IH in H. apply bump_scan_len in Eb. lia.
Qed.

Lemma inline_result_ok_inv x c_ok c_fail pre c' evs : inline_result x c_ok c_fail pre = Res Ok c' evs -> c' = c_ok.
Proof. destruct x as [[[|]|t] e]; simpl; intros H; inversion H; reflexivity. Qed.

Lemma h_if_apply_ok_inv d acts_ r1 c c' evs : h_if_apply C ev d acts_ r1 c = Res Ok c' evs -> exists d' evs', ev d' r1 c = Res Ok c' evs'.
Proof.
  unfold h_if_apply. destruct (dA d && negb match acts_ with [] => true | _ :: _ => false end); [|eauto].
  destruct (ev (set_A (opt_ d) true) r1 c) as [[| |ex] c1 evs1| |] eqn:E; try discriminate.
  intros H. apply inline_result_ok_inv in H. subst c'. eauto.
Qed.
End EvFacts2.

Section Cons.
Variable G : grammar.
Variable C : cfg.
Hypothesis Hwf : table_wf G.
Hypothesis Hcov : table_shape_ok G = true.
Notation ent := (aentry G).

Definition cons_ok (r : rid) : Prop := exists h stk, okh ent h stk (rl r) true.

Section Head.
Variable ev : dyn -> rid -> cursor -> result.
Hypothesis Hgood : forall d r c, goodT (dM d) c (ev d r c).
Hypothesis IH : forall r, cons_ok r -> Cn ev r.

Lemma cn_of h stk r : okh ent h stk (rl r) true -> Cn ev r.
Proof. intros H. apply IH. exists h, stk. exact H. Qed.

(* one element of rls rs is answered "consumes" *)
Lemma true_elem_cn h stk t rs : t <> KSor -> okfh ent h stk t (rls rs) true -> exists r, In r rs /\ Cn ev r.
Proof.
  intros Ht H. destruct (okfh_true_elem ent h stk t _ Ht H) as [x [Hx Hok]].
  destruct (in_rls_ex x rs Hx) as [r [-> Hr]]. exists r. split; [exact Hr | eapply cn_of; eauto].
Qed.
Lemma single_cn h stk t r : t <> KSor -> okfh ent h stk t [rl r] true -> Cn ev r.
Proof.
  intros Ht H. destruct (true_elem_cn h stk t [r] Ht H) as [r0 [[<-|[]] Hc]]. exact Hc.
Qed.

(* stated for an arbitrary (head, subs) whose trait is stored under the name self: if_apply / until< Cond > store
   the trait of another rule under their own name *)
Lemma cons_head n eself (self : rid) h0 subs0 h stk d c c' evs :
  head_wf h0 -> head_direct h0 = true ->
  ent (rl self) = main_entry G self h0 subs0 ->
  (forall k, ent (self, S k) = syn_entry G self h0 subs0 (S k)) ->
  okh ent h stk (rl self) true ->
  eval_head C ev n eself h0 subs0 d c = Res Ok c' evs -> len c' < len c.
Proof.
  intros Hw Hc Hmain Esyn Hok He.
  apply okh_inv in Hok. destruct Hok as [h' [a [_ [Hnin [Hf Eb]]]]]. symmetry in Eb.
  rewrite Hmain in Hf, Eb.
  assert (NS : KSeq <> KSor) by discriminate.
  unfold eval_head in He.
  destruct (eval_atom (ceol C) h0 c) as [x|] eqn:Ea.
  { subst x. eapply atom_cons with (G := G) (self := self) (subs := subs0); eauto.
    destruct (ekind (main_entry G self h0 subs0)) eqn:Ek; try reflexivity; try discriminate Eb;
      destruct h0; cbn [eval_atom] in Ea; try discriminate Ea; cbn in Ek; try discriminate Ek;
      match type of Ek with context[if ?b then _ else _] => destruct b; cbn in Ek; discriminate Ek
                          | context[match ?n with O => _ | S _ => _ end] => destruct n; cbn in Ek; discriminate Ek end. }
  destruct h0 eqn:Eh; cbn [eval_atom] in Ea; try discriminate Ea; try (destruct pk; discriminate Ea); try discriminate Hc; clear Ea.
  - (* seq *)
    destruct subs0 as [|s0 ss] eqn:Es; [cbn in Eb; discriminate Eb|].
    cbn in Eb. subst a. cbn [main_entry t_seq rls map e_seq ekind esubs] in Hf.
    destruct (true_elem_cn h' _ KSeq (s0 :: ss) NS Hf) as [r [Hr Hcn]].
    apply (h_seq_ok_inv ev) in He. destruct He as [d' [evs' He]].
    eapply (seq_all_cons ev Hgood); [exists r; split; eauto | exact He].
  - (* sor *)
    destruct subs0 as [|s0 ss] eqn:Es; [discriminate He|].
    cbn in Eb. subst a. cbn [main_entry rls map e_sor ekind esubs] in Hf.
    eapply (sor_any_cons ev Hgood); [|exact He].
    intros r Hr. destruct (okfh_sor_all ent h' _ _ _ Hf (rl r)) as [b [Hb Hi]].
    { change (rl s0 :: map rl ss) with (rls (s0 :: ss)). unfold rls. apply in_map. exact Hr. }
    rewrite (Hi eq_refl) in Hb. eapply cn_of; eauto.
  - (* star_partial *) destruct subs0; cbn in Eb; discriminate Eb.
  - (* plus *)
    destruct subs0 as [|r1 [|r2 rs]] eqn:Es; try discriminate He.
    cbn in Eb. subst a. cbn [main_entry rls map app e_seq ekind esubs] in Hf.
    eapply (h_plus_cons ev Hgood); [|exact He].
    inversion Hf as [| ? ? ? ? ? Ht Hr1 | ? ? ? ? ? ? Ht Hr1 Hrest | |]; subst; [eapply cn_of; eauto|].
    exfalso. destruct (okfh_true_elem ent h' _ KSeq _ NS Hrest) as [x [[<-|[]] Hx]].
    apply okh_kind_true in Hx. apply Hx. unfold sy. rewrite (Esyn 0). reflexivity.
  - (* partial *) cbn in Eb; discriminate Eb.
  - (* at *) cbn in Eb; discriminate Eb.
  - (* not_at *) cbn in Eb; discriminate Eb.
  - (* until2 *)
    destruct subs0 as [|cnd [|r1 [|r2 rs]]] eqn:Es; try discriminate He.
    cbn in Eb. subst a. cbn [main_entry e_seq ekind esubs] in Hf.
    unfold h_until2 in He. apply guard_ok_inv in He.
    eapply (until2_cons ev Hgood); [|exact He].
    inversion Hf as [| ? ? ? ? ? Ht Hr1 | ? ? ? ? ? ? Ht Hr1 Hrest | |]; subst.
    + exfalso. apply okh_kind_true in Hr1. apply Hr1. unfold sy. rewrite (Esyn 0). reflexivity.
    + eapply single_cn; [exact NS | exact Hrest].
  - (* rep *)
    destruct subs0 as [|r1 [|r2 rs]] eqn:Es; try discriminate He.
    destruct n0 as [|k]; [cbn in Eb; discriminate Eb|].
    cbn in Eb. subst a. cbn [main_entry t_seq rls map e_seq ekind esubs] in Hf.
    unfold h_rep in He. apply guard_ok_inv in He.
    eapply (rep_loop_cons ev Hgood k (opt_ d) r1); [eapply single_cn; [exact NS | exact Hf] | reflexivity | exact He].
  - (* rep_min_max *)
    destruct subs0 as [|r1 [|r2 rs]] eqn:Es; try discriminate He.
    destruct mn as [|k]; [cbn in Eb; discriminate Eb|].
    cbn in Eb. subst a. cbn [main_entry t_seq rls map e_seq ekind esubs] in Hf.
    eapply (h_rep_min_max_cons ev Hgood); [eapply single_cn; [exact NS | exact Hf] | exact He].
  - (* rep_opt *) cbn in Eb; discriminate Eb.
  - (* if_then_else *)
    destruct subs0 as [|cnd [|t [|e [|? ?]]]] eqn:Es; try discriminate He.
    cbn in Eb. subst a. cbn [main_entry e_sor ekind esubs] in Hf.
    destruct (okfh_sor_all ent h' _ _ _ Hf (sy self 1)) as [b1 [Hb1 Hi1]]; [left; reflexivity|].
    destruct (okfh_sor_all ent h' _ _ _ Hf (rl e)) as [b2 [Hb2 Hi2]]; [right; left; reflexivity|].
    rewrite (Hi1 eq_refl) in Hb1. rewrite (Hi2 eq_refl) in Hb2.
    eapply (h_if_then_else_cons ev Hgood); [| eapply cn_of; exact Hb2 | exact He].
    apply okh_inv in Hb1. destruct Hb1 as [h2 [a2 [_ [Hnin2 [Hf2 Fb]]]]]. symmetry in Fb.
    unfold sy in Hf2, Fb. rewrite (Esyn 0) in Hf2, Fb. cbn in Fb. subst a2.
    cbn [syn_entry e_seq ekind esubs] in Hf2.
    destruct (true_elem_cn h2 _ KSeq [cnd; t] NS Hf2) as [r [[<-|[<-|[]]] Hcn]]; [left | right]; exact Hcn.
  - (* must *)
    destruct subs0 as [|r1 [|r2 rs]] eqn:Es; try discriminate He.
    cbn in Eb. subst a. cbn [main_entry t_seq rls map e_seq ekind esubs] in Hf.
    apply (h_must_ok_inv ev) in He. eapply single_cn; [exact NS | exact Hf | exact He].
  - (* raise *)
    destruct subs0 as [|r1 [|r2 rs]] eqn:Es; discriminate He.
  - (* strict *) exfalso. cbn [main_entry e_bad e_seq ekind esubs] in Hf. eapply okfh_bad; exact Hf.
  - (* star_strict *) exfalso. cbn [main_entry e_bad e_seq ekind esubs] in Hf. eapply okfh_bad; exact Hf.
  - (* rematch *)
    destruct subs0 as [|hd rs] eqn:Es; [discriminate He|].
    cbn in Eb. subst a. cbn [main_entry e_sor ekind esubs] in Hf.
    destruct (okfh_sor_all ent h' _ _ _ Hf (rl hd)) as [b1 [Hb1 Hi1]]; [left; reflexivity|].
    rewrite (Hi1 eq_refl) in Hb1.
    eapply (h_rematch_cons ev); [eapply cn_of; exact Hb1 | exact He].
  - (* try_catch_return_false *)
    destruct subs0 as [|r1 [|r2 rs]] eqn:Es; try discriminate He.
    cbn in Eb. subst a. cbn [main_entry t_seq rls map e_seq ekind esubs] in Hf.
    apply (h_try_false_ok_inv ev) in He. eapply single_cn; [exact NS | exact Hf | exact He].
  - (* try_catch_raise_nested *)
    destruct subs0 as [|r1 [|r2 rs]] eqn:Es; try discriminate He.
    cbn in Eb. subst a. cbn [main_entry t_seq rls map e_seq ekind esubs] in Hf.
    apply (h_try_nested_ok_inv ev) in He. eapply single_cn; [exact NS | exact Hf | exact He].
  - (* state *)
    destruct subs0 as [|r1 [|r2 rs]] eqn:Es; try discriminate He.
    cbn in Eb. subst a. cbn [main_entry t_seq rls map e_seq ekind esubs] in Hf.
    apply st_scope_ok_inv in He. destruct He as [e' He]. eapply single_cn; [exact NS | exact Hf | exact He].
  - (* action *)
    destruct subs0 as [|r1 [|r2 rs]] eqn:Es; try discriminate He.
    cbn in Eb. subst a. cbn [main_entry t_seq rls map e_seq ekind esubs] in Hf.
    eapply single_cn; [exact NS | exact Hf | exact He].
  - (* control *)
    destruct subs0 as [|r1 [|r2 rs]] eqn:Es; try discriminate He.
    cbn in Eb. subst a. cbn [main_entry t_seq rls map e_seq ekind esubs] in Hf.
    eapply single_cn; [exact NS | exact Hf | exact He].
  - (* enable *)
    destruct subs0 as [|r1 [|r2 rs]] eqn:Es; try discriminate He.
    cbn in Eb. subst a. cbn [main_entry t_seq rls map e_seq ekind esubs] in Hf.
    eapply single_cn; [exact NS | exact Hf | exact He].
  - (* disable *)
    destruct subs0 as [|r1 [|r2 rs]] eqn:Es; try discriminate He.
    cbn in Eb. subst a. cbn [main_entry t_seq rls map e_seq ekind esubs] in Hf.
    eapply single_cn; [exact NS | exact Hf | exact He].
  - (* apply *) cbn in Eb; discriminate Eb.
  - (* apply0 *) cbn in Eb; discriminate Eb.
Qed.
End Head.

Lemma match_hpp_ok_inv ak body d r c c' evs : match_hpp C ak body d r c = Res Ok c' evs -> exists d' evs', body d' c = Res Ok c' evs'.
Proof.
  unfold match_hpp. destruct (body (if use_guard d ak then opt_ d else d) c) as [[| |ex] c1 evs1| |] eqn:E; intros H; try discriminate.
  - destruct (run_action C d ak r (cpos c) (cpos c1)) as [[[|]|t] ea].
    + inversion H; subst. eauto.
    + unfold fail_hook in H. destruct (raise_on_failure C (dCtl d) r); discriminate.
    + discriminate.
  - unfold fail_hook in H. destruct (raise_on_failure C (dCtl d) r); discriminate.
Qed.

Lemma window_len n (c c1 : cursor) : len c1 < length (firstn n (rest c)) ->
  len (mkcur (rest c1 ++ skipn n (rest c)) (cpos c1)) < len c.
Proof.
  intros H. unfold len in *. simpl. rewrite app_length.
  assert (E : length (firstn n (rest c)) + length (skipn n (rest c)) = length (rest c)).
  { rewrite <- app_length, firstn_skipn. reflexivity. }
  lia.
Qed.

Lemma action_match_cons ev plain enabled m d r c c' evs :
  (forall d0 c0 c1 e1, plain d0 c0 = Res Ok c1 e1 -> len c1 < len c0) ->
  (forall d0 c0 c1 e1, ev d0 r c0 = Res Ok c1 e1 -> len c1 < len c0) ->
  action_match ev plain enabled m d r c = Res Ok c' evs -> len c' < len c.
Proof.
  intros Hp Hev. destruct m; simpl; intros H.
  - eapply Hev; eauto.
  - apply st_scope_ok_inv in H. destruct H as [e' H]. eapply Hp; eauto.
  - apply st_scope_ok_inv in H. destruct H as [e' H]. eapply Hev; eauto.
  - eapply Hp; eauto.
  - eapply Hp; eauto.
  - eapply Hp; eauto.
  - destruct enabled; [|eapply Hp; eauto]. destruct (n <? S (dDepth d))%nat; [discriminate | eapply Hp; eauto].
  - destruct (plain d (mkcur (firstn n (rest c)) (cpos c))) as [[| |ex] c1 evs1| |] eqn:E; try discriminate.
    apply Hp in E. change (len (mkcur (firstn n (rest c)) (cpos c))) with (length (firstn n (rest c))) in E.
    destruct (in_empty c1 && negb (is_nil (skipn n (rest c)))); [discriminate|].
    inversion H; subst. apply window_len. exact E.
  - destruct (plain d c) as [[| |ex] c1 evs1| |] eqn:E; try discriminate.
    destruct (n <? length (rest c) - length (rest c1))%nat; [discriminate|]. inversion H; subst. eapply Hp; eauto.
Qed.

Lemma cn_mono f f' r : f' <= f -> Cn (eval G C f) r -> Cn (eval G C f') r.
Proof. intros Hle H d c c' evs E. eapply H. eapply eval_mono_res; eauto. Qed.

Lemma node_cons_wrap f r nd : nth_error G r = Some nd ->
  (forall n d0 c0 c1 e1, eval_head C (eval G C f) n r (nhead nd) (nsubs nd) d0 c0 = Res Ok c1 e1 -> len c1 < len c0) ->
  Cn (eval G C f) r -> Cn (eval G C (S f)) r.
Proof.
  intros En Hbody Hre d c c' evs He. simpl in He. rewrite En in He.
  apply traced_inv in He. destruct He as [e' He].
  assert (Hplain : forall ak d0 c0 c1 e1,
            (if nenabled nd then match_hpp C ak (eval_head C (eval G C f) f r (nhead nd) (nsubs nd)) d0 r c0
             else eval_head C (eval G C f) f r (nhead nd) (nsubs nd) d0 c0) = Res Ok c1 e1 -> len c1 < len c0).
  { intros ak d0 c0 c1 e1 H. destruct (nenabled nd); [apply match_hpp_ok_inv in H; destruct H as [d' [evs' H]]|]; eapply Hbody; eauto. }
  destruct (acts C (dAct d) r) as [| | |m]; try (eapply Hplain; exact He).
  eapply action_match_cons; [| | exact He].
  - intros d0 c0 c1 e1 H. cbv beta in H. eapply (Hplain AKNone); exact H.
  - intros d0 c0 c1 e1 H. eapply Hre; eauto.
Qed.

(* ---------- the must< Rules... > helper nodes under if_must ---------- *)
Definition NoFail (f : nat) (r : rid) : Prop := forall d c c' e, eval G C f d r c <> Res Fail c' e.
Definition CnLe (f : nat) (r : rid) : Prop := forall f', f' <= f -> Cn (eval G C f') r.

Lemma st_scope_fail_inv b r c0 x c e : st_scope b r c0 x = Res Fail c e -> exists e', x = Res Fail c e'.
Proof. dres x; simpl; intros H; inversion H; subst. eexists; reflexivity. Qed.

Lemma action_match_nofail ev plain enabled m d r c c' e :
  (forall d0 c0 c1 e1, plain d0 c0 <> Res Fail c1 e1) -> (forall d0 c0 c1 e1, ev d0 r c0 <> Res Fail c1 e1) ->
  action_match ev plain enabled m d r c <> Res Fail c' e.
Proof.
  intros Hp Hev. destruct m; simpl; intros H.
  - eapply Hev; eauto.
  - apply st_scope_fail_inv in H. destruct H as [e' H]. eapply Hp; eauto.
  - apply st_scope_fail_inv in H. destruct H as [e' H]. eapply Hev; eauto.
  - eapply Hp; eauto.
  - eapply Hp; eauto.
  - eapply Hp; eauto.
  - destruct enabled; [|eapply Hp; eauto]. destruct (n <? S (dDepth d))%nat; [discriminate | eapply Hp; eauto].
  - destruct (plain d (mkcur (firstn n (rest c)) (cpos c))) as [[| |ex] c1 evs1| |] eqn:E; try discriminate.
    + destruct (in_empty c1 && negb (is_nil (skipn n (rest c)))); discriminate.
    + eapply Hp; eauto.
  - destruct (plain d c) as [[| |ex] c1 evs1| |] eqn:E; try discriminate.
    + destruct (n <? length (rest c) - length (rest c1))%nat; discriminate.
    + eapply Hp; eauto.
Qed.

Lemma node_nofail_wrap f r nd : nth_error G r = Some nd -> nenabled nd = false ->
  (forall n d0 c0 c1 e1, eval_head C (eval G C f) n r (nhead nd) (nsubs nd) d0 c0 <> Res Fail c1 e1) ->
  NoFail f r -> NoFail (S f) r.
Proof.
  intros En Hen Hbody Hre d c c' e He. simpl in He. rewrite En, Hen in He.
  apply traced_inv in He. destruct He as [e' He].
  destruct (acts C (dAct d) r) as [| | |m]; try (eapply Hbody; exact He).
  eapply action_match_nofail; [| | exact He].
  - intros d0 c0 c1 e1 H. eapply Hbody; exact H.
  - intros d0 c0 c1 e1 H. eapply Hre; eauto.
Qed.

Lemma plain_must_inv m : plain_must G m = true ->
  exists nd r, nth_error G m = Some nd /\ nenabled nd = false /\ nhead nd = HMust /\ nsubs nd = [r] /\ unmust G m = r.
Proof.
  unfold plain_must, unmust. destruct (nth_error G m) as [nd|]; [|discriminate]. intros H.
  apply andb_true_iff in H. destruct H as [Hen Hsh]. apply negb_true_iff in Hen.
  destruct (nhead nd) eqn:Eh; try discriminate Hsh. destruct (nsubs nd) as [|r [|? ?]] eqn:Es; try discriminate Hsh.
  exists nd, r. auto.
Qed.

Lemma h_must_nofail ev d r1 c c' e : h_must ev d r1 c <> Res Fail c' e.
Proof. unfold h_must, raise_at. destruct (ev (opt_ d) r1 c) as [[| |ex] c1 evs1| |]; discriminate. Qed.

Lemma plain_must_nofail : forall f m, plain_must G m = true -> NoFail f m.
Proof.
  induction f as [|f IH]; intros m Hm; [intros d c c' e; discriminate|].
  destruct (plain_must_inv m Hm) as [nd [r [En [Hen [Eh [Es _]]]]]].
  apply (node_nofail_wrap f m nd En Hen); [|apply IH; exact Hm].
  intros n d0 c0 c1 e1. rewrite Eh, Es. unfold eval_head. cbn [eval_atom]. apply h_must_nofail.
Qed.

Lemma guard_fail_inv m s x c e : guard m s x = Res Fail c e -> exists c1, x = Res Fail c1 e.
Proof. dres x; simpl; intros H; inversion H; subst. eexists; reflexivity. Qed.

Lemma seq_all_nofail ev d rs : (forall r, In r rs -> forall d0 c0 c1 e1, ev d0 r c0 <> Res Fail c1 e1) ->
  forall c c' e, seq_all ev d rs c <> Res Fail c' e.
Proof.
  induction rs as [|r rs IH]; intros Hall c c' e; simpl; [discriminate|]. unfold bind.
  destruct (ev d r c) as [[| |ex] c0 evs0| |] eqn:E1; try discriminate.
  - intros H. apply prepend_inv in H. destruct H as [e' H]. eapply IH; [intros x Hx; apply Hall; right; exact Hx | exact H].
  - exfalso. eapply (Hall r); [left; reflexivity | exact E1].
Qed.

Lemma helper_nofail : forall f m, must_helper_ok G m = true -> NoFail f m.
Proof.
  induction f as [|f IH]; intros m Hm; [intros d c c' e; discriminate|].
  pose proof Hm as Hm0. unfold must_helper_ok in Hm. destruct (nth_error G m) as [nd|] eqn:En; [|discriminate].
  apply andb_true_iff in Hm. destruct Hm as [Hen Hsh]. apply negb_true_iff in Hen.
  apply (node_nofail_wrap f m nd En Hen); [|apply IH; exact Hm0].
  intros n d0 c0 c1 e1. unfold eval_head.
  destruct (nhead nd) eqn:Eh; try discriminate Hsh; cbn [eval_atom].
  - (* success *) discriminate.
  - (* seq *) unfold h_seq. rewrite forallb_forall in Hsh.
    destruct (nsubs nd) as [|m1 [|m2 ms]] eqn:Es.
    + discriminate.
    + apply plain_must_nofail. apply Hsh. left. reflexivity.
    + intros H. apply guard_fail_inv in H. destruct H as [c2 H]. revert H. apply seq_all_nofail.
      intros r Hr. apply plain_must_nofail. apply Hsh. exact Hr.
  - (* must *) destruct (nsubs nd) as [|r [|? ?]] eqn:Es; try discriminate Hsh. apply h_must_nofail.
Qed.

Lemma plain_must_cn f m : plain_must G m = true -> CnLe f (unmust G m) -> CnLe f m.
Proof.
  intros Hm Hr f'. induction f' as [|f' IH]; intros Hle; [intros d c c' evs; discriminate|].
  destruct (plain_must_inv m Hm) as [nd [r [En [Hen [Eh [Es Eu]]]]]]. rewrite Eu in Hr.
  apply (node_cons_wrap f' m nd En); [|apply IH; lia].
  intros n d0 c0 c1 e1. rewrite Eh, Es. unfold eval_head. cbn [eval_atom]. intros H.
  apply (h_must_ok_inv (eval G C f')) in H. eapply (Hr f'); [lia | exact H].
Qed.

Lemma helper_cn f m : must_helper_ok G m = true -> (exists r, In r (must_rules G [m]) /\ CnLe f r) -> CnLe f m.
Proof.
  intros Hm [r [Hin Hr]] f'. induction f' as [|f' IH]; intros Hle; [intros d c c' evs; discriminate|].
  pose proof Hm as Hm0. unfold must_helper_ok in Hm. unfold must_rules in Hin.
  destruct (nth_error G m) as [nd|] eqn:En; [|discriminate].
  apply andb_true_iff in Hm. destruct Hm as [Hen Hsh].
  apply (node_cons_wrap f' m nd En); [|apply IH; lia].
  assert (Hgood : forall d r c, goodT (dM d) c (eval G C f' d r c)) by (intros; apply eval_goodT; exact Hwf).
  intros n d0 c0 c1 e1. unfold eval_head.
  destruct (nhead nd) eqn:Eh; try discriminate Hsh; cbn [eval_atom].
  - (* success *) destruct (nsubs nd); [destruct Hin | discriminate Hsh].
  - (* seq *) rewrite forallb_forall in Hsh. intros H.
    apply (h_seq_ok_inv (eval G C f')) in H. destruct H as [d' [evs' H]].
    apply in_map_iff in Hin. destruct Hin as [mi [Emi Hmi]]. subst r.
    eapply (seq_all_cons (eval G C f') Hgood); [|exact H]. exists mi. split; [exact Hmi|].
    apply (plain_must_cn f mi (Hsh mi Hmi) Hr f'). lia.
  - (* must *) destruct (nsubs nd) as [|r0 [|? ?]] eqn:Es; try discriminate Hsh.
    destruct Hin as [<-|[]]. intros H. apply (h_must_ok_inv (eval G C f')) in H. eapply (Hr f'); [lia | exact H].
Qed.

(* node level: the rule tgt lies on the eff chain of self (tgt = self, or reached through if_apply / until< Cond >
   nodes), and the trait of the end of the chain, stored under self, was answered "consumes" *)
Theorem cons_chain : forall f k tgt (self : rid) h0 subs0 h stk,
  eff G k tgt = Some (h0, subs0) ->
  ent (rl self) = main_entry G self h0 subs0 ->
  (forall j, ent (self, S j) = syn_entry G self h0 subs0 (S j)) ->
  okh ent h stk (rl self) true ->
  Cn (eval G C f) tgt.
Proof.
  induction f as [|f IHf]; intros k tgt self h0 subs0 h stk Heff Hmain Hsyn Hok d c c' evs He; [discriminate|].
  assert (IHs : forall r, cons_ok r -> Cn (eval G C f) r).
  { intros r [h1 [stk1 Hr]]. destruct (eff G (eff_fuel G) r) as [[h1' subs1]|] eqn:E.
    - eapply (IHf (eff_fuel G) r r h1' subs1 h1 stk1 E); [eapply ent_main_eff; eauto | intros j; eapply ent_syn_eff; eauto | exact Hr].
    - exfalso. apply okh_inv in Hr. destruct Hr as [h2 [a [_ [_ [Hf _]]]]]. rewrite (ent_bad_eff G r E) in Hf.
      cbn [e_bad e_seq ekind esubs] in Hf. eapply okfh_bad; exact Hf. }
  assert (Hgood : forall d r c, goodT (dM d) c (eval G C f d r c)) by (intros; apply eval_goodT; exact Hwf).
  simpl in He.
  destruct (nth_error G tgt) as [nd|] eqn:En; [|discriminate].
  apply traced_inv in He. destruct He as [e' He].
  assert (Hbody : forall n d0 c0 c1 e1, eval_head C (eval G C f) n tgt (nhead nd) (nsubs nd) d0 c0 = Res Ok c1 e1 -> len c1 < len c0).
  { intros n d0 c0 c1 e1 H.
    destruct k as [|k]; [discriminate Heff|]. cbn [eff] in Heff. rewrite En in Heff.
    pose proof (shape_node G tgt nd Hcov En) as Hcv. unfold node_shape_ok in Hcv.
    assert (Hdirect : head_direct (nhead nd) = true -> len c1 < len c0).
    { intros Hd. assert (E : Some (nhead nd, nsubs nd) = Some (h0, subs0)) by (destruct (nhead nd); try discriminate Hd; exact Heff).
      inversion E; subst h0 subs0.
      exact (cons_head (eval G C f) Hgood IHs n tgt self (nhead nd) (nsubs nd) h stk d0 c0 c1 e1 (Hwf tgt nd En) Hd Hmain Hsyn Hok H). }
    destruct (nhead nd) eqn:Eh; try (apply Hdirect; reflexivity).
    - (* until< Cond > *)
      unfold eval_head in H. cbn [eval_atom] in H.
      destruct (nsubs nd) as [|cnd [|? ?]] eqn:Es; try discriminate H.
      unfold h_until1 in H. apply guard_ok_inv in H.
      eapply (until1_cons C (eval G C f) Hgood); [|exact H].
      eapply (IHf k cnd self h0 subs0 h stk); eauto.
    - (* if_must *)
      destruct (nsubs nd) as [|cnd [|m [|? ?]]] eqn:Es; try discriminate Hcv.
      inversion Heff; subst h0 subs0. clear Heff.
      apply okh_inv in Hok. destruct Hok as [h' [a [_ [_ [Hf Eb]]]]]. symmetry in Eb.
      rewrite Hmain in Hf, Eb.
      destruct dflt.
      { cbn [main_entry] in Eb. destruct (is_nilb (must_rules G [m])); cbn in Eb; discriminate Eb. }
      cbn in Eb. subst a. cbn [main_entry e_seq ekind esubs] in Hf.
      change (rl cnd :: rls (must_rules G [m])) with (rls (cnd :: must_rules G [m])) in Hf.
      assert (NS : KSeq <> KSor) by discriminate.
      destruct (okfh_true_elem ent h' _ KSeq _ NS Hf) as [x [Hx Hxok]].
      destruct (in_rls_ex x _ Hx) as [r [-> Hr]].
      assert (Hrle : CnLe f r).
      { intros f' Hle. apply (cn_mono f f' r Hle). apply IHs. exists h', (rl self :: stk). exact Hxok. }
      unfold eval_head in H. cbn [eval_atom] in H. unfold h_if_must in H.
      destruct (eval G C f d0 cnd c0) as [[| |ex] c2 evs2| |] eqn:E1; try discriminate H.
      destruct (eval G C f d0 m c2) as [[| |ex] c3 evs3| |] eqn:E2.
      + apply prepend_inv in H. destruct H as [e2 H]. inversion H; subst c3.
        pose proof (ev_le (eval G C f) Hgood _ _ _ _ _ E1) as L1. pose proof (ev_le (eval G C f) Hgood _ _ _ _ _ E2) as L2.
        destruct Hr as [<-|Hr].
        * apply (Hrle f (le_n _)) in E1. lia.
        * assert (K : len c1 < len c2); [|lia].
          eapply (helper_cn f m Hcv); [exists r; split; [exact Hr | exact Hrle] | apply le_n | exact E2].
      + exfalso. eapply (helper_nofail f m Hcv); exact E2.
      + apply prepend_inv in H. destruct H as [e2 H]. discriminate H.
      + discriminate H.
      + discriminate H.
    - (* if_apply *)
      unfold eval_head in H. cbn [eval_atom] in H.
      destruct (nsubs nd) as [|r1 [|? ?]] eqn:Es; try discriminate H.
      apply (h_if_apply_ok_inv C) in H. destruct H as [d' [evs' H]].
      eapply (IHf k r1 self h0 subs0 h stk); eauto. }
  assert (Hplain : forall ak d0 c0 c1 e1,
            (if nenabled nd then match_hpp C ak (eval_head C (eval G C f) f tgt (nhead nd) (nsubs nd)) d0 tgt c0
             else eval_head C (eval G C f) f tgt (nhead nd) (nsubs nd) d0 c0) = Res Ok c1 e1 -> len c1 < len c0).
  { intros ak d0 c0 c1 e1 H. destruct (nenabled nd); [apply match_hpp_ok_inv in H; destruct H as [d' [evs' H]]|]; eapply Hbody; eauto. }
  destruct (acts C (dAct d) tgt) as [| | |m]; try (eapply Hplain; exact He).
  eapply action_match_cons; [| | exact He].
  - intros d0 c0 c1 e1 H. cbv beta in H. eapply (Hplain AKNone); exact H.
  - intros d0 c0 c1 e1 H. eapply (IHf k tgt self h0 subs0 h stk); eauto.
Qed.

Theorem cons_sound : forall f r, cons_ok r -> Cn (eval G C f) r.
Proof.
  intros f r [h1 [stk1 Hr]]. destruct (eff G (eff_fuel G) r) as [[h1' subs1]|] eqn:E.
  - eapply (cons_chain f (eff_fuel G) r r h1' subs1 h1 stk1 E); [eapply ent_main_eff; eauto | intros j; eapply ent_syn_eff; eauto | exact Hr].
  - exfalso. apply okh_inv in Hr. destruct Hr as [h2 [a [_ [_ [Hf _]]]]]. rewrite (ent_bad_eff G r E) in Hf.
    cbn [e_bad e_seq ekind esubs] in Hf. eapply okfh_bad; exact Hf.
Qed.
End Cons.
