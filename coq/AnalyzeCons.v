(* AnalyzeCons.v — C11 stage B, part 1 (continued): cons_sound.
   A rule that the analysis visits without a problem and answers "consumes" for strictly shortens the input whenever
   it succeeds in Engine.eval — for every fuel, configuration, mode and cursor. *)
From Coq Require Import Lia.
From PegtlV Require Import Base Decode Grammar Engine EngineFacts AtomFacts Mono Analyze AnalyzeFacts AnalyzeSound.

Lemma rl_inj a b : rl a = rl b -> a = b.
Proof. unfold rl. intros H. inversion H. reflexivity. Qed.
Lemma in_rls r rs : In (rl r) (rls rs) -> In r rs.
Proof. unfold rls. intros H. apply in_map_iff in H. destruct H as [x [E Hx]]. apply rl_inj in E. subst. exact Hx. Qed.
Lemma in_rls_ex x rs : In x (rls rs) -> exists r, x = rl r /\ In r rs.
Proof. unfold rls. intros H. apply in_map_iff in H. destruct H as [r [E Hr]]. exists r. auto. Qed.

Section Inversions.
Variable ent : aid -> entry.

Lemma okh_inv h stk n b : okh ent h stk n b ->
  exists h' a, h = S h' /\ ~ In n stk /\ okfh ent h' (n :: stk) (ekind (ent n)) (esubs (ent n)) a /\
               b = match ekind (ent n) with KAny => true | KOpt => false | _ => a end.
Proof. intros H. destruct H. eauto 10. Qed.

Lemma okh_kind_true h stk x : okh ent h stk x true -> ekind (ent x) <> KOpt.
Proof. intros H. apply okh_inv in H. destruct H as [h' [a [_ [_ [_ E]]]]]. intros K. rewrite K in E. discriminate. Qed.

Lemma okfh_true_elem h stk t subs : t <> KSor -> okfh ent h stk t subs true -> exists x, In x subs /\ okh ent h stk x true.
Proof.
  intros Ht H. destruct (okfh_seq_struct ent h stk t Ht subs true H) as [[E _]|[_ [pre [r [post [E [_ Hr]]]]]]]; [discriminate|].
  exists r. split; [rewrite E; apply in_or_app; right; left; reflexivity | exact Hr].
Qed.

Lemma okfh_bad h stk x t a : okfh ent h (x :: stk) t [x] a -> False.
Proof.
  intros H. assert (K : exists b, okh ent h (x :: stk) x b).
  { inversion H; subst; eauto. }
  destruct K as [b K]. apply okh_inv in K. destruct K as [h' [a' [_ [N _]]]]. apply N. left. reflexivity.
Qed.
End Inversions.

Section Cons.
Variable G : grammar.
Variable C : cfg.
Hypothesis Hwf : table_wf G.
Hypothesis Hcov : heads_covered G = true.
Notation ent := (aentry G).

Definition cons_ok (r : rid) : Prop := exists h stk, okh ent h stk (rl r) true.

Section Head.
Variable ev : dyn -> rid -> cursor -> result.
Hypothesis Hgood : forall d r c, goodT (dM d) c (ev d r c).
Hypothesis IH : forall r, cons_ok r -> Cn ev r.

Lemma cn_of h stk r : okh ent h stk (rl r) true -> Cn ev r.
Proof. intros H. apply IH. exists h, stk. exact H. Qed.

(* one element of rls rs is answered "consumes" *)
Lemma true_elem_cn h stk t rs : t <> KSor -> okfh ent h stk t (rls rs) true -> exists r, In r rs /\ Cn ev r.
Proof.
  intros Ht H. destruct (okfh_true_elem ent h stk t _ Ht H) as [x [Hx Hok]].
  destruct (in_rls_ex x rs Hx) as [r [-> Hr]]. exists r. split; [exact Hr | eapply cn_of; eauto].
Qed.
Lemma single_cn h stk t r : t <> KSor -> okfh ent h stk t [rl r] true -> Cn ev r.
Proof.
  intros Ht H. destruct (true_elem_cn h stk t [r] Ht H) as [r0 [[<-|[]] Hc]]. exact Hc.
Qed.

Lemma cons_head n self nd h stk d c c' evs :
  nth_error G self = Some nd -> okh ent h stk (rl self) true ->
  eval_head C ev n self (nhead nd) (nsubs nd) d c = Res Ok c' evs -> len c' < len c.
Proof.
  intros Hn Hok He.
  apply okh_inv in Hok. destruct Hok as [h' [a [_ [Hnin [Hf Eb]]]]]. symmetry in Eb.
  pose proof (ent_syn G Hcov self nd) as Esyn.
  rewrite (ent_main G Hcov self nd Hn) in Hf, Eb.
  pose proof (Hwf self nd Hn) as Hw.
  pose proof (covered_node G Hcov self nd Hn) as Hc.
  assert (NS : KSeq <> KSor) by discriminate.
  unfold eval_head in He.
  destruct (eval_atom (ceol C) (nhead nd) c) as [x|] eqn:Ea.
  { subst x. eapply atom_cons with (G := G) (self := self) (subs := nsubs nd); eauto.
    destruct (ekind (main_entry G self (nhead nd) (nsubs nd))) eqn:Ek; try reflexivity; try discriminate Eb;
      destruct (nhead nd); cbn [eval_atom] in Ea; try discriminate Ea; cbn in Ek; try discriminate Ek;
      match type of Ek with context[if ?b then _ else _] => destruct b; cbn in Ek; discriminate Ek
                          | context[match ?n with O => _ | S _ => _ end] => destruct n; cbn in Ek; discriminate Ek end. }
  destruct (nhead nd) eqn:Eh; cbn [eval_atom] in Ea; try discriminate Ea; try (destruct pk; discriminate Ea); try discriminate Hc; clear Ea.
  - (* seq *)
    destruct (nsubs nd) as [|s0 ss] eqn:Es; [cbn in Eb; discriminate Eb|].
    cbn in Eb. subst a. cbn [main_entry t_seq rls map e_seq ekind esubs] in Hf.
    destruct (true_elem_cn h' _ KSeq (s0 :: ss) NS Hf) as [r [Hr Hcn]].
    apply (h_seq_ok_inv ev) in He. destruct He as [d' [evs' He]].
    eapply (seq_all_cons ev Hgood); [exists r; split; eauto | exact He].
  - (* sor *)
    destruct (nsubs nd) as [|s0 ss] eqn:Es; [discriminate He|].
    cbn in Eb. subst a. cbn [main_entry rls map e_sor ekind esubs] in Hf.
    eapply (sor_any_cons ev Hgood); [|exact He].
    intros r Hr. destruct (okfh_sor_all ent h' _ _ _ Hf (rl r)) as [b [Hb Hi]].
    { change (rl s0 :: map rl ss) with (rls (s0 :: ss)). unfold rls. apply in_map. exact Hr. }
    rewrite (Hi eq_refl) in Hb. eapply cn_of; eauto.
  - (* star_partial *) destruct (nsubs nd); cbn in Eb; discriminate Eb.
  - (* plus *)
    destruct (nsubs nd) as [|r1 [|r2 rs]] eqn:Es; try discriminate He.
    cbn in Eb. subst a. cbn [main_entry rls map app e_seq ekind esubs] in Hf.
    eapply (h_plus_cons ev Hgood); [|exact He].
    inversion Hf as [| ? ? ? ? ? Ht Hr1 | ? ? ? ? ? ? Ht Hr1 Hrest | |]; subst; [eapply cn_of; eauto|].
    exfalso. destruct (okfh_true_elem ent h' _ KSeq _ NS Hrest) as [x [[<-|[]] Hx]].
    apply okh_kind_true in Hx. apply Hx. unfold sy. rewrite (Esyn 0 Hn). reflexivity.
  - (* partial *) cbn in Eb; discriminate Eb.
  - (* at *) cbn in Eb; discriminate Eb.
  - (* not_at *) cbn in Eb; discriminate Eb.
  - (* until2 *)
    destruct (nsubs nd) as [|cnd [|r1 [|r2 rs]]] eqn:Es; try discriminate He.
    cbn in Eb. subst a. cbn [main_entry e_seq ekind esubs] in Hf.
    unfold h_until2 in He. apply guard_ok_inv in He.
    eapply (until2_cons ev Hgood); [|exact He].
    inversion Hf as [| ? ? ? ? ? Ht Hr1 | ? ? ? ? ? ? Ht Hr1 Hrest | |]; subst.
    + exfalso. apply okh_kind_true in Hr1. apply Hr1. unfold sy. rewrite (Esyn 0 Hn). reflexivity.
    + eapply single_cn; [exact NS | exact Hrest].
  - (* rep *)
    destruct (nsubs nd) as [|r1 [|r2 rs]] eqn:Es; try discriminate He.
    destruct n0 as [|k]; [cbn in Eb; discriminate Eb|].
    cbn in Eb. subst a. cbn [main_entry t_seq rls map e_seq ekind esubs] in Hf.
    unfold h_rep in He. apply guard_ok_inv in He.
    eapply (rep_loop_cons ev Hgood k (opt_ d) r1); [eapply single_cn; [exact NS | exact Hf] | reflexivity | exact He].
  - (* rep_min_max *)
    destruct (nsubs nd) as [|r1 [|r2 rs]] eqn:Es; try discriminate He.
    destruct mn as [|k]; [cbn in Eb; discriminate Eb|].
    cbn in Eb. subst a. cbn [main_entry t_seq rls map e_seq ekind esubs] in Hf.
    eapply (h_rep_min_max_cons ev Hgood); [eapply single_cn; [exact NS | exact Hf] | exact He].
  - (* rep_opt *) cbn in Eb; discriminate Eb.
  - (* if_then_else *)
    destruct (nsubs nd) as [|cnd [|t [|e [|? ?]]]] eqn:Es; try discriminate He.
    cbn in Eb. subst a. cbn [main_entry e_sor ekind esubs] in Hf.
    destruct (okfh_sor_all ent h' _ _ _ Hf (sy self 1)) as [b1 [Hb1 Hi1]]; [left; reflexivity|].
    destruct (okfh_sor_all ent h' _ _ _ Hf (rl e)) as [b2 [Hb2 Hi2]]; [right; left; reflexivity|].
    rewrite (Hi1 eq_refl) in Hb1. rewrite (Hi2 eq_refl) in Hb2.
    eapply (h_if_then_else_cons ev Hgood); [| eapply cn_of; exact Hb2 | exact He].
    apply okh_inv in Hb1. destruct Hb1 as [h2 [a2 [_ [Hnin2 [Hf2 Fb]]]]]. symmetry in Fb.
    unfold sy in Hf2, Fb. rewrite (Esyn 0 Hn) in Hf2, Fb. cbn in Fb. subst a2.
    cbn [syn_entry e_seq ekind esubs] in Hf2.
    destruct (true_elem_cn h2 _ KSeq [cnd; t] NS Hf2) as [r [[<-|[<-|[]]] Hcn]]; [left | right]; exact Hcn.
  - (* must *)
    destruct (nsubs nd) as [|r1 [|r2 rs]] eqn:Es; try discriminate He.
    cbn in Eb. subst a. cbn [main_entry t_seq rls map e_seq ekind esubs] in Hf.
    apply (h_must_ok_inv ev) in He. eapply single_cn; [exact NS | exact Hf | exact He].
  - (* raise *)
    destruct (nsubs nd) as [|r1 [|r2 rs]] eqn:Es; discriminate He.
  - (* strict *) exfalso. cbn [main_entry e_bad e_seq ekind esubs] in Hf. eapply okfh_bad; exact Hf.
  - (* star_strict *) exfalso. cbn [main_entry e_bad e_seq ekind esubs] in Hf. eapply okfh_bad; exact Hf.
  - (* rematch *)
    destruct (nsubs nd) as [|hd rs] eqn:Es; [discriminate He|].
    cbn in Eb. subst a. cbn [main_entry e_sor ekind esubs] in Hf.
    destruct (okfh_sor_all ent h' _ _ _ Hf (rl hd)) as [b1 [Hb1 Hi1]]; [left; reflexivity|].
    rewrite (Hi1 eq_refl) in Hb1.
    eapply (h_rematch_cons ev); [eapply cn_of; exact Hb1 | exact He].
  - (* try_catch_return_false *)
    destruct (nsubs nd) as [|r1 [|r2 rs]] eqn:Es; try discriminate He.
    cbn in Eb. subst a. cbn [main_entry t_seq rls map e_seq ekind esubs] in Hf.
    apply (h_try_false_ok_inv ev) in He. eapply single_cn; [exact NS | exact Hf | exact He].
  - (* try_catch_raise_nested *)
    destruct (nsubs nd) as [|r1 [|r2 rs]] eqn:Es; try discriminate He.
    cbn in Eb. subst a. cbn [main_entry t_seq rls map e_seq ekind esubs] in Hf.
    apply (h_try_nested_ok_inv ev) in He. eapply single_cn; [exact NS | exact Hf | exact He].
  - (* state *)
    destruct (nsubs nd) as [|r1 [|r2 rs]] eqn:Es; try discriminate He.
    cbn in Eb. subst a. cbn [main_entry t_seq rls map e_seq ekind esubs] in Hf.
    apply st_scope_ok_inv in He. destruct He as [e' He]. eapply single_cn; [exact NS | exact Hf | exact He].
  - (* action *)
    destruct (nsubs nd) as [|r1 [|r2 rs]] eqn:Es; try discriminate He.
    cbn in Eb. subst a. cbn [main_entry t_seq rls map e_seq ekind esubs] in Hf.
    eapply single_cn; [exact NS | exact Hf | exact He].
  - (* control *)
    destruct (nsubs nd) as [|r1 [|r2 rs]] eqn:Es; try discriminate He.
    cbn in Eb. subst a. cbn [main_entry t_seq rls map e_seq ekind esubs] in Hf.
    eapply single_cn; [exact NS | exact Hf | exact He].
  - (* enable *)
    destruct (nsubs nd) as [|r1 [|r2 rs]] eqn:Es; try discriminate He.
    cbn in Eb. subst a. cbn [main_entry t_seq rls map e_seq ekind esubs] in Hf.
    eapply single_cn; [exact NS | exact Hf | exact He].
  - (* disable *)
    destruct (nsubs nd) as [|r1 [|r2 rs]] eqn:Es; try discriminate He.
    cbn in Eb. subst a. cbn [main_entry t_seq rls map e_seq ekind esubs] in Hf.
    eapply single_cn; [exact NS | exact Hf | exact He].
  - (* apply *) cbn in Eb; discriminate Eb.
  - (* apply0 *) cbn in Eb; discriminate Eb.
Qed.
End Head.

Lemma match_hpp_ok_inv ak body d r c c' evs : match_hpp C ak body d r c = Res Ok c' evs -> exists d' evs', body d' c = Res Ok c' evs'.
Proof.
  unfold match_hpp. destruct (body (if use_guard d ak then opt_ d else d) c) as [[| |ex] c1 evs1| |] eqn:E; intros H; try discriminate.
  - destruct (run_action C d ak r (cpos c) (cpos c1)) as [[[|]|t] ea].
    + inversion H; subst. eauto.
    + unfold fail_hook in H. destruct (raise_on_failure C (dCtl d) r); discriminate.
    + discriminate.
  - unfold fail_hook in H. destruct (raise_on_failure C (dCtl d) r); discriminate.
Qed.

Lemma window_len n (c c1 : cursor) : len c1 < length (firstn n (rest c)) ->
  len (mkcur (rest c1 ++ skipn n (rest c)) (cpos c1)) < len c.
Proof.
  intros H. unfold len in *. simpl. rewrite app_length.
  assert (E : length (firstn n (rest c)) + length (skipn n (rest c)) = length (rest c)).
  { rewrite <- app_length, firstn_skipn. reflexivity. }
  lia.
Qed.

Lemma action_match_cons ev plain enabled m d r c c' evs :
  (forall d0 c0 c1 e1, plain d0 c0 = Res Ok c1 e1 -> len c1 < len c0) ->
  (forall d0 c0 c1 e1, ev d0 r c0 = Res Ok c1 e1 -> len c1 < len c0) ->
  action_match ev plain enabled m d r c = Res Ok c' evs -> len c' < len c.
Proof.
  intros Hp Hev. destruct m; simpl; intros H.
  - eapply Hev; eauto.
  - apply st_scope_ok_inv in H. destruct H as [e' H]. eapply Hp; eauto.
  - apply st_scope_ok_inv in H. destruct H as [e' H]. eapply Hev; eauto.
  - eapply Hp; eauto.
  - eapply Hp; eauto.
  - eapply Hp; eauto.
  - destruct enabled; [|eapply Hp; eauto]. destruct (n <? S (dDepth d))%nat; [discriminate | eapply Hp; eauto].
  - destruct (plain d (mkcur (firstn n (rest c)) (cpos c))) as [[| |ex] c1 evs1| |] eqn:E; try discriminate.
    apply Hp in E. change (len (mkcur (firstn n (rest c)) (cpos c))) with (length (firstn n (rest c))) in E.
    destruct (in_empty c1 && negb (is_nil (skipn n (rest c)))); [discriminate|].
    inversion H; subst. apply window_len. exact E.
  - destruct (plain d c) as [[| |ex] c1 evs1| |] eqn:E; try discriminate.
    destruct (n <? length (rest c) - length (rest c1))%nat; [discriminate|]. inversion H; subst. eapply Hp; eauto.
Qed.

Theorem cons_sound : forall f r, cons_ok r -> Cn (eval G C f) r.
Proof.
  induction f as [|f IHf]; intros r Hok d c c' evs He; [discriminate|].
  simpl in He.
  destruct (nth_error G r) as [nd|] eqn:En; [|discriminate].
  apply traced_inv in He. destruct He as [e' He].
  destruct Hok as [h [stk Hok]].
  assert (Hgood : forall d r c, goodT (dM d) c (eval G C f d r c)) by (intros; apply eval_goodT; exact Hwf).
  assert (Hbody : forall n d0 c0 c1 e1, eval_head C (eval G C f) n r (nhead nd) (nsubs nd) d0 c0 = Res Ok c1 e1 -> len c1 < len c0).
  { intros n d0 c0 c1 e1 H. eapply (cons_head (eval G C f) Hgood IHf); eauto. }
  assert (Hplain : forall ak d0 c0 c1 e1,
            (if nenabled nd then match_hpp C ak (eval_head C (eval G C f) f r (nhead nd) (nsubs nd)) d0 r c0
             else eval_head C (eval G C f) f r (nhead nd) (nsubs nd) d0 c0) = Res Ok c1 e1 -> len c1 < len c0).
  { intros ak d0 c0 c1 e1 H. destruct (nenabled nd); [apply match_hpp_ok_inv in H; destruct H as [d' [evs' H]]|]; eapply Hbody; eauto. }
  destruct (acts C (dAct d) r) as [| | |m]; try (eapply Hplain; exact He).
  eapply action_match_cons; [| | exact He].
  - intros d0 c0 c1 e1 H. cbv beta in H. eapply (Hplain AKNone); exact H.
  - intros d0 c0 c1 e1 H. eapply IHf; [exists h, stk; exact Hok | exact H].
Qed.
End Cons.
