(* UriCompleteF.v — C20: soundness of ccf (UriCert2.v), the certificate of UriComplete.v with the faster quotient
   check quot2 in place of quot_auto.  Same fragment, same conditions, same statement as UriComplete.cc_sound; the
   proof is the proof of cc_sound over the per-combinator lemmas of UriComplete.v. *)
From Coq Require Import List NArith ZArith Bool Lia.
From PegtlV Require Import Base Decode Grammar Engine EngineFacts AtomFacts Mono Spec ExactSound Integer IntegerSpec.
From PegtlV Require IntegerFacts.
From PegtlV Require Import Regex RegexIncl RegexQuot Rfc3986 UriModel UriProof UriComplete UriCert2 UriComplete2H.
Import ListNotations.
Local Open Scope N_scope.

Section CompleteF.
Variable G : grammar.
Variable MX : rid -> option (nat * N).
Hypothesis HG : table_wf G.

Section Step.
Variable n : nat.
Let ev := evalx G C0 MX n.
Hypothesis IH : forall r K R nf, ccf G MX n r K = true -> re_of G MX n r = Some (R, nf) -> Tot G MX n r /\ CmpR G MX n r R K /\ FolOK G MX n r.

Lemma ccf_seq_ok K : forall rs l, subs_re (re_of G MX n) rs = Some l -> cc_seq (ccf G MX n) (re_of G MX n) rs K = true ->
  SeqOK ev rs (map fst l) K /\ Forall (TotE ev) rs.
Proof.
  induction rs as [|r rs IHrs]; intros l Hs Hc; simpl in Hs.
  - inversion Hs; subst. simpl. split; [exact I | constructor].
  - destruct (re_of G MX n r) as [[R nf]|] eqn:Er; [|discriminate].
    destruct (subs_re (re_of G MX n) rs) as [l'|] eqn:El; [|discriminate]. inversion Hs; subst. clear Hs.
    cbn [cc_seq] in Hc. rewrite El in Hc. apply andb_true_iff in Hc. destruct Hc as [C1 C2].
    destruct (IH r _ R nf C1 Er) as [T1 [P1 _]]. destruct (IHrs l' eq_refl C2) as [S2 T2].
    split; [simpl; split; [exact P1 | exact S2] | constructor; [exact T1 | exact T2]].
Qed.

Lemma ccf_sor_ok K : forall rs l, subs_re (re_of G MX n) rs = Some l -> ccf_sor (ccf G MX n) (re_of G MX n) (nfol G MX n) rs K = true ->
  SorOK ev rs (map fst l) K /\ Forall (TotE ev) rs.
Proof.
  induction rs as [|r rs IHrs]; intros l Hs Hc; simpl in Hs.
  - inversion Hs; subst. simpl. split; [exact I | constructor].
  - destruct (re_of G MX n r) as [[R nf]|] eqn:Er; [|discriminate].
    destruct (subs_re (re_of G MX n) rs) as [l'|] eqn:El; [|discriminate]. inversion Hs; subst. clear Hs.
    cbn [ccf_sor] in Hc. rewrite Er, El in Hc. rewrite !andb_true_iff in Hc. destruct Hc as [[C1 Q1] C2].
    destruct (IH r _ R nf C1 Er) as [T1 [P1 F1]]. destruct (IHrs l' eq_refl C2) as [S2 T2].
    split; [|constructor; [exact T1 | exact T2]].
    simpl. split; [exact P1|]. split; [exact T1|]. split; [eapply (sound_sub G MX HG); eauto|]. split; [|exact S2].
    exists (nf_pred (nfol G MX n r)). split; [exact F1|]. apply (quotf_sem (nfol G MX n r)). exact Q1.
Qed.

Lemma ccf_rep_ok r R nf K : re_of G MX n r = Some (R, nf) -> forall k, cc_rep (ccf G MX n) r R k K = true -> RepOK ev r R k K.
Proof.
  intros Er. induction k as [|k IHk]; intros Hc; simpl; [exact I|].
  cbn [cc_rep] in Hc. apply andb_true_iff in Hc. destruct Hc as [C1 C2].
  split; [exact (proj1 (proj2 (IH r _ R nf C1 Er))) | apply IHk; exact C2].
Qed.
Lemma ccf_repopt_ok o r R nf K : re_of G MX n r = Some (R, nf) -> forall k, ccf_repopt (ccf G MX n) o r R k K = true -> RepOptOK ev r R (nf_pred o) k K.
Proof.
  intros Er. induction k as [|k IHk]; intros Hc; simpl; [exact I|].
  cbn [ccf_repopt] in Hc. rewrite !andb_true_iff in Hc. destruct Hc as [[C1 Q1] C2].
  split; [exact (proj1 (proj2 (IH r _ R nf C1 Er)))|]. split; [apply (quotf_sem o); exact Q1 | apply IHk; exact C2].
Qed.
End Step.

Lemma ccf_seq_last n K : forall rs l rl, subs_re (re_of G MX n) rs = Some l -> cc_seq (ccf G MX n) (re_of G MX n) rs K = true ->
  lastopt rs = Some rl -> exists Kl Rl nfl, ccf G MX n rl Kl = true /\ re_of G MX n rl = Some (Rl, nfl).
Proof.
  induction rs as [|a rs0 IHr]; intros l rl El Hc Elast; [discriminate|].
  simpl in El. destruct (re_of G MX n a) as [[Ra nfa]|] eqn:Era; [|discriminate].
  destruct (subs_re (re_of G MX n) rs0) as [l'|] eqn:El'; [|discriminate].
  cbn [cc_seq] in Hc. rewrite El' in Hc. apply andb_true_iff in Hc. destruct Hc as [C1 C2].
  destruct rs0 as [|b rs1].
  - simpl in Elast. inversion Elast; subst. eauto.
  - apply (IHr l' rl eq_refl C2). exact Elast.
Qed.

Theorem ccf_sound : forall n r K R nf, ccf G MX n r K = true -> re_of G MX n r = Some (R, nf) -> Tot G MX n r /\ CmpR G MX n r R K /\ FolOK G MX n r.
Proof.
  induction n as [|n IH]; intros r K R nf Hc Hr; [discriminate|].
  cbn [ccf re_of] in Hc, Hr. destruct (nth_error G r) as [nd|] eqn:En; [|discriminate].
  assert (Split : (Tot G MX (S n) r /\ CmpR G MX (S n) r R K) -> FolOK G MX (S n) r -> Tot G MX (S n) r /\ CmpR G MX (S n) r R K /\ FolOK G MX (S n) r) by tauto.
  unfold re_step in Hr. destruct (MX r) as [[w mx]|] eqn:Em.
  - (* maximum_rule leaf *)
    rewrite !andb_true_iff in Hc. destruct Hc as [[E1 E2] Hn]. apply Nat.eqb_eq in E1. apply N.eqb_eq in E2. subst w mx.
    simpl in Hr. inversion Hr; subst R nf.
    apply Split.
    + unfold Tot, CmpR. setoid_rewrite (fun d c => ov_node G MX n d r c nd En). rewrite Em.
      split; intros d c Hb; [apply (proj1 (mx_cmp c K Hb (noprefix_sound _ _ Hn))) | apply (proj2 (mx_cmp c K Hb (noprefix_sound _ _ Hn)))].
    + intros d c c' evs Hb H. destruct (node_ok G MX n d r c nd c' evs En H) as [e2 H2]. rewrite Em in H2.
      cbn [nfol]. rewrite En, Em. simpl. eapply mx_fol; eauto.
  - destruct (atom_re (nhead nd)) as [[y|]|] eqn:Ea.
    + (* atoms *)
      inversion Hr; subst y.
      assert (Heof : nhead nd = HEof -> forall k, bytes_ok k -> matches K k -> k = []).
      { intros Eh k Hk Mk. rewrite Eh in Hc. pose proof (incl_auto_sound CF K Eps Hc k Hk Mk) as Me. apply eps_inv in Me. exact Me. }
      assert (Q : forall d c, bytes_ok (rest c) ->
                 (exists v, ov (eval_head C0 (evalx G C0 MX n) n r (nhead nd) (nsubs nd) d c) = Some v) /\
                 (matches (Cat R K) (rest c) -> exists c', ov (eval_head C0 (evalx G C0 MX n) n r (nhead nd) (nsubs nd) d c) = Some (Some c') /\ matches K (rest c'))).
      { intros d c Hb. destruct (atom_is_atom (nhead nd) (ceol C0) c (R, nf) Ea) as [x Hx].
        unfold eval_head. rewrite Hx. eapply atom_cmp; eauto. }
      apply Split.
      * unfold Tot, CmpR. setoid_rewrite (fun d c => ov_node G MX n d r c nd En). rewrite Em.
        split; intros d c Hb; [apply (proj1 (Q d c Hb)) | apply (proj2 (Q d c Hb))].
      * intros d c c' evs Hb H. cbn [nfol]. rewrite En, Em.
        destruct (nhead nd); cbn [atom_re] in Ea; try discriminate; try exact I; try (destruct found; discriminate).
    + discriminate.
    + (* combinators *)
      pose proof (Hgd G MX HG n) as Hgood.
      assert (IH' : forall r0 K0 R0 nf0, ccf G MX n r0 K0 = true -> re_of G MX n r0 = Some (R0, nf0) -> Tot G MX n r0 /\ CmpR G MX n r0 R0 K0) by (intros; edestruct IH as [A [B _]]; eauto).
      destruct (nhead nd) eqn:Eh; cbn [atom_re] in Ea; try discriminate; try (destruct found; discriminate); try discriminate.
      * (* seq *)
        destruct (subs_re (re_of G MX n) (nsubs nd)) as [l|] eqn:El; [|discriminate]. simpl in Hr. inversion Hr; subst R nf.
        destruct (ccf_seq_ok n IH K (nsubs nd) l El Hc) as [S1 T1].
        assert (Q : forall d c, ov (h_seq (evalx G C0 MX n) d (nsubs nd) c) = ov (seq_all (evalx G C0 MX n) (match nsubs nd with [_] => d | _ => opt_ d end) (nsubs nd) c)).
        { intros d c. unfold h_seq. destruct (nsubs nd) as [|r1 [|r2 rs]]; [apply ov_guard | symmetry; apply ov_seq1 | apply ov_guard]. }
        apply Split.
        -- unfold Tot, CmpR. setoid_rewrite (fun d c => ov_node G MX n d r c nd En). rewrite Em. unfold eval_head. rewrite Eh. cbn [eval_atom].
           split; intros d c Hb; rewrite Q.
           ++ apply (seq_all_tot (evalx G C0 MX n) Hgood); assumption.
           ++ intros M. apply (seq_all_cmp (evalx G C0 MX n) Hgood _ (nsubs nd) (map fst l) K S1 c Hb).
              eapply cat_cong; [|exact M]. intros w0. apply cat_list_iff.
        -- intros d c c' evs Hb H. destruct (node_ok G MX n d r c nd c' evs En H) as [e2 H2]. rewrite Em in H2.
           cbn [nfol]. rewrite En, Em, Eh.
           destruct (nsubs nd) as [|r1 [|r2 rs]] eqn:Ens; try exact I.
           destruct (lastopt (r1 :: r2 :: rs)) as [rl|] eqn:Elast; [|exact I].
           unfold eval_head in H2. rewrite Eh in H2. cbn [eval_atom] in H2. unfold h_seq in H2. apply guard_ok in H2.
           destruct (seq_all_last (evalx G C0 MX n) Hgood (opt_ d) (r1 :: r2 :: rs) c c' e2 rl H2 Hb Elast) as [cp [e3 [H3 Hbp]]].
           (* the last sub-rule has a certificate: it occurs in the list checked by cc_seq *)
           pose proof (ccf_seq_last n K _ l rl El Hc Elast) as Hin.
           destruct Hin as [Kl [Rl [nfl [Cl Rel]]]]. destruct (IH rl Kl Rl nfl Cl Rel) as [_ [_ Fl]].
           exact (Fl (opt_ d) cp c' e3 Hbp H3).
      * (* sor *)
        destruct (subs_re (re_of G MX n) (nsubs nd)) as [l|] eqn:El; [|discriminate]. simpl in Hr. inversion Hr; subst R nf.
        destruct (ccf_sor_ok n IH K (nsubs nd) l El Hc) as [S1 T1].
        apply Split.
        -- unfold Tot, CmpR. setoid_rewrite (fun d c => ov_node G MX n d r c nd En). rewrite Em. unfold eval_head. rewrite Eh. cbn [eval_atom].
           split; intros d c Hb.
           ++ apply (sor_any_tot (evalx G C0 MX n) Hgood); assumption.
           ++ intros M. apply (sor_any_cmp (evalx G C0 MX n) Hgood d (nsubs nd) (map fst l) K S1 c Hb).
              eapply cat_cong; [|exact M]. intros w0. apply alt_list_iff.
        -- intros d c c' evs Hb H. cbn [nfol]. rewrite En, Em, Eh. exact I.
      * (* partial *)
        destruct (nsubs nd) as [|r1 [|? ?]] eqn:Ens; try discriminate.
        destruct (re_of G MX n r1) as [[R1 nf1]|] eqn:E1; [|discriminate]. simpl in Hr. inversion Hr; subst R nf.
        apply andb_true_iff in Hc. destruct Hc as [C1 Q1]. destruct (IH r1 K R1 nf1 C1 E1) as [T1 [P1 F1]].
        apply Split.
        -- unfold Tot, CmpR. setoid_rewrite (fun d c => ov_node G MX n d r c nd En). rewrite Em. unfold eval_head. rewrite Eh, Ens. cbn [eval_atom].
           split; intros d c Hb.
           ++ apply h_partial_tot; assumption.
           ++ intros M. apply (h_partial_cmp (evalx G C0 MX n) Hgood d r1 R1 K c (nf_pred (nfol G MX n r1)) P1 T1 (sound_sub G MX HG n r1 R1 nf1 E1) F1 (quotf_sem _ _ _ _ Q1) Hb M).
        -- intros d c c' evs Hb H. cbn [nfol]. rewrite En, Em, Eh. exact I.
      * (* rep *)
        destruct n0 as [|k0]; [discriminate|].
        destruct (nsubs nd) as [|r1 [|? ?]] eqn:Ens; try discriminate.
        destruct (re_of G MX n r1) as [[R1 nf1]|] eqn:E1; [|discriminate]. simpl in Hr. inversion Hr; subst R nf.
        pose proof (ccf_rep_ok n IH r1 R1 nf1 K E1 _ Hc) as R1ok.
        assert (T1 : TotE (evalx G C0 MX n) r1).
        { cbn [cc_rep] in Hc. apply andb_true_iff in Hc. destruct Hc as [C1 _]. exact (proj1 (IH' r1 _ R1 nf1 C1 E1)). }
        apply Split.
        -- unfold Tot, CmpR. setoid_rewrite (fun d c => ov_node G MX n d r c nd En). rewrite Em. unfold eval_head. rewrite Eh, Ens. cbn [eval_atom].
           split; intros d c Hb; unfold h_rep; rewrite ov_guard.
           ++ apply (rep_loop_tot (evalx G C0 MX n) Hgood); assumption.
           ++ intros M. apply (rep_loop_cmp (evalx G C0 MX n) Hgood (opt_ d) r1 R1 K _ R1ok c Hb M).
        -- intros d c c' evs Hb H. cbn [nfol]. rewrite En, Em, Eh. exact I.
      * (* rep_min_max *)
        destruct mn as [|mn0]; [discriminate|].
        destruct (nsubs nd) as [|r1 [|? ?]] eqn:Ens; try discriminate.
        destruct (re_of G MX n r1) as [[R1 nf1]|] eqn:E1; [|discriminate]. destruct R1; try discriminate.
        simpl in Hr. inversion Hr; subst R nf.
        rewrite !andb_true_iff in Hc. destruct Hc as [[[Hn Ca] C1] C2].
        pose proof (ccf_rep_ok n IH r1 (Chr cs) nf1 _ E1 _ C1) as Rok.
        pose proof (ccf_repopt_ok n IH None r1 (Chr cs) nf1 K E1 _ C2) as Ook.
        destruct (IH' r1 Any (Chr cs) nf1 Ca E1) as [T1 Pa].
        apply Split.
        -- unfold Tot, CmpR. setoid_rewrite (fun d c => ov_node G MX n d r c nd En). rewrite Em. unfold eval_head. rewrite Eh, Ens. cbn [eval_atom].
           split; intros d c Hb.
           ++ apply (h_rep_min_max_tot (evalx G C0 MX n) Hgood); assumption.
           ++ intros M. apply (h_rep_min_max_cmp (evalx G C0 MX n) Hgood (S mn0) mx d r1 cs K c T1 (sound_sub G MX HG n r1 (Chr cs) nf1 E1) (noprefix_sound _ _ Hn) Rok Ook Hb M).
        -- intros d c c' evs Hb H. destruct (node_ok G MX n d r c nd c' evs En H) as [e2 H2]. rewrite Em in H2.
           cbn [nfol]. rewrite En, Em, Eh, Ens, E1. simpl.
           unfold eval_head in H2. rewrite Eh, Ens in H2. cbn [eval_atom] in H2.
           eapply (h_rep_min_max_fol (evalx G C0 MX n) Hgood); eauto.
      * (* rep_opt *)
        destruct mx as [|k0]; [discriminate|].
        destruct (nsubs nd) as [|r1 [|? ?]] eqn:Ens; try discriminate.
        destruct (re_of G MX n r1) as [[R1 nf1]|] eqn:E1; [|discriminate]. simpl in Hr. inversion Hr; subst R nf.
        pose proof (ccf_repopt_ok n IH (nfol G MX n r1) r1 R1 nf1 K E1 _ Hc) as Ook.
        assert (TF : TotE (evalx G C0 MX n) r1 /\ UriComplete.FolE (evalx G C0 MX n) r1 (nf_pred (nfol G MX n r1))).
        { cbn [ccf_repopt] in Hc. rewrite !andb_true_iff in Hc. destruct Hc as [[C3 _] _]. destruct (IH r1 _ R1 nf1 C3 E1) as [A [_ B]]. split; assumption. }
        destruct TF as [T1 F1].
        apply Split.
        -- unfold Tot, CmpR. setoid_rewrite (fun d c => ov_node G MX n d r c nd En). rewrite Em. unfold eval_head. rewrite Eh, Ens. cbn [eval_atom].
           split; intros d c Hb; unfold h_rep_opt.
           ++ destruct (repopt_loop_tot (evalx G C0 MX n) Hgood d r1 T1 (S k0) c Hb) as [c' [evs [b [E2 _]]]]. rewrite E2. eexists; reflexivity.
           ++ intros M. destruct (repopt_loop_cmp (evalx G C0 MX n) Hgood d r1 R1 K (nf_pred (nfol G MX n r1)) T1 (sound_sub G MX HG n r1 R1 nf1 E1) F1 (S k0) Ook c Hb M) as [c' [evs [b [E2 [K2 _]]]]].
              rewrite E2. exists c'. split; [reflexivity | exact K2].
        -- intros d c c' evs Hb H. cbn [nfol]. rewrite En, Em, Eh. exact I.
Qed.
End CompleteF.
