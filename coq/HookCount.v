(* HookCount.v — coverage counters: on any log that the strict protocol checker accepts with the
   stack restored, start = success + failure + unwind for every (control family, rule). *)
From Coq Require Import Lia.
From PegtlV Require Import Base Decode Grammar Engine Hooks.

Section Count.
Variable raise_ok : rid -> who -> bool.
Variable post_raise : rid -> bool.
Variable k0 : nat.
Variable r0 : rid.

Fixpoint opens (st : list frame) : nat :=
  match st with
  | FHook k r :: tl => (if Nat.eqb k k0 && Nat.eqb r r0 then 1 else 0) + opens tl
  | _ :: tl => opens tl
  | [] => 0
  end.
Definition is_h (h : hook) (e : event) : bool :=
  match e with EHook h' k' r' _ => hook_eqb h h' && Nat.eqb k0 k' && Nat.eqb r0 r' | _ => false end.
Definition ds (e : event) : nat := if is_h HkStart e then 1 else 0.
Definition dc (e : event) : nat := (if is_h HkSuccess e then 1 else 0) + (if is_h HkFailure e then 1 else 0) + (if is_h HkUnwind e then 1 else 0).

Lemma eqb_sym2 a b c d : Nat.eqb a b && Nat.eqb c d = Nat.eqb b a && Nat.eqb d c.
Proof. rewrite (Nat.eqb_sym a b), (Nat.eqb_sym c d). reflexivity. Qed.

Lemma step_count st e st' : step true raise_ok post_raise st e = Some st' -> opens st' + dc e = opens st + ds e.
Proof.
  destruct e; simpl; intros H; try (inversion H; subst; unfold ds, dc; simpl; lia).
  - (* hooks *)
    destruct h.
    + destruct st as [|[r' [|] [cl|]|k' r'] tl]; try discriminate H.
      destruct (Nat.eqb r r') eqn:E; [|discriminate H]. inversion H; subst. unfold ds, dc, is_h. simpl.
      rewrite (eqb_sym2 ctl k0 r r0). lia.
    + destruct st as [|[r' [|] [cl|]|k' r'] tl]; try discriminate H.
      destruct tl as [|[r'' [|] [cl|]|k'' r''] tl]; try discriminate H.
      destruct (Nat.eqb ctl k' && Nat.eqb r r' && Nat.eqb r r'') eqn:E; [|discriminate H]. inversion H; subst.
      apply andb_true_iff in E. destruct E as [E E3]. apply andb_true_iff in E. destruct E as [E1 E2].
      apply Nat.eqb_eq in E1, E2. subst k' r'. unfold ds, dc, is_h. simpl. rewrite (eqb_sym2 ctl k0 r r0). lia.
    + destruct st as [|[r' [|] [cl|]|k' r'] tl]; try discriminate H.
      destruct tl as [|[r'' [|] [cl|]|k'' r''] tl]; try discriminate H.
      destruct (Nat.eqb ctl k' && Nat.eqb r r' && Nat.eqb r r'') eqn:E; [|discriminate H]. inversion H; subst.
      apply andb_true_iff in E. destruct E as [E E3]. apply andb_true_iff in E. destruct E as [E1 E2].
      apply Nat.eqb_eq in E1, E2. subst k' r'. unfold ds, dc, is_h. simpl. rewrite (eqb_sym2 ctl k0 r r0). lia.
    + destruct st as [|[r' [|] [cl|]|k' r'] tl]; try discriminate H.
      destruct tl as [|[r'' [|] [cl|]|k'' r''] tl]; try discriminate H.
      destruct (Nat.eqb ctl k' && Nat.eqb r r' && Nat.eqb r r'') eqn:E; [|discriminate H]. inversion H; subst.
      apply andb_true_iff in E. destruct E as [E E3]. apply andb_true_iff in E. destruct E as [E1 E2].
      apply Nat.eqb_eq in E1, E2. subst k' r'. unfold ds, dc, is_h. simpl. rewrite (eqb_sym2 ctl k0 r r0). lia.
  - (* raise *) destruct (top_rule st); [|discriminate H]. destruct (raise_ok r w); inversion H; subst. unfold ds, dc; simpl; lia.
  - (* apply *) destruct st as [|[?|k' r'] tl]; try discriminate H. destruct (Nat.eqb r r'); inversion H; subst. unfold ds, dc; simpl; lia.
  - (* apply0 *) destruct st as [|[?|k' r'] tl]; try discriminate H. destruct (Nat.eqb r r'); inversion H; subst. unfold ds, dc; simpl; lia.
  - (* exit *)
    destruct st as [|[r' started closed|k' r'] tl]; try discriminate H.
    + destruct (Nat.eqb r r' && _); inversion H; subst. unfold ds, dc; simpl; lia.
    + destruct tl as [|[r'' [|] [cl|]|k'' r''] tl]; try discriminate H.
      destruct o as [[|]|]; simpl in H; rewrite andb_false_r in H; discriminate H.
Qed.

Fixpoint sum (f : event -> nat) (evs : list event) : nat := match evs with [] => 0 | e :: tl => f e + sum f tl end.

Lemma run_count evs : forall st st', run true raise_ok post_raise st evs = Some st' -> opens st' + sum dc evs = opens st + sum ds evs.
Proof.
  induction evs as [|e evs IH]; intros st st' H; simpl in *; [inversion H; lia|].
  destruct (step true raise_ok post_raise st e) as [st1|] eqn:E; [|discriminate H].
  apply IH in H. apply step_count in E. lia.
Qed.

Lemma sum_count h evs : sum (fun e => if is_h h e then 1 else 0) evs = count_hook h k0 r0 evs.
Proof.
  unfold count_hook. induction evs as [|e evs IH]; simpl; [reflexivity|]. rewrite IH.
  destruct e; simpl; try reflexivity. destruct (hook_eqb h h0 && Nat.eqb k0 ctl && Nat.eqb r0 r); reflexivity.
Qed.
Lemma sum_add f g evs : sum (fun e => f e + g e) evs = sum f evs + sum g evs.
Proof. induction evs as [|e evs IH]; simpl; [reflexivity | rewrite IH; lia]. Qed.

Theorem coverage_counters evs st : run true raise_ok post_raise st evs = Some st ->
  count_hook HkStart k0 r0 evs = count_hook HkSuccess k0 r0 evs + count_hook HkFailure k0 r0 evs + count_hook HkUnwind k0 r0 evs.
Proof.
  intros H. apply run_count in H. unfold dc, ds in H. rewrite !sum_add, !sum_count in H. lia.
Qed.
End Count.
