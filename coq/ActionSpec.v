(* ActionSpec.v — specification side of C04 (actions), independent of how the engine computes:
     quiet        : an event list without action invocations
     arun         : the action protocol as an executable checker over event logs (stack machine over the
                    invocation trace EEnter/EExit, the hooks and the action events).  The same function,
                    mirrored in Python (lib/props_c04.py), is the oracle applied to the implementation's log.
     survivors    : transactional truncation of a log: the Action<Rule>::apply/apply0 invocations that
                    belong to invocations which returned true all the way up
     PegA/peg_acts: the PEG formalism with semantic actions, functional style: evaluating an expression
                    returns the rest of the input AND the list of (rule, begin, end) of the action-carrying
                    rules of the derivation; failing alternatives and look-ahead contribute nothing; a
                    vetoing action turns its rule into a failure.
   Model file: definitions only. *)
From PegtlV Require Import Base Decode Grammar Engine Spec Denote.
Local Open Scope N_scope.

(* ---------- action events ---------- *)
Definition is_act (e : event) : bool :=
  match e with EApply _ _ _ _ | EApply0 _ _ _ | EInline _ _ _ | EInline0 _ => true | _ => false end.
Definition quiet (evs : list event) : Prop := Forall (fun e => is_act e = false) evs.
Fixpoint quietb (evs : list event) : bool :=
  match evs with [] => true | e :: tl => negb (is_act e) && quietb tl end.

Definition pos_eqb (p q : pos) : bool := (pbyte p =? pbyte q) && (pline p =? pline q) && (pcol p =? pcol q).

(* ---------- the action protocol ---------- *)
Inductive istate := IFresh | IClosed | IVetoed.
Inductive aframe :=
| AInv (r : rid) (a : bool) (p0 : pos) (s : istate)          (* invocation of r entered with apply mode a at position p0 *)
| AHook (r : rid) (b : pos) (fired : option (pos * bool)).   (* between start( b ) and the closing hook; Some (e, v): the action
                                                                 of r ran with end e and v = "it returned false" *)
Section AMachine.
(* rules that switch actions back on for what is below them: enable< ... > nodes and rules with enable_action attached *)
Variable enabler : rid -> bool.
(* the bool-returning action of family fam attached to r returns false on ( begin, end ) *)
Variable vetoes : nat -> rid -> pos -> pos -> bool.

Fixpoint nearest (st : list aframe) : option (rid * bool * pos) :=
  match st with
  | [] => None
  | AInv r a p _ :: _ => Some (r, a, p)
  | AHook _ _ _ :: tl => nearest tl
  end.
(* are actions enabled for what the innermost invocation does itself / passes down? *)
Definition eff (st : list aframe) : bool :=
  match nearest st with Some (r, a, _) => a || enabler r | None => true end.

Definition is_true (o : option bool) : bool := match o with Some true => true | _ => false end.
Definition is_none (o : option bool) : bool := match o with None => true | _ => false end.

Definition astep (st : list aframe) (e : event) : option (list aframe) :=
  match e with
  | EEnter _ r a _ p =>
      (* apply_mode::action is only ever passed down from an invocation that has it (or that re-enables) *)
      if implb a (eff st) then Some (AInv r a p IFresh :: st) else None
  | EHook HkStart _ r p =>
      match st with
      | AInv r' a p0 IFresh :: tl => if Nat.eqb r r' then Some (AHook r p None :: AInv r' a p0 IFresh :: tl) else None
      | _ => None
      end
  | EHook h _ r p =>
      match st with
      | AHook r' b fired :: AInv r'' a p0 _ :: tl =>
          if Nat.eqb r r' && Nat.eqb r r'' then
            match fired, h with
            | None, _ => Some (AInv r'' a p0 IClosed :: tl)
            | Some (e, false), HkSuccess => if pos_eqb p e then Some (AInv r'' a p0 IClosed :: tl) else None
            | Some (e, true), HkFailure => if pos_eqb p e then Some (AInv r'' a p0 IVetoed :: tl) else None
            | _, _ => None      (* accepted action followed by failure/unwind, or vetoing action followed by success *)
            end
          else None
      | _ => None
      end
  | EApply fam r b e =>
      (* only for the innermost open attempt, after its body, once, while its invocation has apply_mode::action,
         and the action input begins where that attempt started *)
      match st with
      | AHook r' b0 None :: AInv r'' true p0 s :: tl =>
          if Nat.eqb r r' && Nat.eqb r r'' && pos_eqb b b0 then Some (AHook r' b0 (Some (e, vetoes fam r b e)) :: AInv r'' true p0 s :: tl) else None
      | _ => None
      end
  | EApply0 fam r e =>
      match st with
      | AHook r' b0 None :: AInv r'' true p0 s :: tl =>
          if Nat.eqb r r' && Nat.eqb r r'' then Some (AHook r' b0 (Some (e, vetoes fam r b0 e)) :: AInv r'' true p0 s :: tl) else None
      | _ => None
      end
  | EInline _ b _ =>
      match nearest st with
      | Some (r, a, p0) => if (a || enabler r) && pos_eqb b p0 then Some st else None
      | None => None
      end
  | EInline0 _ =>
      match nearest st with
      | Some (r, a, _) => if a || enabler r then Some st else None
      | None => None
      end
  | EExit _ r o p =>
      match st with
      | AInv r' _ p0 s :: tl =>
          if Nat.eqb r r' && match s with IVetoed => negb (is_true o) && pos_eqb p p0 | _ => true end
          then Some tl else None          (* vetoed: the invocation does not return true and the cursor is back at its start *)
      | AHook r' _ _ :: AInv r'' _ _ _ :: tl =>      (* left without closing hook: only by an exception *)
          if Nat.eqb r r' && Nat.eqb r r'' && is_none o then Some tl else None
      | _ => None
      end
  | _ => Some st
  end.

Fixpoint arun (st : list aframe) (evs : list event) : option (list aframe) :=
  match evs with
  | [] => Some st
  | e :: tl => match astep st e with Some st' => arun st' tl | None => None end
  end.
End AMachine.

Definition vetoes_of (C : cfg) (fam : nat) (r : rid) (b e : pos) : bool :=
  match acts C fam r with
  | AKApply true | AKApply0 true => match abeh C fam r b e with ARet false => true | _ => false end
  | _ => false
  end.
Definition enabler_ok (G : grammar) (C : cfg) (enabler : rid -> bool) : Prop :=
  (forall r nd, nth_error G r = Some nd -> nhead nd = HEnable -> enabler r = true) /\
  (forall fam r, acts C fam r = AKMatch MEnableAction -> enabler r = true).
Definition no_enable (G : grammar) (C : cfg) : Prop :=
  (forall r nd, nth_error G r = Some nd -> nhead nd <> HEnable) /\
  (forall fam r, acts C fam r <> AKMatch MEnableAction).

(* ---------- survivors: transactional truncation ---------- *)
(* the apply / apply0 invocations that belong to invocations which returned true all the way up to the root:
   an invocation that returns false or is left by an exception takes everything invoked below it with it.
   (Look-ahead needs no special case: that it contributes nothing is a CONSEQUENCE, see C04_survivors_exact.) *)
Definition sact := (rid * bool * pos * pos)%type.       (* rule, apply (true) / apply0 (false), begin, end *)
Fixpoint surv (stk : list (list sact)) (cur : list sact) (evs : list event) : list sact :=
  match evs with
  | [] => cur
  | EEnter _ _ _ _ _ :: tl => surv (cur :: stk) [] tl
  | EExit _ r o _ :: tl =>
      match stk with
      | parent :: stk' => surv stk' (if is_true o then parent ++ cur else parent) tl
      | [] => surv [] [] tl
      end
  | EApply _ r b e :: tl => surv stk (cur ++ [(r, true, b, e)]) tl
  | EApply0 _ r e :: tl => surv stk (cur ++ [(r, false, e, e)]) tl
  | _ :: tl => surv stk cur tl
  end.
Definition survivors (evs : list event) : list sact := surv [] [] evs.
Definition sact_bytes (x : sact) : rid * bool * N * N :=
  match x with (r, t, b, e) => (r, t, pbyte b, pbyte e) end.

(* ---------- the formalism with semantic actions ---------- *)
Inductive skind := KNone | KAct (with_input isbool : bool).
Definition pact := (nat * bool * N * N)%type.             (* named rule number, apply/apply0, begin offset, end offset *)
Definition pres := option (list byte * N * list pact).    (* Some (rest, offset, actions of the derivation) / None = failure *)

Definition adv_off (o : N) (s s' : list byte) : N := o + N.of_nat (length s - length s').
Definition ret_atom (s : list byte) (o : N) (r : option (list byte)) : pres :=
  match r with Some s' => Some (s', adv_off o s s', []) | None => None end.

Section PA.
Variable g : sgrammar.
Variable att : nat -> skind.             (* what Action< Rule k > defines *)
Variable vt : nat -> N -> N -> bool.     (* the bool action of rule k returns FALSE on ( begin offset, end offset ) *)

(* a named rule matched [o, o1): invoke its action if actions are enabled *)
Definition rule_wrap (A : bool) (k : nat) (o : N) (s1 : list byte) (o1 : N) (l1 : list pact) : pres :=
  if A then
    match att k with
    | KNone => Some (s1, o1, l1)
    | KAct sp isb => if isb && vt k o o1 then None else Some (s1, o1, l1 ++ [(k, sp, if sp then o else o1, o1)])
    end
  else Some (s1, o1, l1).

Inductive PegA : bool -> sexp -> list byte -> N -> pres -> Prop :=
| A_any A s o : PegA A SAny s o (ret_atom s o (atom1 (fun _ => true) s))
| A_one A cs s o : PegA A (SOne cs) s o (ret_atom s o (atom1 (fun b => mem b cs) s))
| A_not_one A cs s o : PegA A (SNotOne cs) s o (ret_atom s o (atom1 (fun b => negb (mem b cs)) s))
| A_range A lo hi s o : PegA A (SRange lo hi) s o (ret_atom s o (atom1 (fun b => (lo <=? b) && (b <=? hi)) s))
| A_string A cs s o : PegA A (SString cs) s o (ret_atom s o (strip cs s))
| A_eof A s o : PegA A SEof s o (ret_atom s o (match s with [] => Some [] | _ => None end))
| A_success A s o : PegA A SSuccess s o (Some (s, o, []))
| A_failure A s o : PegA A SFailure s o None
| A_seq_ok A a b s o s1 o1 l1 r : PegA A a s o (Some (s1, o1, l1)) -> PegA A b s1 o1 r ->
    PegA A (SSeq a b) s o (match r with Some (s2, o2, l2) => Some (s2, o2, l1 ++ l2) | None => None end)
| A_seq_fail A a b s o : PegA A a s o None -> PegA A (SSeq a b) s o None
| A_sor_ok A a b s o x : PegA A a s o (Some x) -> PegA A (SSor a b) s o (Some x)
| A_sor_next A a b s o r : PegA A a s o None -> PegA A b s o r -> PegA A (SSor a b) s o r
| A_star_end A e s o : PegA A e s o None -> PegA A (SStar e) s o (Some (s, o, []))
| A_star_step A e s o s1 o1 l1 r : PegA A e s o (Some (s1, o1, l1)) -> PegA A (SStar e) s1 o1 r ->
    PegA A (SStar e) s o (match r with Some (s2, o2, l2) => Some (s2, o2, l1 ++ l2) | None => None end)
| A_plus_fail A e s o : PegA A e s o None -> PegA A (SPlus e) s o None
| A_plus_step A e s o s1 o1 l1 r : PegA A e s o (Some (s1, o1, l1)) -> PegA A (SStar e) s1 o1 r ->
    PegA A (SPlus e) s o (match r with Some (s2, o2, l2) => Some (s2, o2, l1 ++ l2) | None => None end)
| A_opt_ok A e s o x : PegA A e s o (Some x) -> PegA A (SOpt e) s o (Some x)
| A_opt_none A e s o : PegA A e s o None -> PegA A (SOpt e) s o (Some (s, o, []))
(* predicates: evaluated with actions DISABLED, consume nothing, contribute nothing *)
| A_at_ok A e s o x : PegA false e s o (Some x) -> PegA A (SAt e) s o (Some (s, o, []))
| A_at_fail A e s o : PegA false e s o None -> PegA A (SAt e) s o None
| A_not_at_ok A e s o x : PegA false e s o (Some x) -> PegA A (SNotAt e) s o None
| A_not_at_fail A e s o : PegA false e s o None -> PegA A (SNotAt e) s o (Some (s, o, []))
(* named rule: its body, then its action (which may veto) *)
| A_ref_ok A k e s o s1 o1 l1 : nth_error g k = Some e -> PegA A e s o (Some (s1, o1, l1)) ->
    PegA A (SRef k) s o (rule_wrap A k o s1 o1 l1)
| A_ref_fail A k e s o : nth_error g k = Some e -> PegA A e s o None -> PegA A (SRef k) s o None.

(* executable version (outer None = out of fuel); mirrored by the Python reference interpreter of the check *)
Definition cat (l1 : list pact) (x : option pres) : option pres :=
  match x with Some (Some (s2, o2, l2)) => Some (Some (s2, o2, l1 ++ l2)) | y => y end.
Fixpoint peg_acts (n : nat) (A : bool) (e : sexp) (s : list byte) (o : N) : option pres :=
  match n with
  | O => None
  | S n' =>
    let go := peg_acts n' in
    match e with
    | SAny => Some (ret_atom s o (atom1 (fun _ => true) s))
    | SOne cs => Some (ret_atom s o (atom1 (fun b => mem b cs) s))
    | SNotOne cs => Some (ret_atom s o (atom1 (fun b => negb (mem b cs)) s))
    | SRange lo hi => Some (ret_atom s o (atom1 (fun b => (lo <=? b) && (b <=? hi)) s))
    | SString cs => Some (ret_atom s o (strip cs s))
    | SEof => Some (ret_atom s o (match s with [] => Some [] | _ => None end))
    | SSuccess => Some (Some (s, o, []))
    | SFailure => Some None
    | SSeq a b => match go A a s o with Some (Some (s1, o1, l1)) => cat l1 (go A b s1 o1) | y => y end
    | SSor a b => match go A a s o with Some None => go A b s o | y => y end
    | SStar e1 => match go A e1 s o with
                  | Some (Some (s1, o1, l1)) => cat l1 (go A (SStar e1) s1 o1)
                  | Some None => Some (Some (s, o, []))
                  | None => None end
    | SPlus e1 => match go A e1 s o with Some (Some (s1, o1, l1)) => cat l1 (go A (SStar e1) s1 o1) | y => y end
    | SOpt e1 => match go A e1 s o with Some None => Some (Some (s, o, [])) | y => y end
    | SAt e1 => match go false e1 s o with Some (Some _) => Some (Some (s, o, [])) | y => y end
    | SNotAt e1 => match go false e1 s o with Some (Some _) => Some None | Some None => Some (Some (s, o, [])) | None => None end
    | SRef k => match nth_error g k with
                | None => None
                | Some e1 => match go A e1 s o with
                             | Some (Some (s1, o1, l1)) => Some (rule_wrap A k o s1 o1 l1)
                             | y => y end
                end
    end
  end.
End PA.

(* ---------- structure tie with anonymity: every named rule (the root included) is a definition of the
   surface grammar; the node of a non-reference sub-expression is not one of the named nodes ---------- *)
Section ADen.
Variable G : grammar.
Variable g : sgrammar.
Variable names : list rid.
Definition nm_of (k : nat) : rid := nth k names (length G).
Definition anon (r : rid) : bool := negb (existsb (Nat.eqb r) names).
Fixpoint adenb (n : nat) (r : rid) (e : sexp) {struct n} : bool :=
  match n with
  | O => false
  | S n' =>
    match e with
    | SRef k => Nat.eqb r (nm_of k) && (k <? length g)%nat
    | _ => anon r && match nth_error G r with Some nd => den_node (adenb n') nd e | None => false end
    end
  end.
Fixpoint adefs_ok (n : nat) (g' : sgrammar) (k : nat) : bool :=
  match g' with
  | [] => true
  | e :: g'' => not_ref e && match nth_error G (nm_of k) with Some nd => den_node (adenb n) nd e | None => false end && adefs_ok n g'' (S k)
  end.
Definition action_tie (n : nat) : bool := Nat.eqb (length names) (length g) && adefs_ok n g 0.
End ADen.
