(* ActionFacts.v — C04, protocol level, for EVERY head, table, configuration, mode, input and fuel:
     * eval_quiet     : apply_mode::nothing and no enable => no action event at all
     * eval_arun      : every log of the engine is accepted by the action-protocol machine ActionSpec.arun
     * match_hpp_span / match_hpp_veto : one-step characterisation of Action< Rule >::apply in match.hpp
   Skeleton: a generic section about predicates on event lists that are closed under concatenation
   (all the "plumbing" heads only concatenate what their sub-rules emit), then the two instances. *)
From Coq Require Import Lia.
From PegtlV Require Import Base Decode Grammar Engine ActionSpec.

Ltac dres x := destruct x as [[| |?e] ?c ?evs| |].

(* ====================================================================== generic plumbing *)
Section Plumb.
Variable C : cfg.
Variable Pd : bool -> list event -> Prop.         (* indexed by the apply mode of the emitting invocation *)
Hypothesis P_nil : forall a, Pd a [].
Hypothesis P_app : forall a x y, Pd a x -> Pd a y -> Pd a (x ++ y).
Hypothesis P_mono : forall a x, Pd false x -> Pd a x.
Definition plain_ev (e : event) : Prop :=
  match e with ERaise _ _ _ | ERaiseNested _ _ _ | EStNew _ _ | EStSuccess _ _ | EStDrop _ => True | _ => False end.
Hypothesis P_plain : forall a e, plain_ev e -> Pd a [e].

Definition GP (a : bool) (x : result) : Prop := match x with Res _ _ evs => Pd a evs | _ => True end.
Lemma GP_prepend a evs x : Pd a evs -> GP a x -> GP a (prepend evs x).
Proof. destruct x; simpl; auto. Qed.
Lemma GP_mono a x : GP false x -> GP a x.
Proof. destruct x; simpl; auto. Qed.
Lemma P_cons_plain a e evs : plain_ev e -> Pd a evs -> Pd a (e :: evs).
Proof. intros H1 H2. change (e :: evs) with ([e] ++ evs). apply P_app; [apply P_plain; exact H1 | exact H2]. Qed.

Variable ev : dyn -> rid -> cursor -> result.
Hypothesis Hev : forall d r c, GP (dA d) (ev d r c).

Lemma guard_P a m s x : GP a x -> GP a (guard m s x).
Proof. dres x; simpl; auto. Qed.
Lemma look_P a i s x : GP a x -> GP a (look i s x).
Proof. dres x; simpl; auto. Qed.
Lemma bind_P a x k : GP a x -> (forall c, GP a (k c)) -> GP a (bind x k).
Proof. intros Hx Hk. dres x; simpl in *; auto. apply GP_prepend; auto. Qed.

Lemma seq_all_P d rs : forall c, GP (dA d) (seq_all ev d rs c).
Proof. induction rs as [|r rs IH]; intros c; simpl; [apply P_nil|]. apply bind_P; [apply Hev | exact IH]. Qed.
Lemma sor_any_P d rs : forall c, GP (dA d) (sor_any ev d rs c).
Proof.
  induction rs as [|r rs IH]; intros c; [apply P_nil|]. destruct rs as [|r2 rs']; [apply Hev|].
  change (sor_any ev d (r :: r2 :: rs') c) with (match ev (req d) r c with Res Fail c' evs => prepend evs (sor_any ev d (r2 :: rs') c') | x => x end).
  pose proof (Hev (req d) r c) as H. dres (ev (req d) r c); simpl in *; auto. apply GP_prepend; [exact H | apply IH].
Qed.
Lemma star_loop_P n d rs : forall c, GP (dA d) (star_loop ev n d rs c).
Proof.
  induction n as [|n IH]; intros c; simpl; [exact I|].
  pose proof (seq_all_P (req d) rs c) as H. dres (seq_all ev (req d) rs c); simpl in *; auto. apply GP_prepend; [exact H | apply IH].
Qed.
Lemma until1_P n d cn : forall c, GP (dA d) (until1_loop C ev n d cn c).
Proof.
  induction n as [|n IH]; intros c; cbn [until1_loop]; [exact I|].
  pose proof (Hev (req d) cn c) as H. dres (ev (req d) cn c); cbn [GP req dA] in H |- *; auto.
  destruct (in_empty c0); [exact H|]. destruct (bump_scan (eol_ch (ceol C)) 1 c0) as [c2|]; [|exact I]. apply GP_prepend; [exact H | apply IH].
Qed.
Lemma until2_P n d cn r : forall c, GP (dA d) (until2_loop ev n d cn r c).
Proof.
  induction n as [|n IH]; intros c; simpl; [exact I|].
  pose proof (Hev (req d) cn c) as H. dres (ev (req d) cn c); simpl in *; auto.
  pose proof (Hev (opt_ d) r c0) as H2. dres (ev (opt_ d) r c0); simpl in *; auto; try (apply P_app; assumption).
  apply GP_prepend; [apply P_app; assumption | apply IH].
Qed.
Lemma rep_loop_P k d r : forall c, GP (dA d) (rep_loop ev k d r c).
Proof. induction k as [|k IH]; intros c; simpl; [apply P_nil|]. apply bind_P; [apply Hev | exact IH]. Qed.
Lemma repopt_loop_P k d r : forall c, GP (dA d) (fst (repopt_loop ev k d r c)).
Proof.
  induction k as [|k IH]; intros c; simpl; [apply P_nil|].
  pose proof (Hev (req d) r c) as H. dres (ev (req d) r c); simpl in *; auto.
  specialize (IH c0). destruct (repopt_loop ev k d r c0) as [x b]. simpl in *. apply GP_prepend; assumption.
Qed.
Lemma h_seq_P d rs c : GP (dA d) (h_seq ev d rs c).
Proof. unfold h_seq. destruct rs as [|r1 [|r2 rs]]; [apply P_nil | apply Hev | apply guard_P, (seq_all_P (opt_ d))]. Qed.
Lemma h_at_P i d r1 c : GP (dA d) (h_at ev i d r1 c).
Proof. apply GP_mono. apply look_P. apply (Hev (set_A (opt_ d) false)). Qed.
Lemma star_strict_P n d r1 rs : forall c, GP (dA d) (star_strict_loop ev n d r1 rs c).
Proof.
  induction n as [|n IH]; intros c; simpl; [exact I|].
  pose proof (Hev (req d) r1 c) as H. dres (ev (req d) r1 c); simpl in *; auto.
  pose proof (h_seq_P (opt_ d) rs c0) as H2. dres (h_seq ev (opt_ d) rs c0); simpl in *; auto; try (apply P_app; assumption).
  apply GP_prepend; [apply P_app; assumption | apply IH].
Qed.
Lemma rematch_all_P d rs i2 : GP (dA d) (rematch_all ev d rs i2).
Proof.
  induction rs as [|r rs IH]; simpl; [apply P_nil|].
  pose proof (Hev d r i2) as H. dres (ev d r i2); simpl in *; auto. apply GP_prepend; assumption.
Qed.
Lemma st_scope_P a b r c0 x : GP a x -> GP a (st_scope b r c0 x).
Proof.
  dres x; simpl; auto; intros H.
  - apply P_cons_plain; [exact I|]. apply P_app; [exact H|]. destruct b; simpl; repeat (apply P_cons_plain; [exact I|]); apply P_nil.
  - apply P_cons_plain; [exact I|]. apply P_app; [exact H|]. apply P_plain; exact I.
  - apply P_cons_plain; [exact I|]. apply P_app; [exact H|]. apply P_plain; exact I.
Qed.

Lemma eval_atom_noev h c x : eval_atom (ceol C) h c = Some x -> match x with Res _ _ evs => evs = [] | _ => True end.
Proof.
  intros Ea.
  assert (O : forall o, match ok_or_err o with Res _ _ evs => evs = [] | _ => True end) by (intros [?|]; simpl; auto).
  assert (BH : forall ch b k, match bump_help ch b k c with Res _ _ evs => evs = [] | _ => True end) by (intros; unfold bump_help; apply O).
  assert (PT : forall ch pk t, match peek_test_bump ch pk t c with Res _ _ evs => evs = [] | _ => True end).
  { intros. unfold peek_test_bump. destruct (do_peek pk c); try exact I; [reflexivity|]. destruct (t data); [apply BH | reflexivity]. }
  destruct h; simpl in Ea; try discriminate Ea; try (injection Ea as <-); try reflexivity; try apply O; try apply PT.
  - destruct (eol_match (ceol C) c) as [[[[|] z] c']|]; try reflexivity; exact I.
  - destruct (eol_match (ceol C) c) as [[[[|] z] c']|]; try reflexivity; exact I.
  - destruct pk; injection Ea as <-;
    try (match goal with |- match (match ?x with PNone => _ | PSome _ _ => _ | POob => _ end) with Res _ _ _ => _ | _ => _ end => destruct x; [reflexivity | apply O | exact I] end).
    destruct (in_empty c); [reflexivity | apply O].
  - destruct (_ <=? _)%nat; [|reflexivity]. destruct (take _ _); [|exact I]. destruct (eqb_bytes _ _); [apply BH | reflexivity].
  - destruct (_ <=? _)%nat; [|reflexivity]. destruct (take _ _); [|exact I]. destruct (ieqb_bytes _ _); [apply BH | reflexivity].
  - destruct (_ <=? _)%nat; [apply O | reflexivity].
Qed.

(* heads that emit action events themselves or switch actions on: treated per instance *)
Definition special (h : head) : bool :=
  match h with HEnable | HApply _ | HApply0 _ | HIfApply _ => true | _ => false end.

Lemma eval_head_P n self h subs d c : special h = false -> GP (dA d) (eval_head C ev n self h subs d c).
Proof.
  intros Hsp. unfold eval_head.
  destruct (eval_atom (ceol C) h c) as [x|] eqn:Ea.
  { apply eval_atom_noev in Ea. destruct x; simpl; auto. subst evs. apply P_nil. }
  assert (F : GP (dA d) (Res Fail c [])) by (apply P_nil).
  destruct h; try exact F; try (simpl in Ea; discriminate Ea); try discriminate Hsp.
  - apply h_seq_P.
  - apply sor_any_P.
  - apply star_loop_P.
  - destruct subs as [|r1 [|? ?]]; try exact F. unfold h_plus. apply bind_P; [apply Hev | intros; apply star_loop_P].
  - unfold h_partial. pose proof (seq_all_P (req d) subs c) as H. dres (seq_all ev (req d) subs c); simpl in *; auto.
  - destruct subs as [|r1 [|? ?]]; try exact F. apply h_at_P.
  - destruct subs as [|r1 [|? ?]]; try exact F. apply h_at_P.
  - destruct subs as [|r1 [|? ?]]; try exact F. apply guard_P, until1_P.
  - destruct subs as [|cn [|r1 [|? ?]]]; try exact F. apply guard_P, until2_P.
  - destruct subs as [|r1 [|? ?]]; try exact F. apply guard_P, (rep_loop_P n0 (opt_ d)).
  - destruct subs as [|r1 [|? ?]]; try exact F. unfold h_rep_min_max. apply guard_P. apply bind_P; [apply (rep_loop_P mn (opt_ d))|].
    intros c1. pose proof (repopt_loop_P (mx - mn) d r1 c1) as H. destruct (repopt_loop ev (mx - mn) d r1 c1) as [x b]. simpl in H.
    dres x; simpl in *; auto. destruct b; [|exact H]. apply GP_prepend; [exact H | apply (h_at_P true (opt_ d))].
  - destruct subs as [|r1 [|? ?]]; try exact F. apply repopt_loop_P.
  - destruct subs as [|cn [|t [|e [|? ?]]]]; try exact F. unfold h_if_then_else. apply guard_P.
    pose proof (Hev (req d) cn c) as H. dres (ev (req d) cn c); simpl in *; auto; apply GP_prepend; auto; apply (Hev (opt_ d)).
  - destruct subs as [|cn rest_]; try exact F. unfold h_if_must.
    assert (H : GP (dA d) (ev (if dflt then req d else d) cn c)) by (destruct dflt; [apply (Hev (req d)) | apply (Hev d)]).
    dres (ev (if dflt then req d else d) cn c); simpl in *; auto.
    destruct rest_ as [|m ?]; [exact H|]. pose proof (Hev d m c0) as H2. dres (ev d m c0); simpl in *; auto; apply P_app; assumption.
  - destruct subs as [|r1 [|? ?]]; try exact F. unfold h_must, raise_at.
    pose proof (Hev (opt_ d) r1 c) as H. dres (ev (opt_ d) r1 c); simpl in *; auto.
    apply P_app; [exact H | apply P_plain; exact I].
  - destruct subs as [|t [|? ?]]; try exact F. unfold raise_at. simpl. apply P_plain; exact I.
  - destruct subs as [|r1 rs]; try exact F. unfold h_strict. apply guard_P.
    pose proof (Hev (req d) r1 c) as H. dres (ev (req d) r1 c); simpl in *; auto. apply GP_prepend; [exact H | apply (h_seq_P (opt_ d))].
  - destruct subs as [|r1 rs]; try exact F. apply guard_P, star_strict_P.
  - destruct subs as [|hd rs]; try exact F. unfold h_rematch. destruct rs as [|r rs']; [apply Hev|].
    pose proof (Hev (opt_ d) hd c) as H. dres (ev (opt_ d) hd c); cbn [GP opt_ dA] in H |- *; auto.
    destruct (take _ (rest c)) as [span|]; [|exact I].
    pose proof (rematch_all_P (opt_ d) (r :: rs') (mkcur span (cpos c))) as H2.
    dres (rematch_all ev (opt_ d) (r :: rs') (mkcur span (cpos c))); cbn [GP opt_ dA] in H2 |- *; auto; apply P_app; assumption.
  - destruct subs as [|r1 [|? ?]]; try exact F. unfold h_try_false.
    pose proof (Hev (opt_ d) r1 c) as H. dres (ev (opt_ d) r1 c); simpl in *; auto.
  - destruct subs as [|r1 [|? ?]]; try exact F. unfold h_try_nested.
    pose proof (Hev (opt_ d) r1 c) as H. dres (ev (opt_ d) r1 c); simpl in *; auto.
    destruct (catches f e); simpl; [|exact H]. apply P_app; [exact H | apply P_plain; exact I].
  - destruct subs as [|r1 [|? ?]]; try exact F. apply st_scope_P, Hev.
  - destruct subs as [|r1 [|? ?]]; try exact F. apply (Hev (set_act d fam)).
  - destruct subs as [|r1 [|? ?]]; try exact F. apply (Hev (set_ctl d ctl)).
  - destruct subs as [|r1 [|? ?]]; try exact F. apply GP_mono. apply (Hev (set_A d false)).
Qed.
End Plumb.

(* ====================================================================== instance 1: quiet *)
Lemma quiet_app x y : quiet x -> quiet y -> quiet (x ++ y).
Proof. unfold quiet. rewrite Forall_app. auto. Qed.
Lemma quiet_cons e x : is_act e = false -> quiet x -> quiet (e :: x).
Proof. intros; constructor; assumption. Qed.
Lemma quiet_one e : is_act e = false -> quiet [e].
Proof. intros; apply quiet_cons; [assumption | constructor]. Qed.
Lemma quietb_spec evs : quietb evs = true <-> quiet evs.
Proof.
  induction evs as [|e tl IH]; simpl; [split; [constructor | reflexivity]|].
  rewrite andb_true_iff, IH. split.
  - intros [H1 H2]. apply quiet_cons; [destruct (is_act e); [discriminate | reflexivity] | exact H2].
  - intros H. inversion H; subst. split; [rewrite H2; reflexivity | assumption].
Qed.

Definition Pq (a : bool) (evs : list event) : Prop := a = false -> quiet evs.
Lemma Pq_nil a : Pq a []. Proof. intros _; constructor. Qed.
Lemma Pq_app a x y : Pq a x -> Pq a y -> Pq a (x ++ y).
Proof. intros H1 H2 Ha. apply quiet_app; auto. Qed.
Lemma Pq_mono a x : Pq false x -> Pq a x.
Proof. intros H _. apply H. reflexivity. Qed.
Lemma Pq_plain a e : plain_ev e -> Pq a [e].
Proof. intros H _. apply quiet_one. destruct e; simpl in H; try contradiction; reflexivity. Qed.
Lemma GPq_true x : GP Pq true x.
Proof. destruct x; simpl; auto. intros H; discriminate. Qed.

Section Quiet.
Variable G : grammar.
Variable C : cfg.
Hypothesis Hno : no_enable G C.
Notation GQ := (GP Pq).

Section QH.
Variable ev : dyn -> rid -> cursor -> result.
Hypothesis Hev : forall d r c, GQ (dA d) (ev d r c).

Lemma eval_head_Q n self h subs d c : h <> HEnable -> GQ (dA d) (eval_head C ev n self h subs d c).
Proof.
  intros Hh. destruct (special h) eqn:Hs.
  2:{ apply (eval_head_P C Pq Pq_nil Pq_app Pq_mono Pq_plain ev Hev); exact Hs. }
  destruct (dA d) eqn:Hd; [apply GPq_true|].
  destruct h; try discriminate Hs; try congruence; unfold eval_head; cbn [eval_atom].
  - destruct subs; [|apply Pq_nil]. unfold h_apply. rewrite Hd. apply Pq_nil.
  - destruct subs; [|apply Pq_nil]. unfold h_apply0. rewrite Hd. apply Pq_nil.
  - destruct subs as [|r1 [|? ?]]; try apply Pq_nil. unfold h_if_apply. rewrite Hd. simpl.
    pose proof (Hev d r1 c) as H. rewrite Hd in H. exact H.
Qed.

Lemma match_hpp_Q ak body d r c : (forall d c, GQ (dA d) (body d c)) -> GQ (dA d) (match_hpp C ak body d r c).
Proof.
  intros Hb. destruct (dA d) eqn:Hd; [apply GPq_true|].
  unfold match_hpp, use_guard, run_action, fail_hook. rewrite Hd. cbn [andb].
  pose proof (Hb d c) as H. rewrite Hd in H.
  dres (body d c); simpl in H |- *; auto; try (destruct (raise_on_failure C (dCtl d) r)); simpl; intros _;
  (apply quiet_cons; [reflexivity|]); try (apply quiet_app; [apply H; reflexivity|]); try (apply quiet_one; reflexivity).
  all: destruct (has_unwind C (dCtl d)); [apply quiet_one; reflexivity | constructor].
Qed.

Lemma action_match_Q plain enabled m d r c : m <> MEnableAction ->
  (forall d c, GQ (dA d) (plain d c)) -> GQ (dA d) (action_match ev plain enabled m d r c).
Proof.
  intros Hm Hp. destruct m; cbn [action_match]; try congruence.
  - apply (Hev (set_act d fam)).
  - apply (st_scope_P Pq Pq_nil Pq_app Pq_plain), Hp.
  - apply (st_scope_P Pq Pq_nil Pq_app Pq_plain). apply (Hev (set_act d fam)).
  - apply (Hp (set_ctl d ctl)).
  - apply (GP_mono Pq Pq_mono). apply (Hp (set_A d false)).
  - destruct enabled; [|apply Hp]. destruct (n <? S (dDepth d))%nat; [|apply (Hp (set_depth d (S (dDepth d))))].
    unfold raise_at. simpl. apply Pq_plain; exact I.
  - pose proof (Hp d (mkcur (firstn n (rest c)) (cpos c))) as H.
    dres (plain d (mkcur (firstn n (rest c)) (cpos c))); simpl in H |- *; auto.
    destruct (in_empty c0 && negb (is_nil (skipn n (rest c)))); simpl; [|exact H].
    apply Pq_app; [exact H | apply Pq_plain; exact I].
  - pose proof (Hp d c) as H. dres (plain d c); simpl in H |- *; auto.
    destruct (n <? length (rest c) - length (rest c0))%nat; simpl; exact H.
Qed.
End QH.

Lemma traced_Q a k r a0 m c x : GQ a x -> GQ a (traced k r a0 m c x).
Proof.
  destruct x as [o c' evs| |]; simpl; auto. intros H Ha. apply quiet_cons; [reflexivity|].
  apply quiet_app; [apply H; exact Ha | apply quiet_one; reflexivity].
Qed.

Theorem eval_quiet f : forall d r c, GQ (dA d) (eval G C f d r c).
Proof.
  destruct Hno as [Hn1 Hn2].
  induction f as [|f IH]; intros d r c; simpl; [exact I|].
  destruct (nth_error G r) as [nd|] eqn:En; [|apply Pq_nil].
  apply traced_Q.
  assert (Hbody : forall d' c', GQ (dA d') (eval_head C (eval G C f) f r (nhead nd) (nsubs nd) d' c')).
  { intros d' c'. apply eval_head_Q; [exact IH | eapply Hn1; eauto]. }
  assert (Hplain : forall ak d' c', GQ (dA d')
            (if nenabled nd then match_hpp C ak (eval_head C (eval G C f) f r (nhead nd) (nsubs nd)) d' r c'
             else eval_head C (eval G C f) f r (nhead nd) (nsubs nd) d' c')).
  { intros ak d' c'. destruct (nenabled nd); [apply match_hpp_Q; exact Hbody | apply Hbody]. }
  destruct (acts C (dAct d) r) as [| | |mk] eqn:Ea; try apply Hplain.
  apply action_match_Q; [exact IH | intros ->; eapply Hn2; eauto | apply Hplain].
Qed.
End Quiet.

(* ====================================================================== instance 2: the action-protocol machine *)
Lemma pos_eqb_refl p : pos_eqb p p = true.
Proof. unfold pos_eqb. rewrite !N.eqb_refl. reflexivity. Qed.
Lemma pos_eqb_eq p q : pos_eqb p q = true -> p = q.
Proof.
  unfold pos_eqb. intros H. apply andb_true_iff in H. destruct H as [H H3]. apply andb_true_iff in H. destruct H as [H1 H2].
  apply N.eqb_eq in H1, H2, H3. destruct p, q; simpl in *; subst; reflexivity.
Qed.

Section Mach.
Variable G : grammar.
Variable C : cfg.
Variable enabler : rid -> bool.
Hypothesis Hen : enabler_ok G C enabler.
Notation arunm := (arun enabler (vetoes_of C)).
Notation astepm := (astep enabler (vetoes_of C)).
Notation effm := (eff enabler).

Lemma arun_app a : forall st b, arunm st (a ++ b) = match arunm st a with Some st1 => arunm st1 b | None => None end.
Proof. induction a as [|e a IH]; intros st b; simpl; [reflexivity|]. destruct (astepm st e); [apply IH | reflexivity]. Qed.
Lemma arun_seg st0 st1 evs tl : arunm st0 evs = Some st1 -> arunm st0 (evs ++ tl) = arunm st1 tl.
Proof. intros H. rewrite arun_app, H. reflexivity. Qed.
Lemma arun_cons st e l : arunm st (e :: l) = match astepm st e with Some st' => arunm st' l | None => None end.
Proof. reflexivity. Qed.

Definition Pm (a : bool) (evs : list event) : Prop := forall st, implb a (effm st) = true -> arunm st evs = Some st.
Lemma Pm_nil a : Pm a []. Proof. intros st _; reflexivity. Qed.
Lemma Pm_app a x y : Pm a x -> Pm a y -> Pm a (x ++ y).
Proof. intros Hx Hy st Hs. rewrite (arun_seg st st x y (Hx st Hs)). apply Hy; exact Hs. Qed.
Lemma Pm_mono a x : Pm false x -> Pm a x.
Proof. intros H st _. apply H. reflexivity. Qed.
Lemma Pm_plain a e : plain_ev e -> Pm a [e].
Proof. intros H st _. destruct e; simpl in H; try contradiction; reflexivity. Qed.

Definition AtM (self : rid) (p0 : pos) (a : bool) (evs : list event) : Prop :=
  forall st a0, nearest st = Some (self, a0, p0) -> implb a (effm st) = true -> arunm st evs = Some st.
Definition GAt (self : rid) (p0 : pos) (a : bool) (x : result) : Prop :=
  match x with Res _ _ evs => AtM self p0 a evs | _ => True end.
Lemma GAt_of_GP self p0 a x : GP Pm a x -> GAt self p0 a x.
Proof. destruct x; simpl; auto. intros H st a0 _ Hs. apply H; exact Hs. Qed.
Lemma AtM_nil self p0 a : AtM self p0 a []. Proof. intros st a0 _ _; reflexivity. Qed.
Lemma AtM_app self p0 a x y : AtM self p0 a x -> AtM self p0 a y -> AtM self p0 a (x ++ y).
Proof. intros Hx Hy st a0 Hn Hs. rewrite (arun_seg st st x y (Hx st a0 Hn Hs)). eapply Hy; eauto. Qed.

Lemma inline_M acts_ b e : forall st r a0, nearest st = Some (r, a0, b) -> a0 || enabler r = true ->
  arunm st (snd (run_inline C acts_ b e)) = Some st.
Proof.
  induction acts_ as [|a tl IH]; intros st r a0 Hn Ha; simpl; [reflexivity|].
  assert (S1 : astepm st (EInline a b e) = Some st) by (simpl; rewrite Hn, Ha, pos_eqb_refl; reflexivity).
  destruct (ibeh C a b e) as [[|]|t]; cbn [snd]; try (rewrite arun_cons, S1; reflexivity).
  specialize (IH st r a0 Hn Ha). destruct (run_inline C tl b e) as [x evs]. cbn [snd] in *. rewrite arun_cons, S1. exact IH.
Qed.
Lemma inline0_M acts_ p : forall st r a0 p0, nearest st = Some (r, a0, p0) -> a0 || enabler r = true ->
  arunm st (snd (run_inline0 C acts_ p)) = Some st.
Proof.
  induction acts_ as [|a tl IH]; intros st r a0 p0 Hn Ha; simpl; [reflexivity|].
  assert (S1 : astepm st (EInline0 a) = Some st) by (simpl; rewrite Hn, Ha; reflexivity).
  destruct (ibeh C a p p) as [[|]|t]; cbn [snd]; try (rewrite arun_cons, S1; reflexivity).
  specialize (IH st r a0 p0 Hn Ha). destruct (run_inline0 C tl p) as [x evs]. cbn [snd] in *. rewrite arun_cons, S1. exact IH.
Qed.
Lemma inline_result_evs x c1 c2 pre : exists o c', inline_result x c1 c2 pre = Res o c' (pre ++ snd x).
Proof. destruct x as [[[|]|t] evs]; simpl; eexists; eexists; reflexivity. Qed.

Section MH.
Variable ev : dyn -> rid -> cursor -> result.
Hypothesis Hev : forall d r c, GP Pm (dA d) (ev d r c).

Lemma eval_head_M n self nd d c : nth_error G self = Some nd ->
  GAt self (cpos c) (dA d) (eval_head C ev n self (nhead nd) (nsubs nd) d c).
Proof.
  intros Hself. destruct (special (nhead nd)) eqn:Hs.
  2:{ apply GAt_of_GP. apply (eval_head_P C Pm Pm_nil Pm_app Pm_mono Pm_plain ev Hev); exact Hs. }
  assert (F : GAt self (cpos c) (dA d) (Res Fail c [])) by (apply AtM_nil).
  destruct (nhead nd) eqn:Eh; try discriminate Hs; unfold eval_head; cbn [eval_atom].
  - (* enable *) destruct (nsubs nd) as [|r1 [|? ?]]; try exact F.
    pose proof (Hev (set_A d true) r1 c) as H. destruct (ev (set_A d true) r1 c) as [o c' evs| |]; simpl in *; auto.
    intros st a0 Hn _. apply H. unfold eff. rewrite Hn. destruct Hen as [H1 _]. rewrite (H1 self nd Hself Eh). rewrite orb_true_r. reflexivity.
  - (* apply *) destruct (nsubs nd); try exact F. unfold h_apply. destruct (dA d) eqn:Hd; [|apply AtM_nil].
    destruct (inline_result_evs (run_inline C acts (cpos c) (cpos c)) c c []) as [o [c' ->]]. simpl.
    intros st a0 Hn He. unfold eff in He. rewrite Hn in He. simpl in He. eapply inline_M; eauto.
  - (* apply0 *) destruct (nsubs nd); try exact F. unfold h_apply0. destruct (dA d) eqn:Hd; [|apply AtM_nil].
    destruct (inline_result_evs (run_inline0 C acts (cpos c)) c c []) as [o [c' ->]]. simpl.
    intros st a0 Hn He. unfold eff in He. rewrite Hn in He. simpl in He. eapply inline0_M; eauto.
  - (* if_apply *) destruct (nsubs nd) as [|r1 [|? ?]]; try exact F. unfold h_if_apply.
    destruct (dA d && negb match acts with [] => true | _ :: _ => false end) eqn:Hc.
    + apply andb_true_iff in Hc. destruct Hc as [Hd _].
      pose proof (Hev (set_A (opt_ d) true) r1 c) as H.
      destruct (ev (set_A (opt_ d) true) r1 c) as [[| |e] c' evs| |]; cbn [GP set_A opt_ dA] in H |- *; auto; try (rewrite Hd; apply GAt_of_GP; exact H).
      destruct (inline_result_evs (run_inline C acts (cpos c) (cpos c')) c' c evs) as [o [c2 ->]]. simpl. rewrite Hd.
      apply AtM_app; [intros st a0 _ Hst; apply H; exact Hst|].
      intros st a0 Hn He. unfold eff in He. rewrite Hn in He. simpl in He. eapply inline_M; eauto.
    + apply GAt_of_GP. apply Hev.
Qed.
End MH.

(* ---------- one invocation seen from outside: entered at p0 with apply mode a ---------- *)
Definition LvlM (r : rid) (a : bool) (p0 : pos) (x : result) : Prop :=
  match x with
  | Res o c' evs => forall tl k, arunm (AInv r a p0 IFresh :: tl) (evs ++ [EExit k r (okind o) (cpos c')]) = Some tl
  | _ => True end.

Lemma step_start r a p0 tl k p : astepm (AInv r a p0 IFresh :: tl) (EHook HkStart k r p) = Some (AHook r p None :: AInv r a p0 IFresh :: tl).
Proof. simpl. rewrite Nat.eqb_refl. reflexivity. Qed.
Lemma step_close_plain h r b a p0 s tl k p : h <> HkStart ->
  astepm (AHook r b None :: AInv r a p0 s :: tl) (EHook h k r p) = Some (AInv r a p0 IClosed :: tl).
Proof. intros Hh. destruct h; try congruence; simpl; rewrite Nat.eqb_refl; reflexivity. Qed.
Lemma step_close_ok r b e a p0 s tl k :
  astepm (AHook r b (Some (e, false)) :: AInv r a p0 s :: tl) (EHook HkSuccess k r e) = Some (AInv r a p0 IClosed :: tl).
Proof. simpl. rewrite Nat.eqb_refl, pos_eqb_refl. reflexivity. Qed.
Lemma step_close_veto r b e a p0 s tl k :
  astepm (AHook r b (Some (e, true)) :: AInv r a p0 s :: tl) (EHook HkFailure k r e) = Some (AInv r a p0 IVetoed :: tl).
Proof. simpl. rewrite Nat.eqb_refl, pos_eqb_refl. reflexivity. Qed.
Lemma step_exit r a p0 s tl k o p : s <> IVetoed -> astepm (AInv r a p0 s :: tl) (EExit k r o p) = Some tl.
Proof. intros Hs. simpl. rewrite Nat.eqb_refl. destruct s; try congruence; reflexivity. Qed.
Lemma step_exit_veto r a p0 tl k o : is_true o = false -> astepm (AInv r a p0 IVetoed :: tl) (EExit k r o p0) = Some tl.
Proof. intros Ho. simpl. rewrite Nat.eqb_refl, Ho, pos_eqb_refl. reflexivity. Qed.
Lemma step_exit_open r b f a p0 s tl k p : astepm (AHook r b f :: AInv r a p0 s :: tl) (EExit k r None p) = Some tl.
Proof. simpl. rewrite Nat.eqb_refl. reflexivity. Qed.
Lemma step_apply r b p0 s tl fam e :
  astepm (AHook r b None :: AInv r true p0 s :: tl) (EApply fam r b e) = Some (AHook r b (Some (e, vetoes_of C fam r b e)) :: AInv r true p0 s :: tl).
Proof. simpl. rewrite !Nat.eqb_refl, pos_eqb_refl. reflexivity. Qed.
Lemma step_apply0 r b p0 s tl fam e :
  astepm (AHook r b None :: AInv r true p0 s :: tl) (EApply0 fam r e) = Some (AHook r b (Some (e, vetoes_of C fam r b e)) :: AInv r true p0 s :: tl).
Proof. simpl. rewrite !Nat.eqb_refl. reflexivity. Qed.

Definition is_apply (ak : akind) : bool := match ak with AKApply _ | AKApply0 _ => true | _ => false end.

Lemma LvlM_of_At r a a' p0 x : implb a' (a || enabler r) = true -> GAt r p0 a' x -> LvlM r a p0 x.
Proof.
  intros Hi. destruct x as [o c' evs| |]; simpl; auto. intros H tl k.
  rewrite (arun_seg _ (AInv r a p0 IFresh :: tl) evs).
  - simpl. rewrite Nat.eqb_refl. reflexivity.
  - apply (H _ a); [reflexivity|]. unfold eff. simpl. exact Hi.
Qed.

Lemma match_hpp_M ak body d r c a :
  implb (dA d) (a || enabler r) = true ->
  (is_apply ak = true -> ak = acts C (dAct d) r /\ (dA d = true -> a = true)) ->
  (forall d' c', dA d' = dA d -> GAt r (cpos c') (dA d) (body d' c')) ->
  LvlM r a (cpos c) (match_hpp C ak body d r c).
Proof.
  intros Himp Hak Hb. unfold match_hpp. set (g := use_guard d ak).
  assert (Hdg : dA (if g then opt_ d else d) = dA d) by (destruct g; reflexivity).
  pose proof (Hb (if g then opt_ d else d) c Hdg) as H.
  set (p0 := cpos c) in *.
  assert (Hbody : forall tl evs, AtM r p0 (dA d) evs ->
            arunm (AHook r p0 None :: AInv r a p0 IFresh :: tl) evs = Some (AHook r p0 None :: AInv r a p0 IFresh :: tl)).
  { intros tl evs HA. apply (HA _ a); [reflexivity|]. unfold eff. simpl. exact Himp. }
  destruct (body (if g then opt_ d else d) c) as [[| |e] c1 evs| |]; cbn [GAt] in H; try exact I.
  - (* body matched *)
    destruct (run_action C d ak r p0 (cpos c1)) as [ar ea] eqn:Er.
    unfold run_action in Er.
    destruct (dA d) eqn:Hd.
    2:{ (* actions disabled: no action event *)
      inversion Er; subst ar ea. cbn [LvlM okind]. intros tl k. rewrite <- !app_comm_cons, arun_cons, step_start.
      rewrite <- !app_assoc. rewrite (arun_seg _ _ evs _ (Hbody tl evs H)). cbn [app]. rewrite arun_cons, step_close_plain by discriminate.
      rewrite arun_cons, step_exit by discriminate. reflexivity. }
    destruct ak as [|isb|isb|mk].
    + inversion Er; subst ar ea. cbn [LvlM okind]. intros tl k. rewrite <- !app_comm_cons, arun_cons, step_start.
      rewrite <- !app_assoc. rewrite (arun_seg _ _ evs _ (Hbody tl evs H)). cbn [app]. rewrite arun_cons, step_close_plain by discriminate.
      rewrite arun_cons, step_exit by discriminate. reflexivity.
    + (* apply *)
      destruct (Hak eq_refl) as [Hak1 Hak2]. rewrite (Hak2 eq_refl) in *.
      assert (Hg : g = true) by (unfold g, use_guard; rewrite Hd; reflexivity).
      assert (Hv : vetoes_of C (dAct d) r p0 (cpos c1) = match abeh C (dAct d) r p0 (cpos c1) with ARet false => isb | _ => false end).
      { unfold vetoes_of. rewrite <- Hak1. destruct isb; destruct (abeh C (dAct d) r p0 (cpos c1)) as [[|]|t]; reflexivity. }
      destruct (abeh C (dAct d) r p0 (cpos c1)) as [x|t] eqn:Eab; inversion Er; subst ar ea.
      * destruct (x || negb isb) eqn:Ex.
        -- (* accepted *)
           assert (Hv' : vetoes_of C (dAct d) r p0 (cpos c1) = false) by (rewrite Hv; destruct x; [reflexivity | destruct isb; [discriminate Ex | reflexivity]]).
           cbn [LvlM okind]. intros tl k. rewrite <- !app_comm_cons, arun_cons, step_start.
           rewrite <- !app_assoc. rewrite (arun_seg _ _ evs _ (Hbody tl evs H)). cbn [app].
           rewrite arun_cons, step_apply, Hv'. rewrite arun_cons, step_close_ok. rewrite arun_cons, step_exit by discriminate. reflexivity.
        -- (* vetoed *)
           assert (Hv' : vetoes_of C (dAct d) r p0 (cpos c1) = true) by (rewrite Hv; destruct x; [discriminate Ex | destruct isb; [reflexivity | discriminate Ex]]).
           unfold fail_hook. rewrite Hg. destruct (raise_on_failure C (dCtl d) r); cbn [LvlM okind]; intros tl k; rewrite <- !app_comm_cons, arun_cons, step_start;
           rewrite <- !app_assoc; rewrite (arun_seg _ _ evs _ (Hbody tl evs H)); cbn [app];
           rewrite arun_cons, step_apply, Hv'; rewrite arun_cons, step_close_veto; rewrite arun_cons, step_exit_veto by reflexivity; reflexivity.
      * (* the action threw *)
        cbn [LvlM okind]. intros tl k. rewrite <- !app_comm_cons, arun_cons, step_start.
        rewrite <- !app_assoc. rewrite (arun_seg _ _ evs _ (Hbody tl evs H)). cbn [app].
        rewrite arun_cons, step_apply. rewrite arun_cons, step_exit_open. reflexivity.
    + (* apply0 *)
      destruct (Hak eq_refl) as [Hak1 Hak2]. rewrite (Hak2 eq_refl) in *.
      assert (Hv : vetoes_of C (dAct d) r p0 (cpos c1) = match abeh C (dAct d) r p0 (cpos c1) with ARet false => isb | _ => false end).
      { unfold vetoes_of. rewrite <- Hak1. destruct isb; destruct (abeh C (dAct d) r p0 (cpos c1)) as [[|]|t]; reflexivity. }
      destruct (abeh C (dAct d) r p0 (cpos c1)) as [x|t] eqn:Eab; inversion Er; subst ar ea.
      * destruct (x || negb isb) eqn:Ex.
        -- assert (Hv' : vetoes_of C (dAct d) r p0 (cpos c1) = false) by (rewrite Hv; destruct x; [reflexivity | destruct isb; [discriminate Ex | reflexivity]]).
           cbn [LvlM okind]. intros tl k. rewrite <- !app_comm_cons, arun_cons, step_start.
           rewrite <- !app_assoc. rewrite (arun_seg _ _ evs _ (Hbody tl evs H)). cbn [app].
           rewrite arun_cons, step_apply0, Hv'. rewrite arun_cons, step_close_ok. rewrite arun_cons, step_exit by discriminate. reflexivity.
        -- assert (Hv' : vetoes_of C (dAct d) r p0 (cpos c1) = true) by (rewrite Hv; destruct x; [discriminate Ex | destruct isb; [reflexivity | discriminate Ex]]).
           assert (Hg : g = true) by (unfold g, use_guard; rewrite Hd; destruct isb; [reflexivity | destruct x; discriminate Ex]).
           unfold fail_hook. rewrite Hg. destruct (raise_on_failure C (dCtl d) r); cbn [LvlM okind]; intros tl k; rewrite <- !app_comm_cons, arun_cons, step_start;
           rewrite <- !app_assoc; rewrite (arun_seg _ _ evs _ (Hbody tl evs H)); cbn [app];
           rewrite arun_cons, step_apply0, Hv'; rewrite arun_cons, step_close_veto; rewrite arun_cons, step_exit_veto by reflexivity; reflexivity.
      * cbn [LvlM okind]. intros tl k. rewrite <- !app_comm_cons, arun_cons, step_start.
        rewrite <- !app_assoc. rewrite (arun_seg _ _ evs _ (Hbody tl evs H)). cbn [app].
        rewrite arun_cons, step_apply0. rewrite arun_cons, step_exit_open. reflexivity.
    + inversion Er; subst ar ea. cbn [LvlM okind]. intros tl k. rewrite <- !app_comm_cons, arun_cons, step_start.
      rewrite <- !app_assoc. rewrite (arun_seg _ _ evs _ (Hbody tl evs H)). cbn [app]. rewrite arun_cons, step_close_plain by discriminate.
      rewrite arun_cons, step_exit by discriminate. reflexivity.
  - (* body failed *)
    unfold fail_hook. destruct (raise_on_failure C (dCtl d) r); cbn [LvlM okind]; intros tl k; rewrite <- !app_comm_cons, arun_cons, step_start;
    rewrite <- !app_assoc; rewrite (arun_seg _ _ evs _ (Hbody tl evs H)); cbn [app];
    rewrite arun_cons, step_close_plain by discriminate; rewrite arun_cons, step_exit by discriminate; reflexivity.
  - (* exception through the body *)
    cbn [LvlM okind]. intros tl k. rewrite <- !app_comm_cons, arun_cons, step_start. rewrite <- !app_assoc. rewrite (arun_seg _ _ evs _ (Hbody tl evs H)).
    destruct (has_unwind C (dCtl d)); cbn [app].
    + rewrite arun_cons, step_close_plain by discriminate. rewrite arun_cons, step_exit by discriminate. reflexivity.
    + rewrite arun_cons, step_exit_open. reflexivity.
Qed.

Lemma exit_weaken st k r p p' tl : astepm st (EExit k r (Some true) p) = Some tl -> astepm st (EExit k r None p') = Some tl.
Proof.
  destruct st as [|[r' a p0 s|r' b f] tl1]; simpl; try discriminate.
  - destruct (Nat.eqb r r'); simpl; [|discriminate]. destruct s; simpl; auto; discriminate.
  - destruct tl1 as [|[r'' a p0 s|? ? ?] tl2]; try discriminate. rewrite andb_false_r. discriminate.
Qed.
Lemma arun_plains ns : Forall plain_ev ns -> forall st, arunm st ns = Some st.
Proof.
  induction 1 as [|e ns He _ IH]; intros st; [reflexivity|]. rewrite arun_cons.
  assert (S1 : astepm st e = Some st) by (destruct e; simpl in He; try contradiction; reflexivity).
  rewrite S1. apply IH.
Qed.
Lemma LvlM_wrap r a p0 o c' evs pre post : Forall plain_ev pre -> Forall plain_ev post ->
  LvlM r a p0 (Res o c' evs) -> LvlM r a p0 (Res o c' (pre ++ evs ++ post)).
Proof.
  intros Hpre Hpo H. cbn [LvlM] in *. intros tl k. specialize (H tl k).
  rewrite <- !app_assoc. rewrite (arun_seg _ _ pre _ (arun_plains pre Hpre _)).
  rewrite arun_app in H. rewrite arun_app. destruct (arunm (AInv r a p0 IFresh :: tl) evs) as [st1|]; [|discriminate H].
  rewrite (arun_seg _ _ post _ (arun_plains post Hpo _)). exact H.
Qed.
Lemma LvlM_st_scope b r0 c0 r a p0 x : LvlM r a p0 x -> LvlM r a p0 (st_scope b r0 c0 x).
Proof.
  destruct x as [[| |e] c' evs| |]; cbn [st_scope]; auto; intros H.
  - apply (LvlM_wrap r a p0 Ok c' evs [EStNew r0 (cpos c0)] ((if b then [EStSuccess r0 (cpos c')] else []) ++ [EStDrop r0])); [repeat constructor | destruct b; repeat constructor | exact H].
  - apply (LvlM_wrap r a p0 Fail c' evs [EStNew r0 (cpos c0)] [EStDrop r0]); [repeat constructor | repeat constructor | exact H].
  - apply (LvlM_wrap r a p0 (Exc e) c' evs [EStNew r0 (cpos c0)] [EStDrop r0]); [repeat constructor | repeat constructor | exact H].
Qed.
Lemma LvlM_of_GP r a p0 x : GP Pm a x -> LvlM r a p0 x.
Proof. intros H. apply (LvlM_of_At r a a); [destruct a; reflexivity | apply GAt_of_GP; exact H]. Qed.

Lemma action_match_M ev plain enabled m d r c : acts C (dAct d) r = AKMatch m ->
  (forall d c, GP Pm (dA d) (ev d r c)) ->
  (forall d' c', implb (dA d') (dA d || enabler r) = true -> cpos c' = cpos c -> LvlM r (dA d) (cpos c) (plain d' c')) ->
  LvlM r (dA d) (cpos c) (action_match ev plain enabled m d r c).
Proof.
  intros Hact He Hp.
  assert (Hself : implb (dA d) (dA d || enabler r) = true) by (destruct (dA d); reflexivity).
  destruct m; cbn [action_match].
  - apply LvlM_of_GP. apply (He (set_act d fam)).
  - apply LvlM_st_scope. apply Hp; [exact Hself | reflexivity].
  - apply LvlM_st_scope. apply LvlM_of_GP. apply (He (set_act d fam)).
  - apply Hp; [exact Hself | reflexivity].
  - apply Hp; [|reflexivity]. destruct Hen as [_ H2]. rewrite (H2 _ _ Hact). rewrite orb_true_r. reflexivity.
  - apply Hp; reflexivity.
  - destruct enabled; [|apply Hp; [exact Hself | reflexivity]]. destruct (n <? S (dDepth d))%nat; [|apply Hp; [exact Hself | reflexivity]].
    unfold raise_at. cbn [LvlM okind app]. intros tl k. rewrite arun_cons. cbn [astep]. rewrite arun_cons. rewrite step_exit by discriminate. reflexivity.
  - pose proof (Hp d (mkcur (firstn n (rest c)) (cpos c)) Hself eq_refl) as H.
    destruct (plain d (mkcur (firstn n (rest c)) (cpos c))) as [[| |e] c1 evs| |]; try exact I; try exact H.
    destruct (in_empty c1 && negb (is_nil (skipn n (rest c)))); [|exact H].
    unfold raise_at. cbn [LvlM okind cpos] in H |- *. intros tl k. specialize (H tl k).
    rewrite arun_app in H. rewrite <- app_assoc, arun_app.
    destruct (arunm (AInv r (dA d) (cpos c) IFresh :: tl) evs) as [st1|]; [|discriminate H].
    cbn [app]. rewrite arun_cons. cbn [astep]. rewrite arun_cons in H |- *.
    destruct (astepm st1 (EExit k r (Some true) (cpos c1))) as [st2|] eqn:E2; [|discriminate H].
    rewrite (exit_weaken _ _ _ _ (cpos c1) _ E2). exact H.
  - pose proof (Hp d c Hself eq_refl) as H. destruct (plain d c) as [[| |e] c1 evs| |]; try exact I; try exact H.
    destruct (n <? length (rest c) - length (rest c1))%nat; [|exact H].
    cbn [LvlM okind] in H |- *. intros tl k. specialize (H tl k). rewrite arun_app in H |- *.
    destruct (arunm (AInv r (dA d) (cpos c) IFresh :: tl) evs) as [st1|]; [|discriminate H].
    rewrite arun_cons in H |- *.
    destruct (astepm st1 (EExit k r (Some true) (cpos c1))) as [st2|] eqn:E2; [|discriminate H].
    rewrite (exit_weaken _ _ _ _ (cpos c1) _ E2). exact H.
Qed.

Lemma traced_M r d c x : LvlM r (dA d) (cpos c) x -> GP Pm (dA d) (traced (dCtl d) r (dA d) (dM d) c x).
Proof.
  destruct x as [o c' evs| |]; cbn [traced GP LvlM]; auto. intros H st Hs. rewrite arun_cons. cbn [astep]. rewrite Hs. apply H.
Qed.

Theorem eval_arun f : forall d r c, GP Pm (dA d) (eval G C f d r c).
Proof.
  induction f as [|f IH]; intros d r c; simpl; [exact I|].
  destruct (nth_error G r) as [nd|] eqn:En; [|apply Pm_nil].
  apply traced_M.
  assert (Hbody : forall d' c', GAt r (cpos c') (dA d') (eval_head C (eval G C f) f r (nhead nd) (nsubs nd) d' c')).
  { intros d' c'. apply eval_head_M; [exact IH | exact En]. }
  assert (Hplain : forall ak d' c', implb (dA d') (dA d || enabler r) = true ->
            (is_apply ak = true -> ak = acts C (dAct d') r /\ (dA d' = true -> dA d = true)) ->
            LvlM r (dA d) (cpos c')
            (if nenabled nd then match_hpp C ak (eval_head C (eval G C f) f r (nhead nd) (nsubs nd)) d' r c'
             else eval_head C (eval G C f) f r (nhead nd) (nsubs nd) d' c')).
  { intros ak d' c' Hi Hak. destruct (nenabled nd).
    - apply match_hpp_M; [exact Hi | exact Hak |]. intros d2 c2 Hd2. rewrite <- Hd2. apply Hbody.
    - apply (LvlM_of_At r (dA d) (dA d')); [exact Hi | apply Hbody]. }
  assert (Hself : implb (dA d) (dA d || enabler r) = true) by (destruct (dA d); reflexivity).
  destruct (acts C (dAct d) r) as [| | |mk] eqn:Ea.
  - apply Hplain; [exact Hself | discriminate].
  - apply Hplain; [exact Hself | intros _; split; [symmetry; exact Ea | auto]].
  - apply Hplain; [exact Hself | intros _; split; [symmetry; exact Ea | auto]].
  - apply action_match_M; [exact Ea | intros; apply IH |].
    intros d' c' Hi Hc. rewrite <- Hc. apply Hplain; [exact Hi | discriminate].
Qed.
End Mach.

(* ====================================================================== match.hpp, one step: span and veto *)
Definition action_events (d : dyn) (ak : akind) (r : rid) (b e : pos) : list event :=
  if dA d then match ak with AKApply _ => [EApply (dAct d) r b e] | AKApply0 _ => [EApply0 (dAct d) r e] | _ => [] end else [].
Lemma run_action_evs C d ak r b e : snd (run_action C d ak r b e) = action_events d ak r b e.
Proof.
  unfold run_action, action_events. destruct (dA d); [|reflexivity].
  destruct ak as [|isb|isb|m]; try reflexivity; destruct (abeh C (dAct d) r b e); reflexivity.
Qed.
Definition is_ok (o : outcome) : bool := match o with Ok => true | _ => false end.

(* the log of one attempt is: start, the body's log, then (iff the body matched) the rule's action with
   begin = cursor at the start of the attempt and end = cursor the body left, then at most one closing hook *)
Lemma match_hpp_shape C ak body d r c o c' evs : match_hpp C ak body d r c = Res o c' evs ->
  exists o1 c1 evs1 post,
    body (if use_guard d ak then opt_ d else d) c = Res o1 c1 evs1 /\
    evs = EHook HkStart (dCtl d) r (cpos c) :: evs1 ++ (if is_ok o1 then action_events d ak r (cpos c) (cpos c1) else []) ++ post /\
    quiet post /\ (length post <= 1)%nat /\
    (o = Ok -> o1 = Ok /\ c' = c1 /\ post = [EHook HkSuccess (dCtl d) r (cpos c1)]).
Proof.
  unfold match_hpp. destruct (body (if use_guard d ak then opt_ d else d) c) as [[| |e] c1 evs1| |] eqn:Eb; try discriminate.
  - pose proof (run_action_evs C d ak r (cpos c) (cpos c1)) as Hea.
    destruct (run_action C d ak r (cpos c) (cpos c1)) as [[[|]|t] ea]; simpl in Hea; subst ea.
    + intros H. inversion H; subst. exists Ok, c', evs1, [EHook HkSuccess (dCtl d) r (cpos c')].
      split; [reflexivity|]. split; [reflexivity|]. split; [apply quiet_one; reflexivity|]. split; [simpl; lia | auto].
    + unfold fail_hook. destruct (raise_on_failure C (dCtl d) r); intros H; inversion H; subst;
      exists Ok, c1, evs1, [EHook HkFailure (dCtl d) r (cpos c1)];
      (split; [reflexivity|]); (split; [simpl; rewrite <- app_assoc; reflexivity|]); (split; [apply quiet_one; reflexivity|]); (split; [simpl; lia | discriminate]).
    + intros H. inversion H; subst. exists Ok, c1, evs1, [].
      split; [reflexivity|]. split; [simpl; rewrite app_nil_r; reflexivity|]. split; [constructor|]. split; [simpl; lia | discriminate].
  - unfold fail_hook. destruct (raise_on_failure C (dCtl d) r); intros H; inversion H; subst;
    exists Fail, c1, evs1, [EHook HkFailure (dCtl d) r (cpos c1)];
    (split; [reflexivity|]); (split; [reflexivity|]); (split; [apply quiet_one; reflexivity|]); (split; [simpl; lia | discriminate]).
  - intros H. inversion H; subst.
    exists (Exc e), c1, evs1, (if has_unwind C (dCtl d) then [EHook HkUnwind (dCtl d) r (cpos c1)] else []).
    split; [reflexivity|]. split; [reflexivity|].
    destruct (has_unwind C (dCtl d)); (split; [try (apply quiet_one; reflexivity); constructor|]); (split; [simpl; lia | discriminate]).
Qed.

(* a bool action returning false: local failure, cursor restored to the start of the match in EVERY rewind
   mode (the guard is taken: the body runs in optional mode), failure hook instead of success *)
Lemma match_hpp_veto C ak body d r c c1 evs1 :
  dA d = true -> (ak = AKApply true \/ ak = AKApply0 true) ->
  body (opt_ d) c = Res Ok c1 evs1 ->
  abeh C (dAct d) r (cpos c) (cpos c1) = ARet false ->
  raise_on_failure C (dCtl d) r = false ->
  use_guard d ak = true /\
  match_hpp C ak body d r c =
    Res Fail c ((EHook HkStart (dCtl d) r (cpos c) :: evs1 ++ action_events d ak r (cpos c) (cpos c1)) ++ [EHook HkFailure (dCtl d) r (cpos c1)]).
Proof.
  intros Hd Hak Hb Hab Hrof.
  assert (Hg : use_guard d ak = true) by (unfold use_guard; rewrite Hd; destruct Hak as [-> | ->]; reflexivity).
  split; [exact Hg|]. unfold match_hpp. rewrite Hg, Hb. unfold run_action, action_events, fail_hook. rewrite Hd, Hab, Hrof.
  destruct Hak as [-> | ->]; reflexivity.
Qed.

(* what the machine's acceptance says at an apply event *)
Lemma arun_apply_inv enabler vetoes st l1 fam r b e l2 st' :
  arun enabler vetoes st (l1 ++ EApply fam r b e :: l2) = Some st' ->
  exists tl p0 s, arun enabler vetoes st l1 = Some (AHook r b None :: AInv r true p0 s :: tl) /\
                  arun enabler vetoes (AHook r b (Some (e, vetoes fam r b e)) :: AInv r true p0 s :: tl) l2 = Some st'.
Proof.
  revert st. induction l1 as [|x l1 IH]; intros st H.
  - simpl in H. destruct st as [|[r' a p0 s|r' b0 [f|]] tl]; try discriminate H.
    destruct tl as [|[r'' [|] p0 s|? ? ?] tl2]; try discriminate H.
    destruct (Nat.eqb r r' && Nat.eqb r r'' && pos_eqb b b0) eqn:E; [|discriminate H].
    apply andb_true_iff in E. destruct E as [E1 E2]. apply andb_true_iff in E1. destruct E1 as [E1 E3].
    apply Nat.eqb_eq in E1, E3. apply pos_eqb_eq in E2. subst r' r'' b0.
    exists tl2, p0, s. split; [reflexivity | exact H].
  - simpl in H |- *. destruct (astep enabler vetoes st x) as [st1|]; [|discriminate H]. apply IH. exact H.
Qed.

(* every invocation announces the apply mode it was entered with *)
Lemma eval_first G C f d r c o c' evs : eval G C f d r c = Res o c' evs ->
  evs = [] \/ exists tl, evs = EEnter (dCtl d) r (dA d) (dM d) (cpos c) :: tl.
Proof.
  destruct f as [|f]; simpl; [discriminate|].
  destruct (nth_error G r) as [nd|]; [|intros H; inversion H; auto].
  match goal with |- traced _ _ _ _ _ ?x = _ -> _ => destruct x as [o0 c0 e0| |] end; simpl; intros H; inversion H; subst.
  right. eexists; reflexivity.
Qed.
