(* ExtractC14.v — extraction for property C14 (ExtrOcamlBasic only; numbers stay Coq's
   positive/N/nat inductives, no Extract Constant):
     rfc8259_b     the SPECIFICATION-side recogniser of RFC 8259 (Rfc8259.v) = the oracle of checks/C14.py
     json_verdict  the engine model (Engine.run) on the compiler-dumped table of seq< json::text, eof >
                   (gen/Json_gen.v, regenerated from /repo on every run) = the model column
   Imports model/spec files only, never proof files. *)
From PegtlV Require Import Base Decode Grammar Engine Rfc8259 JsonModel.
From PegtlV.gen Require Import Json_gen.
From Coq Require Import NArith Extraction ExtrOcamlBasic.
Extraction Language OCaml.
Extraction "c14_model.ml" rfc8259_b json_verdict N.add N.mul.
