(* DecodeFacts.v — lemmas and proofs for property C10: the Peek decoders of Decode.v and the
   atoms of Engine.v accept exactly the sets specified in Utf.v. *)
From Coq Require Import Ascii String.
From PegtlV Require Import Base Decode Grammar Engine Utf.
From Coq Require Import Lia ZifyBool.
Local Close Scope string_scope.
Ltac Zify.zify_post_hook ::= Z.to_euclidean_division_equations.  (* N.div/N.modulo zify to Z.quot/Z.rem *)
Local Open Scope N_scope.

(* ====================================================================================== *)
(* 1. generic facts                                                                        *)
(* ====================================================================================== *)

Definition bytes256 : list N := map N.of_nat (seq 0 256).

Lemma in_bytes256 b : b < 256 -> In b bytes256.
Proof.
  intros H. unfold bytes256. apply in_map_iff. exists (N.to_nat b). split.
  - apply N2Nat.id.
  - apply in_seq. lia.
Qed.

Lemma bytes256_lt b : In b bytes256 -> b < 256.
Proof.
  unfold bytes256. intros H. apply in_map_iff in H. destruct H as [n [E H]].
  apply in_seq in H. lia.
Qed.

Lemma sweep1 (f : N -> bool) : forallb f bytes256 = true -> forall b, b < 256 -> f b = true.
Proof. intros S b H. exact (proj1 (forallb_forall _ _) S b (in_bytes256 b H)). Qed.

Lemma sweep2 (f : N -> N -> bool) :
  forallb (fun a => forallb (f a) bytes256) bytes256 = true ->
  forall a b, a < 256 -> b < 256 -> f a b = true.
Proof. intros S a b Ha Hb. exact (sweep1 _ (sweep1 _ S a Ha) b Hb). Qed.

Lemma land_mod_pow2 a n : N.land a (N.ones n) = a mod 2 ^ n.
Proof. apply N.land_ones. Qed.

Lemma land_disjoint x a n : a < 2 ^ n -> N.land (x * 2 ^ n) a = 0.
Proof.
  intros H. apply N.bits_inj_0. intros i. rewrite N.land_spec.
  destruct (N.lt_ge_cases i n) as [L | G].
  - rewrite N.mul_pow2_bits_low by exact L. reflexivity.
  - assert (F : N.testbit a i = false).
    { destruct (N.eq_dec a 0) as [Z | NZ].
      - subst a. apply N.bits_0.
      - apply N.bits_above_log2. apply N.log2_lt_pow2; [lia|].
        eapply N.lt_le_trans; [exact H|]. apply N.pow_le_mono_r; lia. }
    rewrite F. apply andb_false_r.
Qed.

Lemma lor_shiftl_add x a n : a < 2 ^ n -> N.lor (N.shiftl x n) a = x * 2 ^ n + a.
Proof.
  intros H. rewrite N.shiftl_mul_pow2.
  pose proof (land_disjoint x a n H) as D.
  rewrite (N.add_nocarry_lxor _ _ D). symmetry. apply N.lxor_lor. exact D.
Qed.

(* the payload combination step of every decoder: (x << 6) | (c & 0x3F) *)
Lemma comb6 x c : N.lor (N.shiftl x 6) (N.land c 63) = x * 64 + c mod 64.
Proof.
  change 63 with (N.ones 6). rewrite land_mod_pow2.
  rewrite lor_shiftl_add; [reflexivity|]. apply N.mod_lt. discriminate.
Qed.

Lemma comb10 x c : N.lor (N.shiftl x 10) (N.land c 1023) = x * 1024 + c mod 1024.
Proof.
  change 1023 with (N.ones 10). rewrite land_mod_pow2.
  rewrite lor_shiftl_add; [reflexivity|]. apply N.mod_lt. discriminate.
Qed.

Lemma land31 c : N.land c 31 = c mod 32. Proof. change 31 with (N.ones 5). apply land_mod_pow2. Qed.
Lemma land15 c : N.land c 15 = c mod 16. Proof. change 15 with (N.ones 4). apply land_mod_pow2. Qed.
Lemma land7 c : N.land c 7 = c mod 8. Proof. change 7 with (N.ones 3). apply land_mod_pow2. Qed.
Lemma land1023 c : N.land c 1023 = c mod 1024. Proof. change 1023 with (N.ones 10). apply land_mod_pow2. Qed.

(* single-byte bit tests as comparisons: 256-case sweeps *)
Lemma lead1 b : b < 256 -> (N.land b 128 =? 0) = (b <? 128).
Proof.
  intros H. apply Bool.eqb_prop.
  apply (sweep1 (fun b => Bool.eqb (N.land b 128 =? 0) (b <? 128))); [vm_compute; reflexivity | exact H].
Qed.

Lemma lead2 b : b < 256 -> (N.land b 224 =? 192) = ((192 <=? b) && (b <? 224)).
Proof.
  intros H. apply Bool.eqb_prop.
  apply (sweep1 (fun b => Bool.eqb (N.land b 224 =? 192) ((192 <=? b) && (b <? 224)))); [vm_compute; reflexivity | exact H].
Qed.

Lemma lead3 b : b < 256 -> (N.land b 240 =? 224) = ((224 <=? b) && (b <? 240)).
Proof.
  intros H. apply Bool.eqb_prop.
  apply (sweep1 (fun b => Bool.eqb (N.land b 240 =? 224) ((224 <=? b) && (b <? 240)))); [vm_compute; reflexivity | exact H].
Qed.

Lemma lead4 b : b < 256 -> (N.land b 248 =? 240) = ((240 <=? b) && (b <? 248)).
Proof.
  intros H. apply Bool.eqb_prop.
  apply (sweep1 (fun b => Bool.eqb (N.land b 248 =? 240) ((240 <=? b) && (b <? 248)))); [vm_compute; reflexivity | exact H].
Qed.

Lemma cont_arith b : b < 256 -> cont b = ((128 <=? b) && (b <? 192)).
Proof.
  intros H. apply Bool.eqb_prop.
  apply (sweep1 (fun b => Bool.eqb (cont b) ((128 <=? b) && (b <? 192)))); [vm_compute; reflexivity | exact H].
Qed.

(* ====================================================================================== *)
(* 2. UTF-8                                                                                *)
(* ====================================================================================== *)

Definition tailb (b : N) : bool := (128 <=? b) && (b <? 192).

(* peek_utf8 with every bit operation replaced by comparison / div / mod *)
Definition utf8_arith (bs : list N) : peekres :=
  match bs with
  | [] => PNone
  | c0 :: t0 =>
    if c0 <? 128 then PSome (Z.of_N c0) 1
    else if (192 <=? c0) && (c0 <? 224) then
      match t0 with
      | c1 :: _ =>
        if tailb c1 then
          let v := (c0 mod 32) * 64 + c1 mod 64 in
          if 128 <=? v then PSome (Z.of_N v) 2 else PNone
        else PNone
      | _ => PNone
      end
    else if (224 <=? c0) && (c0 <? 240) then
      match t0 with
      | c1 :: c2 :: _ =>
        if tailb c1 && tailb c2 then
          let v := ((c0 mod 16) * 64 + c1 mod 64) * 64 + c2 mod 64 in
          if (2048 <=? v) && negb ((55296 <=? v) && (v <=? 57343)) then PSome (Z.of_N v) 3 else PNone
        else PNone
      | _ => PNone
      end
    else if (240 <=? c0) && (c0 <? 248) then
      match t0 with
      | c1 :: c2 :: c3 :: _ =>
        if tailb c1 && tailb c2 && tailb c3 then
          let v := (((c0 mod 8) * 64 + c1 mod 64) * 64 + c2 mod 64) * 64 + c3 mod 64 in
          if (65536 <=? v) && (v <=? 1114111) then PSome (Z.of_N v) 4 else PNone
        else PNone
      | _ => PNone
      end
    else PNone
  end.

Lemma peek_utf8_arith bs p : Forall is_byte bs -> peek_utf8 (mkcur bs p) = utf8_arith bs.
Proof.
  intros F. unfold peek_utf8, utf8_arith, rd, peek_at, in_empty, in_size. cbn [rest].
  destruct bs as [|c0 t0]; [reflexivity|].
  apply Forall_cons_iff in F. destruct F as [B0 F0]. unfold is_byte in B0.
  cbn [nth_error]. rewrite (lead1 c0 B0), (lead2 c0 B0), (lead3 c0 B0), (lead4 c0 B0).
  destruct (c0 <? 128) eqn:E1; [reflexivity|].
  destruct ((192 <=? c0) && (c0 <? 224)) eqn:E2.
  { destruct t0 as [|c1 t1]; [reflexivity|].
    apply Forall_cons_iff in F0. destruct F0 as [B1 F1]. unfold is_byte in B1.
    cbn [length Nat.leb nth_error]. rewrite (cont_arith c1 B1). fold (tailb c1).
    rewrite land31, comb6. reflexivity. }
  destruct ((224 <=? c0) && (c0 <? 240)) eqn:E3.
  { destruct t0 as [|c1 [|c2 t2]]; [reflexivity|reflexivity|].
    apply Forall_cons_iff in F0. destruct F0 as [B1 F1]. unfold is_byte in B1.
    apply Forall_cons_iff in F1. destruct F1 as [B2 F2]. unfold is_byte in B2.
    cbn [length Nat.leb nth_error]. rewrite (cont_arith c1 B1), (cont_arith c2 B2). fold (tailb c1) (tailb c2).
    rewrite land15, !comb6. reflexivity. }
  destruct ((240 <=? c0) && (c0 <? 248)) eqn:E4.
  { destruct t0 as [|c1 [|c2 [|c3 t3]]]; [reflexivity|reflexivity|reflexivity|].
    apply Forall_cons_iff in F0. destruct F0 as [B1 F1]. unfold is_byte in B1.
    apply Forall_cons_iff in F1. destruct F1 as [B2 F2]. unfold is_byte in B2.
    apply Forall_cons_iff in F2. destruct F2 as [B3 F3]. unfold is_byte in B3.
    cbn [length Nat.leb nth_error].
    rewrite (cont_arith c1 B1), (cont_arith c2 B2), (cont_arith c3 B3). fold (tailb c1) (tailb c2) (tailb c3).
    rewrite land7, !comb6. reflexivity. }
  reflexivity.
Qed.

Lemma utf8_enc_eq cp cp' u : utf8_enc cp u -> cp = cp' -> utf8_enc cp' u.
Proof. intros H E. subst cp'. exact H. Qed.

Lemma utf8_enc_eq2 cp cp' u u' : utf8_enc cp u -> cp = cp' -> u = u' -> utf8_enc cp' u'.
Proof. intros H E1 E2. subst. exact H. Qed.

Ltac if_lia :=
  repeat match goal with
         | |- context [if ?b then _ else _] => let E := fresh "E" in destruct b eqn:E; try lia
         end.

Lemma utf8_arith_complete cp u tl : utf8_enc cp u -> utf8_arith (u ++ tl) = PSome (Z.of_N cp) (length u).
Proof.
  intros H. destruct H; unfold utf8_tail in *; cbn [app length]; unfold utf8_arith, tailb; cbv zeta.
  - if_lia. reflexivity.
  - if_lia. unfold val2. do 2 f_equal. lia.
  - if_lia. unfold val3. do 2 f_equal. lia.
  - if_lia. unfold val3. do 2 f_equal. lia.
  - if_lia. unfold val3. do 2 f_equal. lia.
  - if_lia. unfold val3. do 2 f_equal. lia.
  - if_lia. unfold val4. do 2 f_equal. lia.
  - if_lia. unfold val4. do 2 f_equal. lia.
  - if_lia. unfold val4. do 2 f_equal. lia.
Qed.

Lemma utf8_arith_sound bs v n : utf8_arith bs = PSome v n -> exists cp, v = Z.of_N cp /\ wf_utf8_prefix bs cp n.
Proof.
  unfold utf8_arith, wf_utf8_prefix. intros H.
  destruct bs as [|c0 t0]; [discriminate|].
  destruct (c0 <? 128) eqn:E1.
  { inversion H; subst. exists c0. split; [reflexivity|]. exists [c0], t0. split; [reflexivity|].
    split; [reflexivity|]. apply U8_1. lia. }
  destruct ((192 <=? c0) && (c0 <? 224)) eqn:E2.
  { destruct t0 as [|c1 t1]; [discriminate|]. unfold tailb in H.
    destruct ((128 <=? c1) && (c1 <? 192)) eqn:T1; [|discriminate]. cbv zeta in H.
    destruct (128 <=? c0 mod 32 * 64 + c1 mod 64) eqn:V; [|discriminate].
    inversion H; subst. eexists. split; [reflexivity|]. exists [c0; c1], t1. split; [reflexivity|].
    split; [reflexivity|].
    eapply utf8_enc_eq; [apply (U8_2 c0 c1); unfold utf8_tail; lia | unfold val2; lia]. }
  destruct ((224 <=? c0) && (c0 <? 240)) eqn:E3.
  { destruct t0 as [|c1 [|c2 t2]]; [discriminate|discriminate|]. unfold tailb in H.
    destruct ((128 <=? c1) && (c1 <? 192) && ((128 <=? c2) && (c2 <? 192))) eqn:T1; [|discriminate].
    cbv zeta in H.
    remember ((c0 mod 16 * 64 + c1 mod 64) * 64 + c2 mod 64) as v3 eqn:Ev.
    destruct ((2048 <=? v3) && negb ((55296 <=? v3) && (v3 <=? 57343))) eqn:V; [|discriminate].
    inversion H; subst v n. eexists. split; [reflexivity|]. exists [c0; c1; c2], t2. split; [reflexivity|].
    split; [reflexivity|].
    assert (D : c0 = 224 \/ 225 <= c0 <= 236 \/ c0 = 237 \/ 238 <= c0 <= 239) by lia.
    destruct D as [D | [D | [D | D]]].
    - subst c0. eapply utf8_enc_eq; [apply (U8_3a c1 c2); unfold utf8_tail; lia | unfold val3; lia].
    - eapply utf8_enc_eq; [apply (U8_3b c0 c1 c2); unfold utf8_tail; lia | unfold val3; lia].
    - subst c0. eapply utf8_enc_eq; [apply (U8_3c c1 c2); unfold utf8_tail; lia | unfold val3; lia].
    - eapply utf8_enc_eq; [apply (U8_3d c0 c1 c2); unfold utf8_tail; lia | unfold val3; lia]. }
  destruct ((240 <=? c0) && (c0 <? 248)) eqn:E4; [|discriminate].
  destruct t0 as [|c1 [|c2 [|c3 t3]]]; [discriminate|discriminate|discriminate|]. unfold tailb in H.
  destruct ((128 <=? c1) && (c1 <? 192) && ((128 <=? c2) && (c2 <? 192)) && ((128 <=? c3) && (c3 <? 192))) eqn:T1; [|discriminate].
  cbv zeta in H.
  remember (((c0 mod 8 * 64 + c1 mod 64) * 64 + c2 mod 64) * 64 + c3 mod 64) as v4 eqn:Ev.
  destruct ((65536 <=? v4) && (v4 <=? 1114111)) eqn:V; [|discriminate].
  inversion H; subst v n. eexists. split; [reflexivity|]. exists [c0; c1; c2; c3], t3. split; [reflexivity|].
  split; [reflexivity|].
  assert (D : c0 = 240 \/ 241 <= c0 <= 243 \/ c0 = 244) by lia.
  destruct D as [D | [D | D]].
  - subst c0. eapply utf8_enc_eq; [apply (U8_4a c1 c2 c3); unfold utf8_tail; lia | unfold val4; lia].
  - eapply utf8_enc_eq; [apply (U8_4b c0 c1 c2 c3); unfold utf8_tail; lia | unfold val4; lia].
  - subst c0. eapply utf8_enc_eq; [apply (U8_4c c1 c2 c3); unfold utf8_tail; lia | unfold val4; lia].
Qed.

Lemma utf8_enc_bytes cp u : utf8_enc cp u -> Forall is_byte u.
Proof.
  intros H. destruct H; unfold utf8_tail in *; repeat (apply Forall_cons; [unfold is_byte; lia|]); apply Forall_nil.
Qed.

Lemma utf8_enc_length cp u : utf8_enc cp u -> (1 <= length u <= 4)%nat.
Proof. intros H. destruct H; cbn [length]; lia. Qed.

Lemma utf8_decode_exact_l bs p : Forall is_byte bs -> forall v n,
  peek_utf8 (mkcur bs p) = PSome v n <-> exists cp, v = Z.of_N cp /\ wf_utf8_prefix bs cp n.
Proof.
  intros F v n. rewrite (peek_utf8_arith bs p F). split.
  - apply utf8_arith_sound.
  - intros [cp [Ev [u [tl [Eb [El Hu]]]]]]. subst v bs n. apply utf8_arith_complete. exact Hu.
Qed.

Lemma peek_utf8_never_oob c : peek_utf8 c <> POob.
Proof.
  destruct c as [bs p]. unfold peek_utf8, rd, peek_at, in_empty, in_size. cbn [rest].
  destruct bs as [|c0 [|c1 [|c2 [|c3 tl]]]]; cbn [nth_error length Nat.leb];
    repeat match goal with |- context [if ?b then _ else _] => destruct b end; discriminate.
Qed.

Lemma wf_utf8_prefix_unique bs cp n cp' n' :
  wf_utf8_prefix bs cp n -> wf_utf8_prefix bs cp' n' -> cp = cp' /\ n = n'.
Proof.
  intros [u [tl [Eb [El Hu]]]] [u' [tl' [Eb' [El' Hu']]]].
  pose proof (utf8_arith_complete cp u tl Hu) as C1.
  pose proof (utf8_arith_complete cp' u' tl' Hu') as C2.
  rewrite <- Eb in C1. rewrite <- Eb' in C2. rewrite C1 in C2. inversion C2 as [[Ez En]].
  split; [apply N2Z.inj; exact Ez | congruence].
Qed.

Lemma utf8_decode_none_l bs p : Forall is_byte bs ->
  (peek_utf8 (mkcur bs p) = PNone <-> ~ exists cp n, wf_utf8_prefix bs cp n).
Proof.
  intros F. split.
  - intros E [cp [n W]].
    assert (K : peek_utf8 (mkcur bs p) = PSome (Z.of_N cp) n).
    { apply (utf8_decode_exact_l bs p F). exists cp. split; [reflexivity | exact W]. }
    rewrite E in K. discriminate.
  - intros NE. destruct (peek_utf8 (mkcur bs p)) as [|v n|] eqn:E.
    + reflexivity.
    + exfalso. apply NE. apply (utf8_decode_exact_l bs p F) in E. destruct E as [cp [_ W]]. exists cp, n. exact W.
    + exfalso. exact (peek_utf8_never_oob _ E).
Qed.

Lemma firstn_length_app (A : Type) (u tl : list A) : firstn (length u) (u ++ tl) = u.
Proof. induction u as [|x u IH]; cbn [length app firstn]; [reflexivity | rewrite IH; reflexivity]. Qed.

(* every truncation of a well-formed unit is rejected *)
Lemma utf8_truncation_none_l cp u k p : utf8_enc cp u -> (k < length u)%nat ->
  peek_utf8 (mkcur (firstn k u) p) = PNone.
Proof.
  intros Hu Hk.
  assert (F : Forall is_byte (firstn k u)).
  { apply Forall_forall. intros x Hx. pose proof (utf8_enc_bytes cp u Hu) as Fu.
    rewrite Forall_forall in Fu. apply Fu. rewrite <- (firstn_skipn k u). apply in_or_app. left. exact Hx. }
  apply (utf8_decode_none_l _ p F). intros [cp' [n' [u' [tl' [Eb [El Hu']]]]]].
  assert (W1 : wf_utf8_prefix u cp' n').
  { exists u', (tl' ++ skipn k u). split; [|split; [exact El | exact Hu']].
    rewrite app_assoc, <- Eb. symmetry. apply firstn_skipn. }
  assert (W2 : wf_utf8_prefix u cp (length u)).
  { exists u, []. split; [symmetry; apply app_nil_r | split; [reflexivity | exact Hu]]. }
  destruct (wf_utf8_prefix_unique _ _ _ _ _ W1 W2) as [_ En].
  assert (L : (length (firstn k u) <= k)%nat) by apply firstn_le_length.
  rewrite Eb, app_length in L. lia.
Qed.

(* RFC 3629 section 4 table  <->  section 3 encoder restricted to scalar values *)
Lemma utf8_enc_iff_encode cp u : utf8_enc cp u <-> scalar cp /\ u = encode_utf8 cp.
Proof.
  split.
  - intros H. destruct H; unfold utf8_tail, scalar, encode_utf8, val2, val3, val4 in *.
    + split; [lia|]. if_lia. reflexivity.
    + split; [lia|]. if_lia. repeat f_equal; lia.
    + split; [lia|]. if_lia. repeat f_equal; lia.
    + split; [lia|]. if_lia. repeat f_equal; lia.
    + split; [lia|]. if_lia. repeat f_equal; lia.
    + split; [lia|]. if_lia. repeat f_equal; lia.
    + split; [lia|]. if_lia. repeat f_equal; lia.
    + split; [lia|]. if_lia. repeat f_equal; lia.
    + split; [lia|]. if_lia. repeat f_equal; lia.
  - intros [S E]. subst u. unfold scalar in S. unfold encode_utf8.
    destruct (cp <? 128) eqn:E1.
    { apply U8_1. lia. }
    destruct (cp <? 2048) eqn:E2.
    { eapply utf8_enc_eq; [apply U8_2; unfold utf8_tail; lia | unfold val2; lia]. }
    destruct (cp <? 65536) eqn:E3.
    { assert (D : cp < 4096 \/ 4096 <= cp < 53248 \/ 53248 <= cp < 55296 \/ 57344 <= cp) by lia.
      destruct D as [D | [D | [D | D]]].
      - eapply utf8_enc_eq2; [apply (U8_3a (128 + (cp / 64) mod 64) (128 + cp mod 64)); unfold utf8_tail; lia
                             | unfold val3; lia | repeat f_equal; lia].
      - eapply utf8_enc_eq; [apply U8_3b; unfold utf8_tail; lia | unfold val3; lia].
      - eapply utf8_enc_eq2; [apply (U8_3c (128 + (cp / 64) mod 64) (128 + cp mod 64)); unfold utf8_tail; lia
                             | unfold val3; lia | repeat f_equal; lia].
      - eapply utf8_enc_eq; [apply U8_3d; unfold utf8_tail; lia | unfold val3; lia]. }
    assert (D : cp < 262144 \/ 262144 <= cp < 1048576 \/ 1048576 <= cp) by lia.
    destruct D as [D | [D | D]].
    + eapply utf8_enc_eq2; [apply (U8_4a (128 + (cp / 4096) mod 64) (128 + (cp / 64) mod 64) (128 + cp mod 64)); unfold utf8_tail; lia
                           | unfold val4; lia | repeat f_equal; lia].
    + eapply utf8_enc_eq; [apply U8_4b; unfold utf8_tail; lia | unfold val4; lia].
    + eapply utf8_enc_eq2; [apply (U8_4c (128 + (cp / 4096) mod 64) (128 + (cp / 64) mod 64) (128 + cp mod 64)); unfold utf8_tail; lia
                           | unfold val4; lia | repeat f_equal; lia].
Qed.

Lemma wf_utf8_prefix_encode bs cp n :
  wf_utf8_prefix bs cp n <-> scalar cp /\ n = length (encode_utf8 cp) /\ firstn n bs = encode_utf8 cp.
Proof.
  split.
  - intros [u [tl [Eb [El Hu]]]]. apply utf8_enc_iff_encode in Hu. destruct Hu as [S Eu].
    split; [exact S|]. rewrite <- Eu. split; [symmetry; exact El|]. subst bs n. apply firstn_length_app.
  - intros [S [En Ef]]. exists (firstn n bs), (skipn n bs). split; [symmetry; apply firstn_skipn|].
    split; [rewrite Ef; symmetry; exact En|]. apply utf8_enc_iff_encode. split; [exact S | exact Ef].
Qed.

Lemma utf8_decode_encode_l bs p : Forall is_byte bs -> forall v n,
  peek_utf8 (mkcur bs p) = PSome v n <->
  exists cp, scalar cp /\ v = Z.of_N cp /\ n = length (encode_utf8 cp) /\ firstn n bs = encode_utf8 cp.
Proof.
  intros F v n. rewrite (utf8_decode_exact_l bs p F). split.
  - intros [cp [Ev W]]. apply wf_utf8_prefix_encode in W. exists cp. tauto.
  - intros [cp [S [Ev W]]]. exists cp. split; [exact Ev|]. apply wf_utf8_prefix_encode. tauto.
Qed.

Lemma utf8_roundtrip_l cp tl p : scalar cp -> Forall is_byte tl ->
  peek_utf8 (mkcur (encode_utf8 cp ++ tl) p) = PSome (Z.of_N cp) (length (encode_utf8 cp))
  /\ length (encode_utf8 cp) = (if cp <? 0x80 then 1%nat else if cp <? 0x800 then 2%nat else if cp <? 0x10000 then 3%nat else 4%nat).
Proof.
  intros S Ft. split.
  - assert (Hu : utf8_enc cp (encode_utf8 cp)) by (apply utf8_enc_iff_encode; split; [exact S | reflexivity]).
    assert (F : Forall is_byte (encode_utf8 cp ++ tl)).
    { apply Forall_app. split; [eapply utf8_enc_bytes; exact Hu | exact Ft]. }
    apply (utf8_decode_exact_l _ p F). exists cp. split; [reflexivity|].
    exists (encode_utf8 cp), tl. split; [reflexivity | split; [reflexivity | exact Hu]].
  - unfold encode_utf8. destruct (cp <? 128); [reflexivity|]. destruct (cp <? 2048); [reflexivity|].
    destruct (cp <? 65536); reflexivity.
Qed.

(* the classes of ill-formed input named in the property text, explicitly *)
Lemma utf8_rejects_l bs p : Forall is_byte bs ->
  match bs with
  | [] => True
  | c0 :: t =>
      (* stray continuation byte, overlong 2-byte leads C0/C1, leads F5..FF *)
      (0x80 <= c0 <= 0xC1 \/ 0xF5 <= c0) \/
      match t with
      | [] => 0xC2 <= c0                                   (* truncated after the lead *)
      | c1 :: t1 =>
          (0xC2 <= c0 /\ ~ utf8_tail c1) \/                 (* second byte is not a continuation *)
          (c0 = 0xE0 /\ c1 < 0xA0) \/                       (* overlong 3-byte form *)
          (c0 = 0xED /\ 0xA0 <= c1) \/                      (* surrogate D800..DFFF *)
          (c0 = 0xF0 /\ c1 < 0x90) \/                       (* overlong 4-byte form *)
          (c0 = 0xF4 /\ 0x90 <= c1) \/                      (* above U+10FFFF *)
          match t1 with
          | [] => 0xE0 <= c0                               (* truncated 3/4-byte sequence *)
          | c2 :: t2 =>
              (0xE0 <= c0 /\ ~ utf8_tail c2) \/
              match t2 with
              | [] => 0xF0 <= c0                           (* truncated 4-byte sequence *)
              | c3 :: _ => 0xF0 <= c0 /\ ~ utf8_tail c3
              end
          end
      end
  end -> peek_utf8 (mkcur bs p) = PNone.
Proof.
  intros F. destruct bs as [|c0 t]; [intros _; reflexivity|].
  intros Bad. apply (utf8_decode_none_l _ p F). intros [cp [n [u [tl [Eb [El Hu]]]]]].
  destruct Hu; cbn [app] in Eb; inversion Eb; subst; clear Eb; unfold utf8_tail in *;
    repeat (cbn beta iota in Bad;
            match goal with
            | H : _ \/ _ |- _ => destruct H as [H | H]
            | H : match ?l with [] => _ | _ :: _ => _ end |- _ => destruct l
            end); lia.
Qed.

(* ====================================================================================== *)
(* 3. raw unsigned reads (read_uint.hpp / endian.hpp) and the uintN decoders               *)
(* ====================================================================================== *)

Definition ord (e : endian) : order := match e with BE => BigEndian | LE => LittleEndian end.

Lemma skipn_nth (A : Type) (bs : list A) : forall off b, nth_error bs off = Some b -> skipn off bs = b :: skipn (S off) bs.
Proof.
  induction bs as [|x bs IH]; intros [|off] b H; cbn [nth_error skipn] in *; try discriminate.
  - inversion H. reflexivity.
  - apply IH. exact H.
Qed.

Lemma read_be_ok bs p k : forall w off acc, (off + w <= length bs)%nat ->
  read_be (mkcur bs p) off w acc k = k (fold_left (fun a b => a * 256 + b) (firstn w (skipn off bs)) acc).
Proof.
  induction w as [|w IH]; intros off acc H.
  - reflexivity.
  - cbn [read_be]. unfold rd, peek_at. cbn [rest].
    destruct (nth_error bs off) as [b|] eqn:E.
    + rewrite IH by lia. rewrite (skipn_nth _ bs off b E). reflexivity.
    + apply nth_error_None in E. lia.
Qed.

Lemma read_le_ok bs p k : forall w off shift acc, (off + w <= length bs)%nat ->
  read_le (mkcur bs p) off w shift acc k = k (acc + 2 ^ shift * le_value (firstn w (skipn off bs))).
Proof.
  induction w as [|w IH]; intros off shift acc H.
  - cbn [read_le firstn le_value]. rewrite N.mul_0_r, N.add_0_r. reflexivity.
  - cbn [read_le]. unfold rd, peek_at. cbn [rest].
    destruct (nth_error bs off) as [b|] eqn:E.
    + rewrite IH by lia. rewrite (skipn_nth _ bs off b E). cbn [firstn le_value]. f_equal.
      rewrite N.shiftl_mul_pow2, N.pow_add_r. change (2 ^ 8) with 256. ring.
    + apply nth_error_None in E. lia.
Qed.

Lemma read_uint_ok e bs p k off w : (off + w <= length bs)%nat ->
  read_uint e (mkcur bs p) off w k = k (ord_value (ord e) (firstn w (skipn off bs))).
Proof.
  intros H. unfold read_uint. destruct e; cbn [ord ord_value].
  - rewrite read_be_ok by exact H. reflexivity.
  - rewrite read_le_ok by exact H. rewrite N.pow_0_r, N.mul_1_l, N.add_0_l. reflexivity.
Qed.

Definition mask_opt (m : option N) (v : N) : N := match m with None => v | Some mk => N.land v mk end.

Lemma peek_uint_exact_l w e m bs p :
  peek_uint w e m (mkcur bs p) =
  if (length bs <? w)%nat then PNone
  else PSome (Z.of_N (mask_opt m (ord_value (ord e) (firstn w bs)))) w.
Proof.
  unfold peek_uint, in_size. cbn [rest]. destruct (length bs <? w)%nat eqn:E; [reflexivity|].
  apply Nat.ltb_ge in E. rewrite read_uint_ok by lia. reflexivity.
Qed.

Lemma peek_uint8_exact_l m bs p :
  peek_uint8 m (mkcur bs p) =
  match bs with [] => PNone | b :: _ => PSome (Z.of_N (mask_opt m b)) 1 end.
Proof. destruct bs as [|b tl]; reflexivity. Qed.

(* the 1-byte decoders agree with the generic w-byte reading at w = 1 (either order) *)
Lemma peek_uint8_as_width1 m e bs p : peek_uint8 m (mkcur bs p) = peek_uint 1 e m (mkcur bs p).
Proof.
  rewrite peek_uint8_exact_l, peek_uint_exact_l. destruct bs as [|b tl]; [reflexivity|].
  cbn [length Nat.ltb Nat.leb firstn]. destruct e; cbn [ord ord_value be_value le_value fold_left];
    do 3 f_equal; lia.
Qed.

Lemma be_value_acc l : forall acc, fold_left (fun a b => a * 256 + b) l acc = acc * 256 ^ N.of_nat (length l) + be_value l.
Proof.
  unfold be_value. induction l as [|b l IH]; intros acc.
  - cbn [fold_left length]. change (256 ^ N.of_nat 0) with 1. lia.
  - cbn [fold_left length]. rewrite IH. rewrite (IH (0 * 256 + b)).
    rewrite Nat2N.inj_succ, N.pow_succ_r'. ring.
Qed.

Lemma be_value_cons b l : be_value (b :: l) = b * 256 ^ N.of_nat (length l) + be_value l.
Proof. unfold be_value at 1. cbn [fold_left]. rewrite be_value_acc. ring. Qed.

Lemma be_value_snoc l b : be_value (l ++ [b]) = be_value l * 256 + b.
Proof. unfold be_value. rewrite fold_left_app. reflexivity. Qed.

(* little-endian value = big-endian value of the reversed bytes (the byte swap of endian_gcc.hpp) *)
Lemma le_value_rev l : le_value l = be_value (rev l).
Proof.
  induction l as [|b l IH]; [reflexivity|].
  cbn [le_value rev]. rewrite be_value_snoc, <- IH. ring.
Qed.

Lemma be_value_bound l : Forall is_byte l -> be_value l < 256 ^ N.of_nat (length l).
Proof.
  induction l as [|b l IH]; intros F.
  - cbn. lia.
  - apply Forall_cons_iff in F. destruct F as [B F]. unfold is_byte in B. specialize (IH F).
    rewrite be_value_cons. cbn [length]. rewrite Nat2N.inj_succ, N.pow_succ_r'.
    remember (256 ^ N.of_nat (length l)) as P. nia.
Qed.

Lemma ord_value_bound o l : Forall is_byte l -> ord_value o l < 2 ^ (8 * N.of_nat (length l)).
Proof.
  intros F. rewrite N.pow_mul_r. change (2 ^ 8) with 256. destruct o; cbn [ord_value].
  - apply be_value_bound. exact F.
  - rewrite le_value_rev, <- rev_length. apply be_value_bound. apply Forall_rev. exact F.
Qed.

Lemma mask_opt_le m v : mask_opt m v <= v.
Proof.
  destruct m as [mk|]; cbn [mask_opt]; [|lia].
  destruct (N.eq_dec v 0) as [Z | NZ]; [subst v; rewrite N.land_0_l; lia|].
  destruct (N.eq_dec (N.land v mk) 0) as [Z2 | NZ2]; [lia|].
  apply N.ldiff_le. apply N.bits_inj_0. intros i. rewrite N.ldiff_spec, N.land_spec.
  destruct (N.testbit v i); destruct (N.testbit mk i); reflexivity.
Qed.

(* explicit positional formulas for the widths PEGTL instantiates *)
Lemma ord_value_2 o b0 b1 :
  ord_value o [b0; b1] = match o with BigEndian => b0 * 256 + b1 | LittleEndian => b0 + 256 * b1 end.
Proof. destruct o; cbn [ord_value be_value le_value fold_left]; lia. Qed.

Lemma ord_value_4 o b0 b1 b2 b3 :
  ord_value o [b0; b1; b2; b3] =
  match o with
  | BigEndian => b0 * 16777216 + b1 * 65536 + b2 * 256 + b3
  | LittleEndian => b0 + 256 * b1 + 65536 * b2 + 16777216 * b3
  end.
Proof. destruct o; cbn [ord_value be_value le_value fold_left]; lia. Qed.

Lemma ord_value_8 o b0 b1 b2 b3 b4 b5 b6 b7 :
  ord_value o [b0; b1; b2; b3; b4; b5; b6; b7] =
  match o with
  | BigEndian => b0 * 2 ^ 56 + b1 * 2 ^ 48 + b2 * 2 ^ 40 + b3 * 2 ^ 32 + b4 * 2 ^ 24 + b5 * 2 ^ 16 + b6 * 2 ^ 8 + b7
  | LittleEndian => b0 + b1 * 2 ^ 8 + b2 * 2 ^ 16 + b3 * 2 ^ 24 + b4 * 2 ^ 32 + b5 * 2 ^ 40 + b6 * 2 ^ 48 + b7 * 2 ^ 56
  end.
Proof.
  destruct o; cbn [ord_value be_value le_value fold_left].
  - change (2 ^ 56) with 72057594037927936. change (2 ^ 48) with 281474976710656.
    change (2 ^ 40) with 1099511627776. change (2 ^ 32) with 4294967296.
    change (2 ^ 24) with 16777216. change (2 ^ 16) with 65536. change (2 ^ 8) with 256. lia.
  - change (2 ^ 56) with 72057594037927936. change (2 ^ 48) with 281474976710656.
    change (2 ^ 40) with 1099511627776. change (2 ^ 32) with 4294967296.
    change (2 ^ 24) with 16777216. change (2 ^ 16) with 65536. change (2 ^ 8) with 256. lia.
Qed.

(* ====================================================================================== *)
(* 4. UTF-16 and UTF-32                                                                    *)
(* ====================================================================================== *)

Definition utf16_arith (o : order) (bs : list N) : peekres :=
  match bs with
  | b0 :: b1 :: t =>
      let t16 := ord_value o [b0; b1] in
      if (t16 <? 55296) || (57343 <? t16) then PSome (Z.of_N t16) 2
      else if 56320 <=? t16 then PNone
      else match t with
           | b2 :: b3 :: _ =>
               let u := ord_value o [b2; b3] in
               if (56320 <=? u) && (u <=? 57343)
               then PSome (Z.of_N ((t16 mod 1024) * 1024 + u mod 1024 + 65536)) 4
               else PNone
           | _ => PNone
           end
  | _ => PNone
  end.

Lemma peek_utf16_arith e (bs : list N) p : peek_utf16 e (mkcur bs p) = utf16_arith (ord e) bs.
Proof.
  unfold peek_utf16, utf16_arith, in_size. cbn [rest].
  destruct bs as [|b0 [|b1 t]]; [reflexivity|reflexivity|].
  cbn [length Nat.ltb Nat.leb]. rewrite read_uint_ok by (cbn [length]; lia).
  cbn [skipn firstn]. cbv zeta. unfold byte in *.
  destruct ((ord_value (ord e) [b0; b1] <? 55296) || (57343 <? ord_value (ord e) [b0; b1])); [reflexivity|].
  destruct (56320 <=? ord_value (ord e) [b0; b1]); [reflexivity|]. cbn [orb].
  destruct t as [|b2 [|b3 t']]; [reflexivity|reflexivity|].
  cbn [Nat.leb]. rewrite read_uint_ok by (cbn [length]; lia).
  cbn [skipn firstn]. rewrite comb10, land1023. reflexivity.
Qed.

Lemma utf16_enc_eq cp cp' us : utf16_enc cp us -> cp = cp' -> utf16_enc cp' us.
Proof. intros H E. subst cp'. exact H. Qed.

Lemma utf16_arith_complete o cp us tl : utf16_enc cp us ->
  utf16_arith o (flat_map (u16_bytes o) us ++ tl) = PSome (Z.of_N cp) (length (flat_map (u16_bytes o) us)).
Proof.
  intros H. destruct H as [u Hu | h l Hh Hl].
  - destruct o; cbn [flat_map u16_bytes app length]; unfold utf16_arith; rewrite ord_value_2; cbv zeta.
    + replace (u / 256 * 256 + u mod 256) with u by lia.
      destruct ((u <? 55296) || (57343 <? u)) eqn:E; [reflexivity | lia].
    + replace (u mod 256 + 256 * (u / 256)) with u by lia.
      destruct ((u <? 55296) || (57343 <? u)) eqn:E; [reflexivity | lia].
  - destruct o; cbn [flat_map u16_bytes app length]; unfold utf16_arith; rewrite !ord_value_2; cbv zeta.
    + replace (h / 256 * 256 + h mod 256) with h by lia.
      replace (l / 256 * 256 + l mod 256) with l by lia.
      destruct ((h <? 55296) || (57343 <? h)) eqn:E1; [lia|].
      destruct (56320 <=? h) eqn:E2; [lia|].
      destruct ((56320 <=? l) && (l <=? 57343)) eqn:E3; [|lia].
      do 2 f_equal. lia.
    + replace (h mod 256 + 256 * (h / 256)) with h by lia.
      replace (l mod 256 + 256 * (l / 256)) with l by lia.
      destruct ((h <? 55296) || (57343 <? h)) eqn:E1; [lia|].
      destruct (56320 <=? h) eqn:E2; [lia|].
      destruct ((56320 <=? l) && (l <=? 57343)) eqn:E3; [|lia].
      do 2 f_equal. lia.
Qed.

Lemma u16_bytes_value o b0 b1 : b0 < 256 -> b1 < 256 -> u16_bytes o (ord_value o [b0; b1]) = [b0; b1].
Proof.
  intros B0 B1. rewrite ord_value_2. destruct o; cbn [u16_bytes]; repeat f_equal; lia.
Qed.

Lemma utf16_arith_sound o bs v n : Forall is_byte bs -> utf16_arith o bs = PSome v n ->
  exists cp, v = Z.of_N cp /\ wf_utf16_prefix o bs cp n.
Proof.
  unfold utf16_arith, wf_utf16_prefix. intros F H.
  destruct bs as [|b0 [|b1 t]]; [discriminate|discriminate|].
  apply Forall_cons_iff in F. destruct F as [B0 F]. apply Forall_cons_iff in F. destruct F as [B1 F].
  unfold is_byte in B0, B1. cbv zeta in H.
  pose proof (u16_bytes_value o b0 b1 B0 B1) as U0.
  assert (R0 : ord_value o [b0; b1] < 65536) by (rewrite ord_value_2; destruct o; lia).
  remember (ord_value o [b0; b1]) as t16 eqn:Et.
  destruct ((t16 <? 55296) || (57343 <? t16)) eqn:E1.
  { inversion H; subst v n. exists t16. split; [reflexivity|]. exists [t16], t.
    cbn [flat_map app]. rewrite app_nil_r, U0. split; [reflexivity|]. split; [reflexivity|].
    apply U16_bmp. lia. }
  destruct (56320 <=? t16) eqn:E2; [discriminate|].
  destruct t as [|b2 [|b3 t']]; [discriminate|discriminate|].
  apply Forall_cons_iff in F. destruct F as [B2 F]. apply Forall_cons_iff in F. destruct F as [B3 F].
  unfold is_byte in B2, B3.
  pose proof (u16_bytes_value o b2 b3 B2 B3) as U1.
  remember (ord_value o [b2; b3]) as u16 eqn:Eu.
  destruct ((56320 <=? u16) && (u16 <=? 57343)) eqn:E3; [|discriminate].
  inversion H; subst v n. eexists. split; [reflexivity|]. exists [t16; u16], t'.
  cbn [flat_map app]. rewrite app_nil_r, U0, U1. split; [reflexivity|]. split; [reflexivity|].
  eapply utf16_enc_eq; [apply (U16_pair t16 u16); lia | lia].
Qed.

Lemma utf16_decode_exact_l e (bs : list N) p : Forall is_byte bs -> forall v n,
  peek_utf16 e (mkcur bs p) = PSome v n <-> exists cp, v = Z.of_N cp /\ wf_utf16_prefix (ord e) bs cp n.
Proof.
  intros F v n. rewrite peek_utf16_arith. split.
  - apply utf16_arith_sound. exact F.
  - intros [cp [Ev [us [tl [Eb [El Hu]]]]]]. subst v bs n. apply utf16_arith_complete. exact Hu.
Qed.

Lemma peek_utf16_never_oob e c : peek_utf16 e c <> POob.
Proof.
  destruct c as [bs p]. rewrite peek_utf16_arith. unfold utf16_arith.
  destruct bs as [|b0 [|b1 t]]; try discriminate. cbv zeta.
  repeat match goal with |- context [if ?b then _ else _] => destruct b end; try discriminate.
  destruct t as [|b2 [|b3 t']]; try discriminate.
  repeat match goal with |- context [if ?b then _ else _] => destruct b end; discriminate.
Qed.

Lemma utf16_decode_none_l e (bs : list N) p : Forall is_byte bs ->
  (peek_utf16 e (mkcur bs p) = PNone <-> ~ exists cp n, wf_utf16_prefix (ord e) bs cp n).
Proof.
  intros F. split.
  - intros E [cp [n W]].
    assert (K : peek_utf16 e (mkcur bs p) = PSome (Z.of_N cp) n).
    { apply (utf16_decode_exact_l e bs p F). exists cp. split; [reflexivity | exact W]. }
    rewrite E in K. discriminate.
  - intros NE. destruct (peek_utf16 e (mkcur bs p)) as [|v n|] eqn:E.
    + reflexivity.
    + exfalso. apply NE. apply (utf16_decode_exact_l e bs p F) in E. destruct E as [cp [_ W]]. exists cp, n. exact W.
    + exfalso. exact (peek_utf16_never_oob _ _ E).
Qed.

Lemma utf16_enc_iff_encode cp us : utf16_enc cp us <-> scalar cp /\ us = encode_utf16 cp.
Proof.
  unfold scalar, encode_utf16. split.
  - intros H. destruct H as [u Hu | h l Hh Hl].
    + split; [lia|]. destruct (u <? 65536) eqn:E; [reflexivity | lia].
    + split; [lia|]. destruct (65536 + (h - 55296) * 1024 + (l - 56320) <? 65536) eqn:E; [lia|].
      repeat f_equal; lia.
  - intros [S E]. subst us. destruct (cp <? 65536) eqn:E1.
    + apply U16_bmp. lia.
    + eapply utf16_enc_eq; [apply U16_pair; lia | lia].
Qed.

Lemma utf16_enc_units cp us : utf16_enc cp us -> Forall (fun u => u < 65536) us /\ (1 <= length us <= 2)%nat.
Proof.
  intros H. destruct H; (split; [repeat (apply Forall_cons; [lia|]); apply Forall_nil | cbn [length]; lia]).
Qed.

Lemma u16_bytes_are_bytes o u : u < 65536 -> Forall is_byte (u16_bytes o u).
Proof. intros H. destruct o; cbn [u16_bytes]; repeat (apply Forall_cons; [unfold is_byte; lia|]); apply Forall_nil. Qed.

(* truncations: a lone high surrogate, a stray low surrogate, an odd trailing byte *)
Lemma utf16_rejects_l e (bs : list N) p : Forall is_byte bs ->
  match bs with
  | [] => True
  | [_] => True                                                     (* fewer than 2 bytes *)
  | b0 :: b1 :: t =>
      let u := ord_value (ord e) [b0; b1] in
      (0xDC00 <= u <= 0xDFFF) \/                                     (* unpaired low surrogate *)
      (0xD800 <= u <= 0xDBFF /\
       match t with
       | b2 :: b3 :: _ => let l := ord_value (ord e) [b2; b3] in l < 0xDC00 \/ 0xDFFF < l   (* high surrogate not followed by low *)
       | _ => True                                                   (* truncated pair *)
       end)
  end -> peek_utf16 e (mkcur bs p) = PNone.
Proof.
  intros F Bad. rewrite peek_utf16_arith. unfold utf16_arith.
  destruct bs as [|b0 [|b1 t]]; [reflexivity|reflexivity|]. cbv zeta in *.
  remember (ord_value (ord e) [b0; b1]) as t16 eqn:Et.
  destruct ((t16 <? 55296) || (57343 <? t16)) eqn:E1; [lia|].
  destruct (56320 <=? t16) eqn:E2; [reflexivity|].
  destruct t as [|b2 [|b3 t']]; [reflexivity|reflexivity|].
  remember (ord_value (ord e) [b2; b3]) as u16 eqn:Eu.
  destruct ((56320 <=? u16) && (u16 <=? 57343)) eqn:E3; [lia | reflexivity].
Qed.

(* ---------- UTF-32 ---------- *)
Lemma u32_bytes_value o b0 b1 b2 b3 : b0 < 256 -> b1 < 256 -> b2 < 256 -> b3 < 256 ->
  u32_bytes o (ord_value o [b0; b1; b2; b3]) = [b0; b1; b2; b3].
Proof.
  intros B0 B1 B2 B3. rewrite ord_value_4. destruct o; cbn [u32_bytes]; repeat f_equal; lia.
Qed.

Lemma ord_value_u32_bytes o u : u < 4294967296 -> ord_value o (u32_bytes o u) = u.
Proof. intros H. destruct o; cbn [u32_bytes]; rewrite ord_value_4; lia. Qed.

Lemma peek_utf32_arith e (bs : list N) p :
  peek_utf32 e (mkcur bs p) =
  match bs with
  | b0 :: b1 :: b2 :: b3 :: _ =>
      let t := ord_value (ord e) [b0; b1; b2; b3] in
      if (t <=? 1114111) && negb ((55296 <=? t) && (t <=? 57343)) then PSome (Z.of_N t) 4 else PNone
  | _ => PNone
  end.
Proof.
  unfold peek_utf32, in_size. cbn [rest].
  destruct bs as [|b0 [|b1 [|b2 [|b3 t]]]]; try reflexivity.
  cbn [length Nat.ltb Nat.leb]. rewrite read_uint_ok by (cbn [length]; lia). unfold byte in *. reflexivity.
Qed.

Lemma utf32_decode_exact_l e (bs : list N) p : Forall is_byte bs -> forall v n,
  peek_utf32 e (mkcur bs p) = PSome v n <-> exists cp, v = Z.of_N cp /\ wf_utf32_prefix (ord e) bs cp n.
Proof.
  intros F v n. rewrite peek_utf32_arith. unfold wf_utf32_prefix, scalar. split.
  - intros H. destruct bs as [|b0 [|b1 [|b2 [|b3 t]]]]; try discriminate.
    apply Forall_cons_iff in F. destruct F as [B0 F]. apply Forall_cons_iff in F. destruct F as [B1 F].
    apply Forall_cons_iff in F. destruct F as [B2 F]. apply Forall_cons_iff in F. destruct F as [B3 F].
    unfold is_byte in *. cbv zeta in H.
    pose proof (u32_bytes_value (ord e) b0 b1 b2 b3 B0 B1 B2 B3) as U.
    remember (ord_value (ord e) [b0; b1; b2; b3]) as t32 eqn:Et.
    destruct ((t32 <=? 1114111) && negb ((55296 <=? t32) && (t32 <=? 57343))) eqn:E; [|discriminate].
    inversion H; subst v n. exists t32. split; [reflexivity|]. exists t. rewrite U.
    split; [reflexivity|]. split; [reflexivity | lia].
  - intros [cp [Ev [tl [Eb [En S]]]]]. subst v n bs.
    assert (L : cp < 4294967296) by lia.
    pose proof (ord_value_u32_bytes (ord e) cp L) as V.
    destruct (ord e); cbn [u32_bytes app] in *; cbv zeta; rewrite V;
      (destruct ((cp <=? 1114111) && negb ((55296 <=? cp) && (cp <=? 57343))) eqn:E; [reflexivity | lia]).
Qed.

Lemma peek_utf32_never_oob e c : peek_utf32 e c <> POob.
Proof.
  destruct c as [bs p]. rewrite peek_utf32_arith.
  destruct bs as [|b0 [|b1 [|b2 [|b3 t]]]]; try discriminate. cbv zeta.
  match goal with |- context [if ?b then _ else _] => destruct b end; discriminate.
Qed.

Lemma utf32_decode_none_l e (bs : list N) p : Forall is_byte bs ->
  (peek_utf32 e (mkcur bs p) = PNone <-> ~ exists cp n, wf_utf32_prefix (ord e) bs cp n).
Proof.
  intros F. split.
  - intros E [cp [n W]].
    assert (K : peek_utf32 e (mkcur bs p) = PSome (Z.of_N cp) n).
    { apply (utf32_decode_exact_l e bs p F). exists cp. split; [reflexivity | exact W]. }
    rewrite E in K. discriminate.
  - intros NE. destruct (peek_utf32 e (mkcur bs p)) as [|v n|] eqn:E.
    + reflexivity.
    + exfalso. apply NE. apply (utf32_decode_exact_l e bs p F) in E. destruct E as [cp [_ W]]. exists cp, n. exact W.
    + exfalso. exact (peek_utf32_never_oob _ _ E).
Qed.

(* the classes of ill-formed UTF-32 named in the property text *)
Lemma utf32_rejects_l e (bs : list N) p :
  ((length bs < 4)%nat \/
   (exists b0 b1 b2 b3 t, bs = b0 :: b1 :: b2 :: b3 :: t /\
      let u := ord_value (ord e) [b0; b1; b2; b3] in 0xD800 <= u <= 0xDFFF \/ 0x10FFFF < u)) ->
  peek_utf32 e (mkcur bs p) = PNone.
Proof.
  rewrite peek_utf32_arith. intros [L | [b0 [b1 [b2 [b3 [t [E Bad]]]]]]].
  - destruct bs as [|b0 [|b1 [|b2 [|b3 t]]]]; try reflexivity. cbn [length] in L. lia.
  - subst bs. cbv zeta in *. remember (ord_value (ord e) [b0; b1; b2; b3]) as t32 eqn:Et.
    destruct ((t32 <=? 1114111) && negb ((55296 <=? t32) && (t32 <=? 57343))) eqn:E; [lia | reflexivity].
Qed.

(* ====================================================================================== *)
(* 5. one / range / ranges: test_one is set membership (C `char` = signed data)            *)
(* ====================================================================================== *)

Lemma schar_range b : b < 256 -> (-128 <= schar b < 128)%Z.
Proof. intros H. unfold schar. destruct (b <? 128) eqn:E; lia. Qed.

Lemma schar_inj a b : a < 256 -> b < 256 -> schar a = schar b -> a = b.
Proof. intros Ha Hb. unfold schar. destruct (a <? 128) eqn:E1; destruct (b <? 128) eqn:E2; lia. Qed.

Lemma schar_ascii b : b < 128 -> schar b = Z.of_N b.
Proof. intros H. unfold schar. destruct (b <? 128) eqn:E; lia. Qed.

Lemma existsb_Zeqb_In v cs : existsb (Z.eqb v) cs = true <-> In v cs.
Proof.
  rewrite existsb_exists. split.
  - intros [x [Hx E]]. apply Z.eqb_eq in E. subst x. exact Hx.
  - intros H. exists v. split; [exact H | apply Z.eqb_refl].
Qed.

Lemma test_one_set_spec found cs v : test_one_set found cs v = true <-> (In v cs <-> found = true).
Proof.
  unfold test_one_set. rewrite Bool.eqb_true_iff. pose proof (existsb_Zeqb_In v cs) as X.
  destruct (existsb (Z.eqb v) cs); destruct found; split; intros H.
  - tauto.
  - reflexivity.
  - discriminate.
  - exfalso. destruct H as [H _]. assert (T : true = true) by reflexivity. apply X in T. apply H in T. discriminate.
  - discriminate.
  - exfalso. destruct H as [_ H]. assert (T : true = true) by reflexivity. apply H in T. apply X in T. discriminate.
  - split; intros K; [apply X in K; discriminate | discriminate].
  - reflexivity.
Qed.

Lemma test_one_range_spec found lo hi v :
  test_one_range found lo hi v = true <-> ((lo <= v <= hi)%Z <-> found = true).
Proof.
  unfold test_one_range. rewrite Bool.eqb_true_iff.
  destruct ((lo <=? v)%Z && (v <=? hi)%Z) eqn:E; destruct found; split; intros H; try reflexivity; try discriminate.
  - split; intros _; [reflexivity | lia].
  - exfalso. destruct H as [H _]. assert (K : (lo <= v <= hi)%Z) by lia. apply H in K. discriminate.
  - exfalso. destruct H as [_ H]. assert (K : (lo <= v <= hi)%Z) by (apply H; reflexivity). lia.
  - split; intros K; [lia | discriminate].
Qed.

(* ranges< Peek, Cs... >::test_impl: the pairs cs[2i], cs[2i+1] for 2i+1 < sizeof...(Cs), plus the
   trailing single cs[sizeof...(Cs)-1] when the count is odd *)
Definition in_ranges_spec (cs : list Z) (v : Z) : Prop :=
  (exists i, (2 * i + 1 < length cs)%nat /\ (nth (2 * i) cs 0 <= v <= nth (2 * i + 1) cs 0)%Z)
  \/ (Nat.odd (length cs) = true /\ v = last cs 0%Z).

Lemma test_ranges_spec_aux v : forall n cs, (length cs <= n)%nat ->
  (test_ranges cs v = true <-> in_ranges_spec cs v).
Proof.
  induction n as [|n IH]; intros cs L.
  - destruct cs as [|x cs]; [|cbn [length] in L; lia]. cbn [test_ranges]. unfold in_ranges_spec. cbn [length].
    split; [discriminate|]. intros [[i [Hi _]] | [Ho _]]; [lia | discriminate].
  - destruct cs as [|lo [|hi tl]].
    + cbn [test_ranges]. unfold in_ranges_spec. cbn [length].
      split; [discriminate|]. intros [[i [Hi _]] | [Ho _]]; [lia | discriminate].
    + cbn [test_ranges]. unfold in_ranges_spec. cbn [length last]. rewrite Z.eqb_eq. split.
      * intros E. right. split; [reflexivity | exact E].
      * intros [[i [Hi _]] | [_ E]]; [lia | exact E].
    + cbn [test_ranges]. rewrite orb_true_iff, andb_true_iff, !Z.leb_le.
      assert (Lt : (length tl <= n)%nat) by (cbn [length] in L; lia).
      rewrite (IH tl Lt). unfold in_ranges_spec. cbn [length]. split.
      * intros [R | [[i [Hi Hr]] | [Ho Hl]]].
        -- left. exists 0%nat. split; [lia | exact R].
        -- left. exists (S i). split; [lia|].
           replace (2 * S i + 1)%nat with (S (S (2 * i + 1))) by lia.
           replace (2 * S i)%nat with (S (S (2 * i))) by lia. exact Hr.
        -- right. split; [rewrite Nat.odd_succ_succ; exact Ho|].
           destruct tl as [|x tl']; [discriminate|]. exact Hl.
      * intros [[i [Hi Hr]] | [Ho Hl]].
        -- destruct i as [|j].
           ++ left. exact Hr.
           ++ right. left. exists j. split; [lia|].
              replace (2 * S j + 1)%nat with (S (S (2 * j + 1))) in Hr by lia.
              replace (2 * S j)%nat with (S (S (2 * j))) in Hr by lia. exact Hr.
        -- right. right. rewrite Nat.odd_succ_succ in Ho. split; [exact Ho|].
           destruct tl as [|x tl']; [discriminate|]. exact Hl.
Qed.

Lemma test_ranges_spec cs v : test_ranges cs v = true <-> in_ranges_spec cs v.
Proof. apply (test_ranges_spec_aux v (length cs) cs). lia. Qed.

(* ====================================================================================== *)
(* 6. the ASCII classes of ascii.hpp and the core rules of contrib/abnf.hpp                *)
(* ====================================================================================== *)

(* value test of a single-unit atom, as match() applies it to the decoder's data *)
Definition atom_spec (h : head) : option (peek * (Z -> bool)) :=
  match h with
  | HAny pk => Some (pk, fun _ => true)
  | HOne found pk cs => Some (pk, test_one_set found cs)
  | HRange found pk lo hi => Some (pk, test_one_range found lo hi)
  | HRanges pk cs => Some (pk, test_ranges cs)
  | _ => None
  end.

Definition atom_test (h : head) (v : Z) : bool :=
  match atom_spec h with Some (_, t) => t v | None => false end.

(* character literal as the value of a C `char` template argument *)
Definition ch (a : Ascii.ascii) : Z := schar (Ascii.N_of_ascii a).
Definition sc (n : N) : Z := schar n.                      (* static_cast< char >( n ) *)

Local Open Scope char_scope.
Local Open Scope string_scope.
(* TRANSCRIPTION of include/tao/pegtl/ascii.hpp, internal/identifier.hpp and contrib/abnf.hpp:
   (name, rule_t as a head, documented byte set from Utf.v).  The correspondence check runs
   every entry against the real rule of that name on all 256 byte values. *)
Definition class_table : list (String.string * head * list N) :=
  [ ("alnum",  HRanges PkChar [ch "a"; ch "z"; ch "A"; ch "Z"; ch "0"; ch "9"], set_alnum);
    ("alpha",  HRanges PkChar [ch "a"; ch "z"; ch "A"; ch "Z"], set_alpha);
    ("any",    HAny PkChar, set_any);
    ("blank",  HOne true PkChar [ch " "; sc 9], set_blank);
    ("digit",  HRange true PkChar (ch "0") (ch "9"), set_digit);
    ("identifier_first", HRanges PkChar [ch "a"; ch "z"; ch "A"; ch "Z"; ch "_"], set_ident_first);
    ("identifier_other", HRanges PkChar [ch "a"; ch "z"; ch "A"; ch "Z"; ch "0"; ch "9"; ch "_"], set_ident_other);
    ("lower",  HRange true PkChar (ch "a") (ch "z"), set_lower);
    ("nul",    HOne true PkChar [sc 0], set_nul);
    ("odigit", HRange true PkChar (ch "0") (ch "7"), set_odigit);
    ("print",  HRange true PkChar (sc 32) (sc 126), set_print);
    ("seven",  HRange true PkChar (sc 0) (sc 127), set_seven);
    ("space",  HOne true PkChar [ch " "; sc 10; sc 13; sc 9; sc 11; sc 12], set_space);
    ("upper",  HRange true PkChar (ch "A") (ch "Z"), set_upper);
    ("xdigit", HRanges PkChar [ch "0"; ch "9"; ch "a"; ch "f"; ch "A"; ch "F"], set_xdigit);
    ("abnf::ALPHA",  HRanges PkChar [ch "a"; ch "z"; ch "A"; ch "Z"], set_alpha);
    ("abnf::BIT",    HOne true PkChar [ch "0"; ch "1"], set_BIT);
    ("abnf::CHAR",   HRange true PkChar (sc 1) (sc 127), set_CHAR);
    ("abnf::CR",     HOne true PkChar [sc 13], set_CR);
    ("abnf::CTL",    HRanges PkChar [sc 0; sc 31; sc 127], set_CTL);
    ("abnf::DIGIT",  HRange true PkChar (ch "0") (ch "9"), set_digit);
    ("abnf::DQUOTE", HOne true PkChar [sc 34], set_DQUOTE);
    ("abnf::HEXDIG", HRanges PkChar [ch "0"; ch "9"; ch "a"; ch "f"; ch "A"; ch "F"], set_xdigit);
    ("abnf::HTAB",   HOne true PkChar [sc 9], set_HTAB);
    ("abnf::LF",     HOne true PkChar [sc 10], set_LF);
    ("abnf::OCTET",  HAny PkChar, set_any);
    ("abnf::SP",     HOne true PkChar [ch " "], set_SP);
    ("abnf::VCHAR",  HRange true PkChar (sc 33) (sc 126), set_VCHAR);
    ("abnf::WSP",    HOne true PkChar [ch " "; sc 9], set_WSP) ].
Local Close Scope string_scope.
Local Close Scope char_scope.

Definition class_entry_ok (e : String.string * head * list N) : bool :=
  forallb (fun b => Bool.eqb (atom_test (snd (fst e)) (schar b)) (memb b (snd e))) bytes256.

Lemma class_table_sweep : forallb class_entry_ok class_table = true.
Proof. vm_compute. reflexivity. Qed.

Lemma memb_In b l : memb b l = true <-> In b l.
Proof.
  unfold memb. rewrite existsb_exists. split.
  - intros [x [Hx E]]. apply N.eqb_eq in E. subst x. exact Hx.
  - intros H. exists b. split; [exact H | apply N.eqb_refl].
Qed.

Lemma class_exact_l name h doc : In (name, h, doc) class_table ->
  forall b, b < 256 -> (atom_test h (schar b) = true <-> In b doc).
Proof.
  intros Hin b Hb.
  pose proof (proj1 (forallb_forall _ _) class_table_sweep _ Hin) as K. unfold class_entry_ok in K.
  cbn [fst snd] in K. pose proof (sweep1 _ K b Hb) as K2. cbn beta in K2.
  apply Bool.eqb_prop in K2. rewrite K2. apply memb_In.
Qed.

(* ====================================================================================== *)
(* 7. istring: ASCII-only case folding                                                     *)
(* ====================================================================================== *)

Definition fold_eqb (c b : N) : bool :=
  (b =? c) || ((65 <=? c) && (c <=? 90) && (b =? c + 32)) || ((97 <=? c) && (c <=? 122) && (b + 32 =? c)).

Lemma ichar_equal_sweep :
  forallb (fun c => forallb (fun b => Bool.eqb (ichar_equal c b) (fold_eqb c b)) bytes256) bytes256 = true.
Proof. vm_compute. reflexivity. Qed.

Lemma fold_eqb_spec c b : fold_eqb c b = true <-> fold_eq c b.
Proof. unfold fold_eqb, fold_eq, is_upper, is_lower. lia. Qed.

Lemma ichar_equal_exact_l c b : c < 256 -> b < 256 -> (ichar_equal c b = true <-> fold_eq c b).
Proof.
  intros Hc Hb. pose proof (sweep2 _ ichar_equal_sweep c b Hc Hb) as K. cbn beta in K.
  apply Bool.eqb_prop in K. rewrite K. apply fold_eqb_spec.
Qed.

(* non-letters (in particular every byte >= 0x80, e.g. Latin-1 / UTF-8 letters) are never folded *)
Lemma fold_eq_nonletter c b : ~ is_upper c -> ~ is_lower c -> (fold_eq c b <-> b = c).
Proof. unfold fold_eq, is_upper, is_lower. lia. Qed.

Lemma ieqb_bytes_spec : forall cs bs, Forall is_byte cs -> Forall is_byte bs ->
  (ieqb_bytes cs bs = true <-> Forall2 fold_eq cs bs).
Proof.
  induction cs as [|c cs IH]; intros bs Fc Fb.
  - destruct bs as [|b bs]; cbn [ieqb_bytes]; split; intros H; try discriminate; try constructor. inversion H.
  - destruct bs as [|b bs]; cbn [ieqb_bytes].
    + split; intros H; [discriminate | inversion H].
    + apply Forall_cons_iff in Fc. destruct Fc as [Bc Fc]. apply Forall_cons_iff in Fb. destruct Fb as [Bb Fb].
      rewrite andb_true_iff, (ichar_equal_exact_l c b Bc Bb), (IH bs Fc Fb). split.
      * intros [H1 H2]. constructor; assumption.
      * intros H. inversion H; subst. split; assumption.
Qed.

Lemma eqb_bytes_spec : forall a b, eqb_bytes a b = true <-> a = b.
Proof.
  induction a as [|x a IH]; intros [|y b]; cbn [eqb_bytes]; split; intros H; try discriminate; try reflexivity.
  - apply andb_true_iff in H. destruct H as [H1 H2]. apply N.eqb_eq in H1. apply IH in H2. subst. reflexivity.
  - inversion H; subst. rewrite N.eqb_refl. cbn [andb]. apply IH. reflexivity.
Qed.

(* ====================================================================================== *)
(* 8. bumping and atom_consumes_N                                                          *)
(* ====================================================================================== *)

Lemma bump_scan_ok ch : forall n c, (n <= length (rest c))%nat ->
  exists c', bump_scan ch n c = Some c' /\ rest c' = skipn n (rest c) /\
             pbyte (cpos c') = pbyte (cpos c) + N.of_nat n.
Proof.
  induction n as [|n IH]; intros c L.
  - exists c. cbn [bump_scan skipn]. split; [reflexivity|]. split; [reflexivity | cbn; lia].
  - cbn [bump_scan]. destruct (rest c) as [|b tl] eqn:E; [cbn [length] in L; lia|].
    cbn [length] in L.
    destruct (IH (mkcur tl (bump1_pos ch (cpos c) b))) as [c' [H1 [H2 H3]]]; [cbn [rest]; lia|].
    exists c'. split; [exact H1|]. cbn [rest cpos skipn] in *. split; [exact H2|].
    rewrite H3. unfold bump1_pos. destruct (b =? ch); cbn [pbyte]; lia.
Qed.

Lemma drop_ok : forall n (l : list byte), (n <= length l)%nat -> drop n l = Some (skipn n l).
Proof.
  induction n as [|n IH]; intros l L; [reflexivity|].
  destruct l as [|x l]; [cbn [length] in L; lia|]. cbn [drop skipn]. apply IH. cbn [length] in L. lia.
Qed.

Lemma take_ok : forall n (l : list byte), (n <= length l)%nat -> take n l = Some (firstn n l).
Proof.
  induction n as [|n IH]; intros l L; [reflexivity|].
  destruct l as [|x l]; [cbn [length] in L; lia|]. cbn [take firstn]. rewrite IH by (cbn [length] in L; lia).
  reflexivity.
Qed.

Lemma bump_help_ok ch flag n c : (n <= length (rest c))%nat ->
  exists c', bump_help ch flag n c = Res Ok c' [] /\ rest c' = skipn n (rest c) /\
             pbyte (cpos c') = pbyte (cpos c) + N.of_nat n.
Proof.
  intros L. unfold bump_help. destruct flag.
  - destruct (bump_scan_ok ch n c L) as [c' [H1 H2]]. exists c'. rewrite H1. split; [reflexivity | exact H2].
  - unfold bump_in_line. rewrite (drop_ok n (rest c) L). eexists. split; [reflexivity|].
    cbn [rest cpos pbyte]. split; reflexivity.
Qed.

Lemma peek_char_exact_l bs p :
  peek_char (mkcur bs p) = match bs with [] => PNone | b :: _ => PSome (schar b) 1 end.
Proof. destruct bs; reflexivity. Qed.

Lemma do_peek_never_oob pk c : do_peek pk c <> POob.
Proof.
  destruct c as [bs p]. destruct pk; cbn [do_peek].
  - rewrite peek_char_exact_l. destruct bs; discriminate.
  - apply peek_utf8_never_oob.
  - rewrite peek_uint8_exact_l. destruct bs; discriminate.
  - rewrite peek_uint8_exact_l. destruct bs; discriminate.
  - rewrite peek_uint_exact_l. destruct (length bs <? w)%nat; discriminate.
  - rewrite peek_uint_exact_l. destruct (length bs <? w)%nat; discriminate.
  - apply peek_utf16_never_oob.
  - apply peek_utf32_never_oob.
Qed.

Lemma peek_utf8_size c v n : peek_utf8 c = PSome v n -> (1 <= n <= length (rest c))%nat /\ (n <= 4)%nat.
Proof.
  destruct c as [bs p]. unfold peek_utf8, rd, peek_at, in_empty, in_size. cbn [rest].
  destruct bs as [|c0 [|c1 [|c2 [|c3 tl]]]]; cbn [nth_error length Nat.leb];
    repeat match goal with |- context [if ?b then _ else _] => destruct b end;
    intros H; inversion H; subst; cbn [length]; lia.
Qed.

Lemma peek_utf16_size e c v n : peek_utf16 e c = PSome v n -> (1 <= n <= length (rest c))%nat /\ (n = 2 \/ n = 4)%nat.
Proof.
  destruct c as [bs p]. rewrite peek_utf16_arith. unfold utf16_arith. cbn [rest].
  destruct bs as [|b0 [|b1 t]]; try discriminate. cbv zeta. unfold byte in *.
  destruct ((ord_value (ord e) [b0; b1] <? 55296) || (57343 <? ord_value (ord e) [b0; b1])).
  { intros H; inversion H; subst; cbn [length]; lia. }
  destruct (56320 <=? ord_value (ord e) [b0; b1]); [discriminate|].
  destruct t as [|b2 [|b3 t']]; try discriminate.
  destruct ((56320 <=? ord_value (ord e) [b2; b3]) && (ord_value (ord e) [b2; b3] <=? 57343)); [|discriminate].
  intros H; inversion H; subst; cbn [length]; lia.
Qed.

Lemma peek_utf32_size e c v n : peek_utf32 e c = PSome v n -> (1 <= n <= length (rest c))%nat /\ n = 4%nat.
Proof.
  destruct c as [bs p]. rewrite peek_utf32_arith. cbn [rest].
  destruct bs as [|b0 [|b1 [|b2 [|b3 t]]]]; try discriminate. cbv zeta.
  match goal with |- context [if ?b then _ else _] => destruct b end; [|discriminate].
  intros H; inversion H; subst; cbn [length]; lia.
Qed.

(* a successful peek never reports more bytes than remain (C03 side condition of every atom) *)
Lemma do_peek_size pk c v n : do_peek pk c = PSome v n -> (n <= length (rest c))%nat.
Proof.
  destruct c as [bs p]. destruct pk; cbn [do_peek rest].
  - rewrite peek_char_exact_l. destruct bs; intros H; inversion H; cbn [length]; lia.
  - intros H. apply peek_utf8_size in H. cbn [rest] in H. lia.
  - rewrite peek_uint8_exact_l. destruct bs; intros H; inversion H; cbn [length]; lia.
  - rewrite peek_uint8_exact_l. destruct bs; intros H; inversion H; cbn [length]; lia.
  - rewrite peek_uint_exact_l. destruct (length bs <? w)%nat eqn:E; intros H; inversion H; subst.
    apply Nat.ltb_ge in E. exact E.
  - rewrite peek_uint_exact_l. destruct (length bs <? w)%nat eqn:E; intros H; inversion H; subst.
    apply Nat.ltb_ge in E. exact E.
  - intros H. apply peek_utf16_size in H. cbn [rest] in H. lia.
  - intros H. apply peek_utf32_size in H. cbn [rest] in H. lia.
Qed.

(* the documented size of the unit each Peek class decodes *)
Definition peek_sizes (pk : peek) (n : nat) : Prop :=
  match pk with
  | PkChar | PkUint8 | PkMaskUint8 _ => n = 1%nat
  | PkUtf8 => (1 <= n <= 4)%nat
  | PkUint w _ | PkMaskUint w _ _ => n = w
  | PkUtf16 _ => n = 2%nat \/ n = 4%nat
  | PkUtf32 _ => n = 4%nat
  end.

Lemma do_peek_sizes pk c v n : do_peek pk c = PSome v n -> peek_sizes pk n.
Proof.
  destruct c as [bs p]. destruct pk; cbn [do_peek peek_sizes].
  - rewrite peek_char_exact_l. destruct bs; intros H; inversion H; reflexivity.
  - intros H. apply peek_utf8_size in H. lia.
  - rewrite peek_uint8_exact_l. destruct bs; intros H; inversion H; reflexivity.
  - rewrite peek_uint8_exact_l. destruct bs; intros H; inversion H; reflexivity.
  - rewrite peek_uint_exact_l. destruct (length bs <? w)%nat; intros H; inversion H; reflexivity.
  - rewrite peek_uint_exact_l. destruct (length bs <? w)%nat; intros H; inversion H; reflexivity.
  - intros H. apply peek_utf16_size in H. lia.
  - intros H. apply peek_utf32_size in H. lia.
Qed.

Definition consumed (c c' : cursor) (n : nat) : Prop :=
  rest c' = skipn n (rest c) /\ (n <= length (rest c))%nat /\ pbyte (cpos c') = pbyte (cpos c) + N.of_nat n.

Definition atom_outcome (pk : peek) (test : Z -> bool) (c : cursor) (r : result) : Prop :=
  match do_peek pk c with
  | PSome v n => if test v then exists c', r = Res Ok c' [] /\ consumed c c' n
                 else r = Res Fail c []
  | PNone => r = Res Fail c []
  | POob => False
  end.

Lemma peek_test_bump_outcome ch pk test c : atom_outcome pk test c (peek_test_bump ch pk test c).
Proof.
  unfold atom_outcome, peek_test_bump. destruct (do_peek pk c) as [|v n|] eqn:D.
  - reflexivity.
  - destruct (test v); [|reflexivity].
    pose proof (do_peek_size pk c v n D) as L.
    destruct (bump_help_ok ch (test (ch_as_data pk ch)) n c L) as [c' [H1 [H2 H3]]].
    exists c'. split; [exact H1|]. unfold consumed. tauto.
  - exact (do_peek_never_oob pk c D).
Qed.

Lemma any_outcome ch pk c :
  atom_outcome pk (fun _ => true) c
    (match do_peek pk c with POob => Err | PNone => Res Fail c [] | PSome _ n => ok_or_err (bump_scan ch n c) end).
Proof.
  unfold atom_outcome. destruct (do_peek pk c) as [|v n|] eqn:D.
  - reflexivity.
  - pose proof (do_peek_size pk c v n D) as L.
    destruct (bump_scan_ok ch n c L) as [c' [H1 [H2 H3]]]. rewrite H1. cbn [ok_or_err].
    exists c'. split; [reflexivity|]. unfold consumed. tauto.
  - exact (do_peek_never_oob pk c D).
Qed.

Lemma atom_consumes_N_l eol h pk test c : atom_spec h = Some (pk, test) ->
  exists r, eval_atom eol h c = Some r /\ atom_outcome pk test c r.
Proof.
  intros S. destruct h; try discriminate; cbn [atom_spec] in S; inversion S; subst; clear S.
  - (* any *) destruct pk; cbn [eval_atom]; eexists; (split; [reflexivity|]); try apply any_outcome.
    (* any< peek_char >: the specialisation with in.empty() / in.bump() *)
    unfold atom_outcome. cbn [do_peek]. destruct c as [bs p]. rewrite peek_char_exact_l.
    unfold in_empty. cbn [rest]. destruct bs as [|b tl]; [reflexivity|].
    destruct (bump_scan_ok (eol_ch eol) 1 (mkcur (b :: tl) p)) as [c' [H1 [H2 H3]]]; [cbn [rest length]; lia|].
    rewrite H1. cbn [ok_or_err]. exists c'. split; [reflexivity|]. unfold consumed. cbn [rest length] in *.
    split; [exact H2|]. split; [lia | exact H3].
  - cbn [eval_atom]. eexists. split; [reflexivity|]. apply peek_test_bump_outcome.
  - cbn [eval_atom]. eexists. split; [reflexivity|]. apply peek_test_bump_outcome.
  - cbn [eval_atom]. eexists. split; [reflexivity|]. apply peek_test_bump_outcome.
Qed.

Lemma Forall_firstn_bytes n (l : list N) : Forall is_byte l -> Forall is_byte (firstn n l).
Proof.
  intros F. rewrite <- (firstn_skipn n l) in F. apply Forall_app in F. destruct F as [F _]. exact F.
Qed.

(* istring< Cs... >::match : size check, fold-compare, bump *)
Lemma istring_atom_l eol cs c : Forall is_byte cs -> Forall is_byte (rest c) ->
  exists r, eval_atom eol (HIString cs) c = Some r /\
    (((length cs <= length (rest c))%nat /\ Forall2 fold_eq cs (firstn (length cs) (rest c)) /\
      exists c', r = Res Ok c' [] /\ consumed c c' (length cs))
     \/ (~ ((length cs <= length (rest c))%nat /\ Forall2 fold_eq cs (firstn (length cs) (rest c))) /\
         r = Res Fail c [])).
Proof.
  intros Fc Fr. cbn [eval_atom]. cbv zeta. unfold in_size. unfold byte in *.
  match goal with |- context [(?a <=? ?b)%nat] => destruct (a <=? b)%nat eqn:E end;
    (eexists; split; [reflexivity|]).
  - apply Nat.leb_le in E. rewrite (take_ok _ _ E).
    pose proof (ieqb_bytes_spec cs (firstn (length cs) (rest c)) Fc (Forall_firstn_bytes _ _ Fr)) as I.
    destruct (ieqb_bytes cs (firstn (length cs) (rest c))) eqn:B.
    + left. split; [exact E|]. split; [apply I; reflexivity|].
      destruct (bump_help_ok (eol_ch eol) (existsb (N.eqb (eol_ch eol)) cs) (length cs) c E) as [c' [H1 [H2 H3]]].
      exists c'. split; [exact H1|]. unfold consumed. tauto.
    + right. split; [|reflexivity]. intros [_ F2]. apply I in F2. discriminate.
  - right. split; [|reflexivity]. intros [L _]. apply Nat.leb_gt in E. lia.
Qed.

Lemma string_atom_l eol cs c :
  exists r, eval_atom eol (HString cs) c = Some r /\
    (((length cs <= length (rest c))%nat /\ firstn (length cs) (rest c) = cs /\
      exists c', r = Res Ok c' [] /\ consumed c c' (length cs))
     \/ (~ ((length cs <= length (rest c))%nat /\ firstn (length cs) (rest c) = cs) /\ r = Res Fail c [])).
Proof.
  cbn [eval_atom]. cbv zeta. unfold in_size. unfold byte in *.
  match goal with |- context [(?a <=? ?b)%nat] => destruct (a <=? b)%nat eqn:E end;
    (eexists; split; [reflexivity|]).
  - apply Nat.leb_le in E. rewrite (take_ok _ _ E).
    pose proof (eqb_bytes_spec cs (firstn (length cs) (rest c))) as I.
    destruct (eqb_bytes cs (firstn (length cs) (rest c))) eqn:B.
    + left. split; [exact E|]. split; [symmetry; apply I; reflexivity|].
      destruct (bump_help_ok (eol_ch eol) (existsb (N.eqb (eol_ch eol)) cs) (length cs) c E) as [c' [H1 [H2 H3]]].
      exists c'. split; [exact H1|]. unfold consumed. tauto.
    + right. split; [|reflexivity]. intros [_ F2]. symmetry in F2. apply I in F2. discriminate.
  - right. split; [|reflexivity]. intros [L _]. apply Nat.leb_gt in E. lia.
Qed.

(* an atom over any decoder whose successful results are characterised by a relation W:
   it consumes exactly the decoded unit when, and only when, the unit's value passes the test *)
Lemma atom_exact_generic eol h pk test c (W : N -> nat -> Prop) :
  atom_spec h = Some (pk, test) ->
  (forall v n, do_peek pk c = PSome v n <-> exists cp, v = Z.of_N cp /\ W cp n) ->
  exists r, eval_atom eol h c = Some r /\
    ((exists cp n c', W cp n /\ test (Z.of_N cp) = true /\ r = Res Ok c' [] /\ consumed c c' n)
     \/ (r = Res Fail c [] /\ ~ exists cp n, W cp n /\ test (Z.of_N cp) = true)).
Proof.
  intros S X. destruct (atom_consumes_N_l eol h pk test c S) as [r [Er O]].
  exists r. split; [exact Er|]. unfold atom_outcome in O.
  destruct (do_peek pk c) as [|v n|] eqn:D.
  - right. split; [exact O|]. intros [cp [n [Hw _]]].
    assert (K : PNone = PSome (Z.of_N cp) n) by (apply X; exists cp; split; [reflexivity | exact Hw]).
    discriminate.
  - pose proof (proj1 (X v n) eq_refl) as [cp [Ev Hw]]. subst v.
    destruct (test (Z.of_N cp)) eqn:T.
    + left. destruct O as [c' [Er' Hc]]. exists cp, n, c'. tauto.
    + right. split; [exact O|]. intros [cp' [n' [Hw' T']]].
      assert (K : PSome (Z.of_N cp) n = PSome (Z.of_N cp') n') by (apply X; exists cp'; split; [reflexivity | exact Hw']).
      inversion K as [[Ez En]]. apply N2Z.inj in Ez. subst cp'. rewrite T in T'. discriminate.
  - destruct O.
Qed.

Lemma class_table_pk_sweep :
  forallb (fun e => match atom_spec (snd (fst e)) with Some (PkChar, _) => true | _ => false end) class_table = true.
Proof. vm_compute. reflexivity. Qed.

(* a class rule on a non-empty input consumes exactly one byte iff the byte is in the documented
   set; it fails without moving otherwise and on empty input *)
Lemma class_atom_exact_l name h doc eol bs p : In (name, h, doc) class_table -> Forall is_byte bs ->
  exists r, eval_atom eol h (mkcur bs p) = Some r /\
    match bs with
    | [] => r = Res Fail (mkcur bs p) []
    | b :: tl => (In b doc /\ exists c', r = Res Ok c' [] /\ rest c' = tl /\ pbyte (cpos c') = pbyte p + 1)
                 \/ (~ In b doc /\ r = Res Fail (mkcur bs p) [])
    end.
Proof.
  intros Hin F.
  pose proof (proj1 (forallb_forall _ _) class_table_pk_sweep _ Hin) as K. cbn [fst snd] in K.
  destruct (atom_spec h) as [[pk t]|] eqn:S; [|discriminate].
  destruct pk; try discriminate. clear K.
  destruct (atom_consumes_N_l eol h PkChar t (mkcur bs p) S) as [r [Er O]].
  exists r. split; [exact Er|]. unfold atom_outcome in O. cbn [do_peek] in O. rewrite peek_char_exact_l in O.
  destruct bs as [|b tl]; [exact O|].
  apply Forall_cons_iff in F. destruct F as [B _]. unfold is_byte in B.
  pose proof (class_exact_l name h doc Hin b B) as CE. unfold atom_test in CE. rewrite S in CE.
  destruct (t (schar b)) eqn:T.
  - left. split; [apply CE; reflexivity|]. destruct O as [c' [Er' [H1 [H2 H3]]]].
    exists c'. cbn [rest skipn cpos] in *. split; [exact Er'|]. split; [exact H1|]. rewrite H3. reflexivity.
  - right. split; [|exact O]. intros I. apply CE in I. discriminate.
Qed.

(* the three Unicode families end to end: rule consumes exactly the encoding length of a
   well-formed unit whose scalar value passes the rule's test *)
Lemma utf8_atom_exact_l eol h test bs p : atom_spec h = Some (PkUtf8, test) -> Forall is_byte bs ->
  exists r, eval_atom eol h (mkcur bs p) = Some r /\
    ((exists cp n c', wf_utf8_prefix bs cp n /\ test (Z.of_N cp) = true /\ r = Res Ok c' [] /\ consumed (mkcur bs p) c' n)
     \/ (r = Res Fail (mkcur bs p) [] /\ ~ exists cp n, wf_utf8_prefix bs cp n /\ test (Z.of_N cp) = true)).
Proof.
  intros S F. apply (atom_exact_generic eol h PkUtf8 test (mkcur bs p) (wf_utf8_prefix bs) S).
  intros v n. cbn [do_peek]. apply utf8_decode_exact_l. exact F.
Qed.

Lemma utf16_atom_exact_l eol h e test bs p : atom_spec h = Some (PkUtf16 e, test) -> Forall is_byte bs ->
  exists r, eval_atom eol h (mkcur bs p) = Some r /\
    ((exists cp n c', wf_utf16_prefix (ord e) bs cp n /\ test (Z.of_N cp) = true /\ r = Res Ok c' [] /\ consumed (mkcur bs p) c' n)
     \/ (r = Res Fail (mkcur bs p) [] /\ ~ exists cp n, wf_utf16_prefix (ord e) bs cp n /\ test (Z.of_N cp) = true)).
Proof.
  intros S F. apply (atom_exact_generic eol h (PkUtf16 e) test (mkcur bs p) (wf_utf16_prefix (ord e) bs) S).
  intros v n. cbn [do_peek]. apply utf16_decode_exact_l. exact F.
Qed.

Lemma utf32_atom_exact_l eol h e test bs p : atom_spec h = Some (PkUtf32 e, test) -> Forall is_byte bs ->
  exists r, eval_atom eol h (mkcur bs p) = Some r /\
    ((exists cp n c', wf_utf32_prefix (ord e) bs cp n /\ test (Z.of_N cp) = true /\ r = Res Ok c' [] /\ consumed (mkcur bs p) c' n)
     \/ (r = Res Fail (mkcur bs p) [] /\ ~ exists cp n, wf_utf32_prefix (ord e) bs cp n /\ test (Z.of_N cp) = true)).
Proof.
  intros S F. apply (atom_exact_generic eol h (PkUtf32 e) test (mkcur bs p) (wf_utf32_prefix (ord e) bs) S).
  intros v n. cbn [do_peek]. apply utf32_decode_exact_l. exact F.
Qed.

(* binary rules: the atom consumes exactly w bytes iff w bytes remain and the (masked) value passes *)
Lemma uint_atom_exact_l eol h w e m test bs p :
  atom_spec h = Some (match m with None => PkUint w e | Some mk => PkMaskUint w e mk end, test) ->
  exists r, eval_atom eol h (mkcur bs p) = Some r /\
    let v := Z.of_N (mask_opt m (ord_value (ord e) (firstn w bs))) in
    if (w <=? length bs)%nat && test v
    then exists c', r = Res Ok c' [] /\ consumed (mkcur bs p) c' w
    else r = Res Fail (mkcur bs p) [].
Proof.
  intros S. destruct (atom_consumes_N_l eol h _ test (mkcur bs p) S) as [r [Er O]].
  exists r. split; [exact Er|]. unfold atom_outcome in O. cbv zeta.
  assert (D : do_peek (match m with None => PkUint w e | Some mk => PkMaskUint w e mk end) (mkcur bs p)
              = peek_uint w e m (mkcur bs p)) by (destruct m; reflexivity).
  rewrite D, peek_uint_exact_l in O.
  destruct (length bs <? w)%nat eqn:E1.
  - apply Nat.ltb_lt in E1. assert (E2 : (w <=? length bs)%nat = false) by (apply Nat.leb_gt; exact E1).
    rewrite E2. exact O.
  - apply Nat.ltb_ge in E1. assert (E2 : (w <=? length bs)%nat = true) by (apply Nat.leb_le; exact E1).
    rewrite E2. cbn [andb]. exact O.
Qed.
