(* EquivString.v — C09: string< C... >  ==  seq< one< C >... >, cursor positions included, ON BYTE INPUTS.
   The model's input alphabet is N; string<> compares raw elements where one<> compares decoded chars (schar), which agree
   exactly on elements below 256 — the only ones a real input has.  So the equivalence is stated for cursors whose
   remaining input consists of bytes (refines_on), and for template characters that are bytes. *)
From Coq Require Import Lia Bool ZArith NArith.
From PegtlV Require Import Base Decode Grammar Engine EngineFacts AtomFacts Mono PosFacts Equiv EquivFacts EquivEval EquivHeads EquivTable EquivHeads2 EquivTable2 EquivAtoms2.
Local Open Scope N_scope.

Definition bytes (s : list byte) : Prop := Forall (fun b => b < 256) s.

Lemma schar_inj a b : a < 256 -> b < 256 -> schar a = schar b -> a = b.
Proof.
  unfold schar. intros Ha Hb. destruct (a <? 128) eqn:Ea; destruct (b <? 128) eqn:Eb; intros H;
  try apply N.ltb_lt in Ea; try apply N.ltb_lt in Eb; try apply N.ltb_ge in Ea; try apply N.ltb_ge in Eb; lia.
Qed.

Lemma drop_app_len (cs tl : list byte) : drop (length cs) (cs ++ tl) = Some tl.
Proof. induction cs; simpl; auto. Qed.
Lemma take_app_len (cs tl : list byte) : take (length cs) (cs ++ tl) = Some cs.
Proof. induction cs as [|x cs IH]; simpl; [reflexivity|]. rewrite IH. reflexivity. Qed.
Lemma take_prefix n : forall (l bs : list byte), take n l = Some bs -> exists tl, l = bs ++ tl /\ length bs = n.
Proof.
  induction n as [|n IH]; intros l bs H; simpl in H.
  - inversion H. exists l. split; reflexivity.
  - destruct l as [|x l]; [discriminate|]. destruct (take n l) as [bs'|] eqn:E; [|discriminate]. inversion H; subst.
    destruct (IH l bs' E) as [tl [-> L]]. exists tl. split; [reflexivity | simpl; lia].
Qed.
Lemma eqb_bytes_refl cs : eqb_bytes cs cs = true.
Proof. induction cs as [|x cs IH]; simpl; [reflexivity|]. rewrite N.eqb_refl, IH. reflexivity. Qed.
Lemma eqb_bytes_eq cs : forall bs, eqb_bytes cs bs = true -> cs = bs.
Proof.
  induction cs as [|x cs IH]; intros [|y bs] H; simpl in H; try discriminate; [reflexivity|].
  apply andb_true_iff in H. destruct H as [H1 H2]. apply N.eqb_eq in H1. subst. f_equal. apply IH. exact H2.
Qed.
Lemma prefix_dec (cs : list byte) : forall l, (exists tl, l = cs ++ tl) \/ (forall tl, l <> cs ++ tl).
Proof.
  induction cs as [|x cs IH]; intros l; [left; exists l; reflexivity|].
  destruct l as [|y l]; [right; intros tl H; discriminate|].
  destruct (N.eq_dec x y) as [->|Hn].
  - destruct (IH l) as [[tl ->]|H]; [left; exists tl; reflexivity | right; intros tl E; inversion E; eapply H; eauto].
  - right. intros tl E. inversion E. congruence.
Qed.

Lemma bump_scan_prefix ch (cs : list byte) : forall c tl, rest c = cs ++ tl -> bump_scan ch (length cs) c = Some (mkcur tl (track ch (cpos c) cs)).
Proof.
  induction cs as [|x cs IH]; intros c tl E; simpl in *.
  - destruct c; simpl in *; subst; reflexivity.
  - rewrite E. rewrite (IH (mkcur (cs ++ tl) (bump1_pos ch (cpos c) x)) tl eq_refl). reflexivity.
Qed.
Lemma existsb_false_forall ch (cs : list byte) : existsb (N.eqb ch) cs = false -> Forall (fun b => b <> ch) cs.
Proof.
  induction cs as [|x cs IH]; simpl; intros H; constructor.
  - apply orb_false_iff in H. destruct H as [H _]. apply N.eqb_neq in H. congruence.
  - apply IH. apply orb_false_iff in H. tauto.
Qed.
Lemma bump_help_prefix ch (cs : list byte) c tl : rest c = cs ++ tl ->
  bump_help ch (existsb (N.eqb ch) cs) (length cs) c = Res Ok (mkcur tl (track ch (cpos c) cs)) [].
Proof.
  intros E. unfold bump_help. destruct (existsb (N.eqb ch) cs) eqn:Ex.
  - rewrite (bump_scan_prefix ch cs c tl E). reflexivity.
  - unfold bump_in_line. rewrite E, drop_app_len. cbn [ok_or_err].
    rewrite (track_no_ch ch cs (cpos c) (existsb_false_forall ch cs Ex)). reflexivity.
Qed.

Lemma cseq_all_1 (f : closure) d c : cseq_all d [f] c = bind (f d c) ret.
Proof. reflexivity. Qed.

Section Str.
Variable C : cfg.
Notation ch := (eol_ch (ceol C)).
Definition c_string (cs : list byte) : closure := c_node C 0 (HString cs) [].
Definition ones (cs : list byte) : list closure := map (fun x => c_one1 C (schar x)) cs.

Lemma string_ok cs c tl d : rest c = cs ++ tl -> c_string cs d c = Res Ok (mkcur tl (track ch (cpos c) cs)) [].
Proof.
  intros E. unfold c_string, c_node, eval_head. cbn [eval_atom]. unfold in_size. rewrite E, app_length.
  replace (length cs <=? length cs + length tl)%nat with true by (symmetry; apply Nat.leb_le; lia).
  rewrite take_app_len, eqb_bytes_refl. apply bump_help_prefix. exact E.
Qed.
Lemma string_fail cs c d : (forall tl, rest c <> cs ++ tl) -> c_string cs d c = Res Fail c [].
Proof.
  intros H. unfold c_string, c_node, eval_head. cbn [eval_atom]. unfold in_size.
  destruct (length cs <=? length (rest c))%nat eqn:L; [|reflexivity]. apply Nat.leb_le in L.
  destruct (take_some (length cs) (rest c) L) as [bs Hb]. rewrite Hb.
  destruct (eqb_bytes cs bs) eqn:Eb; [|reflexivity]. apply eqb_bytes_eq in Eb. subst bs.
  destruct (take_prefix _ _ _ Hb) as [tl [E _]]. exfalso. exact (H tl E).
Qed.

Lemma one_test x b : b < 256 -> x < 256 -> test_one_set true [schar x] (schar b) = (b =? x).
Proof.
  intros Hb Hx. unfold test_one_set. cbn [existsb]. rewrite orb_false_r.
  destruct (N.eqb_spec b x) as [->|Hn]; [rewrite Z.eqb_refl; reflexivity|].
  destruct (Z.eqb_spec (schar b) (schar x)) as [E|E]; [|reflexivity]. exfalso. apply Hn. apply schar_inj; assumption.
Qed.

Lemma ones_ok d : forall cs c tl, bytes cs -> rest c = cs ++ tl ->
  exists evs, cseq_all d (ones cs) c = Res Ok (mkcur tl (track ch (cpos c) cs)) evs.
Proof.
  induction cs as [|x cs IH]; intros c tl Hb E.
  - simpl in E. exists []. destruct c; simpl in *; subst; reflexivity.
  - inversion Hb as [|? ? Hx Hcs]; subst. cbn [ones map]. rewrite cseq_all_cons, c_one1_eq.
    rewrite (ptb_char_exact _ _ c x (cs ++ tl) E). rewrite (one_test x x Hx Hx), N.eqb_refl.
    destruct (IH (mkcur (cs ++ tl) (bump1_pos ch (cpos c) x)) tl Hcs eq_refl) as [evs K].
    cbn [bind]. unfold ones in K. rewrite K. eexists. reflexivity.
Qed.
Lemma ones_fail d : forall cs c, bytes cs -> bytes (rest c) -> (forall tl, rest c <> cs ++ tl) ->
  exists c' evs, cseq_all d (ones cs) c = Res Fail c' evs.
Proof.
  induction cs as [|x cs IH]; intros c Hb Hc H.
  - exfalso. apply (H (rest c)). reflexivity.
  - inversion Hb as [|? ? Hx Hcs]; subst. cbn [ones map]. rewrite cseq_all_cons, c_one1_eq.
    destruct (rest c) as [|b l] eqn:E.
    + rewrite (ptb_char_empty _ _ c E). eexists; eexists; reflexivity.
    + inversion Hc as [|? ? Hb1 Hl]; subst. rewrite (ptb_char_exact _ _ c b l E), (one_test x b Hb1 Hx).
      destruct (N.eqb_spec b x) as [->|Hn]; [|eexists; eexists; reflexivity].
      destruct (IH (mkcur l (bump1_pos ch (cpos c) x)) Hcs Hl) as [c' [evs K]].
      { intros tl E2. simpl in E2. apply (H tl). rewrite E2. reflexivity. }
      cbn [bind]. unfold ones in K. rewrite K. eexists; eexists; reflexivity.
Qed.

(* pointwise, on byte inputs *)
Lemma string_seq d1 d2 cs c : bytes cs -> bytes (rest c) ->
  Sim false (dM d1) (dM d2) (c_string cs d1 c) (c_seq C (ones cs) d2 c) /\
  Sim false (dM d1) (dM d2) (c_seq C (ones cs) d1 c) (c_string cs d2 c).
Proof.
  intros Hb Hc. rewrite !c_seq_unfold. unfold ch_seq.
  destruct (prefix_dec cs (rest c)) as [[tl E]|H].
  - rewrite !(string_ok cs c tl _ E).
    destruct (ones cs) as [|f [|f2 fs]] eqn:Eo.
    + destruct cs; [|discriminate]. simpl in E. split; right; simpl; destruct c; simpl in *; subst; reflexivity.
    + destruct cs as [|x [|y cs']]; try discriminate. 
      destruct (ones_ok d2 [x] c tl Hb E) as [e2 K2]. destruct (ones_ok d1 [x] c tl Hb E) as [e1 K1].
      rewrite Eo in K1, K2. rewrite cseq_all_1 in K1, K2.
      destruct (f d1 c) as [[| |?] ? ?| |]; destruct (f d2 c) as [[| |?] ? ?| |]; simpl in K1, K2; try discriminate.
      inversion K1; inversion K2; subst. split; right; simpl; reflexivity.
    + rewrite <- Eo. destruct (ones_ok (opt_ d2) cs c tl Hb E) as [e2 ->]. destruct (ones_ok (opt_ d1) cs c tl Hb E) as [e1 ->].
      split; right; simpl; reflexivity.
  - rewrite !(string_fail cs c _ H).
    destruct (ones cs) as [|f [|f2 fs]] eqn:Eo.
    + destruct cs; [|discriminate]. exfalso. apply (H (rest c)). reflexivity.
    + destruct cs as [|x [|y cs']]; try discriminate.
      inversion Hb as [|? ? Hx _]; subst. cbn [ones map] in Eo. inversion Eo; subst f.
      rewrite !c_one1_eq.
      destruct (rest c) as [|b l] eqn:E.
      * rewrite !(ptb_char_empty _ _ c E). split; right; simpl; destruct (dM d1 && dM d2); reflexivity.
      * inversion Hc as [|? ? Hb1 _]; subst. rewrite !(ptb_char_exact _ _ c b l E), (one_test x b Hb1 Hx).
        destruct (N.eqb_spec b x) as [->|Hn]; [exfalso; apply (H l); reflexivity|].
        split; right; simpl; destruct (dM d1 && dM d2); reflexivity.
    + rewrite <- Eo. destruct (ones_fail (opt_ d2) cs c Hb Hc H) as [c2 [e2 ->]]. destruct (ones_fail (opt_ d1) cs c Hb Hc H) as [c1 [e1 ->]].
      split; right; simpl; destruct (dM d1), (dM d2); simpl; auto.
Qed.
End Str.

Local Close Scope N_scope.
Section StrTable.
Variable G : grammar.
Variable C : cfg.
Hypothesis HC : noact_cfg C.
Hypothesis HG : plain_table G.

Notation ecl := (ecl G C).
Notation node := (node G).

(* refinement restricted to the start cursors satisfying P *)
Definition refines_on (P : cursor -> Prop) (r1 r2 : rid) : Prop :=
  forall f d1 d2 c, P c -> exists f', Sim false (dM d1) (dM d2) (eval G C f d1 r1 c) (eval G C f' d2 r2 c).
Definition byte_input (c : cursor) : Prop := bytes (rest c).

Lemma ones_r k cs qs : Forall2 (fun x q => node q (HOne true PkChar [schar x]) []) cs qs ->
  Forall2 (fun f q => cS f (ecl (S k) q)) (ones C cs) qs.
Proof.
  induction 1 as [|x q cs qs Nq F IH]; cbn [ones map]; constructor; [|exact IH].
  apply (node_r G C HC HG k 0 q (HOne true PkChar [schar x]) [] []); [exact Nq | reflexivity | constructor | left; reflexivity | discriminate].
Qed.
Lemma ones_l k cs qs : Forall2 (fun x q => node q (HOne true PkChar [schar x]) []) cs qs ->
  Forall2 (fun q f => cS (ecl (S k) q) f) qs (ones C cs).
Proof.
  induction 1 as [|x q cs qs Nq F IH]; cbn [ones map]; constructor; [|exact IH].
  apply (node_l G C HC HG k 0 q (HOne true PkChar [schar x]) [] []); [exact Nq | reflexivity | constructor | left; reflexivity].
Qed.

Lemma Sim_chain (m1 m2 : bool) x a b y :
  Sim false m1 true x a -> Sim false true true a b -> Sim false true m2 b y -> Sim false m1 m2 x y.
Proof.
  unfold Sim. intros A1 A2 A3. simpl in *.
  eapply sim_trans; [eapply sim_weaken; [| |exact A1]|].
  - unfold flagf. destruct m1, m2; simpl; auto.
  - discriminate.
  - eapply sim_trans; [eapply sim_weaken; [| |exact A2]|].
    + unfold flagf. destruct m1, m2; simpl; auto.
    + discriminate.
    + eapply sim_weaken; [| |exact A3]; [unfold flagf; destruct m1, m2; simpl; auto | discriminate].
Qed.

Theorem string_table r1 r2 cs qs :
  node r1 (HString cs) [] -> node r2 HSeq qs -> Forall2 (fun x q => node q (HOne true PkChar [schar x]) []) cs qs -> bytes cs ->
  refines_on byte_input r1 r2 /\ refines_on byte_input r2 r1.
Proof.
  intros N1 N2 F Hb. split.
  - intros f d1 d2 c Hc. destruct f as [|k]; [exists 0; left; reflexivity|]. exists (S (S k)).
    assert (K1 : cS (ecl (S k) r1) (c_string C cs)).
    { apply (node_l G C HC HG k 0 r1 (HString cs) [] []); [exact N1 | reflexivity | constructor | left; reflexivity]. }
    assert (K3 : cS (c_seq C (ones C cs)) (ecl (S (S k)) r2)).
    { apply (node_r G C HC HG (S k) 0 r2 HSeq qs); [exact N2 | reflexivity | apply ones_r; exact F | left; reflexivity | discriminate]. }
    apply (Sim_chain _ _ _ _ _ _ (K1 d1 (req d2) c) (proj1 (string_seq C (req d2) (req d2) cs c Hb Hc)) (K3 (req d2) d2 c)).
  - intros f d1 d2 c Hc. destruct f as [|[|k]]; [exists 0; left; reflexivity| |].
    + exists 1. destruct N2 as [nd [Hn [Hh Hs]]].
      eapply sim_trans; [apply (eval_node_l G C HC _ _ 0 d1 r2 c nd Hn)|]. rewrite Hh, Hs. unfold eval_head. cbn [eval_atom].
      destruct F as [|x q cs' qs' Nq F'].
      * (* string<> vs seq<> *) simpl.
        assert (K : cS (c_string C []) (ecl 1 r1)).
        { apply (node_r G C HC HG 0 0 r1 (HString []) [] []); [exact N1 | reflexivity | constructor | left; reflexivity | discriminate]. }
        eapply sim_trans; [|apply (K d1 d2 c)]. rewrite (string_ok C [] c (rest c) d1 eq_refl). right. simpl. destruct c; reflexivity.
      * left. unfold h_seq. destruct F'; simpl; reflexivity.
    + exists (S (S k)).
      assert (K1 : cS (ecl (S (S k)) r2) (c_seq C (ones C cs))).
      { apply (node_l G C HC HG (S k) 0 r2 HSeq qs); [exact N2 | reflexivity | apply ones_l; exact F | left; reflexivity]. }
      assert (K3 : cS (c_string C cs) (ecl (S (S k)) r1)).
      { apply (node_r G C HC HG (S k) 0 r1 (HString cs) [] []); [exact N1 | reflexivity | constructor | left; reflexivity | discriminate]. }
      apply (Sim_chain _ _ _ _ _ _ (K1 d1 (req d2) c) (proj2 (string_seq C (req d2) (req d2) cs c Hb Hc)) (K3 (req d2) d2 c)).
Qed.
End StrTable.
