(* IntegerSpec.v — SPECIFICATION side of property C15: the documented numeral syntax of
   tao/pegtl/contrib/integer.hpp and the arbitrary-precision value of a numeral.
   Independent of Integer.v (does not import the model of the code).

   Documentation used (the reference documentation of the header is one line,
   doc/Contrib-and-Examples.md: "Grammars and actions for PEGTL-input-to-integer conversions"):
   * doc/Changelog.md 3.0.0: "Changed rules in tao/pegtl/contrib/integer.hpp to not accept
     redundant leading zeros." and "Added rules ... that test unsigned values against a maximum."
   * the grammar rules the header itself publishes as the definition of the syntax,
       unsigned_rule_new = if_then_else< one<'0'>, not_at< digit >, plus< digit > >
       signed_rule_new   = seq< opt< one<'-','+'> >, unsigned_rule_new >
     "New version that does not allow leading zeros."
   Read as a contract on an input s (the rule is applied at the beginning of s):
     an unsigned numeral is "0" or a non-zero digit followed by any number of digits;
     a signed numeral is an unsigned numeral optionally preceded by ONE '-' or '+';
     the rule matches the numeral that is NOT followed by a further digit (maximal munch: "12x"
     matches "12"; "01" does not match at all - the zero is followed by a digit and "01" is not a
     numeral), consumes exactly that numeral, and otherwise fails without consuming.
   The value of a numeral is its decimal value as a mathematical integer (Z). *)
From Coq Require Import List NArith ZArith Bool.
Import ListNotations.
Local Open Scope N_scope.

Definition isdigit (b : N) : Prop := 48 <= b <= 57.                 (* '0' .. '9' *)
Definition sdigit (b : N) : bool := (48 <=? b) && (b <=? 57).

Inductive unsigned_numeral : list N -> Prop :=
| UN_zero : unsigned_numeral [48]
| UN_nonzero : forall d ds, 49 <= d <= 57 -> Forall isdigit ds -> unsigned_numeral (d :: ds).

Inductive signed_numeral : list N -> Prop :=
| SN_plain : forall ds, unsigned_numeral ds -> signed_numeral ds
| SN_minus : forall ds, unsigned_numeral ds -> signed_numeral (45 :: ds)
| SN_plus : forall ds, unsigned_numeral ds -> signed_numeral (43 :: ds).

Definition no_digit_follows (r : list N) : Prop :=
  match r with [] => True | b :: _ => ~ isdigit b end.

(* "the rule applied to s matches exactly the first k bytes" *)
Definition unsigned_lexeme (s : list N) (k : nat) : Prop :=
  exists ds r, s = ds ++ r /\ length ds = k /\ unsigned_numeral ds /\ no_digit_follows r.
Definition signed_lexeme (s : list N) (k : nat) : Prop :=
  exists ds r, s = ds ++ r /\ length ds = k /\ signed_numeral ds /\ no_digit_follows r.

(* decimal value, most significant digit first *)
Fixpoint digits_value (acc : Z) (ds : list N) : Z :=
  match ds with
  | [] => acc
  | d :: tl => digits_value (10 * acc + (Z.of_N d - 48)) tl
  end.
Definition unsigned_value (ds : list N) : Z := digits_value 0 ds.
Definition signed_value (s : list N) : Z :=
  match s with
  | [] => 0%Z
  | b :: tl => if b =? 45 then (- unsigned_value tl)%Z
               else if b =? 43 then unsigned_value tl
               else unsigned_value s
  end.

(* value ranges of the target types *)
Definition unsigned_range (w : nat) (v : Z) : Prop := (0 <= v <= 2 ^ Z.of_nat w - 1)%Z.
Definition signed_range (w : nat) (v : Z) : Prop := (- 2 ^ Z.of_nat (w - 1) <= v <= 2 ^ Z.of_nat (w - 1) - 1)%Z.

(* ---------- executable recognisers (proved equivalent to the predicates in IntegerFacts.v) ---- *)

Fixpoint span_digits (s : list N) : nat :=                        (* length of the maximal digit run *)
  match s with
  | b :: tl => if sdigit b then S (span_digits tl) else O
  | [] => O
  end.

Definition numeral_b (ds : list N) : bool :=
  match ds with
  | [] => false
  | d :: tl => if d =? 48 then match tl with [] => true | _ :: _ => false end
               else sdigit d && forallb sdigit tl
  end.

Definition lex_unsigned (s : list N) : option nat :=
  let n := span_digits s in if numeral_b (firstn n s) then Some n else None.

Definition lex_signed (s : list N) : option nat :=
  match s with
  | [] => None
  | b :: tl => if (b =? 45) || (b =? 43) then option_map S (lex_unsigned tl) else lex_unsigned s
  end.
