(* ExactTop.v — C01 assembled: from the boolean structure tie (checked by the driver on every
   classical corpus grammar) to the two-way exactness statement and its corollaries. *)
From Coq Require Import Lia.
From PegtlV Require Import Base Decode Grammar Engine EngineFacts AtomFacts Mono Spec Denote ExactSound ExactComplete.

Definition void_cfg (C : cfg) : Prop :=
  (forall fam r, void_ak (acts C fam r)) /\
  (forall fam r b e, exists x, abeh C fam r b e = ARet x) /\
  (forall k r, raise_on_failure C k r = false).

Lemma defs_ok_nth G g nm n : forall g' k0, defs_ok G g nm n g' k0 = true ->
  forall k e, nth_error g' k = Some e -> not_ref e = true /\ denb G g nm n (nm (k0 + k)%nat) e = true.
Proof.
  induction g' as [|e0 g' IH]; intros k0 H k e Hk; [destruct k; discriminate|].
  cbn [defs_ok] in H. apply andb_true_iff in H. destruct H as [H H2]. apply andb_true_iff in H. destruct H as [H0 H1].
  destruct k as [|k]; simpl in Hk.
  - inversion Hk; subst. rewrite Nat.add_0_r. auto.
  - replace (k0 + S k)%nat with (S k0 + k)%nat by lia. eapply IH; eauto.
Qed.

Section Top.
Variable G : grammar.
Variable g : sgrammar.
Variable names : list rid.
Variable C : cfg.
Variable n : nat.
Variable root : rid.
Variable e : sexp.
Hypothesis HG : table_wf G.
Hypothesis HC : void_cfg C.
Hypothesis Htie : structure_tie n G names g root e = true.

Let nm := fun k => nth k names (length G).

Lemma tie_defs : forall k e', nth_error g k = Some e' -> not_ref e' = true /\ exists n', denb G g nm n' (nm k) e' = true.
Proof.
  intros k e' Hk. unfold structure_tie in Htie. apply andb_true_iff in Htie. destruct Htie as [H1 _].
  apply andb_true_iff in H1. destruct H1 as [_ H1].
  destruct (defs_ok_nth G g nm n g 0 H1 k e' Hk) as [A B]. split; [exact A | exists n; exact B].
Qed.
Lemma tie_root : denb G g nm n root e = true.
Proof. unfold structure_tie in Htie. apply andb_true_iff in Htie. destruct Htie as [_ H]. exact H. Qed.

Theorem top_sound f d c o c' evs : bytes_ok (rest c) -> eval G C f d root c = Res o c' evs ->
  match o with Ok => Peg g e (rest c) (Some (rest c')) | Fail => Peg g e (rest c) None | Exc _ => False end.
Proof.
  destruct HC as [H1 [H2 H3]]. intros Hb H.
  exact (exact_sound G g nm C HG H1 H2 H3 tie_defs f n d root e c o c' evs tie_root Hb H).
Qed.

Theorem top_complete r d c : bytes_ok (rest c) -> Peg g e (rest c) r ->
  exists f c' evs, eval G C f d root c = Res (okf r) c' evs /\ (forall s', r = Some s' -> rest c' = s').
Proof.
  destruct HC as [H1 [H2 H3]]. intros Hb H.
  exact (exact_complete G g nm C HG H1 H2 H3 tie_defs e (rest c) r H n root d c tie_root eq_refl Hb).
Qed.
End Top.
