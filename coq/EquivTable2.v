(* EquivTable2.v — C09: the behaviour-level lemmas of EquivHeads2.v lifted to grammar TABLES, in the
   setting of EquivTable.v: any table G containing the node(s) of the convenience rule and the nodes of
   its documented expansion over the same (arbitrary) sub-rule ids. *)
From Coq Require Import Lia Bool.
From PegtlV Require Import Base Decode Grammar Engine EngineFacts AtomFacts Mono Equiv EquivFacts EquivEval EquivHeads EquivTable EquivHeads2.

Section Table2.
Variable G : grammar.
Variable C : cfg.
Hypothesis HC : noact_cfg C.
Hypothesis HG : plain_table G.
Hypothesis HW : table_wf G.

Notation ecl := (ecl G C).
Notation node := (node G).
Notation obs_equiv := (obs_equiv G C).
Notation refines := (refines G C).
Notation node_l := (node_l G C HC HG).
Notation node_r := (node_r G C HC HG).
Notation ecl_cS := (ecl_cS G C HC HG).
Notation ecl_crest := (ecl_crest G C HW).
Notation refines_of_cS := (refines_of_cS G C).

Ltac leafs := repeat (first [ apply Forall2_nil | apply Forall2_cons; [apply ecl_cS; lia|] ]).
Ltac oof_case := intros ? ? ?; left; reflexivity.

(* uniform refinement: a fixed fuel overhead (what every expansion proof below establishes); it implies `refines`,
   and is a congruence (EquivCong.v) *)
Definition urefines (r1 r2 : rid) : Prop := exists k', forall k, cS (ecl k r1) (ecl (k + k') r2).
Definition uequiv (r1 r2 : rid) : Prop := urefines r1 r2 /\ urefines r2 r1.
Lemma urefines_refines r1 r2 : urefines r1 r2 -> refines r1 r2.
Proof. intros [k' H]. apply (refines_of_cS 0 k'). exact H. Qed.
Lemma uequiv_obs_equiv r1 r2 : uequiv r1 r2 -> obs_equiv r1 r2.
Proof. intros [H1 H2]. split; apply urefines_refines; assumption. Qed.

(* obs_equiv is an equivalence relation *)
Lemma refines_refl r : refines r r.
Proof. intros f d1 d2 c. exists f. apply ecl_cS. apply le_n. Qed.
Lemma refines_trans r1 r2 r3 : refines r1 r2 -> refines r2 r3 -> refines r1 r3.
Proof.
  intros H12 H23 f d1 d2 c.
  destruct (H12 f d1 (req d2) c) as [f' K1]. destruct (H23 f' (req d2) d2 c) as [f'' K2]. exists f''.
  unfold Sim in *. simpl in K1, K2.
  eapply sim_trans; (eapply sim_weaken; [| |eassumption]); try discriminate.
  - unfold flagf. destruct (dM d1), (dM d2); simpl; auto.
  - unfold flagf. destruct (dM d1), (dM d2); simpl; auto.
Qed.
Lemma obs_equiv_refl r : obs_equiv r r.
Proof. split; apply refines_refl. Qed.
Lemma obs_equiv_sym r1 r2 : obs_equiv r1 r2 -> obs_equiv r2 r1.
Proof. intros [H1 H2]. split; assumption. Qed.
Lemma obs_equiv_trans r1 r2 r3 : obs_equiv r1 r2 -> obs_equiv r2 r3 -> obs_equiv r1 r3.
Proof. intros [A1 A2] [B1 B2]. split; eapply refines_trans; eauto. Qed.

Lemma Forall2_repeat {A B} (P : A -> B -> Prop) a b n : P a b -> Forall2 P (repeat a n) (repeat b n).
Proof. intros H. induction n; simpl; constructor; auto. Qed.

(* ---------- rep< N, R >  ==  seq< R, ..., R > ---------- *)
Theorem rep_seq_utable n r1 r2 r :
  node r1 (HRep n) [r] -> node r2 HSeq (repeat r n) -> uequiv r1 r2.
Proof.
  intros N1 N2. split.
  - exists 0. intros [|k]; [oof_case|]. rewrite Nat.add_0_r.
    apply cS_trans with (g := c_rep C n (ecl k r)).
    { apply (node_l k 0 r1 (HRep n) [r]); [exact N1 | reflexivity | leafs | left; reflexivity]. }
    apply cS_trans with (g := c_seq C (repeat (ecl k r) n)).
    { intros d1 d2 c. apply rep_seq_A; [apply ecl_cS; lia | apply ecl_crest]. }
    apply (node_r k 0 r2 HSeq (repeat r n)); [exact N2 | reflexivity | | left; reflexivity | discriminate].
    apply Forall2_repeat. apply ecl_cS; lia.
  - exists 0. intros [|k]; [oof_case|]. rewrite Nat.add_0_r.
    apply cS_trans with (g := c_seq C (repeat (ecl k r) n)).
    { apply (node_l k 0 r2 HSeq (repeat r n)); [exact N2 | reflexivity | | left; reflexivity].
      apply Forall2_repeat. apply ecl_cS; lia. }
    apply cS_trans with (g := c_rep C n (ecl k r)).
    { intros d1 d2 c. apply rep_seq_B; [apply ecl_cS; lia | apply ecl_crest]. }
    apply (node_r k 0 r1 (HRep n) [r]); [exact N1 | reflexivity | leafs | left; reflexivity | discriminate].
Qed.
Theorem rep_seq_table n r1 r2 r :
  node r1 (HRep n) [r] -> node r2 HSeq (repeat r n) -> obs_equiv r1 r2.
Proof. intros. apply uequiv_obs_equiv. eapply rep_seq_utable; eassumption. Qed.

(* ---------- rep_opt< N, R >  ==  rep< N, opt< R > > ---------- *)
Theorem rep_opt_utable n r1 r2 o r :
  node r1 (HRepOpt n) [r] -> node r2 (HRep n) [o] -> node o HPartial [r] -> uequiv r1 r2.
Proof.
  intros N1 N2 No. split.
  - exists 1. intros [|k]; [oof_case|].
    apply cS_trans with (g := c_rep_opt C n (ecl k r)).
    { apply (node_l k 0 r1 (HRepOpt n) [r]); [exact N1 | reflexivity | leafs | left; reflexivity]. }
    apply cS_trans with (g := c_rep C n (c_opt C (ecl k r))).
    { intros d1 d2 c. apply rep_opt_A; [apply ecl_cS; lia | apply ecl_crest | apply ecl_crest]. }
    replace (S k + 1) with (S (S k)) by lia.
    apply (node_r (S k) 0 r2 (HRep n) [o]); [exact N2 | reflexivity | | left; reflexivity | discriminate].
    constructor; [|constructor].
    apply (node_r k 0 o HPartial [r]); [exact No | reflexivity | leafs | left; reflexivity | discriminate].
  - exists 0. intros [|[|k]]; [oof_case| |]; rewrite Nat.add_0_r.
    { apply cS_trans with (g := c_rep C n (ecl 0 o)).
      { apply (node_l 0 0 r2 (HRep n) [o]); [exact N2 | reflexivity | leafs | left; reflexivity]. }
      destruct n as [|n].
      - apply cS_trans with (g := c_rep_opt C 0 (ecl 0 r)); [intros d1 d2 c; right; simpl; reflexivity|].
        apply (node_r 0 0 r1 (HRepOpt 0) [r]); [exact N1 | reflexivity | leafs | left; reflexivity | discriminate].
      - intros d1 d2 c. left. reflexivity. }
    apply cS_trans with (g := c_rep C n (c_opt C (ecl k r))).
    { apply (node_l (S k) 0 r2 (HRep n) [o]); [exact N2 | reflexivity | | left; reflexivity].
      constructor; [|constructor].
      apply (node_l k 0 o HPartial [r]); [exact No | reflexivity | leafs | left; reflexivity]. }
    apply cS_trans with (g := c_rep_opt C n (ecl k r)).
    { intros d1 d2 c. apply rep_opt_B; [apply ecl_cS; lia | apply ecl_crest | apply ecl_crest]. }
    apply (node_r (S k) 0 r1 (HRepOpt n) [r]); [exact N1 | reflexivity | leafs | left; reflexivity | discriminate].
Qed.
Theorem rep_opt_table n r1 r2 o r :
  node r1 (HRepOpt n) [r] -> node r2 (HRep n) [o] -> node o HPartial [r] -> obs_equiv r1 r2.
Proof. intros. apply uequiv_obs_equiv. eapply rep_opt_utable; eassumption. Qed.

(* ---------- rep_min_max< Min, Max, R >  ==  seq< rep< Min, R >, rep_opt< Max - Min, R >, not_at< R > > ---------- *)
Theorem rep_min_max_utable mn mx r1 r2 a b na r :
  node r1 (HRepMinMax mn mx) [r] ->
  node r2 HSeq [a; b; na] -> node a (HRep mn) [r] -> node b (HRepOpt (mx - mn)) [r] -> node na HNotAt [r] ->
  uequiv r1 r2.
Proof.
  intros N1 N2 Na Nb Nna. split.
  - exists 1. intros [|k]; [oof_case|].
    apply cS_trans with (g := c_rep_min_max C mn mx (ecl k r)).
    { apply (node_l k 0 r1 (HRepMinMax mn mx) [r]); [exact N1 | reflexivity | leafs | left; reflexivity]. }
    apply cS_trans with (g := rmm_doc C mn mx (ecl k r)).
    { intros d1 d2 c. apply rep_min_max_A; [apply ecl_cS; lia | apply ecl_crest]. }
    replace (S k + 1) with (S (S k)) by lia. unfold rmm_doc.
    apply (node_r (S k) 0 r2 HSeq [a; b; na]); [exact N2 | reflexivity | | left; reflexivity | discriminate].
    constructor; [|constructor; [|constructor; [|constructor]]].
    + apply (node_r k 0 a (HRep mn) [r]); [exact Na | reflexivity | leafs | left; reflexivity | discriminate].
    + apply (node_r k 0 b (HRepOpt (mx - mn)) [r]); [exact Nb | reflexivity | leafs | left; reflexivity | discriminate].
    + apply (node_r k 0 na HNotAt [r]); [exact Nna | reflexivity | leafs | left; reflexivity | discriminate].
  - exists 0. intros [|[|k]]; [oof_case| |]; rewrite Nat.add_0_r.
    { apply cS_trans with (g := c_seq C [ecl 0 a; ecl 0 b; ecl 0 na]).
      { apply (node_l 0 0 r2 HSeq [a; b; na]); [exact N2 | reflexivity | leafs | left; reflexivity]. }
      intros d1 d2 c. left. reflexivity. }
    apply cS_trans with (g := rmm_doc C mn mx (ecl k r)).
    { unfold rmm_doc. apply (node_l (S k) 0 r2 HSeq [a; b; na]); [exact N2 | reflexivity | | left; reflexivity].
      constructor; [|constructor; [|constructor; [|constructor]]].
      + apply (node_l k 0 a (HRep mn) [r]); [exact Na | reflexivity | leafs | left; reflexivity].
      + apply (node_l k 0 b (HRepOpt (mx - mn)) [r]); [exact Nb | reflexivity | leafs | left; reflexivity].
      + apply (node_l k 0 na HNotAt [r]); [exact Nna | reflexivity | leafs | left; reflexivity]. }
    apply cS_trans with (g := c_rep_min_max C mn mx (ecl k r)).
    { intros d1 d2 c. apply rep_min_max_B; [apply ecl_cS; lia | apply ecl_cS; lia | apply ecl_crest]. }
    apply (node_r (S k) 0 r1 (HRepMinMax mn mx) [r]); [exact N1 | reflexivity | leafs | left; reflexivity | discriminate].
Qed.
Theorem rep_min_max_table mn mx r1 r2 a b na r :
  node r1 (HRepMinMax mn mx) [r] ->
  node r2 HSeq [a; b; na] -> node a (HRep mn) [r] -> node b (HRepOpt (mx - mn)) [r] -> node na HNotAt [r] ->
  obs_equiv r1 r2.
Proof. intros. apply uequiv_obs_equiv. eapply rep_min_max_utable; eassumption. Qed.

(* ---------- plus< R >  ==  seq< R, star< R > > ---------- *)
Theorem plus_utable r1 r2 st r :
  node r1 HPlus [r] -> node r2 HSeq [r; st] -> node st HStarPartial [r] -> uequiv r1 r2.
Proof.
  intros N1 N2 Nst. split.
  - exists 1. intros [|k]; [oof_case|].
    apply cS_trans with (g := c_plus C k (ecl k r)).
    { apply (node_l k k r1 HPlus [r]); [exact N1 | reflexivity | leafs | right; lia]. }
    apply cS_trans with (g := c_seq C [ecl k r; c_star C k (ecl k r)]).
    { intros d1 d2 c. apply plus_A; [apply ecl_cS; lia | apply ecl_crest | apply le_n]. }
    replace (S k + 1) with (S (S k)) by lia.
    apply (node_r (S k) 0 r2 HSeq [r; st]); [exact N2 | reflexivity | | left; reflexivity | discriminate].
    constructor; [apply ecl_cS; lia|]. constructor; [|constructor].
    apply (node_r k k st HStarPartial [r]); [exact Nst | reflexivity | leafs | right; lia | discriminate].
  - exists 1. intros K.
    assert (L : forall j q, j <= K -> cS (ecl j q) (ecl K q)) by (intros; apply ecl_cS; assumption).
    apply cS_trans with (g := c_seq C [ecl K r; c_star C K (ecl K r)]).
    { destruct K as [|k1]; [oof_case|].
      apply (node_l k1 0 r2 HSeq [r; st]); [exact N2 | reflexivity | | left; reflexivity].
      constructor; [apply L; lia|]. constructor; [|constructor].
      destruct k1 as [|k2]; [oof_case|].
      apply (node_l k2 (S (S k2)) st HStarPartial [r]); [exact Nst | reflexivity | | right; lia].
      constructor; [apply L; lia | constructor]. }
    apply cS_trans with (g := c_plus C K (ecl K r)).
    { intros d1 d2 c. apply plus_B; [apply ecl_cS; lia | apply ecl_crest | apply le_n]. }
    replace (K + 1) with (S K) by lia.
    apply (node_r K K r1 HPlus [r]); [exact N1 | reflexivity | leafs | right; lia | discriminate].
Qed.
Theorem plus_table r1 r2 st r :
  node r1 HPlus [r] -> node r2 HSeq [r; st] -> node st HStarPartial [r] -> obs_equiv r1 r2.
Proof. intros. apply uequiv_obs_equiv. eapply plus_utable; eassumption. Qed.

(* rep< 1, R > is R *)
Lemma rep1_l (f g : closure) : cS f g -> crest g -> cS (c_rep C 1 f) g.
Proof. intros H Hr d1 d2 c. pose proof (rep_seq_A C f g H Hr 1 d1 d2 c) as K. rewrite c_seq_unfold in K. exact K. Qed.
Lemma rep1_r (f g : closure) : cS f g -> crest f -> cS f (c_rep C 1 g).
Proof. intros H Hr d1 d2 c. pose proof (rep_seq_B C f g H Hr 1 d1 d2 c) as K. rewrite c_seq_unfold in K. exact K. Qed.

(* ---------- plus< R >  ==  rep_min< 1, R >  =  seq< rep< 1, R >, star< R > > ---------- *)
Theorem plus_rep_min_utable r1 r2 rp st r :
  node r1 HPlus [r] -> node r2 HSeq [rp; st] -> node rp (HRep 1) [r] -> node st HStarPartial [r] -> uequiv r1 r2.
Proof.
  intros N1 N2 Nrp Nst. split.
  - exists 1. intros [|k]; [oof_case|].
    apply cS_trans with (g := c_plus C k (ecl k r)).
    { apply (node_l k k r1 HPlus [r]); [exact N1 | reflexivity | leafs | right; lia]. }
    apply cS_trans with (g := c_seq C [ecl k r; c_star C k (ecl k r)]).
    { intros d1 d2 c. apply plus_A; [apply ecl_cS; lia | apply ecl_crest | apply le_n]. }
    replace (S k + 1) with (S (S k)) by lia.
    apply (node_r (S k) 0 r2 HSeq [rp; st]); [exact N2 | reflexivity | | left; reflexivity | discriminate].
    constructor; [|constructor; [|constructor]].
    + apply cS_trans with (g := c_rep C 1 (ecl k r)); [apply rep1_r; [apply ecl_cS; lia | apply ecl_crest]|].
      apply (node_r k 0 rp (HRep 1) [r]); [exact Nrp | reflexivity | leafs | left; reflexivity | discriminate].
    + apply (node_r k k st HStarPartial [r]); [exact Nst | reflexivity | leafs | right; lia | discriminate].
  - exists 1. intros K.
    assert (L : forall j q, j <= K -> cS (ecl j q) (ecl K q)) by (intros; apply ecl_cS; assumption).
    apply cS_trans with (g := c_seq C [ecl K r; c_star C K (ecl K r)]).
    { destruct K as [|k1]; [oof_case|].
      apply (node_l k1 0 r2 HSeq [rp; st]); [exact N2 | reflexivity | | left; reflexivity].
      destruct k1 as [|k2]; [repeat (constructor; [oof_case|]); constructor|].
      constructor; [|constructor; [|constructor]].
      + apply cS_trans with (g := c_rep C 1 (ecl k2 r)).
        { apply (node_l k2 0 rp (HRep 1) [r]); [exact Nrp | reflexivity | leafs | left; reflexivity]. }
        apply rep1_l; [apply L; lia | apply ecl_crest].
      + apply (node_l k2 (S (S k2)) st HStarPartial [r]); [exact Nst | reflexivity | | right; lia].
        constructor; [apply L; lia | constructor]. }
    apply cS_trans with (g := c_plus C K (ecl K r)).
    { intros d1 d2 c. apply plus_B; [apply ecl_cS; lia | apply ecl_crest | apply le_n]. }
    replace (K + 1) with (S K) by lia.
    apply (node_r K K r1 HPlus [r]); [exact N1 | reflexivity | leafs | right; lia | discriminate].
Qed.
Theorem plus_rep_min_table r1 r2 rp st r :
  node r1 HPlus [r] -> node r2 HSeq [rp; st] -> node rp (HRep 1) [r] -> node st HStarPartial [r] -> obs_equiv r1 r2.
Proof. intros. apply uequiv_obs_equiv. eapply plus_rep_min_utable; eassumption. Qed.

(* ---------- opt< R >  ==  sor< R, success > ---------- *)
Theorem opt_sor_utable r1 r2 su r :
  node r1 HPartial [r] -> node r2 HSor [r; su] -> node su HSuccess [] -> uequiv r1 r2.
Proof.
  intros N1 N2 Nsu. split.
  - exists 1. intros [|k]; [oof_case|].
    apply cS_trans with (g := c_opt C (ecl k r)).
    { apply (node_l k 0 r1 HPartial [r]); [exact N1 | reflexivity | leafs | left; reflexivity]. }
    apply cS_trans with (g := c_sor C [ecl k r; c_success C]).
    { intros d1 d2 c. apply opt_sor_A. apply ecl_cS; lia. }
    replace (S k + 1) with (S (S k)) by lia.
    apply (node_r (S k) 0 r2 HSor [r; su]); [exact N2 | reflexivity | | left; reflexivity | discriminate].
    constructor; [apply ecl_cS; lia|]. constructor; [|constructor].
    apply (node_r k 0 su HSuccess [] []); [exact Nsu | reflexivity | constructor | left; reflexivity | discriminate].
  - exists 0. intros [|[|k]]; [oof_case| |]; rewrite Nat.add_0_r.
    { apply cS_trans with (g := c_sor C [ecl 0 r; ecl 0 su]).
      { apply (node_l 0 0 r2 HSor [r; su]); [exact N2 | reflexivity | leafs | left; reflexivity]. }
      intros d1 d2 c. left. reflexivity. }
    apply cS_trans with (g := c_sor C [ecl (S k) r; c_success C]).
    { apply (node_l (S k) 0 r2 HSor [r; su]); [exact N2 | reflexivity | | left; reflexivity].
      constructor; [apply ecl_cS; lia|]. constructor; [|constructor].
      apply (node_l k 0 su HSuccess [] []); [exact Nsu | reflexivity | constructor | left; reflexivity]. }
    apply cS_trans with (g := c_opt C (ecl (S k) r)).
    { intros d1 d2 c. apply opt_sor_B. apply ecl_cS; lia. }
    apply (node_r (S k) 0 r1 HPartial [r]); [exact N1 | reflexivity | leafs | left; reflexivity | discriminate].
Qed.
Theorem opt_sor_table r1 r2 su r :
  node r1 HPartial [r] -> node r2 HSor [r; su] -> node su HSuccess [] -> obs_equiv r1 r2.
Proof. intros. apply uequiv_obs_equiv. eapply opt_sor_utable; eassumption. Qed.

Lemma F2_map_l j k (rs : list rid) : j <= k -> Forall2 (fun q f => cS (ecl j q) f) rs (map (ecl k) rs).
Proof. intros H. induction rs; simpl; constructor; [apply ecl_cS; exact H | assumption]. Qed.
Lemma F2_map_r j k (rs : list rid) : j <= k -> Forall2 (fun f q => cS f (ecl k q)) (map (ecl j) rs) rs.
Proof. intros H. induction rs; simpl; constructor; [apply ecl_cS; exact H | assumption]. Qed.
Lemma F2_map_cS j k (rs : list rid) : j <= k -> Forall2 cS (map (ecl j) rs) (map (ecl k) rs).
Proof. intros H. induction rs; simpl; constructor; [apply ecl_cS; exact H | assumption]. Qed.

(* ---------- partial< R1, Rs... >  ==  opt< seq< R1, partial< Rs... > > > ---------- *)
Theorem partial_utable p p2 sq p' q1 qs :
  node p HPartial (q1 :: qs) -> node p2 HPartial [sq] -> node sq HSeq [q1; p'] -> node p' HPartial qs -> uequiv p p2.
Proof.
  intros N1 N2 Nsq Np'. split.
  - exists 2. intros [|k]; [oof_case|].
    apply cS_trans with (g := c_partial C (ecl k q1 :: map (ecl k) qs)).
    { apply (node_l k 0 p HPartial (q1 :: qs)); [exact N1 | reflexivity | apply (F2_map_l k k (q1 :: qs)); lia | left; reflexivity]. }
    apply cS_trans with (g := c_opt C (c_seq C [ecl k q1; c_partial C (map (ecl k) qs)])).
    { intros d1 d2 c. apply partial_A; [apply ecl_cS; lia | apply F2_map_cS; lia | apply ecl_crest]. }
    replace (S k + 2) with (S (S (S k))) by lia.
    apply (node_r (S (S k)) 0 p2 HPartial [sq]); [exact N2 | reflexivity | | left; reflexivity | discriminate].
    constructor; [|constructor].
    apply (node_r (S k) 0 sq HSeq [q1; p']); [exact Nsq | reflexivity | | left; reflexivity | discriminate].
    constructor; [apply ecl_cS; lia|]. constructor; [|constructor].
    apply (node_r k 0 p' HPartial qs); [exact Np' | reflexivity | apply F2_map_r; lia | left; reflexivity | discriminate].
  - exists 1. intros K.
    assert (L : forall j q, j <= K -> cS (ecl j q) (ecl K q)) by (intros; apply ecl_cS; assumption).
    apply cS_trans with (g := c_opt C (c_seq C [ecl K q1; c_partial C (map (ecl K) qs)])).
    { destruct K as [|k1]; [oof_case|].
      apply (node_l k1 0 p2 HPartial [sq]); [exact N2 | reflexivity | | left; reflexivity].
      constructor; [|constructor]. destruct k1 as [|k2]; [oof_case|].
      apply (node_l k2 0 sq HSeq [q1; p']); [exact Nsq | reflexivity | | left; reflexivity].
      constructor; [apply L; lia|]. constructor; [|constructor]. destruct k2 as [|k3]; [oof_case|].
      apply (node_l k3 0 p' HPartial qs); [exact Np' | reflexivity | apply F2_map_l; lia | left; reflexivity]. }
    apply cS_trans with (g := c_partial C (ecl K q1 :: map (ecl K) qs)).
    { intros d1 d2 c. apply partial_B; [apply ecl_cS; lia | apply F2_map_cS; lia | apply ecl_crest]. }
    replace (K + 1) with (S K) by lia.
    apply (node_r K 0 p HPartial (q1 :: qs)); [exact N1 | reflexivity | apply (F2_map_r K K (q1 :: qs)); lia | left; reflexivity | discriminate].
Qed.
Theorem partial_table p p2 sq p' q1 qs :
  node p HPartial (q1 :: qs) -> node p2 HPartial [sq] -> node sq HSeq [q1; p'] -> node p' HPartial qs -> obs_equiv p p2.
Proof. intros. apply uequiv_obs_equiv. eapply partial_utable; eassumption. Qed.

(* ---------- until< R >  ==  until< R, any > ---------- *)
Theorem until1_utable r1 r2 cnd a :
  node r1 HUntil1 [cnd] -> node r2 HUntil2 [cnd; a] -> node a (HAny PkChar) [] -> uequiv r1 r2.
Proof.
  intros N1 N2 Na. split.
  - exists 1. intros [|k]; [oof_case|].
    apply cS_trans with (g := c_until1 C k (ecl k cnd)).
    { apply (node_l k k r1 HUntil1 [cnd]); [exact N1 | reflexivity | leafs | right; lia]. }
    apply cS_trans with (g := c_until2 C k (ecl k cnd) (c_any C)).
    { intros d1 d2 c. apply until1_A; [apply ecl_cS; lia | apply le_n]. }
    replace (S k + 1) with (S (S k)) by lia.
    apply (node_r (S k) k r2 HUntil2 [cnd; a]); [exact N2 | reflexivity | | right; lia | discriminate].
    constructor; [apply ecl_cS; lia|]. constructor; [|constructor].
    apply (node_r k 0 a (HAny PkChar) [] []); [exact Na | reflexivity | constructor | left; reflexivity | discriminate].
  - exists 1. intros K.
    assert (L : forall j q, j <= K -> cS (ecl j q) (ecl K q)) by (intros; apply ecl_cS; assumption).
    apply cS_trans with (g := c_until2 C K (ecl K cnd) (c_any C)).
    { destruct K as [|k1]; [oof_case|].
      apply (node_l k1 (S k1) r2 HUntil2 [cnd; a]); [exact N2 | reflexivity | | right; lia].
      constructor; [apply L; lia|]. constructor; [|constructor]. destruct k1 as [|k2]; [oof_case|].
      apply (node_l k2 0 a (HAny PkChar) [] []); [exact Na | reflexivity | constructor | left; reflexivity]. }
    apply cS_trans with (g := c_until1 C K (ecl K cnd)).
    { intros d1 d2 c. apply until1_B; [apply ecl_cS; lia | apply le_n]. }
    replace (K + 1) with (S K) by lia.
    apply (node_r K K r1 HUntil1 [cnd]); [exact N1 | reflexivity | leafs | right; lia | discriminate].
Qed.
Theorem until1_table r1 r2 cnd a :
  node r1 HUntil1 [cnd] -> node r2 HUntil2 [cnd; a] -> node a (HAny PkChar) [] -> obs_equiv r1 r2.
Proof. intros. apply uequiv_obs_equiv. eapply until1_utable; eassumption. Qed.

(* ---------- strict< R1, Rs... >  ==  sor< not_at< R1 >, seq< R1, Rs... > >  (any number of rules) ---------- *)
Theorem strict_utable r1 r2 na sq q1 qs :
  node r1 HStrict (q1 :: qs) -> node r2 HSor [na; sq] -> node na HNotAt [q1] -> node sq HSeq (q1 :: qs) -> uequiv r1 r2.
Proof.
  intros N1 N2 Nna Nsq. split.
  - exists 1. intros [|k]; [oof_case|].
    apply cS_trans with (g := c_strict C (ecl k q1 :: map (ecl k) qs)).
    { apply (node_l k 0 r1 HStrict (q1 :: qs)); [exact N1 | reflexivity | apply (F2_map_l k k (q1 :: qs)); lia | left; reflexivity]. }
    apply cS_trans with (g := c_sor C [c_not C (ecl k q1); c_seq C (ecl k q1 :: map (ecl k) qs)]).
    { intros d1 d2 c. apply strict_A; [apply ecl_cS; lia | apply ecl_crest | apply F2_map_cS; lia]. }
    replace (S k + 1) with (S (S k)) by lia.
    apply (node_r (S k) 0 r2 HSor [na; sq]); [exact N2 | reflexivity | | left; reflexivity | discriminate].
    constructor; [|constructor; [|constructor]].
    + apply (node_r k 0 na HNotAt [q1]); [exact Nna | reflexivity | leafs | left; reflexivity | discriminate].
    + apply (node_r k 0 sq HSeq (q1 :: qs)); [exact Nsq | reflexivity | apply (F2_map_r k k (q1 :: qs)); lia | left; reflexivity | discriminate].
  - exists 1. intros K.
    assert (L : forall j q, j <= K -> cS (ecl j q) (ecl K q)) by (intros; apply ecl_cS; assumption).
    apply cS_trans with (g := c_sor C [c_not C (ecl K q1); c_seq C (ecl K q1 :: map (ecl K) qs)]).
    { destruct K as [|k1]; [oof_case|].
      apply (node_l k1 0 r2 HSor [na; sq]); [exact N2 | reflexivity | | left; reflexivity].
      destruct k1 as [|k2]; [repeat (constructor; [oof_case|]); constructor|].
      constructor; [|constructor; [|constructor]].
      + apply (node_l k2 0 na HNotAt [q1]); [exact Nna | reflexivity | | left; reflexivity].
        constructor; [apply L; lia | constructor].
      + apply (node_l k2 0 sq HSeq (q1 :: qs)); [exact Nsq | reflexivity | apply (F2_map_l k2 (S (S k2)) (q1 :: qs)); lia | left; reflexivity]. }
    apply cS_trans with (g := c_strict C (ecl K q1 :: map (ecl K) qs)).
    { intros d1 d2 c. apply strict_B; [apply ecl_cS; lia | apply ecl_cS; lia | apply ecl_crest | apply F2_map_cS; lia]. }
    replace (K + 1) with (S K) by lia.
    apply (node_r K 0 r1 HStrict (q1 :: qs)); [exact N1 | reflexivity | apply (F2_map_r K K (q1 :: qs)); lia | left; reflexivity | discriminate].
Qed.
Theorem strict_table r1 r2 na sq q1 qs :
  node r1 HStrict (q1 :: qs) -> node r2 HSor [na; sq] -> node na HNotAt [q1] -> node sq HSeq (q1 :: qs) -> obs_equiv r1 r2.
Proof. intros. apply uequiv_obs_equiv. eapply strict_utable; eassumption. Qed.

(* ---------- star_strict< R1, Rs... >  ==  seq< star< seq< R1, Rs... > >, not_at< R1 > > ---------- *)
Theorem star_strict_utable r1 r2 st sq na q1 qs :
  node r1 HStarStrict (q1 :: qs) ->
  node r2 HSeq [st; na] -> node st HStarPartial [sq] -> node sq HSeq (q1 :: qs) -> node na HNotAt [q1] -> uequiv r1 r2.
Proof.
  intros N1 N2 Nst Nsq Nna. split.
  - exists 2. intros [|k]; [oof_case|].
    apply cS_trans with (g := c_star_strict C k (ecl k q1 :: map (ecl k) qs)).
    { apply (node_l k k r1 HStarStrict (q1 :: qs)); [exact N1 | reflexivity | apply (F2_map_l k k (q1 :: qs)); lia | right; lia]. }
    apply cS_trans with (g := ss_doc C k (ecl k q1) (map (ecl k) qs)).
    { intros d1 d2 c. apply star_strict_A; [apply ecl_cS; lia | apply ecl_crest | apply F2_map_cS; lia | apply le_n]. }
    replace (S k + 2) with (S (S (S k))) by lia. unfold ss_doc.
    apply (node_r (S (S k)) 0 r2 HSeq [st; na]); [exact N2 | reflexivity | | left; reflexivity | discriminate].
    constructor; [|constructor; [|constructor]].
    + apply (node_r (S k) k st HStarPartial [sq]); [exact Nst | reflexivity | | right; lia | discriminate].
      constructor; [|constructor].
      apply (node_r k 0 sq HSeq (q1 :: qs)); [exact Nsq | reflexivity | apply (F2_map_r k k (q1 :: qs)); lia | left; reflexivity | discriminate].
    + apply (node_r (S k) 0 na HNotAt [q1]); [exact Nna | reflexivity | leafs | left; reflexivity | discriminate].
  - exists 1. intros K.
    assert (L : forall j q, j <= K -> cS (ecl j q) (ecl K q)) by (intros; apply ecl_cS; assumption).
    apply cS_trans with (g := ss_doc C K (ecl K q1) (map (ecl K) qs)).
    { unfold ss_doc. destruct K as [|k1]; [oof_case|].
      apply (node_l k1 0 r2 HSeq [st; na]); [exact N2 | reflexivity | | left; reflexivity].
      destruct k1 as [|k2]; [repeat (constructor; [oof_case|]); constructor|].
      constructor; [|constructor; [|constructor]].
      + apply (node_l k2 (S (S k2)) st HStarPartial [sq]); [exact Nst | reflexivity | | right; lia].
        constructor; [|constructor]. destruct k2 as [|k3]; [oof_case|].
        apply (node_l k3 0 sq HSeq (q1 :: qs)); [exact Nsq | reflexivity | apply (F2_map_l k3 (S (S (S k3))) (q1 :: qs)); lia | left; reflexivity].
      + apply (node_l k2 0 na HNotAt [q1]); [exact Nna | reflexivity | | left; reflexivity].
        constructor; [apply L; lia | constructor]. }
    apply cS_trans with (g := c_star_strict C K (ecl K q1 :: map (ecl K) qs)).
    { intros d1 d2 c. apply star_strict_B; [apply ecl_cS; lia | apply ecl_cS; lia | apply ecl_crest | apply ecl_crest | apply F2_map_cS; lia | apply le_n]. }
    replace (K + 1) with (S K) by lia.
    apply (node_r K K r1 HStarStrict (q1 :: qs)); [exact N1 | reflexivity | apply (F2_map_r K K (q1 :: qs)); lia | right; lia | discriminate].
Qed.
Theorem star_strict_table r1 r2 st sq na q1 qs :
  node r1 HStarStrict (q1 :: qs) ->
  node r2 HSeq [st; na] -> node st HStarPartial [sq] -> node sq HSeq (q1 :: qs) -> node na HNotAt [q1] -> obs_equiv r1 r2.
Proof. intros. apply uequiv_obs_equiv. eapply star_strict_utable; eassumption. Qed.

(* ---------- list_tail< R, S > = seq< R, star_partial< S, R > >  ==  seq< list< R, S >, opt< S > > ---------- *)
Theorem list_tail_utable r1 sp r2 li st sq os r s :
  node r1 HSeq [r; sp] -> node sp HStarPartial [s; r] ->
  node r2 HSeq [li; os] -> node li HSeq [r; st] -> node st HStarPartial [sq] -> node sq HSeq [s; r] -> node os HPartial [s] ->
  uequiv r1 r2.
Proof.
  intros N1 Nsp N2 Nli Nst Nsq Nos. split.
  - exists 4. intros K.
    assert (L : forall j q, j <= K -> cS (ecl j q) (ecl K q)) by (intros; apply ecl_cS; assumption).
    apply cS_trans with (g := lt_impl C K (ecl K r) (ecl K s)).
    { unfold lt_impl. destruct K as [|k1]; [oof_case|].
      apply (node_l k1 0 r1 HSeq [r; sp]); [exact N1 | reflexivity | | left; reflexivity].
      constructor; [apply L; lia|]. constructor; [|constructor]. destruct k1 as [|k2]; [oof_case|].
      apply (node_l k2 (S (S k2)) sp HStarPartial [s; r]); [exact Nsp | reflexivity | | right; lia].
      constructor; [apply L; lia|]. constructor; [apply L; lia | constructor]. }
    apply cS_trans with (g := lt_doc C K (ecl K r) (ecl K s)).
    { intros d1 d2 c. apply list_tail_A; [apply ecl_cS; lia | apply ecl_cS; lia | apply ecl_crest | apply ecl_crest | apply le_n]. }
    replace (K + 4) with (S (S (S (S K)))) by lia. unfold lt_doc.
    apply (node_r (S (S (S K))) 0 r2 HSeq [li; os]); [exact N2 | reflexivity | | left; reflexivity | discriminate].
    constructor; [|constructor; [|constructor]].
    + apply (node_r (S (S K)) 0 li HSeq [r; st]); [exact Nli | reflexivity | | left; reflexivity | discriminate].
      constructor; [apply ecl_cS; lia|]. constructor; [|constructor].
      apply (node_r (S K) K st HStarPartial [sq]); [exact Nst | reflexivity | | right; lia | discriminate].
      constructor; [|constructor].
      apply (node_r K 0 sq HSeq [s; r]); [exact Nsq | reflexivity | leafs | left; reflexivity | discriminate].
    + apply (node_r (S (S K)) 0 os HPartial [s]); [exact Nos | reflexivity | leafs | left; reflexivity | discriminate].
  - exists 2. intros K.
    assert (L : forall j q, j <= K -> cS (ecl j q) (ecl K q)) by (intros; apply ecl_cS; assumption).
    apply cS_trans with (g := lt_doc C K (ecl K r) (ecl K s)).
    { unfold lt_doc. destruct K as [|k1]; [oof_case|].
      apply (node_l k1 0 r2 HSeq [li; os]); [exact N2 | reflexivity | | left; reflexivity].
      destruct k1 as [|k2]; [repeat (constructor; [oof_case|]); constructor|].
      constructor; [|constructor; [|constructor]].
      + apply (node_l k2 0 li HSeq [r; st]); [exact Nli | reflexivity | | left; reflexivity].
        constructor; [apply L; lia|]. constructor; [|constructor]. destruct k2 as [|k3]; [oof_case|].
        apply (node_l k3 (S (S (S k3))) st HStarPartial [sq]); [exact Nst | reflexivity | | right; lia].
        constructor; [|constructor]. destruct k3 as [|k4]; [oof_case|].
        apply (node_l k4 0 sq HSeq [s; r]); [exact Nsq | reflexivity | | left; reflexivity].
        constructor; [apply L; lia|]. constructor; [apply L; lia | constructor].
      + apply (node_l k2 0 os HPartial [s]); [exact Nos | reflexivity | | left; reflexivity].
        constructor; [apply L; lia | constructor]. }
    apply cS_trans with (g := lt_impl C K (ecl K r) (ecl K s)).
    { intros d1 d2 c. apply list_tail_B; [apply ecl_cS; lia | apply ecl_cS; lia | apply ecl_cS; lia | apply ecl_crest | apply le_n]. }
    replace (K + 2) with (S (S K)) by lia. unfold lt_impl.
    apply (node_r (S K) 0 r1 HSeq [r; sp]); [exact N1 | reflexivity | | left; reflexivity | discriminate].
    constructor; [apply ecl_cS; lia|]. constructor; [|constructor].
    apply (node_r K K sp HStarPartial [s; r]); [exact Nsp | reflexivity | leafs | right; lia | discriminate].
Qed.
Theorem list_tail_table r1 sp r2 li st sq os r s :
  node r1 HSeq [r; sp] -> node sp HStarPartial [s; r] ->
  node r2 HSeq [li; os] -> node li HSeq [r; st] -> node st HStarPartial [sq] -> node sq HSeq [s; r] -> node os HPartial [s] ->
  obs_equiv r1 r2.
Proof. intros. apply uequiv_obs_equiv. eapply list_tail_utable; eassumption. Qed.

(* ---------- until< R, S1, S2... >  (rule_t until< R, seq< S... > >)  ==  seq< star< not_at< R >, S1, S2... >, R > ---------- *)
Lemma c_not_self (f g : closure) : cS f g -> cS (c_not C f) (c_not C g).
Proof.
  intros H. apply (c_node_cong C 0 0 HNotAt [f] [g]); [apply le_n | exact I | reflexivity | discriminate|].
  constructor; [exact H | constructor].
Qed.

Theorem until_pack_utable r1 sq1 r2 st sq2 na cnd s ss :
  node r1 HUntil2 [cnd; sq1] -> node sq1 HSeq (s :: ss) ->
  node r2 HSeq [st; cnd] -> node st HStarPartial [sq2] -> node sq2 HSeq (na :: s :: ss) -> node na HNotAt [cnd] ->
  uequiv r1 r2.
Proof.
  intros N1 Nsq1 N2 Nst Nsq2 Nna. split.
  - exists 3. intros [|[|k]]; [oof_case| |].
    { apply cS_trans with (g := u2_impl C 0 (ecl 0 cnd) (ecl 0 sq1)).
      { apply (node_l 0 0 r1 HUntil2 [cnd; sq1]); [exact N1 | reflexivity | leafs | right; lia]. }
      intros d1 d2 c. left. reflexivity. }
    set (gc := ecl (S k) cnd). set (GS := map (ecl k) (s :: ss)).
    apply cS_trans with (g := u2_impl C (S k) gc (ecl (S k) sq1)).
    { apply (node_l (S k) (S k) r1 HUntil2 [cnd; sq1]); [exact N1 | reflexivity | leafs | right; lia]. }
    apply cS_trans with (g := u2_doc C (S k) gc (c_seq C GS)).
    { intros d1 d2 c. apply (until2_A C gc (ecl (S k) sq1) gc (c_seq C GS)); [apply ecl_cS; lia | | apply ecl_crest | apply le_n].
      apply (node_l k 0 sq1 HSeq (s :: ss)); [exact Nsq1 | reflexivity | apply F2_map_l; lia | left; reflexivity]. }
    apply cS_trans with (g := c_seq C [c_star C (S k) (c_seq C (c_not C gc :: GS)); gc]).
    { unfold u2_doc. apply (c_node_cong C 0 0 HSeq); [apply le_n | exact I | reflexivity | discriminate|].
      constructor; [|constructor; [apply ecl_cS; lia | constructor]].
      unfold u2_st. apply (c_node_cong C (S k) (S k) HStarPartial); [apply le_n | exact I | reflexivity | discriminate|].
      constructor; [|constructor]. unfold u2_sq, u2_na. unfold GS. cbn [map].
      apply (seq_flat_B C (c_not C gc) (c_not C gc)); [apply c_not_self; apply ecl_cS; lia|].
      apply (F2_map_cS k k (s :: ss)); lia. }
    replace (S (S k) + 3) with (S (S (S (S (S k))))) by lia.
    apply (node_r (S (S (S (S k)))) 0 r2 HSeq [st; cnd]); [exact N2 | reflexivity | | left; reflexivity | discriminate].
    constructor; [|constructor; [apply ecl_cS; lia | constructor]].
    apply (node_r (S (S (S k))) (S k) st HStarPartial [sq2]); [exact Nst | reflexivity | | right; lia | discriminate].
    constructor; [|constructor].
    apply (node_r (S (S k)) 0 sq2 HSeq (na :: s :: ss)); [exact Nsq2 | reflexivity | | left; reflexivity | discriminate].
    constructor; [|apply (F2_map_r k (S (S k)) (s :: ss)); lia].
    apply (node_r (S k) 0 na HNotAt [cnd]); [exact Nna | reflexivity | leafs | left; reflexivity | discriminate].
  - exists 2. intros K.
    assert (L : forall j q, j <= K -> cS (ecl j q) (ecl K q)) by (intros; apply ecl_cS; assumption).
    set (gc := ecl K cnd). set (GS := map (ecl K) (s :: ss)).
    apply cS_trans with (g := c_seq C [c_star C K (c_seq C (c_not C gc :: GS)); gc]).
    { destruct K as [|k1]; [oof_case|].
      apply (node_l k1 0 r2 HSeq [st; cnd]); [exact N2 | reflexivity | | left; reflexivity].
      constructor; [|constructor; [apply L; lia | constructor]].
      destruct k1 as [|k2]; [oof_case|].
      apply (node_l k2 (S (S k2)) st HStarPartial [sq2]); [exact Nst | reflexivity | | right; lia].
      constructor; [|constructor]. destruct k2 as [|k3]; [oof_case|].
      apply (node_l k3 0 sq2 HSeq (na :: s :: ss)); [exact Nsq2 | reflexivity | | left; reflexivity].
      constructor; [|apply (F2_map_l k3 (S (S (S k3))) (s :: ss)); lia].
      destruct k3 as [|k4]; [oof_case|].
      apply (node_l k4 0 na HNotAt [cnd]); [exact Nna | reflexivity | | left; reflexivity].
      constructor; [apply L; lia | constructor]. }
    apply cS_trans with (g := u2_doc C K gc (c_seq C GS)).
    { unfold u2_doc. apply (c_node_cong C 0 0 HSeq); [apply le_n | exact I | reflexivity | discriminate|].
      constructor; [|constructor; [apply ecl_cS; lia | constructor]].
      unfold u2_st. apply (c_node_cong C K K HStarPartial); [apply le_n | exact I | reflexivity | discriminate|].
      constructor; [|constructor]. unfold u2_sq, u2_na. unfold GS. cbn [map].
      apply (seq_flat_A C (c_not C gc) (c_not C gc)); [apply c_not_self; apply ecl_cS; lia|].
      apply (F2_map_cS K K (s :: ss)); lia. }
    apply cS_trans with (g := u2_impl C (S K) (ecl (S K) cnd) (ecl (S K) sq1)).
    { intros d1 d2 c. apply (until2_B C gc (c_seq C GS) (ecl (S K) cnd) (ecl (S K) sq1)); [apply ecl_cS; lia | | apply ecl_cS; lia | apply ecl_crest | lia].
      apply (node_r K 0 sq1 HSeq (s :: ss)); [exact Nsq1 | reflexivity | apply F2_map_r; lia | left; reflexivity | discriminate]. }
    replace (K + 2) with (S (S K)) by lia.
    apply (node_r (S K) (S K) r1 HUntil2 [cnd; sq1]); [exact N1 | reflexivity | leafs | right; lia | discriminate].
Qed.
Theorem until_pack_table r1 sq1 r2 st sq2 na cnd s ss :
  node r1 HUntil2 [cnd; sq1] -> node sq1 HSeq (s :: ss) ->
  node r2 HSeq [st; cnd] -> node st HStarPartial [sq2] -> node sq2 HSeq (na :: s :: ss) -> node na HNotAt [cnd] ->
  obs_equiv r1 r2.
Proof. intros. apply uequiv_obs_equiv. eapply until_pack_utable; eassumption. Qed.

End Table2.
