(* IntegerFacts.v — proofs about the model of contrib/integer.hpp (Integer.v) against the
   specification IntegerSpec.v.  Property C15. *)
From PegtlV Require Import Base Integer IntegerSpec.
From Coq Require Import Lia ZifyBool.
Ltac Zify.zify_post_hook ::= Z.to_euclidean_division_equations.   (* N.modulo zifies to Z.rem: needs the quot/rem equations too *)
Local Open Scope N_scope.

(* ================================================================== powers of two *)

Lemma pow2_pos : forall w, 0 < pow2 w.
Proof.
  intro w. unfold pow2. apply N.neq_0_lt_0. apply N.pow_nonzero. discriminate.
Qed.

Lemma pow2_S : forall w, pow2 (S w) = 2 * pow2 w.
Proof.
  intro w. unfold pow2. rewrite Nat2N.inj_succ. rewrite N.pow_succ_r'. reflexivity.
Qed.

Lemma pow2_pred : forall w, (1 <= w)%nat -> pow2 w = 2 * pow2 (w - 1).
Proof.
  intros w Hw. destruct w as [|w']; [lia|].
  replace (S w' - 1)%nat with w' by lia. apply pow2_S.
Qed.

Lemma pow2_mono : forall a b, (a <= b)%nat -> pow2 a <= pow2 b.
Proof.
  intros a b Hab. unfold pow2. apply N.pow_le_mono_r; lia.
Qed.

Lemma pow2_4 : pow2 4 = 16.
Proof. reflexivity. Qed.

Lemma pow2_ge_16 : forall w, (4 <= w)%nat -> 16 <= pow2 w.
Proof.
  intros w Hw. rewrite <- pow2_4. apply pow2_mono. exact Hw.
Qed.

Lemma pow2_Z : forall w, Z.of_N (pow2 w) = (2 ^ Z.of_nat w)%Z.
Proof.
  intro w. unfold pow2. rewrite N2Z.inj_pow. rewrite nat_N_Z. reflexivity.
Qed.

(* ================================================================== accumulate_digit *)

(* the overflow test is exact and the accepted update does not wrap *)
Lemma acc_digit_char : forall w Max r c,
  Max < pow2 w -> c <= 9 ->
  accumulate_digit w Max r c = if 10 * r + c <=? Max then Some (10 * r + c) else None.
Proof.
  intros w Max r c HM Hc. unfold accumulate_digit.
  destruct ((Max / 10 <? r) || ((r =? Max / 10) && (Max mod 10 <? c))) eqn:Et.
  - destruct (10 * r + c <=? Max) eqn:El; [exfalso; lia | reflexivity].
  - destruct (10 * r + c <=? Max) eqn:El; [| exfalso; lia].
    assert (H1 : r * 10 < pow2 w) by lia.
    rewrite (N.mod_small (r * 10) (pow2 w) H1).
    assert (H2 : r * 10 + c < pow2 w) by lia.
    rewrite (N.mod_small (r * 10 + c) (pow2 w) H2).
    f_equal. lia.
Qed.

Lemma acc_digit_exact : forall w Max r c,
  Max < pow2 w -> c <= 9 ->
  (forall r', accumulate_digit w Max r c = Some r' <-> (10 * r + c <= Max /\ r' = 10 * r + c)) /\
  (accumulate_digit w Max r c = None <-> Max < 10 * r + c).
Proof.
  intros w Max r c HM Hc. rewrite (acc_digit_char w Max r c HM Hc).
  destruct (10 * r + c <=? Max) eqn:El; split.
  - intro r'. split.
    + intro H. assert (H' : r' = 10 * r + c) by congruence. lia.
    + intros [_ H]. subst r'. reflexivity.
  - split; [discriminate | lia].
  - intro r'. split; [discriminate | lia].
  - split; [lia | reflexivity].
Qed.

(* the accepting path never leaves the w-bit range before the reduction: no wrap, and for a Signed
   Integer no signed overflow *)
Lemma acc_digit_no_wrap : forall w Max r c r',
  Max < pow2 w -> c <= 9 ->
  accumulate_digit w Max r c = Some r' -> r * 10 + c < pow2 w /\ r' = r * 10 + c /\ r' <= Max.
Proof.
  intros w Max r c r' HM Hc H.
  destruct (acc_digit_exact w Max r c HM Hc) as [H1 _].
  apply H1 in H. lia.
Qed.

(* ================================================================== digits *)

Definition bytes_ok (s : list byte) : Prop := Forall (fun b => b < 256) s.

Lemma sdigit_iff : forall b, sdigit b = true <-> isdigit b.
Proof.
  intro b. unfold sdigit, isdigit. lia.
Qed.

Lemma sdigit_false_iff : forall b, sdigit b = false <-> ~ isdigit b.
Proof.
  intro b. unfold sdigit, isdigit. lia.
Qed.

Lemma is_digit_sdigit : forall b, b < 256 -> is_digit b = sdigit b.
Proof.
  intros b Hb. unfold is_digit, sdigit, schar.
  destruct (b <? 128) eqn:E; lia.
Qed.

Lemma digit_value_digit : forall w b, (4 <= w)%nat -> isdigit b -> digit_value w b = b - 48.
Proof.
  intros w b Hw Hd. unfold isdigit in Hd. unfold digit_value, schar.
  pose proof (pow2_ge_16 w Hw) as H16.
  destruct (b <? 128) eqn:E; [| lia].
  rewrite Z.mod_small by lia. lia.
Qed.

Lemma digit_value_le9 : forall w b, (4 <= w)%nat -> isdigit b -> digit_value w b <= 9.
Proof.
  intros w b Hw Hd. rewrite (digit_value_digit w b Hw Hd). unfold isdigit in Hd. lia.
Qed.

Lemma digits_value_ge : forall ds a, Forall isdigit ds -> (0 <= a)%Z -> (a <= digits_value a ds)%Z.
Proof.
  induction ds as [|d tl IH]; intros a Hds Ha; cbn [digits_value].
  - lia.
  - inversion Hds as [|x l Hd Htl]; subst. unfold isdigit in Hd.
    specialize (IH (10 * a + (Z.of_N d - 48))%Z Htl). lia.
Qed.

(* ================================================================== accumulate_digits *)

Lemma accumulate_digits_char : forall w Max ds r,
  (4 <= w)%nat -> Max < pow2 w -> Forall isdigit ds -> r <= Max ->
  let v := digits_value (Z.of_N r) ds in
  (fst (accumulate_digits w Max r ds) = (v <=? Z.of_N Max)%Z) /\
  ((v <= Z.of_N Max)%Z -> Z.of_N (snd (accumulate_digits w Max r ds)) = v) /\
  snd (accumulate_digits w Max r ds) <= Max.
Proof.
  intros w Max ds. induction ds as [|d tl IH]; intros r Hw HM Hds Hr; cbn [digits_value accumulate_digits].
  - cbn [fst snd]. lia.
  - inversion Hds as [|x l Hd Htl]; subst.
    pose proof (digit_value_le9 w d Hw Hd) as H9.
    rewrite (acc_digit_char w Max r (digit_value w d) HM H9).
    rewrite (digit_value_digit w d Hw Hd) in *.
    unfold isdigit in Hd.
    destruct (10 * r + (d - 48) <=? Max) eqn:El.
    + assert (Hr' : 10 * r + (d - 48) <= Max) by lia.
      specialize (IH (10 * r + (d - 48)) Hw HM Htl Hr'). cbv zeta in IH.
      replace (Z.of_N (10 * r + (d - 48))) with (10 * Z.of_N r + (Z.of_N d - 48))%Z in IH by lia.
      exact IH.
    + cbn [fst snd].
      pose proof (digits_value_ge tl (10 * Z.of_N r + (Z.of_N d - 48))%Z Htl) as Hge.
      lia.
Qed.

(* ================================================================== conversions *)

Lemma unsigned_numeral_digits : forall ds, unsigned_numeral ds -> Forall isdigit ds /\ ds <> [].
Proof.
  intros ds H. destruct H as [|d ds' Hd Hds'].
  - split; [| discriminate]. constructor; [unfold isdigit; lia | constructor].
  - split; [| discriminate]. constructor; [unfold isdigit; lia | exact Hds'].
Qed.

Lemma convert_unsigned_exact : forall w Max ds,
  (4 <= w)%nat -> Max < pow2 w -> Forall isdigit ds ->
  (forall v, convert_unsigned w Max ds = (true, v) <->
             ((unsigned_value ds <= Z.of_N Max)%Z /\ Z.of_N v = unsigned_value ds)) /\
  (fst (convert_unsigned w Max ds) = false <-> (Z.of_N Max < unsigned_value ds)%Z).
Proof.
  intros w Max ds Hw HM Hds. unfold convert_unsigned, unsigned_value.
  destruct (accumulate_digits_char w Max ds 0 Hw HM Hds ltac:(lia)) as [C1 [C2 C3]].
  change (Z.of_N 0) with 0%Z in *.
  destruct (accumulate_digits w Max 0 ds) as [ok v0] eqn:E. cbn [fst snd] in *.
  split.
  - intro v. split.
    + intro H. assert (Hok : ok = true) by congruence. assert (Hv : v0 = v) by congruence.
      subst ok v0. split; [lia | apply C2; lia].
    + intros [H1 H2]. specialize (C2 H1).
      assert (Hok : ok = true) by (rewrite C1; apply Z.leb_le; exact H1).
      assert (Hv : v0 = v) by lia. rewrite Hok, Hv. reflexivity.
  - rewrite C1. rewrite Z.leb_gt. reflexivity.
Qed.

Lemma smax_lt : forall w, (1 <= w)%nat -> smax w < pow2 (w - 1) /\ smax w + 1 = pow2 (w - 1) /\ pow2 (w - 1) < pow2 w.
Proof.
  intros w Hw. unfold smax. pose proof (pow2_pos (w - 1)) as Hp. pose proof (pow2_pred w Hw) as H2. lia.
Qed.

Lemma to_signed_small : forall w u, u < pow2 (w - 1) -> to_signed w u = Z.of_N u.
Proof.
  intros w u Hu. unfold to_signed. destruct (u <? pow2 (w - 1)) eqn:E; [reflexivity | lia].
Qed.

(* two's complement negation of 0 .. 2^(w-1) gives exactly -t; t = 2^(w-1) yields the minimum *)
Lemma neg_twos_complement : forall w t, (1 <= w)%nat -> t <= pow2 (w - 1) ->
  to_signed w ((lnot_w w t + 1) mod pow2 w) = (- Z.of_N t)%Z.
Proof.
  intros w t Hw Ht. unfold lnot_w, to_signed.
  pose proof (pow2_pos (w - 1)) as Hp. rewrite (pow2_pred w Hw).
  set (P := pow2 (w - 1)) in *.
  destruct (N.eq_dec t 0) as [Ht0 | Ht0].
  - subst t. replace (2 * P - 1 - 0 + 1) with (2 * P) by lia.
    rewrite N.mod_same by lia. destruct (0 <? P) eqn:E; lia.
  - replace (2 * P - 1 - t + 1) with (2 * P - t) by lia.
    rewrite N.mod_small by lia. destruct (2 * P - t <? P) eqn:E; lia.
Qed.

Lemma convert_positive_signed_exact : forall w ds, (4 <= w)%nat -> Forall isdigit ds ->
  exists ok v, convert_positive_signed w ds = (ok, v) /\
    (ok = true <-> signed_range w (unsigned_value ds)) /\ (ok = true -> v = unsigned_value ds).
Proof.
  intros w ds Hw Hds. unfold convert_positive_signed, convert_positive, unsigned_value.
  destruct (smax_lt w ltac:(lia)) as [S1 [S2 S3]].
  destruct (accumulate_digits_char w (smax w) ds 0 Hw ltac:(lia) Hds ltac:(lia)) as [C1 [C2 C3]].
  change (Z.of_N 0) with 0%Z in *.
  pose proof (digits_value_ge ds 0%Z Hds ltac:(lia)) as Hge.
  destruct (accumulate_digits w (smax w) 0 ds) as [ok v0] eqn:E. cbn [fst snd] in *.
  exists ok, (to_signed w v0). split; [reflexivity |].
  unfold signed_range. rewrite <- pow2_Z. rewrite C1. split.
  - lia.
  - intro Hok. rewrite to_signed_small by lia. apply C2. lia.
Qed.

Lemma convert_negative_exact : forall w ds, (4 <= w)%nat -> Forall isdigit ds ->
  exists ok v, convert_negative w ds = (ok, v) /\
    (ok = true <-> signed_range w (- unsigned_value ds)) /\ (ok = true -> v = (- unsigned_value ds)%Z).
Proof.
  intros w ds Hw Hds. unfold convert_negative, unsigned_value.
  destruct (smax_lt w ltac:(lia)) as [S1 [S2 S3]].
  rewrite S2. rewrite (N.mod_small _ _ S3).
  destruct (accumulate_digits_char w (pow2 (w - 1)) ds 0 Hw S3 Hds ltac:(lia)) as [C1 [C2 C3]].
  change (Z.of_N 0) with 0%Z in *.
  pose proof (digits_value_ge ds 0%Z Hds ltac:(lia)) as Hge.
  destruct (accumulate_digits w (pow2 (w - 1)) 0 ds) as [ok t] eqn:E. cbn [fst snd] in *.
  unfold signed_range. rewrite <- pow2_Z.
  destruct ok.
  - exists true, (to_signed w ((lnot_w w t + 1) mod pow2 w)). split; [reflexivity |]. split.
    + lia.
    + intros _. rewrite (neg_twos_complement w t ltac:(lia) C3). rewrite C2 by lia. reflexivity.
  - exists false, 0%Z. split; [reflexivity |]. split; [lia | discriminate].
Qed.

Lemma convert_signed_exact : forall w inp, (4 <= w)%nat -> signed_numeral inp ->
  exists ok v, convert_signed w inp = Some (ok, v) /\
    (ok = true <-> signed_range w (signed_value inp)) /\ (ok = true -> v = signed_value inp).
Proof.
  intros w inp Hw Hn. destruct Hn as [ds Hu | ds Hu | ds Hu].
  - destruct (unsigned_numeral_digits ds Hu) as [Hds Hne].
    destruct ds as [|b tl]; [congruence |].
    assert (Hb : isdigit b) by (inversion Hds; assumption). unfold isdigit in Hb.
    unfold convert_signed, signed_value.
    destruct (b =? 45) eqn:E45; [lia |]. destruct (b =? 43) eqn:E43; [lia |].
    destruct (convert_positive_signed_exact w (b :: tl) Hw Hds) as [ok [v [H1 H2]]].
    exists ok, v. rewrite H1. split; [reflexivity | exact H2].
  - destruct (unsigned_numeral_digits ds Hu) as [Hds Hne].
    unfold convert_signed, signed_value. change (45 =? 45) with true. cbv iota.
    destruct (convert_negative_exact w ds Hw Hds) as [ok [v [H1 H2]]].
    exists ok, v. rewrite H1. split; [reflexivity | exact H2].
  - destruct (unsigned_numeral_digits ds Hu) as [Hds Hne].
    unfold convert_signed, signed_value. change (43 =? 45) with false. change (43 =? 43) with true. cbv iota.
    destruct (convert_positive_signed_exact w ds Hw Hds) as [ok [v [H1 H2]]].
    exists ok, v. rewrite H1. split; [reflexivity | exact H2].
Qed.

(* ================================================================== cursors *)

Definition adv (n : nat) (p : pos) : pos :=
  mkpos (pbyte p + N.of_nat n) (pline p) (pcol p + N.of_nat n).
(* the cursor moved n bytes forward within the line *)
Definition advance (n : nat) (c : cursor) : cursor := mkcur (skipn n (rest c)) (adv n (cpos c)).

Lemma drop_skipn : forall n l, (n <= length l)%nat -> drop n l = Some (skipn n l).
Proof.
  induction n as [|n IH]; intros l Hl.
  - reflexivity.
  - destruct l as [|b tl]; cbn [length] in Hl; [lia|].
    cbn [drop skipn]. apply IH. lia.
Qed.

Lemma bump_advance : forall n c, (n <= length (rest c))%nat -> bump_in_line n c = Some (advance n c).
Proof.
  intros n c Hn. unfold bump_in_line. rewrite (drop_skipn n (rest c) Hn). reflexivity.
Qed.

Lemma bump_some_advance : forall n c c', bump_in_line n c = Some c' -> c' = advance n c /\ (n <= length (rest c))%nat.
Proof.
  intros n c c' H.
  destruct (Nat.le_gt_cases n (length (rest c))) as [Hle | Hgt].
  - rewrite (bump_advance n c Hle) in H. split; [congruence | exact Hle].
  - exfalso. unfold bump_in_line in H.
    assert (Hd : forall m l, (length l < m)%nat -> drop m l = None).
    { induction m as [|m IHm]; intros l Hl; [lia|].
      destruct l as [|b tl]; [reflexivity|]. cbn [drop]. apply IHm. cbn [length] in Hl. lia. }
    rewrite (Hd n (rest c) Hgt) in H. discriminate.
Qed.

Lemma skipn_skipn' : forall (n m : nat) (l : list byte), skipn n (skipn m l) = skipn (m + n) l.
Proof.
  intros n m. induction m as [|m IH]; intro l.
  - reflexivity.
  - destruct l as [|b tl].
    + cbn [skipn plus]. destruct n; reflexivity.
    + cbn [skipn plus]. apply IH.
Qed.

Lemma advance_advance : forall n m c, advance n (advance m c) = advance (m + n) c.
Proof.
  intros n m c. unfold advance, adv. cbn [rest cpos pbyte pline pcol].
  rewrite skipn_skipn'. f_equal. f_equal; lia.
Qed.

Lemma advance_0 : forall c, advance 0 c = c.
Proof.
  intros [l [b ln cl]]. unfold advance, adv. cbn [rest cpos pbyte pline pcol skipn].
  change (N.of_nat 0) with 0. rewrite !N.add_0_r. reflexivity.
Qed.

Lemma rest_advance : forall n c, rest (advance n c) = skipn n (rest c).
Proof. reflexivity. Qed.

Lemma bytes_ok_skipn : forall n s, bytes_ok s -> bytes_ok (skipn n s).
Proof.
  induction n as [|n IH]; intros s Hs; [exact Hs|].
  destruct s as [|b tl]; [exact Hs|]. cbn [skipn]. apply IH. inversion Hs; assumption.
Qed.

(* the API on a cursor whose remaining input is known *)
Lemma api_nil : forall c, rest c = [] -> in_empty c = true.
Proof. intros c H. unfold in_empty. rewrite H. reflexivity. Qed.

Lemma api_cons : forall c b tl, rest c = b :: tl ->
  in_empty c = false /\ peek_at c 0 = Some b /\ bump_in_line 1 c = Some (advance 1 c) /\
  rest (advance 1 c) = tl /\ in_size c = S (length tl).
Proof.
  intros c b tl H. unfold in_empty, peek_at, in_size. rewrite H. cbn [nth_error length].
  repeat split.
  - apply bump_advance. rewrite H. cbn [length]. lia.
  - rewrite rest_advance. rewrite H. reflexivity.
Qed.

(* ================================================================== recognisers vs predicates *)

Lemma span_digits_le : forall s, (span_digits s <= length s)%nat.
Proof.
  induction s as [|b tl IH]; cbn [span_digits length]; [lia|].
  destruct (sdigit b); lia.
Qed.

Lemma span_digits_firstn : forall s, forallb sdigit (firstn (span_digits s) s) = true.
Proof.
  induction s as [|b tl IH]; cbn [span_digits]; [reflexivity|].
  destruct (sdigit b) eqn:E; [| reflexivity].
  cbn [firstn forallb]. rewrite E, IH. reflexivity.
Qed.

Lemma span_digits_skipn : forall s, no_digit_follows (skipn (span_digits s) s).
Proof.
  induction s as [|b tl IH]; cbn [span_digits]; [exact I|].
  destruct (sdigit b) eqn:E.
  - cbn [skipn]. exact IH.
  - cbn [skipn no_digit_follows]. apply sdigit_false_iff. exact E.
Qed.

Lemma span_digits_app : forall ds r, Forall isdigit ds -> no_digit_follows r ->
  span_digits (ds ++ r) = length ds.
Proof.
  induction ds as [|d tl IH]; intros r Hds Hr.
  - cbn [app length]. destruct r as [|b r']; [reflexivity|].
    cbn [span_digits]. cbn [no_digit_follows] in Hr. apply sdigit_false_iff in Hr. rewrite Hr. reflexivity.
  - inversion Hds as [|x l Hd Htl]; subst. cbn [app span_digits length].
    apply sdigit_iff in Hd. rewrite Hd. f_equal. apply IH; assumption.
Qed.

Lemma forallb_sdigit : forall ds, forallb sdigit ds = true <-> Forall isdigit ds.
Proof.
  induction ds as [|d tl IH]; cbn [forallb].
  - split; [constructor | reflexivity].
  - rewrite andb_true_iff, IH, sdigit_iff. split.
    + intros [H1 H2]. constructor; assumption.
    + intro H. inversion H; subst. split; assumption.
Qed.

Lemma numeral_b_iff : forall ds, numeral_b ds = true <-> unsigned_numeral ds.
Proof.
  intro ds. split.
  - intro H. destruct ds as [|d tl]; [discriminate|]. cbn [numeral_b] in H.
    destruct (d =? 48) eqn:E.
    + destruct tl; [| discriminate]. assert (d = 48) by lia. subst d. constructor.
    + apply andb_true_iff in H. destruct H as [H1 H2].
      apply sdigit_iff in H1. unfold isdigit in H1. apply forallb_sdigit in H2.
      constructor; [lia | exact H2].
  - intro H. destruct H as [|d tl Hd Htl].
    + reflexivity.
    + cbn [numeral_b]. destruct (d =? 48) eqn:E; [lia|].
      apply andb_true_iff. split; [apply sdigit_iff; unfold isdigit; lia | apply forallb_sdigit; exact Htl].
Qed.

Lemma firstn_app_exact : forall (ds r : list N), firstn (length ds) (ds ++ r) = ds.
Proof.
  induction ds as [|d tl IH]; intro r; [reflexivity|].
  cbn [length app firstn]. f_equal. apply IH.
Qed.

Lemma lex_unsigned_iff : forall s k, lex_unsigned s = Some k <-> unsigned_lexeme s k.
Proof.
  intros s k. unfold lex_unsigned. split.
  - destruct (numeral_b (firstn (span_digits s) s)) eqn:E; [| discriminate].
    intro H. assert (Hk : span_digits s = k) by congruence. clear H.
    exists (firstn k s), (skipn k s). subst k. repeat split.
    + symmetry. apply firstn_skipn.
    + apply firstn_length_le. apply span_digits_le.
    + apply numeral_b_iff. exact E.
    + apply span_digits_skipn.
  - intros [ds [r [Hs [Hk [Hn Hr]]]]]. subst s k.
    destruct (unsigned_numeral_digits ds Hn) as [Hds _].
    rewrite (span_digits_app ds r Hds Hr). rewrite firstn_app_exact.
    apply numeral_b_iff in Hn. rewrite Hn. reflexivity.
Qed.

Lemma unsigned_lexeme_unique : forall s k k', unsigned_lexeme s k -> unsigned_lexeme s k' -> k = k'.
Proof.
  intros s k k' H H'. apply lex_unsigned_iff in H. apply lex_unsigned_iff in H'. congruence.
Qed.

Lemma unsigned_lexeme_dec : forall s, (exists k, unsigned_lexeme s k) \/ (forall k, ~ unsigned_lexeme s k).
Proof.
  intro s. destruct (lex_unsigned s) as [k|] eqn:E.
  - left. exists k. apply lex_unsigned_iff. exact E.
  - right. intros k H. apply lex_unsigned_iff in H. congruence.
Qed.

Lemma unsigned_numeral_first : forall ds, unsigned_numeral ds -> exists d tl, ds = d :: tl /\ isdigit d.
Proof.
  intros ds H. destruct H as [|d tl Hd Htl].
  - exists 48, []. split; [reflexivity | unfold isdigit; lia].
  - exists d, tl. split; [reflexivity | unfold isdigit; lia].
Qed.

Lemma lex_signed_iff : forall s k, lex_signed s = Some k <-> signed_lexeme s k.
Proof.
  intros s k. unfold lex_signed. split.
  - destruct s as [|b tl]; [discriminate|].
    destruct ((b =? 45) || (b =? 43)) eqn:Es.
    + destruct (lex_unsigned tl) as [k0|] eqn:El; [| discriminate].
      cbn [option_map]. intro H. assert (Hk : k = S k0) by congruence. subst k.
      apply lex_unsigned_iff in El. destruct El as [ds [r [Hs [Hk [Hn Hr]]]]].
      exists (b :: ds), r. subst tl. repeat split.
      * cbn [length]. lia.
      * destruct (b =? 45) eqn:E45.
        { assert (b = 45) by lia. subst b. apply SN_minus. exact Hn. }
        { assert (b = 43) by lia. subst b. apply SN_plus. exact Hn. }
      * exact Hr.
    + intro H. apply lex_unsigned_iff in H. destruct H as [ds [r [Hs [Hk [Hn Hr]]]]].
      exists ds, r. repeat split; try assumption. apply SN_plain. exact Hn.
  - intros [ds [r [Hs [Hk [Hn Hr]]]]]. destruct Hn as [ds Hu | ds Hu | ds Hu].
    + destruct (unsigned_numeral_first ds Hu) as [d [tl [Hd1 Hd2]]]. subst ds.
      cbn [app] in Hs. subst s. unfold isdigit in Hd2.
      destruct ((d =? 45) || (d =? 43)) eqn:Es; [lia|].
      apply lex_unsigned_iff. exists (d :: tl), r. repeat split; assumption.
    + subst s. cbn [app]. change ((45 =? 45) || (45 =? 43)) with true. cbv iota.
      assert (Hl : lex_unsigned (ds ++ r) = Some (length ds)).
      { apply lex_unsigned_iff. exists ds, r. repeat split; assumption. }
      rewrite Hl. cbn [option_map]. cbn [length] in Hk. congruence.
    + subst s. cbn [app]. change ((43 =? 45) || (43 =? 43)) with true. cbv iota.
      assert (Hl : lex_unsigned (ds ++ r) = Some (length ds)).
      { apply lex_unsigned_iff. exists ds, r. repeat split; assumption. }
      rewrite Hl. cbn [option_map]. cbn [length] in Hk. congruence.
Qed.

Lemma signed_lexeme_unique : forall s k k', signed_lexeme s k -> signed_lexeme s k' -> k = k'.
Proof.
  intros s k k' H H'. apply lex_signed_iff in H. apply lex_signed_iff in H'. congruence.
Qed.

Lemma signed_lexeme_dec : forall s, (exists k, signed_lexeme s k) \/ (forall k, ~ signed_lexeme s k).
Proof.
  intro s. destruct (lex_signed s) as [k|] eqn:E.
  - left. exists k. apply lex_signed_iff. exact E.
  - right. intros k H. apply lex_signed_iff in H. congruence.
Qed.

(* ================================================================== the rules: model = recogniser *)

Lemma bytes_ok_cons : forall b tl, bytes_ok (b :: tl) -> b < 256 /\ bytes_ok tl.
Proof. intros b tl H. inversion H; subst. split; assumption. Qed.

Lemma skip_digits_eq : forall fuel c,
  skip_digits fuel c =
  if in_empty c then Some c
  else match peek_at c 0 with
       | None => None
       | Some ch =>
           if is_digit ch then
             match bump_in_line 1 c with
             | None => None
             | Some c' => match fuel with [] => None | _ :: fuel' => skip_digits fuel' c' end
             end
           else Some c
       end.
Proof. intros fuel c. destruct fuel; reflexivity. Qed.

Lemma skip_digits_char : forall fuel c, bytes_ok (rest c) -> (length (rest c) <= length fuel)%nat ->
  skip_digits fuel c = Some (advance (span_digits (rest c)) c).
Proof.
  induction fuel as [|f0 fuel IH]; intros c Hok Hlen; rewrite skip_digits_eq.
  - destruct (rest c) as [|b tl] eqn:Er; [| cbn [length] in Hlen; lia].
    rewrite (api_nil c Er). cbn [span_digits]. rewrite advance_0. reflexivity.
  - destruct (rest c) as [|b tl] eqn:Er.
    + rewrite (api_nil c Er). cbn [span_digits]. rewrite advance_0. reflexivity.
    + destruct (api_cons c b tl Er) as [A1 [A2 [A3 [A4 A5]]]].
      destruct (bytes_ok_cons b tl Hok) as [Hb Htl].
      rewrite A1, A2, (is_digit_sdigit b Hb). cbn [span_digits].
      destruct (sdigit b) eqn:Ed.
      * rewrite A3. rewrite IH.
        { rewrite A4. rewrite advance_advance. reflexivity. }
        { rewrite A4. exact Htl. }
        { rewrite A4. cbn [length] in Hlen. lia. }
      * rewrite advance_0. reflexivity.
Qed.

Lemma zero_case_char : forall (St : Type) c (st : St) tl, rest c = 48 :: tl -> bytes_ok tl ->
  zero_case c st = match tl with
                   | [] => MOk (advance 1 c) st
                   | b1 :: _ => if sdigit b1 then MFail c st else MOk (advance 1 c) st
                   end.
Proof.
  intros St c st tl Er Hok. unfold zero_case, bump_ok.
  destruct (api_cons c 48 tl Er) as [A1 [A2 [A3 [A4 A5]]]]. rewrite A5, A3.
  destruct tl as [|b1 tl'].
  - reflexivity.
  - cbn [length]. change (S (S (length tl')) <? 2)%nat with false. cbv iota.
    unfold peek_at. rewrite Er. cbn [nth_error].
    destruct (bytes_ok_cons b1 tl' Hok) as [Hb _]. rewrite (is_digit_sdigit b1 Hb).
    destruct (sdigit b1); reflexivity.
Qed.

Lemma lex_unsigned_nil : lex_unsigned [] = None.
Proof. reflexivity. Qed.

Lemma lex_unsigned_nondigit : forall b tl, sdigit b = false -> lex_unsigned (b :: tl) = None.
Proof. intros b tl H. unfold lex_unsigned. cbn [span_digits]. rewrite H. reflexivity. Qed.

Lemma lex_unsigned_zero : forall tl,
  lex_unsigned (48 :: tl) = match tl with
                            | [] => Some 1%nat
                            | b1 :: _ => if sdigit b1 then None else Some 1%nat
                            end.
Proof.
  intro tl. unfold lex_unsigned. cbn [span_digits]. change (sdigit 48) with true. cbv iota.
  destruct tl as [|b1 tl']; [reflexivity|]. cbn [span_digits].
  destruct (sdigit b1); reflexivity.
Qed.

Lemma lex_unsigned_nonzero : forall b tl, sdigit b = true -> b <> 48 ->
  lex_unsigned (b :: tl) = Some (S (span_digits tl)).
Proof.
  intros b tl Hd Hnz. unfold lex_unsigned. cbn [span_digits]. rewrite Hd.
  cbn [firstn numeral_b]. destruct (b =? 48) eqn:E; [lia|].
  rewrite Hd, span_digits_firstn. reflexivity.
Qed.

Lemma match_unsigned_char : forall (St : Type) c (st : St), bytes_ok (rest c) ->
  match_unsigned c st = match lex_unsigned (rest c) with
                        | Some k => MOk (advance k c) st
                        | None => MFail c st
                        end.
Proof.
  intros St c st Hok. unfold match_unsigned.
  destruct (rest c) as [|b tl] eqn:Er.
  - rewrite (api_nil c Er). reflexivity.
  - destruct (api_cons c b tl Er) as [A1 [A2 [A3 [A4 A5]]]].
    destruct (bytes_ok_cons b tl Hok) as [Hb Htl].
    rewrite A1, A2, (is_digit_sdigit b Hb).
    destruct (sdigit b) eqn:Ed.
    + destruct (b =? 48) eqn:E48.
      * assert (b = 48) by lia. subst b. rewrite (zero_case_char St c st tl Er Htl).
        rewrite lex_unsigned_zero. destruct tl as [|b1 tl']; [reflexivity|].
        destruct (sdigit b1); reflexivity.
      * rewrite A3. rewrite skip_digits_char.
        { rewrite A4. rewrite advance_advance. rewrite lex_unsigned_nonzero by (try assumption; lia).
          reflexivity. }
        { rewrite A4. exact Htl. }
        { lia. }
    + rewrite lex_unsigned_nondigit by exact Ed. reflexivity.
Qed.

(* ------------------------------------------------------------------ throwing variant *)

Lemma throws_loop_eq : forall fuel w Max c st ch,
  throws_loop fuel w Max c st ch =
  match accumulate_digit w Max st (digit_value w ch) with
  | None => MExc OvfInteger (cpos c) c st
  | Some st' =>
      match bump_in_line 1 c with
      | None => MOob
      | Some c' =>
          if in_empty c' then MOk c' st'
          else match peek_at c' 0 with
               | None => MOob
               | Some ch' =>
                   if is_digit ch' then
                     match fuel with [] => MOob | _ :: fuel' => throws_loop fuel' w Max c' st' ch' end
                   else MOk c' st'
               end
      end
  end.
Proof. intros fuel w Max c st ch. destruct fuel; reflexivity. Qed.

Lemma digits_value_Max_gt : forall ds a Max, Forall isdigit ds -> (0 <= a)%Z -> (Max < a)%Z -> (Max < digits_value a ds)%Z.
Proof.
  intros ds a Max Hds Ha HM. pose proof (digits_value_ge ds a Hds Ha). lia.
Qed.

Lemma firstn_span_digits : forall s, Forall isdigit (firstn (span_digits s) s).
Proof. intro s. apply forallb_sdigit. apply span_digits_firstn. Qed.

(* c stands at the digit ch; n = length of the maximal digit run starting there *)
Lemma throws_loop_char : forall fuel w Max c st ch tl,
  (4 <= w)%nat -> Max < pow2 w -> rest c = ch :: tl -> bytes_ok tl -> isdigit ch ->
  (length tl <= length fuel)%nat ->
  let n := span_digits tl in
  let v := digits_value (Z.of_N st) (ch :: firstn n tl) in
  ((v <= Z.of_N Max)%Z -> throws_loop fuel w Max c st ch = MOk (advance (S n) c) (Z.to_N v)) /\
  ((Z.of_N Max < v)%Z -> exists j st', (j <= n)%nat /\
        throws_loop fuel w Max c st ch = MExc OvfInteger (cpos (advance j c)) (advance j c) st').
Proof.
  induction fuel as [|f0 fuel IH]; intros w Max c st ch tl Hw HM Er Hok Hch Hlen n v;
    rewrite throws_loop_eq;
    pose proof (digit_value_le9 w ch Hw Hch) as H9;
    rewrite (acc_digit_char w Max st (digit_value w ch) HM H9);
    rewrite (digit_value_digit w ch Hw Hch) in *;
    destruct (api_cons c ch tl Er) as [A1 [A2 [A3 [A4 A5]]]];
    pose proof (firstn_span_digits tl) as Hfd; fold n in Hfd;
    unfold isdigit in Hch;
    subst v; cbn [digits_value];
    (destruct (10 * st + (ch - 48) <=? Max) eqn:El;
     [ | split;
         [ intro Hv; exfalso;
           pose proof (digits_value_Max_gt (firstn n tl) (10 * Z.of_N st + (Z.of_N ch - 48))%Z (Z.of_N Max) Hfd ltac:(lia) ltac:(lia)); lia
         | intros _; exists 0%nat, st; split; [lia | rewrite advance_0; reflexivity] ] ]).
  - (* no fuel: tl = [] *)
    destruct tl as [|b tl']; [| cbn [length] in Hlen; lia].
    rewrite A3. rewrite (api_nil (advance 1 c) A4). subst n. cbn [span_digits firstn digits_value].
    split; [| intro; lia]. intros _. f_equal. lia.
  - rewrite A3. destruct tl as [|b tl'].
    + rewrite (api_nil (advance 1 c) A4). subst n. cbn [span_digits firstn digits_value].
      split; [| intro; lia]. intros _. f_equal. lia.
    + destruct (api_cons (advance 1 c) b tl' A4) as [B1 [B2 _]].
      destruct (bytes_ok_cons b tl' Hok) as [Hb Htl'].
      rewrite B1, B2, (is_digit_sdigit b Hb). subst n. cbn [span_digits] in *.
      destruct (sdigit b) eqn:Ed.
      * cbn [firstn].
        assert (Hbd : isdigit b) by (apply sdigit_iff; exact Ed).
        specialize (IH w Max (advance 1 c) (10 * st + (ch - 48)) b tl' Hw HM A4 Htl' Hbd ltac:(cbn [length] in Hlen; lia)).
        cbv zeta in IH.
        replace (Z.of_N (10 * st + (ch - 48))) with (10 * Z.of_N st + (Z.of_N ch - 48))%Z in IH by lia.
        destruct IH as [I1 I2]. split.
        { intro Hv. rewrite (I1 Hv). rewrite advance_advance. reflexivity. }
        { intro Hv. destruct (I2 Hv) as [j [st' [Hj He]]]. exists (S j), st'. split; [lia|].
          rewrite He. rewrite advance_advance. reflexivity. }
      * cbn [firstn digits_value]. split; [| intro; lia]. intros _. f_equal. lia.
Qed.

Lemma match_throws_char : forall w Max c,
  (4 <= w)%nat -> Max < pow2 w -> bytes_ok (rest c) ->
  match lex_unsigned (rest c) with
  | None => match_throws w Max c 0 = MFail c 0
  | Some k =>
      let v := unsigned_value (firstn k (rest c)) in
      ((v <= Z.of_N Max)%Z -> match_throws w Max c 0 = MOk (advance k c) (Z.to_N v)) /\
      ((Z.of_N Max < v)%Z -> exists j st', (j < k)%nat /\
            match_throws w Max c 0 = MExc OvfInteger (cpos (advance j c)) (advance j c) st')
  end.
Proof.
  intros w Max c Hw HM Hok. unfold match_throws.
  destruct (rest c) as [|b tl] eqn:Er.
  - rewrite (api_nil c Er). reflexivity.
  - destruct (api_cons c b tl Er) as [A1 [A2 [A3 [A4 A5]]]].
    destruct (bytes_ok_cons b tl Hok) as [Hb Htl].
    rewrite A1, A2, (is_digit_sdigit b Hb).
    destruct (sdigit b) eqn:Ed.
    + destruct (b =? 48) eqn:E48.
      * assert (b = 48) by lia. subst b. rewrite (zero_case_char N c 0 tl Er Htl).
        rewrite lex_unsigned_zero. destruct tl as [|b1 tl'].
        { cbv zeta. unfold unsigned_value. cbn [firstn digits_value]. split; [reflexivity | lia]. }
        { destruct (sdigit b1); [reflexivity|].
          cbv zeta. unfold unsigned_value. cbn [firstn digits_value]. split; [reflexivity | lia]. }
      * rewrite lex_unsigned_nonzero by (try assumption; lia).
        assert (Hbd : isdigit b) by (apply sdigit_iff; exact Ed).
        destruct (throws_loop_char (b :: tl) w Max c 0 b tl Hw HM Er Htl Hbd ltac:(cbn [length]; lia)) as [T1 T2].
        cbv zeta. unfold unsigned_value. cbn [firstn]. change (Z.of_N 0) with 0%Z in *. split.
        { exact T1. }
        { intro Hv. destruct (T2 Hv) as [j [st' [Hj He]]]. exists j, st'. split; [lia | exact He]. }
    + rewrite lex_unsigned_nondigit by exact Ed. reflexivity.
Qed.

(* ------------------------------------------------------------------ non-throwing variant *)

Lemma nothrow_loop_eq : forall fuel w Max c st ch b,
  nothrow_loop fuel w Max c st ch b =
  match accumulate_digit w Max st (digit_value w ch) with
  | None => MFail c st
  | Some st' =>
      let b' := S b in
      if (b' <? in_size c)%nat then
        match peek_at c b' with
        | None => MOob
        | Some ch' =>
            if is_digit ch' then
              match fuel with [] => MOob | _ :: fuel' => nothrow_loop fuel' w Max c st' ch' b' end
            else bump_ok b' c st'
        end
      else bump_ok b' c st'
  end.
Proof. intros fuel w Max c st ch b. destruct fuel; reflexivity. Qed.

Lemma nth_error_app_len : forall (pre : list byte) x tl, nth_error (pre ++ x :: tl) (length pre) = Some x.
Proof.
  induction pre as [|p pre IH]; intros x tl; [reflexivity|]. cbn [app length nth_error]. apply IH.
Qed.

(* the cursor c does not move; b = number of digits already accepted = offset of the digit ch *)
Lemma nothrow_loop_char : forall fuel w Max c st ch b pre tl,
  (4 <= w)%nat -> Max < pow2 w -> rest c = pre ++ ch :: tl -> length pre = b -> bytes_ok tl -> isdigit ch ->
  (length tl <= length fuel)%nat ->
  let n := span_digits tl in
  let v := digits_value (Z.of_N st) (ch :: firstn n tl) in
  ((v <= Z.of_N Max)%Z -> nothrow_loop fuel w Max c st ch b = MOk (advance (S (b + n)) c) (Z.to_N v)) /\
  ((Z.of_N Max < v)%Z -> exists st', nothrow_loop fuel w Max c st ch b = MFail c st').
Proof.
  induction fuel as [|f0 fuel IH]; intros w Max c st ch b pre tl Hw HM Er Hpre Hok Hch Hlen n v;
    rewrite nothrow_loop_eq;
    pose proof (digit_value_le9 w ch Hw Hch) as H9;
    rewrite (acc_digit_char w Max st (digit_value w ch) HM H9);
    rewrite (digit_value_digit w ch Hw Hch) in *;
    pose proof (firstn_span_digits tl) as Hfd; fold n in Hfd;
    unfold isdigit in Hch;
    subst v; cbn [digits_value];
    (destruct (10 * st + (ch - 48) <=? Max) eqn:El;
     [ | split;
         [ intro Hv; exfalso;
           pose proof (digits_value_Max_gt (firstn n tl) (10 * Z.of_N st + (Z.of_N ch - 48))%Z (Z.of_N Max) Hfd ltac:(lia) ltac:(lia)); lia
         | intros _; exists st; reflexivity ] ]);
    cbv zeta;
    assert (Hsz : in_size c = (S b + length tl)%nat)
      by (unfold in_size; rewrite Er, app_length; cbn [length]; lia).
  - destruct tl as [|b1 tl']; [| cbn [length] in Hlen; lia].
    rewrite Hsz. cbn [length]. replace (S b <? S b + 0)%nat with false by (symmetry; apply Nat.ltb_ge; lia).
    unfold bump_ok. rewrite bump_advance by (rewrite <- (Nat.add_0_r (S b)); fold (in_size c); rewrite Hsz; cbn [length]; lia).
    subst n. cbn [span_digits firstn digits_value]. rewrite Nat.add_0_r.
    split; [| intro; lia]. intros _. f_equal. lia.
  - destruct tl as [|b1 tl'].
    + rewrite Hsz. cbn [length]. replace (S b <? S b + 0)%nat with false by (symmetry; apply Nat.ltb_ge; lia).
      unfold bump_ok. rewrite bump_advance by (fold (in_size c); rewrite Hsz; cbn [length]; lia).
      subst n. cbn [span_digits firstn digits_value]. rewrite Nat.add_0_r.
      split; [| intro; lia]. intros _. f_equal. lia.
    + rewrite Hsz. cbn [length]. replace (S b <? S b + S (length tl'))%nat with true by (symmetry; apply Nat.ltb_lt; lia).
      assert (Hpk : peek_at c (S b) = Some b1).
      { unfold peek_at. rewrite Er. replace (pre ++ ch :: b1 :: tl') with ((pre ++ [ch]) ++ b1 :: tl') by (rewrite <- app_assoc; reflexivity).
        replace (S b) with (length (pre ++ [ch])) by (rewrite app_length; cbn [length]; lia).
        apply nth_error_app_len. }
      rewrite Hpk. destruct (bytes_ok_cons b1 tl' Hok) as [Hb1 Htl'].
      rewrite (is_digit_sdigit b1 Hb1). subst n. cbn [span_digits] in *.
      destruct (sdigit b1) eqn:Ed.
      * cbn [firstn].
        assert (Hbd : isdigit b1) by (apply sdigit_iff; exact Ed).
        assert (Er' : rest c = (pre ++ [ch]) ++ b1 :: tl') by (rewrite Er, <- app_assoc; reflexivity).
        assert (Hpre' : length (pre ++ [ch]) = S b) by (rewrite app_length; cbn [length]; lia).
        specialize (IH w Max c (10 * st + (ch - 48)) b1 (S b) (pre ++ [ch]) tl' Hw HM Er' Hpre' Htl' Hbd ltac:(cbn [length] in Hlen; lia)).
        cbv zeta in IH.
        replace (Z.of_N (10 * st + (ch - 48))) with (10 * Z.of_N st + (Z.of_N ch - 48))%Z in IH by lia.
        destruct IH as [I1 I2]. split.
        { intro Hv. rewrite (I1 Hv). replace (S (S b + span_digits tl')) with (S (b + S (span_digits tl'))) by lia. reflexivity. }
        { exact I2. }
      * unfold bump_ok. rewrite bump_advance by (fold (in_size c); rewrite Hsz; cbn [length]; lia).
        cbn [firstn digits_value]. rewrite Nat.add_0_r.
        split; [| intro; lia]. intros _. f_equal. lia.
Qed.

Lemma match_nothrow_char : forall w Max c,
  (4 <= w)%nat -> Max < pow2 w -> bytes_ok (rest c) ->
  match lex_unsigned (rest c) with
  | None => match_nothrow w Max c 0 = MFail c 0
  | Some k =>
      let v := unsigned_value (firstn k (rest c)) in
      ((v <= Z.of_N Max)%Z -> match_nothrow w Max c 0 = MOk (advance k c) (Z.to_N v)) /\
      ((Z.of_N Max < v)%Z -> exists st', match_nothrow w Max c 0 = MFail c st')
  end.
Proof.
  intros w Max c Hw HM Hok. unfold match_nothrow.
  destruct (rest c) as [|b tl] eqn:Er.
  - rewrite (api_nil c Er). reflexivity.
  - destruct (api_cons c b tl Er) as [A1 [A2 [A3 [A4 A5]]]].
    destruct (bytes_ok_cons b tl Hok) as [Hb Htl].
    rewrite A1, A2, (is_digit_sdigit b Hb).
    destruct (b =? 48) eqn:E48.
    + assert (b = 48) by lia. subst b. rewrite (zero_case_char N c 0 tl Er Htl).
      rewrite lex_unsigned_zero. destruct tl as [|b1 tl'].
      { cbv zeta. unfold unsigned_value. cbn [firstn digits_value]. split; [reflexivity | lia]. }
      { destruct (sdigit b1); [reflexivity|].
        cbv zeta. unfold unsigned_value. cbn [firstn digits_value]. split; [reflexivity | lia]. }
    + destruct (sdigit b) eqn:Ed.
      * rewrite lex_unsigned_nonzero by (try assumption; lia).
        assert (Hbd : isdigit b) by (apply sdigit_iff; exact Ed).
        destruct (nothrow_loop_char (b :: tl) w Max c 0 b 0%nat [] tl Hw HM Er eq_refl Htl Hbd ltac:(cbn [length]; lia)) as [T1 T2].
        cbv zeta. unfold unsigned_value. cbn [firstn]. change (Z.of_N 0) with 0%Z in *. split.
        { exact T1. }
        { exact T2. }
      * rewrite lex_unsigned_nondigit by exact Ed. reflexivity.
Qed.

(* ------------------------------------------------------------------ signed_rule_new *)

Lemma m_atom_nil : forall test c, rest c = [] -> m_atom test c = Some None.
Proof. intros test c H. unfold m_atom. rewrite (api_nil c H). reflexivity. Qed.

Lemma m_atom_cons : forall test c b tl, rest c = b :: tl ->
  m_atom test c = if test b then Some (Some (advance 1 c)) else Some None.
Proof.
  intros test c b tl H. unfold m_atom.
  destruct (api_cons c b tl H) as [A1 [A2 [A3 _]]]. rewrite A1, A2, A3. reflexivity.
Qed.

Lemma star_digit_eq : forall fuel c,
  star_digit fuel c =
  match m_digit c with
  | None => None
  | Some None => Some c
  | Some (Some c') => match fuel with [] => None | _ :: fuel' => star_digit fuel' c' end
  end.
Proof. intros fuel c. destruct fuel; reflexivity. Qed.

Lemma star_digit_char : forall fuel c, bytes_ok (rest c) -> (length (rest c) <= length fuel)%nat ->
  star_digit fuel c = Some (advance (span_digits (rest c)) c).
Proof.
  induction fuel as [|f0 fuel IH]; intros c Hok Hlen; rewrite star_digit_eq; unfold m_digit.
  - destruct (rest c) as [|b tl] eqn:Er; [| cbn [length] in Hlen; lia].
    rewrite (m_atom_nil _ c Er). cbn [span_digits]. rewrite advance_0. reflexivity.
  - destruct (rest c) as [|b tl] eqn:Er.
    + rewrite (m_atom_nil _ c Er). cbn [span_digits]. rewrite advance_0. reflexivity.
    + rewrite (m_atom_cons _ c b tl Er).
      destruct (bytes_ok_cons b tl Hok) as [Hb Htl].
      rewrite (is_digit_sdigit b Hb). cbn [span_digits].
      destruct (sdigit b) eqn:Ed.
      * assert (A4 : rest (advance 1 c) = tl) by (rewrite rest_advance, Er; reflexivity).
        rewrite IH.
        { rewrite A4. rewrite advance_advance. reflexivity. }
        { rewrite A4. exact Htl. }
        { rewrite A4. cbn [length] in Hlen. lia. }
      * rewrite advance_0. reflexivity.
Qed.

Lemma one48 : forall b : byte, existsb (N.eqb b) [48] = (b =? 48).
Proof. intro b. cbn [existsb]. apply orb_false_r. Qed.

Lemma signed_ite_char : forall (St : Type) c0 c1 (st : St), bytes_ok (rest c1) ->
  signed_ite c0 c1 st = match lex_unsigned (rest c1) with
                        | Some k => MOk (advance k c1) st
                        | None => MFail c0 st
                        end.
Proof.
  intros St c0 c1 st Hok. unfold signed_ite, m_one, m_digit.
  destruct (rest c1) as [|b tl] eqn:Er.
  - rewrite !(m_atom_nil _ c1 Er). reflexivity.
  - rewrite !(m_atom_cons _ c1 b tl Er). rewrite one48.
    destruct (bytes_ok_cons b tl Hok) as [Hb Htl].
    assert (A4 : rest (advance 1 c1) = tl) by (rewrite rest_advance, Er; reflexivity).
    destruct (b =? 48) eqn:E48.
    + assert (b = 48) by lia. subst b. rewrite lex_unsigned_zero.
      destruct tl as [|b1 tl'].
      * rewrite (m_atom_nil _ (advance 1 c1) A4). reflexivity.
      * rewrite (m_atom_cons _ (advance 1 c1) b1 tl' A4).
        destruct (bytes_ok_cons b1 tl' Htl) as [Hb1 _]. rewrite (is_digit_sdigit b1 Hb1).
        destruct (sdigit b1); reflexivity.
    + rewrite (is_digit_sdigit b Hb). destruct (sdigit b) eqn:Ed.
      * rewrite star_digit_char.
        { rewrite A4. rewrite advance_advance. rewrite lex_unsigned_nonzero by (try assumption; lia). reflexivity. }
        { rewrite A4. exact Htl. }
        { lia. }
      * rewrite lex_unsigned_nondigit by exact Ed. reflexivity.
Qed.

Lemma match_signed_new_char : forall (St : Type) c (st : St), bytes_ok (rest c) ->
  match_signed_new c st = match lex_signed (rest c) with
                          | Some k => MOk (advance k c) st
                          | None => MFail c st
                          end.
Proof.
  intros St c st Hok. unfold match_signed_new, m_one.
  destruct (rest c) as [|b tl] eqn:Er.
  - rewrite (m_atom_nil _ c Er). rewrite (signed_ite_char St c c st) by (rewrite Er; exact Hok).
    rewrite Er. reflexivity.
  - rewrite (m_atom_cons _ c b tl Er).
    destruct (bytes_ok_cons b tl Hok) as [Hb Htl].
    assert (A4 : rest (advance 1 c) = tl) by (rewrite rest_advance, Er; reflexivity).
    unfold lex_signed. cbn [existsb]. rewrite orb_false_r.
    destruct ((b =? 45) || (b =? 43)) eqn:Es.
    + rewrite (signed_ite_char St c (advance 1 c) st) by (rewrite A4; exact Htl).
      rewrite A4. destruct (lex_unsigned tl) as [k|]; cbn [option_map].
      * rewrite advance_advance. reflexivity.
      * reflexivity.
    + rewrite (signed_ite_char St c c st) by (rewrite Er; exact Hok).
      rewrite Er. reflexivity.
Qed.

(* ------------------------------------------------------------------ actions *)

Lemma span_of_advance : forall k c, (k <= length (rest c))%nat -> span_of c (advance k c) = firstn k (rest c).
Proof.
  intros k c Hk. unfold span_of. rewrite rest_advance, skipn_length.
  replace (length (rest c) - (length (rest c) - k))%nat with k by lia. reflexivity.
Qed.

Lemma lex_unsigned_le : forall s k, lex_unsigned s = Some k -> (k <= length s)%nat.
Proof.
  intros s k H. unfold lex_unsigned in H.
  destruct (numeral_b (firstn (span_digits s) s)); [| discriminate].
  assert (span_digits s = k) by congruence. subst k. apply span_digits_le.
Qed.

Lemma lex_signed_le : forall s k, lex_signed s = Some k -> (k <= length s)%nat.
Proof.
  intros s k H. unfold lex_signed in H. destruct s as [|b tl]; [discriminate|].
  destruct ((b =? 45) || (b =? 43)).
  - destruct (lex_unsigned tl) as [k0|] eqn:E; [| discriminate]. cbn [option_map] in H.
    apply lex_unsigned_le in E. cbn [length]. assert (k = S k0) by congruence. lia.
  - apply lex_unsigned_le in H. exact H.
Qed.

(* the lexeme is the prefix of that length, and it is a numeral *)
Lemma unsigned_lexeme_prefix : forall s k, unsigned_lexeme s k -> unsigned_numeral (firstn k s) /\ (k <= length s)%nat.
Proof.
  intros s k [ds [r [Hs [Hk [Hn Hr]]]]]. subst s k. rewrite firstn_app_exact. split; [exact Hn|].
  rewrite app_length. lia.
Qed.

Lemma signed_lexeme_prefix : forall s k, signed_lexeme s k -> signed_numeral (firstn k s) /\ (k <= length s)%nat.
Proof.
  intros s k [ds [r [Hs [Hk [Hn Hr]]]]]. subst s k. rewrite firstn_app_exact. split; [exact Hn|].
  rewrite app_length. lia.
Qed.

(* ================================================================== property-level statements *)

Lemma lex_unsigned_of_lexeme : forall s k, unsigned_lexeme s k -> lex_unsigned s = Some k.
Proof. intros s k H. apply lex_unsigned_iff. exact H. Qed.

Lemma lex_unsigned_of_none : forall s, (forall k, ~ unsigned_lexeme s k) -> lex_unsigned s = None.
Proof.
  intros s H. destruct (lex_unsigned s) as [k|] eqn:E; [| reflexivity].
  exfalso. apply (H k). apply lex_unsigned_iff. exact E.
Qed.

Lemma lex_signed_of_lexeme : forall s k, signed_lexeme s k -> lex_signed s = Some k.
Proof. intros s k H. apply lex_signed_iff. exact H. Qed.

Lemma lex_signed_of_none : forall s, (forall k, ~ signed_lexeme s k) -> lex_signed s = None.
Proof.
  intros s H. destruct (lex_signed s) as [k|] eqn:E; [| reflexivity].
  exfalso. apply (H k). apply lex_signed_iff. exact E.
Qed.

(* ---- unsigned_rule *)
Lemma unsigned_rule_syntax_exact : forall (St : Type) c (st : St), bytes_ok (rest c) ->
  (forall k, unsigned_lexeme (rest c) k ->
     exists c', bump_in_line k c = Some c' /\ unsigned_rule c st = MOk c' st) /\
  ((forall k, ~ unsigned_lexeme (rest c) k) -> unsigned_rule c st = MFail c st).
Proof.
  intros St c st Hok. unfold unsigned_rule. rewrite (match_unsigned_char St c st Hok). split.
  - intros k Hk. rewrite (lex_unsigned_of_lexeme _ k Hk). exists (advance k c). split; [| reflexivity].
    apply bump_advance. apply lex_unsigned_le. apply lex_unsigned_of_lexeme. exact Hk.
  - intro Hn. rewrite (lex_unsigned_of_none _ Hn). reflexivity.
Qed.

(* the same as an equivalence: success consuming k bytes iff the numeral lexeme has length k *)
Lemma unsigned_rule_iff : forall (St : Type) c (st : St), bytes_ok (rest c) ->
  (forall c' st', unsigned_rule c st = MOk c' st' <->
       (st' = st /\ exists k, unsigned_lexeme (rest c) k /\ bump_in_line k c = Some c')) /\
  (forall c' st', unsigned_rule c st = MFail c' st' <->
       (st' = st /\ c' = c /\ forall k, ~ unsigned_lexeme (rest c) k)) /\
  unsigned_rule c st <> MOob /\
  (forall e p c' st', unsigned_rule c st <> MExc e p c' st').
Proof.
  intros St c st Hok.
  destruct (unsigned_rule_syntax_exact St c st Hok) as [H1 H2].
  destruct (unsigned_lexeme_dec (rest c)) as [[k Hk] | Hn].
  - destruct (H1 k Hk) as [c1 [Hb He]]. rewrite He.
    split; [| split; [| split]].
    + intros c' st'. split.
      * intro H. assert (Hc : c1 = c') by congruence. assert (Hs : st = st') by congruence. subst c' st'.
        split; [reflexivity|]. exists k. split; assumption.
      * intros [Hs [k' [Hk' Hb']]]. rewrite (unsigned_lexeme_unique _ _ _ Hk' Hk) in Hb'. subst st'. congruence.
    + intros c' st'. split; [discriminate|]. intros [_ [_ Hn]]. exfalso. exact (Hn k Hk).
    + discriminate.
    + intros e p c' st'. discriminate.
  - rewrite (H2 Hn). split; [| split; [| split]].
    + intros c' st'. split; [discriminate|]. intros [_ [k [Hk _]]]. exfalso. exact (Hn k Hk).
    + intros c' st'. split.
      * intro H. assert (Hc : c = c') by congruence. assert (Hs : st = st') by congruence. subst c' st'.
        split; [reflexivity|]. split; [reflexivity | exact Hn].
      * intros [Hs [Hc _]]. subst c' st'. reflexivity.
    + discriminate.
    + intros e p c' st'. discriminate.
Qed.

(* ---- throwing function, shared by unsigned_rule_with_action and maximum_rule_with_action *)
Lemma match_throws_exact : forall w Max c, (4 <= w)%nat -> Max < pow2 w -> bytes_ok (rest c) ->
  (forall k, unsigned_lexeme (rest c) k ->
     let v := unsigned_value (firstn k (rest c)) in
     ((v <= Z.of_N Max)%Z ->
        exists c' n, bump_in_line k c = Some c' /\ Z.of_N n = v /\ match_throws w Max c 0 = MOk c' n) /\
     ((Z.of_N Max < v)%Z ->
        exists j c' st', (j < k)%nat /\ bump_in_line j c = Some c' /\
                         match_throws w Max c 0 = MExc OvfInteger (cpos c') c' st')) /\
  ((forall k, ~ unsigned_lexeme (rest c) k) -> match_throws w Max c 0 = MFail c 0).
Proof.
  intros w Max c Hw HM Hok. pose proof (match_throws_char w Max c Hw HM Hok) as H. split.
  - intros k Hk. rewrite (lex_unsigned_of_lexeme _ k Hk) in H. cbv zeta in *. destruct H as [T1 T2].
    pose proof (lex_unsigned_le _ _ (lex_unsigned_of_lexeme _ k Hk)) as Hle.
    destruct (unsigned_lexeme_prefix _ _ Hk) as [Hnum _].
    destruct (unsigned_numeral_digits _ Hnum) as [Hds _].
    pose proof (digits_value_ge _ 0%Z Hds ltac:(lia)) as Hge. unfold unsigned_value in *.
    split.
    + intro Hv. exists (advance k c), (Z.to_N (digits_value 0 (firstn k (rest c)))).
      split; [apply bump_advance; exact Hle|]. split; [apply Z2N.id; exact Hge | exact (T1 Hv)].
    + intro Hv. destruct (T2 Hv) as [j [st' [Hj He]]]. exists j, (advance j c), st'.
      split; [exact Hj|]. split; [apply bump_advance; unfold byte in *; lia | exact He].
  - intro Hn. rewrite (lex_unsigned_of_none _ Hn) in H. exact H.
Qed.

Lemma unsigned_rule_with_action_syntax_exact : forall w c (st : N), (4 <= w)%nat -> bytes_ok (rest c) ->
  (* apply_mode::nothing: the plain syntax rule, state untouched *)
  ((forall k, unsigned_lexeme (rest c) k ->
      exists c', bump_in_line k c = Some c' /\ unsigned_rule_with_action false w c st = MOk c' st) /\
   ((forall k, ~ unsigned_lexeme (rest c) k) -> unsigned_rule_with_action false w c st = MFail c st)) /\
  (* apply_mode::action: exact value stored, or exception "integer overflow" *)
  ((forall k, unsigned_lexeme (rest c) k ->
      let v := unsigned_value (firstn k (rest c)) in
      (unsigned_range w v ->
         exists c' n, bump_in_line k c = Some c' /\ Z.of_N n = v /\ unsigned_rule_with_action true w c st = MOk c' n) /\
      (~ unsigned_range w v ->
         exists j c' st', (j < k)%nat /\ bump_in_line j c = Some c' /\
                          unsigned_rule_with_action true w c st = MExc OvfInteger (cpos c') c' st')) /\
   ((forall k, ~ unsigned_lexeme (rest c) k) -> unsigned_rule_with_action true w c st = MFail c 0)).
Proof.
  intros w c st Hw Hok. split.
  - exact (unsigned_rule_syntax_exact N c st Hok).
  - unfold unsigned_rule_with_action, umax.
    pose proof (pow2_pos w) as Hp.
    destruct (match_throws_exact w (pow2 w - 1) c Hw ltac:(lia) Hok) as [H1 H2].
    split; [| exact H2].
    intros k Hk. specialize (H1 k Hk). cbv zeta in *. destruct H1 as [T1 T2].
    destruct (unsigned_lexeme_prefix _ _ Hk) as [Hnum _].
    destruct (unsigned_numeral_digits _ Hnum) as [Hds _].
    pose proof (digits_value_ge _ 0%Z Hds ltac:(lia)) as Hge. unfold unsigned_value in *.
    unfold unsigned_range. rewrite <- pow2_Z. unfold byte in *. split.
    + intro Hr. apply T1. lia.
    + intro Hr. apply T2. lia.
Qed.

(* ---- maximum_rule *)
Lemma maximum_rule_syntax_exact : forall (St : Type) w Max c (st : St),
  (4 <= w)%nat -> Max < pow2 w -> bytes_ok (rest c) ->
  (forall k, unsigned_lexeme (rest c) k ->
     let v := unsigned_value (firstn k (rest c)) in
     ((v <= Z.of_N Max)%Z -> exists c', bump_in_line k c = Some c' /\ maximum_rule w Max c st = MOk c' st) /\
     ((Z.of_N Max < v)%Z -> maximum_rule w Max c st = MFail c st)) /\
  ((forall k, ~ unsigned_lexeme (rest c) k) -> maximum_rule w Max c st = MFail c st).
Proof.
  intros St w Max c st Hw HM Hok. unfold maximum_rule.
  pose proof (match_nothrow_char w Max c Hw HM Hok) as H. split.
  - intros k Hk. rewrite (lex_unsigned_of_lexeme _ k Hk) in H. cbv zeta in *. destruct H as [T1 T2].
    pose proof (lex_unsigned_le _ _ (lex_unsigned_of_lexeme _ k Hk)) as Hle. split.
    + intro Hv. rewrite (T1 Hv). exists (advance k c). split; [apply bump_advance; exact Hle | reflexivity].
    + intro Hv. destruct (T2 Hv) as [st' He]. rewrite He. reflexivity.
  - intro Hn. rewrite (lex_unsigned_of_none _ Hn) in H. rewrite H. reflexivity.
Qed.

Lemma maximum_bounded_fails_locally : forall (St : Type) w Max c (st : St) k,
  (4 <= w)%nat -> Max < pow2 w -> bytes_ok (rest c) ->
  unsigned_lexeme (rest c) k -> (Z.of_N Max < unsigned_value (firstn k (rest c)))%Z ->
  maximum_rule w Max c st = MFail c st.
Proof.
  intros St w Max c st k Hw HM Hok Hk Hv.
  destruct (maximum_rule_syntax_exact St w Max c st Hw HM Hok) as [H1 _].
  destruct (H1 k Hk) as [_ T2]. exact (T2 Hv).
Qed.

(* ---- maximum_rule_with_action *)
Lemma maximum_rule_with_action_syntax_exact : forall (act : bool) w Max c (st : N),
  (4 <= w)%nat -> Max < pow2 w -> bytes_ok (rest c) ->
  (forall k, unsigned_lexeme (rest c) k ->
     let v := unsigned_value (firstn k (rest c)) in
     ((v <= Z.of_N Max)%Z ->
        exists c' n, bump_in_line k c = Some c' /\ Z.of_N n = v /\
                     maximum_rule_with_action act w Max c st = MOk c' (if act then n else st)) /\
     ((Z.of_N Max < v)%Z ->
        exists j c' st', (j < k)%nat /\ bump_in_line j c = Some c' /\
                         maximum_rule_with_action act w Max c st = MExc OvfInteger (cpos c') c' st')) /\
  ((forall k, ~ unsigned_lexeme (rest c) k) ->
     maximum_rule_with_action act w Max c st = MFail c (if act then 0 else st)).
Proof.
  intros act w Max c st Hw HM Hok. unfold maximum_rule_with_action.
  destruct (match_throws_exact w Max c Hw HM Hok) as [H1 H2]. split.
  - intros k Hk. specialize (H1 k Hk). cbv zeta in *. destruct H1 as [T1 T2]. split.
    + intro Hv. destruct (T1 Hv) as [c' [n [Hb [Hn He]]]]. exists c', n.
      split; [exact Hb|]. split; [exact Hn|]. destruct act; rewrite He; reflexivity.
    + intro Hv. destruct (T2 Hv) as [j [c' [st' [Hj [Hb He]]]]].
      destruct act.
      * exists j, c', st'. split; [exact Hj|]. split; [exact Hb | exact He].
      * exists j, c', st. split; [exact Hj|]. split; [exact Hb|]. rewrite He. reflexivity.
  - intro Hn. rewrite (H2 Hn). destruct act; reflexivity.
Qed.

(* ---- signed_rule *)
Lemma signed_rule_syntax_exact : forall (St : Type) c (st : St), bytes_ok (rest c) ->
  (forall k, signed_lexeme (rest c) k ->
     exists c', bump_in_line k c = Some c' /\ signed_rule c st = MOk c' st) /\
  ((forall k, ~ signed_lexeme (rest c) k) -> signed_rule c st = MFail c st).
Proof.
  intros St c st Hok. unfold signed_rule. rewrite (match_signed_new_char St c st Hok). split.
  - intros k Hk. rewrite (lex_signed_of_lexeme _ k Hk). exists (advance k c). split; [| reflexivity].
    apply bump_advance. apply lex_signed_le. apply lex_signed_of_lexeme. exact Hk.
  - intro Hn. rewrite (lex_signed_of_none _ Hn). reflexivity.
Qed.

Lemma signed_action_exact : forall w c (st : Z), (4 <= w)%nat -> bytes_ok (rest c) ->
  (forall k, signed_lexeme (rest c) k ->
     let v := signed_value (firstn k (rest c)) in
     (signed_range w v ->
        exists c', bump_in_line k c = Some c' /\
                   with_action match_signed_new OvfSigned (signed_action w) c st = MOk c' v) /\
     (~ signed_range w v ->
        exists st', with_action match_signed_new OvfSigned (signed_action w) c st = MExc OvfSigned (cpos c) c st')) /\
  ((forall k, ~ signed_lexeme (rest c) k) ->
     with_action match_signed_new OvfSigned (signed_action w) c st = MFail c st).
Proof.
  intros w c st Hw Hok. unfold with_action. rewrite (match_signed_new_char Z c st Hok). split.
  - intros k Hk. rewrite (lex_signed_of_lexeme _ k Hk).
    pose proof (lex_signed_le _ _ (lex_signed_of_lexeme _ k Hk)) as Hle.
    rewrite (span_of_advance k c Hle).
    destruct (signed_lexeme_prefix _ _ Hk) as [Hnum _].
    unfold signed_action.
    destruct (convert_signed_exact w (firstn k (rest c)) Hw Hnum) as [ok [v [E [R1 R2]]]].
    rewrite E. cbv zeta. split.
    + intro Hr. assert (Hok' : ok = true) by (apply R1; exact Hr). subst ok.
      rewrite (R2 eq_refl). exists (advance k c). split; [apply bump_advance; exact Hle | reflexivity].
    + intro Hr. destruct ok.
      * exfalso. apply Hr. apply R1. reflexivity.
      * exists v. reflexivity.
  - intro Hn. rewrite (lex_signed_of_none _ Hn). reflexivity.
Qed.

Lemma signed_rule_with_action_syntax_exact : forall w c (st : Z), (4 <= w)%nat -> bytes_ok (rest c) ->
  (* apply_mode::nothing *)
  ((forall k, signed_lexeme (rest c) k ->
      exists c', bump_in_line k c = Some c' /\ signed_rule_with_action false w c st = MOk c' st) /\
   ((forall k, ~ signed_lexeme (rest c) k) -> signed_rule_with_action false w c st = MFail c st)) /\
  (* apply_mode::action: exact value stored, or exception "signed integer overflow", input restored *)
  ((forall k, signed_lexeme (rest c) k ->
      let v := signed_value (firstn k (rest c)) in
      (signed_range w v ->
         exists c', bump_in_line k c = Some c' /\ signed_rule_with_action true w c st = MOk c' v) /\
      (~ signed_range w v ->
         exists st', signed_rule_with_action true w c st = MExc OvfSigned (cpos c) c st')) /\
   ((forall k, ~ signed_lexeme (rest c) k) -> signed_rule_with_action true w c st = MFail c st)).
Proof.
  intros w c st Hw Hok. split.
  - exact (signed_rule_syntax_exact Z c st Hok).
  - exact (signed_action_exact w c st Hw Hok).
Qed.

(* ---- the plain rules with the shipped actions attached *)
Lemma unsigned_rule_unsigned_action_exact : forall w Max c (st : N),
  (4 <= w)%nat -> Max < pow2 w -> bytes_ok (rest c) ->
  (forall k, unsigned_lexeme (rest c) k ->
     let v := unsigned_value (firstn k (rest c)) in
     ((v <= Z.of_N Max)%Z ->
        exists c' n, bump_in_line k c = Some c' /\ Z.of_N n = v /\ unsigned_rule_unsigned_action w Max c st = MOk c' n) /\
     ((Z.of_N Max < v)%Z ->
        exists st', unsigned_rule_unsigned_action w Max c st = MExc OvfUnsigned (cpos c) c st')) /\
  ((forall k, ~ unsigned_lexeme (rest c) k) -> unsigned_rule_unsigned_action w Max c st = MFail c st).
Proof.
  intros w Max c st Hw HM Hok. unfold unsigned_rule_unsigned_action, with_action, unsigned_rule.
  rewrite (match_unsigned_char N c st Hok). split.
  - intros k Hk. rewrite (lex_unsigned_of_lexeme _ k Hk).
    pose proof (lex_unsigned_le _ _ (lex_unsigned_of_lexeme _ k Hk)) as Hle.
    rewrite (span_of_advance k c Hle).
    destruct (unsigned_lexeme_prefix _ _ Hk) as [Hnum _].
    destruct (unsigned_numeral_digits _ Hnum) as [Hds _].
    unfold unsigned_action.
    destruct (convert_unsigned_exact w Max (firstn k (rest c)) Hw HM Hds) as [C1 C2].
    destruct (convert_unsigned w Max (firstn k (rest c))) as [ok n] eqn:E. cbn [fst] in C2.
    cbv zeta. split.
    + intro Hv. destruct ok.
      * destruct (proj1 (C1 n) eq_refl) as [_ Hn]. exists (advance k c), n.
        split; [apply bump_advance; exact Hle|]. split; [exact Hn | reflexivity].
      * exfalso. destruct C2 as [C2 _]. specialize (C2 eq_refl). lia.
    + intro Hv. destruct ok.
      * exfalso. destruct (proj1 (C1 n) eq_refl) as [Hle' _]. lia.
      * exists n. reflexivity.
  - intro Hn. rewrite (lex_unsigned_of_none _ Hn). reflexivity.
Qed.

Lemma maximum_rule_maximum_action_exact : forall w Max c (st : N),
  (4 <= w)%nat -> Max < pow2 w -> bytes_ok (rest c) ->
  (forall k, unsigned_lexeme (rest c) k ->
     let v := unsigned_value (firstn k (rest c)) in
     ((v <= Z.of_N Max)%Z ->
        exists c' n, bump_in_line k c = Some c' /\ Z.of_N n = v /\ maximum_rule_maximum_action w Max c st = MOk c' n) /\
     ((Z.of_N Max < v)%Z -> maximum_rule_maximum_action w Max c st = MFail c st)) /\
  ((forall k, ~ unsigned_lexeme (rest c) k) -> maximum_rule_maximum_action w Max c st = MFail c st).
Proof.
  intros w Max c st Hw HM Hok. unfold maximum_rule_maximum_action, with_action.
  destruct (maximum_rule_syntax_exact N w Max c st Hw HM Hok) as [H1 H2]. split.
  - intros k Hk. specialize (H1 k Hk). cbv zeta in *. destruct H1 as [T1 T2].
    pose proof (lex_unsigned_le _ _ (lex_unsigned_of_lexeme _ k Hk)) as Hle.
    destruct (unsigned_lexeme_prefix _ _ Hk) as [Hnum _].
    destruct (unsigned_numeral_digits _ Hnum) as [Hds _].
    split.
    + intro Hv. destruct (T1 Hv) as [c' [Hb He]]. rewrite He.
      destruct (bump_some_advance _ _ _ Hb) as [Hc' _]. subst c'.
      rewrite (span_of_advance k c Hle). unfold unsigned_action.
      destruct (convert_unsigned_exact w Max (firstn k (rest c)) Hw HM Hds) as [C1 C2].
      destruct (convert_unsigned w Max (firstn k (rest c))) as [ok n] eqn:E. cbn [fst] in C2.
      destruct ok.
      * destruct (proj1 (C1 n) eq_refl) as [_ Hn]. exists (advance k c), n.
        split; [exact Hb|]. split; [exact Hn | reflexivity].
      * exfalso. destruct C2 as [C2 _]. specialize (C2 eq_refl). lia.
    + intro Hv. rewrite (T2 Hv). reflexivity.
  - intro Hn. rewrite (H2 Hn). reflexivity.
Qed.

(* ---- no rule ever reads or bumps outside the input *)
Lemma never_oob : forall w Max c (stn : N) (stz : Z) (act : bool),
  (4 <= w)%nat -> Max < pow2 w -> bytes_ok (rest c) ->
  unsigned_rule c stn <> MOob /\
  unsigned_rule_with_action act w c stn <> MOob /\
  maximum_rule w Max c stn <> MOob /\
  maximum_rule_with_action act w Max c stn <> MOob /\
  signed_rule c stz <> MOob /\
  signed_rule_with_action act w c stz <> MOob /\
  unsigned_rule_unsigned_action w Max c stn <> MOob /\
  maximum_rule_maximum_action w Max c stn <> MOob.
Proof.
  intros w Max c stn stz act Hw HM Hok.
  pose proof (pow2_pos w) as Hp.
  split; [| split; [| split; [| split; [| split; [| split; [| split]]]]]].
  - destruct (unsigned_rule_syntax_exact N c stn Hok) as [H1 H2].
    destruct (unsigned_lexeme_dec (rest c)) as [[k Hk] | Hn].
    + destruct (H1 k Hk) as [c' [_ He]]. rewrite He. discriminate.
    + rewrite (H2 Hn). discriminate.
  - destruct (unsigned_rule_with_action_syntax_exact w c stn Hw Hok) as [[N1 N2] [A1 A2]].
    destruct (unsigned_lexeme_dec (rest c)) as [[k Hk] | Hn].
    + destruct act.
      * destruct (A1 k Hk) as [T1 T2].
        destruct (Z.le_gt_cases (unsigned_value (firstn k (rest c))) (2 ^ Z.of_nat w - 1)) as [Hle | Hgt].
        { destruct (unsigned_lexeme_prefix _ _ Hk) as [Hnum _].
          destruct (unsigned_numeral_digits _ Hnum) as [Hds _].
          pose proof (digits_value_ge _ 0%Z Hds ltac:(lia)) as Hge.
          destruct (T1 (conj Hge Hle)) as [c' [n [_ [_ He]]]]. rewrite He. discriminate. }
        { assert (Hnr : ~ unsigned_range w (unsigned_value (firstn k (rest c)))) by (unfold unsigned_range; lia).
          destruct (T2 Hnr) as [j [c' [st' [_ [_ He]]]]]. rewrite He. discriminate. }
      * destruct (N1 k Hk) as [c' [_ He]]. rewrite He. discriminate.
    + destruct act; [rewrite (A2 Hn) | rewrite (N2 Hn)]; discriminate.
  - destruct (maximum_rule_syntax_exact N w Max c stn Hw HM Hok) as [H1 H2].
    destruct (unsigned_lexeme_dec (rest c)) as [[k Hk] | Hn].
    + destruct (H1 k Hk) as [T1 T2].
      destruct (Z.le_gt_cases (unsigned_value (firstn k (rest c))) (Z.of_N Max)) as [Hle | Hgt].
      * destruct (T1 Hle) as [c' [_ He]]. rewrite He. discriminate.
      * rewrite (T2 Hgt). discriminate.
    + rewrite (H2 Hn). discriminate.
  - destruct (maximum_rule_with_action_syntax_exact act w Max c stn Hw HM Hok) as [H1 H2].
    destruct (unsigned_lexeme_dec (rest c)) as [[k Hk] | Hn].
    + destruct (H1 k Hk) as [T1 T2].
      destruct (Z.le_gt_cases (unsigned_value (firstn k (rest c))) (Z.of_N Max)) as [Hle | Hgt].
      * destruct (T1 Hle) as [c' [n [_ [_ He]]]]. rewrite He. discriminate.
      * destruct (T2 Hgt) as [j [c' [st' [_ [_ He]]]]]. rewrite He. discriminate.
    + rewrite (H2 Hn). discriminate.
  - destruct (signed_rule_syntax_exact Z c stz Hok) as [H1 H2].
    destruct (signed_lexeme_dec (rest c)) as [[k Hk] | Hn].
    + destruct (H1 k Hk) as [c' [_ He]]. rewrite He. discriminate.
    + rewrite (H2 Hn). discriminate.
  - destruct (signed_rule_with_action_syntax_exact w c stz Hw Hok) as [[N1 N2] [A1 A2]].
    destruct (signed_lexeme_dec (rest c)) as [[k Hk] | Hn].
    + destruct act.
      * destruct (A1 k Hk) as [T1 T2].
        set (v := signed_value (firstn k (rest c))) in *.
        assert (Hdec : signed_range w v \/ ~ signed_range w v) by (unfold signed_range; lia).
        destruct Hdec as [Hr | Hr].
        { destruct (T1 Hr) as [c' [_ He]]. rewrite He. discriminate. }
        { destruct (T2 Hr) as [st' He]. rewrite He. discriminate. }
      * destruct (N1 k Hk) as [c' [_ He]]. rewrite He. discriminate.
    + destruct act; [rewrite (A2 Hn) | rewrite (N2 Hn)]; discriminate.
  - destruct (unsigned_rule_unsigned_action_exact w Max c stn Hw HM Hok) as [H1 H2].
    destruct (unsigned_lexeme_dec (rest c)) as [[k Hk] | Hn].
    + destruct (H1 k Hk) as [T1 T2].
      destruct (Z.le_gt_cases (unsigned_value (firstn k (rest c))) (Z.of_N Max)) as [Hle | Hgt].
      * destruct (T1 Hle) as [c' [n [_ [_ He]]]]. rewrite He. discriminate.
      * destruct (T2 Hgt) as [st' He]. rewrite He. discriminate.
    + rewrite (H2 Hn). discriminate.
  - destruct (maximum_rule_maximum_action_exact w Max c stn Hw HM Hok) as [H1 H2].
    destruct (unsigned_lexeme_dec (rest c)) as [[k Hk] | Hn].
    + destruct (H1 k Hk) as [T1 T2].
      destruct (Z.le_gt_cases (unsigned_value (firstn k (rest c))) (Z.of_N Max)) as [Hle | Hgt].
      * destruct (T1 Hle) as [c' [n [_ [_ He]]]]. rewrite He. discriminate.
      * rewrite (T2 Hgt). discriminate.
    + rewrite (H2 Hn). discriminate.
Qed.

(* ---- accumulate_digits from an arbitrary admissible start value *)
Lemma accumulate_digits_exact : forall w Max r ds,
  (4 <= w)%nat -> Max < pow2 w -> Forall isdigit ds -> r <= Max ->
  (forall v, accumulate_digits w Max r ds = (true, v) <->
             ((digits_value (Z.of_N r) ds <= Z.of_N Max)%Z /\ Z.of_N v = digits_value (Z.of_N r) ds)) /\
  (fst (accumulate_digits w Max r ds) = false <-> (Z.of_N Max < digits_value (Z.of_N r) ds)%Z).
Proof.
  intros w Max r ds Hw HM Hds Hr.
  destruct (accumulate_digits_char w Max ds r Hw HM Hds Hr) as [C1 [C2 C3]].
  destruct (accumulate_digits w Max r ds) as [ok v0] eqn:E. cbn [fst snd] in *.
  split.
  - intro v. split.
    + intro H. assert (Hok : ok = true) by congruence. assert (Hv : v0 = v) by congruence.
      subst ok v0. split; [lia | apply C2; lia].
    + intros [H1 H2]. specialize (C2 H1).
      assert (Hok : ok = true) by (rewrite C1; apply Z.leb_le; exact H1).
      assert (Hv : v0 = v) by lia. rewrite Hok, Hv. reflexivity.
  - rewrite C1. rewrite Z.leb_gt. reflexivity.
Qed.

(* ---- helpers for examples: a cursor at the beginning of an input *)
Definition cur0 (s : list byte) : cursor := mkcur s pos0.
