(* Properties_C20.v — C20: the shipped URI grammar accepts exactly RFC 3986.  Theorems only. *)
From PegtlV Require Import Base Grammar Engine Regex Rfc3986 UriModel UriProof.

Theorem C20_complete_refuted :
  exists s, matches (rfc TURI_reference) s /\ uri_rejects TURI_reference s.
Proof. exact UriProof.complete_refuted. Qed.
Print Assumptions C20_complete_refuted.
