(* Properties_C20.v — C20: the shipped URI grammar (contrib/uri.hpp) against RFC 3986 Appendix A.
   Theorems only; every proof is `exact <lemma of UriProof.v>`.

   Vocabulary
     uri_table            gen/Uri_gen.v: the grammar table the C++ compiler dumps for  seq< uri::X, eof >,
                          X in URI, URI_reference, absolute_URI, IPv4address, IPv6address — REGENERATED from
                          /repo/include on every run; every theorem below is about this definition.
     uri_run f t s        the engine model (UriModel.evalx = Engine.eval_head / match.hpp + the C15 model of
                          maximum_rule for the uri::dec_octet leaf) on that table, root of production t,
                          input s, fuel f, default parse<> configuration (no action, control normal).
     uri_accepts t s      exists fuel such that the run returns true;
     uri_rejects t s      exists fuel such that it returns false or raises.
     rfc t                Rfc3986.v: the RFC production as a regular expression; matches = its denotation.
     bytes_ok s           every element of s is < 256. *)
From Coq Require Import ZArith.
From PegtlV Require Import Base Grammar Engine ExactSound Regex RegexIncl RegexQuot Rfc3986 UriModel UriProof UriSoundURI UriSoundAbs UriSoundRef UriComplete UriCompleteV6.
From PegtlV Require IntegerSpec.

(* ---- the specification-side recogniser is exact (this is the oracle the check extracts) ---- *)
Theorem C20_oracle_exact : forall r s, re_match r s = true <-> matches r s.
Proof. exact Regex.re_match_correct. Qed.
Print Assumptions C20_oracle_exact.

(* the inclusion checker used below is sound *)
Theorem C20_incl_checker_sound : forall fuel a b, incl_auto fuel a b = true ->
  forall s, bytes_lt256 s -> matches a s -> matches b s.
Proof. exact RegexIncl.incl_auto_sound. Qed.
Print Assumptions C20_incl_checker_sound.

(* ---- no exception other than parse_error: no action is attached, only must / if_must / opt_must raise ---- *)
Theorem C20_only_parse_error : forall t f s e c' evs, bytes_ok s ->
  uri_run f t s = Res (Exc e) c' evs -> exists w p, e = EParse w p.
Proof. exact UriProof.only_parse_error. Qed.
Print Assumptions C20_only_parse_error.

(* a verdict does not depend on the fuel: accepted and rejected exclude each other *)
Theorem C20_verdict_unique : forall t s, uri_accepts t s -> uri_rejects t s -> False.
Proof. exact UriProof.accepts_not_rejects. Qed.
Print Assumptions C20_verdict_unique.

(* ---- soundness: whatever the shipped grammar accepts is derivable from the RFC production ---- *)
Theorem C20_sound_IPv4address : forall s, bytes_ok s -> uri_accepts TIPv4address s -> matches (rfc TIPv4address) s.
Proof. exact UriProof.sound_IPv4address. Qed.
Print Assumptions C20_sound_IPv4address.

Theorem C20_sound_IPv6address : forall s, bytes_ok s -> uri_accepts TIPv6address s -> matches (rfc TIPv6address) s.
Proof. exact UriProof.sound_IPv6address. Qed.
Print Assumptions C20_sound_IPv6address.

Theorem C20_sound_URI : forall s, bytes_ok s -> uri_accepts TURI s -> matches (rfc TURI) s.
Proof. exact UriSoundURI.sound_URI. Qed.
Print Assumptions C20_sound_URI.

Theorem C20_sound_absolute_URI : forall s, bytes_ok s -> uri_accepts Tabsolute_URI s -> matches (rfc Tabsolute_URI) s.
Proof. exact UriSoundAbs.sound_absolute_URI. Qed.
Print Assumptions C20_sound_absolute_URI.

Theorem C20_sound_URI_reference : forall s, bytes_ok s -> uri_accepts TURI_reference s -> matches (rfc TURI_reference) s.
Proof. exact UriSoundRef.sound_URI_reference. Qed.
Print Assumptions C20_sound_URI_reference.

(* ---- the former counter-examples to completeness of the URI forms ("//1.2.3.4a", "a://1.2.3.4a": host = reg-name with
        an IPv4address as proper prefix) are ACCEPTED by the table regenerated from the repaired uri.hpp (/repo b222ba6;
        recorded as fixed in known_findings.json).  Engine verdict and matcher verdict are both computed (vm_compute). ---- *)
Theorem C20_host_prefix_accepted :
  matches (rfc TURI_reference) UriProof.host_witness /\ uri_accepts TURI_reference UriProof.host_witness /\
  matches (rfc TURI) UriProof.host_witness_abs /\ uri_accepts TURI UriProof.host_witness_abs /\
  matches (rfc Tabsolute_URI) UriProof.host_witness_abs /\ uri_accepts Tabsolute_URI UriProof.host_witness_abs.
Proof. exact UriProof.host_prefix_accepted. Qed.
Print Assumptions C20_host_prefix_accepted.

(* ---- IPv4address is exact: accepted iff derivable from RFC 3986 IPv4address ---- *)
Theorem C20_complete_IPv4address : forall s, bytes_ok s -> matches (rfc TIPv4address) s -> uri_accepts TIPv4address s.
Proof. exact UriProof.complete_IPv4address. Qed.
Print Assumptions C20_complete_IPv4address.

Theorem C20_exact_IPv4address : forall s, bytes_ok s -> (uri_accepts TIPv4address s <-> matches (rfc TIPv4address) s).
Proof. exact UriProof.exact_IPv4address. Qed.
Print Assumptions C20_exact_IPv4address.

(* ---- IPv6address is exact as well.  Completeness of a PEG against its regular reading is not automatic (ordered
        choice commits to the first alternative that matches a prefix); UriComplete.v proves it generically for the
        fragment atoms / seq / sor / opt / rep / rep_opt / rep_min_max / maximum_rule / eof under side conditions on
        regular languages (left quotients and first-byte exclusions) that a verified checker evaluates on the
        generated table:  cc = the certificate, cc_sound = its soundness. ---- *)
Theorem C20_complete_certificate_sound :
  forall G MX, AtomFacts.table_wf G -> forall n r K R nf, cc G MX n r K = true -> re_of G MX n r = Some (R, nf) ->
  Tot G MX n r /\ CmpR G MX n r R K /\ FolOK G MX n r.
Proof. exact UriComplete.cc_sound. Qed.
Print Assumptions C20_complete_certificate_sound.

Theorem C20_complete_IPv6address : forall s, bytes_ok s -> matches (rfc TIPv6address) s -> uri_accepts TIPv6address s.
Proof. exact UriCompleteV6.complete_IPv6address. Qed.
Print Assumptions C20_complete_IPv6address.

Theorem C20_exact_IPv6address : forall s, bytes_ok s -> (uri_accepts TIPv6address s <-> matches (rfc TIPv6address) s).
Proof. exact UriCompleteV6.exact_IPv6address. Qed.
Print Assumptions C20_exact_IPv6address.

(* the dec_octet leaf: maximum_rule< uint8_t, 255 > (C15 model) accepts exactly the RFC dec-octet strings *)
Theorem C20_dec_octet_numeral : forall w, bytes_ok w -> matches Rfc3986.dec_octet w ->
  IntegerSpec.unsigned_numeral w /\ (IntegerSpec.unsigned_value w <= 255)%Z.
Proof. exact UriProof.dec_octet_numeral. Qed.
Print Assumptions C20_dec_octet_numeral.

Theorem C20_numeral_dec_octet : forall ds, IntegerSpec.unsigned_numeral ds -> (IntegerSpec.unsigned_value ds <= 255)%Z ->
  matches Rfc3986.dec_octet ds.
Proof. exact UriProof.numeral_dec_octet. Qed.
Print Assumptions C20_numeral_dec_octet.

(* ================================================================================================================
   COMPLETENESS of the three URI forms (hence exactness): closed.

   UriCert2.v extends the certificate of UriComplete.v to the whole fragment uri.hpp uses:
     cc2 n r K = true -> on every input of R.K (R = regular reading of node r) the engine SUCCEEDS on r, rest in K
     nr  n r L = true -> on every input of L the engine returns true or false on r (no parse_error, enough fuel)
   with   star / plus    body not nullable (every iteration consumes; loop fuel > length of the rest), body complete and
                         non-raising w.r.t. R*.K, and R \ (R*.K) inside R*.K up to what cannot follow the body
          must, if_must, opt_must   the rule after the commit point is certified complete for what can follow it, and on
                         every "wrong path" (an alternative / option / iteration that is not the right one) the input
                         language is followed through the rule with verified left quotients (lq): there the condition
                         of an if_must fails or its continuation is again certified to succeed
          not_at         operand complete w.r.t. Any (follow information), non-raising on K, no word of K starts with
                         a word of the operand
   Soundness of the certificate is proved for every table (cert2_sound); the three roots are discharged by vm_compute on
   gen/Uri_gen.v (UriCompleteURI.v / UriCompleteAbs.v / UriCompleteRef.v), so an edit of uri.hpp that breaks completeness
   breaks these proofs. ---- *)
From PegtlV Require Import UriCert2 UriComplete2H UriCompleteF UriComplete2 UriCompleteURI UriCompleteAbs UriCompleteRef.

(* the two additional regular-language checkers are sound *)
Theorem C20_quot_checker2_sound : forall fuel R L K, quot2 fuel R L K = true ->
  forall w r, bytes_lt256 w -> bytes_lt256 r -> matches R w -> matches L (w ++ r) -> matches K r.
Proof. exact UriComplete2H.quot2_sound. Qed.
Print Assumptions C20_quot_checker2_sound.

Theorem C20_left_quotient_sound : forall fuel R L Q, lq fuel R L = Some Q ->
  forall w t, bytes_lt256 w -> matches R w -> matches L (w ++ t) -> matches Q t.
Proof. exact UriComplete2H.lq_sound. Qed.
Print Assumptions C20_left_quotient_sound.

(* the certificate of UriComplete.v with the faster quotient check (used for IPv4address / IPv6address inside host) *)
Theorem C20_complete_certificateF_sound :
  forall G MX, AtomFacts.table_wf G -> forall n r K R nf, ccf G MX n r K = true -> re_of G MX n r = Some (R, nf) ->
  Tot G MX n r /\ CmpR G MX n r R K /\ FolOK G MX n r.
Proof. exact UriCompleteF.ccf_sound. Qed.
Print Assumptions C20_complete_certificateF_sound.

(* the extended certificate is sound, for every table, every input bound B, at fuel n + B + 1 *)
Theorem C20_complete_certificate2_sound :
  forall G MX, AtomFacts.table_wf G -> forall B n,
  (forall r K R nf, cc2 G MX n r K = true -> re_of G MX n r = Some (R, nf) -> Cmp2 G MX B n r R K /\ Fol2 G MX B n r K) /\
  (forall r L R nf, nr G MX n r L = true -> re_of G MX n r = Some (R, nf) -> Nr2 G MX B n r L).
Proof. exact UriComplete2.cert2_sound. Qed.
Print Assumptions C20_complete_certificate2_sound.

(* a root certified for the continuation Eps accepts every string of its regular reading *)
Theorem C20_certified_root_accepts :
  forall G MX, AtomFacts.table_wf G -> forall n r R nf s, cc2 G MX n r Regex.Eps = true -> re_of G MX n r = Some (R, nf) ->
  bytes_ok s -> matches R s -> exists f c' evs, evalx G C0 MX f d0 r (mkcur s pos0) = Res Ok c' evs.
Proof. exact UriComplete2.cc2_accepts. Qed.
Print Assumptions C20_certified_root_accepts.

Theorem C20_complete_URI : forall s, bytes_ok s -> matches (rfc TURI) s -> uri_accepts TURI s.
Proof. exact UriCompleteURI.complete_URI. Qed.
Print Assumptions C20_complete_URI.

Theorem C20_exact_URI : forall s, bytes_ok s -> (uri_accepts TURI s <-> matches (rfc TURI) s).
Proof. exact UriCompleteURI.exact_URI. Qed.
Print Assumptions C20_exact_URI.

Theorem C20_complete_absolute_URI : forall s, bytes_ok s -> matches (rfc Tabsolute_URI) s -> uri_accepts Tabsolute_URI s.
Proof. exact UriCompleteAbs.complete_absolute_URI. Qed.
Print Assumptions C20_complete_absolute_URI.

Theorem C20_exact_absolute_URI : forall s, bytes_ok s -> (uri_accepts Tabsolute_URI s <-> matches (rfc Tabsolute_URI) s).
Proof. exact UriCompleteAbs.exact_absolute_URI. Qed.
Print Assumptions C20_exact_absolute_URI.

Theorem C20_complete_URI_reference : forall s, bytes_ok s -> matches (rfc TURI_reference) s -> uri_accepts TURI_reference s.
Proof. exact UriCompleteRef.complete_URI_reference. Qed.
Print Assumptions C20_complete_URI_reference.

Theorem C20_exact_URI_reference : forall s, bytes_ok s -> (uri_accepts TURI_reference s <-> matches (rfc TURI_reference) s).
Proof. exact UriCompleteRef.exact_URI_reference. Qed.
Print Assumptions C20_exact_URI_reference.

(* ---- Status of C20: nothing is left open.  For X in URI / URI_reference / absolute_URI / IPv4address / IPv6address:
        C20_sound_X, C20_complete_X, C20_exact_X  (uri_accepts X s <-> matches (rfc X) s, for every byte string s),
     all about gen/Uri_gen.v, the table regenerated from /repo on every run.
     History: before /repo b222ba6 completeness of the three URI forms was refuted by host = reg-name with an IPv4address
     as proper prefix ("//1.2.3.4a"); the repaired host rule
        host = sor< IP_literal, seq< IPv4address, not_at< sor< unreserved, pct_encoded, sub_delims > > >, reg_name >
     is what the not_at case of the certificate is about (C20_host_prefix_accepted keeps the two former witnesses).
     The certificate computation found no other ordered choice / option / repetition of uri.hpp that commits too early and
     no must / if_must / opt_must that can raise on a string of the RFC language.  The check still classifies any oracle
     disagreement outside the recorded (fixed) class as a new violation. *)
