(* Properties_C20.v — C20: the shipped URI grammar (contrib/uri.hpp) against RFC 3986 Appendix A.
   Theorems only; every proof is `exact <lemma of UriProof.v>`.

   Vocabulary
     uri_table            gen/Uri_gen.v: the grammar table the C++ compiler dumps for  seq< uri::X, eof >,
                          X in URI, URI_reference, absolute_URI, IPv4address, IPv6address — REGENERATED from
                          /repo/include on every run; every theorem below is about this definition.
     uri_run f t s        the engine model (UriModel.evalx = Engine.eval_head / match.hpp + the C15 model of
                          maximum_rule for the uri::dec_octet leaf) on that table, root of production t,
                          input s, fuel f, default parse<> configuration (no action, control normal).
     uri_accepts t s      exists fuel such that the run returns true;
     uri_rejects t s      exists fuel such that it returns false or raises.
     rfc t                Rfc3986.v: the RFC production as a regular expression; matches = its denotation.
     bytes_ok s           every element of s is < 256. *)
From Coq Require Import ZArith.
From PegtlV Require Import Base Grammar Engine ExactSound Regex RegexIncl RegexQuot Rfc3986 UriModel UriProof UriSoundURI UriSoundAbs UriSoundRef UriComplete UriCompleteV6.
From PegtlV Require IntegerSpec.

(* ---- the specification-side recogniser is exact (this is the oracle the check extracts) ---- *)
Theorem C20_oracle_exact : forall r s, re_match r s = true <-> matches r s.
Proof. exact Regex.re_match_correct. Qed.
Print Assumptions C20_oracle_exact.

(* the inclusion checker used below is sound *)
Theorem C20_incl_checker_sound : forall fuel a b, incl_auto fuel a b = true ->
  forall s, bytes_lt256 s -> matches a s -> matches b s.
Proof. exact RegexIncl.incl_auto_sound. Qed.
Print Assumptions C20_incl_checker_sound.

(* ---- no exception other than parse_error: no action is attached, only must / if_must / opt_must raise ---- *)
Theorem C20_only_parse_error : forall t f s e c' evs, bytes_ok s ->
  uri_run f t s = Res (Exc e) c' evs -> exists w p, e = EParse w p.
Proof. exact UriProof.only_parse_error. Qed.
Print Assumptions C20_only_parse_error.

(* a verdict does not depend on the fuel: accepted and rejected exclude each other *)
Theorem C20_verdict_unique : forall t s, uri_accepts t s -> uri_rejects t s -> False.
Proof. exact UriProof.accepts_not_rejects. Qed.
Print Assumptions C20_verdict_unique.

(* ---- soundness: whatever the shipped grammar accepts is derivable from the RFC production ---- *)
Theorem C20_sound_IPv4address : forall s, bytes_ok s -> uri_accepts TIPv4address s -> matches (rfc TIPv4address) s.
Proof. exact UriProof.sound_IPv4address. Qed.
Print Assumptions C20_sound_IPv4address.

Theorem C20_sound_IPv6address : forall s, bytes_ok s -> uri_accepts TIPv6address s -> matches (rfc TIPv6address) s.
Proof. exact UriProof.sound_IPv6address. Qed.
Print Assumptions C20_sound_IPv6address.

Theorem C20_sound_URI : forall s, bytes_ok s -> uri_accepts TURI s -> matches (rfc TURI) s.
Proof. exact UriSoundURI.sound_URI. Qed.
Print Assumptions C20_sound_URI.

Theorem C20_sound_absolute_URI : forall s, bytes_ok s -> uri_accepts Tabsolute_URI s -> matches (rfc Tabsolute_URI) s.
Proof. exact UriSoundAbs.sound_absolute_URI. Qed.
Print Assumptions C20_sound_absolute_URI.

Theorem C20_sound_URI_reference : forall s, bytes_ok s -> uri_accepts TURI_reference s -> matches (rfc TURI_reference) s.
Proof. exact UriSoundRef.sound_URI_reference. Qed.
Print Assumptions C20_sound_URI_reference.

(* ---- the former counter-examples to completeness of the URI forms ("//1.2.3.4a", "a://1.2.3.4a": host = reg-name with
        an IPv4address as proper prefix) are ACCEPTED by the table regenerated from the repaired uri.hpp (/repo b222ba6;
        recorded as fixed in known_findings.json).  Engine verdict and matcher verdict are both computed (vm_compute). ---- *)
Theorem C20_host_prefix_accepted :
  matches (rfc TURI_reference) UriProof.host_witness /\ uri_accepts TURI_reference UriProof.host_witness /\
  matches (rfc TURI) UriProof.host_witness_abs /\ uri_accepts TURI UriProof.host_witness_abs /\
  matches (rfc Tabsolute_URI) UriProof.host_witness_abs /\ uri_accepts Tabsolute_URI UriProof.host_witness_abs.
Proof. exact UriProof.host_prefix_accepted. Qed.
Print Assumptions C20_host_prefix_accepted.

(* ---- IPv4address is exact: accepted iff derivable from RFC 3986 IPv4address ---- *)
Theorem C20_complete_IPv4address : forall s, bytes_ok s -> matches (rfc TIPv4address) s -> uri_accepts TIPv4address s.
Proof. exact UriProof.complete_IPv4address. Qed.
Print Assumptions C20_complete_IPv4address.

Theorem C20_exact_IPv4address : forall s, bytes_ok s -> (uri_accepts TIPv4address s <-> matches (rfc TIPv4address) s).
Proof. exact UriProof.exact_IPv4address. Qed.
Print Assumptions C20_exact_IPv4address.

(* ---- IPv6address is exact as well.  Completeness of a PEG against its regular reading is not automatic (ordered
        choice commits to the first alternative that matches a prefix); UriComplete.v proves it generically for the
        fragment atoms / seq / sor / opt / rep / rep_opt / rep_min_max / maximum_rule / eof under side conditions on
        regular languages (left quotients and first-byte exclusions) that a verified checker evaluates on the
        generated table:  cc = the certificate, cc_sound = its soundness. ---- *)
Theorem C20_complete_certificate_sound :
  forall G MX, AtomFacts.table_wf G -> forall n r K R nf, cc G MX n r K = true -> re_of G MX n r = Some (R, nf) ->
  Tot G MX n r /\ CmpR G MX n r R K /\ FolOK G MX n r.
Proof. exact UriComplete.cc_sound. Qed.
Print Assumptions C20_complete_certificate_sound.

Theorem C20_complete_IPv6address : forall s, bytes_ok s -> matches (rfc TIPv6address) s -> uri_accepts TIPv6address s.
Proof. exact UriCompleteV6.complete_IPv6address. Qed.
Print Assumptions C20_complete_IPv6address.

Theorem C20_exact_IPv6address : forall s, bytes_ok s -> (uri_accepts TIPv6address s <-> matches (rfc TIPv6address) s).
Proof. exact UriCompleteV6.exact_IPv6address. Qed.
Print Assumptions C20_exact_IPv6address.

(* the dec_octet leaf: maximum_rule< uint8_t, 255 > (C15 model) accepts exactly the RFC dec-octet strings *)
Theorem C20_dec_octet_numeral : forall w, bytes_ok w -> matches Rfc3986.dec_octet w ->
  IntegerSpec.unsigned_numeral w /\ (IntegerSpec.unsigned_value w <= 255)%Z.
Proof. exact UriProof.dec_octet_numeral. Qed.
Print Assumptions C20_dec_octet_numeral.

Theorem C20_numeral_dec_octet : forall ds, IntegerSpec.unsigned_numeral ds -> (IntegerSpec.unsigned_value ds <= 255)%Z ->
  matches Rfc3986.dec_octet ds.
Proof. exact UriProof.numeral_dec_octet. Qed.
Print Assumptions C20_numeral_dec_octet.

(* ---- NOT closed (shipped as a comment, no theorem):

   C20_complete_partial (URI, URI_reference, absolute_URI), the statement that is expected to be TRUE:
       forall t s, t is one of TURI / TURI_reference / Tabsolute_URI -> bytes_ok s -> matches (rfc t) s ->
         uri_accepts t s.
     (Before /repo b222ba6 this was refuted by host = reg-name with an IPv4address as proper prefix.)  Missing: the certificate of
     UriComplete.v covers neither star / plus (needs a termination argument: fuel >= input length) nor must / if_must
     (needs "an alternative that is not the right one fails WITHOUT raising", i.e. a commit-point analysis), and the
     host rule needs the hypothesis above threaded through the quotient condition of its sor.  What IS closed towards
     it: exactness of IPv4address and IPv6address (the two non-trivial leaves of host), the five soundness theorems.
     The check classifies every oracle disagreement against exactly the excluded class (host = reg-name with
     IPv4address proper prefix AND the same input with a non-IPv4 host is accepted); anything outside it is reported
     as a new violation. *)
