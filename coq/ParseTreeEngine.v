(* ParseTreeEngine.v — C12, engine side: parse_tree's control is only an observer.  Forcing rules
   that carry no action to be control-enabled (what state_handler< Rule, false, false > does with
   `enable = true`) and giving every handler an unwind() changes the event log only: outcome and
   cursor of every invocation stay the same, for every table, configuration, mode, input and fuel. *)
From Coq Require Import Lia.
From PegtlV Require Import Base Decode Grammar Engine ParseTree.

Definition shape (x : result) : result := match x with Res o c _ => Res o c [] | y => y end.
Definition sim (x y : result) : Prop := shape x = shape y.

Lemma sim_refl x : sim x x. Proof. reflexivity. Qed.
Lemma sim_res o c e1 e2 : sim (Res o c e1) (Res o c e2). Proof. reflexivity. Qed.
Lemma sim_prepend a b x y : sim x y -> sim (prepend a x) (prepend b y).
Proof. destruct x, y; simpl; intros H; inversion H; reflexivity. Qed.
Lemma sim_map (F F' : result -> result) x y :
  (forall o c e1 e2, sim (F (Res o c e1)) (F' (Res o c e2))) -> sim (F Oof) (F' Oof) -> sim (F Err) (F' Err) ->
  sim x y -> sim (F x) (F' y).
Proof. intros H1 H2 H3 H. destruct x, y; inversion H; subst; auto. Qed.

Ltac dsim H x y := destruct x as [[| |?e] ?c ?evs| |]; destruct y as [[| |?e] ?c ?evs| |]; inversion H; subst; clear H.

Lemma guard_sim m s x y : sim x y -> sim (guard m s x) (guard m s y).
Proof. intros H. dsim H x y; reflexivity. Qed.
Lemma look_sim i s x y : sim x y -> sim (look i s x) (look i s y).
Proof. intros H. dsim H x y; reflexivity. Qed.
Lemma st_scope_sim b r c x y : sim x y -> sim (st_scope b r c x) (st_scope b r c y).
Proof. intros H. dsim H x y; reflexivity. Qed.
Lemma traced_sim k k' r a m c x y : sim x y -> sim (traced k r a m c x) (traced k' r a m c y).
Proof. intros H. dsim H x y; reflexivity. Qed.

Section SimHelpers.
Variable C : cfg.
Variables e1 e2 : dyn -> rid -> cursor -> result.
Hypothesis Hs : forall d r c, sim (e1 d r c) (e2 d r c).

Lemma seq_all_sim d rs : forall c, sim (seq_all e1 d rs c) (seq_all e2 d rs c).
Proof.
  induction rs as [|r rs IH]; intros c; simpl; [reflexivity|]. unfold bind.
  pose proof (Hs d r c) as H. dsim H (e1 d r c) (e2 d r c); try reflexivity. apply sim_prepend, IH.
Qed.

Lemma sor_any_sim d rs : forall c, sim (sor_any e1 d rs c) (sor_any e2 d rs c).
Proof.
  induction rs as [|r rs IH]; intros c; [reflexivity|].
  destruct rs as [|r2 rs']; [simpl; apply Hs|].
  change (sor_any e1 d (r :: r2 :: rs') c) with (match e1 (req d) r c with Res Fail c' evs => prepend evs (sor_any e1 d (r2 :: rs') c') | x => x end).
  change (sor_any e2 d (r :: r2 :: rs') c) with (match e2 (req d) r c with Res Fail c' evs => prepend evs (sor_any e2 d (r2 :: rs') c') | x => x end).
  pose proof (Hs (req d) r c) as H. dsim H (e1 (req d) r c) (e2 (req d) r c); try reflexivity. apply sim_prepend, IH.
Qed.

Lemma star_loop_sim n : forall d rs c, sim (star_loop e1 n d rs c) (star_loop e2 n d rs c).
Proof.
  induction n as [|n IH]; intros d rs c; [reflexivity|]. simpl.
  pose proof (seq_all_sim (req d) rs c) as H. dsim H (seq_all e1 (req d) rs c) (seq_all e2 (req d) rs c); try reflexivity. apply sim_prepend, IH.
Qed.

Lemma until1_sim n : forall d cn c, sim (until1_loop C e1 n d cn c) (until1_loop C e2 n d cn c).
Proof.
  induction n as [|n IH]; intros d cn c; [reflexivity|]. cbn [until1_loop].
  pose proof (Hs (req d) cn c) as H. dsim H (e1 (req d) cn c) (e2 (req d) cn c); try reflexivity.
  destruct (in_empty c1); [reflexivity|]. destruct (bump_scan _ 1 c1); [|reflexivity]. apply sim_prepend, IH.
Qed.

Lemma until2_sim n : forall d cn r c, sim (until2_loop e1 n d cn r c) (until2_loop e2 n d cn r c).
Proof.
  induction n as [|n IH]; intros d cn r c; [reflexivity|]. simpl.
  pose proof (Hs (req d) cn c) as H. dsim H (e1 (req d) cn c) (e2 (req d) cn c); try reflexivity.
  pose proof (Hs (opt_ d) r c1) as H. dsim H (e1 (opt_ d) r c1) (e2 (opt_ d) r c1); try reflexivity. apply sim_prepend, IH.
Qed.

Lemma rep_loop_sim k d r : forall c, sim (rep_loop e1 k d r c) (rep_loop e2 k d r c).
Proof.
  induction k as [|k IH]; intros c; simpl; [reflexivity|]. unfold bind.
  pose proof (Hs d r c) as H. dsim H (e1 d r c) (e2 d r c); try reflexivity. apply sim_prepend, IH.
Qed.

Lemma repopt_loop_sim k d r : forall c,
  sim (fst (repopt_loop e1 k d r c)) (fst (repopt_loop e2 k d r c)) /\ snd (repopt_loop e1 k d r c) = snd (repopt_loop e2 k d r c).
Proof.
  induction k as [|k IH]; intros c; simpl; [split; reflexivity|].
  pose proof (Hs (req d) r c) as H. dsim H (e1 (req d) r c) (e2 (req d) r c); try (split; reflexivity).
  destruct (IH c1) as [K1 K2].
  destruct (repopt_loop e1 k d r c1) as [x b]. destruct (repopt_loop e2 k d r c1) as [y b']. simpl in *. subst b'.
  split; [apply sim_prepend; exact K1 | reflexivity].
Qed.

Lemma h_seq_sim d rs c : sim (h_seq e1 d rs c) (h_seq e2 d rs c).
Proof. unfold h_seq. destruct rs as [|r1 [|r2 rs]]; [reflexivity | apply Hs | apply guard_sim, seq_all_sim]. Qed.

Lemma h_at_sim i d r1 c : sim (h_at e1 i d r1 c) (h_at e2 i d r1 c).
Proof. apply look_sim, Hs. Qed.

Lemma star_strict_sim n : forall d r1 rs c, sim (star_strict_loop e1 n d r1 rs c) (star_strict_loop e2 n d r1 rs c).
Proof.
  induction n as [|n IH]; intros d r1 rs c; [reflexivity|]. simpl.
  pose proof (Hs (req d) r1 c) as H. dsim H (e1 (req d) r1 c) (e2 (req d) r1 c); try reflexivity.
  pose proof (h_seq_sim (opt_ d) rs c1) as H. dsim H (h_seq e1 (opt_ d) rs c1) (h_seq e2 (opt_ d) rs c1); try reflexivity. apply sim_prepend, IH.
Qed.

Lemma rematch_all_sim d rs i2 : sim (rematch_all e1 d rs i2) (rematch_all e2 d rs i2).
Proof.
  induction rs as [|r rs IH]; simpl; [reflexivity|].
  pose proof (Hs d r i2) as H. dsim H (e1 d r i2) (e2 d r i2); try reflexivity. apply sim_prepend, IH.
Qed.

Lemma inline_result_sim x c1 c2 p q : sim (inline_result x c1 c2 p) (inline_result x c1 c2 q).
Proof. destruct x as [[[|]|t] evs]; reflexivity. Qed.

Lemma eval_head_sim n self h subs d c :
  sim (eval_head C e1 n self h subs d c) (eval_head C e2 n self h subs d c).
Proof.
  unfold eval_head. destruct (eval_atom (ceol C) h c); [reflexivity|].
  destruct h; try reflexivity.
  - apply h_seq_sim.
  - apply sor_any_sim.
  - apply star_loop_sim.
  - destruct subs as [|r1 [|? ?]]; try reflexivity. unfold h_plus, bind.
    pose proof (Hs d r1 c) as H. dsim H (e1 d r1 c) (e2 d r1 c); try reflexivity. apply sim_prepend, star_loop_sim.
  - unfold h_partial. pose proof (seq_all_sim (req d) subs c) as H. dsim H (seq_all e1 (req d) subs c) (seq_all e2 (req d) subs c); reflexivity.
  - destruct subs as [|r1 [|? ?]]; try reflexivity. apply h_at_sim.
  - destruct subs as [|r1 [|? ?]]; try reflexivity. apply h_at_sim.
  - destruct subs as [|r1 [|? ?]]; try reflexivity. apply guard_sim, until1_sim.
  - destruct subs as [|cn [|r1 [|? ?]]]; try reflexivity. apply guard_sim, until2_sim.
  - destruct subs as [|r1 [|? ?]]; try reflexivity. apply guard_sim, rep_loop_sim.
  - destruct subs as [|r1 [|? ?]]; try reflexivity. unfold h_rep_min_max, bind. apply guard_sim.
    pose proof (rep_loop_sim mn (opt_ d) r1 c) as H. dsim H (rep_loop e1 mn (opt_ d) r1 c) (rep_loop e2 mn (opt_ d) r1 c); try reflexivity.
    apply sim_prepend.
    destruct (repopt_loop_sim (mx - mn) d r1 c1) as [K1 K2].
    destruct (repopt_loop e1 (mx - mn) d r1 c1) as [x b]. destruct (repopt_loop e2 (mx - mn) d r1 c1) as [y b']. simpl in K1, K2. subst b'.
    dsim K1 x y; try reflexivity; destruct b; try reflexivity. apply sim_prepend, h_at_sim.
  - destruct subs as [|r1 [|? ?]]; try reflexivity. unfold h_rep_opt. apply (proj1 (repopt_loop_sim mx d r1 c)).
  - destruct subs as [|cn [|t [|e [|? ?]]]]; try reflexivity. unfold h_if_then_else. apply guard_sim.
    pose proof (Hs (req d) cn c) as H. dsim H (e1 (req d) cn c) (e2 (req d) cn c); try reflexivity; apply sim_prepend, Hs.
  - destruct subs as [|cn rest_]; try reflexivity. unfold h_if_must.
    pose proof (Hs (if dflt then req d else d) cn c) as H.
    dsim H (e1 (if dflt then req d else d) cn c) (e2 (if dflt then req d else d) cn c); try reflexivity.
    destruct rest_ as [|m ?]; [reflexivity|]. pose proof (Hs d m c1) as H. dsim H (e1 d m c1) (e2 d m c1); reflexivity.
  - destruct subs as [|r1 [|? ?]]; try reflexivity. unfold h_must, raise_at.
    pose proof (Hs (opt_ d) r1 c) as H. dsim H (e1 (opt_ d) r1 c) (e2 (opt_ d) r1 c); reflexivity.
  - destruct subs as [|r1 rs]; try reflexivity. unfold h_strict. apply guard_sim.
    pose proof (Hs (req d) r1 c) as H. dsim H (e1 (req d) r1 c) (e2 (req d) r1 c); try reflexivity. apply sim_prepend, h_seq_sim.
  - destruct subs as [|r1 rs]; try reflexivity. apply guard_sim, star_strict_sim.
  - destruct subs as [|hd rs]; try reflexivity. unfold h_rematch. destruct rs as [|r rs']; [apply Hs|].
    pose proof (Hs (opt_ d) hd c) as H. dsim H (e1 (opt_ d) hd c) (e2 (opt_ d) hd c); try reflexivity.
    destruct (take _ (rest c)); [|reflexivity].
    pose proof (rematch_all_sim (opt_ d) (r :: rs') (mkcur l (cpos c))) as H.
    dsim H (rematch_all e1 (opt_ d) (r :: rs') (mkcur l (cpos c))) (rematch_all e2 (opt_ d) (r :: rs') (mkcur l (cpos c))); reflexivity.
  - destruct subs as [|r1 [|? ?]]; try reflexivity. unfold h_try_false.
    pose proof (Hs (opt_ d) r1 c) as H. dsim H (e1 (opt_ d) r1 c) (e2 (opt_ d) r1 c); reflexivity.
  - destruct subs as [|r1 [|? ?]]; try reflexivity. unfold h_try_nested.
    pose proof (Hs (opt_ d) r1 c) as H. dsim H (e1 (opt_ d) r1 c) (e2 (opt_ d) r1 c); try reflexivity.
    match goal with |- context [catches f ?x] => destruct (catches f x) end; reflexivity.
  - destruct subs as [|r1 [|? ?]]; try reflexivity. apply st_scope_sim, Hs.
  - destruct subs as [|r1 [|? ?]]; try reflexivity. apply Hs.
  - destruct subs as [|r1 [|? ?]]; try reflexivity. apply Hs.
  - destruct subs as [|r1 [|? ?]]; try reflexivity. apply Hs.
  - destruct subs as [|r1 [|? ?]]; try reflexivity. apply Hs.
  - destruct subs as [|r1 [|? ?]]; try reflexivity. unfold h_if_apply.
    destruct (dA d && _); [|apply Hs].
    pose proof (Hs (set_A (opt_ d) true) r1 c) as H. dsim H (e1 (set_A (opt_ d) true) r1 c) (e2 (set_A (opt_ d) true) r1 c); try reflexivity.
    apply inline_result_sim.
Qed.
End SimHelpers.

(* match.hpp: the unwind flag of the control only shows in the log *)
Lemma match_hpp_sim C ak (b1 b2 : dyn -> cursor -> result) d r c :
  (forall d c, sim (b1 d c) (b2 d c)) -> sim (match_hpp C ak b1 d r c) (match_hpp (pt_cfg C) ak b2 d r c).
Proof.
  intros Hb. unfold match_hpp. cbn [pt_cfg has_unwind].
  pose proof (Hb (if use_guard d ak then opt_ d else d) c) as H.
  dsim H (b1 (if use_guard d ak then opt_ d else d) c) (b2 (if use_guard d ak then opt_ d else d) c); try reflexivity.
  - change (run_action (pt_cfg C) d ak r (cpos c) (cpos c1)) with (run_action C d ak r (cpos c) (cpos c1)).
    destruct (run_action C d ak r (cpos c) (cpos c1)) as [[[|]|t] ea]; try reflexivity.
    unfold fail_hook. cbn [pt_cfg raise_on_failure]. destruct (raise_on_failure C (dCtl d) r); reflexivity.
  - unfold fail_hook. cbn [pt_cfg raise_on_failure]. destruct (raise_on_failure C (dCtl d) r); reflexivity.
Qed.

(* a rule without action and without raising failure hook: being control-enabled or not is invisible *)
Lemma match_hpp_transparent C' (b1 b2 : dyn -> cursor -> result) d r c :
  raise_on_failure C' (dCtl d) r = false ->
  (forall d c, sim (b1 d c) (b2 d c)) -> sim (b1 d c) (match_hpp C' AKNone b2 d r c).
Proof.
  intros Hr Hb. unfold match_hpp.
  assert (Hg : use_guard d AKNone = false) by (unfold use_guard; apply andb_false_r). rewrite Hg.
  pose proof (Hb d c) as H. dsim H (b1 d c) (b2 d c); try reflexivity.
  - unfold run_action. destruct (dA d); reflexivity.
  - unfold fail_hook. rewrite Hr. reflexivity.
Qed.

Lemma action_match_sim e1 e2 (p1 p2 : dyn -> cursor -> result) enabled m d r c :
  (forall d r c, sim (e1 d r c) (e2 d r c)) -> (forall d c, sim (p1 d c) (p2 d c)) ->
  sim (action_match e1 p1 enabled m d r c) (action_match e2 p2 enabled m d r c).
Proof.
  intros He Hp. destruct m; simpl.
  - apply He. - apply st_scope_sim, Hp. - apply st_scope_sim, He. - apply Hp. - apply Hp. - apply Hp.
  - destruct enabled; [|apply Hp]. destruct (n <? S (dDepth d))%nat; [reflexivity | apply Hp].
  - pose proof (Hp d (mkcur (firstn n (rest c)) (cpos c))) as H.
    dsim H (p1 d (mkcur (firstn n (rest c)) (cpos c))) (p2 d (mkcur (firstn n (rest c)) (cpos c))); try reflexivity.
    destruct (in_empty c1 && negb (is_nil (skipn n (rest c)))); reflexivity.
  - pose proof (Hp d c) as H. dsim H (p1 d c) (p2 d c); try reflexivity.
    destruct (n <? length (rest c) - length (rest c1))%nat; reflexivity.
Qed.

(* two tables that differ only in the control-enabled flag of rules that carry no action and no
   raising failure hook *)
Definition tables_agree (C : cfg) (G1 G2 : grammar) : Prop :=
  forall r, match nth_error G1 r, nth_error G2 r with
            | Some n1, Some n2 =>
                nhead n1 = nhead n2 /\ nsubs n1 = nsubs n2 /\
                (nenabled n1 = nenabled n2 \/
                 (nenabled n1 = false /\ (forall fam, acts C fam r = AKNone) /\ (forall k, raise_on_failure C k r = false)))
            | None, None => True
            | _, _ => False
            end.

Theorem eval_sim C G1 G2 : tables_agree C G1 G2 ->
  forall f d r c, sim (eval G1 C f d r c) (eval G2 (pt_cfg C) f d r c).
Proof.
  intros Ha. induction f as [|f IH]; intros d r c; [reflexivity|]. simpl.
  pose proof (Ha r) as Hr. destruct (nth_error G1 r) as [n1|]; destruct (nth_error G2 r) as [n2|]; try contradiction; [|reflexivity].
  destruct Hr as [Hh [Hsu Hen]]. rewrite <- Hh, <- Hsu.
  apply traced_sim.
  assert (Hbody : forall d' c', sim (eval_head C (eval G1 C f) f r (nhead n1) (nsubs n1) d' c')
                                    (eval_head (pt_cfg C) (eval G2 (pt_cfg C) f) f r (nhead n1) (nsubs n1) d' c')).
  { intros d' c'. change (eval_head (pt_cfg C)) with (eval_head (mkcfg (ceol C) (acts C) (abeh C) (ibeh C) (fun _ => true) (raise_on_failure C))).
    eapply eq_trans; [apply (eval_head_sim C _ _ IH)|]. clear.
    generalize (eval G2 (pt_cfg C) f). intros e. unfold eval_head. cbn [ceol].
    destruct (eval_atom (ceol C) (nhead n1) c'); [reflexivity|].
    destruct (nhead n1); try reflexivity;
      repeat match goal with |- context [match ?l with [] => _ | _ :: _ => _ end] => destruct l end; reflexivity. }
  change (acts (pt_cfg C)) with (acts C).
  destruct Hen as [Hen | [Hen [Hact Hrof]]].
  - rewrite <- Hen.
    assert (Hplain : forall ak d' c', sim
              (if nenabled n1 then match_hpp C ak (eval_head C (eval G1 C f) f r (nhead n1) (nsubs n1)) d' r c'
               else eval_head C (eval G1 C f) f r (nhead n1) (nsubs n1) d' c')
              (if nenabled n1 then match_hpp (pt_cfg C) ak (eval_head (pt_cfg C) (eval G2 (pt_cfg C) f) f r (nhead n1) (nsubs n1)) d' r c'
               else eval_head (pt_cfg C) (eval G2 (pt_cfg C) f) f r (nhead n1) (nsubs n1) d' c')).
    { intros ak d' c'. destruct (nenabled n1); [apply match_hpp_sim; exact Hbody | apply Hbody]. }
    destruct (acts C (dAct d) r) as [| | |mk]; try apply Hplain.
    apply action_match_sim; [exact IH | apply Hplain].
  - rewrite Hen, (Hact (dAct d)).
    destruct (nenabled n2); [|apply Hbody].
    apply match_hpp_transparent; [apply Hrof | exact Hbody].
Qed.

(* ================================================================================================
   Every log of the engine under a control with unwind() and without throwing Action<Rule>::apply is
   the flattening of a call forest, and that forest conforms to the table: the attempts made inside
   an attempt of r are of rules reachable from r through subs_t.  (Raising failure hooks allowed.) *)
From PegtlV Require Import ParseTreeSpec ParseTreeFacts.

Section Conf.
Variable G : grammar.
Variable C : cfg.
Hypothesis Hunwind : forall k, has_unwind C k = true.
Hypothesis Hnothrow : forall fam r b e t, abeh C fam r b e <> AThrow t.

Definition Q (T : rid -> Prop) (evs : list event) : Prop :=
  exists ts, hooks_of evs = flatten_forest ts /\ forallb wf_ct ts = true /\ Forall (fun t => T (c_rule t) /\ conf G t) ts.
Definition GoodQ (T : rid -> Prop) (x : result) : Prop := match x with Res _ _ evs => Q T evs | _ => True end.
Definition below (r : rid) : rid -> Prop := fun x => reach G r x.
Definition at_or_below (r : rid) : rid -> Prop := fun x => x = r \/ reach G r x.

Lemma Q_nil T : Q T [].
Proof. exists []. repeat split; constructor. Qed.
Lemma Q_app T a b : Q T a -> Q T b -> Q T (a ++ b).
Proof.
  intros [ta [Ha [Wa Fa]]] [tb [Hb [Wb Fb]]]. exists (ta ++ tb).
  rewrite hooks_of_app, Ha, Hb, flatten_forest_app, forallb_app, Wa, Wb. repeat split. apply Forall_app; auto.
Qed.
Lemma Q_mono (T T' : rid -> Prop) evs : (forall x, T x -> T' x) -> Q T evs -> Q T' evs.
Proof.
  intros HT [ts [H [W F]]]. exists ts. repeat split; auto. eapply Forall_impl; [|exact F]. intros t [H1 H2]. auto.
Qed.
Lemma Q_silent T evs : hooks_of evs = [] -> Q T evs.
Proof. intros H. exists []. rewrite H. repeat split; constructor. Qed.
Lemma GoodQ_mono (T T' : rid -> Prop) x : (forall y, T y -> T' y) -> GoodQ T x -> GoodQ T' x.
Proof. destruct x; simpl; auto. apply Q_mono. Qed.
Lemma GoodQ_prepend T evs x : Q T evs -> GoodQ T x -> GoodQ T (prepend evs x).
Proof. destruct x; simpl; auto. intros; apply Q_app; assumption. Qed.

Ltac dres x := destruct x as [[| |?e] ?c ?evs| |].

Section HelperFacts.
Variable T : rid -> Prop.
Variable A : rid -> Prop.        (* the rules this node may call: its subs *)
Variable ev : dyn -> rid -> cursor -> result.
Hypothesis Hev : forall d r c, A r -> GoodQ T (ev d r c).

Lemma guard_Q m s x : GoodQ T x -> GoodQ T (guard m s x).
Proof. dres x; simpl; auto. Qed.
Lemma look_Q i s x : GoodQ T x -> GoodQ T (look i s x).
Proof. dres x; simpl; auto. Qed.
Lemma bind_Q x k : GoodQ T x -> (forall c, GoodQ T (k c)) -> GoodQ T (bind x k).
Proof. intros Hx Hk. dres x; simpl in *; auto. apply GoodQ_prepend; auto. Qed.

Lemma seq_all_Q d rs : Forall A rs -> forall c, GoodQ T (seq_all ev d rs c).
Proof. induction 1 as [|r rs Hr _ IH]; intros c; simpl; [apply Q_nil|]. apply bind_Q; [apply Hev; exact Hr | exact IH]. Qed.
Lemma sor_any_Q d rs : Forall A rs -> forall c, GoodQ T (sor_any ev d rs c).
Proof.
  induction 1 as [|r rs Hr Hrs IH]; intros c; [apply Q_nil|]. destruct rs as [|r2 rs']; [apply Hev; exact Hr|].
  change (sor_any ev d (r :: r2 :: rs') c) with (match ev (req d) r c with Res Fail c' evs => prepend evs (sor_any ev d (r2 :: rs') c') | x => x end).
  pose proof (Hev (req d) r c Hr) as H. dres (ev (req d) r c); simpl in *; auto. apply GoodQ_prepend; [exact H | apply IH].
Qed.
Lemma star_loop_Q n d rs : Forall A rs -> forall c, GoodQ T (star_loop ev n d rs c).
Proof.
  intros Hrs. induction n as [|n IH]; intros c; simpl; [exact I|].
  pose proof (seq_all_Q (req d) rs Hrs c) as H. dres (seq_all ev (req d) rs c); simpl in *; auto. apply GoodQ_prepend; [exact H | apply IH].
Qed.
Lemma until1_Q n d cn : A cn -> forall c, GoodQ T (until1_loop C ev n d cn c).
Proof.
  intros Hc. induction n as [|n IH]; intros c; cbn [until1_loop]; [exact I|].
  pose proof (Hev (req d) cn c Hc) as H. dres (ev (req d) cn c); cbn [GoodQ] in H |- *; auto.
  destruct (in_empty c0); [exact H|]. destruct (bump_scan (eol_ch (ceol C)) 1 c0) as [c2|]; [|exact I]. apply GoodQ_prepend; [exact H | apply IH].
Qed.
Lemma until2_Q n d cn r : A cn -> A r -> forall c, GoodQ T (until2_loop ev n d cn r c).
Proof.
  intros Hc Hr. induction n as [|n IH]; intros c; simpl; [exact I|].
  pose proof (Hev (req d) cn c Hc) as H. dres (ev (req d) cn c); simpl in *; auto.
  pose proof (Hev (opt_ d) r c0 Hr) as H2. dres (ev (opt_ d) r c0); simpl in *; auto; try (apply Q_app; assumption).
  apply GoodQ_prepend; [apply Q_app; assumption | apply IH].
Qed.
Lemma rep_loop_Q k d r : A r -> forall c, GoodQ T (rep_loop ev k d r c).
Proof. intros Hr. induction k as [|k IH]; intros c; simpl; [apply Q_nil|]. apply bind_Q; [apply Hev; exact Hr | exact IH]. Qed.
Lemma repopt_loop_Q k d r : A r -> forall c, GoodQ T (fst (repopt_loop ev k d r c)).
Proof.
  intros Hr. induction k as [|k IH]; intros c; simpl; [apply Q_nil|].
  pose proof (Hev (req d) r c Hr) as H. dres (ev (req d) r c); simpl in *; auto.
  specialize (IH c0). destruct (repopt_loop ev k d r c0) as [x b]. simpl in *. apply GoodQ_prepend; assumption.
Qed.
Lemma h_seq_Q d rs c : Forall A rs -> GoodQ T (h_seq ev d rs c).
Proof.
  intros Hrs. unfold h_seq. destruct rs as [|r1 [|r2 rs]]; [apply Q_nil | inversion Hrs; subst; apply Hev; assumption | apply guard_Q, seq_all_Q; exact Hrs].
Qed.
Lemma h_at_Q i d r1 c : A r1 -> GoodQ T (h_at ev i d r1 c).
Proof. intros H. apply look_Q, Hev, H. Qed.
Lemma star_strict_Q n d r1 rs : A r1 -> Forall A rs -> forall c, GoodQ T (star_strict_loop ev n d r1 rs c).
Proof.
  intros H1 Hrs. induction n as [|n IH]; intros c; simpl; [exact I|].
  pose proof (Hev (req d) r1 c H1) as H. dres (ev (req d) r1 c); simpl in *; auto.
  pose proof (h_seq_Q (opt_ d) rs c0 Hrs) as H2. dres (h_seq ev (opt_ d) rs c0); simpl in *; auto; try (apply Q_app; assumption).
  apply GoodQ_prepend; [apply Q_app; assumption | apply IH].
Qed.
Lemma rematch_all_Q d rs i2 : Forall A rs -> GoodQ T (rematch_all ev d rs i2).
Proof.
  induction 1 as [|r rs Hr _ IH]; simpl; [apply Q_nil|].
  pose proof (Hev d r i2 Hr) as H. dres (ev d r i2); simpl in *; auto. apply GoodQ_prepend; assumption.
Qed.
Lemma st_scope_Q b r c0 x : GoodQ T x -> GoodQ T (st_scope b r c0 x).
Proof.
  dres x; simpl; auto; intros H.
  - change (EStNew r (cpos c0) :: evs ++ (if b then [EStSuccess r (cpos c)] else []) ++ [EStDrop r]) with ([EStNew r (cpos c0)] ++ evs ++ (if b then [EStSuccess r (cpos c)] else []) ++ [EStDrop r]).
    apply Q_app; [apply Q_silent; reflexivity|]. apply Q_app; [exact H|]. apply Q_silent. destruct b; reflexivity.
  - change (EStNew r (cpos c0) :: evs ++ [EStDrop r]) with ([EStNew r (cpos c0)] ++ evs ++ [EStDrop r]).
    apply Q_app; [apply Q_silent; reflexivity|]. apply Q_app; [exact H | apply Q_silent; reflexivity].
  - change (EStNew r (cpos c0) :: evs ++ [EStDrop r]) with ([EStNew r (cpos c0)] ++ evs ++ [EStDrop r]).
    apply Q_app; [apply Q_silent; reflexivity|]. apply Q_app; [exact H | apply Q_silent; reflexivity].
Qed.
Lemma run_inline_silent acts_ b e : hooks_of (snd (run_inline C acts_ b e)) = [].
Proof.
  induction acts_ as [|a tl IH]; simpl; [reflexivity|].
  destruct (ibeh C a b e) as [[|]|t]; simpl; try reflexivity.
  destruct (run_inline C tl b e) as [x evs]. simpl in *. exact IH.
Qed.
Lemma run_inline0_silent acts_ p : hooks_of (snd (run_inline0 C acts_ p)) = [].
Proof.
  induction acts_ as [|a tl IH]; simpl; [reflexivity|].
  destruct (ibeh C a p p) as [[|]|t]; simpl; try reflexivity.
  destruct (run_inline0 C tl p) as [x evs]. simpl in *. exact IH.
Qed.
Lemma inline_result_Q x c1 c2 pre : Q T pre -> hooks_of (snd x) = [] -> GoodQ T (inline_result x c1 c2 pre).
Proof. intros Hp Hn. destruct x as [[[|]|t] evs]; simpl in *; apply Q_app; try exact Hp; apply Q_silent; exact Hn. Qed.

Lemma eval_head_Q n self h subs d c : (forall r, In r subs -> A r) -> GoodQ T (eval_head C ev n self h subs d c).
Proof.
  intros HA. assert (HF : Forall A subs) by (apply Forall_forall; exact HA).
  unfold eval_head.
  destruct (eval_atom (ceol C) h c) as [x|] eqn:Ea.
  { (* atoms emit no events *)
    assert (A0 : forall c' o, GoodQ T (Res o c' [])) by (intros; apply Q_nil).
    assert (O : forall o, GoodQ T (ok_or_err o)) by (intros [?|]; simpl; [apply Q_nil | exact I]).
    assert (BH : forall ch b k, GoodQ T (bump_help ch b k c)) by (intros; unfold bump_help; apply O).
    assert (PT : forall ch pk t, GoodQ T (peek_test_bump ch pk t c)).
    { intros. unfold peek_test_bump. destruct (do_peek pk c); try exact I; [apply A0|]. destruct (t data); [apply BH | apply A0]. }
    destruct h; simpl in Ea; try discriminate Ea; try (injection Ea as <-); try apply A0; try apply O; try apply PT.
    - destruct (eol_match (ceol C) c) as [[[[|] z] c']|]; try apply A0; exact I.
    - destruct (eol_match (ceol C) c) as [[[[|] z] c']|]; try apply A0; exact I.
    - destruct pk; injection Ea as <-;
      try (match goal with |- GoodQ T (match ?x with PNone => _ | PSome _ _ => _ | POob => _ end) => destruct x; [apply A0 | apply O | exact I] end).
      destruct (in_empty c); [apply A0 | apply O].
    - destruct (_ <=? _)%nat; [|apply A0]. destruct (take _ _); [|exact I]. destruct (eqb_bytes _ _); [apply BH | apply A0].
    - destruct (_ <=? _)%nat; [|apply A0]. destruct (take _ _); [|exact I]. destruct (ieqb_bytes _ _); [apply BH | apply A0].
    - destruct (_ <=? _)%nat; [apply O | apply A0]. }
  assert (F : GoodQ T (Res Fail c [])) by (apply Q_nil).
  destruct h; try exact F; try (simpl in Ea; discriminate Ea).
  - apply h_seq_Q; exact HF.
  - apply sor_any_Q; exact HF.
  - apply star_loop_Q; exact HF.
  - destruct subs as [|r1 [|? ?]]; try exact F. unfold h_plus. apply bind_Q; [apply Hev, HA; simpl; auto | intros; apply star_loop_Q; exact HF].
  - unfold h_partial. pose proof (seq_all_Q (req d) subs HF c) as H. dres (seq_all ev (req d) subs c); simpl in *; auto.
  - destruct subs as [|r1 [|? ?]]; try exact F. apply h_at_Q, HA; simpl; auto.
  - destruct subs as [|r1 [|? ?]]; try exact F. apply h_at_Q, HA; simpl; auto.
  - destruct subs as [|r1 [|? ?]]; try exact F. apply guard_Q, until1_Q, HA; simpl; auto.
  - destruct subs as [|cn [|r1 [|? ?]]]; try exact F. apply guard_Q, until2_Q; apply HA; simpl; auto.
  - destruct subs as [|r1 [|? ?]]; try exact F. apply guard_Q, rep_loop_Q, HA; simpl; auto.
  - destruct subs as [|r1 [|? ?]]; try exact F. assert (A1 : A r1) by (apply HA; simpl; auto).
    unfold h_rep_min_max. apply guard_Q. apply bind_Q; [apply rep_loop_Q; exact A1|].
    intros c1. pose proof (repopt_loop_Q (mx - mn) d r1 A1 c1) as H. destruct (repopt_loop ev (mx - mn) d r1 c1) as [x b]. simpl in H.
    dres x; simpl in *; auto. destruct b; [|exact H]. apply GoodQ_prepend; [exact H | apply h_at_Q; exact A1].
  - destruct subs as [|r1 [|? ?]]; try exact F. apply repopt_loop_Q, HA; simpl; auto.
  - destruct subs as [|cn [|t [|e [|? ?]]]]; try exact F. unfold h_if_then_else. apply guard_Q.
    pose proof (Hev (req d) cn c (HA cn (or_introl eq_refl))) as H. dres (ev (req d) cn c); simpl in *; auto; apply GoodQ_prepend; auto; apply Hev, HA; simpl; auto.
  - destruct subs as [|cn rest_]; try exact F. unfold h_if_must.
    pose proof (Hev (if dflt then req d else d) cn c (HA cn (or_introl eq_refl))) as H. dres (ev (if dflt then req d else d) cn c); simpl in *; auto.
    destruct rest_ as [|m ?]; [exact H|]. pose proof (Hev d m c0 (HA m (or_intror (or_introl eq_refl)))) as H2.
    dres (ev d m c0); simpl in *; auto; apply Q_app; assumption.
  - destruct subs as [|r1 [|? ?]]; try exact F. unfold h_must, raise_at.
    pose proof (Hev (opt_ d) r1 c (HA r1 (or_introl eq_refl))) as H. dres (ev (opt_ d) r1 c); simpl in *; auto.
    apply Q_app; [exact H | apply Q_silent; reflexivity].
  - destruct subs as [|t [|? ?]]; exact F.
  - destruct subs as [|r1 rs]; try exact F. unfold h_strict. apply guard_Q.
    pose proof (Hev (req d) r1 c (HA r1 (or_introl eq_refl))) as H. dres (ev (req d) r1 c); simpl in *; auto.
    apply GoodQ_prepend; [exact H | apply h_seq_Q]. inversion HF; assumption.
  - destruct subs as [|r1 rs]; try exact F. inversion HF; subst. apply guard_Q, star_strict_Q; assumption.
  - destruct subs as [|hd rs]; try exact F. inversion HF as [|? ? Hhd Hrs]; subst. unfold h_rematch. destruct rs as [|r rs']; [apply Hev; exact Hhd|].
    pose proof (Hev (opt_ d) hd c Hhd) as H. dres (ev (opt_ d) hd c); cbn [GoodQ] in H |- *; auto.
    destruct (take _ (rest c)) as [span|]; [|exact I].
    pose proof (rematch_all_Q (opt_ d) (r :: rs') (mkcur span (cpos c)) Hrs) as H2.
    dres (rematch_all ev (opt_ d) (r :: rs') (mkcur span (cpos c))); cbn [GoodQ] in H2 |- *; auto; apply Q_app; assumption.
  - destruct subs as [|r1 [|? ?]]; try exact F. unfold h_try_false.
    pose proof (Hev (opt_ d) r1 c (HA r1 (or_introl eq_refl))) as H. dres (ev (opt_ d) r1 c); simpl in *; auto.
  - destruct subs as [|r1 [|? ?]]; try exact F. unfold h_try_nested.
    pose proof (Hev (opt_ d) r1 c (HA r1 (or_introl eq_refl))) as H. dres (ev (opt_ d) r1 c); simpl in *; auto.
    destruct (catches f e); simpl; [|exact H]. apply Q_app; [exact H | apply Q_silent; reflexivity].
  - destruct subs as [|r1 [|? ?]]; try exact F. apply st_scope_Q, Hev, HA; simpl; auto.
  - destruct subs as [|r1 [|? ?]]; try exact F. apply Hev, HA; simpl; auto.
  - destruct subs as [|r1 [|? ?]]; try exact F. apply Hev, HA; simpl; auto.
  - destruct subs as [|r1 [|? ?]]; try exact F. apply Hev, HA; simpl; auto.
  - destruct subs as [|r1 [|? ?]]; try exact F. apply Hev, HA; simpl; auto.
  - destruct subs; try exact F. unfold h_apply. destruct (dA d); [|apply Q_nil].
    apply inline_result_Q; [apply Q_nil | apply run_inline_silent].
  - destruct subs; try exact F. unfold h_apply0. destruct (dA d); [|apply Q_nil].
    apply inline_result_Q; [apply Q_nil | apply run_inline0_silent].
  - destruct subs as [|r1 [|? ?]]; try exact F. unfold h_if_apply.
    destruct (dA d && _); [|apply Hev, HA; simpl; auto].
    pose proof (Hev (set_A (opt_ d) true) r1 c (HA r1 (or_introl eq_refl))) as H. dres (ev (set_A (opt_ d) true) r1 c); simpl in *; auto.
    apply inline_result_Q; [exact H | apply run_inline_silent].
Qed.
End HelperFacts.
End Conf.

Lemma conf_intro G r b h e kids : Forall (fun k => reach G r (c_rule k) /\ conf G k) kids -> conf G (CT r b h e kids).
Proof. simpl. induction 1 as [|k tl [H1 H2] _ IH]; [exact I|]. split; [exact H1|]. split; [exact H2 | exact IH]. Qed.

Section Conf2.
Variable G : grammar.
Variable C : cfg.
Hypothesis Hunwind : forall k, has_unwind C k = true.
Hypothesis Hnothrow : forall fam r b e t, abeh C fam r b e <> AThrow t.
Notation Q := (Q G).
Notation GoodQ := (GoodQ G).

Lemma run_action_silent d ak r b e : hooks_of (snd (run_action C d ak r b e)) = [].
Proof. unfold run_action. destruct (dA d); [|reflexivity]. destruct ak; reflexivity. Qed.

Lemma wrap_Q k r p q h evs mid : closing h = true -> hooks_of mid = [] -> Q (below G r) evs ->
  Q (eq r) (EHook HkStart k r p :: evs ++ mid ++ [EHook h k r q]).
Proof.
  intros Hc Hm [ts [He [Hw Hf]]]. exists [CT r p h q ts]. split; [|split].
  - cbn [hooks_of]. rewrite !hooks_of_app, Hm, He. unfold flatten_forest. cbn [flat_map flatten hooks_of app]. rewrite app_nil_r. reflexivity.
  - cbn [forallb wf_ct]. rewrite Hc, Hw. reflexivity.
  - constructor; [|constructor]. split; [reflexivity|]. apply conf_intro. exact Hf.
Qed.

Lemma match_hpp_Q ak body d r c : (forall d c, GoodQ (below G r) (body d c)) -> GoodQ (eq r) (match_hpp C ak body d r c).
Proof.
  intros Hb. unfold match_hpp. set (g := use_guard d ak).
  pose proof (Hb (if g then opt_ d else d) c) as H.
  destruct (body (if g then opt_ d else d) c) as [[| |e] c1 evs| |]; simpl in H; try exact I.
  - pose proof (run_action_silent d ak r (cpos c) (cpos c1)) as Hs.
    destruct (run_action C d ak r (cpos c) (cpos c1)) as [[[|]|t] ea] eqn:Er; simpl in Hs.
    + simpl. apply wrap_Q; [reflexivity | exact Hs | exact H].
    + unfold fail_hook. assert (K : Q (eq r) ((EHook HkStart (dCtl d) r (cpos c) :: evs ++ ea) ++ [EHook HkFailure (dCtl d) r (cpos c1)])).
      { rewrite <- app_comm_cons, <- app_assoc. apply wrap_Q; [reflexivity | exact Hs | exact H]. }
      destruct (raise_on_failure C (dCtl d) r); exact K.
    + exfalso. unfold run_action in Er. destruct (dA d); [|inversion Er].
      destruct ak as [|isb|isb|mk]; try (inversion Er; fail);
      destruct (abeh C (dAct d) r (cpos c) (cpos c1)) as [x|t'] eqn:Eab; inversion Er; subst; eapply Hnothrow; eauto.
  - unfold fail_hook. assert (K : Q (eq r) ((EHook HkStart (dCtl d) r (cpos c) :: evs) ++ [EHook HkFailure (dCtl d) r (cpos c1)])).
    { rewrite <- app_comm_cons. apply (wrap_Q (dCtl d) r (cpos c) (cpos c1) HkFailure evs []); [reflexivity | reflexivity | exact H]. }
    destruct (raise_on_failure C (dCtl d) r); exact K.
  - simpl. rewrite Hunwind. apply (wrap_Q (dCtl d) r (cpos c) (cpos c1) HkUnwind evs []); [reflexivity | reflexivity | exact H].
Qed.

Lemma traced_Q T k r a m c x : GoodQ T x -> GoodQ T (traced k r a m c x).
Proof.
  destruct x as [o c' evs| |]; simpl; auto. intros H.
  change (EEnter k r a m (cpos c) :: evs ++ [EExit k r (okind o) (cpos c')]) with ([EEnter k r a m (cpos c)] ++ evs ++ [EExit k r (okind o) (cpos c')]).
  apply Q_app; [apply Q_silent; reflexivity|]. apply Q_app; [exact H | apply Q_silent; reflexivity].
Qed.

Lemma action_match_Q T ev plain enabled m d r c :
  (forall d c, GoodQ T (ev d r c)) -> (forall d c, GoodQ T (plain d c)) -> GoodQ T (action_match ev plain enabled m d r c).
Proof.
  intros He Hp. destruct m; cbn [action_match].
  - apply He.
  - apply st_scope_Q, Hp.
  - apply st_scope_Q, He.
  - apply Hp. - apply Hp. - apply Hp.
  - destruct enabled; [|apply Hp]. destruct (n <? S (dDepth d))%nat; [|apply Hp]. unfold raise_at. simpl. apply Q_silent. reflexivity.
  - pose proof (Hp d (mkcur (firstn n (rest c)) (cpos c))) as H.
    destruct (plain d (mkcur (firstn n (rest c)) (cpos c))) as [[| |e] c1 evs| |]; try exact I; try exact H.
    destruct (in_empty c1 && negb (is_nil (skipn n (rest c)))); [|exact H].
    unfold raise_at. simpl. apply Q_app; [exact H | apply Q_silent; reflexivity].
  - pose proof (Hp d c) as H. destruct (plain d c) as [[| |e] c1 evs| |]; try exact I; try exact H.
    destruct (n <? length (rest c) - length (rest c1))%nat; exact H.
Qed.

Theorem eval_Q f : forall d r c, GoodQ (at_or_below G r) (eval G C f d r c).
Proof.
  induction f as [|f IH]; intros d r c; simpl; [exact I|].
  destruct (nth_error G r) as [nd|] eqn:En; [|apply Q_nil].
  apply traced_Q.
  assert (Hsub : forall r', In r' (nsubs nd) -> In r' (subs_of G r)) by (intros r' Hi; unfold subs_of; rewrite En; exact Hi).
  assert (Hbody : forall d' c', GoodQ (below G r) (eval_head C (eval G C f) f r (nhead nd) (nsubs nd) d' c')).
  { intros d' c'. apply (eval_head_Q G C (below G r) (fun r' => In r' (nsubs nd))); [|auto].
    intros d2 r' c2 Hi. eapply GoodQ_mono; [|apply IH]. intros x [Hx|Hx].
    - subst x. apply reach_one. apply Hsub, Hi.
    - eapply reach_step; [apply Hsub, Hi | exact Hx]. }
  assert (Hplain : forall ak d' c', GoodQ (at_or_below G r)
            (if nenabled nd then match_hpp C ak (eval_head C (eval G C f) f r (nhead nd) (nsubs nd)) d' r c'
             else eval_head C (eval G C f) f r (nhead nd) (nsubs nd) d' c')).
  { intros ak d' c'. destruct (nenabled nd).
    - eapply GoodQ_mono; [|apply match_hpp_Q; exact Hbody]. intros x Hx. left. symmetry. exact Hx.
    - eapply GoodQ_mono; [|apply Hbody]. intros x Hx. right. exact Hx. }
  destruct (acts C (dAct d) r) as [| | |mk] eqn:Ea; try apply Hplain.
  apply action_match_Q; [intros; apply IH | apply Hplain].
Qed.

(* every log is the flattening of a well-formed call forest that conforms to the table *)
Theorem engine_call_forest f d r c o c' evs : eval G C f d r c = Res o c' evs ->
  exists ts, call_forest (hooks_of evs) = Some ts /\ Forall (conf G) ts.
Proof.
  intros H. pose proof (eval_Q f d r c) as K. rewrite H in K. destruct K as [ts [He [Hw Hf]]].
  exists ts. split; [rewrite He; apply call_forest_flatten; exact Hw|].
  eapply Forall_impl; [|exact Hf]. intros t [_ Ht]. exact Ht.
Qed.
End Conf2.

(* ---------- transport to parse_tree's table: same heads and subs, more rules control-enabled ---------- *)
Lemma nth_pt_table_from k : forall g i r,
  nth_error (pt_table_from k i g) r = option_map (fun nd => mknode (nhead nd) (nsubs nd) (pt_enabled k (i + r) nd)) (nth_error g r).
Proof.
  induction g as [|nd g IH]; intros i r; [destruct r; reflexivity|].
  destruct r as [|r]; simpl; [rewrite Nat.add_0_r; reflexivity|]. rewrite IH. replace (S i + r) with (i + S r) by lia. reflexivity.
Qed.

Lemma subs_of_pt_table G sel r : subs_of (pt_table G sel) r = subs_of G r.
Proof. unfold subs_of, pt_table. rewrite nth_pt_table_from. destruct (nth_error G r); reflexivity. Qed.

Lemma reach_ext G1 G2 : (forall r, subs_of G1 r = subs_of G2 r) -> forall a b, reach G1 a b -> reach G2 a b.
Proof.
  intros He a b H. induction H as [a b Hi|a m b Hi _ IH].
  - apply reach_one. rewrite <- He. exact Hi.
  - eapply reach_step; [rewrite <- He; exact Hi | exact IH].
Qed.

Lemma conf_ext G1 G2 : (forall r, subs_of G1 r = subs_of G2 r) -> forall t, conf G1 t -> conf G2 t.
Proof.
  intros He t. induction t as [r b h e kids IH] using ctree_ind'. intros Hc. apply conf_kids in Hc. apply conf_intro.
  induction kids as [|k tl IHk]; [constructor|]. inversion IH as [|? ? I1 I2]; subst. inversion Hc as [|? ? [K1 K2] K3]; subst.
  constructor; [split; [eapply reach_ext; eassumption | apply I1; exact K2] | apply IHk; assumption].
Qed.

Lemma pt_tables_agree G sel C :
  (forall r nd, nth_error G r = Some nd -> nenabled nd = false ->
     (forall fam, acts C fam r = AKNone) /\ (forall k, raise_on_failure C k r = false)) ->
  tables_agree C G (pt_table G sel).
Proof.
  intros Hh r. unfold pt_table. rewrite nth_pt_table_from. destruct (nth_error G r) as [nd|] eqn:En; simpl; [|exact I].
  split; [reflexivity|]. split; [reflexivity|]. unfold pt_enabled.
  destruct (nenabled nd) eqn:Een.
  - left. destruct (kind G sel r); reflexivity.
  - destruct (kind G sel r); try (left; reflexivity). right. split; [reflexivity|]. apply (Hh r nd En Een).
Qed.

(* parse_tree's control is only an observer: same outcome and cursor as the plain parse *)
Theorem pt_observer G sel C :
  (forall r nd, nth_error G r = Some nd -> nenabled nd = false ->
     (forall fam, acts C fam r = AKNone) /\ (forall k, raise_on_failure C k r = false)) ->
  forall f d r c o c' evs, eval G C f d r c = Res o c' evs ->
  exists evs', eval (pt_table G sel) (pt_cfg C) f d r c = Res o c' evs'.
Proof.
  intros Hh f d r c o c' evs H. pose proof (eval_sim C G (pt_table G sel) (pt_tables_agree G sel C Hh) f d r c) as K.
  rewrite H in K. unfold sim in K. destruct (eval (pt_table G sel) (pt_cfg C) f d r c) as [o2 c2 evs2| |]; inversion K; subst. exists evs2. reflexivity.
Qed.

(* C12_exact / C12_iff on top of the engine, no hypothesis left on the log *)
Theorem pt_parse_exact G sel C :
  (forall fam r b e t, abeh C fam r b e <> AThrow t) ->
  forall f d r c o c' evs, eval (pt_table G sel) (pt_cfg C) f d r c = Res o c' evs ->
  exists ts, call_forest (hooks_of evs) = Some ts /\ Forall (conf G) ts /\
    build (kind G sel) [blank] (hooks_of evs) = Some [derivation_tree (selected G sel) ts] /\
    pt_parse G sel C f d r c = match o with
                               | Ok => PtTree (derivation_tree (selected G sel) ts)
                               | Fail => PtNull
                               | Exc e => PtExc e
                               end.
Proof.
  intros Hnt f d r c o c' evs H.
  destruct (engine_call_forest (pt_table G sel) (pt_cfg C) (fun _ => eq_refl) Hnt f d r c o c' evs H) as [ts [Hts Hc]].
  assert (Hc' : Forall (conf G) ts).
  { eapply Forall_impl; [|exact Hc]. intros t. apply conf_ext. apply subs_of_pt_table. }
  assert (Hb : build (kind G sel) [blank] (hooks_of evs) = Some [derivation_tree (selected G sel) ts]).
  { apply build_exact_log; [apply kind_at_sel | exact Hts|].
    unfold leaf_clean_forest. eapply Forall_impl; [|exact Hc']. intros t Ht. apply conf_leaf_clean. exact Ht. }
  exists ts. repeat split; try assumption.
  unfold pt_parse. rewrite H. destruct o; simpl; try reflexivity. rewrite Hb. reflexivity.
Qed.

Theorem pt_parse_iff G sel C :
  (forall fam r b e t, abeh C fam r b e <> AThrow t) ->
  (forall r nd, nth_error G r = Some nd -> nenabled nd = false ->
     (forall fam, acts C fam r = AKNone) /\ (forall k, raise_on_failure C k r = false)) ->
  forall f d r c o c' evs, eval G C f d r c = Res o c' evs ->
  ((exists t, pt_parse G sel C f d r c = PtTree t) <-> o = Ok) /\
  (pt_parse G sel C f d r c = PtNull <-> o = Fail) /\
  (forall e, pt_parse G sel C f d r c = PtExc e <-> o = Exc e).
Proof.
  intros Hnt Hh f d r c o c' evs H.
  destruct (pt_observer G sel C Hh f d r c o c' evs H) as [evs' H'].
  destruct (pt_parse_exact G sel C Hnt f d r c o c' evs' H') as [ts [_ [_ [_ Hp]]]].
  rewrite Hp. destruct o; repeat split; try (intros [t Ht]; discriminate Ht); try discriminate; try reflexivity;
    try (intros; eexists; reflexivity); intros; try congruence.
Qed.
