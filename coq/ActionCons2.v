(* ActionCons2.v — C04: the extended reference ActionSpec2.PegT is CONSERVATIVE over the classical reference
   ActionSpec.PegA: on a table that denotes a surface grammar (the tie adenb / action_tie of ActionSpec.v), with the
   table-level attachment agreeing with the surface-level one (named nodes carry the action of their rule, anonymous
   nodes none), every PegA derivation of a surface expression is a PegT derivation of the node that denotes it, with
   the same rest, offset and (relabelled) action list. *)
From Coq Require Import Lia.
From PegtlV Require Import Base Decode Grammar Engine Spec Denote ExactSound ActionSpec ActionFacts ActionExact RaiseSpec ActionSpec2.
Local Open Scope N_scope.

(* ---------- shape of a node that denotes a given surface expression ---------- *)
Lemma den_node_ref dn nd k : den_node dn nd (SRef k) = false.
Proof.
  unfold den_node. destruct (nhead nd); try reflexivity;
  try (destruct (nsubs nd) as [|r1 [|r2 rs]]; reflexivity);
  try (destruct pk; try reflexivity; destruct (nsubs nd); reflexivity);
  try (destruct found; destruct pk; try reflexivity; destruct (nsubs nd); reflexivity).
Qed.
Lemma den_node_atom dn nd e : is_atom_sexp e = true -> den_node dn nd e = true -> nsubs nd = [] /\ atom_den (nhead nd) e.
Proof.
  intros Ha H. unfold atom_den. unfold den_node in *. cbn [nhead nsubs].
  destruct (nhead nd); try discriminate H;
  try (destruct (nsubs nd) as [|r1 [|r2 rs]]; try discriminate H; destruct e; try discriminate H; try discriminate Ha; auto; fail);
  try (destruct pk; try discriminate H; destruct (nsubs nd); try discriminate H; auto; fail);
  try (destruct found; destruct pk; try discriminate H; destruct (nsubs nd); try discriminate H; auto; fail).
  all: destruct (nsubs nd) as [|r1 [|r2 rs]]; try discriminate H; destruct e; try discriminate Ha; simpl in H; try discriminate H.
Qed.
Lemma den_node_seq dn nd a b : den_node dn nd (SSeq a b) = true ->
  nhead nd = HSeq /\ (2 <= length (nsubs nd))%nat /\ den_seqb dn (nsubs nd) (SSeq a b) = true.
Proof.
  unfold den_node. intros H. destruct (nhead nd); try discriminate H;
  try (destruct (nsubs nd) as [|r1 [|r2 rs]]; discriminate H);
  try (destruct pk; try discriminate H; destruct (nsubs nd); discriminate H);
  try (destruct found; destruct pk; try discriminate H; destruct (nsubs nd); discriminate H).
  apply andb_true_iff in H. destruct H as [H1 H2]. apply Nat.leb_le in H1. auto.
Qed.
Lemma den_node_sor dn nd a b : den_node dn nd (SSor a b) = true ->
  nhead nd = HSor /\ (2 <= length (nsubs nd))%nat /\ den_sorb dn (nsubs nd) (SSor a b) = true.
Proof.
  unfold den_node. intros H. destruct (nhead nd); try discriminate H;
  try (destruct (nsubs nd) as [|r1 [|r2 rs]]; discriminate H);
  try (destruct pk; try discriminate H; destruct (nsubs nd); discriminate H);
  try (destruct found; destruct pk; try discriminate H; destruct (nsubs nd); discriminate H).
  apply andb_true_iff in H. destruct H as [H1 H2]. apply Nat.leb_le in H1. auto.
Qed.
Definition un_head (e : sexp) : option (head * sexp) :=
  match e with
  | SStar e1 => Some (HStarPartial, e1) | SPlus e1 => Some (HPlus, e1) | SOpt e1 => Some (HPartial, e1)
  | SAt e1 => Some (HAt, e1) | SNotAt e1 => Some (HNotAt, e1) | _ => None end.
Lemma den_node_un dn nd e h e1 : un_head e = Some (h, e1) -> den_node dn nd e = true ->
  exists r1, nhead nd = h /\ nsubs nd = [r1] /\ dn r1 e1 = true.
Proof.
  intros Hu H. unfold den_node in H.
  destruct e; try discriminate Hu; inversion Hu; subst h e1; clear Hu;
  (destruct (nhead nd); try discriminate H;
   try (destruct pk; try discriminate H; destruct (nsubs nd); discriminate H);
   try (destruct found; destruct pk; try discriminate H; destruct (nsubs nd); discriminate H);
   try (apply andb_true_iff in H; destruct H as [H1 H2]; destruct (nsubs nd) as [|r1 [|r2 rs]]; simpl in H1, H2; discriminate);
   destruct (nsubs nd) as [|r1 [|r2 rs]]; try discriminate H; exists r1; auto).
Qed.

Lemma TSeq_single G att vt A fam r s o x : PegT G att vt A fam r s o x -> TSeq G att vt A fam [r] s o x.
Proof.
  intros H. destruct x as [s1 o1 l1| |].
  - pose proof (Ts_ok G att vt A fam r [] s o s1 o1 l1 _ H (Ts_nil G att vt A fam s1 o1)) as T. rewrite tcat_nil_r in T. exact T.
  - apply Ts_nok; [exact H | exact I].
  - apply Ts_nok; [exact H | exact I].
Qed.
Lemma TSor_single G att vt A fam r s o x : PegT G att vt A fam r s o x -> TSor G att vt A fam [r] s o x.
Proof.
  intros H. destruct x as [s1 o1 l1| |].
  - apply To_stop; [exact H | discriminate].
  - apply To_next; [exact H | apply To_nil].
  - apply To_stop; [exact H | discriminate].
Qed.
Lemma TPar_single_ok G att vt A fam r s o s1 o1 l1 : PegT G att vt A fam r s o (TOk s1 o1 l1) -> TPar G att vt A fam [r] s o true (TOk s1 o1 l1).
Proof.
  intros H. pose proof (Tp_ok G att vt A fam r [] s o s1 o1 l1 _ _ H (Tp_nil G att vt A fam s1 o1)) as T. rewrite tcat_nil_r in T. exact T.
Qed.

Section Cons.
Variable G : grammar.
Variable g : sgrammar.
Variable names : list rid.
Variable att : nat -> skind.
Variable vt : nat -> N -> N -> bool.
Variable attT : nat -> rid -> skind.
Variable vtT : nat -> rid -> N -> N -> bool.
Variable fam : nat.
Notation nm := (nm_of G names).
Hypothesis Hanon : forall r, anon names r = true -> attT fam r = KNone.
Hypothesis Hatt : forall k, (k < length g)%nat -> attT fam (nm k) = att k.
Hypothesis Hvt : forall k b e, (k < length g)%nat -> vtT fam (nm k) b e = vt k b e.
Hypothesis Hdefs : forall k e, nth_error g k = Some e ->
  not_ref e = true /\ exists n nd, nth_error G (nm k) = Some nd /\ den_node (adenb G g names n) nd e = true.

Definition labT (x : pact) : tact := match x with (k, sp, b, e) => (nm k, sp, b, e) end.
Definition liftT (x : pres) : tres := match x with Some (s', o', l) => TOk s' o' (map labT l) | None => TFail end.
Notation PT2 := (PegT G attT vtT).
Notation dnb := (adenb G g names).

Lemma liftT_atom s o r : liftT (ret_atom s o r) = tatom s o r.
Proof. destruct r; reflexivity. Qed.
Lemma liftT_cat l1 r : tcat (map labT l1) (liftT r) = liftT (match r with Some (s2, o2, l2) => Some (s2, o2, l1 ++ l2) | None => None end).
Proof. destruct r as [[[s2 o2] l2]|]; simpl; [rewrite map_app|]; reflexivity. Qed.

(* what a derivation of e gives for every table object that denotes e *)
Record Q (A : bool) (e : sexp) (s : list byte) (o : N) (x : pres) : Prop := mkQ {
  q_body : forall n nd, den_node (dnb n) nd e = true -> TBody G attT vtT A fam (nhead nd) (nsubs nd) s o (liftT x);
  q_node : forall n r, dnb n r e = true -> PT2 A fam r s o (liftT x);
  q_seq : forall n r r2 rs, den_seqb (dnb n) (r :: r2 :: rs) e = true -> TSeq G attT vtT A fam (r :: r2 :: rs) s o (liftT x);
  q_sor : forall n r r2 rs, den_sorb (dnb n) (r :: r2 :: rs) e = true -> TSor G attT vtT A fam (r :: r2 :: rs) s o (liftT x);
  q_star : forall e1, e = SStar e1 -> forall n r1, dnb n r1 e1 = true -> TStar G attT vtT A fam [r1] s o (liftT x)
}.

Lemma node_of_body A e s o x : not_ref e = true ->
  (forall n nd, den_node (dnb n) nd e = true -> TBody G attT vtT A fam (nhead nd) (nsubs nd) s o (liftT x)) ->
  forall n r, dnb n r e = true -> PT2 A fam r s o (liftT x).
Proof.
  intros Hr Hb n r H. destruct n as [|n]; [discriminate H|].
  destruct (adenb_nonref G g names n r e Hr H) as [Han [nd [Hn Hd]]].
  pose proof (T_node G attT vtT A fam r nd s o _ Hn (Hb n nd Hd)) as T.
  rewrite (twrap_none attT vtT A fam r o _ (Hanon r Han)) in T. exact T.
Qed.
Lemma Q_seq_full A e s o x : Q A e s o x -> forall n rs, rs <> [] -> den_seqb (dnb n) rs e = true -> TSeq G attT vtT A fam rs s o (liftT x).
Proof.
  intros HQ n rs Hne H. destruct rs as [|r [|r2 rs']]; [congruence | | exact (q_seq _ _ _ _ _ HQ n r r2 rs' H)].
  simpl in H. apply TSeq_single. exact (q_node _ _ _ _ _ HQ n r H).
Qed.
Lemma Q_sor_full A e s o x : Q A e s o x -> forall n rs, rs <> [] -> den_sorb (dnb n) rs e = true -> TSor G attT vtT A fam rs s o (liftT x).
Proof.
  intros HQ n rs Hne H. destruct rs as [|r [|r2 rs']]; [congruence | | exact (q_sor _ _ _ _ _ HQ n r r2 rs' H)].
  simpl in H. apply TSor_single. exact (q_node _ _ _ _ _ HQ n r H).
Qed.

(* expressions that are neither seq nor sor nor star: the list / star components are vacuous *)
Lemma mkQ_simple A e s o x : not_ref e = true ->
  (forall a b, e <> SSeq a b) -> (forall a b, e <> SSor a b) -> (forall e1, e <> SStar e1) ->
  (forall n nd, den_node (dnb n) nd e = true -> TBody G attT vtT A fam (nhead nd) (nsubs nd) s o (liftT x)) -> Q A e s o x.
Proof.
  intros Hr H1 H2 H3 Hb. split.
  - exact Hb.
  - apply node_of_body; assumption.
  - intros n r r2 rs H. cbn [den_seqb] in H. destruct e; try discriminate H. exfalso. eapply H1; reflexivity.
  - intros n r r2 rs H. cbn [den_sorb] in H. destruct e; try discriminate H. exfalso. eapply H2; reflexivity.
  - intros e1 E. exfalso. eapply H3; exact E.
Qed.
Lemma Q_atom A e s o r : is_atom_sexp e = true -> Peg [] e s r -> Q A e s o (ret_atom s o r).
Proof.
  intros Ha Hp. apply mkQ_simple; try (destruct e; try discriminate Ha; try reflexivity; intros; discriminate).
  intros n nd Hd. destruct (den_node_atom _ _ _ Ha Hd) as [Hs Hden]. rewrite Hs, liftT_atom.
  exact (B_atom G attT vtT A fam (nhead nd) e s o r Hden Hp).
Qed.

Lemma adv_off_same o s : adv_off o s s = o.
Proof. unfold adv_off. rewrite Nat.sub_diag. simpl. apply N.add_0_r. Qed.

Lemma TBody_star_inv A h rs s o x : TBody G attT vtT A fam h rs s o x -> h = HStarPartial -> TStar G attT vtT A fam rs s o x.
Proof.
  intros H Eh. destruct H; try discriminate Eh; try assumption.
  subst h. match goal with Ha : atom_den HStarPartial _ |- _ => destruct Ha as [_ Hd]; discriminate Hd end.
Qed.

Theorem conservative A e s o x : PegA g att vt A e s o x -> Q A e s o x.
Proof.
  induction 1.
  - apply Q_atom; [reflexivity | apply P_any].
  - apply Q_atom; [reflexivity | apply P_one].
  - apply Q_atom; [reflexivity | apply P_not_one].
  - apply Q_atom; [reflexivity | apply P_range].
  - apply Q_atom; [reflexivity | apply P_string].
  - apply Q_atom; [reflexivity | apply P_eof].
  - (* success *) apply mkQ_simple; try reflexivity; try (intros; discriminate).
    intros n nd Hd. destruct (den_node_atom _ _ SSuccess eq_refl Hd) as [Hs Hden]. rewrite Hs.
    pose proof (B_atom G attT vtT A fam (nhead nd) SSuccess s o _ Hden (P_success [] s)) as T.
    unfold tatom in T. rewrite adv_off_same in T. exact T.
  - (* failure *) apply mkQ_simple; try reflexivity; try (intros; discriminate).
    intros n nd Hd. destruct (den_node_atom _ _ SFailure eq_refl Hd) as [Hs Hden]. rewrite Hs.
    exact (B_atom G attT vtT A fam (nhead nd) SFailure s o _ Hden (P_failure [] s)).
  - (* seq, first ok *)
    assert (Hseq : forall n r1 r2 rs, den_seqb (dnb n) (r1 :: r2 :: rs) (SSeq a b) = true ->
              TSeq G attT vtT A fam (r1 :: r2 :: rs) s o
                (liftT (match r with Some (s2, o2, l2) => Some (s2, o2, l1 ++ l2) | None => None end))).
    { intros n r1 r2 rs Hd. cbn [den_seqb] in Hd. apply andb_true_iff in Hd. destruct Hd as [Hd1 Hd2].
      rewrite <- liftT_cat. eapply Ts_ok; [exact (q_node _ _ _ _ _ IHPegA1 n r1 Hd1)|].
      apply (Q_seq_full _ _ _ _ _ IHPegA2 n); [discriminate | exact Hd2]. }
    assert (Hb : forall n nd, den_node (dnb n) nd (SSeq a b) = true -> TBody G attT vtT A fam (nhead nd) (nsubs nd) s o
                (liftT (match r with Some (s2, o2, l2) => Some (s2, o2, l1 ++ l2) | None => None end))).
    { intros n nd Hd. destruct (den_node_seq _ _ _ _ Hd) as [Hh [Hl Hd2]]. rewrite Hh. apply B_seq.
      destruct (nsubs nd) as [|r1 [|r2 rs]]; simpl in Hl; try lia. exact (Hseq n r1 r2 rs Hd2). }
    split; [exact Hb | apply node_of_body; [reflexivity | exact Hb] | exact Hseq | intros n r1 r2 rs Hd; discriminate Hd | intros; discriminate].
  - (* seq, first fails *)
    assert (Hseq : forall n r1 r2 rs, den_seqb (dnb n) (r1 :: r2 :: rs) (SSeq a b) = true -> TSeq G attT vtT A fam (r1 :: r2 :: rs) s o (liftT None)).
    { intros n r1 r2 rs Hd. cbn [den_seqb] in Hd. apply andb_true_iff in Hd. destruct Hd as [Hd1 Hd2].
      apply Ts_nok; [exact (q_node _ _ _ _ _ IHPegA n r1 Hd1) | exact I]. }
    assert (Hb : forall n nd, den_node (dnb n) nd (SSeq a b) = true -> TBody G attT vtT A fam (nhead nd) (nsubs nd) s o (liftT None)).
    { intros n nd Hd. destruct (den_node_seq _ _ _ _ Hd) as [Hh [Hl Hd2]]. rewrite Hh. apply B_seq.
      destruct (nsubs nd) as [|r1 [|r2 rs]]; simpl in Hl; try lia. exact (Hseq n r1 r2 rs Hd2). }
    split; [exact Hb | apply node_of_body; [reflexivity | exact Hb] | exact Hseq | intros n r1 r2 rs Hd; discriminate Hd | intros; discriminate].
  - (* sor, first ok *)
    assert (Hsor : forall n r1 r2 rs, den_sorb (dnb n) (r1 :: r2 :: rs) (SSor a b) = true -> TSor G attT vtT A fam (r1 :: r2 :: rs) s o (liftT (Some x))).
    { intros n r1 r2 rs Hd. cbn [den_sorb] in Hd. apply andb_true_iff in Hd. destruct Hd as [Hd1 Hd2].
      apply To_stop; [exact (q_node _ _ _ _ _ IHPegA n r1 Hd1) | destruct x as [[s2 o2] l2]; discriminate]. }
    assert (Hb : forall n nd, den_node (dnb n) nd (SSor a b) = true -> TBody G attT vtT A fam (nhead nd) (nsubs nd) s o (liftT (Some x))).
    { intros n nd Hd. destruct (den_node_sor _ _ _ _ Hd) as [Hh [Hl Hd2]]. rewrite Hh. apply B_sor.
      destruct (nsubs nd) as [|r1 [|r2 rs]]; simpl in Hl; try lia. exact (Hsor n r1 r2 rs Hd2). }
    split; [exact Hb | apply node_of_body; [reflexivity | exact Hb] | intros n r1 r2 rs Hd; discriminate Hd | exact Hsor | intros; discriminate].
  - (* sor, first fails *)
    assert (Hsor : forall n r1 r2 rs, den_sorb (dnb n) (r1 :: r2 :: rs) (SSor a b) = true -> TSor G attT vtT A fam (r1 :: r2 :: rs) s o (liftT r)).
    { intros n r1 r2 rs Hd. cbn [den_sorb] in Hd. apply andb_true_iff in Hd. destruct Hd as [Hd1 Hd2].
      apply To_next; [exact (q_node _ _ _ _ _ IHPegA1 n r1 Hd1)|].
      apply (Q_sor_full _ _ _ _ _ IHPegA2 n); [discriminate | exact Hd2]. }
    assert (Hb : forall n nd, den_node (dnb n) nd (SSor a b) = true -> TBody G attT vtT A fam (nhead nd) (nsubs nd) s o (liftT r)).
    { intros n nd Hd. destruct (den_node_sor _ _ _ _ Hd) as [Hh [Hl Hd2]]. rewrite Hh. apply B_sor.
      destruct (nsubs nd) as [|r1 [|r2 rs]]; simpl in Hl; try lia. exact (Hsor n r1 r2 rs Hd2). }
    split; [exact Hb | apply node_of_body; [reflexivity | exact Hb] | intros n r1 r2 rs Hd; discriminate Hd | exact Hsor | intros; discriminate].
  - (* star, end *)
    assert (Hst : forall n r1, dnb n r1 e = true -> TStar G attT vtT A fam [r1] s o (liftT (Some (s, o, [])))).
    { intros n r1 Hd. apply Tt_stop. apply Tp_fail. exact (q_node _ _ _ _ _ IHPegA n r1 Hd). }
    assert (Hb : forall n nd, den_node (dnb n) nd (SStar e) = true -> TBody G attT vtT A fam (nhead nd) (nsubs nd) s o (liftT (Some (s, o, [])))).
    { intros n nd Hd. destruct (den_node_un _ _ (SStar e) _ _ eq_refl Hd) as [r1 [Hh [Hs Hd1]]]. rewrite Hh, Hs. apply B_star. exact (Hst n r1 Hd1). }
    split; [exact Hb | apply node_of_body; [reflexivity | exact Hb] | intros n r1 r2 rs Hd; discriminate Hd | intros n r1 r2 rs Hd; discriminate Hd |].
    intros e1 E. inversion E; subst e1. exact Hst.
  - (* star, step *)
    assert (Hst : forall n r1, dnb n r1 e = true -> TStar G attT vtT A fam [r1] s o
               (liftT (match r with Some (s2, o2, l2) => Some (s2, o2, l1 ++ l2) | None => None end))).
    { intros n r1 Hd. rewrite <- liftT_cat. eapply Tt_step.
      - apply TPar_single_ok. exact (q_node _ _ _ _ _ IHPegA1 n r1 Hd).
      - exact (q_star _ _ _ _ _ IHPegA2 e eq_refl n r1 Hd). }
    assert (Hb : forall n nd, den_node (dnb n) nd (SStar e) = true -> TBody G attT vtT A fam (nhead nd) (nsubs nd) s o
               (liftT (match r with Some (s2, o2, l2) => Some (s2, o2, l1 ++ l2) | None => None end))).
    { intros n nd Hd. destruct (den_node_un _ _ (SStar e) _ _ eq_refl Hd) as [r1 [Hh [Hs Hd1]]]. rewrite Hh, Hs. apply B_star. exact (Hst n r1 Hd1). }
    split; [exact Hb | apply node_of_body; [reflexivity | exact Hb] | intros n r1 r2 rs Hd; discriminate Hd | intros n r1 r2 rs Hd; discriminate Hd |].
    intros e1 E. inversion E; subst e1. exact Hst.
  - (* plus, fails *) apply mkQ_simple; try reflexivity; try (intros; discriminate).
    intros n nd Hd. destruct (den_node_un _ _ (SPlus e) _ _ eq_refl Hd) as [r1 [Hh [Hs Hd1]]]. rewrite Hh, Hs.
    apply B_plus_nok; [exact (q_node _ _ _ _ _ IHPegA n r1 Hd1) | exact I].
  - (* plus, step *) apply mkQ_simple; try reflexivity; try (intros; discriminate).
    intros n nd Hd. destruct (den_node_un _ _ (SPlus e) _ _ eq_refl Hd) as [r1 [Hh [Hs Hd1]]]. rewrite Hh, Hs.
    rewrite <- liftT_cat. eapply B_plus_ok; [exact (q_node _ _ _ _ _ IHPegA1 n r1 Hd1) | exact (q_star _ _ _ _ _ IHPegA2 e eq_refl n r1 Hd1)].
  - (* opt, ok *) apply mkQ_simple; try reflexivity; try (intros; discriminate).
    intros n nd Hd. destruct (den_node_un _ _ (SOpt e) _ _ eq_refl Hd) as [r1 [Hh [Hs Hd1]]]. rewrite Hh, Hs.
    destruct x as [[s1 o1] l1]. eapply B_partial. apply TPar_single_ok. exact (q_node _ _ _ _ _ IHPegA n r1 Hd1).
  - (* opt, none *) apply mkQ_simple; try reflexivity; try (intros; discriminate).
    intros n nd Hd. destruct (den_node_un _ _ (SOpt e) _ _ eq_refl Hd) as [r1 [Hh [Hs Hd1]]]. rewrite Hh, Hs.
    eapply B_partial. apply Tp_fail. exact (q_node _ _ _ _ _ IHPegA n r1 Hd1).
  - (* at, ok *) apply mkQ_simple; try reflexivity; try (intros; discriminate).
    intros n nd Hd. destruct (den_node_un _ _ (SAt e) _ _ eq_refl Hd) as [r1 [Hh [Hs Hd1]]]. rewrite Hh, Hs.
    pose proof (PegA_false_nil _ _ _ _ _ _ _ _ H eq_refl) as Hl. destruct x as [[s1 o1] l1]. simpl in Hl. subst l1.
    exact (B_at G attT vtT A fam r1 s o _ (q_node _ _ _ _ _ IHPegA n r1 Hd1)).
  - (* at, fails *) apply mkQ_simple; try reflexivity; try (intros; discriminate).
    intros n nd Hd. destruct (den_node_un _ _ (SAt e) _ _ eq_refl Hd) as [r1 [Hh [Hs Hd1]]]. rewrite Hh, Hs.
    exact (B_at G attT vtT A fam r1 s o _ (q_node _ _ _ _ _ IHPegA n r1 Hd1)).
  - (* not_at, sub ok *) apply mkQ_simple; try reflexivity; try (intros; discriminate).
    intros n nd Hd. destruct (den_node_un _ _ (SNotAt e) _ _ eq_refl Hd) as [r1 [Hh [Hs Hd1]]]. rewrite Hh, Hs.
    destruct x as [[s1 o1] l1]. exact (B_not_at G attT vtT A fam r1 s o _ (q_node _ _ _ _ _ IHPegA n r1 Hd1)).
  - (* not_at, sub fails *) apply mkQ_simple; try reflexivity; try (intros; discriminate).
    intros n nd Hd. destruct (den_node_un _ _ (SNotAt e) _ _ eq_refl Hd) as [r1 [Hh [Hs Hd1]]]. rewrite Hh, Hs.
    exact (B_not_at G attT vtT A fam r1 s o _ (q_node _ _ _ _ _ IHPegA n r1 Hd1)).
  - (* named rule, body ok *)
    split; [intros n nd Hd; rewrite den_node_ref in Hd; discriminate Hd | | intros n r1 r2 rs Hd; discriminate Hd | intros n r1 r2 rs Hd; discriminate Hd | intros; discriminate].
    intros n r Hd. destruct n as [|n]; [discriminate Hd|]. cbn [adenb] in Hd. apply andb_true_iff in Hd. destruct Hd as [Hd1 Hd2].
    apply Nat.eqb_eq in Hd1. subst r. apply Nat.ltb_lt in Hd2.
    destruct (Hdefs k e H) as [_ [n2 [nd [Hn Hden]]]].
    pose proof (T_node G attT vtT A fam (nm k) nd s o _ Hn (q_body _ _ _ _ _ IHPegA n2 nd Hden)) as T.
    replace (liftT (rule_wrap att vt A k o s1 o1 l1)) with (twrap attT vtT A fam (nm k) o (liftT (Some (s1, o1, l1)))); [exact T|].
    unfold twrap, rule_wrap, liftT. rewrite (Hatt k Hd2), (Hvt k _ _ Hd2). destruct A; [|reflexivity].
    destruct (att k) as [|sp isb]; [reflexivity|]. destruct (isb && vt k o o1); [reflexivity|].
    rewrite map_app. reflexivity.
  - (* named rule, body fails *)
    split; [intros n nd Hd; rewrite den_node_ref in Hd; discriminate Hd | | intros n r1 r2 rs Hd; discriminate Hd | intros n r1 r2 rs Hd; discriminate Hd | intros; discriminate].
    intros n r Hd. destruct n as [|n]; [discriminate Hd|]. cbn [adenb] in Hd. apply andb_true_iff in Hd. destruct Hd as [Hd1 Hd2].
    apply Nat.eqb_eq in Hd1. subst r.
    destruct (Hdefs k e H) as [_ [n2 [nd [Hn Hden]]]].
    exact (T_node G attT vtT A fam (nm k) nd s o _ Hn (q_body _ _ _ _ _ IHPegA n2 nd Hden)).
Qed.
End Cons.

(* ---------- the statement ---------- *)
Definition att_agree (G : grammar) (g : sgrammar) (names : list rid) (att : nat -> skind) (vt : nat -> N -> N -> bool)
  (attT : nat -> rid -> skind) (vtT : nat -> rid -> N -> N -> bool) (fam : nat) : Prop :=
  (forall r, anon names r = true -> attT fam r = KNone) /\
  (forall k, (k < length g)%nat -> attT fam (nm_of G names k) = att k) /\
  (forall k b e, (k < length g)%nat -> vtT fam (nm_of G names k) b e = vt k b e).

Theorem reference_conservative G g names att vt attT vtT fam :
  att_agree G g names att vt attT vtT fam ->
  (forall k e, nth_error g k = Some e -> not_ref e = true /\
      exists n nd, nth_error G (nm_of G names k) = Some nd /\ den_node (adenb G g names n) nd e = true) ->
  forall A e s o x, PegA g att vt A e s o x ->
  forall n r, adenb G g names n r e = true -> PegT G attT vtT A fam r s o (liftT G names x).
Proof.
  intros [H1 [H2 H3]] Hdefs A e s o x HP n r Hd.
  pose proof (conservative G g names att vt attT vtT fam H1 H2 H3 Hdefs A e s o x HP) as HQ.
  destruct HQ as [_ Hnode _ _ _]. exact (Hnode n r Hd).
Qed.

Corollary reference_conservative_tie G g names att vt attT vtT fam n :
  att_agree G g names att vt attT vtT fam -> action_tie G g names n = true ->
  forall k, (k < length g)%nat -> forall A s o x, PegA g att vt A (SRef k) s o x ->
  PegT G attT vtT A fam (nm_of G names k) s o (liftT G names x).
Proof.
  intros Hag Ht k Hk A s o x HP.
  unfold action_tie in Ht. apply andb_true_iff in Ht. destruct Ht as [_ Ht].
  assert (Hdefs : forall k e, nth_error g k = Some e ->
            not_ref e = true /\ exists n nd, nth_error G (nm_of G names k) = Some nd /\ den_node (adenb G g names n) nd e = true).
  { intros k0 e Hk0. destruct (adefs_ok_nth G g names n g 0 Ht k0 e Hk0) as [A0 [nd [B Cc]]]. split; [exact A0 | exists n, nd; auto]. }
  apply (reference_conservative G g names att vt attT vtT fam Hag Hdefs A (SRef k) s o x HP 1).
  cbn [adenb]. rewrite Nat.eqb_refl. apply Nat.ltb_lt in Hk. rewrite Hk. reflexivity.
Qed.
