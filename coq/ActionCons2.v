(* ActionCons2.v — C04: the extended reference ActionSpec2.PegT is CONSERVATIVE over the classical reference
   ActionSpec.PegA: on a table that denotes a surface grammar (the tie adenb / action_tie of ActionSpec.v), with the
   table-level attachment agreeing with the surface-level one (named nodes carry the action of their rule, anonymous
   nodes none), every PegA derivation of a surface expression is a PegT derivation of the node that denotes it, with
   the same rest, offset and (relabelled) action list. *)
From Coq Require Import Lia.
From PegtlV Require Import Base Decode Grammar Engine Spec Denote ExactSound ActionSpec ActionFacts ActionExact RaiseSpec ActionSpec2.
Local Open Scope N_scope.

(* ---------- shape of a node that denotes a given surface expression ---------- *)
Lemma den_node_ref dn nd k : den_node dn nd (SRef k) = false.
Proof.
  unfold den_node. destruct (nhead nd); try reflexivity;
  try (destruct (nsubs nd) as [|r1 [|r2 rs]]; reflexivity);
  try (destruct pk; try reflexivity; destruct (nsubs nd); reflexivity);
  try (destruct found; destruct pk; try reflexivity; destruct (nsubs nd); reflexivity).
  - destruct (nsubs nd) as [|r1 [|r2 rs]]; try reflexivity. simpl. reflexivity.
  - destruct (nsubs nd) as [|r1 [|r2 rs]]; try reflexivity. simpl. reflexivity.
Qed.
Lemma den_node_atom dn nd e : is_atom_sexp e = true -> den_node dn nd e = true -> nsubs nd = [] /\ atom_den (nhead nd) e.
Proof.
  intros Ha H. unfold atom_den. unfold den_node in *. cbn [nhead nsubs].
  destruct (nhead nd); try discriminate H;
  try (destruct (nsubs nd) as [|r1 [|r2 rs]]; try discriminate H; destruct e; try discriminate H; try discriminate Ha; auto; fail);
  try (destruct pk; try discriminate H; destruct (nsubs nd); try discriminate H; auto; fail);
  try (destruct found; destruct pk; try discriminate H; destruct (nsubs nd); try discriminate H; auto; fail).
  all: idtac "REM".
  all: destruct (nsubs nd) as [|r1 [|r2 rs]]; try discriminate H; destruct e; try discriminate Ha; simpl in H; try discriminate H.
Qed.
