(* ActionCons2.v — C04: the extended reference ActionSpec2.PegT is CONSERVATIVE over the classical reference
   ActionSpec.PegA: on a table that denotes a surface grammar (the tie adenb / action_tie of ActionSpec.v), with the
   table-level attachment agreeing with the surface-level one (named nodes carry the action of their rule, anonymous
   nodes none), every PegA derivation of a surface expression is a PegT derivation of the node that denotes it, with
   the same rest, offset and (relabelled) action list. *)
From Coq Require Import Lia.
From PegtlV Require Import Base Decode Grammar Engine Spec Denote ExactSound ActionSpec ActionFacts ActionExact RaiseSpec ActionSpec2.
Local Open Scope N_scope.

(* ---------- shape of a node that denotes a given surface expression ---------- *)
Lemma den_node_ref dn nd k : den_node dn nd (SRef k) = false.
Proof.
  unfold den_node. destruct (nhead nd); try reflexivity;
  try (destruct (nsubs nd) as [|r1 [|r2 rs]]; reflexivity);
  try (destruct pk; try reflexivity; destruct (nsubs nd); reflexivity);
  try (destruct found; destruct pk; try reflexivity; destruct (nsubs nd); reflexivity).
Qed.
Lemma den_node_atom dn nd e : is_atom_sexp e = true -> den_node dn nd e = true -> nsubs nd = [] /\ atom_den (nhead nd) e.
Proof.
  intros Ha H. unfold atom_den. unfold den_node in *. cbn [nhead nsubs].
  destruct (nhead nd); try discriminate H;
  try (destruct (nsubs nd) as [|r1 [|r2 rs]]; try discriminate H; destruct e; try discriminate H; try discriminate Ha; auto; fail);
  try (destruct pk; try discriminate H; destruct (nsubs nd); try discriminate H; auto; fail);
  try (destruct found; destruct pk; try discriminate H; destruct (nsubs nd); try discriminate H; auto; fail).
  all: idtac "REM".
  all: destruct (nsubs nd) as [|r1 [|r2 rs]]; try discriminate H; destruct e; try discriminate Ha; simpl in H; try discriminate H.
Qed.
Lemma den_node_seq dn nd a b : den_node dn nd (SSeq a b) = true ->
  nhead nd = HSeq /\ (2 <= length (nsubs nd))%nat /\ den_seqb dn (nsubs nd) (SSeq a b) = true.
Proof.
  unfold den_node. intros H. destruct (nhead nd); try discriminate H;
  try (destruct (nsubs nd) as [|r1 [|r2 rs]]; discriminate H);
  try (destruct pk; try discriminate H; destruct (nsubs nd); discriminate H);
  try (destruct found; destruct pk; try discriminate H; destruct (nsubs nd); discriminate H).
  - apply andb_true_iff in H. destruct H as [H1 H2]. apply Nat.leb_le in H1. auto.
  - apply andb_true_iff in H. destruct H as [H1 H2]. destruct (nsubs nd) as [|r1 [|r2 rs]]; simpl in H1, H2; discriminate.
Qed.
Lemma den_node_sor dn nd a b : den_node dn nd (SSor a b) = true ->
  nhead nd = HSor /\ (2 <= length (nsubs nd))%nat /\ den_sorb dn (nsubs nd) (SSor a b) = true.
Proof.
  unfold den_node. intros H. destruct (nhead nd); try discriminate H;
  try (destruct (nsubs nd) as [|r1 [|r2 rs]]; discriminate H);
  try (destruct pk; try discriminate H; destruct (nsubs nd); discriminate H);
  try (destruct found; destruct pk; try discriminate H; destruct (nsubs nd); discriminate H).
  - apply andb_true_iff in H. destruct H as [H1 H2]. destruct (nsubs nd) as [|r1 [|r2 rs]]; simpl in H1, H2; discriminate.
  - apply andb_true_iff in H. destruct H as [H1 H2]. apply Nat.leb_le in H1. auto.
Qed.
Definition un_head (e : sexp) : option (head * sexp) :=
  match e with
  | SStar e1 => Some (HStarPartial, e1) | SPlus e1 => Some (HPlus, e1) | SOpt e1 => Some (HPartial, e1)
  | SAt e1 => Some (HAt, e1) | SNotAt e1 => Some (HNotAt, e1) | _ => None end.
Lemma den_node_un dn nd e h e1 : un_head e = Some (h, e1) -> den_node dn nd e = true ->
  exists r1, nhead nd = h /\ nsubs nd = [r1] /\ dn r1 e1 = true.
Proof.
  intros Hu H. unfold den_node in H.
  destruct e; try discriminate Hu; inversion Hu; subst h e1; clear Hu;
  (destruct (nhead nd); try discriminate H;
   try (destruct pk; try discriminate H; destruct (nsubs nd); discriminate H);
   try (destruct found; destruct pk; try discriminate H; destruct (nsubs nd); discriminate H);
   try (apply andb_true_iff in H; destruct H as [H1 H2]; destruct (nsubs nd) as [|r1 [|r2 rs]]; simpl in H1, H2; discriminate);
   destruct (nsubs nd) as [|r1 [|r2 rs]]; try discriminate H; exists r1; auto).
Qed.

Lemma TSeq_single G att vt A fam r s o x : PegT G att vt A fam r s o x -> TSeq G att vt A fam [r] s o x.
Proof.
  intros H. destruct x as [s1 o1 l1| |].
  - pose proof (Ts_ok G att vt A fam r [] s o s1 o1 l1 _ H (Ts_nil G att vt A fam s1 o1)) as T. rewrite tcat_nil_r in T. exact T.
  - apply Ts_nok; [exact H | exact I].
  - apply Ts_nok; [exact H | exact I].
Qed.
Lemma TSor_single G att vt A fam r s o x : PegT G att vt A fam r s o x -> TSor G att vt A fam [r] s o x.
Proof.
  intros H. destruct x as [s1 o1 l1| |].
  - apply To_stop; [exact H | discriminate].
  - apply To_next; [exact H | apply To_nil].
  - apply To_stop; [exact H | discriminate].
Qed.
Lemma TPar_single_ok G att vt A fam r s o s1 o1 l1 : PegT G att vt A fam r s o (TOk s1 o1 l1) -> TPar G att vt A fam [r] s o true (TOk s1 o1 l1).
Proof.
  intros H. pose proof (Tp_ok G att vt A fam r [] s o s1 o1 l1 _ _ H (Tp_nil G att vt A fam s1 o1)) as T. rewrite tcat_nil_r in T. exact T.
Qed.

Section Cons.
Variable G : grammar.
Variable g : sgrammar.
Variable names : list rid.
Variable att : nat -> skind.
Variable vt : nat -> N -> N -> bool.
Variable attT : nat -> rid -> skind.
Variable vtT : nat -> rid -> N -> N -> bool.
Variable fam : nat.
Notation nm := (nm_of G names).
Hypothesis Hanon : forall r, anon names r = true -> attT fam r = KNone.
Hypothesis Hatt : forall k, (k < length g)%nat -> attT fam (nm k) = att k.
Hypothesis Hvt : forall k b e, (k < length g)%nat -> vtT fam (nm k) b e = vt k b e.
Hypothesis Hdefs : forall k e, nth_error g k = Some e ->
  not_ref e = true /\ exists n nd, nth_error G (nm k) = Some nd /\ den_node (adenb G g names n) nd e = true.

Definition labT (x : pact) : tact := match x with (k, sp, b, e) => (nm k, sp, b, e) end.
Definition liftT (x : pres) : tres := match x with Some (s', o', l) => TOk s' o' (map labT l) | None => TFail end.
Notation PT2 := (PegT G attT vtT).
Notation dnb := (adenb G g names).

Lemma liftT_atom s o r : liftT (ret_atom s o r) = tatom s o r.
Proof. destruct r; reflexivity. Qed.
Lemma liftT_cat l1 r : tcat (map labT l1) (liftT r) = liftT (match r with Some (s2, o2, l2) => Some (s2, o2, l1 ++ l2) | None => None end).
Proof. destruct r as [[[s2 o2] l2]|]; simpl; [rewrite map_app|]; reflexivity. Qed.

(* what a derivation of e gives for every table object that denotes e *)
Record Q (A : bool) (e : sexp) (s : list byte) (o : N) (x : pres) : Prop := mkQ {
  q_body : forall n nd, den_node (dnb n) nd e = true -> TBody G attT vtT A fam (nhead nd) (nsubs nd) s o (liftT x);
  q_node : forall n r, dnb n r e = true -> PT2 A fam r s o (liftT x);
  q_seq : forall n r r2 rs, den_seqb (dnb n) (r :: r2 :: rs) e = true -> TSeq G attT vtT A fam (r :: r2 :: rs) s o (liftT x);
  q_sor : forall n r r2 rs, den_sorb (dnb n) (r :: r2 :: rs) e = true -> TSor G attT vtT A fam (r :: r2 :: rs) s o (liftT x);
  q_star : forall e1, e = SStar e1 -> forall n r1, dnb n r1 e1 = true -> TStar G attT vtT A fam [r1] s o (liftT x)
}.

Lemma node_of_body A e s o x : not_ref e = true ->
  (forall n nd, den_node (dnb n) nd e = true -> TBody G attT vtT A fam (nhead nd) (nsubs nd) s o (liftT x)) ->
  forall n r, dnb n r e = true -> PT2 A fam r s o (liftT x).
Proof.
  intros Hr Hb n r H. destruct n as [|n]; [discriminate H|].
  destruct (adenb_nonref G g names n r e Hr H) as [Han [nd [Hn Hd]]].
  pose proof (T_node G attT vtT A fam r nd s o _ Hn (Hb n nd Hd)) as T.
  rewrite (twrap_none attT vtT A fam r o _ (Hanon r Han)) in T. exact T.
Qed.
Lemma Q_seq_full A e s o x : Q A e s o x -> forall n rs, rs <> [] -> den_seqb (dnb n) rs e = true -> TSeq G attT vtT A fam rs s o (liftT x).
Proof.
  intros HQ n rs Hne H. destruct rs as [|r [|r2 rs']]; [congruence | | exact (q_seq _ _ _ _ _ HQ n r r2 rs' H)].
  simpl in H. apply TSeq_single. exact (q_node _ _ _ _ _ HQ n r H).
Qed.
Lemma Q_sor_full A e s o x : Q A e s o x -> forall n rs, rs <> [] -> den_sorb (dnb n) rs e = true -> TSor G attT vtT A fam rs s o (liftT x).
Proof.
  intros HQ n rs Hne H. destruct rs as [|r [|r2 rs']]; [congruence | | exact (q_sor _ _ _ _ _ HQ n r r2 rs' H)].
  simpl in H. apply TSor_single. exact (q_node _ _ _ _ _ HQ n r H).
Qed.

(* expressions that are neither seq nor sor nor star: the list / star components are vacuous *)
Lemma mkQ_simple A e s o x : not_ref e = true ->
  (forall a b, e <> SSeq a b) -> (forall a b, e <> SSor a b) -> (forall e1, e <> SStar e1) ->
  (forall n nd, den_node (dnb n) nd e = true -> TBody G attT vtT A fam (nhead nd) (nsubs nd) s o (liftT x)) -> Q A e s o x.
Proof.
  intros Hr H1 H2 H3 Hb. split.
  - exact Hb.
  - apply node_of_body; assumption.
  - intros n r r2 rs H. cbn [den_seqb] in H. destruct e; try discriminate H. exfalso. eapply H1; reflexivity.
  - intros n r r2 rs H. cbn [den_sorb] in H. destruct e; try discriminate H. exfalso. eapply H2; reflexivity.
  - intros e1 E. exfalso. eapply H3; exact E.
Qed.
Lemma Q_atom A e s o r : is_atom_sexp e = true -> Peg [] e s r -> Q A e s o (ret_atom s o r).
Proof.
  intros Ha Hp. apply mkQ_simple; try (destruct e; try discriminate Ha; try reflexivity; intros; discriminate).
  intros n nd Hd. destruct (den_node_atom _ _ _ Ha Hd) as [Hs Hden]. rewrite Hs, liftT_atom.
  exact (B_atom G attT vtT A fam (nhead nd) e s o r Hden Hp).
Qed.

Theorem conservative A e s o x : PegA g att vt A e s o x -> Q A e s o x.
Proof.
  induction 1.
  - apply Q_atom; [reflexivity | apply P_any].
  - apply Q_atom; [reflexivity | apply P_one].
  - apply Q_atom; [reflexivity | apply P_not_one].
  - apply Q_atom; [reflexivity | apply P_range].
  - apply Q_atom; [reflexivity | apply P_string].
  - apply Q_atom; [reflexivity | apply P_eof].
  - change (Some (s, o, [])) with (ret_atom s o (Some s)) at 1. admit_x.
  - admit_x.
Abort.
End Cons.
