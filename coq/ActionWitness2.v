(* ActionWitness2.v — C04: the witness that the library does not implement the documented equivalence
   rep_min_max< m, M, R > = seq< rep< m, R >, rep_opt< M - m, R >, not_at< R > > when an action of R vetoes
   (engine model run by vm_compute against the executable reference). *)
From Coq Require Import Lia.
From PegtlV Require Import Base Decode Grammar Engine Spec Denote ExactSound ActionSpec ActionExact RaiseSpec ActionSpec2 ActionExact2 ActionRef2.

Definition rf_G : grammar := [ mknode (HRepMinMax 0 2) [1]%nat false; mknode (HOne true PkChar [97%Z]) [] true ].
Definition rf_vt (f : nat) (r : rid) (b e : N) : bool := N.eqb b 1.
Definition rf_C : cfg :=
  mkcfg EolLfCrlf (fun _ r => match r with 1%nat => AKApply true | _ => AKNone end)
        (fun f r b e => ARet (negb (rf_vt f r (pbyte b) (pbyte e)))) (fun _ _ _ => ARet true) (fun _ => true) (fun _ _ => false).
Ltac ta_closed := repeat (apply Forall_cons; [cbn; lia|]); apply Forall_nil.
Lemma rmm_doc_equivalence_refuted :
  action_cfg2 rf_G rf_C rf_vt /\ ta_table rf_G (att_of rf_C) /\
  (exists c' evs, run rf_G rf_C 20 (mkdyn true true 0 0 0) 0%nat [97; 97]%N pos0 = Res Ok c' evs /\ rest c' = [97]%N /\
                  map sact_bytes (survivors evs) = [(1%nat, true, 0%N, 1%N)]) /\
  PegT rf_G (att_of rf_C) rf_vt true 0 0%nat [97; 97]%N 0 TFail.
Proof.
  split.
  { split; [intros f r; destruct r as [|[|r]]; exact I|]. split; [intros; reflexivity|]. split; [intros; reflexivity|].
    intros f r nd Ha Hn. destruct r as [|[|r]]; [exfalso; apply Ha; reflexivity | simpl in Hn; inversion Hn; reflexivity | exfalso; apply Ha; reflexivity]. }
  split.
  { intros r nd H. destruct r as [|[|r]]; simpl in H; [| |destruct r; discriminate H]; inversion H; subst; split; cbn.
    - ta_closed.
    - exists 1%nat. reflexivity.
    - ta_closed.
    - split; [reflexivity | exists (SOne [97%N]); split; reflexivity]. }
  split.
  { eexists. eexists. split; [vm_compute; reflexivity|]. split; [reflexivity | vm_compute; reflexivity]. }
  apply (pegt_sound rf_G (att_of rf_C) rf_vt 20). vm_compute. reflexivity.
Qed.
