(* RaiseComplete.v — C05 "identity", COMPLETENESS direction: whenever the independent relation
   RaiseSpec2.XPeg assigns a verdict (success with a rest, local failure, or a raise blaming a rule) to a
   rule on an input, the engine — with enough fuel, in every apply mode / rewind mode / control family and
   under every attachment of void actions — reaches that very verdict: same rest on success, and on a raise a
   parse_error blaming the same rule.  Tables: cm2_table (RaiseSound2.v).  Together with RaiseSound2 this
   gives the two-way identity. *)
From Coq Require Import Lia.
From PegtlV Require Import Base Decode Grammar Engine EngineFacts AtomFacts Mono Spec Denote ExactSound ExactTop ExactComplete RaiseSpec RaiseSound RaiseSpec2 RaiseSound2.
Local Open Scope N_scope.

Definition Qx (x : sres) (o : outcome) (c' : cursor) : Prop :=
  match x with
  | ROk s' => o = Ok /\ rest c' = s'
  | RFail => o = Fail
  | RRaise w _ => exists p, o = Exc (EParse (WRule w) p)
  end.
Lemma Qx_cur x o c1 c2 : Qx x o c1 -> (o = Ok -> c2 = c1) -> Qx x o c2.
Proof. destruct x; simpl; auto. intros [-> <-] H. rewrite (H eq_refl). auto. Qed.
Lemma Qx_fail x c : Qx x Fail c -> x = RFail.
Proof. destruct x; simpl; [intros [H _]; discriminate H | reflexivity | intros [p H]; discriminate H]. Qed.

Lemma bo_suf s s1 : bytes_ok s -> suf s s1 -> bytes_ok s1.
Proof. intros H [pre ->]. eapply bytes_ok_app_r; eauto. Qed.

Lemma guard_fold m s o c' evs : exists c'', guard m s (Res o c' evs) = Res o c'' evs /\ (o = Ok -> c'' = c').
Proof. destruct o; simpl; eexists; split; try reflexivity; auto; discriminate. Qed.

Lemma seq_one e d r c o c' evs : seq_all e d [r] c = Res o c' evs -> exists evs0, e d r c = Res o c' evs0.
Proof.
  cbn [seq_all]. unfold bind. destruct (e d r c) as [[| |ex] c1 e1| |]; simpl; intros H; inversion H; subst; eexists; reflexivity.
Qed.

Lemma XPeg_defined G r s x : XPeg G r s x -> (r < length G)%nat.
Proof. intros H. assert (K : exists nd, nth_error G r = Some nd) by (destruct H; eauto). destruct K as [nd K]. apply nth_error_Some. congruence. Qed.

Section Complete2.
Variable G : grammar.
Variable C : cfg.
Hypothesis HG : table_wf G.
Hypothesis Hacts : forall fam r, void_ak (acts C fam r).
Hypothesis Habeh : forall fam r b e, exists x, abeh C fam r b e = ARet x.
Hypothesis Hrof : forall k r, raise_on_failure C k r = false.
Hypothesis Hcm : cm2_table G.

Notation ev := (eval G C).

Definition HeadOut2 (nd : node) (rr : rid) (d : dyn) (c : cursor) (x : sres) : Prop :=
  exists F, forall N, (F <= N)%nat -> exists o c1 evs1,
    eval_head C (ev N) N rr (nhead nd) (nsubs nd) d c = Res o c1 evs1 /\ Qx x o c1.
Definition EvOut2 (d : dyn) (rr : rid) (c : cursor) (x : sres) : Prop :=
  exists f o c' evs, ev f d rr c = Res o c' evs /\ Qx x o c'.

Lemma match_hpp_fold2 ak body d r c o c1 evs1 x : void_ak ak ->
  body (if use_guard d ak then opt_ d else d) c = Res o c1 evs1 -> Qx x o c1 ->
  exists c' evs, match_hpp C ak body d r c = Res o c' evs /\ Qx x o c'.
Proof.
  intros Hv Hb Hq. unfold match_hpp. rewrite Hb. destruct o as [| |e].
  - destruct (run_action_void C Habeh d ak r (cpos c) (cpos c1) Hv) as [ea ->]. eexists. eexists. split; [reflexivity | exact Hq].
  - unfold fail_hook. rewrite Hrof. eexists. eexists. split; [reflexivity|]. eapply Qx_cur; [exact Hq | discriminate].
  - eexists. eexists. split; [reflexivity|]. eapply Qx_cur; [exact Hq | discriminate].
Qed.

Lemma node_fold2 nd rr d c x : nth_error G rr = Some nd ->
  (forall d', HeadOut2 nd rr d' c x) -> EvOut2 d rr c x.
Proof.
  intros Hn Hh.
  destruct (Hh d) as [F1 H1]. destruct (Hh (opt_ d)) as [F2 H2].
  set (N := Nat.max F1 F2).
  destruct (H1 N) as [o1 [c1 [e1 [K1 P1]]]]; [lia|]. destruct (H2 N) as [o2 [c2 [e2 [K2 P2]]]]; [lia|].
  exists (S N). simpl. rewrite Hn.
  assert (Tr : forall y o c' evs0, y = Res o c' evs0 -> Qx x o c' ->
              exists o' c'' evs, traced (dCtl d) rr (dA d) (dM d) c y = Res o' c'' evs /\ Qx x o' c'').
  { intros y o c' evs0 -> Hp. simpl. eexists. eexists. eexists. split; [reflexivity | exact Hp]. }
  pose proof (Hacts (dAct d) rr) as Hv.
  assert (Plain : forall ak, void_ak ak -> exists o c' evs0,
            (if nenabled nd then match_hpp C ak (eval_head C (ev N) N rr (nhead nd) (nsubs nd)) d rr c
             else eval_head C (ev N) N rr (nhead nd) (nsubs nd) d c) = Res o c' evs0 /\ Qx x o c').
  { intros ak Hak. destruct (nenabled nd).
    - destruct (use_guard d ak) eqn:Eg.
      + destruct (match_hpp_fold2 ak (eval_head C (ev N) N rr (nhead nd) (nsubs nd)) d rr c o2 c2 e2 x Hak) as [c' [evs0 [M1 M2]]]; [rewrite Eg; exact K2 | exact P2|].
        exists o2, c', evs0. auto.
      + destruct (match_hpp_fold2 ak (eval_head C (ev N) N rr (nhead nd) (nsubs nd)) d rr c o1 c1 e1 x Hak) as [c' [evs0 [M1 M2]]]; [rewrite Eg; exact K1 | exact P1|].
        exists o1, c', evs0. auto.
    - exists o1, c1, e1. auto. }
  destruct (acts C (dAct d) rr) as [|isb|isb|m] eqn:Ea; simpl in Hv; try contradiction.
  - destruct (Plain AKNone I) as [o [c' [evs0 [K Pk]]]]. eapply Tr; eauto.
  - destruct isb; [contradiction|]. destruct (Plain (AKApply false) I) as [o [c' [evs0 [K Pk]]]]. eapply Tr; eauto.
  - destruct isb; [contradiction|]. destruct (Plain (AKApply0 false) I) as [o [c' [evs0 [K Pk]]]]. eapply Tr; eauto.
Qed.

(* ---------- fuel lifting for the new loops ---------- *)
Lemma evle2 f1 f2 : (f1 <= f2)%nat -> forall d r c, le_res (ev f1 d r c) (ev f2 d r c).
Proof. intros L d r c. apply eval_mono. exact L. Qed.
Lemma until1_lift f1 f2 k1 k2 d cn c o c' evs : (f1 <= f2)%nat -> (k1 <= k2)%nat ->
  until1_loop C (ev f1) k1 d cn c = Res o c' evs -> until1_loop C (ev f2) k2 d cn c = Res o c' evs.
Proof. intros L K. apply le_res_res. apply until1_mono; [apply evle2; exact L | exact K]. Qed.
Lemma until2_lift f1 f2 k1 k2 d cn r c o c' evs : (f1 <= f2)%nat -> (k1 <= k2)%nat ->
  until2_loop (ev f1) k1 d cn r c = Res o c' evs -> until2_loop (ev f2) k2 d cn r c = Res o c' evs.
Proof. intros L K. apply le_res_res. apply until2_mono; [apply evle2; exact L | exact K]. Qed.
Lemma rep_lift f1 f2 k d r c o c' evs : (f1 <= f2)%nat ->
  rep_loop (ev f1) k d r c = Res o c' evs -> rep_loop (ev f2) k d r c = Res o c' evs.
Proof. intros L. apply le_res_res. apply rep_loop_mono. apply evle2; exact L. Qed.
Lemma repopt_lift f1 f2 k d r c o c' evs b : (f1 <= f2)%nat ->
  repopt_loop (ev f1) k d r c = (Res o c' evs, b) -> repopt_loop (ev f2) k d r c = (Res o c' evs, b).
Proof.
  intros L H. destruct (repopt_loop_mono (ev f1) (ev f2) (evle2 f1 f2 L) k d r c) as [K|K].
  - rewrite H in K. discriminate K.
  - rewrite <- K. exact H.
Qed.

(* from the soundness half: a rep_opt loop that stopped early stopped on a failing attempt *)
Lemma repopt_stop f k d r1 c c' evs : (r1 < length G)%nat -> bytes_ok (rest c) ->
  repopt_loop (ev f) k d r1 c = (Res Ok c' evs, false) -> XPeg G r1 (rest c') RFail.
Proof.
  intros Hl Hb H.
  pose proof (repopt_sound G C HG Hcm f
               (fun d0 r0 c0 o0 c0' evs0 => raise_sound2_sec G C HG Hacts Habeh Hrof Hcm f d0 r0 c0 o0 c0' evs0)
               k d r1 c _ false Hl Hb H Ok c' evs eq_refl) as [_ [_ K]].
  exact (proj2 (proj2 (K eq_refl)) eq_refl).
Qed.

Lemma sub1 r nd r1 : nth_error G r = Some nd -> nsubs nd = [r1] -> (r1 < length G)%nat.
Proof. intros Hn Hs. pose proof (proj1 (Hcm r nd Hn)) as K. rewrite Hs in K. inversion K; assumption. Qed.

(* ---------- the statements proved together by induction on the derivation ---------- *)
Definition PA (r : rid) (s : list byte) (x : sres) : Prop :=
  forall d c, rest c = s -> bytes_ok s -> EvOut2 d r c x.
Definition PSeq (rs : list rid) (s : list byte) (x : sres) : Prop :=
  forall d c, rest c = s -> bytes_ok s -> exists f o c' evs, seq_all (ev f) d rs c = Res o c' evs /\ Qx x o c'.
Definition PSor (rs : list rid) (s : list byte) (x : sres) : Prop :=
  forall d c, rest c = s -> bytes_ok s -> exists f o c' evs, sor_any (ev f) d rs c = Res o c' evs /\ Qx x o c'.
Definition PStar (r1 : rid) (s : list byte) (x : sres) : Prop :=
  forall d c, rest c = s -> bytes_ok s -> exists f k o c' evs, star_loop (ev f) k d [r1] c = Res o c' evs /\ Qx x o c'.
Definition PU1 (cnd : rid) (s : list byte) (x : sres) : Prop :=
  forall d c, rest c = s -> bytes_ok s -> exists f k o c' evs, until1_loop C (ev f) k d cnd c = Res o c' evs /\ Qx x o c'.
Definition PU2 (cnd r1 : rid) (s : list byte) (x : sres) : Prop :=
  forall d c, rest c = s -> bytes_ok s -> exists f k o c' evs, until2_loop (ev f) k d cnd r1 c = Res o c' evs /\ Qx x o c'.
Definition PRep (k : nat) (r1 : rid) (s : list byte) (x : sres) : Prop :=
  forall d c, rest c = s -> bytes_ok s -> exists f o c' evs, rep_loop (ev f) k d r1 c = Res o c' evs /\ Qx x o c'.
Definition PRepOpt (k : nat) (r1 : rid) (s : list byte) (x : sres) : Prop :=
  forall d c, rest c = s -> bytes_ok s -> exists f o c' evs b, repopt_loop (ev f) k d r1 c = (Res o c' evs, b) /\ Qx x o c'.

Lemma sufP r s s1 : XPeg G r s (ROk s1) -> suf s s1.
Proof. exact (proj1 (XPeg_suf_all G) r s _). Qed.
Lemma sufRep k r1 s s1 : XRep G k r1 s (ROk s1) -> suf s s1.
Proof. exact (proj1 (proj2 (proj2 (proj2 (proj2 (proj2 (proj2 (XPeg_suf_all G))))))) k r1 s _). Qed.
Lemma sufRepOpt k r1 s s1 : XRepOpt G k r1 s (ROk s1) -> suf s s1.
Proof. exact (proj2 (proj2 (proj2 (proj2 (proj2 (proj2 (proj2 (XPeg_suf_all G))))))) k r1 s _). Qed.

Ltac ihok IH d c Hs Hb f c1 e1 K R :=
  let o := fresh "o" in let Q := fresh "Q" in
  destruct (IH d c Hs Hb) as [f [o [c1 [e1 [K Q]]]]]; simpl in Q; destruct Q as [Q R]; subst o.
Ltac ihfail IH d c Hs Hb f c1 e1 K :=
  let o := fresh "o" in let Q := fresh "Q" in
  destruct (IH d c Hs Hb) as [f [o [c1 [e1 [K Q]]]]]; simpl in Q; subst o.
Ltac ihraise IH d c Hs Hb f c1 e1 K p :=
  let o := fresh "o" in let Q := fresh "Q" in
  destruct (IH d c Hs Hb) as [f [o [c1 [e1 [K Q]]]]]; simpl in Q; destruct Q as [p Q]; subst o.
Ltac ihfailreq IH d c Hs Hb f e1 K :=
  let c1 := fresh "c1" in let E := fresh "E" in
  ihfail IH (req d) c Hs Hb f c1 e1 K; pose proof (ev_req_fail G C HG _ _ _ _ _ _ K) as E; subst c1.
Ltac lev f1 N K := rewrite (ev_lift G C f1 N _ _ _ _ _ _ ltac:(lia) K).

(* ----- seq ----- *)
Lemma c_seq_nil s : PSeq [] s (ROk s).
Proof. intros d c Hs Hb. exists 0%nat, Ok, c, []. split; [reflexivity | split; [reflexivity | exact Hs]]. Qed.
Lemma c_seq_fail r rs s : PA r s RFail -> PSeq (r :: rs) s RFail.
Proof.
  intros IH d c Hs Hb. ihfail IH d c Hs Hb f c1 e1 K.
  exists f, Fail, c1, e1. rewrite seq_all_cons. unfold bind. rewrite K. split; reflexivity.
Qed.
Lemma c_seq_raise r rs s w s0 : PA r s (RRaise w s0) -> PSeq (r :: rs) s (RRaise w s0).
Proof.
  intros IH d c Hs Hb. ihraise IH d c Hs Hb f c1 e1 K p.
  exists f, (Exc (EParse (WRule w) p)), c1, e1. rewrite seq_all_cons. unfold bind. rewrite K. split; [reflexivity | exists p; reflexivity].
Qed.
Lemma c_seq_ok r rs s s1 x : XPeg G r s (ROk s1) -> PA r s (ROk s1) -> PSeq rs s1 x -> PSeq (r :: rs) s x.
Proof.
  intros HX IH1 IH2 d c Hs Hb. ihok IH1 d c Hs Hb f1 c1 e1 K1 R1.
  destruct (IH2 d c1 R1 (bo_suf _ _ Hb (sufP _ _ _ HX))) as [f2 [o2 [c2 [e2 [K2 Q2]]]]].
  exists (Nat.max f1 f2), o2, c2. eexists. split; [|exact Q2]. rewrite seq_all_cons. unfold bind.
  lev f1 (Nat.max f1 f2) K1. rewrite (seq_lift G C f2 (Nat.max f1 f2) _ _ _ _ _ _ ltac:(lia) K2). reflexivity.
Qed.

(* ----- sor ----- *)
Lemma c_sor_nil s : PSor [] s RFail.
Proof. intros d c Hs Hb. exists 0%nat, Fail, c, []. split; reflexivity. Qed.
Lemma c_sor_ok r rs s s1 : PA r s (ROk s1) -> PSor (r :: rs) s (ROk s1).
Proof.
  intros IH d c Hs Hb. destruct rs as [|r2 rs'].
  - destruct (IH d c Hs Hb) as [f [o [c1 [e1 [K Q]]]]]. exists f, o, c1, e1. split; [exact K | exact Q].
  - ihok IH (req d) c Hs Hb f c1 e1 K R. exists f, Ok, c1, e1. rewrite sor_any_cons2, K. split; [reflexivity | split; [reflexivity | exact R]].
Qed.
Lemma c_sor_raise r rs s w s0 : PA r s (RRaise w s0) -> PSor (r :: rs) s (RRaise w s0).
Proof.
  intros IH d c Hs Hb. destruct rs as [|r2 rs'].
  - destruct (IH d c Hs Hb) as [f [o [c1 [e1 [K Q]]]]]. exists f, o, c1, e1. split; [exact K | exact Q].
  - ihraise IH (req d) c Hs Hb f c1 e1 K p. exists f, (Exc (EParse (WRule w) p)), c1, e1. rewrite sor_any_cons2, K. split; [reflexivity | exists p; reflexivity].
Qed.
Lemma c_sor_next r rs s x : PA r s RFail -> PSor rs s x -> PSor (r :: rs) s x.
Proof.
  intros IH1 IH2 d c Hs Hb. destruct rs as [|r2 rs'].
  - destruct (IH2 d c Hs Hb) as [f2 [o2 [c2 [e2 [K2 Q2]]]]]. simpl in K2. inversion K2; subst o2 c2 e2. apply Qx_fail in Q2. subst x.
    destruct (IH1 d c Hs Hb) as [f [o [c1 [e1 [K Q]]]]]. exists f, o, c1, e1. split; [exact K | exact Q].
  - ihfailreq IH1 d c Hs Hb f1 e1 K1.
    destruct (IH2 d c Hs Hb) as [f2 [o2 [c2 [e2 [K2 Q2]]]]].
    exists (Nat.max f1 f2), o2, c2. eexists. split; [|exact Q2]. rewrite sor_any_cons2.
    lev f1 (Nat.max f1 f2) K1. rewrite (sor_lift G C f2 (Nat.max f1 f2) _ _ _ _ _ _ ltac:(lia) K2). reflexivity.
Qed.

(* ----- star ----- *)
Lemma c_star_end r1 s : PA r1 s RFail -> PStar r1 s (ROk s).
Proof.
  intros IH d c Hs Hb. ihfailreq IH d c Hs Hb f e1 K.
  exists f, 1%nat, Ok, c, e1. cbn [star_loop seq_all]. unfold bind. rewrite K. split; [reflexivity | split; [reflexivity | exact Hs]].
Qed.
Lemma c_star_raise r1 s w s0 : PA r1 s (RRaise w s0) -> PStar r1 s (RRaise w s0).
Proof.
  intros IH d c Hs Hb. ihraise IH (req d) c Hs Hb f c1 e1 K p.
  exists f, 1%nat, (Exc (EParse (WRule w) p)), c1, e1. cbn [star_loop seq_all]. unfold bind. rewrite K. split; [reflexivity | exists p; reflexivity].
Qed.
Lemma c_star_step r1 s s1 x : XPeg G r1 s (ROk s1) -> PA r1 s (ROk s1) -> PStar r1 s1 x -> PStar r1 s x.
Proof.
  intros HX IH1 IH2 d c Hs Hb. ihok IH1 (req d) c Hs Hb f1 c1 e1 K1 R1.
  destruct (IH2 d c1 R1 (bo_suf _ _ Hb (sufP _ _ _ HX))) as [f2 [k2 [o2 [c2 [e2 [K2 Q2]]]]]].
  exists (Nat.max f1 f2), (S k2), o2, c2. eexists. split; [|exact Q2]. cbn [star_loop seq_all]. unfold bind.
  lev f1 (Nat.max f1 f2) K1. simpl. rewrite (star_lift G C f2 (Nat.max f1 f2) k2 k2 _ _ _ _ _ _ ltac:(lia) (le_n _) K2). reflexivity.
Qed.

(* ----- until< C > ----- *)
Lemma c_u1_ok cnd s s1 : PA cnd s (ROk s1) -> PU1 cnd s (ROk s1).
Proof.
  intros IH d c Hs Hb. ihok IH (req d) c Hs Hb f c1 e1 K R.
  exists f, 1%nat, Ok, c1, e1. cbn [until1_loop]. rewrite K. split; [reflexivity | split; [reflexivity | exact R]].
Qed.
Lemma c_u1_raise cnd s w s0 : PA cnd s (RRaise w s0) -> PU1 cnd s (RRaise w s0).
Proof.
  intros IH d c Hs Hb. ihraise IH (req d) c Hs Hb f c1 e1 K p.
  exists f, 1%nat, (Exc (EParse (WRule w) p)), c1, e1. cbn [until1_loop]. rewrite K. split; [reflexivity | exists p; reflexivity].
Qed.
Lemma c_u1_eof cnd : PA cnd [] RFail -> PU1 cnd [] RFail.
Proof.
  intros IH d c Hs Hb. ihfailreq IH d c Hs Hb f e1 K.
  exists f, 1%nat, Fail, c, e1. cbn [until1_loop]. rewrite K. unfold in_empty. rewrite Hs. split; reflexivity.
Qed.
Lemma c_u1_skip cnd b s x : PA cnd (b :: s) RFail -> PU1 cnd s x -> PU1 cnd (b :: s) x.
Proof.
  intros IH1 IH2 d c Hs Hb. ihfailreq IH1 d c Hs Hb f1 e1 K1.
  set (c2 := mkcur s (bump1_pos (eol_ch (ceol C)) (cpos c) b)).
  assert (Hb2 : bytes_ok s) by (inversion Hb; assumption).
  destruct (IH2 d c2 eq_refl Hb2) as [f2 [k2 [o2 [c3 [e3 [K2 Q2]]]]]].
  assert (Ee : in_empty c = false) by (unfold in_empty; rewrite Hs; reflexivity).
  assert (Eb : bump_scan (eol_ch (ceol C)) 1 c = Some c2) by (simpl; rewrite Hs; reflexivity).
  exists (Nat.max f1 f2), (S k2), o2, c3. eexists. split; [|exact Q2]. cbn [until1_loop].
  lev f1 (Nat.max f1 f2) K1. rewrite Ee, Eb. rewrite (until1_lift f2 (Nat.max f1 f2) k2 k2 _ _ _ _ _ _ ltac:(lia) (le_n _) K2). reflexivity.
Qed.

(* ----- until< C, R > ----- *)
Lemma c_u2_ok cnd r1 s s1 : PA cnd s (ROk s1) -> PU2 cnd r1 s (ROk s1).
Proof.
  intros IH d c Hs Hb. ihok IH (req d) c Hs Hb f c1 e1 K R.
  exists f, 1%nat, Ok, c1, e1. cbn [until2_loop]. rewrite K. split; [reflexivity | split; [reflexivity | exact R]].
Qed.
Lemma c_u2_raise cnd r1 s w s0 : PA cnd s (RRaise w s0) -> PU2 cnd r1 s (RRaise w s0).
Proof.
  intros IH d c Hs Hb. ihraise IH (req d) c Hs Hb f c1 e1 K p.
  exists f, 1%nat, (Exc (EParse (WRule w) p)), c1, e1. cbn [until2_loop]. rewrite K. split; [reflexivity | exists p; reflexivity].
Qed.
Lemma c_u2_fail cnd r1 s : PA cnd s RFail -> PA r1 s RFail -> PU2 cnd r1 s RFail.
Proof.
  intros IH1 IH2 d c Hs Hb. ihfailreq IH1 d c Hs Hb f1 e1 K1. ihfail IH2 (opt_ d) c Hs Hb f2 c2 e2 K2.
  exists (Nat.max f1 f2), 1%nat, Fail, c2. eexists. split; [|reflexivity]. cbn [until2_loop].
  lev f1 (Nat.max f1 f2) K1. lev f2 (Nat.max f1 f2) K2. reflexivity.
Qed.
Lemma c_u2_rraise cnd r1 s w s0 : PA cnd s RFail -> PA r1 s (RRaise w s0) -> PU2 cnd r1 s (RRaise w s0).
Proof.
  intros IH1 IH2 d c Hs Hb. ihfailreq IH1 d c Hs Hb f1 e1 K1. ihraise IH2 (opt_ d) c Hs Hb f2 c2 e2 K2 p.
  exists (Nat.max f1 f2), 1%nat, (Exc (EParse (WRule w) p)), c2. eexists. split; [|exists p; reflexivity]. cbn [until2_loop].
  lev f1 (Nat.max f1 f2) K1. lev f2 (Nat.max f1 f2) K2. reflexivity.
Qed.
Lemma c_u2_step cnd r1 s s1 x : XPeg G r1 s (ROk s1) -> PA cnd s RFail -> PA r1 s (ROk s1) -> PU2 cnd r1 s1 x -> PU2 cnd r1 s x.
Proof.
  intros HX IH1 IH2 IH3 d c Hs Hb. ihfailreq IH1 d c Hs Hb f1 e1 K1. ihok IH2 (opt_ d) c Hs Hb f2 c2 e2 K2 R2.
  destruct (IH3 d c2 R2 (bo_suf _ _ Hb (sufP _ _ _ HX))) as [f3 [k3 [o3 [c3 [e3 [K3 Q3]]]]]].
  exists (Nat.max f1 (Nat.max f2 f3)), (S k3), o3, c3. eexists. split; [|exact Q3]. cbn [until2_loop].
  lev f1 (Nat.max f1 (Nat.max f2 f3)) K1. lev f2 (Nat.max f1 (Nat.max f2 f3)) K2.
  rewrite (until2_lift f3 (Nat.max f1 (Nat.max f2 f3)) k3 k3 _ _ _ _ _ _ _ ltac:(lia) (le_n _) K3). reflexivity.
Qed.

(* ----- rep ----- *)
Lemma c_rep_zero r1 s : PRep O r1 s (ROk s).
Proof. intros d c Hs Hb. exists 0%nat, Ok, c, []. split; [reflexivity | split; [reflexivity | exact Hs]]. Qed.
Lemma c_rep_fail k r1 s : PA r1 s RFail -> PRep (S k) r1 s RFail.
Proof.
  intros IH d c Hs Hb. ihfail IH d c Hs Hb f c1 e1 K.
  exists f, Fail, c1, e1. cbn [rep_loop]. unfold bind. rewrite K. split; reflexivity.
Qed.
Lemma c_rep_raise k r1 s w s0 : PA r1 s (RRaise w s0) -> PRep (S k) r1 s (RRaise w s0).
Proof.
  intros IH d c Hs Hb. ihraise IH d c Hs Hb f c1 e1 K p.
  exists f, (Exc (EParse (WRule w) p)), c1, e1. cbn [rep_loop]. unfold bind. rewrite K. split; [reflexivity | exists p; reflexivity].
Qed.
Lemma c_rep_step k r1 s s1 x : XPeg G r1 s (ROk s1) -> PA r1 s (ROk s1) -> PRep k r1 s1 x -> PRep (S k) r1 s x.
Proof.
  intros HX IH1 IH2 d c Hs Hb. ihok IH1 d c Hs Hb f1 c1 e1 K1 R1.
  destruct (IH2 d c1 R1 (bo_suf _ _ Hb (sufP _ _ _ HX))) as [f2 [o2 [c2 [e2 [K2 Q2]]]]].
  exists (Nat.max f1 f2), o2, c2. eexists. split; [|exact Q2]. cbn [rep_loop]. unfold bind.
  lev f1 (Nat.max f1 f2) K1. rewrite (rep_lift f2 (Nat.max f1 f2) _ _ _ _ _ _ _ ltac:(lia) K2). reflexivity.
Qed.

(* ----- rep_opt ----- *)
Lemma c_q_zero r1 s : PRepOpt O r1 s (ROk s).
Proof. intros d c Hs Hb. exists 0%nat, Ok, c, [], true. split; [reflexivity | split; [reflexivity | exact Hs]]. Qed.
Lemma c_q_stop k r1 s : PA r1 s RFail -> PRepOpt (S k) r1 s (ROk s).
Proof.
  intros IH d c Hs Hb. ihfailreq IH d c Hs Hb f e1 K.
  exists f, Ok, c, e1, false. cbn [repopt_loop]. rewrite K. split; [reflexivity | split; [reflexivity | exact Hs]].
Qed.
Lemma c_q_raise k r1 s w s0 : PA r1 s (RRaise w s0) -> PRepOpt (S k) r1 s (RRaise w s0).
Proof.
  intros IH d c Hs Hb. ihraise IH (req d) c Hs Hb f c1 e1 K p.
  exists f, (Exc (EParse (WRule w) p)), c1, e1, false. cbn [repopt_loop]. rewrite K. split; [reflexivity | exists p; reflexivity].
Qed.
Lemma c_q_step k r1 s s1 x : XPeg G r1 s (ROk s1) -> PA r1 s (ROk s1) -> PRepOpt k r1 s1 x -> PRepOpt (S k) r1 s x.
Proof.
  intros HX IH1 IH2 d c Hs Hb. ihok IH1 (req d) c Hs Hb f1 c1 e1 K1 R1.
  destruct (IH2 d c1 R1 (bo_suf _ _ Hb (sufP _ _ _ HX))) as [f2 [o2 [c2 [e2 [b2 [K2 Q2]]]]]].
  exists (Nat.max f1 f2), o2, c2. eexists. exists b2. split; [|exact Q2]. cbn [repopt_loop].
  lev f1 (Nat.max f1 f2) K1. rewrite (repopt_lift f2 (Nat.max f1 f2) _ _ _ _ _ _ _ _ ltac:(lia) K2). reflexivity.
Qed.


(* ---------- node cases ---------- *)
Lemma guard_out m s0 o c' evs x : Qx x o c' ->
  exists o' c'' evs', guard m s0 (Res o c' evs) = Res o' c'' evs' /\ Qx x o' c''.
Proof.
  intros Q. destruct (guard_fold m s0 o c' evs) as [c2 [Eg Ec]]. exists o, c2, evs. split; [exact Eg | eapply Qx_cur; eauto].
Qed.
Ltac node nd r Hn d c Hs Hb d' := intros d c Hs Hb; apply (node_fold2 nd r d c _ Hn); intros d'.
Ltac hopen Hh Hsb Nf L := intros Nf L; unfold eval_head; rewrite Hh, Hsb; cbn [eval_atom].
Ltac fin3 := eexists; eexists; eexists; split; [reflexivity|].

Lemma n_atom r nd a s x : nth_error G r = Some nd -> nsubs nd = [] -> atom_den (nhead nd) a -> Peg [] a s x -> PA r s (lift x).
Proof.
  intros Hn Hsb Ha HP. node nd r Hn d c Hs Hb d'. exists 0%nat. intros Nf _. rewrite Hsb.
  assert (Hbc : bytes_ok (rest c)) by (rewrite Hs; exact Hb).
  destruct (atom_sound C (ev Nf) Nf r (nhead nd) a d' c _ Ha Hbc eq_refl) as [v [Hv Hp]].
  rewrite Hs in Hp. pose proof (Peg_deterministic _ _ _ _ Hp _ HP) as E. subst v.
  destruct (vres_fwd _ _ Hv) as [c' [evs [Ey Fy]]]. rewrite Ey. exists (okf x), c', evs. split; [reflexivity|].
  destruct x as [s'|]; simpl; [split; [reflexivity | apply Fy; reflexivity] | reflexivity].
Qed.

Lemma n_seq r nd s x : nth_error G r = Some nd -> nhead nd = HSeq -> nsubs nd <> [] -> PSeq (nsubs nd) s x -> PA r s x.
Proof.
  intros Hn Hh Hne IH. node nd r Hn d c Hs Hb d'.
  destruct (nsubs nd) as [|r1 [|r2 rs]] eqn:Es; [congruence| |].
  - destruct (IH d' c Hs Hb) as [f [o [c1 [e1 [K Q]]]]]. apply seq_one in K. destruct K as [e0 K].
    exists f. hopen Hh Es Nf L. unfold h_seq. lev f Nf K. exists o, c1, e0. auto.
  - destruct (IH (opt_ d') c Hs Hb) as [f [o [c1 [e1 [K Q]]]]].
    exists f. hopen Hh Es Nf L. unfold h_seq. rewrite (seq_lift G C f Nf _ _ _ _ _ _ L K). apply guard_out. exact Q.
Qed.
Lemma n_sor r nd s x : nth_error G r = Some nd -> nhead nd = HSor -> nsubs nd <> [] -> PSor (nsubs nd) s x -> PA r s x.
Proof.
  intros Hn Hh Hne IH. node nd r Hn d c Hs Hb d'. destruct (IH d' c Hs Hb) as [f [o [c1 [e1 [K Q]]]]].
  exists f. intros Nf L. unfold eval_head. rewrite Hh. cbn [eval_atom]. rewrite (sor_lift G C f Nf _ _ _ _ _ _ L K). exists o, c1, e1. auto.
Qed.
Lemma n_star r nd r1 s x : nth_error G r = Some nd -> nhead nd = HStarPartial -> nsubs nd = [r1] -> PStar r1 s x -> PA r s x.
Proof.
  intros Hn Hh Hsb IH. node nd r Hn d c Hs Hb d'. destruct (IH d' c Hs Hb) as [f [k [o [c1 [e1 [K Q]]]]]].
  exists (Nat.max f k). hopen Hh Hsb Nf L. rewrite (star_lift G C f Nf k Nf _ _ _ _ _ _ ltac:(lia) ltac:(lia) K). exists o, c1, e1. auto.
Qed.
Lemma n_plus_fail r nd r1 s : nth_error G r = Some nd -> nhead nd = HPlus -> nsubs nd = [r1] -> PA r1 s RFail -> PA r s RFail.
Proof.
  intros Hn Hh Hsb IH. node nd r Hn d c Hs Hb d'. ihfail IH d' c Hs Hb f c1 e1 K.
  exists f. hopen Hh Hsb Nf L. unfold h_plus, bind. lev f Nf K. fin3. reflexivity.
Qed.
Lemma n_plus_raise r nd r1 s w s0 : nth_error G r = Some nd -> nhead nd = HPlus -> nsubs nd = [r1] -> PA r1 s (RRaise w s0) -> PA r s (RRaise w s0).
Proof.
  intros Hn Hh Hsb IH. node nd r Hn d c Hs Hb d'. ihraise IH d' c Hs Hb f c1 e1 K p.
  exists f. hopen Hh Hsb Nf L. unfold h_plus, bind. lev f Nf K. fin3. exists p; reflexivity.
Qed.
Lemma n_plus_step r nd r1 s s1 x : nth_error G r = Some nd -> nhead nd = HPlus -> nsubs nd = [r1] ->
  XPeg G r1 s (ROk s1) -> PA r1 s (ROk s1) -> PStar r1 s1 x -> PA r s x.
Proof.
  intros Hn Hh Hsb HX IH1 IH2. node nd r Hn d c Hs Hb d'. ihok IH1 d' c Hs Hb f1 c1 e1 K1 R1.
  destruct (IH2 d' c1 R1 (bo_suf _ _ Hb (sufP _ _ _ HX))) as [f2 [k2 [o2 [c2 [e2 [K2 Q2]]]]]].
  exists (Nat.max f1 (Nat.max f2 k2)). hopen Hh Hsb Nf L. unfold h_plus, bind. lev f1 Nf K1.
  rewrite (star_lift G C f2 Nf k2 Nf _ _ _ _ _ _ ltac:(lia) ltac:(lia) K2). simpl. fin3. exact Q2.
Qed.
Lemma n_opt_ok r nd r1 s s1 : nth_error G r = Some nd -> nhead nd = HPartial -> nsubs nd = [r1] -> PA r1 s (ROk s1) -> PA r s (ROk s1).
Proof.
  intros Hn Hh Hsb IH. node nd r Hn d c Hs Hb d'. ihok IH (req d') c Hs Hb f c1 e1 K R.
  exists f. hopen Hh Hsb Nf L. unfold h_partial. cbn [seq_all]. unfold bind. lev f Nf K. simpl. fin3. split; [reflexivity | exact R].
Qed.
Lemma n_opt_none r nd r1 s : nth_error G r = Some nd -> nhead nd = HPartial -> nsubs nd = [r1] -> PA r1 s RFail -> PA r s (ROk s).
Proof.
  intros Hn Hh Hsb IH. node nd r Hn d c Hs Hb d'. ihfailreq IH d' c Hs Hb f e1 K.
  exists f. hopen Hh Hsb Nf L. unfold h_partial. cbn [seq_all]. unfold bind. lev f Nf K. fin3. split; [reflexivity | exact Hs].
Qed.
Lemma n_opt_raise r nd r1 s w s0 : nth_error G r = Some nd -> nhead nd = HPartial -> nsubs nd = [r1] -> PA r1 s (RRaise w s0) -> PA r s (RRaise w s0).
Proof.
  intros Hn Hh Hsb IH. node nd r Hn d c Hs Hb d'. ihraise IH (req d') c Hs Hb f c1 e1 K p.
  exists f. hopen Hh Hsb Nf L. unfold h_partial. cbn [seq_all]. unfold bind. lev f Nf K. fin3. exists p; reflexivity.
Qed.
Lemma n_at_ok r nd r1 s s1 : nth_error G r = Some nd -> nhead nd = HAt -> nsubs nd = [r1] -> PA r1 s (ROk s1) -> PA r s (ROk s).
Proof.
  intros Hn Hh Hsb IH. node nd r Hn d c Hs Hb d'. ihok IH (set_A (opt_ d') false) c Hs Hb f c1 e1 K R.
  exists f. hopen Hh Hsb Nf L. unfold h_at. lev f Nf K. simpl. fin3. split; [reflexivity | exact Hs].
Qed.
Lemma n_at_fail r nd r1 s : nth_error G r = Some nd -> nhead nd = HAt -> nsubs nd = [r1] -> PA r1 s RFail -> PA r s RFail.
Proof.
  intros Hn Hh Hsb IH. node nd r Hn d c Hs Hb d'. ihfail IH (set_A (opt_ d') false) c Hs Hb f c1 e1 K.
  exists f. hopen Hh Hsb Nf L. unfold h_at. lev f Nf K. simpl. fin3. reflexivity.
Qed.
Lemma n_at_raise r nd r1 s w s0 : nth_error G r = Some nd -> nhead nd = HAt -> nsubs nd = [r1] -> PA r1 s (RRaise w s0) -> PA r s (RRaise w s0).
Proof.
  intros Hn Hh Hsb IH. node nd r Hn d c Hs Hb d'. ihraise IH (set_A (opt_ d') false) c Hs Hb f c1 e1 K p.
  exists f. hopen Hh Hsb Nf L. unfold h_at. lev f Nf K. simpl. fin3. exists p; reflexivity.
Qed.
Lemma n_not_at_ok r nd r1 s s1 : nth_error G r = Some nd -> nhead nd = HNotAt -> nsubs nd = [r1] -> PA r1 s (ROk s1) -> PA r s RFail.
Proof.
  intros Hn Hh Hsb IH. node nd r Hn d c Hs Hb d'. ihok IH (set_A (opt_ d') false) c Hs Hb f c1 e1 K R.
  exists f. hopen Hh Hsb Nf L. unfold h_at. lev f Nf K. simpl. fin3. reflexivity.
Qed.
Lemma n_not_at_fail r nd r1 s : nth_error G r = Some nd -> nhead nd = HNotAt -> nsubs nd = [r1] -> PA r1 s RFail -> PA r s (ROk s).
Proof.
  intros Hn Hh Hsb IH. node nd r Hn d c Hs Hb d'. ihfail IH (set_A (opt_ d') false) c Hs Hb f c1 e1 K.
  exists f. hopen Hh Hsb Nf L. unfold h_at. lev f Nf K. simpl. fin3. split; [reflexivity | exact Hs].
Qed.
Lemma n_not_at_raise r nd r1 s w s0 : nth_error G r = Some nd -> nhead nd = HNotAt -> nsubs nd = [r1] -> PA r1 s (RRaise w s0) -> PA r s (RRaise w s0).
Proof.
  intros Hn Hh Hsb IH. node nd r Hn d c Hs Hb d'. ihraise IH (set_A (opt_ d') false) c Hs Hb f c1 e1 K p.
  exists f. hopen Hh Hsb Nf L. unfold h_at. lev f Nf K. simpl. fin3. exists p; reflexivity.
Qed.
Lemma n_must_ok r nd r1 s s1 : nth_error G r = Some nd -> nhead nd = HMust -> nsubs nd = [r1] -> PA r1 s (ROk s1) -> PA r s (ROk s1).
Proof.
  intros Hn Hh Hsb IH. node nd r Hn d c Hs Hb d'. ihok IH (opt_ d') c Hs Hb f c1 e1 K R.
  exists f. hopen Hh Hsb Nf L. unfold h_must. lev f Nf K. fin3. split; [reflexivity | exact R].
Qed.
Lemma n_must_fail r nd r1 s : nth_error G r = Some nd -> nhead nd = HMust -> nsubs nd = [r1] -> PA r1 s RFail -> PA r s (RRaise r1 s).
Proof.
  intros Hn Hh Hsb IH. node nd r Hn d c Hs Hb d'. ihfail IH (opt_ d') c Hs Hb f c1 e1 K.
  exists f. hopen Hh Hsb Nf L. unfold h_must. lev f Nf K. unfold raise_at. fin3. exists (cpos c1); reflexivity.
Qed.
Lemma n_must_raise r nd r1 s w s0 : nth_error G r = Some nd -> nhead nd = HMust -> nsubs nd = [r1] -> PA r1 s (RRaise w s0) -> PA r s (RRaise w s0).
Proof.
  intros Hn Hh Hsb IH. node nd r Hn d c Hs Hb d'. ihraise IH (opt_ d') c Hs Hb f c1 e1 K p.
  exists f. hopen Hh Hsb Nf L. unfold h_must. lev f Nf K. fin3. exists p; reflexivity.
Qed.
Lemma n_raise r nd t s : nth_error G r = Some nd -> nhead nd = HRaise -> nsubs nd = [t] -> PA r s (RRaise t s).
Proof.
  intros Hn Hh Hsb. node nd r Hn d c Hs Hb d'.
  exists 0%nat. hopen Hh Hsb Nf L. unfold raise_at. fin3. exists (cpos c); reflexivity.
Qed.

(* if_must / opt_must *)
Lemma n_ifmust_cfail r nd dflt cnd m s : nth_error G r = Some nd -> nhead nd = HIfMust dflt -> nsubs nd = [cnd; m] ->
  PA cnd s RFail -> PA r s (if dflt then ROk s else RFail).
Proof.
  intros Hn Hh Hsb IH. node nd r Hn d c Hs Hb d'. destruct dflt.
  - ihfailreq IH d' c Hs Hb f e1 K. exists f. hopen Hh Hsb Nf L. unfold h_if_must. lev f Nf K. fin3. split; [reflexivity | exact Hs].
  - ihfail IH d' c Hs Hb f c1 e1 K. exists f. hopen Hh Hsb Nf L. unfold h_if_must. lev f Nf K. fin3. reflexivity.
Qed.
Lemma n_ifmust_craise r nd dflt cnd m s w s0 : nth_error G r = Some nd -> nhead nd = HIfMust dflt -> nsubs nd = [cnd; m] ->
  PA cnd s (RRaise w s0) -> PA r s (RRaise w s0).
Proof.
  intros Hn Hh Hsb IH. node nd r Hn d c Hs Hb d'. ihraise IH (if dflt then req d' else d') c Hs Hb f c1 e1 K p.
  exists f. hopen Hh Hsb Nf L. unfold h_if_must. lev f Nf K. fin3. exists p; reflexivity.
Qed.
Lemma n_ifmust_ok r nd dflt cnd m s s1 s2 : nth_error G r = Some nd -> nhead nd = HIfMust dflt -> nsubs nd = [cnd; m] ->
  XPeg G cnd s (ROk s1) -> PA cnd s (ROk s1) -> PA m s1 (ROk s2) -> PA r s (ROk s2).
Proof.
  intros Hn Hh Hsb HX IH1 IH2. node nd r Hn d c Hs Hb d'. ihok IH1 (if dflt then req d' else d') c Hs Hb f1 c1 e1 K1 R1.
  ihok IH2 d' c1 R1 (bo_suf _ _ Hb (sufP _ _ _ HX)) f2 c2 e2 K2 R2.
  exists (Nat.max f1 f2). hopen Hh Hsb Nf L. unfold h_if_must. lev f1 Nf K1. lev f2 Nf K2. simpl. fin3. split; [reflexivity | exact R2].
Qed.
Lemma n_ifmust_raise r nd dflt cnd m s s1 w s0 : nth_error G r = Some nd -> nhead nd = HIfMust dflt -> nsubs nd = [cnd; m] ->
  XPeg G cnd s (ROk s1) -> PA cnd s (ROk s1) -> PA m s1 (RRaise w s0) -> PA r s (RRaise w s0).
Proof.
  intros Hn Hh Hsb HX IH1 IH2. node nd r Hn d c Hs Hb d'. ihok IH1 (if dflt then req d' else d') c Hs Hb f1 c1 e1 K1 R1.
  ihraise IH2 d' c1 R1 (bo_suf _ _ Hb (sufP _ _ _ HX)) f2 c2 e2 K2 p.
  exists (Nat.max f1 f2). hopen Hh Hsb Nf L. unfold h_if_must. lev f1 Nf K1. lev f2 Nf K2. simpl. fin3. exists p; reflexivity.
Qed.
Lemma n_ifmust1_ok r nd dflt cnd s s1 : nth_error G r = Some nd -> nhead nd = HIfMust dflt -> nsubs nd = [cnd] ->
  PA cnd s (ROk s1) -> PA r s (ROk s1).
Proof.
  intros Hn Hh Hsb IH. node nd r Hn d c Hs Hb d'. ihok IH (if dflt then req d' else d') c Hs Hb f c1 e1 K R.
  exists f. hopen Hh Hsb Nf L. unfold h_if_must. lev f Nf K. fin3. split; [reflexivity | exact R].
Qed.
Lemma n_ifmust1_fail r nd dflt cnd s : nth_error G r = Some nd -> nhead nd = HIfMust dflt -> nsubs nd = [cnd] ->
  PA cnd s RFail -> PA r s (if dflt then ROk s else RFail).
Proof.
  intros Hn Hh Hsb IH. node nd r Hn d c Hs Hb d'. destruct dflt.
  - ihfailreq IH d' c Hs Hb f e1 K. exists f. hopen Hh Hsb Nf L. unfold h_if_must. lev f Nf K. fin3. split; [reflexivity | exact Hs].
  - ihfail IH d' c Hs Hb f c1 e1 K. exists f. hopen Hh Hsb Nf L. unfold h_if_must. lev f Nf K. fin3. reflexivity.
Qed.
Lemma n_ifmust1_raise r nd dflt cnd s w s0 : nth_error G r = Some nd -> nhead nd = HIfMust dflt -> nsubs nd = [cnd] ->
  PA cnd s (RRaise w s0) -> PA r s (RRaise w s0).
Proof.
  intros Hn Hh Hsb IH. node nd r Hn d c Hs Hb d'. ihraise IH (if dflt then req d' else d') c Hs Hb f c1 e1 K p.
  exists f. hopen Hh Hsb Nf L. unfold h_if_must. lev f Nf K. fin3. exists p; reflexivity.
Qed.

(* until / rep / rep_opt *)
Lemma n_until1 r nd cnd s x : nth_error G r = Some nd -> nhead nd = HUntil1 -> nsubs nd = [cnd] -> PU1 cnd s x -> PA r s x.
Proof.
  intros Hn Hh Hsb IH. node nd r Hn d c Hs Hb d'. destruct (IH d' c Hs Hb) as [f [k [o [c1 [e1 [K Q]]]]]].
  exists (Nat.max f k). hopen Hh Hsb Nf L. unfold h_until1.
  rewrite (until1_lift f Nf k Nf _ _ _ _ _ _ ltac:(lia) ltac:(lia) K). apply guard_out. exact Q.
Qed.
Lemma n_until2 r nd cnd r1 s x : nth_error G r = Some nd -> nhead nd = HUntil2 -> nsubs nd = [cnd; r1] -> PU2 cnd r1 s x -> PA r s x.
Proof.
  intros Hn Hh Hsb IH. node nd r Hn d c Hs Hb d'. destruct (IH d' c Hs Hb) as [f [k [o [c1 [e1 [K Q]]]]]].
  exists (Nat.max f k). hopen Hh Hsb Nf L. unfold h_until2.
  rewrite (until2_lift f Nf k Nf _ _ _ _ _ _ _ ltac:(lia) ltac:(lia) K). apply guard_out. exact Q.
Qed.
Lemma n_rep r nd k r1 s x : nth_error G r = Some nd -> nhead nd = HRep k -> nsubs nd = [r1] -> PRep k r1 s x -> PA r s x.
Proof.
  intros Hn Hh Hsb IH. node nd r Hn d c Hs Hb d'. destruct (IH (opt_ d') c Hs Hb) as [f [o [c1 [e1 [K Q]]]]].
  exists f. hopen Hh Hsb Nf L. unfold h_rep. rewrite (rep_lift f Nf _ _ _ _ _ _ _ L K). apply guard_out. exact Q.
Qed.
Lemma n_rep_opt r nd k r1 s x : nth_error G r = Some nd -> nhead nd = HRepOpt k -> nsubs nd = [r1] -> PRepOpt k r1 s x -> PA r s x.
Proof.
  intros Hn Hh Hsb IH. node nd r Hn d c Hs Hb d'. destruct (IH d' c Hs Hb) as [f [o [c1 [e1 [b [K Q]]]]]].
  exists f. hopen Hh Hsb Nf L. unfold h_rep_opt. rewrite (repopt_lift f Nf _ _ _ _ _ _ _ _ L K). simpl. exists o, c1, e1. auto.
Qed.

(* rep_min_max *)
Lemma n_rmm_fail r nd mn mx r1 s : nth_error G r = Some nd -> nhead nd = HRepMinMax mn mx -> nsubs nd = [r1] ->
  PRep mn r1 s RFail -> PA r s RFail.
Proof.
  intros Hn Hh Hsb IH. node nd r Hn d c Hs Hb d'. destruct (IH (opt_ d') c Hs Hb) as [f [o [c1 [e1 [K Q]]]]]. simpl in Q. subst o.
  exists f. hopen Hh Hsb Nf L. unfold h_rep_min_max, bind. rewrite (rep_lift f Nf _ _ _ _ _ _ _ L K). simpl. fin3. reflexivity.
Qed.
Lemma n_rmm_raise r nd mn mx r1 s w s0 : nth_error G r = Some nd -> nhead nd = HRepMinMax mn mx -> nsubs nd = [r1] ->
  PRep mn r1 s (RRaise w s0) -> PA r s (RRaise w s0).
Proof.
  intros Hn Hh Hsb IH. node nd r Hn d c Hs Hb d'. destruct (IH (opt_ d') c Hs Hb) as [f [o [c1 [e1 [K Q]]]]]. simpl in Q. destruct Q as [p ->].
  exists f. hopen Hh Hsb Nf L. unfold h_rep_min_max, bind. rewrite (rep_lift f Nf _ _ _ _ _ _ _ L K). simpl. fin3. exists p; reflexivity.
Qed.
Lemma n_rmm_opt_raise r nd mn mx r1 s s1 w s0 : nth_error G r = Some nd -> nhead nd = HRepMinMax mn mx -> nsubs nd = [r1] ->
  XRep G mn r1 s (ROk s1) -> PRep mn r1 s (ROk s1) -> PRepOpt (mx - mn) r1 s1 (RRaise w s0) -> PA r s (RRaise w s0).
Proof.
  intros Hn Hh Hsb HX IH1 IH2. node nd r Hn d c Hs Hb d'.
  destruct (IH1 (opt_ d') c Hs Hb) as [f1 [o1 [c3 [e3 [K1 Q1]]]]]. simpl in Q1. destruct Q1 as [-> R1].
  destruct (IH2 d' c3 R1 (bo_suf _ _ Hb (sufRep _ _ _ _ HX))) as [f2 [o2 [c4 [e4 [b [K2 Q2]]]]]]. simpl in Q2. destruct Q2 as [p ->].
  exists (Nat.max f1 f2). hopen Hh Hsb Nf L. unfold h_rep_min_max, bind.
  rewrite (rep_lift f1 Nf _ _ _ _ _ _ _ ltac:(lia) K1). rewrite (repopt_lift f2 Nf _ _ _ _ _ _ _ _ ltac:(lia) K2).
  destruct b; simpl; fin3; exists p; reflexivity.
Qed.
Lemma n_rmm_ok r nd mn mx r1 s s1 s2 : nth_error G r = Some nd -> nhead nd = HRepMinMax mn mx -> nsubs nd = [r1] ->
  XRep G mn r1 s (ROk s1) -> PRep mn r1 s (ROk s1) -> XRepOpt G (mx - mn) r1 s1 (ROk s2) -> PRepOpt (mx - mn) r1 s1 (ROk s2) ->
  PA r1 s2 RFail -> PA r s (ROk s2).
Proof.
  intros Hn Hh Hsb HX1 IH1 HX2 IH2 IH3. node nd r Hn d c Hs Hb d'.
  destruct (IH1 (opt_ d') c Hs Hb) as [f1 [o1 [c3 [e3 [K1 Q1]]]]]. simpl in Q1. destruct Q1 as [-> R1].
  pose proof (bo_suf _ _ Hb (sufRep _ _ _ _ HX1)) as Hb1.
  destruct (IH2 d' c3 R1 Hb1) as [f2 [o2 [c4 [e4 [b [K2 Q2]]]]]]. simpl in Q2. destruct Q2 as [-> R2].
  pose proof (bo_suf _ _ Hb1 (sufRepOpt _ _ _ _ HX2)) as Hb2.
  destruct b.
  - ihfail IH3 (set_A (opt_ (opt_ d')) false) c4 R2 Hb2 f3 c5 e5 K3.
    exists (Nat.max f1 (Nat.max f2 f3)). hopen Hh Hsb Nf L. unfold h_rep_min_max, bind.
    rewrite (rep_lift f1 Nf _ _ _ _ _ _ _ ltac:(lia) K1). rewrite (repopt_lift f2 Nf _ _ _ _ _ _ _ _ ltac:(lia) K2).
    unfold h_at. lev f3 Nf K3. simpl. fin3. split; [reflexivity | exact R2].
  - exists (Nat.max f1 f2). hopen Hh Hsb Nf L. unfold h_rep_min_max, bind.
    rewrite (rep_lift f1 Nf _ _ _ _ _ _ _ ltac:(lia) K1). rewrite (repopt_lift f2 Nf _ _ _ _ _ _ _ _ ltac:(lia) K2).
    simpl. fin3. split; [reflexivity | exact R2].
Qed.
Lemma n_rmm_more r nd mn mx r1 s s1 s2 s3 : nth_error G r = Some nd -> nhead nd = HRepMinMax mn mx -> nsubs nd = [r1] ->
  XRep G mn r1 s (ROk s1) -> PRep mn r1 s (ROk s1) -> XRepOpt G (mx - mn) r1 s1 (ROk s2) -> PRepOpt (mx - mn) r1 s1 (ROk s2) ->
  XPeg G r1 s2 (ROk s3) -> PA r1 s2 (ROk s3) -> PA r s RFail.
Proof.
  intros Hn Hh Hsb HX1 IH1 HX2 IH2 HX3 IH3. node nd r Hn d c Hs Hb d'.
  destruct (IH1 (opt_ d') c Hs Hb) as [f1 [o1 [c3 [e3 [K1 Q1]]]]]. simpl in Q1. destruct Q1 as [-> R1].
  pose proof (bo_suf _ _ Hb (sufRep _ _ _ _ HX1)) as Hb1.
  destruct (IH2 d' c3 R1 Hb1) as [f2 [o2 [c4 [e4 [b [K2 Q2]]]]]]. simpl in Q2. destruct Q2 as [-> R2].
  pose proof (bo_suf _ _ Hb1 (sufRepOpt _ _ _ _ HX2)) as Hb2.
  destruct b.
  - ihok IH3 (set_A (opt_ (opt_ d')) false) c4 R2 Hb2 f3 c5 e5 K3 R3.
    exists (Nat.max f1 (Nat.max f2 f3)). hopen Hh Hsb Nf L. unfold h_rep_min_max, bind.
    rewrite (rep_lift f1 Nf _ _ _ _ _ _ _ ltac:(lia) K1). rewrite (repopt_lift f2 Nf _ _ _ _ _ _ _ _ ltac:(lia) K2).
    unfold h_at. lev f3 Nf K3. simpl. fin3. reflexivity.
  - exfalso. assert (Hb3 : bytes_ok (rest c3)) by (rewrite R1; exact Hb1).
    pose proof (repopt_stop f2 _ _ _ _ _ _ (sub1 _ _ _ Hn Hsb) Hb3 K2) as KS. rewrite R2 in KS.
    pose proof (XPeg_det _ _ _ _ _ KS HX3) as E. discriminate E.
Qed.
Lemma n_rmm_more_raise r nd mn mx r1 s s1 s2 w s0 : nth_error G r = Some nd -> nhead nd = HRepMinMax mn mx -> nsubs nd = [r1] ->
  XRep G mn r1 s (ROk s1) -> PRep mn r1 s (ROk s1) -> XRepOpt G (mx - mn) r1 s1 (ROk s2) -> PRepOpt (mx - mn) r1 s1 (ROk s2) ->
  XPeg G r1 s2 (RRaise w s0) -> PA r1 s2 (RRaise w s0) -> PA r s (RRaise w s0).
Proof.
  intros Hn Hh Hsb HX1 IH1 HX2 IH2 HX3 IH3. node nd r Hn d c Hs Hb d'.
  destruct (IH1 (opt_ d') c Hs Hb) as [f1 [o1 [c3 [e3 [K1 Q1]]]]]. simpl in Q1. destruct Q1 as [-> R1].
  pose proof (bo_suf _ _ Hb (sufRep _ _ _ _ HX1)) as Hb1.
  destruct (IH2 d' c3 R1 Hb1) as [f2 [o2 [c4 [e4 [b [K2 Q2]]]]]]. simpl in Q2. destruct Q2 as [-> R2].
  pose proof (bo_suf _ _ Hb1 (sufRepOpt _ _ _ _ HX2)) as Hb2.
  destruct b.
  - ihraise IH3 (set_A (opt_ (opt_ d')) false) c4 R2 Hb2 f3 c5 e5 K3 p.
    exists (Nat.max f1 (Nat.max f2 f3)). hopen Hh Hsb Nf L. unfold h_rep_min_max, bind.
    rewrite (rep_lift f1 Nf _ _ _ _ _ _ _ ltac:(lia) K1). rewrite (repopt_lift f2 Nf _ _ _ _ _ _ _ _ ltac:(lia) K2).
    unfold h_at. lev f3 Nf K3. simpl. fin3. exists p; reflexivity.
  - exfalso. assert (Hb3 : bytes_ok (rest c3)) by (rewrite R1; exact Hb1).
    pose proof (repopt_stop f2 _ _ _ _ _ _ (sub1 _ _ _ Hn Hsb) Hb3 K2) as KS. rewrite R2 in KS.
    pose proof (XPeg_det _ _ _ _ _ KS HX3) as E. discriminate E.
Qed.

(* if_then_else *)
Lemma n_ite_then r nd cnd t e s s1 x : nth_error G r = Some nd -> nhead nd = HIfThenElse -> nsubs nd = [cnd; t; e] ->
  XPeg G cnd s (ROk s1) -> PA cnd s (ROk s1) -> PA t s1 x -> PA r s x.
Proof.
  intros Hn Hh Hsb HX IH1 IH2. node nd r Hn d c Hs Hb d'. ihok IH1 (req d') c Hs Hb f1 c1 e1 K1 R1.
  destruct (IH2 (opt_ d') c1 R1 (bo_suf _ _ Hb (sufP _ _ _ HX))) as [f2 [o2 [c2 [e2 [K2 Q2]]]]].
  exists (Nat.max f1 f2). hopen Hh Hsb Nf L. unfold h_if_then_else. lev f1 Nf K1. lev f2 Nf K2. cbn [prepend]. apply guard_out. exact Q2.
Qed.
Lemma n_ite_else r nd cnd t e s x : nth_error G r = Some nd -> nhead nd = HIfThenElse -> nsubs nd = [cnd; t; e] ->
  PA cnd s RFail -> PA e s x -> PA r s x.
Proof.
  intros Hn Hh Hsb IH1 IH2. node nd r Hn d c Hs Hb d'. ihfailreq IH1 d' c Hs Hb f1 e1 K1.
  destruct (IH2 (opt_ d') c Hs Hb) as [f2 [o2 [c2 [e2 [K2 Q2]]]]].
  exists (Nat.max f1 f2). hopen Hh Hsb Nf L. unfold h_if_then_else. lev f1 Nf K1. lev f2 Nf K2. cbn [prepend]. apply guard_out. exact Q2.
Qed.
Lemma n_ite_raise r nd cnd t e s w s0 : nth_error G r = Some nd -> nhead nd = HIfThenElse -> nsubs nd = [cnd; t; e] ->
  PA cnd s (RRaise w s0) -> PA r s (RRaise w s0).
Proof.
  intros Hn Hh Hsb IH. node nd r Hn d c Hs Hb d'. ihraise IH (req d') c Hs Hb f c1 e1 K p.
  exists f. hopen Hh Hsb Nf L. unfold h_if_then_else. lev f Nf K. simpl. fin3. exists p; reflexivity.
Qed.

(* wrappers and try_catch_return_false *)
Lemma n_wrap r nd r1 s x : nth_error G r = Some nd -> wrap_head (nhead nd) = true -> nsubs nd = [r1] -> PA r1 s x -> PA r s x.
Proof.
  intros Hn Hw Hsb IH. destruct (nhead nd) eqn:Eh; try discriminate Hw; node nd r Hn d c Hs Hb d'.
  - destruct (IH d' c Hs Hb) as [f [o [c1 [e1 [K Q]]]]]. exists f. hopen Eh Hsb Nf L. lev f Nf K.
    destruct o; simpl; fin3; exact Q.
  - destruct (IH (set_act d' fam) c Hs Hb) as [f [o [c1 [e1 [K Q]]]]]. exists f. hopen Eh Hsb Nf L. lev f Nf K. exists o, c1, e1. auto.
  - destruct (IH (set_ctl d' ctl) c Hs Hb) as [f [o [c1 [e1 [K Q]]]]]. exists f. hopen Eh Hsb Nf L. lev f Nf K. exists o, c1, e1. auto.
  - destruct (IH (set_A d' true) c Hs Hb) as [f [o [c1 [e1 [K Q]]]]]. exists f. hopen Eh Hsb Nf L. lev f Nf K. exists o, c1, e1. auto.
  - destruct (IH (set_A d' false) c Hs Hb) as [f [o [c1 [e1 [K Q]]]]]. exists f. hopen Eh Hsb Nf L. lev f Nf K. exists o, c1, e1. auto.
Qed.
Lemma n_try_ok r nd flt r1 s s1 : nth_error G r = Some nd -> nhead nd = HTryCatchFalse flt -> nsubs nd = [r1] -> PA r1 s (ROk s1) -> PA r s (ROk s1).
Proof.
  intros Hn Hh Hsb IH. node nd r Hn d c Hs Hb d'. ihok IH (opt_ d') c Hs Hb f c1 e1 K R.
  exists f. hopen Hh Hsb Nf L. unfold h_try_false. lev f Nf K. fin3. split; [reflexivity | exact R].
Qed.
Lemma n_try_fail r nd flt r1 s : nth_error G r = Some nd -> nhead nd = HTryCatchFalse flt -> nsubs nd = [r1] -> PA r1 s RFail -> PA r s RFail.
Proof.
  intros Hn Hh Hsb IH. node nd r Hn d c Hs Hb d'. ihfail IH (opt_ d') c Hs Hb f c1 e1 K.
  exists f. hopen Hh Hsb Nf L. unfold h_try_false. lev f Nf K. fin3. reflexivity.
Qed.
Lemma n_try_raise r nd flt r1 s w s0 : nth_error G r = Some nd -> nhead nd = HTryCatchFalse flt -> nsubs nd = [r1] ->
  PA r1 s (RRaise w s0) -> PA r s (if catches_parse flt then RFail else RRaise w s0).
Proof.
  intros Hn Hh Hsb IH. node nd r Hn d c Hs Hb d'. ihraise IH (opt_ d') c Hs Hb f c1 e1 K p.
  exists f. hopen Hh Hsb Nf L. unfold h_try_false. lev f Nf K. rewrite catches_EParse.
  destruct (catches_parse flt); fin3; [reflexivity | exists p; reflexivity].
Qed.

Theorem complete2_all :
  (forall r s x, XPeg G r s x -> PA r s x) /\
  (forall rs s x, XSeq G rs s x -> PSeq rs s x) /\
  (forall rs s x, XSor G rs s x -> PSor rs s x) /\
  (forall r1 s x, XStar G r1 s x -> PStar r1 s x) /\
  (forall cnd s x, XUntil1 G cnd s x -> PU1 cnd s x) /\
  (forall cnd r1 s x, XUntil2 G cnd r1 s x -> PU2 cnd r1 s x) /\
  (forall k r1 s x, XRep G k r1 s x -> PRep k r1 s x) /\
  (forall k r1 s x, XRepOpt G k r1 s x -> PRepOpt k r1 s x).
Proof.
  apply XPeg_mutind; intros.
  - eapply n_atom; eauto.
  - eapply n_seq; eauto.
  - eapply n_sor; eauto.
  - eapply n_star; eauto.
  - eapply n_plus_fail; eauto.
  - eapply n_plus_raise; eauto.
  - eapply n_plus_step; eauto.
  - eapply n_opt_ok; eauto.
  - eapply n_opt_none; eauto.
  - eapply n_opt_raise; eauto.
  - eapply n_at_ok; eauto.
  - eapply n_at_fail; eauto.
  - eapply n_at_raise; eauto.
  - eapply n_not_at_ok; eauto.
  - eapply n_not_at_fail; eauto.
  - eapply n_not_at_raise; eauto.
  - eapply n_must_ok; eauto.
  - eapply n_must_fail; eauto.
  - eapply n_must_raise; eauto.
  - eapply n_raise; eauto.
  - eapply n_ifmust_cfail; eauto.
  - eapply n_ifmust_craise; eauto.
  - eapply n_ifmust_ok; eauto.
  - eapply n_ifmust_raise; eauto.
  - eapply n_ifmust1_ok; eauto.
  - eapply n_ifmust1_fail; eauto.
  - eapply n_ifmust1_raise; eauto.
  - eapply n_until1; eauto.
  - eapply n_until2; eauto.
  - eapply n_rep; eauto.
  - eapply n_rep_opt; eauto.
  - eapply n_rmm_fail; eauto.
  - eapply n_rmm_raise; eauto.
  - eapply n_rmm_opt_raise; eauto.
  - eapply n_rmm_ok; eauto.
  - eapply n_rmm_more; eauto.
  - eapply n_rmm_more_raise; eauto.
  - eapply n_ite_then; eauto.
  - eapply n_ite_else; eauto.
  - eapply n_ite_raise; eauto.
  - eapply n_wrap; eauto.
  - eapply n_try_ok; eauto.
  - eapply n_try_fail; eauto.
  - eapply n_try_raise; eauto.
  - apply c_seq_nil.
  - apply c_seq_fail; auto.
  - apply c_seq_raise; auto.
  - eapply c_seq_ok; eauto.
  - apply c_sor_nil.
  - apply c_sor_ok; auto.
  - apply c_sor_raise; auto.
  - apply c_sor_next; auto.
  - apply c_star_end; auto.
  - apply c_star_raise; auto.
  - eapply c_star_step; eauto.
  - apply c_u1_ok; auto.
  - apply c_u1_raise; auto.
  - apply c_u1_eof; auto.
  - apply c_u1_skip; auto.
  - apply c_u2_ok; auto.
  - apply c_u2_raise; auto.
  - apply c_u2_fail; auto.
  - apply c_u2_rraise; auto.
  - eapply c_u2_step; eauto.
  - apply c_rep_zero.
  - apply c_rep_fail; auto.
  - apply c_rep_raise; auto.
  - eapply c_rep_step; eauto.
  - apply c_q_zero.
  - apply c_q_stop; auto.
  - apply c_q_raise; auto.
  - eapply c_q_step; eauto.
Qed.

End Complete2.

(* ---------- the statements ---------- *)
(* how an engine outcome agrees with a verdict of the formalism: same rest on success; on a raise a parse_error
   blaming the same rule, at a byte at or after the point where the blamed attempt began (s0 = input left there;
   both sides count from the same origin: bytes read + bytes to read is constant) *)
Definition agrees (c : cursor) (x : sres) (o : outcome) (c' : cursor) : Prop :=
  match x with
  | ROk s' => o = Ok /\ rest c' = s'
  | RFail => o = Fail
  | RRaise w s0 => exists p, o = Exc (EParse (WRule w) p) /\
                     N.of_nat (length (rest c)) + pbyte (cpos c) <= pbyte p + N.of_nat (length s0)
  end.

Theorem raise_complete2 : forall G C, table_wf G -> void_cfg C -> cm2_table G ->
  forall d r c x, bytes_ok (rest c) -> XPeg G r (rest c) x ->
  exists f o c' evs, eval G C f d r c = Res o c' evs /\ agrees c x o c'.
Proof.
  intros G C HG HC Hcm d r c x Hb HX. pose proof HC as [H1 [H2 H3]].
  destruct (proj1 (complete2_all G C HG H1 H2 H3 Hcm) r (rest c) x HX d c eq_refl Hb) as [f [o [c' [evs [K Q]]]]].
  exists f, o, c', evs. split; [exact K|].
  destruct x as [s'| |w s0]; simpl in Q |- *; try exact Q.
  destruct Q as [p ->].
  pose proof (raise_sound2_pos G C HG HC Hcm f d r c _ c' evs (XPeg_defined _ _ _ _ HX) Hb K) as S.
  destruct S as [w' [p' [s0' [He [HX' Hp]]]]]. inversion He; subst w' p'.
  pose proof (XPeg_det _ _ _ _ _ HX' HX) as E. inversion E; subst s0'.
  exists p. split; [reflexivity | exact Hp].
Qed.

(* two-way identity on the extended fragment *)
Theorem identity2 : forall G C, table_wf G -> void_cfg C -> cm2_table G ->
  forall d r c, (r < length G)%nat -> bytes_ok (rest c) ->
  (forall x, XPeg G r (rest c) x -> exists f o c' evs, eval G C f d r c = Res o c' evs /\ agrees c x o c') /\
  (forall f o c' evs, eval G C f d r c = Res o c' evs -> exists x, XPeg G r (rest c) x /\ agrees c x o c').
Proof.
  intros G C HG HC Hcm d r c Hl Hb. split.
  - intros x HX. eapply raise_complete2; eauto.
  - intros f o c' evs K. pose proof (raise_sound2_pos G C HG HC Hcm f d r c o c' evs Hl Hb K) as S.
    destruct o as [| |e].
    + exists (ROk (rest c')). split; [exact S | split; reflexivity].
    + exists RFail. split; [exact S | reflexivity].
    + destruct S as [w [p [s0 [He [HX Hp]]]]]. exists (RRaise w s0). split; [exact HX|]. exists p. split; [rewrite He; reflexivity | exact Hp].
Qed.

(* the engine reaches a verdict exactly when the formalism has a derivation *)
Theorem terminates_iff2 : forall G C, table_wf G -> void_cfg C -> cm2_table G ->
  forall d r c, (r < length G)%nat -> bytes_ok (rest c) ->
  ((exists x, XPeg G r (rest c) x) <-> (exists f o c' evs, eval G C f d r c = Res o c' evs)).
Proof.
  intros G C HG HC Hcm d r c Hl Hb. destruct (identity2 G C HG HC Hcm d r c Hl Hb) as [A B]. split.
  - intros [x HX]. destruct (A x HX) as [f [o [c' [evs [K _]]]]]. eauto.
  - intros [f [o [c' [evs K]]]]. destruct (B f o c' evs K) as [x [HX _]]. eauto.
Qed.

(* ---------- the original fragment (cm_table) and the original relation RPeg ---------- *)
Lemma cm_old G : cm_table G -> old_table G.
Proof.
  intros H r nd Hn. pose proof (H r nd Hn) as K. unfold cm_node in K. destruct K as [_ K]. split.
  - destruct (nhead nd); simpl; try exact I;
    destruct K as [_ [a [_ Ha]]]; unfold den_node in Ha; simpl in Ha; discriminate Ha.
  - intros dflt E. rewrite E in K. destruct K as [cnd [m [Hs _]]]. rewrite Hs. reflexivity.
Qed.

Theorem raise_complete : forall G C, table_wf G -> void_cfg C -> cm_table G ->
  forall d r c x, bytes_ok (rest c) -> RPeg G r (rest c) x ->
  exists f o c' evs, eval G C f d r c = Res o c' evs /\ agrees c x o c'.
Proof.
  intros G C HG HC Hcm d r c x Hb HX.
  exact (raise_complete2 G C HG HC (cm_cm2 G Hcm) d r c x Hb (RPeg_XPeg G r (rest c) x HX)).
Qed.

Theorem identity : forall G C, table_wf G -> void_cfg C -> cm_table G ->
  forall d r c, (r < length G)%nat -> bytes_ok (rest c) ->
  (forall x, RPeg G r (rest c) x -> exists f o c' evs, eval G C f d r c = Res o c' evs /\ agrees c x o c') /\
  (forall f o c' evs, eval G C f d r c = Res o c' evs -> exists x, RPeg G r (rest c) x /\ agrees c x o c') /\
  ((exists x, RPeg G r (rest c) x) <-> (exists f o c' evs, eval G C f d r c = Res o c' evs)).
Proof.
  intros G C HG HC Hcm d r c Hl Hb.
  destruct (identity2 G C HG HC (cm_cm2 G Hcm) d r c Hl Hb) as [A B].
  assert (B' : forall f o c' evs, eval G C f d r c = Res o c' evs -> exists x, RPeg G r (rest c) x /\ agrees c x o c').
  { intros f o c' evs K. destruct (B f o c' evs K) as [x [HX Ha]]. exists x. split; [|exact Ha].
    apply XPeg_RPeg; [apply cm_old; exact Hcm | exact HX]. }
  split; [intros x HX; eapply raise_complete; eauto|]. split; [exact B'|]. split.
  - intros [x HX]. destruct (raise_complete G C HG HC Hcm d r c x Hb HX) as [f [o [c' [evs [K _]]]]]. eauto.
  - intros [f [o [c' [evs K]]]]. destruct (B' f o c' evs K) as [x [HX _]]. eauto.
Qed.

(* ---------- worked example: rep_min_max / until / if_then_else with must ---------- *)
(* 0: seq< 1, 4 >   1: rep_min_max< 1, 2, 2 >   2: one<'a'>   3: one<'b'>   4: if_then_else< 3, 5, 7 >
   5: must< 6 >   6: until< 3 > (until the next 'b')   7: eof *)
Definition xx_G : grammar :=
  [ mknode HSeq [1; 4]%nat true; mknode (HRepMinMax 1 2) [2%nat] true; mknode (HOne true PkChar [97%Z]) [] true;
    mknode (HOne true PkChar [98%Z]) [] true; mknode HIfThenElse [3; 5; 7]%nat true; mknode HMust [6%nat] false;
    mknode HUntil1 [3%nat] true; mknode HEof [] true ].
Lemma xx_G_cm2 : cm2_table xx_G.
Proof.
  assert (A : forall h z, h = HOne true PkChar [Z.of_N z] -> z < 128 -> exists a, atom_den h a).
  { intros h z -> Hz. exists (SOne [z]). split; [reflexivity|]. unfold den_node. simpl. rewrite Z.eqb_refl. simpl.
    apply N.ltb_lt in Hz. rewrite Hz. reflexivity. }
  intros r nd H. destruct r as [|[|[|[|[|[|[|[|r]]]]]]]]; simpl in H; try (destruct r; discriminate H); inversion H; subst nd; unfold cm2_node; simpl.
  - split; [repeat constructor | discriminate].
  - split; [repeat constructor | eauto].
  - split; [constructor|]. split; [reflexivity|]. apply (A _ 97); [reflexivity | reflexivity].
  - split; [constructor|]. split; [reflexivity|]. apply (A _ 98); [reflexivity | reflexivity].
  - split; [repeat constructor | eauto].
  - split; [repeat constructor | eauto].
  - split; [repeat constructor | eauto].
  - split; [constructor|]. split; [reflexivity|]. exists SEof. split; reflexivity.
Qed.
(* "aabcc": rep_min_max takes "aa", 'b' selects the then-branch, must< until< one<'b'> > > fails at the end of
   the input: the raise blames rule 6 and is reported at byte 5, while the blamed attempt began at byte 3 *)
Example identity2_example :
  XPeg xx_G 0%nat [97; 97; 98; 99; 99] (RRaise 6%nat [99; 99]) /\
  exists c' evs, run xx_G ex_C 30 (mkdyn true true 0 0 0) 0%nat [97; 97; 98; 99; 99] pos0
                 = Res (Exc (EParse (WRule 6%nat) (mkpos 5 1 6))) c' evs.
Proof.
  split; [|eexists; eexists; vm_compute; reflexivity].
  assert (A : forall s, XPeg xx_G 2%nat (97 :: s) (ROk s)).
  { intros s. change (ROk s) with (lift (Some s)).
    eapply (XP_atom xx_G 2%nat _ (SOne [97])); [reflexivity | reflexivity | split; reflexivity | exact (P_one [] [97] (97 :: s))]. }
  assert (NA : forall b s, b <> 97 -> XPeg xx_G 2%nat (b :: s) RFail).
  { intros b s Hb. change RFail with (lift None).
    eapply (XP_atom xx_G 2%nat _ (SOne [97])); [reflexivity | reflexivity | split; reflexivity |].
    pose proof (P_one [] [97] (b :: s)) as P. simpl in P. destruct (N.eqb_spec b 97); [contradiction | exact P]. }
  assert (B : forall s, XPeg xx_G 3%nat (98 :: s) (ROk s)).
  { intros s. change (ROk s) with (lift (Some s)).
    eapply (XP_atom xx_G 3%nat _ (SOne [98])); [reflexivity | reflexivity | split; reflexivity | exact (P_one [] [98] (98 :: s))]. }
  assert (NB : forall s, XPeg xx_G 3%nat (99 :: s) RFail).
  { intros s. change RFail with (lift None).
    eapply (XP_atom xx_G 3%nat _ (SOne [98])); [reflexivity | reflexivity | split; reflexivity | exact (P_one [] [98] (99 :: s))]. }
  assert (NBe : XPeg xx_G 3%nat [] RFail).
  { change RFail with (lift None).
    eapply (XP_atom xx_G 3%nat _ (SOne [98])); [reflexivity | reflexivity | split; reflexivity | exact (P_one [] [98] [])]. }
  eapply XP_seq; [reflexivity | reflexivity | discriminate |]. cbn [nsubs nth_error xx_G].
  eapply (XS_ok xx_G 1%nat [4%nat] _ [98; 99; 99]).
  - eapply (XP_rmm_ok xx_G 1%nat _ 1 2 2%nat _ [97; 98; 99; 99] [98; 99; 99]); [reflexivity | reflexivity | reflexivity | | |].
    + eapply XR_step; [apply A | apply XR_zero].
    + eapply XQ_step; [apply A | apply XQ_zero].
    + apply NA. discriminate.
  - apply XS_raise.
    eapply (XP_ite_then xx_G 4%nat _ 3%nat 5%nat 7%nat _ [99; 99]); [reflexivity | reflexivity | reflexivity | apply B |].
    eapply XP_must_fail; [reflexivity | reflexivity | reflexivity |].
    eapply XP_until1; [reflexivity | reflexivity | reflexivity |].
    apply XU1_skip; [apply NB|]. apply XU1_skip; [apply NB|]. apply XU1_eof. exact NBe.
Qed.

(* ---------- aliases and conversion: try_catch_return_false< list_must< one<'a'>, one<','> > > ----------
   list_must< R, S > = seq< R, star< S, must< R > > >:
   0: try_catch_return_false< 1 >   1: seq< 2, 3 >   2: one<'a'>   3: star< 4 >   4: seq< 5, 6 >   5: one<','>   6: must< 2 >
   star_must< one<'a'>, one<','> > = star< if_must< false, one<'a'>, one<','> > >:   7: star< 8 >   8: if_must< false, 2, 9 >   9: must< 5 > *)
Definition al_G : grammar :=
  [ mknode (HTryCatchFalse FParse) [1%nat] false; mknode HSeq [2; 3]%nat true; mknode (HOne true PkChar [97%Z]) [] true;
    mknode HStarPartial [4%nat] true; mknode HSeq [5; 6]%nat true; mknode (HOne true PkChar [44%Z]) [] true; mknode HMust [2%nat] false;
    mknode HStarPartial [8%nat] true; mknode (HIfMust false) [2; 9]%nat true; mknode HMust [5%nat] false ].
Lemma al_G_wf : table_wf al_G.
Proof. intros r nd H. do 10 (destruct r as [|r]; [simpl in H; inversion H; subst; exact I|]). destruct r; discriminate. Qed.
Lemma al_G_cm2 : cm2_table al_G.
Proof.
  assert (A : forall h z, h = HOne true PkChar [Z.of_N z] -> z < 128 -> exists a, atom_den h a).
  { intros h z -> Hz. exists (SOne [z]). split; [reflexivity|]. unfold den_node. simpl. rewrite Z.eqb_refl. simpl.
    apply N.ltb_lt in Hz. rewrite Hz. reflexivity. }
  intros r nd H. destruct r as [|[|[|[|[|[|[|[|[|[|r]]]]]]]]]]; simpl in H; try (destruct r; discriminate H); inversion H; subst nd; unfold cm2_node; simpl.
  - split; [repeat constructor | eauto].
  - split; [repeat constructor | discriminate].
  - split; [constructor|]. split; [reflexivity|]. apply (A _ 97); reflexivity.
  - split; [repeat constructor | eauto].
  - split; [repeat constructor | discriminate].
  - split; [constructor|]. split; [reflexivity|]. apply (A _ 44); reflexivity.
  - split; [repeat constructor | eauto].
  - split; [repeat constructor | eauto].
  - split; [repeat constructor|]. left. exists 2%nat, 9%nat. split; [reflexivity|].
    exists (mknode HMust [5%nat] false). split; [reflexivity|]. left. split; [reflexivity | exists 5%nat; reflexivity].
  - split; [repeat constructor | eauto].
Qed.
Lemma ex_C_void : void_cfg RaiseSound.ex_C.
Proof. split; [intros; exact I|]. split; [intros; eexists; reflexivity | intros; reflexivity]. Qed.
(* "a,b": the must< one<'a'> > after the separator raises (rule 2, byte 2); try_catch_return_false turns it into a
   local failure; star_must on "a,a;" raises rule 5 (the ',' that must follow) at byte 3.  The formalism's
   verdicts are OBTAINED from the engine runs through the soundness theorem. *)
Example alias_example :
  (exists s0, XPeg al_G 1%nat [97; 44; 98] (RRaise 2%nat s0)) /\
  XPeg al_G 0%nat [97; 44; 98] RFail /\
  (exists s0, XPeg al_G 7%nat [97; 44; 97; 59] (RRaise 5%nat s0)).
Proof.
  assert (B : forall l, Forall (fun b => b < 128) l -> bytes_ok l).
  { intros l H. eapply Forall_impl; [|exact H]. intros b Hb. simpl in Hb. lia. }
  split; [|split].
  - assert (E : exists c' evs, eval al_G RaiseSound.ex_C 30 (mkdyn true true 0 0 0) 1%nat (mkcur [97; 44; 98] pos0)
                 = Res (Exc (EParse (WRule 2%nat) (mkpos 2 1 3))) c' evs) by (eexists; eexists; vm_compute; reflexivity).
    destruct E as [c' [evs E]].
    apply (raise_sound2_pos al_G _ al_G_wf ex_C_void al_G_cm2) in E; [|simpl; lia | apply B; repeat constructor].
    destruct E as [w [p [s0 [He [HX _]]]]]. inversion He; subst. exists s0. exact HX.
  - assert (E : exists c' evs, eval al_G RaiseSound.ex_C 30 (mkdyn true true 0 0 0) 0%nat (mkcur [97; 44; 98] pos0)
                 = Res Fail c' evs) by (eexists; eexists; vm_compute; reflexivity).
    destruct E as [c' [evs E]].
    apply (raise_sound2_pos al_G _ al_G_wf ex_C_void al_G_cm2) in E; [exact E | simpl; lia | apply B; repeat constructor].
  - assert (E : exists c' evs, eval al_G RaiseSound.ex_C 30 (mkdyn true true 0 0 0) 7%nat (mkcur [97; 44; 97; 59] pos0)
                 = Res (Exc (EParse (WRule 5%nat) (mkpos 3 1 4))) c' evs) by (eexists; eexists; vm_compute; reflexivity).
    destruct E as [c' [evs E]].
    apply (raise_sound2_pos al_G _ al_G_wf ex_C_void al_G_cm2) in E; [|simpl; lia | apply B; repeat constructor].
    destruct E as [w [p [s0 [He [HX _]]]]]. inversion He; subst. exists s0. exact HX.
Qed.

Print Assumptions raise_complete2.
Print Assumptions identity2.
Print Assumptions raise_complete.
Print Assumptions identity.
Print Assumptions identity2_example.
Print Assumptions alias_example.
